(* The two models of parser.number() agree on their common domain.

   Model/Lexer.v (C05)    lex_number neg s     : s = the blank-delimited token, sign passed separately, Coq strings
   Model/Spelling.v (C10) lex_number text      : the text at the current position (sign, token, what follows),
                                                 lists of code points, skip_whitespace and the ':' look-ahead modelled
   Common domain: an ASCII token that is either  ^ l d...  (l any ASCII character, d... token characters) or a
   non-empty run of token characters [A-Za-z0-9_$.], followed by text that cannot continue it ([follow_ok]).
   On it both give the same value / flags / kind of refusal; C10_number_spellings and C05_lex_spell therefore
   speak about one function. *)
From Coq Require Import List NArith ZArith Bool Lia String Ascii.
From Verif Require Import Base.Res Base.Range Gen.GenSpelling Model.CIDict Model.SkipWs Model.Spelling Proofs.SpellingP Proofs.SpellingNumP.
From Verif Require Model.Lexer.
Import ListNotations.
Open Scope N_scope.
Open Scope list_scope.

Definition A (c : N) : ascii := ascii_of_N c.
Definition str_of (l : list N) : string := fold_right (fun c s => String (A c) s) EmptyString l.

(* a common reading of the two result types *)
Inductive absnum := ANum (v : Z) (invalid8 reported : bool) | ANot | ACrit.
Definition abs_s (r : lexres) : option absnum :=
  match r with
  | LNumber v _ i8 rep => Some (ANum v i8 rep)
  | LNotNumber => Some ANot
  | LCritical => Some ACrit
  | LUnmodelled => None
  end.
Definition abs_l (r : Lexer.lexnum) : absnum :=
  match r with
  | Lexer.LexNum v i8 rep => ANum v i8 rep
  | Lexer.LexLabel | Lexer.LexNoMatch => ANot
  | Lexer.LexCrit _ => ACrit
  end.

(* ------------------------------------------------------------------ characters *)
Lemma code_A c : c < 256 -> Lexer.code (A c) = c.
Proof. intros H. unfold Lexer.code, A. apply N_ascii_embedding. exact H. Qed.

Lemma A_inj c k : c < 256 -> k < 256 -> A c = A k -> c = k.
Proof. intros Hc Hk E. rewrite <- (code_A c Hc), <- (code_A k Hk), E. reflexivity. Qed.

Lemma is_char_A c k : c < 256 -> k < 256 -> Lexer.is_char (A c) (A k) = (c =? k).
Proof.
  intros Hc Hk. unfold Lexer.is_char. destruct (N.eqb_spec c k) as [->|Hne].
  - apply Ascii.eqb_refl.
  - apply Ascii.eqb_neq. intros E. apply Hne. apply A_inj; assumption.
Qed.

Lemma dd c : c < 256 -> Lexer.is_decimal_digit (A c) = is_digit c.
Proof. intros H. unfold Lexer.is_decimal_digit, is_digit. rewrite code_A by exact H. reflexivity. Qed.
Lemma lo c : c < 256 -> Lexer.is_lower_alpha (A c) = ((97 <=? c) && (c <=? 122)).
Proof. intros H. unfold Lexer.is_lower_alpha. rewrite code_A by exact H. reflexivity. Qed.
Lemma up c : c < 256 -> Lexer.is_upper_alpha (A c) = ((65 <=? c) && (c <=? 90)).
Proof. intros H. unfold Lexer.is_upper_alpha. rewrite code_A by exact H. reflexivity. Qed.
Lemma al c : c < 256 -> Lexer.is_alpha (A c) = is_alpha c.
Proof. intros H. unfold Lexer.is_alpha, is_alpha. rewrite lo, up by exact H. apply orb_comm. Qed.

Lemma lower_A c : c < 256 -> Lexer.lower (A c) = A (ascii_lower c).
Proof.
  intros H. unfold Lexer.lower, ascii_lower. rewrite up by exact H.
  destruct ((65 <=? c) && (c <=? 90)); [rewrite code_A by exact H|]; reflexivity.
Qed.

Lemma ascii_lower_256 c : c < 256 -> ascii_lower c < 256.
Proof.
  intros H. unfold ascii_lower. destruct ((65 <=? c) && (c <=? 90)) eqn:E; [|exact H].
  apply andb_true_iff in E. destruct E as [_ E]. apply N.leb_le in E. lia.
Qed.

Lemma tokch_A c : c < 256 -> Lexer.local_symbol_char (A c) = is_tokch c.
Proof.
  intros H. unfold Lexer.local_symbol_char, is_tokch. rewrite dd, al by exact H.
  change "_"%char with (A 95). change "$"%char with (A 36). change "."%char with (A 46).
  rewrite !is_char_A by (try exact H; lia). reflexivity.
Qed.

Lemma digit_val_A c : c < 256 -> Lexer.digit_val (A c) = digit_val c.
Proof.
  intros H. unfold Lexer.digit_val, digit_val. rewrite dd, lo, up by exact H. rewrite code_A by exact H. reflexivity.
Qed.

(* ------------------------------------------------------------------ strings *)
Definition small (l : list N) : Prop := Forall (fun c => c < 256) l.

Lemma forallb_str p l : Lexer.str_forallb p (str_of l) = forallb (fun c => p (A c)) l.
Proof. induction l as [|c r IH]; simpl; [reflexivity | rewrite IH; reflexivity]. Qed.
Lemma existsb_str p l : Lexer.str_existsb p (str_of l) = existsb (fun c => p (A c)) l.
Proof. induction l as [|c r IH]; simpl; [reflexivity | rewrite IH; reflexivity]. Qed.

Lemma forallb_ext_small (p q : N -> bool) l : small l -> (forall c, c < 256 -> p c = q c) -> forallb p l = forallb q l.
Proof. induction 1 as [|c r Hc _ IH]; intros E; simpl; [reflexivity | rewrite (E c Hc), IH by exact E; reflexivity]. Qed.
Lemma existsb_ext_small (p q : N -> bool) l : small l -> (forall c, c < 256 -> p c = q c) -> existsb p l = existsb q l.
Proof. induction 1 as [|c r Hc _ IH]; intros E; simpl; [reflexivity | rewrite (E c Hc), IH by exact E; reflexivity]. Qed.

Lemma last_str l : Lexer.str_last (str_of l) = option_map A (last_opt l).
Proof.
  induction l as [|c r IH]; [reflexivity|]. destruct r as [|d t]; [reflexivity|].
  change (str_of (c :: d :: t)) with (String (A c) (str_of (d :: t))).
  change (Lexer.str_last (String (A c) (str_of (d :: t)))) with (Lexer.str_last (str_of (d :: t))).
  rewrite IH. reflexivity.
Qed.

Lemma drop_last_str l : Lexer.str_drop_last (str_of l) = str_of (removelast l).
Proof.
  induction l as [|c r IH]; [reflexivity|]. destruct r as [|d t]; [reflexivity|].
  change (str_of (c :: d :: t)) with (String (A c) (str_of (d :: t))).
  change (Lexer.str_drop_last (String (A c) (str_of (d :: t)))) with (String (A c) (Lexer.str_drop_last (str_of (d :: t)))).
  rewrite IH. reflexivity.
Qed.

Lemma int_digits_str base l : small l -> forall acc, Lexer.int_digits base (str_of l) acc = int_digits base acc l.
Proof.
  induction 1 as [|c r Hc _ IH]; intros acc; [reflexivity|].
  simpl. rewrite digit_val_A by exact Hc. destruct (digit_val c) as [d|]; [|reflexivity].
  destruct (d <? base); [apply IH | reflexivity].
Qed.

Lemma small_removelast l : small l -> small (removelast l).
Proof. induction 1 as [|c r Hc Hr IH]; [constructor|]. destruct r; [constructor|]. simpl. constructor; [exact Hc | exact IH]. Qed.

Lemma strip_str base l : small l -> Lexer.strip_base_prefix base (str_of l) = str_of (strip_base_prefix base l).
Proof.
  intros S. unfold Lexer.strip_base_prefix, strip_base_prefix.
  destruct l as [|z [|l0 r]]; try (destruct (Lexer.base_letter base); reflexivity).
  inversion S as [|? ? Hz S']; subst. inversion S' as [|? ? Hl _]; subst.
  change (str_of (z :: l0 :: r)) with (String (A z) (String (A l0) (str_of r))).
  unfold Lexer.base_letter.
  change "0"%char with (A 48).
  destruct (base =? 16) eqn:E16.
  - change "x"%char with (A 120). rewrite lower_A by exact Hl.
    rewrite !is_char_A by (try assumption; try lia; apply ascii_lower_256; exact Hl).
    apply N.eqb_eq in E16. subst base.
    change (16 =? 16) with true. change (16 =? 8) with false. change (16 =? 2) with false.
    destruct (z =? 48), (ascii_lower l0 =? 120), (ascii_lower l0 =? 111), (ascii_lower l0 =? 98); reflexivity.
  - destruct (base =? 8) eqn:E8.
    + change "o"%char with (A 111). rewrite lower_A by exact Hl.
      rewrite !is_char_A by (try assumption; try lia; apply ascii_lower_256; exact Hl).
      apply N.eqb_eq in E8. subst base.
      change (8 =? 8) with true. change (8 =? 2) with false.
      destruct (z =? 48), (ascii_lower l0 =? 120), (ascii_lower l0 =? 111), (ascii_lower l0 =? 98); reflexivity.
    + destruct (base =? 2) eqn:E2.
      * change "b"%char with (A 98). rewrite lower_A by exact Hl.
        rewrite !is_char_A by (try assumption; try lia; apply ascii_lower_256; exact Hl).
        destruct (z =? 48), (ascii_lower l0 =? 120), (ascii_lower l0 =? 111), (ascii_lower l0 =? 98); reflexivity.
      * destruct (z =? 48), (ascii_lower l0 =? 120), (ascii_lower l0 =? 111), (ascii_lower l0 =? 98); reflexivity.
Qed.

Lemma small_strip base l : small l -> small (strip_base_prefix base l).
Proof.
  intros S. unfold strip_base_prefix. destruct l as [|z [|l0 r]]; try exact S.
  destruct ((z =? 48) && _); [|exact S]. inversion S as [|? ? _ S']; subst. inversion S'; subst. assumption.
Qed.

Lemma py_int_str base l : small l -> Lexer.py_int base (str_of l) = py_int base l.
Proof.
  intros S. unfold Lexer.py_int, py_int. rewrite strip_str by exact S.
  pose proof (small_strip base l S) as S'. destruct (strip_base_prefix base l) as [|c r] eqn:E; [reflexivity|].
  change (match str_of (c :: r) with EmptyString => None | String a s0 => Lexer.int_digits base (String a s0) 0 end)
    with (Lexer.int_digits base (str_of (c :: r)) 0).
  apply int_digits_str. exact S'.
Qed.

Lemma tokch_small l : forallb is_tokch l = true -> small l.
Proof.
  induction l as [|c r IH]; intros H; [constructor|]. simpl in H. apply andb_true_iff in H. destruct H as [H1 H2].
  constructor; [|apply IH; exact H2].
  unfold is_tokch, is_digit, is_alpha in H1.
  repeat (apply orb_true_iff in H1; destruct H1 as [H1|H1]);
    try (apply andb_true_iff in H1; destruct H1 as [_ U]; apply N.leb_le in U; lia);
    try (apply N.eqb_eq in H1; lia).
Qed.

(* ------------------------------------------------------------------ signs *)
Definition sgn (neg : bool) : Z := if neg then (-1)%Z else 1%Z.
Lemma signed_sgn neg n : (sgn neg * Z.of_N n)%Z = Lexer.signed neg n.
Proof. destruct neg; unfold sgn, Lexer.signed; lia. Qed.

(* ------------------------------------------------------------------ the plain token *)
Lemma removelast_nonempty (c d : N) r : removelast (c :: d :: r) <> [].
Proof. simpl. discriminate. Qed.

Lemma c_base_agree l : l < 256 -> c_base l = Lexer.base_letter_inv (Lexer.lower (A l)).
Proof.
  intros H. rewrite lower_A by exact H. unfold Lexer.base_letter_inv.
  change "x"%char with (A 120). change "o"%char with (A 111). change "b"%char with (A 98).
  rewrite !is_char_A by (try lia; apply ascii_lower_256; exact H).
  unfold c_base, c_bases. cbn [map fst snd assoc_str str_eqb].
  change (s2n "x") with [120]. change (s2n "o") with [111]. change (s2n "b") with [98].
  cbn [str_eqb]. rewrite !andb_true_r.
  rewrite (N.eqb_sym 120), (N.eqb_sym 111), (N.eqb_sym 98).
  destruct (ascii_lower l =? 120); [reflexivity|]. destruct (ascii_lower l =? 111); [reflexivity|].
  destruct (ascii_lower l =? 98); reflexivity.
Qed.

Lemma mem3_str num : small num ->
  Lexer.str_existsb (fun c => Lexer.is_char c "$" || Lexer.is_char c "_" || Lexer.is_char c ".") (str_of num)
  = mem_ch 36 num || mem_ch 95 num || mem_ch 46 num.
Proof.
  intros S. rewrite existsb_str. unfold mem_ch.
  induction S as [|c r Hc _ IH]; [reflexivity|]. cbn [existsb]. rewrite IH.
  change "$"%char with (A 36). change "_"%char with (A 95). change "."%char with (A 46).
  rewrite !is_char_A by (try exact Hc; lia).
  rewrite (N.eqb_sym 36), (N.eqb_sym 95), (N.eqb_sym 46).
  destruct (c =? 36), (c =? 95), (c =? 46), (existsb (N.eqb 36) r), (existsb (N.eqb 95) r), (existsb (N.eqb 46) r); reflexivity.
Qed.

Lemma mem89_str num : small num ->
  Lexer.str_existsb (fun c => Lexer.is_char c "8" || Lexer.is_char c "9") (str_of num) = mem_ch 56 num || mem_ch 57 num.
Proof.
  intros S. rewrite existsb_str. unfold mem_ch.
  induction S as [|c r Hc _ IH]; [reflexivity|]. cbn [existsb]. rewrite IH.
  change "8"%char with (A 56). change "9"%char with (A 57).
  rewrite !is_char_A by (try exact Hc; lia). rewrite (N.eqb_sym 56), (N.eqb_sym 57).
  destruct (c =? 56), (c =? 57), (existsb (N.eqb 56) r), (existsb (N.eqb 57) r); reflexivity.
Qed.

(* digits only: int() in base 10 never fails, and in base 8 it does not fail without 8 / 9 *)
Lemma int_digits_dec l : forallb is_digit l = true -> forall acc, exists v, int_digits 10 acc l = Some v.
Proof.
  induction l as [|c r IH]; intros H acc; [exists acc; reflexivity|].
  simpl in H. apply andb_true_iff in H. destruct H as [H1 H2]. simpl. unfold digit_val. rewrite H1.
  unfold is_digit in H1. apply andb_true_iff in H1. destruct H1 as [L U]. apply N.leb_le in L, U.
  replace (c - 48 <? 10) with true by (symmetry; apply N.ltb_lt; lia). apply IH. exact H2.
Qed.

Lemma int_digits_oct l : forallb is_digit l = true -> mem_ch 56 l || mem_ch 57 l = false ->
  forall acc, exists v, int_digits 8 acc l = Some v.
Proof.
  induction l as [|c r IH]; intros H M acc; [exists acc; reflexivity|].
  simpl in H. apply andb_true_iff in H. destruct H as [H1 H2].
  unfold mem_ch in M. cbn [existsb] in M. apply orb_false_iff in M. destruct M as [M8 M9].
  apply orb_false_iff in M8, M9. destruct M8 as [M8 M8r], M9 as [M9 M9r].
  apply N.eqb_neq in M8, M9.
  simpl. unfold digit_val. rewrite H1.
  unfold is_digit in H1. apply andb_true_iff in H1. destruct H1 as [L U]. apply N.leb_le in L, U.
  replace (c - 48 <? 8) with true by (symmetry; apply N.ltb_lt; lia).
  apply IH; [exact H2|]. unfold mem_ch. rewrite M8r, M9r. reflexivity.
Qed.

Lemma py_int_digits_only base l : (base = 10 \/ base = 8) -> forallb is_digit l = true -> l <> [] ->
  py_int base l = int_digits base 0 l.
Proof.
  intros Hb D NE. unfold py_int.
  assert (S : strip_base_prefix base l = l).
  { unfold strip_base_prefix. destruct l as [|z [|l0 r]]; try reflexivity.
    cbn [forallb] in D. apply andb_true_iff in D. destruct D as [_ D]. apply andb_true_iff in D. destruct D as [D _].
    assert (ascii_lower l0 = l0).
    { unfold ascii_lower. pose proof (digit_not_alpha l0 D) as Na. unfold is_alpha in Na. apply orb_false_iff in Na.
      destruct Na as [Na _]. rewrite Na. reflexivity. }
    rewrite H. unfold is_digit in D. apply andb_true_iff in D. destruct D as [L U]. apply N.leb_le in L, U.
    replace (l0 =? 120) with false by (symmetry; apply N.eqb_neq; lia).
    replace (l0 =? 111) with false by (symmetry; apply N.eqb_neq; lia).
    replace (l0 =? 98) with false by (symmetry; apply N.eqb_neq; lia).
    rewrite !andb_false_r. reflexivity. }
  rewrite S. destruct l; [contradiction | reflexivity].
Qed.

Lemma classify_token_agree neg tok c0 r :
  tok = c0 :: r -> is_digit c0 = true -> forallb is_tokch tok = true ->
  abs_s (classify_token (sgn neg) tok) = Some (abs_l (Lexer.lex_plain neg (str_of tok))).
Proof.
  intros E D0 T. pose proof (tokch_small tok T) as S.
  unfold Lexer.lex_plain, classify_token.
  assert (LSL : Lexer.is_local_symbol_literal (str_of tok) = true).
  { rewrite E. change (str_of (c0 :: r)) with (String (A c0) (str_of r)). unfold Lexer.is_local_symbol_literal.
    assert (HS : c0 < 256 /\ small r) by (rewrite E in S; inversion S; split; assumption). destruct HS as [H0 Sr].
    rewrite dd, D0 by exact H0. cbn [andb].
    rewrite forallb_str. rewrite E in T. cbn [forallb] in T. apply andb_true_iff in T. destruct T as [_ T].
    rewrite <- T. apply forallb_ext_small; [exact Sr|]. intros c Hc. apply tokch_A. exact Hc. }
  rewrite LSL. cbn [negb].
  (* has_dot *)
  rewrite last_str.
  assert (HD : match option_map A (last_opt tok) with Some c => Lexer.is_char c "." | None => false end
               = match last_opt tok with Some c => c =? 46 | None => false end).
  { destruct (last_opt tok) as [c|] eqn:L; [|reflexivity]. cbn [option_map]. change "."%char with (A 46).
    apply is_char_A; [|lia].
    assert (In c tok).
    { clear - L. induction tok as [|x t IH]; [discriminate|]. destruct t as [|y t']; [inversion L; left; reflexivity|].
      right. apply IH. exact L. }
    unfold small in S. rewrite Forall_forall in S. apply S. exact H. }
  rewrite HD. set (has_dot := match last_opt tok with Some c => c =? 46 | None => false end).
  set (num := if has_dot then removelast tok else tok).
  assert (NUM : (if has_dot then Lexer.str_drop_last (str_of tok) else str_of tok) = str_of num).
  { unfold num. destruct has_dot; [apply drop_last_str | reflexivity]. }
  rewrite NUM.
  assert (Sn : small num) by (unfold num; destruct has_dot; [apply small_removelast|]; exact S).
  assert (NE : num <> []).
  { unfold num. destruct has_dot eqn:Hd; [|rewrite E; discriminate].
    rewrite E. destruct r as [|d t]; [|apply removelast_nonempty].
    unfold has_dot in Hd. rewrite E in Hd. simpl in Hd. apply N.eqb_eq in Hd. subst c0. discriminate. }
  rewrite (mem3_str num Sn).
  destruct (mem_ch 36 num || mem_ch 95 num || mem_ch 46 num); [reflexivity|].
  rewrite forallb_str.
  rewrite (forallb_ext_small (fun c => Lexer.is_decimal_digit (A c)) is_digit num Sn dd).
  replace (negb match num with [] => true | _ :: _ => false end) with true by (destruct num; [contradiction | reflexivity]).
  rewrite andb_true_r.
  destruct (forallb is_digit num) eqn:DG.
  - rewrite (int_digits_str 10 num Sn 0). destruct (int_digits_dec num DG 0) as [dec Hdec]. rewrite Hdec.
    rewrite (py_int_digits_only 10 num (or_introl eq_refl) DG NE), Hdec.
    destruct has_dot.
    + cbn [abs_s abs_l]. rewrite signed_sgn. reflexivity.
    + rewrite (mem89_str num Sn). destruct (mem_ch 56 num || mem_ch 57 num) eqn:M89.
      * destruct neg.
        -- cbn [sgn]. change (-1 =? -1)%Z with true. cbn iota. cbn [abs_s abs_l].
           rewrite <- (signed_sgn true dec). reflexivity.
        -- cbn [sgn]. change (1 =? -1)%Z with false. cbn iota. cbn [abs_s abs_l]. reflexivity.
      * rewrite (int_digits_str 8 num Sn 0). destruct (int_digits_oct num DG M89 0) as [oct Hoct]. rewrite Hoct.
        rewrite (py_int_digits_only 8 num (or_intror eq_refl) DG NE), Hoct.
        cbn [abs_s abs_l]. rewrite signed_sgn. reflexivity.
  - destruct num as [|z [|l0 body]] eqn:En; try reflexivity.
    change (str_of (z :: l0 :: body)) with (String (A z) (String (A l0) (str_of body))).
    inversion Sn as [|? ? Hz Sn']; subst. inversion Sn' as [|? ? Hl Sb]; subst.
    change "0"%char with (A 48). rewrite is_char_A by (try exact Hz; lia). rewrite al by exact Hl.
    destruct ((z =? 48) && is_alpha l0); [|reflexivity].
    rewrite <- (c_base_agree l0 Hl). destruct (c_base l0) as [base|]; [|reflexivity].
    rewrite (py_int_str base body Sb). destruct (py_int base body) as [v|]; [|reflexivity].
    cbn [abs_s abs_l]. rewrite signed_sgn. reflexivity.
Qed.

(* ------------------------------------------------------------------ the caret forms *)
Definition caret_letters : list N := [88; 120; 79; 111; 66; 98; 68; 100].

Lemma match_literal_2 x l t : match_literal [94; x] (94 :: l :: t) = if is_ascii l && (ascii_lower x =? ascii_lower l) then Some t else None.
Proof.
  cbn [match_literal]. change (is_ascii 94) with true. change (ascii_lower 94 =? ascii_lower 94) with true. cbn iota.
  destruct (is_ascii l); [|reflexivity]. destruct (ascii_lower x =? ascii_lower l); reflexivity.
Qed.

Definition lower_letter_check (l : N) : bool :=
  let a := ascii_lower l in
  implb ((a =? 120) || (a =? 111) || (a =? 98) || (a =? 100)) (existsb (N.eqb l) caret_letters).

Lemma lower_letter_all : forallb lower_letter_check (nrange 128) = true.
Proof. vm_compute. reflexivity. Qed.

Lemma caret_number_other sign l t : l < 128 -> existsb (N.eqb l) caret_letters = false ->
  caret_number caret_prefixes sign (94 :: l :: t) = None.
Proof.
  intros H NI. pose proof (nrange_forallb 128 _ lower_letter_all l H) as P. unfold lower_letter_check in P. cbv zeta in P.
  rewrite NI in P. destruct ((ascii_lower l =? 120) || (ascii_lower l =? 111) || (ascii_lower l =? 98) || (ascii_lower l =? 100)) eqn:Q; [discriminate|].
  repeat (apply orb_false_iff in Q; destruct Q as [Q ?]).
  unfold caret_prefixes. cbn [caret_number].
  change (s2n "^X") with [94; 88]. change (s2n "^O") with [94; 79]. change (s2n "^B") with [94; 66]. change (s2n "^D") with [94; 68].
  rewrite !match_literal_2.
  change (ascii_lower 88) with 120. change (ascii_lower 79) with 111. change (ascii_lower 66) with 98. change (ascii_lower 68) with 100.
  rewrite (N.eqb_sym 120), (N.eqb_sym 111), (N.eqb_sym 98), (N.eqb_sym 100).
  rewrite Q, H0, H1, H2. rewrite !andb_false_r. reflexivity.
Qed.

Lemma caret_base_other l : l < 128 -> existsb (N.eqb l) caret_letters = false -> Lexer.caret_base (A l) = None.
Proof.
  intros H NI. pose proof (nrange_forallb 128 _ lower_letter_all l H) as P. unfold lower_letter_check in P. cbv zeta in P.
  rewrite NI in P. destruct ((ascii_lower l =? 120) || (ascii_lower l =? 111) || (ascii_lower l =? 98) || (ascii_lower l =? 100)) eqn:Q; [discriminate|].
  repeat (apply orb_false_iff in Q; destruct Q as [Q ?]).
  unfold Lexer.caret_base, Lexer.caret_forms. cbn [find fst]. rewrite lower_A by lia.
  change "x"%char with (A 120). change "o"%char with (A 111). change "b"%char with (A 98). change "d"%char with (A 100).
  assert (L : ascii_lower l < 256) by (apply ascii_lower_256; lia).
  rewrite !is_char_A by (try exact L; lia). rewrite Q, H0, H1, H2. reflexivity.
Qed.

Lemma caret_base_letter l : In l caret_letters -> Lexer.caret_base (A l) = Some (base_of_letter l).
Proof. intros H. simpl in H. repeat (destruct H as [<-|H]; [vm_compute; reflexivity|]). destruct H. Qed.

(* the digit class of the regex and "a digit of the base" coincide *)
Definition class_valid_check (c : N) : bool :=
  forallb (fun l => Bool.eqb (in_class (kind_of_letter l) c) (Lexer.valid_digit (base_of_letter l) (A c))) caret_letters.
Lemma class_valid_all : forallb class_valid_check (nrange 256) = true.
Proof. vm_compute. reflexivity. Qed.

Lemma class_valid l c : In l caret_letters -> c < 256 -> in_class (kind_of_letter l) c = Lexer.valid_digit (base_of_letter l) (A c).
Proof.
  intros Hl Hc. pose proof (nrange_forallb 256 _ class_valid_all c Hc) as P. unfold class_valid_check in P.
  rewrite forallb_forall in P. specialize (P l Hl). apply Bool.eqb_prop in P. exact P.
Qed.

Lemma span_stops_inside (p : N -> bool) xs rest : forallb p xs = false ->
  exists run c more, span p (xs ++ rest) = (run, c :: more) /\ In c xs /\ p c = false.
Proof.
  induction xs as [|x r IH]; intros H; [discriminate|]. simpl in H. simpl.
  destruct (p x) eqn:Px.
  - simpl in H. destruct (IH H) as [run [c [more [E [I F]]]]]. rewrite E.
    exists (x :: run), c, more. split; [reflexivity|]. split; [right; exact I | exact F].
  - exists [], x, (r ++ rest). split; [reflexivity|]. split; [left; reflexivity | exact Px].
Qed.

(* class-valid digits: int() does not strip a prefix and does not fail *)
Lemma py_int_class l ds : In l caret_letters -> ds <> [] -> forallb (in_class (kind_of_letter l)) ds = true -> small ds ->
  py_int (base_of_letter l) ds = int_digits (base_of_letter l) 0 ds /\ exists v, int_digits (base_of_letter l) 0 ds = Some v.
Proof.
  intros Hl NE C S.
  assert (V : forall acc, exists v, int_digits (base_of_letter l) acc ds = Some v).
  { clear NE. induction S as [|c r Hc _ IH]; intros acc; [exists acc; reflexivity|].
    cbn [forallb] in C. apply andb_true_iff in C. destruct C as [C1 C2].
    rewrite (class_valid l c Hl Hc) in C1. unfold Lexer.valid_digit in C1. rewrite digit_val_A in C1 by exact Hc.
    cbn [int_digits]. destruct (digit_val c) as [d|]; [|discriminate]. rewrite C1. apply IH. exact C2. }
  split; [|apply V].
  unfold py_int. assert (St : strip_base_prefix (base_of_letter l) ds = ds).
  { unfold strip_base_prefix. destruct ds as [|z [|l0 r]]; try reflexivity.
    cbn [forallb] in C. apply andb_true_iff in C. destruct C as [_ C]. apply andb_true_iff in C. destruct C as [C _].
    simpl in Hl. unfold in_class in C.
    repeat (destruct Hl as [<-|Hl]; [cbn in C |- *|]); try destruct Hl.
    all: try (rewrite !andb_false_r; reflexivity).
    all: unfold is_digit in C.
    (* hex: the second character is a hex digit, never 'x' *)
    1,2: assert (X : ascii_lower l0 =? 120 = false);
         [ apply N.eqb_neq; intros E; rewrite E in C; unfold ascii_lower in E;
           destruct ((65 <=? l0) && (l0 <=? 90)) eqn:U;
           [ apply andb_true_iff in U; destruct U as [U1 U2]; apply N.leb_le in U1, U2;
             assert (l0 = 88) by lia; subst; vm_compute in C; discriminate
           | subst l0; vm_compute in C; discriminate ]
         | rewrite X, !andb_false_r; reflexivity ].
    (* oct *)
    1,2: assert (X : ascii_lower l0 =? 111 = false);
         [ apply andb_true_iff in C; destruct C as [C1 C2]; apply N.leb_le in C1, C2;
           apply N.eqb_neq; unfold ascii_lower;
           replace ((65 <=? l0) && (l0 <=? 90)) with false by (symmetry; apply andb_false_iff; left; apply N.leb_gt; lia); lia
         | rewrite X, !andb_false_r; reflexivity ].
    (* bin *)
    1,2: assert (X : ascii_lower l0 =? 98 = false);
         [ apply orb_true_iff in C; destruct C as [C|C]; apply N.eqb_eq in C; subst l0; reflexivity
         | rewrite X, !andb_false_r; reflexivity ]. }
  rewrite St. destruct ds; [contradiction | reflexivity].
Qed.

Lemma match_nonempty {X B} (l : list X) (x y : B) : l <> [] -> match l with [] => x | _ :: _ => y end = y.
Proof. destruct l; [contradiction | reflexivity]. Qed.
Lemma match_str_nonempty {B} (l : list N) (x y : B) : l <> [] ->
  match str_of l with EmptyString => x | String _ _ => y end = y.
Proof. destruct l; [contradiction | reflexivity]. Qed.

Lemma tokch_word c : is_tokch c = true -> is_word c || (c =? 36) || (c =? 46) = true.
Proof.
  unfold is_tokch, is_word. intros H.
  destruct (is_digit c), (is_alpha c), (c =? 95), (c =? 36), (c =? 46); try reflexivity; discriminate.
Qed.

Lemma caret_agree neg l ds rest : l < 128 -> forallb is_tokch ds = true -> follow_ok rest = true ->
  abs_s (match caret_number caret_prefixes (sgn neg) (94 :: l :: ds ++ rest) with
         | Some r => r
         | None => plain_number (sgn neg) (94 :: l :: ds ++ rest)
         end) = Some (abs_l (Lexer.lex_caret neg (A l) (str_of ds))).
Proof.
  intros Hl T F. pose proof (tokch_small ds T) as S.
  destruct (existsb (N.eqb l) caret_letters) eqn:IN.
  - apply existsb_exists in IN. destruct IN as [x [Hx Ex]]. apply N.eqb_eq in Ex. subst x.
    rewrite (caret_number_row (sgn neg) l (ds ++ rest) Hx). unfold caret_tail, Lexer.lex_caret.
    rewrite (caret_base_letter l Hx).
    destruct (follow_props rest F) as [F1 [F2 _]].
    destruct (forallb (in_class (kind_of_letter l)) ds) eqn:C.
    + rewrite span_app; [|exact C|destruct rest; [exact I | apply in_class_not_tokch; exact F1]].
      cbn iota beta.
      destruct (list_eq_dec N.eq_dec ds []) as [->|NE]; [reflexivity|].
      destruct (py_int_class l ds Hx NE C S) as [P [v Hv]].
      assert (VD : Lexer.str_forallb (Lexer.valid_digit (base_of_letter l)) (str_of ds) = true).
      { rewrite forallb_str. rewrite <- C. symmetry. apply forallb_ext_small; [exact S|]. intros c Hc. apply class_valid; assumption. }
      rewrite (match_nonempty ds _ _ NE), (match_str_nonempty ds _ _ NE).
      rewrite VD, (int_digits_str _ ds S 0), Hv, P, Hv.
      destruct rest as [|c t]; [cbn [abs_s abs_l]; rewrite signed_sgn; reflexivity|].
      destruct F2 as [W [D1 D2]]. rewrite W, D1, D2. cbn [orb abs_s abs_l]. rewrite signed_sgn. reflexivity.
    + destruct (span_stops_inside _ ds rest C) as [run [c [more [E [I Fc]]]]]. rewrite E.
      assert (Tc : is_tokch c = true) by (rewrite forallb_forall in T; apply T; exact I).
      rewrite (tokch_word c Tc).
      assert (VD : Lexer.str_forallb (Lexer.valid_digit (base_of_letter l)) (str_of ds) = false).
      { rewrite forallb_str. rewrite <- C. symmetry. apply forallb_ext_small; [exact S|]. intros c' Hc'. apply class_valid; assumption. }
      rewrite VD. destruct ds as [|d0 dr]; [discriminate|].
      change (str_of (d0 :: dr)) with (String (A d0) (str_of dr)). destruct run; reflexivity.
  - rewrite (caret_number_other (sgn neg) l (ds ++ rest) Hl IN). unfold Lexer.lex_caret.
    rewrite (caret_base_other l Hl IN). reflexivity.
Qed.

(* ------------------------------------------------------------------ the agreement *)
Definition tokch_check (c : N) : bool :=
  implb (is_tokch c) (negb (is_space c) && negb (c =? 59) && negb (c =? 45) && negb (c =? 94) && (c <? 128)).
Lemma tokch_check_all : forallb tokch_check (nrange 128) = true.
Proof. vm_compute. reflexivity. Qed.

Lemma tokch_facts c : is_tokch c = true -> is_space c = false /\ c <> 59 /\ c <> 45 /\ c <> 94 /\ c < 128.
Proof.
  intros H. assert (c < 128).
  { unfold is_tokch, is_digit, is_alpha in H.
    repeat (apply orb_true_iff in H; destruct H as [H|H]);
      try (apply andb_true_iff in H; destruct H as [_ U]; apply N.leb_le in U; lia);
      try (apply N.eqb_eq in H; lia). }
  pose proof (nrange_forallb 128 _ tokch_check_all c H0) as P. unfold tokch_check in P. rewrite H in P. cbn [implb] in P.
  repeat (apply andb_true_iff in P; destruct P as [P ?]).
  apply negb_true_iff in P. repeat match goal with X : negb _ = true |- _ => apply negb_true_iff in X end.
  repeat split; try assumption; apply N.eqb_neq; assumption.
Qed.

Lemma match_literal_not_caret lit c r : c <> 94 -> match_literal (94 :: lit) (c :: r) = None.
Proof.
  intros Hc. cbn [match_literal]. destruct (is_ascii c); [|reflexivity].
  change (ascii_lower 94) with 94.
  replace (94 =? ascii_lower c) with false; [reflexivity|]. symmetry. apply N.eqb_neq. intros E.
  unfold ascii_lower in E. destruct ((65 <=? c) && (c <=? 90)) eqn:U; [|congruence].
  apply andb_true_iff in U. destruct U as [U1 U2]. apply N.leb_le in U1, U2. lia.
Qed.

Lemma caret_number_not_caret sign c r : c <> 94 -> caret_number caret_prefixes sign (c :: r) = None.
Proof.
  intros Hc. unfold caret_prefixes. cbn [caret_number].
  change (s2n "^X") with (94 :: [88]). change (s2n "^O") with (94 :: [79]). change (s2n "^B") with (94 :: [66]). change (s2n "^D") with (94 :: [68]).
  rewrite !match_literal_not_caret by exact Hc. reflexivity.
Qed.

(* the text that Spelling.lex_number sees for a token with an optional minus sign *)
Definition with_sign (neg : bool) (s : str) : str := if neg then 45 :: s else s.

Lemma lex_number_sign neg c r : is_space c = false -> c <> 59 -> c <> 45 ->
  lex_number (with_sign neg (c :: r)) =
  match caret_number caret_prefixes (sgn neg) (c :: r) with Some x => x | None => plain_number (sgn neg) (c :: r) end.
Proof.
  intros Hs H59 H45. unfold lex_number, with_sign. destruct neg.
  - rewrite skip_head by (try discriminate; reflexivity). rewrite skip_head by assumption. reflexivity.
  - rewrite skip_head by assumption.
    replace (match c :: r with 45 :: r0 => ((-1)%Z, skip r0) | _ => (1%Z, c :: r) end) with (1%Z, c :: r); [reflexivity|].
    destruct c as [|p]; [reflexivity|]. repeat (destruct p as [p|p|]; try reflexivity). contradiction.
Qed.

Theorem lexers_agree neg tok rest : follow_ok rest = true ->
  ((exists l ds, tok = 94 :: l :: ds /\ l < 128 /\ forallb is_tokch ds = true) \/ (tok <> [] /\ forallb is_tokch tok = true)) ->
  abs_s (lex_number (with_sign neg (tok ++ rest))) = Some (abs_l (Lexer.lex_number neg (str_of tok))).
Proof.
  intros F [[l [ds [-> [Hl T]]]]|[NE T]].
  - cbn [app]. rewrite lex_number_sign by (try discriminate; reflexivity).
    change (str_of (94 :: l :: ds)) with (String (A 94) (String (A l) (str_of ds))).
    unfold Lexer.lex_number. change "^"%char with (A 94). rewrite is_char_A by lia. cbn [N.eqb Pos.eqb].
    apply caret_agree; assumption.
  - destruct tok as [|c0 r] eqn:E; [contradiction|]. rewrite <- E in *.
    assert (T0 : is_tokch c0 = true) by (rewrite E in T; cbn [forallb] in T; apply andb_true_iff in T; tauto).
    destruct (tokch_facts c0 T0) as [Hs [H59 [H45 [H94 H128]]]].
    rewrite E at 1. cbn [app]. rewrite lex_number_sign by assumption.
    rewrite caret_number_not_caret by exact H94.
    assert (LN : Lexer.lex_number neg (str_of tok) = Lexer.lex_plain neg (str_of tok)).
    { rewrite E. change (str_of (c0 :: r)) with (String (A c0) (str_of r)). unfold Lexer.lex_number.
      destruct (str_of r); [reflexivity|]. change "^"%char with (A 94). rewrite is_char_A by lia.
      replace (c0 =? 94) with false by (symmetry; apply N.eqb_neq; exact H94). reflexivity. }
    rewrite LN.
    destruct (is_digit c0) eqn:D0.
    + change (c0 :: r ++ rest) with ((c0 :: r) ++ rest). rewrite <- E.
      rewrite (plain_number_token (sgn neg) tok rest c0 r E D0 T F).
      apply (classify_token_agree neg tok c0 r E D0 T).
    + unfold plain_number. rewrite D0. cbn [negb abs_s].
      unfold Lexer.lex_plain. rewrite E. change (str_of (c0 :: r)) with (String (A c0) (str_of r)).
      unfold Lexer.is_local_symbol_literal. rewrite dd by lia. rewrite D0. reflexivity.
Qed.
