(* Proofs/AsmBytesP.v -- every byte of the image of Model/Asm.v is in 0..255, provided the Insert payloads are
   (inserts_are_bytes) and the output codec only yields bytes (enc_bytes).  Per-statement range lemmas for everything
   emit_leaf produces, lifted to the image through the flattening relation of Proofs/AsmP.v (layout_thm).
   Statements: Props/R_bytes.v. *)
From Coq Require Import ZArith List String Ascii Bool NArith Lia.
From Verif Require Import Base.Res Base.Bytes Gen.GenGetAsInt Gen.GenMeta Gen.GenBkTable Model.BkCodec
  Model.Formats Model.BkWav Model.OutPath Gen.GenBkWav Spec.BinFile Spec.Riff Spec.BkTape
  Model.Insns Model.Directives Model.Asm Model.AsmBytes
  Proofs.BkCodecP Proofs.C13Checksum Proofs.C13Demod Proofs.AsmP Proofs.AsmContainerP.
From Verif Require Model.Rad50 Spec.DataSpec.
Import ListNotations.
Notation length := Datatypes.length.
Notation concat := List.concat.
Open Scope string_scope.
Open Scope list_scope.
Open Scope Z_scope.

Notation B := (Forall is_byte_z).

Lemma byte_ok_is b : byte_ok b = true -> is_byte_z b.
Proof. unfold byte_ok, is_byte_z. intros H. apply andb_prop in H. destruct H as [H1 H2]. apply Z.leb_le in H1. apply Z.ltb_lt in H2. lia. Qed.

Lemma forallb_byte_ok_B l : forallb byte_ok l = true -> B l.
Proof. intros H. apply Forall_forall. intros x Hx. apply byte_ok_is. rewrite forallb_forall in H. auto. Qed.

Lemma B0 : is_byte_z 0.
Proof. unfold is_byte_z. lia. Qed.

Lemma zeros_B n : B (zeros n).
Proof. induction n; simpl; constructor; [apply B0|assumption]. Qed.

Lemma concat_B ls : Forall (fun l => B l) ls -> B (concat ls).
Proof. induction 1; simpl; [constructor|]. apply Forall_app. auto. Qed.

Lemma bytes_mul_B x k : B x -> B (bytes_mul x k).
Proof. intros H. unfold bytes_mul. apply concat_B. apply Forall_forall. intros l Hl. apply repeat_spec in Hl. subst. exact H. Qed.

Lemma rb_mul_B x n bs : B x -> rb_mul (Ok x) n = Ok bs -> B bs.
Proof. intros Hx. destruct n; simpl; intros H; inversion H; subst. apply bytes_mul_B. exact Hx. Qed.

Lemma words_bytes_B ws : B (words_bytes ws).
Proof.
  unfold words_bytes. induction ws as [|w r IH]; simpl; [constructor|].
  constructor; [unfold is_byte_z; apply Z.mod_pos_bound; lia|].
  constructor; [unfold is_byte_z; apply Z.mod_pos_bound; lia|exact IH].
Qed.

Lemma pack_B_B v bs : pack_B v = Ok bs -> B bs.
Proof.
  unfold pack_B. destruct ((0 <=? v) && (v <? 256))%bool eqn:E; intros H; inversion H; subst.
  constructor; [apply byte_ok_is; exact E|constructor].
Qed.

Lemma pack_H_B v bs : pack_H v = Ok bs -> B bs.
Proof. intros H. apply pack_H_le16 in H. destruct H as [-> _]. apply le16_bytes_z. Qed.

Lemma encode_i32_B v bs : encode_i32 v = Ok bs -> B bs.
Proof.
  unfold encode_i32. intros H. apply bind_ok_inv in H. destruct H as [hi [H1 H]]. apply bind_ok_inv in H. destruct H as [lo [H2 H]].
  inversion H; subst. apply Forall_app. split; eapply pack_H_B; eauto.
Qed.

Lemma mapM_B (pack : Z -> res (list Z)) : (forall v bs, pack v = Ok bs -> B bs) ->
  forall vs ls, mapM pack vs = Ok ls -> Forall (fun l => B l) ls.
Proof.
  intros Hp. induction vs as [|v r IH]; simpl; intros ls H.
  - inversion H; constructor.
  - apply bind_ok_inv in H. destruct H as [y [Hy H]]. apply bind_ok_inv in H. destruct H as [ys [Hys H]]. inversion H; subst.
    constructor; eauto.
Qed.

Lemma pack_all_B pack vs bs : (forall v bs, pack v = Ok bs -> B bs) -> pack_all pack vs = Ok bs -> B bs.
Proof.
  intros Hp. unfold pack_all, rmap. intros H. apply bind_ok_inv in H. destruct H as [ls [Hl H]]. inversion H; subst.
  apply concat_B. eapply mapM_B; eauto.
Qed.

(* ---- directive outputs ---- *)
Definition out_B (o : out) : Prop := match o with Out _ bs => B bs | _ => True end.

Lemma out_x_B o bs : out_B o -> out_x o = XOk bs -> B bs.
Proof. destruct o; simpl; intros Ho H; try discriminate. destruct (errors ds); inversion H; subst. exact Ho. Qed.

Lemma after_B ds pre o : B pre -> out_B o -> out_B (after ds pre o).
Proof. destruct o; simpl; auto. intros. apply Forall_app. auto. Qed.

Lemma of_res_B r : (forall bs, r = Ok bs -> B bs) -> out_B (of_res r).
Proof. destruct r; simpl; auto. Qed.

Lemma odd_prefix_B addr ds pre : odd_prefix addr = Ok (ds, pre) -> B pre.
Proof.
  unfold odd_prefix, py_mod. simpl. destruct (addr mod 2 =? 1); intros H; inversion H; subst; repeat constructor. apply B0.
Qed.

Lemma byte_body_B vs : out_B (byte_body vs).
Proof.
  destruct vs; simpl; [repeat constructor; apply B0|]. apply of_res_B. intros bs H. eapply pack_all_B; [|exact H]. apply pack_B_B.
Qed.

Lemma word_body_B addr vs : out_B (word_body addr vs).
Proof.
  unfold word_body. destruct (odd_prefix addr) as [[ds pre]| | |] eqn:E; simpl; auto.
  pose proof (odd_prefix_B _ _ _ E) as Hp. destruct vs.
  - simpl. apply Forall_app. split; [exact Hp|repeat constructor; apply B0].
  - apply after_B; [exact Hp|]. apply of_res_B. intros bs H. eapply pack_all_B; [|exact H]. apply pack_H_B.
Qed.

Lemma dword_body_B addr vs : out_B (dword_body addr vs).
Proof.
  unfold dword_body. destruct (odd_prefix addr) as [[ds pre]| | |] eqn:E; simpl; auto.
  pose proof (odd_prefix_B _ _ _ E) as Hp. destruct vs.
  - simpl. apply Forall_app. split; [exact Hp|repeat constructor; apply B0].
  - apply after_B; [exact Hp|]. apply of_res_B. intros bs H. eapply pack_all_B; [|exact H]. apply encode_i32_B.
Qed.

Lemma B1 : B [0].
Proof. repeat constructor. apply B0. Qed.
Lemma B2 : B [0; 0].
Proof. repeat constructor; apply B0. Qed.

Lemma body_even_B addr bs : body_even addr = Ok bs -> B bs.
Proof. unfold body_even, rb_if, rz_eqb, rz_mod, py_mod. simpl. destruct (addr mod 2 =? 1); intros H; inversion H; subst; [apply B1|constructor]. Qed.

Lemma body_odd_B addr bs : body_odd addr = Ok bs -> B bs.
Proof. unfold body_odd, rb_if, rz_eqb, rz_mod, py_mod. simpl. destruct (addr mod 2 =? 0); intros H; inversion H; subst; [apply B1|constructor]. Qed.

Lemma body_align_B addr c bs : body_align addr c = Ok bs -> B bs.
Proof.
  unfold body_align, rz_eqb. simpl. destruct (c =? 0); [discriminate|]. apply rb_mul_B. apply B1.
Qed.

Lemma body_B name addr vs : out_B (body name addr vs).
Proof.
  unfold body.
  destruct (String.eqb name ".byte"); [apply byte_body_B|].
  destruct (String.eqb name ".word"); [apply word_body_B|].
  destruct (String.eqb name ".dword"); [apply dword_body_B|].
  destruct (String.eqb name ".blkb").
  { destruct vs as [|n [|]]; try exact I. apply of_res_B. intros bs. unfold body_blkb. apply rb_mul_B. apply B1. }
  destruct (String.eqb name ".blkw").
  { destruct vs as [|n [|]]; try exact I. apply of_res_B. intros bs. unfold body_blkw. apply rb_mul_B. apply B2. }
  destruct (String.eqb name ".even").
  { destruct vs; try exact I. apply of_res_B. apply body_even_B. }
  destruct (String.eqb name ".odd").
  { destruct vs; try exact I. apply of_res_B. apply body_odd_B. }
  destruct (String.eqb name ".align").
  { destruct vs as [|n [|]]; try exact I. apply of_res_B. apply body_align_B. }
  exact I.
Qed.

Lemma emit_meta_B m addr ops : out_B (emit_meta m addr ops).
Proof.
  unfold emit_meta. destruct (negb _); [exact I|]. apply after_B; [constructor|].
  destruct (cook _ _ _); simpl; auto. apply body_B.
Qed.

Section Enc.
Variable enc : list N -> option (list Z).
Hypothesis Henc : enc_bytes enc.

Lemma ascii_impl_B cs : out_B (ascii_impl enc cs).
Proof.
  induction cs as [|c r IH]; [constructor|]. cbn [ascii_impl]. destruct c as [s|v].
  - destruct (enc s) as [bs|] eqn:E.
    + apply after_B; [|exact IH]. apply forallb_byte_ok_B. eapply Henc. exact E.
    + apply after_B; [constructor|exact IH].
  - destruct site_ascii_impl as [[b u] d]. destruct (get_as_int_raw b u d v); simpl; auto.
    + destruct (byte_ok v0) eqn:E; [|exact I]. apply after_B; [|exact IH]. constructor; [apply byte_ok_is; exact E|constructor].
    + destruct (byte_ok v0) eqn:E; [|exact I]. apply after_B; [|exact IH]. constructor; [apply byte_ok_is; exact E|constructor].
Qed.

Lemma ascii_body_B z cs : out_B (ascii_body enc z cs).
Proof.
  unfold ascii_body. pose proof (ascii_impl_B cs) as H. destruct (ascii_impl enc cs); simpl in *; auto.
  apply Forall_app. split; [exact H|]. destruct z; [apply B1|constructor].
Qed.

Lemma word_list_B addr ws : out_B (word_list addr ws).
Proof.
  unfold word_list. destruct site_word_list as [[b u] d]. destruct (mapM _ ws); try exact I.
  destruct (odd_prefix addr) as [[ds pre]| | |] eqn:E; try exact I.
  apply after_B; [eapply odd_prefix_B; exact E|]. apply of_res_B. intros bs H. eapply pack_all_B; [|exact H]. apply pack_H_B.
Qed.

Lemma emit_B d addr : out_B (emit enc d addr).
Proof.
  destruct d; simpl.
  - destruct (find_meta name); [|exact I]. destruct (m_raw m); [exact I|]. apply emit_meta_B.
  - destruct (find_meta _); [|exact I]. destruct (negb _); [exact I|]. destruct ops as [|cs [|]]; simpl; auto. apply ascii_body_B.
  - apply word_list_B.
Qed.

(* ---- .rad50 ---- *)
Lemma pack_words_B : forall ks bs, Rad50.pack_words ks = Ok bs -> B bs.
Proof.
  fix IH 1. intros [|a [|b [|c rest]]] bs H; cbn [Rad50.pack_words] in H.
  - inversion H; constructor.
  - eapply pack_H_B; exact H.
  - eapply pack_H_B; exact H.
  - apply bind_ok_inv in H. destruct H as [w [Hw H]]. apply bind_ok_inv in H. destruct H as [ws [Hws H]]. inversion H; subst.
    apply Forall_app. split; [eapply pack_H_B; exact Hw|]. eapply IH. exact Hws.
Qed.

Lemma rad50_B cs bs : Rad50.rad50_ascii cs = Ok bs -> B bs.
Proof.
  unfold Rad50.rad50_ascii, Rad50.rad50. destruct (Rad50.chunk_codes _ cs) as [ks es].
  destruct (Rad50.pack_words ks) as [x| | |] eqn:E; simpl; try discriminate.
  destruct es; intros H; inversion H; subst. eapply pack_words_B. exact E.
Qed.

(* ---- one statement ---- *)
Lemma emit_leaf_B ev addr s bs : stmt_bytes s = true -> emit_leaf enc ev addr s = XOk bs -> B bs.
Proof.
  intros Hs H. destruct s; cbn [emit_leaf] in H; try (inversion H; subst; constructor; fail);
    try (xinv H; eapply out_x_B; [apply emit_B|exact H]; fail).
  - xinv H. inversion H; subst. apply words_bytes_B.
  - xinv H. apply lift_ok' in H. eapply rad50_B. exact H.
  - xinv H. destruct (a0 - addr <? 0); inversion H; subst. apply zeros_B.
  - inversion H; subst. apply forallb_byte_ok_B. exact Hs.
Qed.

End Enc.

(* ---- from the program to the placed statements ---- *)
Lemma forallb_app_true {A} (f : A -> bool) l1 l2 : forallb f l1 = true -> forallb f l2 = true -> forallb f (l1 ++ l2) = true.
Proof. intros H1 H2. rewrite forallb_app, H1, H2. reflexivity. Qed.

Lemma forallb_cut_end f l : forallb f l = true -> forallb f (cut_end l) = true.
Proof.
  induction l as [|x r IH]; simpl; intros H; [reflexivity|]. apply andb_prop in H. destruct H as [H1 H2].
  destruct x; simpl; try reflexivity; rewrite ?H1, ?IH; auto.
Qed.

Lemma flat_bytes cnt : forall b l l' b', flat cnt b l l' b' -> forallb stmt_bytes l = true -> forallb stmt_bytes l' = true.
Proof.
  fix IH 5. intros b l l' b' H. destruct H as [b | b b' s r r' Hr Hb H | b' e r r' H | b' e r r' H | b' e r r' H
                                              | b b' ce body copies r r' Hc Hcs H | b b1 b' own fid body d r r' Hd Ho H ];
    cbn [forallb]; intros Hl.
  - reflexivity.
  - apply andb_prop in Hl. destruct Hl as [H1 H2]. rewrite H1. simpl. eapply IH; eauto.
  - simpl in *. eapply IH; eauto.
  - simpl in *. eapply IH; eauto.
  - simpl in *. eapply IH; eauto.
  - apply andb_prop in Hl. destruct Hl as [H1 H2]. cbn [stmt_bytes] in H1.
    apply forallb_app_true; [|eapply IH; eauto].
    clear Hc. revert copies Hcs. fix IHc 2. intros copies Hcs. destruct Hcs as [|c cs Hx Hcs]; simpl; [reflexivity|].
    apply forallb_app_true; [eapply IH; eauto|]. apply IHc. exact Hcs.
  - apply andb_prop in Hl. destruct Hl as [H1 H2]. cbn [stmt_bytes] in H1.
    apply forallb_app_true; [|eapply IH; eauto]. eapply IH; [exact Hd|]. apply forallb_cut_end. exact H1.
Qed.

Lemma xmapM_B {A} (f : A -> xres (list Z)) l : forall l',
  (forall x y, In x l -> f x = XOk y -> B y) -> xmapM f l = XOk l' -> B (concat l').
Proof.
  induction l as [|x r IH]; simpl; intros l' Hf H.
  - inversion H; constructor.
  - xinv H. inversion H; subst. simpl. apply Forall_app. split; [eapply Hf; [left; reflexivity|exact Ha]|].
    apply IH; [|exact Ha0]. intros x0 y Hin Hy. eapply Hf; [right; exact Hin|exact Hy].
Qed.

Theorem image_bytes_in_range enc p f : enc_bytes enc -> inserts_are_bytes p = true ->
  assemble_full enc p = XOk f -> Forall is_byte_z (concat (f_chunks f)).
Proof.
  intros He Hp H. destruct (layout_thm _ _ _ H) as [_ [[b' F] _]].
  destruct (assemble_full_inv _ _ _ H) as [st [dv [_ [_ [_ [_ [_ [Hx _]]]]]]]].
  pose proof (flat_bytes _ _ _ _ _ F (forallb_cut_end _ _ Hp)) as Hi.
  eapply xmapM_B; [|exact Hx]. intros it bs Hin Hb. unfold emit_item in Hb.
  eapply emit_leaf_B; [exact He| |exact Hb].
  rewrite forallb_forall in Hi. apply Hi. apply in_map. exact Hin.
Qed.

(* ---- the bk codec only yields bytes ---- *)
Lemma Forall2_right {A C} (P : A -> C -> Prop) (Q : C -> Prop) : (forall a c, P a c -> Q c) ->
  forall l l', Forall2 P l l' -> Forall Q l'.
Proof. intros HPQ. induction 1; constructor; eauto. Qed.

Lemma bk_enc_bytes : enc_bytes bk_enc.
Proof.
  intros s bs H. unfold bk_enc in H. destruct (bk_encode s) as [ns|] eqn:E; [|discriminate]. inversion H; subst.
  unfold bk_encode in E. apply encode_ok_iff in E.
  apply (Forall2_right _ (fun n : N => (n < 256)%N)) in E.
  - apply forallb_forall. intros z Hz. apply in_map_iff in Hz. destruct Hz as [n [<- Hn]].
    rewrite Forall_forall in E. specialize (E _ Hn). unfold byte_ok. apply andb_true_intro. split; [apply Z.leb_le|apply Z.ltb_lt]; lia.
  - intros c b Hc. apply encode_char_sound in Hc. destruct Hc as [r [Hn _]].
    apply nth_error_Some_lt in Hn. destruct table_256 as [L _]. rewrite L in Hn. lia.
Qed.

(* ---- the containers, with the byte hypothesis discharged ---- *)
Theorem container_bin_closed enc p f : enc_bytes enc -> inserts_are_bytes p = true -> assemble_full enc p = XOk f ->
  Z.of_nat (length (image f)) < 65536 ->
  exists file, fmt_bin (f_base f) (image f) = Ok file /\
               file = le16 (f_base f) ++ le16 (Z.of_nat (length (image f))) ++ image f /\
               parse_bin file = Some (f_base f, Z.of_nat (length (image f)), image f).
Proof. intros He Hp H L. exact (container_bin enc p f H (image_bytes_in_range enc p f He Hp H) L). Qed.

Theorem container_raw_closed enc p f : enc_bytes enc -> inserts_are_bytes p = true -> assemble_full enc p = XOk f ->
  fmt_raw (f_base f) (image f) = Ok (image f) /\ parse_raw (image f) = Some (image f).
Proof.
  intros He Hp H. destruct (container_raw enc p f H) as [A C]. split; [exact A|]. apply C. exact (image_bytes_in_range enc p f He Hp H).
Qed.

Theorem container_wav_closed enc p f turbo raw : enc_bytes enc -> inserts_are_bytes p = true -> assemble_full enc p = XOk f ->
  Z.of_nat (length (image f)) < 65536 -> Forall is_byte_z raw ->
  exists file smp t,
    encode_as_wav turbo (f_base f) (image f) (fst (pad_name raw)) = Ok file /\
    parse_wav file = Some (sample_rate turbo, 1, 8, smp) /\
    demod turbo smp = Some t /\
    t_base t = f_base f /\ t_length t = Z.of_nat (length (image f)) /\ t_name t = fst (pad_name raw) /\
    t_data t = image f /\ t_checksum t = cksum_spec (image f).
Proof. intros He Hp H L N. exact (container_wav enc p f turbo raw H (image_bytes_in_range enc p f He Hp H) L N). Qed.
