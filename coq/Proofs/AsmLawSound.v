(* R_law_sound: the hypotheses the correspondence streams compute (Model/AsmT.law_hyps) are the hypotheses of the
   law theorems, so the laws hold of every pair of programs the streams compare (Model/AsmT.law_pair). *)
From Coq Require Import ZArith List String Ascii Bool NArith Lia.
From Verif Require Import Base.Res Spec.Arith Model.Asm Model.AsmT Proofs.AsmP Proofs.AsmMeta Proofs.AsmLaws Proofs.AsmMove.
Import ListNotations.
Notation length := Datatypes.length.
Notation concat := List.concat.
Open Scope string_scope.
Open Scope list_scope.
Open Scope Z_scope.

Lemma remove_nth_split {A} i : forall (p : list A) x r, remove_nth i p = Some (x, r) -> p = firstn i r ++ x :: skipn i r.
Proof.
  induction i as [|i IH]; intros [|y p] x r H; simpl in H; try discriminate.
  - inversion H; subst. reflexivity.
  - destruct (remove_nth i p) as [[z r']|] eqn:E; try discriminate. inversion H; subst. simpl. f_equal. apply IH. exact E.
Qed.

Lemma insert_at_split {A} j (x : A) : forall r, insert_at j x r = firstn j r ++ x :: skipn j r.
Proof. induction j as [|j IH]; intros [|y r]; simpl; try reflexivity. f_equal. apply IH. Qed.

Lemma replace_nth_split {A} i (f : A -> option (list A)) : forall p p', replace_nth i f p = Some p' ->
  exists l1 x l2 ys, p = l1 ++ x :: l2 /\ f x = Some ys /\ p' = l1 ++ ys ++ l2 /\ remove_nth i p = Some (x, l1 ++ l2).
Proof.
  induction i as [|i IH]; intros [|y p] p' H; simpl in H; try discriminate.
  - destruct (f y) as [ys|] eqn:E; try discriminate. inversion H; subst. exists [], y, p, ys. auto.
  - destruct (replace_nth i f p) as [r'|] eqn:E; try discriminate. inversion H; subst.
    destruct (IH _ _ E) as [l1 [x [l2 [ys [E1 [E2 [E3 E4]]]]]]]. subst.
    exists (y :: l1), x, l2, ys. simpl. rewrite E4. auto.
Qed.

Lemma firstn_plus {A} i k : forall (l : list A), firstn (i + k) l = firstn i l ++ firstn k (skipn i l).
Proof. induction i as [|i IH]; intros [|y l]; simpl; try reflexivity; [destruct k; reflexivity|]. f_equal. apply IH. Qed.
Lemma skipn_plus {A} i k : forall (l : list A), skipn (i + k) l = skipn k (skipn i l).
Proof. induction i as [|i IH]; intros [|y l]; simpl; try reflexivity; [destruct k; reflexivity|]. apply IH. Qed.

Lemma same_outcome_sym r r' : same_outcome r r' -> same_outcome r' r.
Proof.
  destruct r as [[[b i] T]| | | |], r' as [[[b' i'] T']| | | |]; simpl; auto.
  intros [E1 [E2 E3]]. repeat split; auto.
Qed.
Lemma same_outcome_eq r r' : r = r' -> same_outcome r r'.
Proof. intros <-. destruct r as [[[b i] T]| | | |]; simpl; auto. Qed.

Lemma noend_Forall l : forallb (fun y => negb (is_end y)) l = true -> Forall (fun y => is_end y = false) l.
Proof. intros H. apply Forall_forall. intros x Hx. rewrite forallb_forall in H. apply negb_true_iff. auto. Qed.

Lemma move_forward enc n e r i k :
  Forall (fun y => is_end y = false) (firstn (i + k) r) -> forallb (nodef n) r = true -> efree (lnames r) e = true -> nodot e = true ->
  existsb (Nat.eqb 0) (snd (collect_exports 0 r)) = false ->
  same_outcome (assemble enc (firstn i r ++ Assign n e :: skipn i r))
               (assemble enc (firstn (i + k) r ++ Assign n e :: skipn (i + k) r)).
Proof.
  intros HE Hn He Hd Hx.
  set (l1 := firstn i r). set (l2 := firstn k (skipn i r)). set (l3 := skipn k (skipn i r)).
  assert (Er : r = l1 ++ l2 ++ l3) by (unfold l1, l2, l3; rewrite firstn_skipn, firstn_skipn; reflexivity).
  rewrite firstn_plus, skipn_plus in *. fold l1 l2 l3 in HE |- *.
  replace (skipn i r) with (l2 ++ l3) by (unfold l2, l3; apply firstn_skipn).
  rewrite <- app_assoc. apply Forall_app in HE. destruct HE as [H1 H2].
  rewrite Er in Hn, He, Hx. apply move_def; assumption.
Qed.

Theorem law_sound enc l p a b : law_pair l p = Some (a, b) -> law_hyps l p = true ->
  same_outcome (assemble enc a) (assemble enc b).
Proof.
  unfold law_pair, apply_law, law_hyps. destruct l as [i j|i|i|k].
  - (* move *)
    destruct (remove_nth i p) as [[x r]|] eqn:E; try discriminate. destruct x; try discriminate.
    intros H Hy. inversion H; subst. clear H. apply remove_nth_split in E. subst a. rewrite insert_at_split.
    apply andb_true_iff in Hy. destruct Hy as [Hy Hx]. apply andb_true_iff in Hy. destruct Hy as [Hy Hd].
    apply andb_true_iff in Hy. destruct Hy as [Hy He]. apply andb_true_iff in Hy. destruct Hy as [HE Hn].
    apply negb_true_iff in Hx. apply noend_Forall in HE.
    destruct (Nat.le_gt_cases i j) as [L|L].
    + replace j with (i + (j - i))%nat in * by lia. rewrite Nat.max_r in HE by lia. apply move_forward; assumption.
    + replace i with (j + (i - j))%nat in * by lia. rewrite Nat.max_l in HE by lia. apply same_outcome_sym. apply move_forward; assumption.
  - (* unroll *)
    destruct (replace_nth i _ p) as [tp|] eqn:E; try discriminate. intros H Hy. inversion H; subst. clear H.
    apply replace_nth_split in E. destruct E as [l1 [x [l2 [ys [E1 [E2 [E3 E4]]]]]]]. rewrite E4 in Hy.
    destruct x; try discriminate. destruct count; try discriminate. destruct l; try discriminate. destruct neg; try discriminate.
    inversion E2; subst. apply andb_true_iff in Hy. destruct Hy as [Hc Hy]. apply Z.leb_le in Hc.
    apply same_outcome_eq. apply (repeat_unroll_lit enc l1 l2); assumption.
  - (* insert *)
    destruct (replace_nth i _ p) as [tp|] eqn:E; try discriminate. intros H Hy. inversion H; subst. clear H.
    apply replace_nth_split in E. destruct E as [l1 [x [l2 [ys [E1 [E2 [E3 E4]]]]]]]. rewrite E4 in Hy.
    destruct x; try discriminate. destruct bytes as [|b0 bs]; try discriminate. inversion E2; subst.
    apply same_outcome_eq. apply (insert_is_bytes enc l1 l2 (b0 :: bs)); [discriminate|].
    apply Forall_forall. intros z Hz. rewrite forallb_forall in Hy. specialize (Hy z Hz).
    apply andb_true_iff in Hy. destruct Hy as [A B]. apply Z.leb_le in A. apply Z.ltb_lt in B. lia.
  - (* cut *)
    intros H _. inversion H; subst. apply same_outcome_eq. unfold assemble.
    rewrite (end_discards_rest enc (firstn k p) (skipn k p) []). reflexivity.
Qed.

(* the boolean the streams compute (Model/AsmT.res_same, judge_law's bit 4) *)
Lemma zlist_eqb_refl l : zlist_eqb l l = true.
Proof. induction l; simpl; [reflexivity|]. rewrite Z.eqb_refl. exact IHl. Qed.

Lemma look_sub_ok T T' : (forall k, klookup k T = klookup k T') -> look_sub T T' = true.
Proof.
  intros H. unfold look_sub. apply forallb_forall. intros [k v] Hin. simpl. rewrite <- H.
  assert (M : kmem k T = true).
  { unfold kmem. apply existsb_exists. exists (k, v). split; [exact Hin|apply key_eqb_refl]. }
  rewrite kmem_klookup in M. destruct (klookup k T); [apply Z.eqb_refl|discriminate].
Qed.

Lemma same_outcome_bool r r' : same_outcome r r' -> res_same r r' = true.
Proof.
  destruct r as [[[b i] T]| | | |], r' as [[[b' i'] T']| | | |]; simpl; auto; try contradiction.
  intros [-> [-> H]]. rewrite Z.eqb_refl, zlist_eqb_refl, (look_sub_ok _ _ H), (look_sub_ok T' T); [reflexivity|].
  intros k. symmetry. apply H.
Qed.

Theorem law_sound_bool enc l p a b : law_pair l p = Some (a, b) -> law_hyps l p = true ->
  res_same (assemble enc a) (assemble enc b) = true.
Proof. intros H1 H2. apply same_outcome_bool. eapply law_sound; eauto. Qed.
