(* C11 -- lemmas about Model/ScopeM.v (the prefix-counter mechanism) *)
From Coq Require Import String Ascii List ZArith NArith Bool Lia DecimalString DecimalN Decimal.
From Verif Require Import Base.Res Spec.Scope Model.ScopeM.
Import ListNotations.
Open Scope Z_scope.

(* ------------------------------------------------------------------ strings: the rendered keys *)
Definition nodot (s : string) : Prop := forall c, In c (list_ascii_of_string s) -> c <> "."%char.

Lemma uint_nodot d : nodot (NilEmpty.string_of_uint d).
Proof.
  induction d; simpl; intros c H; try tauto;
    (destruct H as [H|H]; [subst; discriminate|apply IHd; exact H]).
Qed.

Lemma uint_lower d : lower (NilEmpty.string_of_uint d) = NilEmpty.string_of_uint d.
Proof. induction d; simpl; try rewrite IHd; reflexivity. Qed.

Lemma decimal_inj a b : decimal a = decimal b -> a = b.
Proof.
  unfold decimal. intros H.
  assert (X : NilEmpty.uint_of_string (NilEmpty.string_of_uint (N.to_uint a)) =
              NilEmpty.uint_of_string (NilEmpty.string_of_uint (N.to_uint b))) by (rewrite H; reflexivity).
  rewrite !NilEmpty.usu in X. inversion X as [Y].
  rewrite <- (DecimalN.Unsigned.of_to a), <- (DecimalN.Unsigned.of_to b), Y. reflexivity.
Qed.

Lemma append_dot_cancel a : forall b x y, nodot a -> nodot b ->
  (a ++ "." ++ x = b ++ "." ++ y)%string -> a = b /\ x = y.
Proof.
  induction a as [|c a IH]; intros b x y Na Nb H; destruct b as [|d b]; simpl in H.
  - inversion H. auto.
  - inversion H. subst. exfalso. apply (Nb "."%char); simpl; auto.
  - inversion H. subst. exfalso. apply (Na "."%char); simpl; auto.
  - inversion H. subst.
    destruct (IH b x y) as [E1 E2]; auto.
    + intros c H0. apply Na. simpl. auto.
    + intros c H0. apply Nb. simpl. auto.
    + subst. auto.
Qed.

Lemma lower_app a b : lower (a ++ b) = (lower a ++ lower b)%string.
Proof. induction a; simpl; auto. rewrite IHa. reflexivity. Qed.

Lemma mangle_injective_lemma k1 n1 s1 k2 n2 s2 :
  render k1 n1 s1 = render k2 n2 s2 -> k1 = k2 /\ n1 = n2 /\ s1 = s2.
Proof.
  unfold render. intros H.
  assert (K : k1 = k2).
  { destruct k1, k2; auto; simpl in H; inversion H. }
  subst k2. split; auto.
  assert (H' : (decimal n1 ++ "." ++ s1 = decimal n2 ++ "." ++ s2)%string).
  { destruct k1; simpl in H; inversion H; auto. }
  apply append_dot_cancel in H'; try apply uint_nodot.
  destruct H' as [A B]. apply decimal_inj in A. auto.
Qed.

Lemma render_lower k n s : lower (render k n s) = render k n (lower s).
Proof.
  unfold render. rewrite !lower_app. unfold decimal. rewrite uint_lower.
  destruct k; reflexivity.
Qed.

(* equality of keys as CaseInsensitiveDict sees them (lower-cased strings) is equality of model keys *)
Lemma key_model_lemma k1 n1 s1 k2 n2 s2 :
  lower (render k1 n1 s1) = lower (render k2 n2 s2) <-> mkkey k1 n1 s1 = mkkey k2 n2 s2.
Proof.
  rewrite !render_lower. unfold mkkey. split.
  - intros H. apply mangle_injective_lemma in H. destruct H as (A & B & D). subst. rewrite D. reflexivity.
  - intros H. inversion H. reflexivity.
Qed.

Lemma key_eqb_eq a b : key_eqb a b = true <-> a = b.
Proof.
  destruct a as [[k1 n1] s1], b as [[k2 n2] s2]. simpl. split.
  - intros H. apply andb_true_iff in H. destruct H as [H H3]. apply andb_true_iff in H. destruct H as [H1 H2].
    apply N.eqb_eq in H2. apply String.eqb_eq in H3. destruct k1, k2; try discriminate; subst; reflexivity.
  - intros H. inversion H. subst. rewrite N.eqb_refl, String.eqb_refl. destruct k2; reflexivity.
Qed.

(* ------------------------------------------------------------------ the tables only grow *)
Lemma syms_declare i s n : syms (declare i s n) = syms s.
Proof. unfold declare. destruct (lookup_ext (lower n) (exts s)); reflexivity. Qed.

Lemma syms_fold_declare i ns : forall s, syms (fold_left (declare i) ns s) = syms s.
Proof. induction ns; simpl; intros s; auto. rewrite IHns. apply syms_declare. Qed.

Lemma errs_declare i s n : exists E, errs (declare i s n) = errs s ++ E.
Proof.
  unfold declare. destruct (lookup_ext (lower n) (exts s)); simpl.
  - eexists; reflexivity.
  - exists []. rewrite app_nil_r. reflexivity.
Qed.

Lemma errs_fold_declare i ns : forall s, exists E, errs (fold_left (declare i) ns s) = errs s ++ E.
Proof.
  induction ns; simpl; intros s.
  - exists []. rewrite app_nil_r. reflexivity.
  - destruct (IHns (declare i s a)) as [E1 H1]. destruct (errs_declare i s a) as [E2 H2].
    exists (E2 ++ E1). rewrite H1, H2, app_assoc. reflexivity.
Qed.

Lemma exts_declare i s n : exists X, exts (declare i s n) = exts s ++ X.
Proof.
  unfold declare. destruct (lookup_ext (lower n) (exts s)); simpl.
  - exists []. rewrite app_nil_r. reflexivity.
  - eexists; reflexivity.
Qed.

Lemma exts_fold_declare i ns : forall s, exists X, exts (fold_left (declare i) ns s) = exts s ++ X.
Proof.
  induction ns; simpl; intros s.
  - exists []. rewrite app_nil_r. reflexivity.
  - destruct (IHns (declare i s a)) as [E1 H1]. destruct (exts_declare i s a) as [E2 H2].
    exists (E2 ++ E1). rewrite H1, H2, app_assoc. reflexivity.
Qed.

Ltac break_step :=
  unfold bump_local, set_xall;
  repeat match goal with
         | |- context [if ?c then _ else _] => destruct c eqn:?
         | |- context [match lookup_key ?k ?t with _ => _ end] => destruct (lookup_key k t) eqn:?
         | |- context [match stack ?s with _ => _ end] => destruct (stack s) eqn:?
         end.

Lemma step_syms_app s e : exists T, syms (step s e) = syms s ++ T.
Proof.
  unfold step. destruct e; break_step; simpl;
    repeat (rewrite ?syms_declare, ?syms_fold_declare; simpl);
    try (exists []; rewrite app_nil_r; reflexivity); try (eexists; reflexivity).
Qed.

Lemma step_errs_app s e : exists E, errs (step s e) = errs s ++ E.
Proof.
  assert (Z0 : forall l : list string, exists E, l = l ++ E) by (intros l; exists []; rewrite app_nil_r; reflexivity).
  unfold step. destruct e; break_step; simpl; try apply Z0; try (eexists; reflexivity).
  - (* label, exported, extern_all *)
    destruct (errs_declare (f_int (topf s)) (add_sym s {| e_key := mkkey KInternal (f_int (topf s)) name;
       e_orig := render KInternal (f_int (topf s)) name; e_val := addr |}) name) as [E1 H1].
    match goal with |- context [declare ?i (add_isl ?s0 ?j ?n0) ?n1] =>
      destruct (errs_declare i (add_isl s0 j n0) n1) as [E2 H2] end.
    rewrite H2. simpl. rewrite H1. simpl. rewrite <- app_assoc. eexists; reflexivity.
  - match goal with |- context [declare ?i ?s0 ?n1] => destruct (errs_declare i s0 n1) as [E2 H2] end.
    rewrite H2. simpl. eexists; reflexivity.
  - match goal with |- context [declare ?i ?s0 ?n1] => destruct (errs_declare i s0 n1) as [E2 H2] end.
    rewrite H2. simpl. eexists; reflexivity.
  - match goal with |- context [declare ?i (declare ?i2 ?s0 ?n0) ?n1] =>
      destruct (errs_declare i (declare i2 s0 n0) n1) as [E2 H2]; destruct (errs_declare i2 s0 n0) as [E1 H1] end.
    rewrite H2, H1. simpl. rewrite <- app_assoc. eexists; reflexivity.
  - match goal with |- context [declare ?i ?s0 ?n1] => destruct (errs_declare i s0 n1) as [E2 H2] end.
    rewrite H2. simpl. eexists; reflexivity.
  - match goal with |- context [declare ?i ?s0 ?n1] => destruct (errs_declare i s0 n1) as [E2 H2] end.
    rewrite H2. simpl. eexists; reflexivity.
  - apply errs_fold_declare.
  - match goal with |- context [fold_left (declare ?i) ?l ?s0] => destruct (errs_fold_declare i l s0) as [E H] end.
    rewrite H. eexists; reflexivity.
Qed.

Lemma exts_app_trans (a : list (string * key)) x y : exists X, (a ++ x) ++ y = a ++ X.
Proof. exists (x ++ y). rewrite app_assoc. reflexivity. Qed.

Lemma step_exts_app s e : exists X, exts (step s e) = exts s ++ X.
Proof.
  assert (Z0 : forall l : list (string * key), exists E, l = l ++ E) by (intros l; exists []; rewrite app_nil_r; reflexivity).
  unfold step. destruct e; break_step; simpl; try apply Z0.
  - match goal with |- context [declare ?i (add_isl (declare ?i2 ?s0 ?n0) ?j ?n2) ?n1] =>
      destruct (exts_declare i (add_isl (declare i2 s0 n0) j n2) n1) as [E2 H2]; destruct (exts_declare i2 s0 n0) as [E1 H1] end.
    rewrite H2. simpl. rewrite H1. simpl. apply exts_app_trans.
  - match goal with |- context [declare ?i ?s0 ?n1] => destruct (exts_declare i s0 n1) as [E2 H2] end.
    rewrite H2. simpl. eexists; reflexivity.
  - match goal with |- context [declare ?i ?s0 ?n1] => destruct (exts_declare i s0 n1) as [E2 H2] end.
    rewrite H2. simpl. eexists; reflexivity.
  - match goal with |- context [declare ?i (declare ?i2 ?s0 ?n0) ?n1] =>
      destruct (exts_declare i (declare i2 s0 n0) n1) as [E2 H2]; destruct (exts_declare i2 s0 n0) as [E1 H1] end.
    rewrite H2, H1. simpl. apply exts_app_trans.
  - match goal with |- context [declare ?i ?s0 ?n1] => destruct (exts_declare i s0 n1) as [E2 H2] end.
    rewrite H2. simpl. eexists; reflexivity.
  - match goal with |- context [declare ?i ?s0 ?n1] => destruct (exts_declare i s0 n1) as [E2 H2] end.
    rewrite H2. simpl. eexists; reflexivity.
  - apply exts_fold_declare.
  - match goal with |- context [fold_left (declare ?i) ?l ?s0] => destruct (exts_fold_declare i l s0) as [E H] end.
    rewrite H. eexists; reflexivity.
Qed.

Lemma walk_from_app tr : forall s,
  (exists T, syms (fold_left step tr s) = syms s ++ T) /\
  (exists X, exts (fold_left step tr s) = exts s ++ X) /\
  (exists E, errs (fold_left step tr s) = errs s ++ E).
Proof.
  induction tr as [|e r IH]; intros s; simpl.
  - repeat split; exists []; rewrite app_nil_r; reflexivity.
  - destruct (IH (step s e)) as ((T & HT) & (X & HX) & (E & HE)).
    destruct (step_syms_app s e) as [T0 HT0]. destruct (step_exts_app s e) as [X0 HX0].
    destruct (step_errs_app s e) as [E0 HE0].
    repeat split.
    + exists (T0 ++ T). rewrite HT, HT0, app_assoc. reflexivity.
    + exists (X0 ++ X). rewrite HX, HX0, app_assoc. reflexivity.
    + exists (E0 ++ E). rewrite HE, HE0, app_assoc. reflexivity.
Qed.

Lemma find_app_some {A} (f : A -> bool) l1 l2 x : find f l1 = Some x -> find f (l1 ++ l2) = Some x.
Proof.
  induction l1 as [|a r IH]; simpl; [discriminate|]. destruct (f a); auto.
Qed.

Lemma lookup_key_app_some k T T' v : lookup_key k T = Some v -> lookup_key k (T ++ T') = Some v.
Proof.
  unfold lookup_key. destruct (find (fun en => key_eqb (e_key en) k) T) eqn:E; [|discriminate].
  intros H. rewrite (find_app_some _ _ T' _ E). exact H.
Qed.

Lemma lookup_ext_app_some n X X' k : lookup_ext n X = Some k -> lookup_ext n (X ++ X') = Some k.
Proof.
  unfold lookup_ext. destruct (find (fun p => String.eqb (fst p) n) X) eqn:E; [|discriminate].
  intros H. rewrite (find_app_some _ _ X' _ E). exact H.
Qed.

(* what one step adds to the table *)
Definition adds (s : st) (e : ev) (en : entry) : Prop :=
  lookup_key (e_key en) (syms s) = None /\
  match e with
  | ELabel n _ v | EAssign n _ v => e_key en = mkkey KInternal (f_int (topf s)) n /\ e_val en = v /\ f_isfile (topf s) = true
  | ELocal n v => e_key en = mkkey KLocal (f_loc (topf s)) n /\ e_val en = v /\ f_isfile (topf s) = true
  | _ => False
  end.

Lemma step_syms_shape s e :
  syms (step s e) = syms s \/ exists en, syms (step s e) = syms s ++ [en] /\ adds s e en.
Proof.
  unfold step. destruct e; break_step; simpl;
    repeat (rewrite ?syms_declare, ?syms_fold_declare; simpl); auto;
    right; eexists; (split; [reflexivity|]); unfold adds; simpl;
    repeat match goal with H : negb _ = false |- _ => apply negb_false_iff in H end; auto.
Qed.

Lemma lookup_key_in k T v : lookup_key k T = Some v -> exists en, In en T /\ e_key en = k /\ e_val en = v.
Proof.
  unfold lookup_key. destruct (find (fun en => key_eqb (e_key en) k) T) eqn:E; [|discriminate].
  intros H. inversion H; subst. apply find_some in E. destruct E as [I K]. apply key_eqb_eq in K. eauto.
Qed.

(* names keep their kind: the parser's split between numeric local labels and ordinary names *)
Definition wf_ev (e : ev) : Prop :=
  match e with
  | ELabel n _ _ | EAssign n _ _ => is_local n = false
  | ELocal n _ => is_local n = true
  | _ => True
  end.

Definition kinded (T : list entry) : Prop :=
  forall en, In en T ->
    match e_key en with
    | (KLocal, _, ln) => is_local ln = true
    | (KInternal, _, ln) => is_local ln = false
    end.

Lemma is_digit_lower c : is_digit (lower_ascii c) = is_digit c.
Proof.
  destruct c as [[] [] [] [] [] [] [] []]; reflexivity.
Qed.

Lemma is_local_lower n : is_local (lower n) = is_local n.
Proof. destruct n; simpl; auto. apply is_digit_lower. Qed.

Lemma kinded_step s e : wf_ev e -> kinded (syms s) -> kinded (syms (step s e)).
Proof.
  intros W K. destruct (step_syms_shape s e) as [H|(en & H & _ & A)]; rewrite H; auto.
  intros en' I. apply in_app_or in I. destruct I as [I|[I|[]]]; [apply (K _ I)|]. subst en'.
  destruct e; try contradiction; simpl in W; destruct A as (A & _); rewrite A; unfold mkkey;
    rewrite is_local_lower; exact W.
Qed.

Lemma kinded_walk tr : forall s, Forall wf_ev tr -> kinded (syms s) -> kinded (syms (fold_left step tr s)).
Proof.
  induction tr as [|e r IH]; intros s W K; simpl; auto.
  inversion W; subst. apply IH; auto. apply kinded_step; auto.
Qed.

Lemma kinded_excl T a b ln v w : kinded T ->
  lookup_key (KLocal, a, ln) T = Some v -> lookup_key (KInternal, b, ln) T = Some w -> False.
Proof.
  intros K H1 H2. apply lookup_key_in in H1. apply lookup_key_in in H2.
  destruct H1 as (e1 & I1 & K1 & _). destruct H2 as (e2 & I2 & K2 & _).
  pose proof (K _ I1) as X1. pose proof (K _ I2) as X2. rewrite K1 in X1. rewrite K2 in X2. congruence.
Qed.

(* a binding found when the use site is met is the binding at the end (Symbol._resolve tried early) *)
Lemma eager_stable_lemma s n v tr :
  kinded (syms s) -> Forall wf_ev tr ->
  outs (step s (ERef n)) = outs s ++ [inl v] ->
  resolve_final (fold_left step tr (step s (ERef n))) (f_loc (topf s)) (f_int (topf s)) (lower n) = Some v.
Proof.
  intros K W H.
  assert (S0 : syms (step s (ERef n)) = syms s).
  { unfold step. break_step; reflexivity. }
  assert (KF : kinded (syms (fold_left step tr (step s (ERef n))))).
  { apply kinded_walk; auto. rewrite S0. exact K. }
  destruct (walk_from_app tr (step s (ERef n))) as ((T & HT) & _).
  unfold resolve_final. rewrite HT in *. rewrite S0 in *.
  unfold step in H. unfold mkkey in H.
  destruct (lookup_key (KLocal, f_loc (topf s), lower n) (syms s)) eqn:E1.
  - simpl in H. apply app_inv_head in H. inversion H; subst.
    rewrite (lookup_key_app_some _ _ T _ E1). reflexivity.
  - destruct (lookup_key (KInternal, f_int (topf s), lower n) (syms s)) eqn:E2.
    + simpl in H. apply app_inv_head in H. inversion H; subst.
      pose proof (lookup_key_app_some _ _ T _ E2) as E2'.
      destruct (lookup_key (KLocal, f_loc (topf s), lower n) (syms s ++ T)) eqn:E3.
      * exfalso. eapply kinded_excl; eauto.
      * rewrite E2'. reflexivity.
    + simpl in H. apply app_inv_head in H. inversion H.
Qed.

(* ------------------------------------------------------------------ precedence and visibility at the end *)
Lemma own_definition_wins_lemma s loc int ln v :
  kinded (syms s) -> lookup_key (KInternal, int, ln) (syms s) = Some v ->
  resolve_final s loc int ln = Some v.
Proof.
  intros K H. unfold resolve_final.
  destruct (lookup_key (KLocal, loc, ln) (syms s)) eqn:E.
  - exfalso. eapply kinded_excl; eauto.
  - rewrite H. reflexivity.
Qed.

Lemma private_not_visible_lemma s loc int ln :
  lookup_key (KLocal, loc, ln) (syms s) = None ->
  lookup_key (KInternal, int, ln) (syms s) = None ->
  lookup_ext ln (exts s) = None ->
  resolve_final s loc int ln = None.
Proof. intros A B D. unfold resolve_final. rewrite A, B, D. reflexivity. Qed.

(* the extern mapping always points to an own-file key of the same folded name *)
Definition exts_shaped (X : list (string * key)) : Prop :=
  forall n k, In (n, k) X -> exists i, k = (KInternal, i, n).

Lemma exts_shaped_declare i s n : exts_shaped (exts s) -> exts_shaped (exts (declare i s n)).
Proof.
  intros H. unfold declare. destruct (lookup_ext (lower n) (exts s)); simpl; auto.
  intros m k I. apply in_app_or in I. destruct I as [I|[I|[]]]; auto.
  inversion I; subst. eexists; reflexivity.
Qed.

Lemma exts_shaped_fold i ns : forall s, exts_shaped (exts s) -> exts_shaped (exts (fold_left (declare i) ns s)).
Proof. induction ns; simpl; intros s H; auto. apply IHns. apply exts_shaped_declare. exact H. Qed.

Lemma exts_shaped_step s e : exts_shaped (exts s) -> exts_shaped (exts (step s e)).
Proof.
  intros H. unfold step. destruct e; break_step; simpl; auto;
    repeat first [apply exts_shaped_declare | apply exts_shaped_fold]; simpl; auto.
Qed.

Lemma exts_shaped_walk tr : forall s, exts_shaped (exts s) -> exts_shaped (exts (fold_left step tr s)).
Proof. induction tr; simpl; intros s H; auto. apply IHtr. apply exts_shaped_step. exact H. Qed.

Lemma lookup_ext_shaped X ln k : exts_shaped X -> lookup_ext ln X = Some k -> exists i, k = (KInternal, i, ln).
Proof.
  unfold lookup_ext. intros S H. destruct (find (fun p => String.eqb (fst p) ln) X) as [[m k']|] eqn:E; [|discriminate].
  inversion H; subst. apply find_some in E. destruct E as [I Q]. simpl in Q. apply String.eqb_eq in Q. subst.
  apply (S _ _ I).
Qed.

(* a numeric name resolves under the use site's own local prefix only *)
Lemma local_binding_lemma s loc int ln v :
  kinded (syms s) -> exts_shaped (exts s) -> is_local ln = true -> resolve_final s loc int ln = Some v ->
  exists en, In en (syms s) /\ e_key en = (KLocal, loc, ln) /\ e_val en = v.
Proof.
  intros K XS L H. unfold resolve_final in H.
  destruct (lookup_key (KLocal, loc, ln) (syms s)) eqn:E1.
  - inversion H; subst. apply lookup_key_in. exact E1.
  - exfalso.
    assert (X : forall i w, lookup_key (KInternal, i, ln) (syms s) = Some w -> False).
    { intros i w Hk. apply lookup_key_in in Hk. destruct Hk as (en & I & Ek & _).
      pose proof (K _ I) as Y. rewrite Ek in Y. congruence. }
    destruct (lookup_key (KInternal, int, ln) (syms s)) eqn:E2.
    + eapply X; eauto.
    + destruct (lookup_ext ln (exts s)) as [k|] eqn:E3; [|discriminate].
      destruct (lookup_ext_shaped _ _ _ XS E3) as [i ->]. eapply X; eauto.
Qed.

(* ------------------------------------------------------------------ local prefixes identify scopes *)
Lemma stack_declare i s n : stack (declare i s n) = stack s /\ next_loc (declare i s n) = next_loc s
                            /\ next_int (declare i s n) = next_int s /\ isl (declare i s n) = isl s
                            /\ outs (declare i s n) = outs s.
Proof. unfold declare. destruct (lookup_ext (lower n) (exts s)); simpl; auto. Qed.

Lemma stack_fold_declare i ns : forall s,
  stack (fold_left (declare i) ns s) = stack s /\ next_loc (fold_left (declare i) ns s) = next_loc s
  /\ next_int (fold_left (declare i) ns s) = next_int s /\ isl (fold_left (declare i) ns s) = isl s
  /\ outs (fold_left (declare i) ns s) = outs s.
Proof.
  induction ns; simpl; intros s; auto.
  destruct (IHns (declare i s a)) as (A & B & D & E & F). destruct (stack_declare i s a) as (A' & B' & D' & E' & F').
  rewrite A, B, D, E, F. auto.
Qed.

Lemma map_tl {A B} (f : A -> B) l : map f (tl l) = tl (map f l).
Proof. destruct l; reflexivity. Qed.

Ltac simp_declare :=
  repeat match goal with
         | |- context [stack (declare ?i ?s ?n)] => rewrite (proj1 (stack_declare i s n))
         | |- context [next_loc (declare ?i ?s ?n)] => rewrite (proj1 (proj2 (stack_declare i s n)))
         | |- context [next_int (declare ?i ?s ?n)] => rewrite (proj1 (proj2 (proj2 (stack_declare i s n))))
         | |- context [stack (fold_left (declare ?i) ?l ?s)] => rewrite (proj1 (stack_fold_declare i l s))
         | |- context [next_loc (fold_left (declare ?i) ?l ?s)] => rewrite (proj1 (proj2 (stack_fold_declare i l s)))
         | |- context [next_int (fold_left (declare ?i) ?l ?s)] => rewrite (proj1 (proj2 (proj2 (stack_fold_declare i l s))))
         | _ => progress simpl
         end.

Definition locs (s : st) : list N := map f_loc (stack s).

Lemma step_locs s e :
  (locs (step s e) = locs s /\ next_loc (step s e) = next_loc s) \/
  (locs (step s e) = next_loc s :: locs s /\ next_loc (step s e) = (next_loc s + 1)%N) \/
  (locs (step s e) = tl (locs s) /\ next_loc (step s e) = next_loc s) \/
  (locs (step s e) = next_loc s :: tl (locs s) /\ next_loc (step s e) = (next_loc s + 1)%N /\
   f_isfile (topf s) = true /\ exists n x v, e = ELabel n x v).
Proof.
  unfold locs, step. destruct e; break_step; unfold bump_local, set_xall, topf; simp_declare;
    try (destruct (stack s) eqn:?; simp_declare); rewrite ?map_tl; auto;
    try (right; right; right; repeat split; auto;
         [match goal with H : negb _ = false |- _ => apply negb_false_iff in H; exact H end | eauto]).
Qed.

Definition inv (s : st) : Prop :=
  NoDup (locs s) /\ Forall (fun p => (p < next_loc s)%N) (locs s).

Lemma inv_init : inv init.
Proof. split; constructor. Qed.

Lemma Forall_tl {A} (P : A -> Prop) l : Forall P l -> Forall P (tl l).
Proof. destruct l; simpl; auto. intros H; inversion H; auto. Qed.

Lemma NoDup_tl {A} (l : list A) : NoDup l -> NoDup (tl l).
Proof. destruct l; simpl; auto. intros H; inversion H; auto. Qed.

Lemma inv_step s e : inv s -> inv (step s e).
Proof.
  intros [ND FA]. unfold inv.
  assert (FA' : Forall (fun p => (p < next_loc s + 1)%N) (locs s)).
  { eapply Forall_impl; [|exact FA]. intros; simpl in *; lia. }
  assert (NI : ~ In (next_loc s) (locs s)).
  { intros I. rewrite Forall_forall in FA. specialize (FA _ I). lia. }
  destruct (step_locs s e) as [[A B]|[[A B]|[[A B]|(A & B & _)]]]; rewrite A, B.
  - auto.
  - split; constructor; auto. lia.
  - split; [apply NoDup_tl|apply Forall_tl]; auto.
  - split; constructor.
    + intros I. apply NI. destruct (locs s); simpl in *; auto.
    + apply NoDup_tl; auto.
    + lia.
    + apply Forall_tl; auto.
Qed.

Lemma inv_walk tr : forall s, inv s -> inv (fold_left step tr s).
Proof. induction tr; simpl; intros s H; auto. apply IHtr. apply inv_step. exact H. Qed.

(* a local prefix that is no longer the prefix of any open block *)
Definition dead (p : N) (s : st) : Prop := (p < next_loc s)%N /\ ~ In p (locs s).

Lemma dead_step p s e : dead p s -> dead p (step s e).
Proof.
  intros [L NI]. unfold dead.
  destruct (step_locs s e) as [[A B]|[[A B]|[[A B]|(A & B & _)]]]; rewrite A, B.
  - auto.
  - split; [lia|]. intros [I|I]; [lia|auto].
  - split; auto. intros I. apply NI. destruct (locs s); simpl in *; auto.
  - split; [lia|]. intros [I|I]; [lia|]. apply NI. destruct (locs s); simpl in *; auto.
Qed.

Lemma lookup_key_app_other k T en : e_key en <> k -> lookup_key k (T ++ [en]) = lookup_key k T.
Proof.
  intros NE. unfold lookup_key. induction T as [|a r IH]; simpl.
  - destruct (key_eqb (e_key en) k) eqn:E; auto. apply key_eqb_eq in E. contradiction.
  - destruct (key_eqb (e_key a) k); auto.
Qed.

Lemma topf_in_locs s : f_isfile (topf s) = true -> In (f_loc (topf s)) (locs s).
Proof.
  unfold topf, locs. destruct (stack s); simpl; [discriminate|auto].
Qed.

Lemma dead_no_def p s e ln : dead p s ->
  lookup_key (KLocal, p, ln) (syms (step s e)) = lookup_key (KLocal, p, ln) (syms s).
Proof.
  intros [_ NI]. destruct (step_syms_shape s e) as [H|(en & H & _ & A)]; rewrite H; auto.
  apply lookup_key_app_other. intros E.
  destruct e; try contradiction; destruct A as (A & _ & F); rewrite A in E; unfold mkkey in E; inversion E.
  subst p. apply NI. apply topf_in_locs. exact F.
Qed.

Lemma dead_walk p tr : forall s, dead p s ->
  dead p (fold_left step tr s) /\
  forall ln, lookup_key (KLocal, p, ln) (syms (fold_left step tr s)) = lookup_key (KLocal, p, ln) (syms s).
Proof.
  induction tr as [|e r IH]; simpl; intros s D; auto.
  destruct (IH (step s e) (dead_step _ _ e D)) as [A B]. split; auto.
  intros ln. rewrite B. apply dead_no_def. exact D.
Qed.

(* an ordinary label ends the local scope it is met in; so does the end of a block or file *)
Lemma label_ends_scope s n x v :
  inv s -> f_isfile (topf s) = true -> dead (f_loc (topf s)) (step s (ELabel n x v)).
Proof.
  intros [ND FA] F. pose proof (topf_in_locs s F) as I.
  destruct (step_locs s (ELabel n x v)) as [[A B]|[[A B]|[[A B]|(A & B & _)]]].
  - exfalso. revert A. unfold locs, step. rewrite F. simpl.
    destruct (lookup_key (mkkey KInternal (f_int (topf s)) n) (syms s)); unfold bump_local; break_step; simp_declare;
      rewrite map_tl; intros A; fold (locs s) in A;
      (assert (X : In (next_loc s) (locs s)) by (rewrite <- A; left; reflexivity));
      rewrite Forall_forall in FA; specialize (FA _ X); lia.
  - exfalso. destruct B as [B [[Q|Q]|Q]]; discriminate.
  - exfalso. destruct B as [B [Q|Q]]; discriminate.
  - unfold dead. rewrite A, B. rewrite Forall_forall in FA. pose proof (FA _ I). split; [lia|].
    intros [Q|Q]; [lia|]. unfold topf, locs in *. destruct (stack s); simpl in *; [discriminate|].
    inversion ND; subst. contradiction.
Qed.
