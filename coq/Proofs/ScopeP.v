(* C11 -- lemmas about Model/ScopeM.v (the prefix-counter mechanism) *)
From Coq Require Import String Ascii List ZArith NArith Bool Lia DecimalString DecimalN Decimal.
From Verif Require Import Base.Res Spec.Scope Model.ScopeM.
Import ListNotations.
Open Scope Z_scope.

(* ------------------------------------------------------------------ strings: the rendered keys *)
Definition nodot (s : string) : Prop := forall c, In c (list_ascii_of_string s) -> c <> "."%char.

Lemma uint_nodot d : nodot (NilEmpty.string_of_uint d).
Proof.
  induction d; simpl; intros c H; try tauto;
    (destruct H as [H|H]; [subst; discriminate|apply IHd; exact H]).
Qed.

Lemma uint_lower d : lower (NilEmpty.string_of_uint d) = NilEmpty.string_of_uint d.
Proof. induction d; simpl; try rewrite IHd; reflexivity. Qed.

Lemma decimal_inj a b : decimal a = decimal b -> a = b.
Proof.
  unfold decimal. intros H.
  assert (X : NilEmpty.uint_of_string (NilEmpty.string_of_uint (N.to_uint a)) =
              NilEmpty.uint_of_string (NilEmpty.string_of_uint (N.to_uint b))) by (rewrite H; reflexivity).
  rewrite !NilEmpty.usu in X. inversion X as [Y].
  rewrite <- (DecimalN.Unsigned.of_to a), <- (DecimalN.Unsigned.of_to b), Y. reflexivity.
Qed.

Lemma append_dot_cancel a : forall b x y, nodot a -> nodot b ->
  (a ++ "." ++ x = b ++ "." ++ y)%string -> a = b /\ x = y.
Proof.
  induction a as [|c a IH]; intros b x y Na Nb H; destruct b as [|d b]; simpl in H.
  - inversion H. auto.
  - inversion H. subst. exfalso. apply (Nb "."%char); simpl; auto.
  - inversion H. subst. exfalso. apply (Na "."%char); simpl; auto.
  - inversion H. subst.
    destruct (IH b x y) as [E1 E2]; auto.
    + intros c H0. apply Na. simpl. auto.
    + intros c H0. apply Nb. simpl. auto.
    + subst. auto.
Qed.

Lemma lower_app a b : lower (a ++ b) = (lower a ++ lower b)%string.
Proof. induction a; simpl; auto. rewrite IHa. reflexivity. Qed.

Lemma mangle_injective_lemma k1 n1 s1 k2 n2 s2 :
  render k1 n1 s1 = render k2 n2 s2 -> k1 = k2 /\ n1 = n2 /\ s1 = s2.
Proof.
  unfold render. intros H.
  assert (K : k1 = k2).
  { destruct k1, k2; auto; simpl in H; inversion H. }
  subst k2. split; auto.
  assert (H' : (decimal n1 ++ "." ++ s1 = decimal n2 ++ "." ++ s2)%string).
  { destruct k1; simpl in H; inversion H; auto. }
  apply append_dot_cancel in H'; try apply uint_nodot.
  destruct H' as [A B]. apply decimal_inj in A. auto.
Qed.

Lemma render_lower k n s : lower (render k n s) = render k n (lower s).
Proof.
  unfold render. rewrite !lower_app. unfold decimal. rewrite uint_lower.
  destruct k; reflexivity.
Qed.

(* equality of keys as CaseInsensitiveDict sees them (lower-cased strings) is equality of model keys *)
Lemma key_model_lemma k1 n1 s1 k2 n2 s2 :
  lower (render k1 n1 s1) = lower (render k2 n2 s2) <-> mkkey k1 n1 s1 = mkkey k2 n2 s2.
Proof.
  rewrite !render_lower. unfold mkkey. split.
  - intros H. apply mangle_injective_lemma in H. destruct H as (A & B & D). subst. rewrite D. reflexivity.
  - intros H. inversion H. reflexivity.
Qed.

Lemma key_eqb_eq a b : key_eqb a b = true <-> a = b.
Proof.
  destruct a as [[k1 n1] s1], b as [[k2 n2] s2]. simpl. split.
  - intros H. apply andb_true_iff in H. destruct H as [H H3]. apply andb_true_iff in H. destruct H as [H1 H2].
    apply N.eqb_eq in H2. apply String.eqb_eq in H3. destruct k1, k2; try discriminate; subst; reflexivity.
  - intros H. inversion H. subst. rewrite N.eqb_refl, String.eqb_refl. destruct k2; reflexivity.
Qed.

(* ------------------------------------------------------------------ the tables only grow *)
Lemma syms_declare i s n : syms (declare i s n) = syms s.
Proof. unfold declare. destruct (lookup_ext (lower n) (exts s)); reflexivity. Qed.

Lemma syms_fold_declare i ns : forall s, syms (fold_left (declare i) ns s) = syms s.
Proof. induction ns; simpl; intros s; auto. rewrite IHns. apply syms_declare. Qed.

Lemma errs_declare i s n : exists E, errs (declare i s n) = errs s ++ E.
Proof.
  unfold declare. destruct (lookup_ext (lower n) (exts s)); simpl.
  - eexists; reflexivity.
  - exists []. rewrite app_nil_r. reflexivity.
Qed.

Lemma errs_fold_declare i ns : forall s, exists E, errs (fold_left (declare i) ns s) = errs s ++ E.
Proof.
  induction ns; simpl; intros s.
  - exists []. rewrite app_nil_r. reflexivity.
  - destruct (IHns (declare i s a)) as [E1 H1]. destruct (errs_declare i s a) as [E2 H2].
    exists (E2 ++ E1). rewrite H1, H2, app_assoc. reflexivity.
Qed.

Lemma exts_declare i s n : exists X, exts (declare i s n) = exts s ++ X.
Proof.
  unfold declare. destruct (lookup_ext (lower n) (exts s)); simpl.
  - exists []. rewrite app_nil_r. reflexivity.
  - eexists; reflexivity.
Qed.

Lemma exts_fold_declare i ns : forall s, exists X, exts (fold_left (declare i) ns s) = exts s ++ X.
Proof.
  induction ns; simpl; intros s.
  - exists []. rewrite app_nil_r. reflexivity.
  - destruct (IHns (declare i s a)) as [E1 H1]. destruct (exts_declare i s a) as [E2 H2].
    exists (E2 ++ E1). rewrite H1, H2, app_assoc. reflexivity.
Qed.

Ltac break_step :=
  unfold bump_local, set_xall;
  repeat match goal with
         | |- context [if ?c then _ else _] => destruct c eqn:?
         | |- context [match lookup_key ?k ?t with _ => _ end] => destruct (lookup_key k t) eqn:?
         | |- context [match stack ?s with _ => _ end] => destruct (stack s) eqn:?
         end.

Ltac break_if :=
  repeat match goal with
         | |- context [if ?c then _ else _] => destruct c eqn:?
         | |- context [match lookup_key ?k ?t with _ => _ end] => destruct (lookup_key k t) eqn:?
         end.

Definition grows (s s' : st) : Prop :=
  (exists T, syms s' = syms s ++ T) /\ (exists X, exts s' = exts s ++ X) /\ (exists E, errs s' = errs s ++ E).

Lemma grows_refl s : grows s s.
Proof. repeat split; exists []; rewrite app_nil_r; reflexivity. Qed.

Lemma grows_trans a b c : grows a b -> grows b c -> grows a c.
Proof.
  intros ((T1 & A1) & (X1 & B1) & (E1 & C1)) ((T2 & A2) & (X2 & B2) & (E2 & C2)).
  repeat split; eexists.
  - rewrite A2, A1, <- app_assoc. reflexivity.
  - rewrite B2, B1, <- app_assoc. reflexivity.
  - rewrite C2, C1, <- app_assoc. reflexivity.
Qed.

Ltac grows_base := repeat split; simpl; try (exists []; rewrite app_nil_r; reflexivity); try (eexists; reflexivity).

Lemma grows_add_err s e : grows s (add_err s e). Proof. grows_base. Qed.
Lemma grows_add_sym s e : grows s (add_sym s e). Proof. grows_base. Qed.
Lemma grows_add_isl s i n : grows s (add_isl s i n). Proof. grows_base. Qed.
Lemma grows_add_out s o : grows s (add_out s o). Proof. grows_base. Qed.
Lemma grows_with_stack s k : grows s (with_stack s k). Proof. grows_base. Qed.
Lemma grows_bump s : grows s (bump_local s).
Proof. unfold bump_local. destruct (stack s); [apply grows_refl|grows_base]. Qed.
Lemma grows_set_xall s : grows s (set_xall s).
Proof. unfold set_xall. destruct (stack s); [apply grows_refl|grows_base]. Qed.
Lemma grows_declare i s n : grows s (declare i s n).
Proof. unfold declare. destruct (lookup_ext (lower n) (exts s)); grows_base. Qed.
Lemma grows_fold_declare i ns : forall s, grows s (fold_left (declare i) ns s).
Proof.
  induction ns; simpl; intros s; [apply grows_refl|].
  eapply grows_trans; [apply grows_declare|apply IHns].
Qed.

Ltac grows_tac :=
  repeat first
    [ apply grows_refl
    | eapply grows_trans; [|apply grows_bump]
    | eapply grows_trans; [|apply grows_set_xall]
    | eapply grows_trans; [|apply grows_declare]
    | eapply grows_trans; [|apply grows_fold_declare]
    | eapply grows_trans; [|apply grows_add_err]
    | eapply grows_trans; [|apply grows_add_sym]
    | eapply grows_trans; [|apply grows_add_isl]
    | eapply grows_trans; [|apply grows_add_out]
    | eapply grows_trans; [|apply grows_with_stack] ].

Lemma step_grows s e : grows s (step s e).
Proof.
  unfold step. destruct e; break_if; try grows_tac; grows_base.
Qed.

Lemma step_syms_app s e : exists T, syms (step s e) = syms s ++ T.
Proof. apply step_grows. Qed.
Lemma step_errs_app s e : exists E, errs (step s e) = errs s ++ E.
Proof. apply step_grows. Qed.
Lemma step_exts_app s e : exists X, exts (step s e) = exts s ++ X.
Proof. apply step_grows. Qed.

Lemma walk_from_app tr : forall s,
  (exists T, syms (fold_left step tr s) = syms s ++ T) /\
  (exists X, exts (fold_left step tr s) = exts s ++ X) /\
  (exists E, errs (fold_left step tr s) = errs s ++ E).
Proof.
  induction tr as [|e r IH]; intros s; simpl.
  - repeat split; exists []; rewrite app_nil_r; reflexivity.
  - destruct (IH (step s e)) as ((T & HT) & (X & HX) & (E & HE)).
    destruct (step_syms_app s e) as [T0 HT0]. destruct (step_exts_app s e) as [X0 HX0].
    destruct (step_errs_app s e) as [E0 HE0].
    repeat split.
    + exists (T0 ++ T). rewrite HT, HT0, app_assoc. reflexivity.
    + exists (X0 ++ X). rewrite HX, HX0, app_assoc. reflexivity.
    + exists (E0 ++ E). rewrite HE, HE0, app_assoc. reflexivity.
Qed.

Lemma find_app_some {A} (f : A -> bool) l1 l2 x : find f l1 = Some x -> find f (l1 ++ l2) = Some x.
Proof.
  induction l1 as [|a r IH]; simpl; [discriminate|]. destruct (f a); auto.
Qed.

Lemma lookup_key_app_some k T T' v : lookup_key k T = Some v -> lookup_key k (T ++ T') = Some v.
Proof.
  unfold lookup_key. destruct (find (fun en => key_eqb (e_key en) k) T) eqn:E; [|discriminate].
  intros H. rewrite (find_app_some _ _ T' _ E). exact H.
Qed.

Lemma lookup_ext_app_some n X X' k : lookup_ext n X = Some k -> lookup_ext n (X ++ X') = Some k.
Proof.
  unfold lookup_ext. destruct (find (fun p => String.eqb (fst p) n) X) eqn:E; [|discriminate].
  intros H. rewrite (find_app_some _ _ X' _ E). exact H.
Qed.

(* what one step adds to the table *)
Definition adds (s : st) (e : ev) (en : entry) : Prop :=
  lookup_key (e_key en) (syms s) = None /\
  match e with
  | ELabel n _ v | EAssign n _ v => e_key en = mkkey KInternal (f_int (topf s)) n /\ e_val en = v /\ f_isfile (topf s) = true
  | ELocal n v => e_key en = mkkey KLocal (f_loc (topf s)) n /\ e_val en = v /\ f_isfile (topf s) = true
  | _ => False
  end.

Lemma step_syms_shape s e :
  syms (step s e) = syms s \/ exists en, syms (step s e) = syms s ++ [en] /\ adds s e en.
Proof.
  unfold step. destruct e; break_step; simpl;
    repeat (rewrite ?syms_declare, ?syms_fold_declare; simpl); auto;
    right; eexists; (split; [reflexivity|]); unfold adds; simpl;
    repeat match goal with H : negb _ = false |- _ => apply negb_false_iff in H end; auto.
Qed.

Lemma lookup_key_in k T v : lookup_key k T = Some v -> exists en, In en T /\ e_key en = k /\ e_val en = v.
Proof.
  unfold lookup_key. destruct (find (fun en => key_eqb (e_key en) k) T) eqn:E; [|discriminate].
  intros H. inversion H; subst. apply find_some in E. destruct E as [I K]. apply key_eqb_eq in K. eauto.
Qed.

(* names keep their kind: the parser's split between numeric local labels and ordinary names *)
Definition wf_ev (e : ev) : Prop :=
  match e with
  | ELabel n _ _ | EAssign n _ _ => is_local n = false
  | ELocal n _ => is_local n = true
  | _ => True
  end.

Definition kinded (T : list entry) : Prop :=
  forall en, In en T ->
    match e_key en with
    | (KLocal, _, ln) => is_local ln = true
    | (KInternal, _, ln) => is_local ln = false
    end.

Lemma is_digit_lower c : is_digit (lower_ascii c) = is_digit c.
Proof.
  destruct c as [[] [] [] [] [] [] [] []]; reflexivity.
Qed.

Lemma is_local_lower n : is_local (lower n) = is_local n.
Proof. destruct n; simpl; auto. apply is_digit_lower. Qed.

Lemma kinded_step s e : wf_ev e -> kinded (syms s) -> kinded (syms (step s e)).
Proof.
  intros W K. destruct (step_syms_shape s e) as [H|(en & H & _ & A)]; rewrite H; auto.
  intros en' I. apply in_app_or in I. destruct I as [I|[I|[]]]; [apply (K _ I)|]. subst en'.
  destruct e; try contradiction; simpl in W; destruct A as (A & _); rewrite A; unfold mkkey;
    rewrite is_local_lower; exact W.
Qed.

Lemma kinded_walk tr : forall s, Forall wf_ev tr -> kinded (syms s) -> kinded (syms (fold_left step tr s)).
Proof.
  induction tr as [|e r IH]; intros s W K; simpl; auto.
  inversion W; subst. apply IH; auto. apply kinded_step; auto.
Qed.

Lemma kinded_excl T a b ln v w : kinded T ->
  lookup_key (KLocal, a, ln) T = Some v -> lookup_key (KInternal, b, ln) T = Some w -> False.
Proof.
  intros K H1 H2. apply lookup_key_in in H1. apply lookup_key_in in H2.
  destruct H1 as (e1 & I1 & K1 & _). destruct H2 as (e2 & I2 & K2 & _).
  pose proof (K _ I1) as X1. pose proof (K _ I2) as X2. rewrite K1 in X1. rewrite K2 in X2. congruence.
Qed.

(* a binding found when the use site is met is the binding at the end (Symbol._resolve tried early) *)
Lemma eager_stable_lemma s n v tr :
  kinded (syms s) -> Forall wf_ev tr ->
  outs (step s (ERef n)) = outs s ++ [inl v] ->
  resolve_final (fold_left step tr (step s (ERef n))) (f_loc (topf s)) (f_int (topf s)) (lower n) = Some v.
Proof.
  intros K W H.
  assert (S0 : syms (step s (ERef n)) = syms s).
  { unfold step. break_step; reflexivity. }
  assert (KF : kinded (syms (fold_left step tr (step s (ERef n))))).
  { apply kinded_walk; auto. rewrite S0. exact K. }
  destruct (walk_from_app tr (step s (ERef n))) as ((T & HT) & _).
  unfold resolve_final. rewrite HT in *. rewrite S0 in *.
  unfold step in H. unfold mkkey in H.
  destruct (lookup_key (KLocal, f_loc (topf s), lower n) (syms s)) eqn:E1.
  - simpl in H. apply app_inv_head in H. inversion H; subst.
    rewrite (lookup_key_app_some _ _ T _ E1). reflexivity.
  - destruct (lookup_key (KInternal, f_int (topf s), lower n) (syms s)) eqn:E2.
    + simpl in H. apply app_inv_head in H. inversion H; subst.
      pose proof (lookup_key_app_some _ _ T _ E2) as E2'.
      destruct (lookup_key (KLocal, f_loc (topf s), lower n) (syms s ++ T)) eqn:E3.
      * exfalso. eapply kinded_excl; eauto.
      * rewrite E2'. reflexivity.
    + simpl in H. apply app_inv_head in H. inversion H.
Qed.

(* ------------------------------------------------------------------ precedence and visibility at the end *)
Lemma own_definition_wins_lemma s loc int ln v :
  kinded (syms s) -> lookup_key (KInternal, int, ln) (syms s) = Some v ->
  resolve_final s loc int ln = Some v.
Proof.
  intros K H. unfold resolve_final.
  destruct (lookup_key (KLocal, loc, ln) (syms s)) eqn:E.
  - exfalso. eapply kinded_excl; eauto.
  - rewrite H. reflexivity.
Qed.

Lemma private_not_visible_lemma s loc int ln :
  lookup_key (KLocal, loc, ln) (syms s) = None ->
  lookup_key (KInternal, int, ln) (syms s) = None ->
  lookup_ext ln (exts s) = None ->
  resolve_final s loc int ln = None.
Proof. intros A B D. unfold resolve_final. rewrite A, B, D. reflexivity. Qed.

(* the extern mapping always points to an own-file key of the same folded name *)
Definition exts_shaped (X : list (string * key)) : Prop :=
  forall n k, In (n, k) X -> exists i, k = (KInternal, i, n).

Lemma exts_shaped_declare i s n : exts_shaped (exts s) -> exts_shaped (exts (declare i s n)).
Proof.
  intros H. unfold declare. destruct (lookup_ext (lower n) (exts s)); simpl; auto.
  intros m k I. apply in_app_or in I. destruct I as [I|[I|[]]]; auto.
  inversion I; subst. eexists; reflexivity.
Qed.

Lemma exts_shaped_fold i ns : forall s, exts_shaped (exts s) -> exts_shaped (exts (fold_left (declare i) ns s)).
Proof. induction ns; simpl; intros s H; auto. apply IHns. apply exts_shaped_declare. exact H. Qed.

Lemma exts_shaped_step s e : exts_shaped (exts s) -> exts_shaped (exts (step s e)).
Proof.
  intros H. unfold step. destruct e; break_step; simpl; auto;
    repeat first [apply exts_shaped_declare | apply exts_shaped_fold]; simpl; auto.
Qed.

Lemma exts_shaped_walk tr : forall s, exts_shaped (exts s) -> exts_shaped (exts (fold_left step tr s)).
Proof. induction tr; simpl; intros s H; auto. apply IHtr. apply exts_shaped_step. exact H. Qed.

Lemma lookup_ext_shaped X ln k : exts_shaped X -> lookup_ext ln X = Some k -> exists i, k = (KInternal, i, ln).
Proof.
  unfold lookup_ext. intros S H. destruct (find (fun p => String.eqb (fst p) ln) X) as [[m k']|] eqn:E; [|discriminate].
  inversion H; subst. apply find_some in E. destruct E as [I Q]. simpl in Q. apply String.eqb_eq in Q. subst.
  apply (S _ _ I).
Qed.

(* a numeric name resolves under the use site's own local prefix only *)
Lemma local_binding_lemma s loc int ln v :
  kinded (syms s) -> exts_shaped (exts s) -> is_local ln = true -> resolve_final s loc int ln = Some v ->
  exists en, In en (syms s) /\ e_key en = (KLocal, loc, ln) /\ e_val en = v.
Proof.
  intros K XS L H. unfold resolve_final in H.
  destruct (lookup_key (KLocal, loc, ln) (syms s)) eqn:E1.
  - inversion H; subst. apply lookup_key_in. exact E1.
  - exfalso.
    assert (X : forall i w, lookup_key (KInternal, i, ln) (syms s) = Some w -> False).
    { intros i w Hk. apply lookup_key_in in Hk. destruct Hk as (en & I & Ek & _).
      pose proof (K _ I) as Y. rewrite Ek in Y. congruence. }
    destruct (lookup_key (KInternal, int, ln) (syms s)) eqn:E2.
    + eapply X; eauto.
    + destruct (lookup_ext ln (exts s)) as [k|] eqn:E3; [|discriminate].
      destruct (lookup_ext_shaped _ _ _ XS E3) as [i ->]. eapply X; eauto.
Qed.

(* ------------------------------------------------------------------ local prefixes identify scopes *)
Lemma stack_declare i s n : stack (declare i s n) = stack s /\ next_loc (declare i s n) = next_loc s
                            /\ next_int (declare i s n) = next_int s /\ isl (declare i s n) = isl s
                            /\ outs (declare i s n) = outs s.
Proof. unfold declare. destruct (lookup_ext (lower n) (exts s)); simpl; auto. Qed.

Lemma stack_fold_declare i ns : forall s,
  stack (fold_left (declare i) ns s) = stack s /\ next_loc (fold_left (declare i) ns s) = next_loc s
  /\ next_int (fold_left (declare i) ns s) = next_int s /\ isl (fold_left (declare i) ns s) = isl s
  /\ outs (fold_left (declare i) ns s) = outs s.
Proof.
  induction ns; simpl; intros s; auto.
  destruct (IHns (declare i s a)) as (A & B & D & E & F). destruct (stack_declare i s a) as (A' & B' & D' & E' & F').
  rewrite A, B, D, E, F. auto.
Qed.

Lemma map_tl {A B} (f : A -> B) l : map f (tl l) = tl (map f l).
Proof. destruct l; reflexivity. Qed.

Ltac simp_declare :=
  repeat match goal with
         | |- context [stack (declare ?i ?s ?n)] => rewrite (proj1 (stack_declare i s n))
         | |- context [next_loc (declare ?i ?s ?n)] => rewrite (proj1 (proj2 (stack_declare i s n)))
         | |- context [next_int (declare ?i ?s ?n)] => rewrite (proj1 (proj2 (proj2 (stack_declare i s n))))
         | |- context [stack (fold_left (declare ?i) ?l ?s)] => rewrite (proj1 (stack_fold_declare i l s))
         | |- context [next_loc (fold_left (declare ?i) ?l ?s)] => rewrite (proj1 (proj2 (stack_fold_declare i l s)))
         | |- context [next_int (fold_left (declare ?i) ?l ?s)] => rewrite (proj1 (proj2 (proj2 (stack_fold_declare i l s))))
         | _ => progress simpl
         end.

Definition locs (s : st) : list N := map f_loc (stack s).

Definition keeps (s s' : st) : Prop := locs s' = locs s /\ next_loc s' = next_loc s.

Lemma keeps_refl s : keeps s s. Proof. split; reflexivity. Qed.
Lemma keeps_trans a b c : keeps a b -> keeps b c -> keeps a c.
Proof. intros [A B] [D E]. split; congruence. Qed.
Lemma keeps_add_err s e : keeps s (add_err s e). Proof. split; reflexivity. Qed.
Lemma keeps_add_sym s e : keeps s (add_sym s e). Proof. split; reflexivity. Qed.
Lemma keeps_add_isl s i n : keeps s (add_isl s i n). Proof. split; reflexivity. Qed.
Lemma keeps_add_out s o : keeps s (add_out s o). Proof. split; reflexivity. Qed.
Lemma keeps_declare i s n : keeps s (declare i s n).
Proof. unfold keeps, locs. destruct (stack_declare i s n) as (A & B & _). rewrite A, B. auto. Qed.
Lemma keeps_fold_declare i ns s : keeps s (fold_left (declare i) ns s).
Proof. unfold keeps, locs. destruct (stack_fold_declare i ns s) as (A & B & _). rewrite A, B. auto. Qed.
Lemma keeps_set_xall s : keeps s (set_xall s).
Proof. unfold set_xall, keeps, locs. destruct (stack s) eqn:E; simpl; rewrite ?E; auto. Qed.

Ltac keeps_tac :=
  repeat first
    [ apply keeps_refl
    | eapply keeps_trans; [|apply keeps_set_xall]
    | eapply keeps_trans; [|apply keeps_declare]
    | eapply keeps_trans; [|apply keeps_fold_declare]
    | eapply keeps_trans; [|apply keeps_add_err]
    | eapply keeps_trans; [|apply keeps_add_sym]
    | eapply keeps_trans; [|apply keeps_add_isl]
    | eapply keeps_trans; [|apply keeps_add_out] ].

Lemma bump_locs s : stack s <> [] ->
  locs (bump_local s) = next_loc s :: tl (locs s) /\ next_loc (bump_local s) = (next_loc s + 1)%N.
Proof. unfold bump_local, locs. destruct (stack s); [congruence|]. simpl. auto. Qed.

Lemma topf_file_nonempty s : f_isfile (topf s) = true -> stack s <> [].
Proof. unfold topf. destruct (stack s); [discriminate|discriminate]. Qed.

Lemma label_locs s n x v : f_isfile (topf s) = true ->
  locs (step s (ELabel n x v)) = next_loc s :: tl (locs s) /\
  next_loc (step s (ELabel n x v)) = (next_loc s + 1)%N.
Proof.
  intros F. unfold step. rewrite F. simpl negb. cbv iota.
  match goal with |- context [bump_local ?x] => set (s1 := x) end.
  assert (K : keeps s s1) by (unfold s1; break_if; keeps_tac).
  destruct K as [K1 K2].
  assert (NE : stack s1 <> []).
  { pose proof (topf_file_nonempty s F) as NE. unfold locs in K1. intros Q. rewrite Q in K1. simpl in K1.
    destruct (stack s); [congruence|discriminate]. }
  destruct (bump_locs s1 NE) as [B1 B2]. rewrite B1, B2, K1, K2. auto.
Qed.

Lemma step_locs s e :
  (locs (step s e) = locs s /\ next_loc (step s e) = next_loc s) \/
  (locs (step s e) = next_loc s :: locs s /\ next_loc (step s e) = (next_loc s + 1)%N) \/
  (locs (step s e) = tl (locs s) /\ next_loc (step s e) = next_loc s) \/
  (locs (step s e) = next_loc s :: tl (locs s) /\ next_loc (step s e) = (next_loc s + 1)%N /\
   f_isfile (topf s) = true /\ exists n x v, e = ELabel n x v).
Proof.
  destruct e.
  - right; left. unfold step, locs. simpl. auto.
  - right; right; left. unfold step, locs. simpl. rewrite map_tl. auto.
  - right; left. unfold step, locs. simpl. auto.
  - right; right; left. unfold step, locs. simpl. rewrite map_tl. auto.
  - unfold step. destruct (negb (f_isfile (topf s))) eqn:F.
    + left. apply keeps_add_err.
    + right; right; right. apply negb_false_iff in F.
      destruct (label_locs s name ext addr F) as [A B]. unfold step in A, B. rewrite F in A, B. simpl negb in A, B.
      cbv iota in A, B. rewrite A, B. repeat split; eauto.
  - left. unfold step. break_if; keeps_tac.
  - left. unfold step. break_if; keeps_tac.
  - left. unfold step. break_if; keeps_tac.
  - left. unfold step. keeps_tac.
  - left. unfold step. keeps_tac.
Qed.

Definition inv (s : st) : Prop :=
  NoDup (locs s) /\ Forall (fun p => (p < next_loc s)%N) (locs s).

Lemma inv_init : inv init.
Proof. split; constructor. Qed.

Lemma Forall_tl {A} (P : A -> Prop) l : Forall P l -> Forall P (tl l).
Proof. destruct l; simpl; auto. intros H; inversion H; auto. Qed.

Lemma NoDup_tl {A} (l : list A) : NoDup l -> NoDup (tl l).
Proof. destruct l; simpl; auto. intros H; inversion H; auto. Qed.

Lemma inv_step s e : inv s -> inv (step s e).
Proof.
  intros [ND FA]. unfold inv.
  assert (FA' : Forall (fun p => (p < next_loc s + 1)%N) (locs s)).
  { eapply Forall_impl; [|exact FA]. intros; simpl in *; lia. }
  assert (NI : ~ In (next_loc s) (locs s)).
  { intros I. rewrite Forall_forall in FA. specialize (FA _ I). lia. }
  destruct (step_locs s e) as [[A B]|[[A B]|[[A B]|(A & B & _)]]]; rewrite A, B.
  - auto.
  - split; constructor; auto. lia.
  - split; [apply NoDup_tl|apply Forall_tl]; auto.
  - split; constructor.
    + intros I. apply NI. destruct (locs s); simpl in *; auto.
    + apply NoDup_tl; auto.
    + lia.
    + apply Forall_tl; auto.
Qed.

Lemma inv_walk tr : forall s, inv s -> inv (fold_left step tr s).
Proof. induction tr; simpl; intros s H; auto. apply IHtr. apply inv_step. exact H. Qed.

(* a local prefix that is no longer the prefix of any open block *)
Definition dead (p : N) (s : st) : Prop := (p < next_loc s)%N /\ ~ In p (locs s).

Lemma dead_step p s e : dead p s -> dead p (step s e).
Proof.
  intros [L NI]. unfold dead.
  destruct (step_locs s e) as [[A B]|[[A B]|[[A B]|(A & B & _)]]]; rewrite A, B.
  - auto.
  - split; [lia|]. intros [I|I]; [lia|auto].
  - split; auto. intros I. apply NI. destruct (locs s); simpl in *; auto.
  - split; [lia|]. intros [I|I]; [lia|]. apply NI. destruct (locs s); simpl in *; auto.
Qed.

Lemma lookup_key_app_other k T en : e_key en <> k -> lookup_key k (T ++ [en]) = lookup_key k T.
Proof.
  intros NE. unfold lookup_key. induction T as [|a r IH]; simpl.
  - destruct (key_eqb (e_key en) k) eqn:E; auto. apply key_eqb_eq in E. contradiction.
  - destruct (key_eqb (e_key a) k); auto.
Qed.

Lemma topf_in_locs s : f_isfile (topf s) = true -> In (f_loc (topf s)) (locs s).
Proof.
  unfold topf, locs. destruct (stack s); simpl; [discriminate|auto].
Qed.

Lemma dead_no_def p s e ln : dead p s ->
  lookup_key (KLocal, p, ln) (syms (step s e)) = lookup_key (KLocal, p, ln) (syms s).
Proof.
  intros [_ NI]. destruct (step_syms_shape s e) as [H|(en & H & _ & A)]; rewrite H; auto.
  apply lookup_key_app_other. intros E.
  destruct e; try contradiction; destruct A as (A & _ & F); rewrite A in E; unfold mkkey in E; inversion E.
  subst p. apply NI. apply topf_in_locs. exact F.
Qed.

Lemma dead_walk p tr : forall s, dead p s ->
  dead p (fold_left step tr s) /\
  forall ln, lookup_key (KLocal, p, ln) (syms (fold_left step tr s)) = lookup_key (KLocal, p, ln) (syms s).
Proof.
  induction tr as [|e r IH]; simpl; intros s D; auto.
  destruct (IH (step s e) (dead_step _ _ e D)) as [A B]. split; auto.
  intros ln. rewrite B. apply dead_no_def. exact D.
Qed.

(* an ordinary label ends the local scope it is met in; so does the end of a block or file *)
Lemma label_ends_scope s n x v :
  inv s -> f_isfile (topf s) = true -> dead (f_loc (topf s)) (step s (ELabel n x v)).
Proof.
  intros [ND FA] F. pose proof (topf_in_locs s F) as I.
  destruct (label_locs s n x v F) as [A B].
  unfold dead. rewrite A, B. rewrite Forall_forall in FA. pose proof (FA _ I). split; [lia|].
  intros [Q|Q]; [lia|]. unfold topf, locs in *. destruct (stack s); simpl in *; [discriminate|].
  inversion ND; subst. contradiction.
Qed.

Lemma end_ends_scope s e : e = EEndBlock \/ e = EEndFile ->
  inv s -> stack s <> [] -> dead (f_loc (topf s)) (step s e).
Proof.
  intros E [ND FA] NE. unfold dead.
  assert (X : locs (step s e) = tl (locs s) /\ next_loc (step s e) = next_loc s).
  { destruct E; subst e; unfold step, locs; simpl; rewrite map_tl; auto. }
  destruct X as [A B]. rewrite A, B. unfold topf, locs in *.
  destruct (stack s); [congruence|]. simpl in *. inversion ND; subst. inversion FA; subst. auto.
Qed.

(* every file instance -- linked or included -- and every block get the next counter values *)
Lemma file_prefix_lemma s :
  let s' := step s EFile in
  f_int (topf s') = next_int s /\ f_loc (topf s') = next_loc s /\ f_isfile (topf s') = true /\ f_xall (topf s') = false /\
  next_int s' = (next_int s + 1)%N /\ next_loc s' = (next_loc s + 1)%N.
Proof. simpl. unfold topf. simpl. repeat split; reflexivity. Qed.

Lemma block_prefix_lemma s :
  let s' := step s EBlock in
  f_int (topf s') = f_int (topf s) /\ f_loc (topf s') = next_loc s /\ f_isfile (topf s') = false /\
  next_loc s' = (next_loc s + 1)%N.
Proof. simpl. unfold topf. simpl. repeat split; reflexivity. Qed.

(* ------------------------------------------------------------------ duplicates *)
Lemma dup_assign_lemma s n x v w :
  f_isfile (topf s) = true -> lookup_key (mkkey KInternal (f_int (topf s)) n) (syms s) = Some w ->
  step s (EAssign n x v) = add_err s E_DUP.
Proof. intros F H. unfold step. rewrite F, H. reflexivity. Qed.

Lemma dup_label_lemma s n x v w :
  f_isfile (topf s) = true -> lookup_key (mkkey KInternal (f_int (topf s)) n) (syms s) = Some w ->
  step s (ELabel n x v) = bump_local (add_err s E_DUP).
Proof. intros F H. unfold step. rewrite F, H. reflexivity. Qed.

Lemma dup_local_lemma s n v w :
  f_isfile (topf s) = true -> lookup_key (mkkey KLocal (f_loc (topf s)) n) (syms s) = Some w ->
  step s (ELocal n v) = add_err s E_DUP.
Proof. intros F H. unfold step. rewrite F, H. reflexivity. Qed.

Lemma dup_export_lemma i s n k :
  lookup_ext (lower n) (exts s) = Some k -> declare i s n = add_err s E_DUP.
Proof. intros H. unfold declare. rewrite H. reflexivity. Qed.

Lemma in_repeat_lemma s e :
  f_isfile (topf s) = false ->
  (exists n x v, e = ELabel n x v \/ e = EAssign n x v) \/ (exists n v, e = ELocal n v) ->
  step s e = add_err s E_UNEXPECTED.
Proof.
  intros F [(n & x & v & [E|E])|(n & v & E)]; subst e; unfold step; rewrite F; reflexivity.
Qed.

Lemma lookup_key_app_new T en : lookup_key (e_key en) T = None -> lookup_key (e_key en) (T ++ [en]) = Some (e_val en).
Proof.
  unfold lookup_key. intros H. induction T as [|a r IH]; simpl in *.
  - assert (X : key_eqb (e_key en) (e_key en) = true) by (apply key_eqb_eq; reflexivity). rewrite X. reflexivity.
  - destruct (key_eqb (e_key a) (e_key en)); [discriminate|auto].
Qed.

Lemma topf_declare i s n : topf (declare i s n) = topf s.
Proof. unfold topf. rewrite (proj1 (stack_declare i s n)). reflexivity. Qed.

(* after a definition of [a] is met at file level, the key of [a] is bound and the top frame is the same *)
Lemma assign_binds s a x v :
  f_isfile (topf s) = true ->
  let s' := step s (EAssign a x v) in
  topf s' = topf s /\ exists w, lookup_key (mkkey KInternal (f_int (topf s)) a) (syms s') = Some w.
Proof.
  intros F. simpl. unfold step. rewrite F. simpl negb. cbv iota.
  destruct (lookup_key (mkkey KInternal (f_int (topf s)) a) (syms s)) eqn:E.
  - split; [reflexivity|]. simpl. eauto.
  - split.
    + break_if; rewrite ?topf_declare; reflexivity.
    + exists v. break_if; rewrite ?syms_declare; simpl; rewrite ?syms_declare; simpl;
        apply (lookup_key_app_new (syms s) {| e_key := mkkey KInternal (f_int (topf s)) a;
                 e_orig := render KInternal (f_int (topf s)) a; e_val := v |}); exact E.
Qed.

(* names differing only in case are one symbol: a second definition under another spelling is a duplicate *)
Lemma case_dup_lemma s a b x y v w :
  f_isfile (topf s) = true -> lower a = lower b ->
  In E_DUP (errs (step (step s (EAssign a x v)) (EAssign b y w))).
Proof.
  intros F L. destruct (assign_binds s a x v F) as [T [u U]].
  assert (K : mkkey KInternal (f_int (topf s)) a = mkkey KInternal (f_int (topf s)) b) by (unfold mkkey; rewrite L; reflexivity).
  rewrite (dup_assign_lemma (step s (EAssign a x v)) b y w u).
  - simpl. apply in_or_app. right. left. reflexivity.
  - rewrite T. exact F.
  - rewrite T, <- K. exact U.
Qed.

(* ... and a use under any spelling is the same use *)
Lemma case_ref_lemma s a b : lower a = lower b -> step s (ERef a) = step s (ERef b).
Proof. intros L. unfold step, mkkey. rewrite L. reflexivity. Qed.

(* errors fail the build *)
Lemma errors_fail_lemma tr e :
  e = E_UNEXPECTED \/ e = E_DUP \/ e = E_UNDEFINED ->
  In e (errs (walk tr)) -> exists es, fst (model_trace tr) = OutFail es /\ In e es.
Proof.
  intros K I. unfold model_trace. simpl.
  set (es := errs (walk tr) ++ _).
  assert (H : has e es = true).
  { unfold has. apply existsb_exists. exists e. split; [|apply String.eqb_refl]. unfold es. apply in_or_app. auto. }
  destruct K as [ -> | [ -> | -> ] ]; rewrite H.
  - eexists. split; [reflexivity|]. left. reflexivity.
  - destruct (has E_UNEXPECTED es); eexists; (split; [reflexivity|]); simpl; auto.
  - destruct (has E_UNEXPECTED es), (has E_DUP es); eexists; (split; [reflexivity|]); simpl; auto.
Qed.

Lemma errs_walk_mono tr : forall s e, In e (errs s) -> In e (errs (fold_left step tr s)).
Proof.
  intros s e I. destruct (walk_from_app tr s) as (_ & _ & (E & H)). rewrite H. apply in_or_app. auto.
Qed.

(* ------------------------------------------------------------------ export and definition commute *)
Lemma declare_add_sym i s en n : declare i (add_sym s en) n = add_sym (declare i s n) en.
Proof. unfold declare. simpl. destruct (lookup_ext (lower n) (exts s)); reflexivity. Qed.

Lemma declare_add_isl i s j m n : declare i (add_isl s j m) n = add_isl (declare i s n) j m.
Proof. unfold declare. simpl. destruct (lookup_ext (lower n) (exts s)); reflexivity. Qed.

Lemma fold_declare_add_sym i ns : forall s en, fold_left (declare i) ns (add_sym s en) = add_sym (fold_left (declare i) ns s) en.
Proof. induction ns; simpl; intros; auto. rewrite declare_add_sym. apply IHns. Qed.

Lemma fold_declare_add_isl i ns : forall s j m, fold_left (declare i) ns (add_isl s j m) = add_isl (fold_left (declare i) ns s) j m.
Proof. induction ns; simpl; intros; auto. rewrite declare_add_isl. apply IHns. Qed.

Lemma set_xall_declare i s n : set_xall (declare i s n) = declare i (set_xall s) n.
Proof.
  unfold set_xall. rewrite (proj1 (stack_declare i s n)). destruct (stack s); auto.
  unfold declare. simpl. destruct (lookup_ext (lower n) (exts s)); reflexivity.
Qed.

Lemma set_xall_add_sym s en : set_xall (add_sym s en) = add_sym (set_xall s) en.
Proof. unfold set_xall. simpl. destruct (stack s); reflexivity. Qed.

Lemma set_xall_add_isl s j m : set_xall (add_isl s j m) = add_isl (set_xall s) j m.
Proof. unfold set_xall. simpl. destruct (stack s); reflexivity. Qed.

Lemma topf_fold_declare i ns s : topf (fold_left (declare i) ns s) = topf s.
Proof. unfold topf. rewrite (proj1 (stack_fold_declare i ns s)). reflexivity. Qed.

(* 'name = v' then '.extern name'  ==  '.extern name' then 'name = v'  (any spelling of the name) *)
Lemma extern_assign_commute s n m v :
  f_isfile (topf s) = true -> f_xall (topf s) = false -> lower m = lower n ->
  lookup_key (mkkey KInternal (f_int (topf s)) n) (syms s) = None ->
  step (step s (EAssign n false v)) (EExtern [m]) = step (step s (EExtern [m])) (EAssign n false v).
Proof.
  intros F X L U.
  assert (A : step s (EAssign n false v) =
              add_sym (add_isl s (f_int (topf s)) n)
                {| e_key := mkkey KInternal (f_int (topf s)) n; e_orig := render KInternal (f_int (topf s)) n; e_val := v |}).
  { unfold step. rewrite F, U, X. reflexivity. }
  rewrite A.
  assert (B : step s (EExtern [m]) = declare (f_int (topf s)) s m) by reflexivity.
  rewrite B.
  assert (L1 : step (add_sym (add_isl s (f_int (topf s)) n)
                {| e_key := mkkey KInternal (f_int (topf s)) n; e_orig := render KInternal (f_int (topf s)) n; e_val := v |})
                (EExtern [m]) =
               declare (f_int (topf s)) (add_sym (add_isl s (f_int (topf s)) n)
                {| e_key := mkkey KInternal (f_int (topf s)) n; e_orig := render KInternal (f_int (topf s)) n; e_val := v |}) m)
    by reflexivity.
  rewrite L1.
  assert (R1 : step (declare (f_int (topf s)) s m) (EAssign n false v) =
               add_sym (add_isl (declare (f_int (topf s)) s m) (f_int (topf s)) n)
                {| e_key := mkkey KInternal (f_int (topf s)) n; e_orig := render KInternal (f_int (topf s)) n; e_val := v |}).
  { unfold step. rewrite topf_declare, F, X, syms_declare. simpl negb. cbv iota.
    destruct (lookup_key (mkkey KInternal (f_int (topf s)) n) (syms s)) eqn:Q; [congruence|reflexivity]. }
  rewrite R1, declare_add_sym, declare_add_isl. reflexivity.
Qed.

(* 'name = v' then '.extern all'  ==  '.extern all' then 'name = v' *)
Lemma externall_assign_commute s n v :
  f_isfile (topf s) = true -> f_xall (topf s) = false ->
  lookup_key (mkkey KInternal (f_int (topf s)) n) (syms s) = None ->
  step (step s (EAssign n false v)) EExternAll = step (step s EExternAll) (EAssign n false v).
Proof.
  intros F X U.
  remember (f_int (topf s)) as i eqn:Hi in *.
  set (en := {| e_key := mkkey KInternal i n; e_orig := render KInternal i n; e_val := v |}).
  set (mine := map snd (filter (fun p => N.eqb (fst p) i) (isl s))).
  assert (A : step s (EAssign n false v) = add_sym (add_isl s i n) en).
  { unfold step. rewrite <- Hi, F, U, X. reflexivity. }
  assert (B : step s EExternAll = set_xall (fold_left (declare i) mine s)).
  { unfold step. rewrite <- Hi. reflexivity. }
  rewrite A, B.
  (* left: .extern all after the definition *)
  assert (L : step (add_sym (add_isl s i n) en) EExternAll =
              set_xall (declare i (add_sym (add_isl (fold_left (declare i) mine s) i n) en) n)).
  { unfold step. replace (topf (add_sym (add_isl s i n) en)) with (topf s) by reflexivity. rewrite <- Hi.
    simpl isl. rewrite filter_app, map_app. simpl filter. rewrite N.eqb_refl. simpl map. fold mine.
    rewrite fold_left_app. simpl fold_left.
    rewrite fold_declare_add_sym, fold_declare_add_isl. reflexivity. }
  rewrite L.
  (* right: the definition under the flag *)
  assert (TS : topf (set_xall (fold_left (declare i) mine s)) =
               {| f_isfile := true; f_int := i; f_loc := f_loc (topf s); f_xall := true |}).
  { unfold set_xall, topf. rewrite (proj1 (stack_fold_declare i mine s)).
    unfold topf in F, Hi. destruct (stack s) as [|t r]; [discriminate|]. simpl. rewrite F, Hi. reflexivity. }
  unfold step. rewrite TS. simpl f_isfile. simpl f_int. simpl f_xall. simpl negb. cbv iota.
  assert (SY : syms (set_xall (fold_left (declare i) mine s)) = syms s).
  { unfold set_xall. destruct (stack (fold_left (declare i) mine s)); simpl; apply syms_fold_declare. }
  rewrite SY, U.
  rewrite set_xall_declare, set_xall_add_sym, set_xall_add_isl. reflexivity.
Qed.

(* a use that is not bound when met is bound at the end, against the final tables only: its value cannot depend
   on where in the program the definition and the export stand *)
Lemma deferred_use_final s n tr :
  lookup_key (mkkey KLocal (f_loc (topf s)) n) (syms s) = None ->
  lookup_key (mkkey KInternal (f_int (topf s)) n) (syms s) = None ->
  let s1 := step s (ERef n) in
  outs s1 = outs s ++ [inr (f_loc (topf s), f_int (topf s), lower n)] /\
  force (fold_left step tr s1) (inr (f_loc (topf s), f_int (topf s), lower n)) =
    resolve_final (fold_left step tr s1) (f_loc (topf s)) (f_int (topf s)) (lower n).
Proof. intros A B. simpl. unfold step. rewrite A, B. simpl. auto. Qed.

(* an exported definition of another instance is what a use without own definition gets *)
Lemma exported_visible_lemma s loc int ln k v :
  lookup_key (KLocal, loc, ln) (syms s) = None ->
  lookup_key (KInternal, int, ln) (syms s) = None ->
  lookup_ext ln (exts s) = Some k -> lookup_key k (syms s) = Some v ->
  resolve_final s loc int ln = Some v.
Proof. intros A B D E. unfold resolve_final. rewrite A, B, D. exact E. Qed.

(* after an ordinary label (or the end of a block / file) the local prefix of the scope that ended gets no further
   definitions and is never again the prefix of an open block: a later use of the same numeric name is looked up
   under another prefix *)
Lemma local_reuse_lemma tr1 e tr2 :
  let s := walk tr1 in
  let p := f_loc (topf s) in
  ((exists n x v, e = ELabel n x v) /\ f_isfile (topf s) = true) \/ ((e = EEndBlock \/ e = EEndFile) /\ stack s <> []) ->
  let s2 := fold_left step tr2 (step s e) in
  (forall ln, lookup_key (KLocal, p, ln) (syms s2) = lookup_key (KLocal, p, ln) (syms (step s e))) /\
  ~ In p (locs s2) /\ (p < next_loc s2)%N.
Proof.
  intros s p H s2.
  assert (I : inv s) by (apply inv_walk; apply inv_init).
  assert (D : dead p (step s e)).
  { destruct H as [((n & x & v & ->) & F)|(E & NE)].
    - apply label_ends_scope; auto.
    - apply end_ends_scope; auto. }
  destruct (dead_walk p tr2 (step s e) D) as [[A B] C]. auto.
Qed.

(* an open scope: what is defined under its prefix stays visible from it until it ends *)
Lemma local_visible_lemma s n v tr :
  lookup_key (mkkey KLocal (f_loc (topf s)) n) (syms s) = Some v ->
  resolve_final (fold_left step tr s) (f_loc (topf s)) (f_int (topf s)) (lower n) = Some v.
Proof.
  intros H. destruct (walk_from_app tr s) as ((T & HT) & _).
  unfold resolve_final. rewrite HT. unfold mkkey in H. rewrite (lookup_key_app_some _ _ T _ H). reflexivity.
Qed.

Lemma invariants_lemma tr :
  Forall wf_ev tr -> kinded (syms (walk tr)) /\ exts_shaped (exts (walk tr)) /\ inv (walk tr).
Proof.
  intros W. repeat split.
  - apply kinded_walk; auto. intros en [].
  - apply exts_shaped_walk. intros n k [].
  - apply inv_walk. apply inv_init.
  - apply inv_walk. apply inv_init.
Qed.
