(* R_relocation_partial: a program of the class reloc_ok (Model/AsmT.v) assembled at two link bases. *)
From Coq Require Import ZArith List String Ascii Bool NArith Lia.
From Verif Require Import Base.Res Base.Bytes Spec.PDP11 Spec.Arith Spec.DataSpec Gen.GenGetAsInt Gen.GenOpcodes
  Model.Insns Model.Directives Proofs.DirectivesGai Proofs.DirectivesFill
  Model.Asm Model.AsmT Proofs.AsmP Proofs.AsmMeta Proofs.AsmMove Proofs.AsmSup.
Import ListNotations.
Notation length := Datatypes.length.
Notation concat := List.concat.
Open Scope string_scope.
Open Scope list_scope.
Open Scope Z_scope.

Ltac xinv H :=
  repeat match type of H with
  | xbind ?r ?f = XOk _ =>
      let a := fresh "a" in let Ha := fresh "Ha" in
      apply xbind_ok in H; destruct H as [a [Ha H]]
  end.

(* ---- closed expressions mean the same everywhere ------------------------------------------------------------ *)
Definition cval (enc : list N -> option (list Z)) (e : expr) : xres Z := lift (Arith.eval (cenc enc) (fun _ => None) 0 e).

Lemma xeval_closed enc D K X L T fuel vis c dot e : closed e = true ->
  xeval enc D K X L T fuel vis c dot e = cval enc e.
Proof.
  unfold cval. induction e; intros He; simpl in He; try discriminate.
  - destruct fuel; reflexivity.
  - specialize (IHe He). destruct fuel; simpl in *; rewrite IHe; destruct (Arith.eval _ _ _ e); reflexivity.
  - apply andb_true_iff in He. destruct He as [H1 H2]. specialize (IHe1 H1). specialize (IHe2 H2).
    destruct fuel; simpl in *; rewrite IHe1, IHe2; destruct (Arith.eval _ _ _ e1); simpl; try reflexivity;
      destruct (Arith.eval _ _ _ e2); reflexivity.
  - specialize (IHe He). destruct fuel; simpl in *; exact IHe.
Qed.

Lemma fev_closed enc X T c a e : closed e = true -> fev enc X T c a e = cval enc e.
Proof.
  unfold fev, cval. intros He. f_equal. induction e; simpl in He; try discriminate; simpl.
  - reflexivity.
  - rewrite (IHe He). reflexivity.
  - apply andb_true_iff in He. destruct He as [H1 H2]. rewrite (IHe1 H1), (IHe2 H2). reflexivity.
  - exact (IHe He).
Qed.

(* ---- tables moved by d -------------------------------------------------------------------------------------- *)
Definition shiftT (d : Z) (T : symtab) : symtab := map (fun kv => (fst kv, snd kv + d)) T.

Lemma klookup_shift d k T : klookup k (shiftT d T) = option_map (fun v => v + d) (klookup k T).
Proof. induction T as [|[k' v] T IH]; simpl; [reflexivity|]. destruct (key_eqb k k'); auto. Qed.

Lemma kmem_shift d k T : kmem k (shiftT d T) = kmem k T.
Proof. rewrite !kmem_klookup, klookup_shift. destruct (klookup k T); reflexivity. Qed.

(* the layout states at the two bases *)
Definition shiftS (d : Z) (st st' : lstate) : Prop :=
  l_addr st' = l_addr st + d /\ l_file st' = l_file st /\ l_scope st' = l_scope st /\
  l_labels st' = shiftT d (l_labels st) /\ l_ddots st = [] /\ l_ddots st' = [] /\
  l_based st' = l_based st /\ l_inc st' = l_inc st.

Definition item_shift (d : Z) (it it' : item) : Prop :=
  i_addr it' = i_addr it + d /\ i_scope it' = i_scope it /\ i_stmt it' = i_stmt it /\ i_size it' = i_size it.

Definition res_shift (d : Z) (r r' : lres) : Prop :=
  match r, r' with
  | XOk a, XOk b => shiftS d (fst a) (fst b) /\ Forall2 (item_shift d) (snd a) (snd b)
  | XErr a, XErr b => a = b
  | XCrash a, XCrash b => a = b
  | XOutOfFuel, XOutOfFuel => True
  | XUnsup a, XUnsup b => a = b
  | _, _ => False
  end.

Section Shift.
Variable enc : list N -> option (list Z).
Variable D : list defn.
Variable K : list key.
Variable X : list (string * nat).
Variable fuel : nat.
Variable d : Z.
Hypothesis Hd : d mod 2 = 0.
Notation layL := (lay_leaf enc D K X fuel).
Notation layl := (lay_list enc D K X fuel).

Lemma even_shift a : emit enc (DMeta ".even" []) (a + d) = emit enc (DMeta ".even" []) a.
Proof. rewrite !fill_even. replace ((a + d) mod 2) with (a mod 2); [reflexivity|]. rewrite Z.add_mod, Hd, Z.add_0_r, Z.mod_mod by lia; try reflexivity. Qed.
Lemma odd_shift a : emit enc (DMeta ".odd" []) (a + d) = emit enc (DMeta ".odd" []) a.
Proof. rewrite !fill_odd. replace ((a + d) mod 2) with (a mod 2); [reflexivity|]. rewrite Z.add_mod, Hd, Z.add_0_r, Z.mod_mod by lia; try reflexivity. Qed.

(* what the layout emits for a statement of the class without an announced size does not depend on the tables
   or on the base *)
Lemma unsized_shift s st st' c : reloc_stmt s = true -> sized_size s = None -> shiftS d st st' ->
  emit_leaf enc (lev enc D K X fuel st' c) (l_addr st') s = emit_leaf enc (lev enc D K X fuel st c) (l_addr st) s.
Proof.
  intros Hs Hz [Ea _]. unfold lev.
  destruct s; simpl in Hs, Hz; try discriminate; cbn [emit_leaf]; try reflexivity.
  - rewrite !xeval_closed by exact Hs. destruct (cval enc e); simpl; try reflexivity; try (rewrite !emit_blkb; reflexivity).
  - rewrite !xeval_closed by exact Hs. destruct (cval enc e); simpl; try reflexivity; try (rewrite !emit_blkw; reflexivity).
  - rewrite Ea. rewrite even_shift. reflexivity.
  - rewrite Ea. rewrite odd_shift. reflexivity.
  - f_equal. apply xmapM_agree with (P := fun ch => match ch with CStr _ => true | CCode e => closed e end); [|exact Hs].
    intros [t|e] Hc; simpl; [reflexivity|]. rewrite !xeval_closed by exact Hc. reflexivity.
  - f_equal. apply xmapM_agree with (P := fun ch => match ch with CStr _ => true | CCode e => closed e end); [|exact Hs].
    intros [t|e] Hc; simpl; [reflexivity|]. rewrite !xeval_closed by exact Hc. reflexivity.
Qed.

Lemma lay_leaf_shift s st st' : reloc_stmt s = true -> shiftS d st st' -> res_shift d (layL false s st) (layL false s st').
Proof.
  intros Hs S. pose proof S as [Ea [Ef [Es [El [Ed [Ed' [Eb Ei]]]]]]].
  assert (PUT : forall c s0 sz, shiftS d (fst (put st c s0 sz)) (fst (put st' c s0 sz)) /\
                                Forall2 (item_shift d) (snd (put st c s0 sz)) (snd (put st' c s0 sz))).
  { intros c s0 sz. unfold put. simpl. split; [unfold shiftS; simpl; repeat split; auto; lia|].
    constructor; [unfold item_shift; simpl; auto|constructor]. }
  assert (SZ : forall c s0 (r : xres Z), res_shift d (xbind r (fun sz => XOk (put st c s0 sz))) (xbind r (fun sz => XOk (put st' c s0 sz)))).
  { intros c s0 r. destruct r; simpl; auto. apply PUT. }
  assert (EM : forall s0, reloc_stmt s0 = true -> sized_size s0 = None -> forall c,
            res_shift d (xbind (emit_leaf enc (lev enc D K X fuel st c) (l_addr st) s0) (fun bs => XOk (put st c s0 (zlen bs))))
                        (xbind (emit_leaf enc (lev enc D K X fuel st' c) (l_addr st') s0) (fun bs => XOk (put st' c s0 (zlen bs))))).
  { intros s0 H1 H2 c. rewrite (unsized_shift s0 st st' c H1 H2 S). destruct (emit_leaf enc _ (l_addr st) s0); simpl; auto. apply PUT. }
  unfold Asm.lay_leaf. cbv zeta. rewrite Ef, Es, Eb, Ei.
  destruct s; simpl in Hs; try discriminate; cbn [sized_size]; try apply SZ; try (apply EM; reflexivity || exact Hs).
  - (* Label *) rewrite El, kmem_shift, Ed, Ed'. destruct (_ || _); [reflexivity|]. simpl.
    split; [unfold shiftS; simpl; repeat split; auto; try (rewrite ?El, ?Ea; reflexivity)|].
    constructor; [unfold item_shift; simpl; auto|constructor].
  - (* LocalLabel *) rewrite El, kmem_shift. destruct (kmem _ _); [reflexivity|]. simpl.
    split; [unfold shiftS; simpl; repeat split; auto; try (rewrite ?El, ?Ea; reflexivity)|].
    constructor; [unfold item_shift; simpl; auto|constructor].
Qed.

Lemma lay_list_shift l : forallb reloc_stmt l = true -> forall st st', shiftS d st st' ->
  res_shift d (layl false l st) (layl false l st').
Proof.
  induction l as [|x r IH]; intros Hl st st' S; simpl.
  - split; [exact S|constructor].
  - simpl in Hl. apply andb_true_iff in Hl. destruct Hl as [Hx Hr].
    assert (Nr : is_repeat x = false) by (destruct x; simpl in Hx; try discriminate; reflexivity).
    rewrite !lay_stmt_leaf by exact Nr.
    pose proof (lay_leaf_shift x st st' Hx S) as R1.
    destruct (layL false x st) as [[s1 d1]| | | |], (layL false x st') as [[s1' d1']| | | |]; simpl in R1; try contradiction; try discriminate; simpl; auto.
    destruct R1 as [S1 I1]. simpl in S1, I1. pose proof (IH Hr s1 s1' S1) as R2.
    destruct (layl false r s1) as [[s2 d2]| | | |], (layl false r s1') as [[s2' d2']| | | |]; simpl in R2; try contradiction; try discriminate; simpl; auto.
    destruct R2 as [S2 I2]. simpl in *. split; [exact S2|]. apply Forall2_app'; assumption.
Qed.
End Shift.

(* ---- the collectors on a program of the class ---------------------------------------------------------------- *)
Lemma reloc_collect l : forallb reloc_stmt l = true ->
  (forall f sc, collect_defs f sc l = []) /\ (forall f, collect_exports f l = ([], [])) /\ cut_end l = l /\ file_ids l = [].
Proof.
  induction l as [|x r IH]; intros H; [repeat split; reflexivity|].
  simpl in H. apply andb_true_iff in H. destruct H as [Hx Hr]. destruct (IH Hr) as [I1 [I2 [I3 I4]]].
  destruct x; simpl in Hx; try discriminate; repeat split; intros; simpl; rewrite ?I1, ?I2, ?I3; try reflexivity;
    unfold file_ids in *; simpl; rewrite ?I4; reflexivity.
Qed.

Lemma gai16_small b : 0 <= b < 65536 -> get_as_int (Some 16) false None b = Ok b.
Proof.
  intros H. destruct (get_as_int_spec 16 false b ltac:(lia)) as [S1 _].
  apply S1. split; [|symmetry; apply Z.mod_small; lia]. unfold admitted. split; [|intros; discriminate]. rewrite Z.abs_eq by lia. lia.
Qed.

(* the program at base b, pass by pass *)
Lemma at_base_inv enc b rest f : forallb reloc_stmt rest = true -> 0 <= b < 65536 ->
  assemble_full enc (at_base b rest) = XOk f ->
  let K := collect_keys 0 0 rest in
  exists st,
    f_base f = b /\ f_exports f = [] /\
    lay_list enc [] K [] 1 false rest (mkL b 0 0 [] [] true false) = XOk (st, tl (f_items f)) /\
    (exists it0, f_items f = it0 :: tl (f_items f) /\ i_size it0 = 0 /\ i_addr it0 = b /\ i_stmt it0 = i_stmt it0) /\
    f_syms f = l_labels st /\
    xmapM (emit_item enc [] (f_syms f)) (f_items f) = XOk (f_chunks f) /\
    forallb size_ok (combine (f_items f) (f_chunks f)) = true.
Proof.
  intros Hr Hb H. destruct (reloc_collect _ Hr) as [C1 [C2 [C3 C4]]].
  destruct (assemble_full_inv _ _ _ H) as [st [dv [Hx [Hfb [Hl [Hdv [Hs [He Hg]]]]]]]].
  unfold at_base in *. cbn [cut_end] in *. rewrite C3 in *. cbn [collect_defs defs_stmt app collect_keys keys_stmt collect_exports exports_stmt fst snd] in *.
  rewrite C1 in *. rewrite C2 in *. cbn [fst snd app length] in *.
  change (all_exports [] (collect_keys 0 0 rest) ([], [])) with (@nil (string * nat)) in *.
  (* the base *)
  unfold find_base in Hfb. cbn [first_base base_stmt] in Hfb. cbn [xeval] in Hfb. simpl lit_value in Hfb. cbn [lift xbind] in Hfb.
  rewrite Z2N.id in Hfb by lia. rewrite gai16_small in Hfb by exact Hb. cbn [lift] in Hfb. inversion Hfb as [Eb].
  (* the Link statement *)
  cbn [Asm.lay_list Asm.lay_stmt] in Hl. unfold Asm.lay_leaf in Hl. cbn [l_inc l_based l_file l_scope l_addr l_labels l_ddots xbind fst snd app] in Hl.
  rewrite <- Eb in Hl. xinv Hl. destruct a as [s1 d1]. cbn [fst snd] in Hl. injection Hl as E1 E2. subst st.
  unfold def_values in Hdv. cbn [xmapM] in Hdv. injection Hdv as <-. rewrite app_nil_r in Hs.
  exists s1. rewrite <- E2. cbn [tl]. split; [first [reflexivity | symmetry; exact Eb]|]. split; [exact Hx|]. split; [first [exact Ha | rewrite Eb; exact Ha | rewrite <- Eb; exact Ha]|].
  split; [eexists; split; [reflexivity|]; repeat split; first [reflexivity | symmetry; exact Eb | exact Eb]|]. split; [exact Hs|]. rewrite E2. split; [rewrite Hx in He; exact He|exact Hg].
Qed.

Lemma sizes_of_guard items : forall chunks, length chunks = length items ->
  forallb size_ok (combine items chunks) = true -> Forall2 (fun it c => i_size it = zlen c) items chunks.
Proof.
  induction items as [|it r IH]; intros [|c cs] L G; try discriminate; constructor.
  - simpl in G. apply andb_true_iff in G. destruct G as [G _]. unfold size_ok in G. simpl in G. apply Z.eqb_eq. exact G.
  - apply IH; [simpl in L; lia|]. simpl in G. apply andb_true_iff in G. tauto.
Qed.

Lemma same_lengths d its : forall its' cs cs', Forall2 (item_shift d) its its' ->
  Forall2 (fun it c => i_size it = zlen c) its cs -> Forall2 (fun it c => i_size it = zlen c) its' cs' ->
  Forall2 (fun c c' : list Z => length c = length c') cs cs'.
Proof.
  induction its as [|it r IH]; intros its' cs cs' H1 H2 H3; inversion H1; subst; inversion H2; subst; inversion H3; subst; constructor.
  - destruct H4 as [_ [_ [_ Ez]]]. unfold zlen in *. lia.
  - eapply IH; eauto.
Qed.

(* assembling at b and at b + d: the same statements at addresses moved by d, with the same sizes; every label moved
   by d; chunks of the same lengths, so images of the same length *)
Theorem reloc_layout enc b d rest f f' :
  reloc_ok rest = true -> d mod 2 = 0 -> 0 <= b < 65536 -> 0 <= b + d < 65536 ->
  assemble_full enc (at_base b rest) = XOk f -> assemble_full enc (at_base (b + d) rest) = XOk f' ->
  f_base f = b /\ f_base f' = b + d /\
  (exists it0 it0' tl tl', f_items f = it0 :: tl /\ f_items f' = it0' :: tl' /\ i_size it0 = 0 /\ i_size it0' = 0 /\
                           Forall2 (item_shift d) tl tl') /\
  f_syms f' = shiftT d (f_syms f) /\
  Forall2 (fun c c' : list Z => length c = length c') (f_chunks f) (f_chunks f') /\
  length (concat (f_chunks f)) = length (concat (f_chunks f')).
Proof.
  intros Hr Hd Hb Hb' H H'. unfold reloc_ok in Hr.
  destruct (at_base_inv _ _ _ _ Hr Hb H) as [st [B [_ [L [[i0 [I0 [Z0 _]]] [S [E G]]]]]]].
  destruct (at_base_inv _ _ _ _ Hr Hb' H') as [st' [B' [_ [L' [[i0' [I0' [Z0' _]]] [S' [E' G']]]]]]].
  assert (S0 : shiftS d (mkL b 0 0 [] [] true false) (mkL (b + d) 0 0 [] [] true false)) by (unfold shiftS; simpl; auto 10).
  pose proof (lay_list_shift enc [] (collect_keys 0 0 rest) [] 1 d Hd rest Hr _ _ S0) as R. rewrite L, L' in R. simpl in R.
  destruct R as [[_ [_ [_ [El _]]]] It].
  assert (CH : Forall2 (fun c c' : list Z => length c = length c') (f_chunks f) (f_chunks f')).
  { destruct (xmapM_nth _ _ _ E) as [Ln _]. destruct (xmapM_nth _ _ _ E') as [Ln' _].
    pose proof (sizes_of_guard _ _ Ln G) as Q. pose proof (sizes_of_guard _ _ Ln' G') as Q'.
    rewrite I0 in Q. rewrite I0' in Q'. inversion Q; subst. inversion Q'; subst. constructor.
    - unfold zlen in *. lia.
    - eapply same_lengths; eauto. }
  split; [exact B|]. split; [exact B'|]. split; [exists i0, i0', (tl (f_items f)), (tl (f_items f')); auto 10|].
  split; [rewrite S, S', El; reflexivity|]. split; [exact CH|].
  clear - CH. induction CH; simpl; [reflexivity|]. rewrite !app_length. congruence.
Qed.

(* what the statements of the class evaluate under the moved table: a literal expression gives the same number, a
   bare label the number moved by d -- at whatever address (`.` does not occur) *)
Theorem reloc_values enc d T c a a' e : re_abs e = true ->
  (closed e = true -> fev enc [] (shiftT d T) c a' e = fev enc [] T c a e) /\
  (is_sym e = true -> fev enc [] (shiftT d T) c a' e =
                      match fev enc [] T c a e with XOk v => XOk (v + d) | r => r end).
Proof.
  intros _. split.
  - intros Hc. rewrite !fev_closed by exact Hc. reflexivity.
  - destruct e; simpl; try discriminate. intros _. unfold fev. simpl.
    assert (Q : sym_of [] (shiftT d T) c s = option_map (fun v => v + d) (sym_of [] T c s)).
    { unfold sym_of, own_of. simpl. destruct (snd c) as [k|]; rewrite ?klookup_shift.
      - destruct (klookup (KLocal (fst c) k s) T); simpl; [reflexivity|]. destruct (klookup (KGlobal (fst c) s) T); reflexivity.
      - destruct (klookup (KGlobal (fst c) s) T); reflexivity. }
    rewrite Q. destruct (sym_of [] T c s); reflexivity.
Qed.
