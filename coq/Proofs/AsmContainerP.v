(* C13 on R: the output containers of the image of a program assembled by Model/Asm.v.
   Statements: Props/R_container.v.  The base's range comes from R (AsmBaseP.base_range); that every image byte is a
   byte and that the image is shorter than 64 KiB are NOT facts of R (Insert carries arbitrary integers, the layout
   does not bound the length): they are explicit hypotheses, see image_bytes_not_guaranteed. *)
From Coq Require Import ZArith List String Ascii Bool NArith Lia.
From Verif Require Import Base.Res Base.Bytes Gen.GenBkWav Model.Formats Model.BkWav Model.OutPath
  Spec.BinFile Spec.Riff Spec.BkTape
  Proofs.C13Formats Proofs.C13Checksum Proofs.C13Wav Proofs.C13Demod Proofs.C13Path
  Model.Asm Proofs.AsmP Proofs.AsmBaseP.
Import ListNotations.
Notation length := Datatypes.length.
Notation concat := List.concat.
Open Scope list_scope.
Open Scope Z_scope.

Definition image (f : full) : list Z := concat (f_chunks f).

Lemma pad_name_bytes raw : Forall is_byte_z raw -> Forall is_byte_z (fst (pad_name raw)).
Proof.
  intros H. destruct (Nat.le_gt_cases (length raw) 16) as [L|L].
  - rewrite pad_name_short by exact L. cbn [fst]. apply Forall_app. split; [exact H|].
    apply Forall_forall. intros x Hx. apply repeat_spec in Hx. subst x. unfold is_byte_z. lia.
  - rewrite pad_name_long by exact L. cbn [fst]. rewrite <- (firstn_skipn 16 raw) in H. apply Forall_app in H. tauto.
Qed.

Theorem container_bin enc p f : assemble_full enc p = XOk f ->
  Forall is_byte_z (image f) -> Z.of_nat (length (image f)) < 65536 ->
  exists file, fmt_bin (f_base f) (image f) = Ok file /\
               file = le16 (f_base f) ++ le16 (Z.of_nat (length (image f))) ++ image f /\
               parse_bin file = Some (f_base f, Z.of_nat (length (image f)), image f).
Proof.
  intros H B L. pose proof (base_range _ _ _ H) as R.
  pose proof (bin_layout (f_base f) (image f) R L) as E. eexists. split; [exact E|]. split; [reflexivity|].
  eapply bin_reads_back; [exact B|exact E].
Qed.

Theorem container_raw enc p f : assemble_full enc p = XOk f ->
  fmt_raw (f_base f) (image f) = Ok (image f) /\
  (Forall is_byte_z (image f) -> parse_raw (image f) = Some (image f)).
Proof.
  intros _. split; [apply raw_id|]. intros B. exact (raw_reads_back (f_base f) (image f) (image f) B (raw_id (f_base f) (image f))).
Qed.

Theorem container_wav enc p f turbo raw : assemble_full enc p = XOk f ->
  Forall is_byte_z (image f) -> Z.of_nat (length (image f)) < 65536 -> Forall is_byte_z raw ->
  exists file smp t,
    encode_as_wav turbo (f_base f) (image f) (fst (pad_name raw)) = Ok file /\
    parse_wav file = Some (sample_rate turbo, 1, 8, smp) /\
    demod turbo smp = Some t /\
    t_base t = f_base f /\ t_length t = Z.of_nat (length (image f)) /\ t_name t = fst (pad_name raw) /\
    t_data t = image f /\ t_checksum t = cksum_spec (image f).
Proof.
  intros H B L N. pose proof (base_range _ _ _ H) as R.
  destruct (wav_roundtrip turbo (f_base f) (image f) (fst (pad_name raw)) R L B (pad_name_bytes raw N) (pad_name_length raw))
    as [file [smp [t [E [P [D C]]]]]].
  exists file, smp, t. unfold carries in C. tauto.
Qed.
