(* Lemmas behind Props/C10.v: case-insensitive dictionary, ASCII case, skip_whitespace,
   register spellings, grouping, operand classification, synonyms, word lists.
   (Number spellings are in Proofs/SpellingNumP.v.) *)
From Coq Require Import List NArith ZArith Bool Lia String Ascii.
From Verif Require Import Base.Res Base.Range Gen.GenOpcodes Gen.GenSpelling Model.CIDict Model.SkipWs Model.Spelling.
Import ListNotations.
Open Scope N_scope.
Open Scope list_scope.

(* ------------------------------------------------------------------ strings *)
Lemma str_eqb_eq a : forall b, str_eqb a b = true <-> a = b.
Proof.
  induction a as [|x xs IH]; intros [|y ys]; simpl; split; intros H; try reflexivity; try discriminate.
  - apply andb_true_iff in H. destruct H as [H1 H2]. apply N.eqb_eq in H1. apply IH in H2. subst. reflexivity.
  - inversion H; subst. rewrite N.eqb_refl. simpl. apply IH. reflexivity.
Qed.

Lemma str_eqb_refl a : str_eqb a a = true.
Proof. apply str_eqb_eq. reflexivity. Qed.

Lemma str_eqb_neq a b : a <> b -> str_eqb a b = false.
Proof. intros H. destruct (str_eqb a b) eqn:E; [apply str_eqb_eq in E; contradiction | reflexivity]. Qed.

(* ------------------------------------------------------------------ ASCII case *)
Lemma ascii_lower_upper c : ascii_lower (ascii_upper c) = ascii_lower c.
Proof.
  unfold ascii_lower, ascii_upper.
  destruct ((97 <=? c) && (c <=? 122)) eqn:E.
  - apply andb_true_iff in E. destruct E as [E1 E2]. apply N.leb_le in E1, E2.
    replace ((65 <=? c - 32) && (c - 32 <=? 90)) with true
      by (symmetry; apply andb_true_iff; split; apply N.leb_le; lia).
    replace ((65 <=? c) && (c <=? 90)) with false
      by (symmetry; apply andb_false_iff; right; apply N.leb_gt; lia).
    lia.
  - reflexivity.
Qed.

Lemma ascii_lower_idem c : ascii_lower (ascii_lower c) = ascii_lower c.
Proof.
  unfold ascii_lower.
  destruct ((65 <=? c) && (c <=? 90)) eqn:E; [|rewrite E; reflexivity].
  apply andb_true_iff in E. destruct E as [E1 E2]. apply N.leb_le in E1, E2.
  replace ((65 <=? c + 32) && (c + 32 <=? 90)) with false
    by (symmetry; apply andb_false_iff; right; apply N.leb_gt; lia).
  reflexivity.
Qed.

Lemma ascii_lower_ascii c : is_ascii c = true -> is_ascii (ascii_lower c) = true.
Proof.
  unfold is_ascii, ascii_lower. intros H. apply N.ltb_lt in H.
  destruct ((65 <=? c) && (c <=? 90)) eqn:E; apply N.ltb_lt; [|lia].
  apply andb_true_iff in E. destruct E as [_ E2]. apply N.leb_le in E2. lia.
Qed.

Lemma ascii_upper_ascii c : is_ascii (ascii_upper c) = is_ascii c.
Proof.
  unfold is_ascii, ascii_upper.
  destruct ((97 <=? c) && (c <=? 122)) eqn:E; [|reflexivity].
  apply andb_true_iff in E. destruct E as [E1 E2]. apply N.leb_le in E1, E2.
  transitivity true; [apply N.ltb_lt; lia | symmetry; apply N.ltb_lt; lia].
Qed.

Lemma ascii_lower_is_ascii c : is_ascii (ascii_lower c) = is_ascii c.
Proof.
  unfold is_ascii, ascii_lower.
  destruct ((65 <=? c) && (c <=? 90)) eqn:E; [|reflexivity].
  apply andb_true_iff in E. destruct E as [E1 E2]. apply N.leb_le in E1, E2.
  transitivity true; [apply N.ltb_lt; lia | symmetry; apply N.ltb_lt; lia].
Qed.

(* swap the case of an ASCII letter, leave every other code point alone *)
Definition flip_case (c : N) : N :=
  if (65 <=? c) && (c <=? 90) then c + 32 else if (97 <=? c) && (c <=? 122) then c - 32 else c.

Lemma flip_case_lower c : ascii_lower (flip_case c) = ascii_lower c.
Proof.
  unfold flip_case. destruct ((65 <=? c) && (c <=? 90)) eqn:E.
  - change (c + 32) with (c + 32). assert (H : ascii_lower c = c + 32) by (unfold ascii_lower; rewrite E; reflexivity).
    rewrite <- H. apply ascii_lower_idem.
  - destruct ((97 <=? c) && (c <=? 122)) eqn:E2; [|reflexivity].
    assert (H : ascii_upper c = c - 32) by (unfold ascii_upper; rewrite E2; reflexivity).
    rewrite <- H. apply ascii_lower_upper.
Qed.

Lemma flip_case_is_ascii c : is_ascii (flip_case c) = is_ascii c.
Proof.
  unfold flip_case. destruct ((65 <=? c) && (c <=? 90)) eqn:E.
  - assert (H : ascii_lower c = c + 32) by (unfold ascii_lower; rewrite E; reflexivity).
    rewrite <- H. apply ascii_lower_is_ascii.
  - destruct ((97 <=? c) && (c <=? 122)) eqn:E2; [|reflexivity].
    assert (H : ascii_upper c = c - 32) by (unfold ascii_upper; rewrite E2; reflexivity).
    rewrite <- H. apply ascii_upper_ascii.
Qed.

Lemma flip_case_nonascii c : is_ascii c = false -> flip_case c = c.
Proof.
  unfold is_ascii, flip_case. intros H. apply N.ltb_ge in H.
  replace ((65 <=? c) && (c <=? 90)) with false by (symmetry; apply andb_false_iff; right; apply N.leb_gt; lia).
  replace ((97 <=? c) && (c <=? 122)) with false by (symmetry; apply andb_false_iff; right; apply N.leb_gt; lia).
  reflexivity.
Qed.

(* re-spell a string: flip the case of the letters selected by the mask *)
Fixpoint recase (mask : list bool) (s : str) : str :=
  match s, mask with
  | [], _ => []
  | c :: r, [] => s
  | c :: r, b :: m => (if b then flip_case c else c) :: recase m r
  end.

Section LowerLaws.
Variable ext : N -> list N.

Lemma lower_char_flip c : lower_char ext (flip_case c) = lower_char ext c.
Proof.
  unfold lower_char. rewrite flip_case_is_ascii. destruct (is_ascii c) eqn:E.
  - rewrite flip_case_lower. reflexivity.
  - rewrite flip_case_nonascii by exact E. reflexivity.
Qed.

Lemma lower_recase mask : forall s, lower ext (recase mask s) = lower ext s.
Proof.
  induction mask as [|b m IH]; intros [|c r]; simpl; try reflexivity.
  unfold lower in *. simpl. rewrite IH. destruct b; [rewrite lower_char_flip|]; reflexivity.
Qed.

Lemma lower_pointwise s s' :
  Forall2 (fun a b => lower_char ext a = lower_char ext b) s s' -> lower ext s = lower ext s'.
Proof. induction 1; unfold lower in *; simpl; [reflexivity | congruence]. Qed.
End LowerLaws.

Lemma ascii_lower_str_recase mask : forall s, ascii_lower_str (recase mask s) = ascii_lower_str s.
Proof.
  induction mask as [|b m IH]; intros [|c r]; simpl; try reflexivity.
  unfold ascii_lower_str in *. simpl. rewrite IH. destruct b; [rewrite flip_case_lower|]; reflexivity.
Qed.

(* ------------------------------------------------------------------ the dictionary *)
Section DictLaws.
Variable V : Type.
Variable low : str -> str.
Notation dict := (cidict V).

Lemma raw_get_set_same lk e (d : dict) : raw_get lk (raw_set lk e d) = Some e.
Proof.
  induction d as [|[k e'] rest IH]; simpl.
  - rewrite str_eqb_refl. reflexivity.
  - destruct (str_eqb k lk) eqn:E; simpl; rewrite E; [reflexivity | exact IH].
Qed.

Lemma raw_get_set_other lk lk' e (d : dict) : lk <> lk' -> raw_get lk' (raw_set lk e d) = raw_get lk' d.
Proof.
  intros Hne. induction d as [|[k e'] rest IH]; simpl.
  - rewrite str_eqb_neq by exact Hne. reflexivity.
  - destruct (str_eqb k lk) eqn:E; simpl.
    + apply str_eqb_eq in E. subst k. rewrite str_eqb_neq by exact Hne. reflexivity.
    + destruct (str_eqb k lk'); [reflexivity | exact IH].
Qed.

(* lookups only see the folded key *)
Theorem lookup_case k k' (d : dict) : low k = low k' ->
  (forall def, get low k def d = get low k' def d) /\ contains low k d = contains low k' d /\ getitem low k d = getitem low k' d.
Proof. intros H. unfold get, contains, getitem. rewrite H. auto. Qed.

(* set under one spelling, get under any other *)
Theorem get_after_set k k' v (d : dict) : low k = low k' ->
  (forall def, get low k' def (set low k v d) = Some v) /\ contains low k' (set low k v d) = true /\ getitem low k' (set low k v d) = Some v.
Proof.
  intros H. unfold get, contains, getitem, set. rewrite <- H. rewrite raw_get_set_same. auto.
Qed.

Theorem get_after_set_other k k' v (d : dict) : low k <> low k' ->
  (forall def, get low k' def (set low k v d) = get low k' def d) /\ contains low k' (set low k v d) = contains low k' d
  /\ getitem low k' (set low k v d) = getitem low k' d.
Proof.
  intros H. unfold get, contains, getitem, set. rewrite raw_get_set_other by exact H. auto.
Qed.

Theorem last_set_wins k k' k'' v v' (d : dict) : low k = low k' -> low k' = low k'' ->
  getitem low k'' (set low k' v' (set low k v d)) = Some v'.
Proof. intros _ H. apply (get_after_set k' k'' v' (set low k v d) H). Qed.

(* well-formed: every stored folded key is the fold of the stored spelling, no folded key twice *)
Definition wf (d : dict) : Prop :=
  Forall (fun e => fst e = low (fst (snd e))) d /\ NoDup (map fst d).

Lemma raw_set_keys lk e (d : dict) :
  map fst (raw_set lk e d) = if existsb (fun k => str_eqb k lk) (map fst d) then map fst d else map fst d ++ [lk].
Proof.
  induction d as [|[k e'] rest IH]; simpl; [reflexivity|].
  destruct (str_eqb k lk) eqn:E; simpl; [reflexivity|]. rewrite IH.
  destruct (existsb (fun k0 => str_eqb k0 lk) (map fst rest)); reflexivity.
Qed.

Lemma existsb_str_false l lk : existsb (fun k => str_eqb k lk) l = false -> ~ In lk l.
Proof.
  intros H Hin. assert (X : existsb (fun k => str_eqb k lk) l = true).
  { apply existsb_exists. exists lk. split; [exact Hin | apply str_eqb_refl]. }
  congruence.
Qed.

(* the entries of raw_set when no folded key occurs twice *)
Lemma raw_set_entries lk e (d : dict) : NoDup (map fst d) ->
  forall x, In x (raw_set lk e d) <-> x = (lk, e) \/ (In x d /\ fst x <> lk).
Proof.
  induction d as [|[k e'] rest IH]; simpl; intros ND x.
  - split; [intros [H|[]]; left; auto | intros [H|[[] _]]; left; auto].
  - inversion ND as [|? ? Hnotin ND']; subst. destruct (str_eqb k lk) eqn:E.
    + apply str_eqb_eq in E. subst k. simpl. split.
      * intros [H|H]; [left; auto|]. right. split; [right; exact H|].
        intros Heq. apply Hnotin. rewrite <- Heq. apply in_map. exact H.
      * intros [H|[[H|H] Hne]]; [left; auto | subst x; simpl in Hne; congruence | right; exact H].
    + simpl. rewrite (IH ND' x). split.
      * intros [H|[H|[H Hne]]].
        -- right. split; [left; exact H|]. subst x. simpl. intros Heq. subst k. rewrite str_eqb_refl in E. discriminate.
        -- left. exact H.
        -- right. split; [right; exact H | exact Hne].
      * intros [H|[[H|H] Hne]]; [right; left; exact H | left; exact H | right; right; split; assumption].
Qed.

Lemma NoDup_snoc {A} (l : list A) x : NoDup l -> ~ In x l -> NoDup (l ++ [x]).
Proof.
  induction 1 as [|y l Hy ND IH]; intros Hx; simpl.
  - constructor; [intros [] | constructor].
  - constructor.
    + rewrite in_app_iff. intros [H|[H|[]]]; [contradiction | subst; apply Hx; left; reflexivity].
    + apply IH. intros H. apply Hx. right. exact H.
Qed.

Lemma wf_empty : wf [].
Proof. split; constructor. Qed.

Lemma wf_set k v (d : dict) : wf d -> wf (set low k v d).
Proof.
  intros [F ND]. unfold set. split.
  - apply Forall_forall. intros x Hx. apply (raw_set_entries _ _ _ ND) in Hx.
    destruct Hx as [->|[Hx _]]; [reflexivity|]. rewrite Forall_forall in F. apply F. exact Hx.
  - rewrite raw_set_keys. destruct (existsb (fun k0 => str_eqb k0 (low k)) (map fst d)) eqn:E; [exact ND|].
    apply existsb_str_false in E.
    apply NoDup_snoc; assumption.
Qed.

Lemma wf_of_items l : wf (of_items low l).
Proof.
  unfold of_items. assert (G : forall d, wf d -> wf (fold_left (fun d kv => set low (fst kv) (snd kv) d) l d)).
  { induction l as [|[k v] r IH]; simpl; intros d Hd; [exact Hd|]. apply IH. apply wf_set. exact Hd. }
  apply G. apply wf_empty.
Qed.

(* items() after d[k] = v: the entry for fold(k) is exactly (k, v) -- the spelling of the last
   assignment --, every other entry is untouched *)
Theorem items_after_set k v (d : dict) : wf d ->
  forall k0 v0, In (k0, v0) (items (set low k v d)) <->
                (k0, v0) = (k, v) \/ (In (k0, v0) (items d) /\ low k0 <> low k).
Proof.
  intros [F ND] k0 v0. unfold items, set. rewrite in_map_iff. split.
  - intros [[lk e] [He Hin]]. simpl in He. subst e. apply (raw_set_entries _ _ _ ND) in Hin.
    destruct Hin as [H|[H Hne]].
    + left. inversion H. reflexivity.
    + right. split; [apply in_map_iff; exists (lk, (k0, v0)); auto|].
      rewrite Forall_forall in F. specialize (F _ H). simpl in F, Hne. congruence.
  - intros [H|[H Hne]].
    + inversion H; subst. exists (low k, (k, v)). split; [reflexivity|]. apply (raw_set_entries _ _ _ ND). left. reflexivity.
    + apply in_map_iff in H. destruct H as [[lk e] [He Hin]]. simpl in He. subst e.
      exists (lk, (k0, v0)). split; [reflexivity|]. apply (raw_set_entries _ _ _ ND). right. split; [exact Hin|].
      rewrite Forall_forall in F. specialize (F _ Hin). simpl in F. simpl. congruence.
Qed.

(* the keys listed by iteration are pairwise distinct even after folding *)
Theorem keys_distinct_folded (d : dict) : wf d -> NoDup (map low (keys d)).
Proof.
  intros [F ND]. unfold keys. rewrite map_map.
  replace (map (fun x => low (fst (snd x))) d) with (map fst d); [exact ND|].
  apply map_ext_in. intros a Ha. rewrite Forall_forall in F. apply F. exact Ha.
Qed.
End DictLaws.

(* ------------------------------------------------------------------ skip_whitespace *)
(* blank material: blanks, and ';' comments closed by their newline *)
Inductive ws_run : list N -> Prop :=
| ws_nil : ws_run []
| ws_blank c r : is_space c = true -> ws_run r -> ws_run (c :: r)
| ws_comment body r : Forall (fun c => c <> newline) body -> ws_run r -> ws_run (semicolon :: body ++ newline :: r).

Lemma is_space_newline : is_space newline = true.
Proof. reflexivity. Qed.
Lemma is_space_semicolon : is_space semicolon = false.
Proof. reflexivity. Qed.

Lemma skip_comment_body body : Forall (fun c => c <> newline) body ->
  forall rest, skip_aux true (body ++ newline :: rest) = skip_aux false rest.
Proof.
  induction 1 as [|c b Hc _ IH]; intros rest; simpl.
  - reflexivity.
  - replace (c =? newline) with false by (symmetry; apply N.eqb_neq; exact Hc). apply IH.
Qed.

Lemma skip_comment_open body : Forall (fun c => c <> newline) body -> skip_aux true body = [].
Proof.
  induction 1 as [|c b Hc _ IH]; simpl; [reflexivity|].
  replace (c =? newline) with false by (symmetry; apply N.eqb_neq; exact Hc). exact IH.
Qed.

Theorem skip_ws_prefix ws : ws_run ws -> forall rest, skip (ws ++ rest) = skip rest.
Proof.
  unfold skip. induction 1 as [|c r Hc _ IH|body r Hb _ IH]; intros rest; simpl.
  - reflexivity.
  - rewrite Hc. apply IH.
  - rewrite <- app_assoc. simpl. rewrite skip_comment_body by exact Hb. apply IH.
Qed.

(* a comment that is not closed before the end of the text swallows the rest *)
Theorem skip_open_comment ws body : ws_run ws -> Forall (fun c => c <> newline) body ->
  skip (ws ++ semicolon :: body) = [].
Proof.
  intros Hw Hb. rewrite skip_ws_prefix by exact Hw. unfold skip. simpl. apply skip_comment_open. exact Hb.
Qed.

(* the result starts with a character that is neither blank nor ';' *)
Lemma skip_aux_stops : forall s b c r, skip_aux b s = c :: r -> is_space c = false /\ c <> semicolon.
Proof.
  induction s as [|x xs IH]; intros b c r H; simpl in H; [discriminate|].
  destruct b.
  - destruct (x =? newline); eapply IH; exact H.
  - destruct (is_space x) eqn:Es; [eapply IH; exact H|].
    destruct (x =? semicolon) eqn:Ec; [eapply IH; exact H|].
    inversion H; subst. split; [exact Es | apply N.eqb_neq; exact Ec].
Qed.

Theorem skip_stops s c r : skip s = c :: r -> is_space c = false /\ c <> semicolon.
Proof. apply skip_aux_stops. Qed.

(* skip does not move when the text starts with such a character *)
Theorem skip_fixed c r : is_space c = false -> c <> semicolon -> skip (c :: r) = c :: r.
Proof.
  intros Hs Hc. unfold skip. simpl. rewrite Hs.
  replace (c =? semicolon) with false by (symmetry; apply N.eqb_neq; exact Hc). reflexivity.
Qed.

Theorem skip_idempotent s : skip (skip s) = skip s.
Proof.
  destruct (skip s) as [|c r] eqn:E; [reflexivity|].
  destruct (skip_stops _ _ _ E) as [Hs Hc]. apply skip_fixed; assumption.
Qed.

(* what was skipped is blank material only: s = p ++ skip s with p a ws_run, or an unclosed
   comment reaches the end of the text *)
Lemma skip_aux_decompose : forall s,
  (exists p, s = p ++ skip_aux false s /\ ws_run p)
  \/ (skip_aux false s = [] /\ exists p body, s = p ++ semicolon :: body /\ ws_run p /\ Forall (fun c => c <> newline) body).
Proof.
  (* strong induction through the comment mode *)
  assert (G : forall n s, (List.length s <= n)%nat ->
    ((exists p, s = p ++ skip_aux false s /\ ws_run p)
     \/ (skip_aux false s = [] /\ exists p body, s = p ++ semicolon :: body /\ ws_run p /\ Forall (fun c => c <> newline) body))
    /\ ((exists body r, s = body ++ newline :: r /\ Forall (fun c => c <> newline) body /\ skip_aux true s = skip_aux false r)
        \/ (Forall (fun c => c <> newline) s /\ skip_aux true s = []))).
  { induction n as [|n IH]; intros s Hl.
    - destruct s; [|simpl in Hl; lia]. split.
      + left. exists []. split; [reflexivity | constructor].
      + right. split; constructor.
    - destruct s as [|c r]; [split; [left; exists []; split; [reflexivity | constructor] | right; split; constructor]|].
      simpl in Hl. assert (Hr : (List.length r <= n)%nat) by lia. destruct (IH r Hr) as [IHf IHt]. split.
      + simpl. destruct (is_space c) eqn:Es.
        * destruct IHf as [[p [Hp Hw]]|[He [p [body [Hp [Hw Hb]]]]]].
          -- left. exists (c :: p). split; [simpl; congruence | constructor; assumption].
          -- right. split; [exact He|]. exists (c :: p), body. split; [simpl; congruence|]. split; [constructor; assumption | exact Hb].
        * destruct (c =? semicolon) eqn:Ec.
          -- apply N.eqb_eq in Ec. subst c.
             destruct IHt as [[body [r' [Hs [Hb Heq]]]]|[Hb Heq]].
             ++ assert (Hl' : (List.length r' <= n)%nat).
                { subst r. rewrite app_length in Hr. simpl in Hr. lia. }
                destruct (IH r' Hl') as [[[p [Hp Hw]]|[He [p [body' [Hp [Hw Hb']]]]]] _].
                ** left. exists (semicolon :: body ++ newline :: p). split.
                   --- rewrite Heq. subst r. simpl. rewrite <- app_assoc. simpl. f_equal. f_equal. f_equal. exact Hp.
                   --- constructor; assumption.
                ** right. split; [rewrite Heq; exact He|].
                   exists (semicolon :: body ++ newline :: p), body'. split.
                   --- subst r. simpl. rewrite <- app_assoc. simpl. f_equal. f_equal. f_equal. exact Hp.
                   --- split; [constructor; assumption | exact Hb'].
             ++ right. split; [exact Heq|]. exists [], r. split; [reflexivity|]. split; [constructor | exact Hb].
          -- left. exists []. split; [reflexivity | constructor].
      + simpl. destruct (c =? newline) eqn:En.
        * apply N.eqb_eq in En. subst c. left. exists [], r. split; [reflexivity|]. split; [constructor | reflexivity].
        * apply N.eqb_neq in En. destruct IHt as [[body [r' [Hs [Hb Heq]]]]|[Hb Heq]].
          -- left. exists (c :: body), r'. split; [simpl; congruence|]. split; [constructor; assumption | exact Heq].
          -- right. split; [constructor; assumption | exact Heq]. }
  intros s. apply (G (List.length s) s). lia.
Qed.

Theorem skip_decompose s :
  (exists p, s = p ++ skip s /\ ws_run p)
  \/ (skip s = [] /\ exists p body, s = p ++ semicolon :: body /\ ws_run p /\ Forall (fun c => c <> newline) body).
Proof. apply skip_aux_decompose. Qed.

(* no whitespace code point above U+3000: the sweep over 0..16383 in Run/C10Run.v is complete *)
Lemma is_space_bound c : is_space c = true -> c <= 12288.
Proof.
  unfold is_space. intros H.
  repeat (apply orb_true_iff in H; destruct H as [H|H]);
    try (apply andb_true_iff in H; destruct H as [H1 H2]; apply N.leb_le in H1, H2; lia);
    try (apply N.eqb_eq in H; lia).
Qed.

(* position arithmetic of the Context object *)
Lemma skip_aux_length : forall s b, (List.length (skip_aux b s) <= List.length s)%nat.
Proof.
  induction s as [|c r IH]; intros b; simpl; [lia|].
  destruct b.
  - destruct (c =? newline); [specialize (IH false) | specialize (IH true)]; lia.
  - destruct (is_space c); [specialize (IH false); lia|].
    destruct (c =? semicolon); [specialize (IH true); lia | simpl; lia].
Qed.

Theorem skip_pos_forward code pos : (pos <= List.length code)%nat -> (pos <= skip_pos code pos <= List.length code)%nat.
Proof.
  intros H. unfold skip_pos, skip.
  pose proof (skip_aux_length (skipn pos code) false) as L. rewrite skipn_length in L. lia.
Qed.

(* ------------------------------------------------------------------ registers *)
Definition reg_spellings_ok : bool :=
  forallb (fun n =>
    let d := 48 + n in
    match try_as_register ascii_lower_str (RSym [114; d] false),      (* rN *)
          try_as_register ascii_lower_str (RSym [82; d] false),       (* RN *)
          try_as_register ascii_lower_str (RPct (Z.of_N n)) with      (* %N *)
    | Some (Ok a), Some (Ok b), Some (Ok c) => (a =? n) && (b =? n) && (c =? n)
    | _, _, _ => false
    end) (nrange 8)
  && forallb (fun s => match try_as_register ascii_lower_str (RSym s false) with Some (Ok 6) => true | _ => false end)
       [[115; 112]; [83; 80]; [83; 112]; [115; 80]]                     (* sp SP Sp sP *)
  && forallb (fun s => match try_as_register ascii_lower_str (RSym s false) with Some (Ok 7) => true | _ => false end)
       [[112; 99]; [80; 67]; [80; 99]; [112; 67]].                      (* pc PC Pc pC *)

Lemma reg_spellings_ok_true : reg_spellings_ok = true.
Proof. vm_compute. reflexivity. Qed.

Theorem register_spellings n : n < 8 ->
  try_as_register ascii_lower_str (RSym [114; 48 + n] false) = Some (Ok n) /\
  try_as_register ascii_lower_str (RSym [82; 48 + n] false) = Some (Ok n) /\
  try_as_register ascii_lower_str (RPct (Z.of_N n)) = Some (Ok n).
Proof.
  intros H. pose proof reg_spellings_ok_true as T. unfold reg_spellings_ok in T.
  apply andb_true_iff in T. destruct T as [T _]. apply andb_true_iff in T. destruct T as [T _].
  pose proof (nrange_forallb 8 _ T n H) as P. cbv beta zeta in P.
  destruct (try_as_register ascii_lower_str (RSym [114; 48 + n] false)) as [[a| | |]|]; try discriminate.
  destruct (try_as_register ascii_lower_str (RSym [82; 48 + n] false)) as [[b| | |]|]; try discriminate.
  destruct (try_as_register ascii_lower_str (RPct (Z.of_N n))) as [[c| | |]|]; try discriminate.
  apply andb_true_iff in P. destruct P as [P Pc]. apply andb_true_iff in P. destruct P as [Pa Pb].
  apply N.eqb_eq in Pa, Pb, Pc. subst. auto.
Qed.

Theorem sp_pc_spellings :
  (forall s, In s [[115; 112]; [83; 80]; [83; 112]; [115; 80]] -> try_as_register ascii_lower_str (RSym s false) = Some (Ok 6)) /\
  (forall s, In s [[112; 99]; [80; 67]; [80; 99]; [112; 67]] -> try_as_register ascii_lower_str (RSym s false) = Some (Ok 7)) /\
  try_as_register ascii_lower_str (RSym [114; 54] false) = Some (Ok 6) /\
  try_as_register ascii_lower_str (RSym [114; 55] false) = Some (Ok 7) /\
  try_as_register ascii_lower_str (RPct 6) = Some (Ok 6) /\ try_as_register ascii_lower_str (RPct 7) = Some (Ok 7).
Proof.
  repeat split; try (vm_compute; reflexivity);
    intros s Hs; simpl in Hs; repeat (destruct Hs as [<-|Hs]; [vm_compute; reflexivity|]); destruct Hs.
Qed.

(* any two spellings with the same lower-casing classify alike -- for every lower-casing function *)
Theorem register_case_irrelevant (low : str -> str) a b lbl : low a = low b ->
  try_as_register low (RSym a lbl) = try_as_register low (RSym b lbl) /\
  try_accumulator low (RSym a lbl) = try_accumulator low (RSym b lbl).
Proof. intros H. simpl. rewrite H. auto. Qed.

Theorem register_recase mask name lbl :
  try_as_register ascii_lower_str (RSym (recase mask name) lbl) = try_as_register ascii_lower_str (RSym name lbl).
Proof. apply register_case_irrelevant. apply ascii_lower_str_recase. Qed.

(* the three places that test for a register name use the same names *)
Theorem register_tables_agree :
  map fst reg_names_insns = reg_names_parser /\ reg_names_parser = reg_names_types.
Proof. split; vm_compute; reflexivity. Qed.

(* ------------------------------------------------------------------ operands *)
Section OperandLaws.
Variable low : str -> str.

(* '(x)' and '@x' around a register: mode 1 both, the second with the legacy warning *)
Theorem legacy_deferred_same_mode t r : as_reg low t = Some r ->
  classify low (OParen BParen t) = enc 1 r XNone [] /\
  classify low (ODeferred t) = enc 1 r XNone ["legacy-deferred"%string].
Proof.
  intros H. unfold classify. simpl. rewrite H. auto.
Qed.

(* a bracket that does not enclose a register is plain grouping: the style is irrelevant *)
Theorem group_operand_irrelevant br br' t : as_reg low t = None ->
  e_mode (classify low (OParen br t)) = e_mode (classify low (OParen br' t)) /\
  e_reg (classify low (OParen br t)) = e_reg (classify low (OParen br' t)) /\
  e_mode (classify low (OParen br t)) = 6 /\ e_reg (classify low (OParen br t)) = Ok 7.
Proof.
  intros H. unfold classify. simpl. destruct br, br'; simpl; rewrite ?H; simpl; auto.
Qed.

(* only '(' ... ')' makes a register deferred *)
Theorem only_paren_is_deferred br t r : as_reg low t = Some r -> br <> BParen ->
  e_mode (classify low (OParen br t)) = 6.
Proof. intros H Hb. unfold classify. destruct br; [contradiction| |]; simpl; reflexivity. Qed.
End OperandLaws.

(* ------------------------------------------------------------------ synonyms *)
Theorem synonyms_same_pattern : forall a b, In (a, b) synonym_pairs ->
  exists p, pattern_of (s2n a) = Some p /\ pattern_of (s2n b) = Some p.
Proof.
  assert (T : forallb same_pattern synonym_pairs = true) by (vm_compute; reflexivity).
  intros a b Hin. rewrite forallb_forall in T. specialize (T _ Hin). unfold same_pattern in T. simpl in T.
  destruct (pattern_of (s2n a)) as [pa|]; [|discriminate]. destruct (pattern_of (s2n b)) as [pb|]; [|discriminate].
  apply String.eqb_eq in T. subst. eauto.
Qed.

(* and the lookup itself ignores the case of the mnemonic *)
Theorem pattern_case_irrelevant mask m : pattern_of (recase mask m) = pattern_of m.
Proof. unfold pattern_of, getitem. rewrite ascii_lower_str_recase. reflexivity. Qed.

(* ------------------------------------------------------------------ conjunctions used by Props/C10.v *)
Lemma cidict_wellformed (V : Type) (low : str -> str) :
  wf V low [] /\ (forall k v d, wf V low d -> wf V low (set low k v d)) /\ (forall l, wf V low (of_items low l))
  /\ (forall d, wf V low d -> NoDup (map low (keys d))).
Proof. exact (conj (wf_empty V low) (conj (wf_set V low) (conj (wf_of_items V low) (keys_distinct_folded V low)))). Qed.

Lemma skip_stops_both :
  (forall s c r, skip s = c :: r -> is_space c = false /\ c <> semicolon) /\
  (forall c r, is_space c = false -> c <> semicolon -> skip (c :: r) = c :: r).
Proof. exact (conj skip_stops skip_fixed). Qed.

Lemma register_case_both :
  (forall (low : str -> str) a b lbl, low a = low b ->
     try_as_register low (RSym a lbl) = try_as_register low (RSym b lbl) /\ try_accumulator low (RSym a lbl) = try_accumulator low (RSym b lbl)) /\
  (forall mask name lbl, try_as_register ascii_lower_str (RSym (recase mask name) lbl) = try_as_register ascii_lower_str (RSym name lbl)).
Proof. exact (conj register_case_irrelevant register_recase). Qed.
