(* C11 -- scope_refines: Model/ScopeM.v (counters, mangled keys) computes what Spec/Scope.v designates.
   Part 1: the Spec's list functions on a trace extended by one event. *)
From Coq Require Import String Ascii List ZArith NArith Bool Lia PeanoNat.
From Verif Require Import Base.Res Spec.Scope Model.ScopeM Proofs.ScopeP.
Import ListNotations.
Open Scope Z_scope.

Definition step_ann (e : ev) (pos : nat) (st : list ann) : list ann :=
  let here := top st in
  match e with
  | EFile => {| a_inst := pos; a_blk := pos; a_infile := true; a_seg := pos |} :: st
  | EBlock => {| a_inst := a_inst here; a_blk := pos; a_infile := false; a_seg := pos |} :: st
  | EEndFile | EEndBlock => tl st
  | ELabel _ _ _ =>
      if a_infile here
      then {| a_inst := a_inst here; a_blk := a_blk here; a_infile := true; a_seg := pos |} :: tl st
      else st
  | _ => st
  end.

Lemma annot_cons e r pos st :
  annot (e :: r) pos st = (pos, e, top st) :: annot r (S pos) (step_ann e pos st).
Proof. destruct e; reflexivity. Qed.

Fixpoint sstack (tr : list ev) (pos : nat) (st : list ann) : list ann :=
  match tr with
  | [] => st
  | e :: r => sstack r (S pos) (step_ann e pos st)
  end.

Lemma annot_snoc t : forall e pos st,
  annot (t ++ [e]) pos st = annot t pos st ++ [((pos + length t)%nat, e, top (sstack t pos st))].
Proof.
  induction t as [|x r IH]; intros e pos st.
  - change ([] ++ [e]) with [e]. rewrite annot_cons. simpl. rewrite Nat.add_0_r. reflexivity.
  - change ((x :: r) ++ [e]) with (x :: (r ++ [e])). rewrite (annot_cons x (r ++ [e])), (annot_cons x r). rewrite IH.
    simpl. repeat f_equal. lia.
Qed.

Lemma sstack_snoc t : forall e pos st,
  sstack (t ++ [e]) pos st = step_ann e (pos + length t)%nat (sstack t pos st).
Proof.
  induction t as [|x r IH]; intros e pos st; simpl.
  - rewrite Nat.add_0_r. reflexivity.
  - rewrite IH. replace (S pos + length r)%nat with (pos + S (length r))%nat by lia. reflexivity.
Qed.

Lemma annot_positions t : forall pos st p e a, In (p, e, a) (annot t pos st) -> (pos <= p < pos + length t)%nat.
Proof.
  induction t as [|x r IH]; intros pos st p e a I.
  - destruct I.
  - rewrite annot_cons in I. destruct I as [I|I].
    + inversion I; subst. simpl. lia.
    + apply IH in I. simpl. lia.
Qed.

(* ------------------------------------------------------------------ definitions lists *)
Lemma ord_defs_app A B : ord_defs (A ++ B) = ord_defs A ++ ord_defs B.
Proof.
  induction A as [|[[p e] a] r IH]; simpl; auto.
  destruct e; auto; destruct (a_infile a); simpl; rewrite IH; reflexivity.
Qed.

Lemma loc_defs_app A B : loc_defs (A ++ B) = loc_defs A ++ loc_defs B.
Proof.
  induction A as [|[[p e] a] r IH]; simpl; auto.
  destruct e; auto; destruct (a_infile a); simpl; rewrite IH; reflexivity.
Qed.

Lemma accepted_snoc {T} (same : T -> T -> bool) l : forall seen d,
  accepted same seen (l ++ [d]) =
  accepted same seen l ++ (if existsb (same d) seen || existsb (same d) l then [] else [d]).
Proof.
  induction l as [|x r IH]; intros seen d; simpl.
  - rewrite orb_false_r. destruct (existsb (same d) seen); reflexivity.
  - rewrite IH. simpl.
    assert (E : (same d x || existsb (same d) seen) || existsb (same d) r =
                existsb (same d) seen || (same d x || existsb (same d) r)).
    { destruct (same d x), (existsb (same d) seen), (existsb (same d) r); reflexivity. }
    rewrite E. destruct (existsb (same x) seen); reflexivity.
Qed.

Lemma accepted_incl {T} (same : T -> T -> bool) l : forall seen d, In d (accepted same seen l) -> In d l.
Proof.
  induction l as [|x r IH]; intros seen d I; simpl in *; auto.
  destruct (existsb (same x) seen).
  - right. eapply IH; eauto.
  - destruct I as [I|I]; auto. right. eapply IH; eauto.
Qed.

Lemma accepted_length {T} (same : T -> T -> bool) l : forall seen, (length (accepted same seen l) <= length l)%nat.
Proof.
  induction l as [|x r IH]; intros seen; simpl; auto.
  destruct (existsb (same x) seen); simpl; specialize (IH (x :: seen)); lia.
Qed.

Section Same.
  Context {T : Type} (same : T -> T -> bool).
  Hypothesis same_refl : forall a, same a a = true.
  Hypothesis same_sym : forall a b, same a b = same b a.
  Hypothesis same_trans : forall a b c, same a b = true -> same b c = true -> same a c = true.

  (* a definition clashes with an earlier one iff it clashes with an accepted one *)
  Lemma accepted_exists l : forall seen d,
    existsb (same d) seen || existsb (same d) (accepted same seen l) =
    existsb (same d) seen || existsb (same d) l.
  Proof.
    induction l as [|x r IH]; intros seen d; simpl; auto.
    specialize (IH (x :: seen) d). simpl in IH.
    destruct (existsb (same x) seen) eqn:E.
    - destruct (same d x) eqn:Dx.
      + assert (X : existsb (same d) seen = true).
        { apply existsb_exists in E. destruct E as [y [Iy Sy]]. apply existsb_exists. exists y. split; auto.
          eapply same_trans; eauto. }
        rewrite X. reflexivity.
      + simpl in IH. exact IH.
    - simpl. revert IH.
      destruct (same d x), (existsb (same d) seen), (existsb (same d) (accepted same (x :: seen) r)), (existsb (same d) r);
        simpl; intros; congruence.
  Qed.

  Lemma accepted_unique l : forall seen a b,
    In a (accepted same seen l) -> In b (accepted same seen l) -> same a b = true ->
    (forall y, In y seen -> same a y = false) -> True.
  Proof. trivial. Qed.

  (* accepted definitions are pairwise different and different from what was seen *)
  Lemma accepted_fresh l : forall seen a,
    In a (accepted same seen l) -> existsb (same a) seen = false.
  Proof.
    induction l as [|x r IH]; intros seen a I; simpl in I; [destruct I|].
    destruct (existsb (same x) seen) eqn:E.
    - specialize (IH _ _ I). simpl in IH. apply orb_false_iff in IH. tauto.
    - destruct I as [I|I].
      + subst. exact E.
      + specialize (IH _ _ I). simpl in IH. apply orb_false_iff in IH. tauto.
  Qed.

  Lemma accepted_nodup l : forall seen a b l1 l2,
    accepted same seen l = l1 ++ a :: l2 -> In b l2 -> same b a = false.
  Proof.
    induction l as [|x r IH]; intros seen a b l1 l2 H I; simpl in H.
    - destruct l1; discriminate.
    - destruct (existsb (same x) seen) eqn:E.
      + eapply IH; eauto.
      + destruct l1 as [|y l1]; simpl in H.
        * injection H as Hx Hl. subst x. rewrite <- Hl in I.
          pose proof (accepted_fresh r (a :: seen) b I) as X. simpl in X.
          apply orb_false_iff in X. tauto.
        * injection H as Hx Hl. eapply IH; eauto.
  Qed.
End Same.

Lemma accepted_func {T} (same : T -> T -> bool) (same_sym : forall a b, same a b = same b a) l seen a b :
  In a (accepted same seen l) -> In b (accepted same seen l) -> same a b = true -> a = b.
Proof.
  intros Ia Ib S. destruct (in_split _ _ Ia) as (l1 & l2 & E).
  rewrite E in Ib. apply in_app_or in Ib. destruct Ib as [Ib|[Ib|Ib]]; auto.
  - destruct (in_split _ _ Ib) as (l3 & l4 & E2). subst l1. rewrite <- app_assoc in E. simpl in E.
    assert (X : same a b = false).
    { eapply (accepted_nodup same l seen b a l3 (l4 ++ a :: l2)); eauto. apply in_or_app. right. left. reflexivity. }
    congruence.
  - assert (X : same b a = false) by (eapply (accepted_nodup same l seen a b l1 l2); eauto).
    rewrite same_sym in X. congruence.
Qed.

(* ------------------------------------------------------------------ export acts of an extended trace *)
Lemma existsb_app_false {T} (f : T -> bool) l1 l2 : existsb f l2 = false -> existsb f (l1 ++ l2) = existsb f l1.
Proof. intros H. rewrite existsb_app, H, orb_false_r. reflexivity. Qed.

Lemma acts_local A acc P e0 a0 news pea :
  (fst (fst pea) < P)%nat -> (forall d, In d news -> o_pos d = P) ->
  acts_at (A ++ [(P, e0, a0)]) (acc ++ news) pea = acts_at A acc pea.
Proof.
  intros L N. destruct pea as [[p e] a]. simpl in L.
  assert (X1 : existsb (fun d => Nat.eqb (o_pos d) p) (acc ++ news) = existsb (fun d => Nat.eqb (o_pos d) p) acc).
  { apply existsb_app_false. destruct (existsb (fun d => Nat.eqb (o_pos d) p) news) eqn:E; auto.
    apply existsb_exists in E. destruct E as [d [I Q]]. apply N in I. apply Nat.eqb_eq in Q. lia. }
  assert (X2 : forall i, xall_before (A ++ [(P, e0, a0)]) i p = xall_before A i p).
  { intros i. unfold xall_before. apply existsb_app_false. simpl. destruct e0; auto.
    assert (Q : Nat.ltb P p = false) by (apply Nat.ltb_ge; lia). rewrite Q. reflexivity. }
  destruct e; simpl; auto.
  - rewrite X1, X2. reflexivity.
  - rewrite X1, X2. reflexivity.
  - rewrite filter_app.
    assert (Q : filter (fun d => Nat.eqb (o_inst d) (a_inst a) && Nat.ltb (o_pos d) p) news = []).
    { clear -L N. induction news as [|d r IH]; simpl; auto.
      assert (E : o_pos d = P) by (apply N; left; reflexivity).
      assert (F : Nat.ltb (o_pos d) p = false) by (apply Nat.ltb_ge; lia).
      rewrite F, andb_false_r. apply IH. intros d' I. apply N. right. exact I. }
    rewrite Q, app_nil_r. reflexivity.
Qed.

Lemma flat_map_ext_in' {X Y} (f g : X -> list Y) l : (forall x, In x l -> f x = g x) -> flat_map f l = flat_map g l.
Proof.
  induction l as [|x r IH]; simpl; intros H; auto. rewrite H by (left; reflexivity). f_equal.
  apply IH. intros y I. apply H. right. exact I.
Qed.

Lemma export_acts_snoc A acc P e0 a0 news :
  (forall p e a, In (p, e, a) A -> (p < P)%nat) -> (forall d, In d news -> o_pos d = P) ->
  export_acts (A ++ [(P, e0, a0)]) (acc ++ news) =
  export_acts A acc ++ acts_at (A ++ [(P, e0, a0)]) (acc ++ news) (P, e0, a0).
Proof.
  intros HP N. unfold export_acts. rewrite flat_map_app. simpl. rewrite app_nil_r. f_equal.
  apply flat_map_ext_in'. intros [[p e] a] I. apply acts_local; auto. simpl. eapply HP; eauto.
Qed.

Lemma first_act_app n l1 l2 :
  first_act n (l1 ++ l2) = match first_act n l1 with Some i => Some i | None => first_act n l2 end.
Proof.
  induction l1 as [|[m i] r IH]; simpl; auto. destruct (String.eqb n m); auto.
Qed.

Lemma has_dup_name_app l1 : forall seen l2,
  has_dup_name seen (l1 ++ l2) = has_dup_name seen l1 || has_dup_name (rev (map fst l1) ++ seen) l2.
Proof.
  induction l1 as [|[m i] r IH]; intros seen l2; simpl; auto.
  rewrite IH. simpl. rewrite <- app_assoc. simpl. rewrite orb_assoc. reflexivity.
Qed.

Lemma first_act_none_iff n l : first_act n l = None <-> existsb (String.eqb n) (map fst l) = false.
Proof.
  induction l as [|[m i] r IH]; simpl; [tauto|].
  destruct (String.eqb n m); simpl; [split; discriminate|exact IH].
Qed.

Lemma has_dup_name_single seen m i : has_dup_name seen [(m, i)] = existsb (String.eqb m) seen.
Proof. simpl. rewrite orb_false_r. reflexivity. Qed.

Lemma existsb_rev {T} (f : T -> bool) l : existsb f (rev l) = existsb f l.
Proof.
  induction l; simpl; auto. rewrite existsb_app. simpl. rewrite orb_false_r, IHl. apply orb_comm.
Qed.

(* one more act: a duplicate export iff the name was exported before *)
Lemma has_dup_name_snoc l m i :
  has_dup_name [] (l ++ [(m, i)]) = has_dup_name [] l || match first_act m l with Some _ => true | None => false end.
Proof.
  rewrite has_dup_name_app, has_dup_name_single, app_nil_r, existsb_rev. f_equal.
  destruct (first_act m l) eqn:E.
  - destruct (existsb (String.eqb m) (map fst l)) eqn:F; auto.
    apply first_act_none_iff in F. congruence.
  - apply first_act_none_iff. exact E.
Qed.

(* ================================================================== Part 2: the simulation invariant *)
Definition ACC (A : list (nat * ev * ann)) := accepted same_ord [] (ord_defs A).
Definition LACC (A : list (nat * ev * ann)) := accepted same_loc [] (loc_defs A).
Definition ACTS (A : list (nat * ev * ann)) := export_acts A (ACC A).
Definition dupdefs (A : list (nat * ev * ann)) : bool :=
  negb (Nat.eqb (length (ACC A)) (length (ord_defs A))) || negb (Nat.eqb (length (LACC A)) (length (loc_defs A))).

(* '.extern all' met at file level of instance [inst] *)
Definition XA (A : list (nat * ev * ann)) (inst : nat) : bool :=
  existsb (fun pea => match pea with
                      | (_, EExternAll, a) => Nat.eqb (a_inst a) inst && a_infile a
                      | _ => false end) A.

Lemma xall_before_XA A inst P : (forall p e a, In (p, e, a) A -> (p < P)%nat) -> xall_before A inst P = XA A inst.
Proof.
  intros H. unfold xall_before, XA. induction A as [|[[q e] a] r IH]; simpl; auto.
  rewrite IH by (intros; eapply H; right; eauto).
  destruct e; auto. assert (Q : Nat.ltb q P = true) by (apply Nat.ltb_lt; eapply H; left; reflexivity).
  rewrite Q. reflexivity.
Qed.

Definition rI (s : st) (k : N) : Prop := (1 <= k < next_int s)%N.
Definition rL (s : st) (k : N) : Prop := (1 <= k < next_loc s)%N.

Definition upd {T} (f : N -> T) (k : N) (v : T) : N -> T := fun x => if N.eqb x k then v else f x.

Definition frel (fi : N -> nat) (fl : N -> nat * nat) (A : list (nat * ev * ann)) (f : frame) (a : ann) : Prop :=
  f_isfile f = a_infile a /\ fi (f_int f) = a_inst a /\ fl (f_loc f) = (a_blk a, a_seg a) /\
  (a_infile a = true -> f_xall f = XA A (a_inst a)).

Definition refs_of (A : list (nat * ev * ann)) : list (string * ann) :=
  flat_map (fun pea => match pea with (_, ERef n, a) => [(n, a)] | _ => [] end) A.

Definition orel (s : st) (fi : N -> nat) (fl : N -> nat * nat) (o : Z + (N * N * string)) (na : string * ann) : Prop :=
  exists loc int, rL s loc /\ rI s int /\ fi int = a_inst (snd na) /\ fl loc = (a_blk (snd na), a_seg (snd na)) /\
    (o = inr (loc, int, lower (fst na)) \/
     exists v, o = inl v /\ (lookup_key (KLocal, loc, lower (fst na)) (syms s) = Some v \/
                             lookup_key (KInternal, int, lower (fst na)) (syms s) = Some v)).

(* G1: identities *)
Definition G1 (s : st) (A : list (nat * ev * ann)) (stk : list ann) (P : nat) (fi : N -> nat) (fl : N -> nat * nat) : Prop :=
  (forall p e a, In (p, e, a) A -> (p < P)%nat /\ (a_inst a < P)%nat /\ (a_seg a < P)%nat) /\
  Forall2 (frel fi fl A) (stack s) stk /\
  (forall a, In a stk -> (a_inst a < P)%nat /\ (a_seg a < P)%nat) /\
  NoDup (map a_inst (filter a_infile stk)) /\
  ((1 <= next_int s)%N /\ (1 <= next_loc s)%N) /\
  (forall f, In f (stack s) -> rI s (f_int f) /\ rL s (f_loc f)) /\
  (forall k, rI s k -> (fi k < P)%nat) /\
  (forall k k', rI s k -> rI s k' -> fi k = fi k' -> k = k') /\
  (forall k, rL s k -> (snd (fl k) < P)%nat) /\
  (forall k k', rL s k -> rL s k' -> fl k = fl k' -> k = k').

(* G2: the table is the accepted definitions *)
Definition G2 (s : st) (A : list (nat * ev * ann)) (fi : N -> nat) (fl : N -> nat * nat) : Prop :=
  (forall k ln v, lookup_key (KInternal, k, ln) (syms s) = Some v ->
     rI s k /\ exists d, In d (ACC A) /\ o_name d = ln /\ o_inst d = fi k /\ o_val d = v) /\
  (forall d, In d (ACC A) ->
     exists k, rI s k /\ fi k = o_inst d /\ lookup_key (KInternal, k, o_name d) (syms s) = Some (o_val d)) /\
  (forall k ln v, lookup_key (KLocal, k, ln) (syms s) = Some v ->
     rL s k /\ exists d, In d (LACC A) /\ l_name d = ln /\ fl k = (l_blk d, l_seg d) /\ l_val d = v) /\
  (forall d, In d (LACC A) ->
     exists k, rL s k /\ fl k = (l_blk d, l_seg d) /\ lookup_key (KLocal, k, l_name d) (syms s) = Some (l_val d)).

(* G3: the extern mapping is the first export act of each name; duplicate exports are the duplicate acts *)
Definition XR (s : st) (acts : list (string * nat)) (fi : N -> nat) (D : Prop) : Prop :=
  (forall ln key, lookup_ext ln (exts s) = Some key ->
     exists k, key = (KInternal, k, ln) /\ rI s k /\ first_act ln acts = Some (fi k)) /\
  (forall ln i, first_act ln acts = Some i ->
     exists k, rI s k /\ fi k = i /\ lookup_ext ln (exts s) = Some (KInternal, k, ln)) /\
  (In E_DUP (errs s) <-> (D \/ has_dup_name [] acts = true)).

Definition G3 (s : st) (A : list (nat * ev * ann)) (fi : N -> nat) : Prop :=
  XR s (ACTS A) fi (dupdefs A = true) /\
  (forall k, rI s k ->
     map (fun p => lower (snd p)) (filter (fun p => N.eqb (fst p) k) (isl s)) =
     map o_name (filter (fun d => Nat.eqb (o_inst d) (fi k)) (ACC A))) /\
  (In E_UNEXPECTED (errs s) <-> has_unexpected A = true) /\
  (forall p, In p (isl s) -> rI s (fst p)).

Definition G5 (s : st) (A : list (nat * ev * ann)) (fi : N -> nat) (fl : N -> nat * nat) : Prop :=
  Forall2 (orel s fi fl) (outs s) (refs_of A).

Definition Inv s A stk P fi fl : Prop := G1 s A stk P fi fl /\ G2 s A fi fl /\ G3 s A fi /\ G5 s A fi fl.

(* ------------------------------------------------------------------ declare against a list of acts *)
Lemma lookup_ext_app n X X' :
  lookup_ext n (X ++ X') = match lookup_ext n X with Some k => Some k | None => lookup_ext n X' end.
Proof.
  unfold lookup_ext. induction X as [|[m k] r IH]; simpl; auto.
  destruct (String.eqb m n); auto.
Qed.

Lemma declare_XR s acts fi D int n :
  rI s int -> XR s acts fi D -> XR (declare int s n) (acts ++ [(lower n, fi int)]) fi D.
Proof.
  intros RI (X1 & X2 & X3). unfold declare.
  destruct (lookup_ext (lower n) (exts s)) as [key|] eqn:E.
  - (* already exported: an error, the first export stands *)
    destruct (X1 _ _ E) as (k & -> & Rk & Fk).
    repeat split.
    + intros ln key H. simpl in H. destruct (X1 _ _ H) as (k' & -> & Rk' & Fk').
      exists k'. split; [reflexivity|]. split; [exact Rk'|]. rewrite first_act_app, Fk'. reflexivity.
    + intros ln i H. simpl. rewrite first_act_app in H. destruct (first_act ln acts) eqn:F.
      * inversion H; subst. apply X2. exact F.
      * simpl in H. destruct (String.eqb ln (lower n)) eqn:Q; [|discriminate].
        apply String.eqb_eq in Q. subst. congruence.
    + simpl. intros H. rewrite has_dup_name_snoc, Fk. right. apply orb_true_r.
    + simpl. intros _. apply in_or_app. right. left. reflexivity.
  - assert (F : first_act (lower n) acts = None).
    { destruct (first_act (lower n) acts) eqn:F; auto. destruct (X2 _ _ F) as (k & _ & _ & Q). congruence. }
    repeat split; simpl.
    + intros ln key H. rewrite lookup_ext_app in H. destruct (lookup_ext ln (exts s)) eqn:E1.
      * inversion H; subst. destruct (X1 _ _ E1) as (k' & -> & Rk' & Fk').
        exists k'. split; [reflexivity|]. split; [exact Rk'|]. rewrite first_act_app, Fk'. reflexivity.
      * unfold lookup_ext in H. simpl in H. destruct (String.eqb (lower n) ln) eqn:Q; [|discriminate].
        apply String.eqb_eq in Q. subst ln. inversion H; subst. exists int. unfold mkkey. split; [reflexivity|]. split; [exact RI|].
        rewrite first_act_app, F. simpl. rewrite String.eqb_refl. reflexivity.
    + intros ln i H. rewrite first_act_app in H. rewrite lookup_ext_app. destruct (first_act ln acts) eqn:F1.
      * inversion H; subst. destruct (X2 _ _ F1) as (k & Rk & Fk & Lk). exists k. rewrite Lk. auto.
      * simpl in H. destruct (String.eqb ln (lower n)) eqn:Q; [|discriminate].
        apply String.eqb_eq in Q. subst ln. inversion H; subst. exists int. rewrite E.
        unfold lookup_ext. simpl. rewrite String.eqb_refl. auto.
    + intros H. apply X3 in H. rewrite has_dup_name_snoc, F, orb_false_r. exact H.
    + intros H. apply X3. rewrite has_dup_name_snoc, F, orb_false_r in H. exact H.
Qed.

Lemma rI_declare i s n k : rI (declare i s n) k <-> rI s k.
Proof. unfold rI. rewrite (proj1 (proj2 (proj2 (stack_declare i s n)))). tauto. Qed.

Lemma fold_declare_XR fi D int ns : forall s acts,
  rI s int -> XR s acts fi D ->
  XR (fold_left (declare int) ns s) (acts ++ map (fun n => (lower n, fi int)) ns) fi D.
Proof.
  induction ns as [|n r IH]; intros s acts RI X; simpl.
  - rewrite app_nil_r. exact X.
  - replace (acts ++ (lower n, fi int) :: map (fun n0 => (lower n0, fi int)) r)
      with ((acts ++ [(lower n, fi int)]) ++ map (fun n0 => (lower n0, fi int)) r) by (rewrite <- app_assoc; reflexivity).
    apply IH.
    + apply rI_declare. exact RI.
    + apply declare_XR; auto.
Qed.

(* ------------------------------------------------------------------ events the Spec's tables do not see *)
Definition neutral (e : ev) : Prop :=
  match e with EFile | EEndFile | EBlock | EEndBlock | ERef _ => True | _ => False end.

Lemma neutral_spec A P e a :
  neutral e -> (forall p e' a', In (p, e', a') A -> (p < P)%nat) ->
  ord_defs (A ++ [(P, e, a)]) = ord_defs A /\ loc_defs (A ++ [(P, e, a)]) = loc_defs A /\
  ACC (A ++ [(P, e, a)]) = ACC A /\ LACC (A ++ [(P, e, a)]) = LACC A /\ ACTS (A ++ [(P, e, a)]) = ACTS A /\
  dupdefs (A ++ [(P, e, a)]) = dupdefs A /\ has_unexpected (A ++ [(P, e, a)]) = has_unexpected A /\
  (forall i, XA (A ++ [(P, e, a)]) i = XA A i).
Proof.
  intros N HP.
  assert (O : ord_defs (A ++ [(P, e, a)]) = ord_defs A).
  { rewrite ord_defs_app. destruct e; try contradiction; simpl; apply app_nil_r. }
  assert (L : loc_defs (A ++ [(P, e, a)]) = loc_defs A).
  { rewrite loc_defs_app. destruct e; try contradiction; simpl; apply app_nil_r. }
  assert (AC : ACC (A ++ [(P, e, a)]) = ACC A) by (unfold ACC; rewrite O; reflexivity).
  assert (LA : LACC (A ++ [(P, e, a)]) = LACC A) by (unfold LACC; rewrite L; reflexivity).
  repeat split; auto.
  - unfold ACTS. rewrite AC. rewrite <- (app_nil_r (ACC A)) at 1.
    rewrite (export_acts_snoc A (ACC A) P e a []); auto; [|intros d []].
    rewrite app_nil_r. destruct e; try contradiction; simpl; apply app_nil_r.
  - unfold dupdefs. rewrite AC, LA, O, L. reflexivity.
  - unfold has_unexpected. rewrite existsb_app. simpl. destruct e; try contradiction; simpl; apply orb_false_r.
  - intros i. unfold XA. rewrite existsb_app. simpl. destruct e; try contradiction; simpl; apply orb_false_r.
Qed.

Lemma frel_mono fi fl fi' fl' A A' f a :
  frel fi fl A f a -> fi' (f_int f) = fi (f_int f) -> fl' (f_loc f) = fl (f_loc f) ->
  (forall i, XA A' i = XA A i) -> frel fi' fl' A' f a.
Proof.
  intros (F1 & F2 & F3 & F4) E1 E2 X. repeat split; auto; try congruence.
  intros Q. rewrite X. auto.
Qed.

Lemma G2_mono s s' A A' fi fl fi' fl' :
  G2 s A fi fl -> syms s' = syms s ->
  (forall k, rI s k -> rI s' k) -> (forall k, rL s k -> rL s' k) ->
  (forall k, rI s k -> fi' k = fi k) -> (forall k, rL s k -> fl' k = fl k) ->
  ACC A' = ACC A -> LACC A' = LACC A -> G2 s' A' fi' fl'.
Proof.
  intros (H1 & H2 & H3 & H4) S RI RL FI FL AC LA. unfold G2. rewrite S, AC, LA. repeat split.
  - destruct (H1 _ _ _ H) as [R _]. destruct (RI _ R). auto.
  - destruct (H1 _ _ _ H) as [R _]. destruct (RI _ R). auto.
  - destruct (H1 _ _ _ H) as [R (d & I & N & O & V)]. exists d. rewrite FI by exact R. auto.
  - intros d I. destruct (H2 _ I) as (k & R & F & L). exists k. rewrite FI by exact R. auto.
  - destruct (H3 _ _ _ H) as [R _]. destruct (RL _ R). auto.
  - destruct (H3 _ _ _ H) as [R _]. destruct (RL _ R). auto.
  - destruct (H3 _ _ _ H) as [R (d & I & N & O & V)]. exists d. rewrite FL by exact R. auto.
  - intros d I. destruct (H4 _ I) as (k & R & F & L). exists k. rewrite FL by exact R. auto.
Qed.

Lemma XR_mono s s' acts fi fi' D :
  XR s acts fi D -> exts s' = exts s -> (In E_DUP (errs s') <-> In E_DUP (errs s)) ->
  (forall k, rI s k -> rI s' k) -> (forall k, rI s k -> fi' k = fi k) -> XR s' acts fi' D.
Proof.
  intros (X1 & X2 & X3) E ER RI FI. unfold XR. rewrite E. repeat split.
  - intros ln key H. destruct (X1 _ _ H) as (k & -> & R & F). exists k. rewrite FI by exact R. auto.
  - intros ln i H. destruct (X2 _ _ H) as (k & R & F & L). exists k. rewrite FI by exact R. auto.
  - intros H. apply X3. apply ER. exact H.
  - intros H. apply ER. apply X3. exact H.
Qed.

Lemma orel_mono s s' fi fl fi' fl' o na :
  orel s fi fl o na ->
  (forall k v, lookup_key k (syms s) = Some v -> lookup_key k (syms s') = Some v) ->
  (forall k, rI s k -> rI s' k) -> (forall k, rL s k -> rL s' k) ->
  (forall k, rI s k -> fi' k = fi k) -> (forall k, rL s k -> fl' k = fl k) -> orel s' fi' fl' o na.
Proof.
  intros (loc & int & RL0 & RI0 & F1 & F2 & H) SY RI RL FI FL.
  exists loc, int. repeat split; try (apply RL; exact RL0); try (apply RI; exact RI0).
  - rewrite FI by exact RI0. exact F1.
  - rewrite FL by exact RL0. exact F2.
  - destruct H as [H|(v & H & [Q|Q])]; auto; right; exists v; split; auto.
Qed.

Lemma Forall2_impl' {X Y} (R R' : X -> Y -> Prop) l1 l2 :
  (forall a b, R a b -> R' a b) -> Forall2 R l1 l2 -> Forall2 R' l1 l2.
Proof. intros H F. induction F; constructor; auto. Qed.

Lemma G5_mono s s' A fi fl fi' fl' :
  G5 s A fi fl -> outs s' = outs s ->
  (forall k v, lookup_key k (syms s) = Some v -> lookup_key k (syms s') = Some v) ->
  (forall k, rI s k -> rI s' k) -> (forall k, rL s k -> rL s' k) ->
  (forall k, rI s k -> fi' k = fi k) -> (forall k, rL s k -> fl' k = fl k) ->
  Forall2 (orel s' fi' fl') (outs s') (refs_of A).
Proof.
  intros H O SY RI RL FI FL. rewrite O. unfold G5 in H.
  eapply Forall2_impl'; [|exact H]. intros o na Q. eapply orel_mono; eauto.
Qed.

Lemma refs_of_snoc A P e a :
  refs_of (A ++ [(P, e, a)]) = refs_of A ++ match e with ERef n => [(n, a)] | _ => [] end.
Proof.
  unfold refs_of. rewrite flat_map_app. simpl. rewrite app_nil_r. destruct e; reflexivity.
Qed.

Lemma upd_other {T} (f : N -> T) k v x : x <> k -> upd f k v x = f x.
Proof. intros H. unfold upd. destruct (N.eqb x k) eqn:E; auto. apply N.eqb_eq in E. contradiction. Qed.

Lemma upd_same {T} (f : N -> T) k v : upd f k v k = v.
Proof. unfold upd. rewrite N.eqb_refl. reflexivity. Qed.

(* ------------------------------------------------------------------ steps *)
Lemma tops s stk fi fl A : Forall2 (frel fi fl A) (stack s) stk -> stack s <> [] ->
  exists f r a q, stack s = f :: r /\ stk = a :: q /\ frel fi fl A f a /\ Forall2 (frel fi fl A) r q /\
                  topf s = f /\ top stk = a.
Proof.
  intros F NE. unfold topf. destruct F; [congruence|]. exists x, l, y, l'.
  split; [reflexivity|]. split; [reflexivity|]. split; [assumption|]. split; [assumption|]. split; reflexivity.
Qed.

Lemma rI_eq s s' k : next_int s' = next_int s -> (rI s' k <-> rI s k).
Proof. unfold rI. intros ->. tauto. Qed.
Lemma rL_eq s s' k : next_loc s' = next_loc s -> (rL s' k <-> rL s k).
Proof. unfold rL. intros ->. tauto. Qed.

Lemma G1_same s s' A stk P fi fl e :
  G1 s A stk P fi fl -> stack s' = stack s -> next_int s' = next_int s -> next_loc s' = next_loc s ->
  (forall i, XA (A ++ [(P, e, top stk)]) i = XA A i) -> stack s <> [] ->
  G1 s' (A ++ [(P, e, top stk)]) stk (S P) fi fl.
Proof.
  intros (H1 & H2 & H3 & H4 & H5 & H6 & H7 & H8 & H9 & H10) ST NI NL X NE.
  destruct (tops _ _ _ _ _ H2 NE) as (f & r & a & q & E1 & E2 & FR & FRr & T1 & T2).
  assert (TA : In (top stk) stk) by (rewrite T2, E2; left; reflexivity).
  unfold G1. rewrite ST.
  refine (conj _ (conj _ (conj _ (conj H4 (conj _ (conj _ (conj _ (conj _ (conj _ _))))))))).
  - intros p e0 a0 H. apply in_app_or in H. destruct H as [H|[H|[]]].
    + destruct (H1 _ _ _ H) as (? & ? & ?). lia.
    + inversion H; subst. destruct (H3 _ TA). lia.
  - eapply Forall2_impl'; [|exact H2]. intros f0 a0 Q. eapply frel_mono; eauto.
  - intros a0 H. destruct (H3 _ H). lia.
  - rewrite NI, NL. exact H5.
  - intros f0 H. destruct (H6 _ H) as [Q1 Q2]. split; [apply (rI_eq s s' _ NI)|apply (rL_eq s s' _ NL)]; assumption.
  - intros k R. apply (rI_eq s s' k NI) in R. specialize (H7 _ R). lia.
  - intros k k' R R'. apply (rI_eq s s' k NI) in R. apply (rI_eq s s' k' NI) in R'. auto.
  - intros k R. apply (rL_eq s s' k NL) in R. specialize (H9 _ R). lia.
  - intros k k' R R'. apply (rL_eq s s' k NL) in R. apply (rL_eq s s' k' NL) in R'. auto.
Qed.

Lemma G3_same s s' A A' fi :
  G3 s A fi -> exts s' = exts s -> isl s' = isl s -> (forall e, In e (errs s') <-> In e (errs s)) ->
  next_int s' = next_int s ->
  ACTS A' = ACTS A -> ACC A' = ACC A -> dupdefs A' = dupdefs A -> has_unexpected A' = has_unexpected A ->
  G3 s' A' fi.
Proof.
  intros (X & I & U & IR) E IS ER NI AT AC DD HU. unfold G3. rewrite AT, AC, DD, HU, IS.
  refine (conj _ (conj _ (conj _ _))).
  - eapply XR_mono; eauto. intros k R. apply (rI_eq s s' k NI). exact R.
  - intros k R. apply (rI_eq s s' k NI) in R. auto.
  - rewrite ER. exact U.
  - intros p I0. apply (rI_eq s s' _ NI). auto.
Qed.

Lemma Forall2_snoc {X Y} (R : X -> Y -> Prop) l1 l2 x y : Forall2 R l1 l2 -> R x y -> Forall2 R (l1 ++ [x]) (l2 ++ [y]).
Proof. intros F H. apply Forall2_app; auto. Qed.

Lemma step_ref s A stk P fi fl n :
  Inv s A stk P fi fl -> stack s <> [] ->
  Inv (step s (ERef n)) (A ++ [(P, ERef n, top stk)]) (step_ann (ERef n) P stk) (S P) fi fl.
Proof.
  intros (g1 & g2 & g3 & g5) NE.
  pose proof g1 as (H1 & H2 & H3 & H4 & H5 & H6 & H7 & H8 & H9 & H10).
  destruct (tops _ _ _ _ _ H2 NE) as (f & r & a & q & E1 & E2 & FR & FRr & T1 & T2).
  assert (HP : forall p e' a', In (p, e', a') A -> (p < P)%nat) by (intros p e' a' I; destruct (H1 _ _ _ I); lia).
  destruct (neutral_spec A P (ERef n) (top stk) I HP) as (O & L & AC & LA & AT & DD & HU & XAe).
  set (o := match lookup_key (mkkey KLocal (f_loc (topf s)) n) (syms s) with
            | Some v => inl v
            | None => match lookup_key (mkkey KInternal (f_int (topf s)) n) (syms s) with
                      | Some v => inl v
                      | None => inr (f_loc (topf s), f_int (topf s), lower n) end end).
  assert (S1 : step s (ERef n) = add_out s o).
  { unfold step, o. destruct (lookup_key (mkkey KLocal (f_loc (topf s)) n) (syms s)); auto.
    destruct (lookup_key (mkkey KInternal (f_int (topf s)) n) (syms s)); auto. }
  rewrite S1. simpl step_ann.
  refine (conj _ (conj _ (conj _ _))).
  - apply (G1_same s (add_out s o) A stk P fi fl (ERef n) g1); auto.
  - apply (G2_mono s (add_out s o) A _ fi fl fi fl g2); auto.
  - apply (G3_same s (add_out s o) A _ fi g3); auto. intros; simpl; tauto.
  - unfold G5. rewrite refs_of_snoc. simpl outs. apply Forall2_snoc.
    + eapply Forall2_impl'; [|exact g5]. intros o0 na Q.
      apply (orel_mono s (add_out s o) fi fl fi fl o0 na Q); auto.
    + assert (FI : In f (stack s)) by (rewrite E1; left; reflexivity).
      destruct (H6 _ FI) as [RIf RLf]. destruct FR as (F1 & F2 & F3 & F4).
      exists (f_loc f), (f_int f). rewrite T2. simpl.
      refine (conj RLf (conj RIf (conj F2 (conj F3 _)))).
      unfold o. rewrite T1. unfold mkkey.
      destruct (lookup_key (KLocal, f_loc f, lower n) (syms s)) eqn:Q1.
      * right. exists z. auto.
      * destruct (lookup_key (KInternal, f_int f, lower n) (syms s)) eqn:Q2.
        -- right. exists z. auto.
        -- left. reflexivity.
Qed.

Lemma errs_declare_other i s n e : e <> E_DUP -> (In e (errs (declare i s n)) <-> In e (errs s)).
Proof.
  intros NE. unfold declare. destruct (lookup_ext (lower n) (exts s)); simpl; [|tauto].
  split; intros H; [|apply in_or_app; auto]. apply in_app_or in H. destruct H as [H|[H|[]]]; auto. congruence.
Qed.

Lemma errs_fold_declare_other i ns e : e <> E_DUP -> forall s, In e (errs (fold_left (declare i) ns s)) <-> In e (errs s).
Proof.
  intros NE. induction ns as [|n r IH]; intros s; simpl; [tauto|]. rewrite IH. apply errs_declare_other. exact NE.
Qed.

Lemma unexpected_ne_dup : E_UNEXPECTED <> E_DUP.
Proof. discriminate. Qed.

Lemma nodef_spec A P e a :
  (match e with EExtern _ | EExternAll => True | _ => False end) ->
  (forall p e' a', In (p, e', a') A -> (p < P)%nat) ->
  ACC (A ++ [(P, e, a)]) = ACC A /\ LACC (A ++ [(P, e, a)]) = LACC A /\
  ACTS (A ++ [(P, e, a)]) = ACTS A ++ acts_at (A ++ [(P, e, a)]) (ACC A) (P, e, a) /\
  dupdefs (A ++ [(P, e, a)]) = dupdefs A /\ has_unexpected (A ++ [(P, e, a)]) = has_unexpected A.
Proof.
  intros N HP.
  assert (O : ord_defs (A ++ [(P, e, a)]) = ord_defs A).
  { rewrite ord_defs_app. destruct e; try contradiction; simpl; apply app_nil_r. }
  assert (L : loc_defs (A ++ [(P, e, a)]) = loc_defs A).
  { rewrite loc_defs_app. destruct e; try contradiction; simpl; apply app_nil_r. }
  assert (AC : ACC (A ++ [(P, e, a)]) = ACC A) by (unfold ACC; rewrite O; reflexivity).
  assert (LA : LACC (A ++ [(P, e, a)]) = LACC A) by (unfold LACC; rewrite L; reflexivity).
  refine (conj AC (conj LA (conj _ (conj _ _)))).
  - unfold ACTS. rewrite AC. rewrite <- (app_nil_r (ACC A)) at 1.
    rewrite (export_acts_snoc A (ACC A) P e a []); auto; [|intros d []]. rewrite app_nil_r. reflexivity.
  - unfold dupdefs. rewrite AC, LA, O, L. reflexivity.
  - unfold has_unexpected. rewrite existsb_app. simpl. destruct e; try contradiction; simpl; apply orb_false_r.
Qed.

Lemma step_extern s A stk P fi fl ns :
  Inv s A stk P fi fl -> stack s <> [] ->
  Inv (step s (EExtern ns)) (A ++ [(P, EExtern ns, top stk)]) (step_ann (EExtern ns) P stk) (S P) fi fl.
Proof.
  intros (g1 & g2 & g3 & g5) NE.
  pose proof g1 as (H1 & H2 & H3 & H4 & H5 & H6 & H7 & H8 & H9 & H10).
  destruct (tops _ _ _ _ _ H2 NE) as (f & r & a & q & E1 & E2 & FR & FRr & T1 & T2).
  assert (HP : forall p e' a', In (p, e', a') A -> (p < P)%nat) by (intros p e' a' I; destruct (H1 _ _ _ I); lia).
  destruct (nodef_spec A P (EExtern ns) (top stk) I HP) as (AC & LA & AT & DD & HU).
  assert (XAe : forall i, XA (A ++ [(P, EExtern ns, top stk)]) i = XA A i).
  { intros i. unfold XA. rewrite existsb_app. simpl. apply orb_false_r. }
  assert (FI : In f (stack s)) by (rewrite E1; left; reflexivity).
  destruct (H6 _ FI) as [RIf RLf]. destruct FR as (F1 & F2 & F3 & F4).
  set (s' := fold_left (declare (f_int f)) ns s).
  assert (S1 : step s (EExtern ns) = s') by (unfold step, s'; rewrite T1; reflexivity).
  destruct (stack_fold_declare (f_int f) ns s) as (ST & NL & NI & IS & OU). fold s' in ST, NL, NI, IS, OU.
  assert (SY : syms s' = syms s) by apply syms_fold_declare.
  rewrite S1. simpl step_ann.
  refine (conj _ (conj _ (conj _ _))).
  - apply (G1_same s s' A stk P fi fl (EExtern ns) g1); auto.
  - apply (G2_mono s s' A _ fi fl fi fl g2); auto.
    + intros k R. apply (rI_eq s s' k NI). exact R.
    + intros k R. apply (rL_eq s s' k NL). exact R.
  - destruct g3 as (X & I0 & U & IR). unfold G3. rewrite AT, AC, DD, HU, IS.
    refine (conj _ (conj _ (conj _ _))); [| | |intros p Ip; apply (rI_eq s s' _ NI); auto].
    + simpl acts_at. rewrite T2. rewrite <- F2.
      replace (map (fun n => (lower n, fi (f_int f))) ns) with (map (fun n => (lower n, fi (f_int f))) ns) by reflexivity.
      apply fold_declare_XR; auto.
    + intros k R. apply (rI_eq s s' k NI) in R. auto.
    + unfold s'. rewrite (errs_fold_declare_other _ _ _ unexpected_ne_dup). exact U.
  - unfold G5. rewrite refs_of_snoc, app_nil_r, OU.
    eapply Forall2_impl'; [|exact g5]. intros o0 na Q.
    apply (orel_mono s s' fi fl fi fl o0 na Q); auto.
    + rewrite SY. auto.
    + intros k R. apply (rI_eq s s' k NI). exact R.
    + intros k R. apply (rL_eq s s' k NL). exact R.
Qed.

Lemma top_lt stk P : (forall a, In a stk -> (a_inst a < P)%nat /\ (a_seg a < P)%nat) ->
  (a_inst (top stk) < S P)%nat /\ (a_seg (top stk) < S P)%nat.
Proof.
  intros H. destruct stk as [|a q]; simpl; [lia|]. destruct (H a (or_introl eq_refl)). lia.
Qed.

Lemma NoDup_filter_tl stk : NoDup (map a_inst (filter a_infile stk)) -> NoDup (map a_inst (filter a_infile (tl stk))).
Proof.
  destruct stk as [|a q]; simpl; auto. destruct (a_infile a); simpl; auto. intros H. inversion H; auto.
Qed.

Lemma G1_pos_snoc (A : list (nat * ev * ann)) (stk : list ann) (P : nat) (e : ev) :
  (forall p e0 a, In (p, e0, a) A -> (p < P)%nat /\ (a_inst a < P)%nat /\ (a_seg a < P)%nat) ->
  (forall a, In a stk -> (a_inst a < P)%nat /\ (a_seg a < P)%nat) ->
  forall p e0 a, In (p, e0, a) (A ++ [(P, e, top stk)]) -> (p < S P)%nat /\ (a_inst a < S P)%nat /\ (a_seg a < S P)%nat.
Proof.
  intros H1 H3 p e0 a H. apply in_app_or in H. destruct H as [H|[H|[]]].
  - destruct (H1 _ _ _ H) as (? & ? & ?). lia.
  - inversion H; subst. destruct (top_lt stk _ H3). lia.
Qed.

Lemma step_end s A stk P fi fl e :
  e = EEndFile \/ e = EEndBlock ->
  Inv s A stk P fi fl ->
  Inv (step s e) (A ++ [(P, e, top stk)]) (step_ann e P stk) (S P) fi fl.
Proof.
  intros Ee (g1 & g2 & g3 & g5).
  pose proof g1 as (H1 & H2 & H3 & H4 & H5 & H6 & H7 & H8 & H9 & H10).
  assert (HP : forall p e' a', In (p, e', a') A -> (p < P)%nat) by (intros p e' a' I0; destruct (H1 _ _ _ I0); lia).
  assert (NT : neutral e) by (destruct Ee; subst; exact I).
  destruct (neutral_spec A P e (top stk) NT HP) as (O & L & AC & LA & AT & DD & HU & XAe).
  assert (S1 : step s e = with_stack s (tl (stack s))) by (destruct Ee; subst; reflexivity).
  assert (S2 : step_ann e P stk = tl stk) by (destruct Ee; subst; reflexivity).
  rewrite S1, S2.
  refine (conj _ (conj _ (conj _ _))).
  - unfold G1. simpl stack. simpl next_int. simpl next_loc.
    refine (conj _ (conj _ (conj _ (conj _ (conj H5 (conj _ (conj _ (conj _ (conj _ _))))))))).
    + apply G1_pos_snoc; auto.
    + destruct H2; simpl; [constructor|].
      eapply Forall2_impl'; [|exact H2]. intros f0 a0 Q. eapply frel_mono; eauto.
    + intros a0 Ia. assert (In a0 stk) by (destruct stk; simpl in *; auto). destruct (H3 _ H). lia.
    + apply NoDup_filter_tl. exact H4.
    + intros f0 If. assert (In f0 (stack s)) by (destruct (stack s); simpl in *; auto). apply H6. exact H.
    + intros k R. specialize (H7 _ R). lia.
    + exact H8.
    + intros k R. specialize (H9 _ R). lia.
    + exact H10.
  - apply (G2_mono s _ A _ fi fl fi fl g2); auto.
  - apply (G3_same s _ A _ fi g3); auto. intros; simpl; tauto.
  - unfold G5. rewrite refs_of_snoc. assert (Q0 : match e with ERef n => [(n, top stk)] | _ => [] end = []) by (destruct Ee; subst; reflexivity).
    rewrite Q0, app_nil_r.
    eapply Forall2_impl'; [|exact g5]. intros o0 na Q.
    apply (orel_mono s _ fi fl fi fl o0 na Q); auto.
Qed.

Lemma XA_fresh A P : (forall p e a, In (p, e, a) A -> (a_inst a < P)%nat) -> XA A P = false.
Proof.
  intros H. unfold XA. induction A as [|[[p e] a] r IH]; simpl; auto.
  rewrite IH by (intros; eapply H; right; eauto).
  destruct e; auto. assert (Q : Nat.eqb (a_inst a) P = false).
  { apply Nat.eqb_neq. specialize (H p EExternAll a (or_introl eq_refl)). lia. }
  rewrite Q. reflexivity.
Qed.

Lemma rI_succ s s' k : next_int s' = (next_int s + 1)%N -> (1 <= next_int s)%N ->
  (rI s' k <-> rI s k \/ k = next_int s).
Proof. unfold rI. intros -> H. lia. Qed.
Lemma rL_succ s s' k : next_loc s' = (next_loc s + 1)%N -> (1 <= next_loc s)%N ->
  (rL s' k <-> rL s k \/ k = next_loc s).
Proof. unfold rL. intros -> H. lia. Qed.

Lemma rI_not_next s k : rI s k -> k <> next_int s.
Proof. unfold rI. lia. Qed.
Lemma rL_not_next s k : rL s k -> k <> next_loc s.
Proof. unfold rL. lia. Qed.

Lemma Forall2_frel_upd fi fl A A' stk (fr : list frame) s ki vi kl vl :
  Forall2 (frel fi fl A) fr stk ->
  (forall f, In f fr -> rI s (f_int f) /\ rL s (f_loc f)) ->
  ki = next_int s -> kl = next_loc s ->
  (forall i, XA A' i = XA A i) ->
  Forall2 (frel (upd fi ki vi) (upd fl kl vl) A') fr stk.
Proof.
  intros F R -> -> X. induction F; constructor.
  - destruct (R x (or_introl eq_refl)) as [R1 R2].
    eapply frel_mono; eauto.
    + apply upd_other. apply rI_not_next. exact R1.
    + apply upd_other. apply rL_not_next. exact R2.
  - apply IHF. intros f I. apply R. right. exact I.
Qed.

Lemma step_file s A stk P fi fl :
  Inv s A stk P fi fl ->
  Inv (step s EFile) (A ++ [(P, EFile, top stk)]) (step_ann EFile P stk) (S P)
      (upd fi (next_int s) P) (upd fl (next_loc s) (P, P)).
Proof.
  intros (g1 & g2 & g3 & g5).
  pose proof g1 as (H1 & H2 & H3 & H4 & H5 & H6 & H7 & H8 & H9 & H10).
  assert (HP : forall p e' a', In (p, e', a') A -> (p < P)%nat) by (intros p e' a' I0; destruct (H1 _ _ _ I0); lia).
  destruct (neutral_spec A P EFile (top stk) I HP) as (O & L & AC & LA & AT & DD & HU & XAe).
  set (s' := step s EFile).
  assert (NI : next_int s' = (next_int s + 1)%N) by reflexivity.
  assert (NL : next_loc s' = (next_loc s + 1)%N) by reflexivity.
  destruct H5 as [C1 C2].
  assert (FIo : forall k, rI s k -> upd fi (next_int s) P k = fi k) by (intros k R; apply upd_other, rI_not_next; exact R).
  assert (FLo : forall k, rL s k -> upd fl (next_loc s) (P, P) k = fl k) by (intros k R; apply upd_other, rL_not_next; exact R).
  assert (RIm : forall k, rI s k -> rI s' k) by (intros k R; apply (rI_succ s s' k NI C1); auto).
  assert (RLm : forall k, rL s k -> rL s' k) by (intros k R; apply (rL_succ s s' k NL C2); auto).
  refine (conj _ (conj _ (conj _ _))).
  - unfold G1. simpl step_ann.
    refine (conj _ (conj _ (conj _ (conj _ (conj _ (conj _ (conj _ (conj _ (conj _ _))))))))).
    + apply G1_pos_snoc; auto.
    + simpl stack. constructor.
      * unfold frel. simpl. rewrite !upd_same. repeat split; auto.
        intros _. symmetry. rewrite XAe. apply XA_fresh. intros p e a I0. destruct (H1 _ _ _ I0) as (? & ? & ?). lia.
      * eapply Forall2_frel_upd; eauto.
    + intros a [<-|Ia]; simpl; [lia|]. destruct (H3 _ Ia). lia.
    + simpl. constructor; auto. intros I0. apply in_map_iff in I0. destruct I0 as (a & Ea & Ia).
      apply filter_In in Ia. destruct Ia as [Ia _]. destruct (H3 _ Ia). lia.
    + rewrite NI, NL. lia.
    + intros f [<-|If]; simpl.
      * unfold rI, rL. rewrite NI, NL. lia.
      * destruct (H6 _ If). auto.
    + intros k R. apply (rI_succ s s' k NI C1) in R. destruct R as [R| ->].
      * rewrite FIo by exact R. specialize (H7 _ R). lia.
      * rewrite upd_same. lia.
    + intros k k' R R'. apply (rI_succ s s' k NI C1) in R. apply (rI_succ s s' k' NI C1) in R'.
      destruct R as [R| ->], R' as [R'| ->]; rewrite ?upd_same, ?FIo by assumption; auto.
      * intros Q. specialize (H7 _ R). lia.
      * intros Q. specialize (H7 _ R'). lia.
    + intros k R. apply (rL_succ s s' k NL C2) in R. destruct R as [R| ->].
      * rewrite FLo by exact R. specialize (H9 _ R). lia.
      * rewrite upd_same. simpl. lia.
    + intros k k' R R'. apply (rL_succ s s' k NL C2) in R. apply (rL_succ s s' k' NL C2) in R'.
      destruct R as [R| ->], R' as [R'| ->]; rewrite ?upd_same, ?FLo by assumption; auto.
      * intros Q. specialize (H9 _ R). rewrite Q in H9. simpl in H9. lia.
      * intros Q. specialize (H9 _ R'). rewrite <- Q in H9. simpl in H9. lia.
  - apply (G2_mono s s' A _ fi fl _ _ g2); auto.
  - destruct g3 as (X & I0 & U & IR). unfold G3. rewrite AT, AC, DD, HU.
    refine (conj _ (conj _ (conj _ _))).
    + apply (XR_mono s s' _ fi _ _ X); auto. simpl; tauto.
    + intros k R. apply (rI_succ s s' k NI C1) in R. destruct R as [R| ->].
      * rewrite FIo by exact R. apply I0. exact R.
      * rewrite upd_same. simpl isl.
        assert (Q1 : filter (fun p => N.eqb (fst p) (next_int s)) (isl s) = []).
        { clear -IR. induction (isl s) as [|p r IH]; simpl; auto.
          assert (R : rI s (fst p)) by (apply IR; left; reflexivity).
          assert (Q : N.eqb (fst p) (next_int s) = false) by (apply N.eqb_neq, rI_not_next; exact R).
          rewrite Q. apply IH. intros p' I. apply IR. right. exact I. }
        assert (Q2 : filter (fun d => Nat.eqb (o_inst d) P) (ACC A) = []).
        { destruct g2 as (_ & G22 & _). clear -G22 H7.
          induction (ACC A) as [|d r IH]; simpl; auto.
          destruct (G22 d (or_introl eq_refl)) as (k & Rk & Fk & _). specialize (H7 _ Rk).
          assert (Q : Nat.eqb (o_inst d) P = false) by (apply Nat.eqb_neq; lia).
          rewrite Q. apply IH. intros d' I. apply G22. right. exact I. }
        rewrite Q1, Q2. reflexivity.
    + exact U.
    + intros p Ip. apply RIm. apply IR. exact Ip.
  - unfold G5. rewrite refs_of_snoc, app_nil_r.
    eapply Forall2_impl'; [|exact g5]. intros o0 na Q.
    apply (orel_mono s s' fi fl _ _ o0 na Q); auto.
Qed.

Lemma Forall2_frel_ext fi fl fi' fl' A A' stk (fr : list frame) s :
  Forall2 (frel fi fl A) fr stk ->
  (forall f, In f fr -> rI s (f_int f) /\ rL s (f_loc f)) ->
  (forall k, rI s k -> fi' k = fi k) -> (forall k, rL s k -> fl' k = fl k) ->
  (forall i, XA A' i = XA A i) ->
  Forall2 (frel fi' fl' A') fr stk.
Proof.
  intros F R FI FL X. induction F; constructor.
  - destruct (R x (or_introl eq_refl)) as [R1 R2]. eapply frel_mono; eauto.
  - apply IHF. intros f I. apply R. right. exact I.
Qed.

Lemma step_block s A stk P fi fl :
  Inv s A stk P fi fl -> stack s <> [] ->
  Inv (step s EBlock) (A ++ [(P, EBlock, top stk)]) (step_ann EBlock P stk) (S P)
      fi (upd fl (next_loc s) (P, P)).
Proof.
  intros (g1 & g2 & g3 & g5) NE.
  pose proof g1 as (H1 & H2 & H3 & H4 & H5 & H6 & H7 & H8 & H9 & H10).
  destruct (tops _ _ _ _ _ H2 NE) as (f & r & a & q & E1 & E2 & FR & FRr & T1 & T2).
  assert (HP : forall p e' a', In (p, e', a') A -> (p < P)%nat) by (intros p e' a' I0; destruct (H1 _ _ _ I0); lia).
  destruct (neutral_spec A P EBlock (top stk) I HP) as (O & L & AC & LA & AT & DD & HU & XAe).
  set (s' := step s EBlock).
  assert (NI : next_int s' = next_int s) by reflexivity.
  assert (NL : next_loc s' = (next_loc s + 1)%N) by reflexivity.
  destruct H5 as [C1 C2].
  assert (FLo : forall k, rL s k -> upd fl (next_loc s) (P, P) k = fl k) by (intros k R; apply upd_other, rL_not_next; exact R).
  assert (RIm : forall k, rI s k -> rI s' k) by (intros k R; apply (rI_eq s s' k NI); auto).
  assert (RLm : forall k, rL s k -> rL s' k) by (intros k R; apply (rL_succ s s' k NL C2); auto).
  assert (FI : In f (stack s)) by (rewrite E1; left; reflexivity).
  destruct (H6 _ FI) as [RIf RLf]. pose proof FR as (F1 & F2 & F3 & F4).
  refine (conj _ (conj _ (conj _ _))).
  - unfold G1. simpl step_ann.
    refine (conj _ (conj _ (conj _ (conj _ (conj _ (conj _ (conj _ (conj _ (conj _ _))))))))).
    + apply G1_pos_snoc; auto.
    + simpl stack. constructor.
      * unfold frel. simpl. rewrite upd_same, T1, T2. repeat split; auto. intros Q; discriminate.
      * apply (Forall2_frel_ext fi fl fi _ A _ stk (stack s) s); auto.
    + intros a0 [<-|Ia]; simpl.
      * rewrite T2. destruct (H3 a) as [Q1 Q2]; [rewrite E2; left; reflexivity|]. lia.
      * destruct (H3 _ Ia). lia.
    + simpl. exact H4.
    + rewrite NI, NL. lia.
    + intros f0 [<-|If]; simpl.
      * rewrite T1. split; [apply RIm; exact RIf|]. unfold rL. rewrite NL. lia.
      * destruct (H6 _ If). auto.
    + intros k R. apply (rI_eq s s' k NI) in R. specialize (H7 _ R). lia.
    + intros k k' R R'. apply (rI_eq s s' k NI) in R. apply (rI_eq s s' k' NI) in R'. auto.
    + intros k R. apply (rL_succ s s' k NL C2) in R. destruct R as [R| ->].
      * rewrite FLo by exact R. specialize (H9 _ R). lia.
      * rewrite upd_same. simpl. lia.
    + intros k k' R R'. apply (rL_succ s s' k NL C2) in R. apply (rL_succ s s' k' NL C2) in R'.
      destruct R as [R| ->], R' as [R'| ->]; rewrite ?upd_same, ?FLo by assumption; auto.
      * intros Q. specialize (H9 _ R). rewrite Q in H9. simpl in H9. lia.
      * intros Q. specialize (H9 _ R'). rewrite <- Q in H9. simpl in H9. lia.
  - apply (G2_mono s s' A _ fi fl _ _ g2); auto.
  - apply (G3_same s s' A _ fi g3); auto. intros; simpl; tauto.
  - unfold G5. rewrite refs_of_snoc, app_nil_r.
    eapply Forall2_impl'; [|exact g5]. intros o0 na Q.
    apply (orel_mono s s' fi fl _ _ o0 na Q); auto.
Qed.

(* ------------------------------------------------------------------ Spec side of definition events *)
Lemma ord_defs_pos A : forall d, In d (ord_defs A) -> exists e a, In (o_pos d, e, a) A.
Proof.
  induction A as [|[[p e] a] r IH]; simpl; intros d I; [destruct I|].
  assert (X : In d (ord_defs r) -> exists e0 a0, (p, e, a) = (o_pos d, e0, a0) \/ In (o_pos d, e0, a0) r).
  { intros I0. destruct (IH _ I0) as (e0 & a0 & Q). eauto. }
  destruct e; auto; destruct (a_infile a); auto; destruct I as [<-|I]; auto; simpl; eauto.
Qed.

Lemma acc_pos_lt A P : (forall p e a, In (p, e, a) A -> (p < P)%nat) -> forall d, In d (ACC A) -> (o_pos d < P)%nat.
Proof.
  intros HP d I. apply accepted_incl in I. destruct (ord_defs_pos _ _ I) as (e & a & Q). eapply HP; eauto.
Qed.

Lemma no_acc_at A P : (forall p e a, In (p, e, a) A -> (p < P)%nat) ->
  existsb (fun d => Nat.eqb (o_pos d) P) (ACC A) = false.
Proof.
  intros HP. destruct (existsb (fun d => Nat.eqb (o_pos d) P) (ACC A)) eqn:E; auto.
  apply existsb_exists in E. destruct E as (d & I & Q). apply Nat.eqb_eq in Q.
  pose proof (acc_pos_lt A P HP d I). lia.
Qed.

Definition is_def (e : ev) : Prop :=
  match e with ELabel _ _ _ | ELocal _ _ | EAssign _ _ _ => True | _ => False end.

Lemma XA_def A P e a i : is_def e -> XA (A ++ [(P, e, a)]) i = XA A i.
Proof. intros D. unfold XA. rewrite existsb_app. simpl. destruct e; try contradiction; simpl; apply orb_false_r. Qed.

Lemma unexp_spec A P e a :
  is_def e -> a_infile a = false -> (forall p e' a', In (p, e', a') A -> (p < P)%nat) ->
  ACC (A ++ [(P, e, a)]) = ACC A /\ LACC (A ++ [(P, e, a)]) = LACC A /\ ACTS (A ++ [(P, e, a)]) = ACTS A /\
  dupdefs (A ++ [(P, e, a)]) = dupdefs A /\ has_unexpected (A ++ [(P, e, a)]) = true.
Proof.
  intros D F HP.
  assert (O : ord_defs (A ++ [(P, e, a)]) = ord_defs A).
  { rewrite ord_defs_app. destruct e; try contradiction; simpl; rewrite ?F; apply app_nil_r. }
  assert (L : loc_defs (A ++ [(P, e, a)]) = loc_defs A).
  { rewrite loc_defs_app. destruct e; try contradiction; simpl; rewrite ?F; apply app_nil_r. }
  assert (AC : ACC (A ++ [(P, e, a)]) = ACC A) by (unfold ACC; rewrite O; reflexivity).
  assert (LA : LACC (A ++ [(P, e, a)]) = LACC A) by (unfold LACC; rewrite L; reflexivity).
  refine (conj AC (conj LA (conj _ (conj _ _)))).
  - unfold ACTS. rewrite AC. rewrite <- (app_nil_r (ACC A)) at 1.
    rewrite (export_acts_snoc A (ACC A) P e a []); auto; [|intros d []]. rewrite app_nil_r.
    destruct e; try contradiction; simpl; rewrite ?(no_acc_at A P HP); apply app_nil_r.
  - unfold dupdefs. rewrite AC, LA, O, L. reflexivity.
  - unfold has_unexpected. rewrite existsb_app. simpl. destruct e; try contradiction; simpl; rewrite F; simpl; apply orb_true_r.
Qed.

Lemma len_snoc_eqb a b (dup : bool) : (a <= b)%nat ->
  negb (Nat.eqb (a + (if dup then 0 else 1)) (S b)) = negb (Nat.eqb a b) || dup.
Proof.
  intros L. destruct dup; simpl.
  - rewrite Nat.add_0_r. assert (Q : Nat.eqb a (S b) = false) by (apply Nat.eqb_neq; lia). rewrite Q.
    rewrite orb_true_r. reflexivity.
  - rewrite orb_false_r. replace (a + 1)%nat with (S a) by lia. reflexivity.
Qed.

Lemma local_spec A P n v a :
  a_infile a = true -> (forall p e' a', In (p, e', a') A -> (p < P)%nat) ->
  let d := {| l_name := lower n; l_blk := a_blk a; l_seg := a_seg a; l_val := v; l_pos := P |} in
  let dup := existsb (same_loc d) (loc_defs A) in
  let A' := A ++ [(P, ELocal n v, a)] in
  ACC A' = ACC A /\ LACC A' = LACC A ++ (if dup then [] else [d]) /\ ACTS A' = ACTS A /\
  dupdefs A' = dupdefs A || dup /\ has_unexpected A' = has_unexpected A.
Proof.
  intros F HP d dup A'.
  assert (O : ord_defs A' = ord_defs A) by (unfold A'; rewrite ord_defs_app; simpl; apply app_nil_r).
  assert (L : loc_defs A' = loc_defs A ++ [d]) by (unfold A'; rewrite loc_defs_app; simpl; rewrite F; reflexivity).
  assert (AC : ACC A' = ACC A) by (unfold ACC; rewrite O; reflexivity).
  assert (LA : LACC A' = LACC A ++ (if dup then [] else [d])).
  { unfold LACC. rewrite L, accepted_snoc. simpl. reflexivity. }
  refine (conj AC (conj LA (conj _ (conj _ _)))).
  - unfold ACTS. rewrite AC. unfold A'. rewrite <- (app_nil_r (ACC A)) at 1.
    rewrite (export_acts_snoc A (ACC A) P _ a []); auto; [|intros d0 []]. simpl. rewrite !app_nil_r. reflexivity.
  - unfold dupdefs. rewrite AC, O, LA, L, !app_length. simpl length.
    replace (length (loc_defs A) + 1)%nat with (S (length (loc_defs A))) by lia.
    replace (length (if dup then [] else [d])) with (if dup then 0 else 1)%nat by (destruct dup; reflexivity).
    rewrite len_snoc_eqb by apply accepted_length. rewrite orb_assoc. reflexivity.
  - unfold has_unexpected, A'. rewrite existsb_app. simpl. rewrite F. simpl. apply orb_false_r.
Qed.

Lemma odef_spec A P e n x v a :
  e = ELabel n x v \/ e = EAssign n x v ->
  a_infile a = true -> (forall p e' a', In (p, e', a') A -> (p < P)%nat) ->
  let d := {| o_name := lower n; o_inst := a_inst a; o_val := v; o_pos := P; o_ext := x |} in
  let dup := existsb (same_ord d) (ord_defs A) in
  let A' := A ++ [(P, e, a)] in
  ACC A' = ACC A ++ (if dup then [] else [d]) /\ LACC A' = LACC A /\
  ACTS A' = ACTS A ++ (if dup then [] else (if x then [(lower n, a_inst a)] else []) ++
                                         (if XA A (a_inst a) then [(lower n, a_inst a)] else [])) /\
  dupdefs A' = dupdefs A || dup /\ has_unexpected A' = has_unexpected A.
Proof.
  intros Ee F HP d dup A'.
  assert (O : ord_defs A' = ord_defs A ++ [d]).
  { unfold A'. rewrite ord_defs_app. destruct Ee; subst e; simpl; rewrite F; reflexivity. }
  assert (L : loc_defs A' = loc_defs A).
  { unfold A'. rewrite loc_defs_app. destruct Ee; subst e; simpl; apply app_nil_r. }
  assert (AC : ACC A' = ACC A ++ (if dup then [] else [d])).
  { unfold ACC. rewrite O, accepted_snoc. simpl. reflexivity. }
  assert (LA : LACC A' = LACC A) by (unfold LACC; rewrite L; reflexivity).
  refine (conj AC (conj LA (conj _ (conj _ _)))).
  - unfold ACTS. rewrite AC. unfold A'.
    rewrite (export_acts_snoc A (ACC A) P e a (if dup then [] else [d])); auto.
    2:{ intros d0 I0. destruct dup; [destruct I0|]. destruct I0 as [<-|[]]. reflexivity. }
    f_equal.
    assert (XB : xall_before (A ++ [(P, e, a)]) (a_inst a) P = XA A (a_inst a)).
    { unfold xall_before. rewrite existsb_app. simpl.
      assert (Q : (match e with EExternAll => Nat.ltb P P && Nat.eqb (a_inst a) (a_inst a) && a_infile a | _ => false end) = false)
        by (destruct Ee; subst e; reflexivity).
      rewrite Q, !orb_false_r. apply (xall_before_XA A (a_inst a) P HP). }
    assert (EX : existsb (fun d0 => Nat.eqb (o_pos d0) P) (ACC A ++ (if dup then [] else [d])) = negb dup).
    { rewrite existsb_app, (no_acc_at A P HP). destruct dup; simpl; auto. rewrite Nat.eqb_refl. reflexivity. }
    destruct Ee; subst e; simpl acts_at; rewrite EX, XB; destruct dup; reflexivity.
  - unfold dupdefs. rewrite AC, O, LA, L, !app_length. simpl length.
    replace (length (ord_defs A) + 1)%nat with (S (length (ord_defs A))) by lia.
    replace (length (if dup then [] else [d])) with (if dup then 0 else 1)%nat by (destruct dup; reflexivity).
    rewrite len_snoc_eqb by apply accepted_length.
    destruct (negb (Nat.eqb (length (ACC A)) (length (ord_defs A)))), dup, (negb (Nat.eqb (length (LACC A)) (length (loc_defs A)))); reflexivity.
  - unfold has_unexpected, A'. rewrite existsb_app. simpl. destruct Ee; subst e; simpl; rewrite F; simpl; apply orb_false_r.
Qed.

(* ------------------------------------------------------------------ model side of definition events *)
Lemma step_unexp s A stk P fi fl e :
  is_def e -> Inv s A stk P fi fl -> stack s <> [] -> f_isfile (topf s) = false ->
  Inv (step s e) (A ++ [(P, e, top stk)]) (step_ann e P stk) (S P) fi fl.
Proof.
  intros D (g1 & g2 & g3 & g5) NE F.
  pose proof g1 as (H1 & H2 & H3 & H4 & H5 & H6 & H7 & H8 & H9 & H10).
  destruct (tops _ _ _ _ _ H2 NE) as (f & r & a & q & E1 & E2 & FR & FRr & T1 & T2).
  assert (HP : forall p e' a', In (p, e', a') A -> (p < P)%nat) by (intros p e' a' I0; destruct (H1 _ _ _ I0); lia).
  pose proof FR as (F1 & F2 & F3 & F4).
  assert (Fa : a_infile (top stk) = false) by (rewrite T2, <- F1, <- T1; exact F).
  destruct (unexp_spec A P e (top stk) D Fa HP) as (AC & LA & AT & DD & HU).
  assert (S1 : step s e = add_err s E_UNEXPECTED).
  { destruct e; try contradiction; unfold step; rewrite F; reflexivity. }
  assert (S2 : step_ann e P stk = stk).
  { destruct e; try contradiction; simpl; rewrite ?Fa; reflexivity. }
  rewrite S1, S2.
  refine (conj _ (conj _ (conj _ _))).
  - apply (G1_same s _ A stk P fi fl e g1); auto. intros i. apply XA_def. exact D.
  - apply (G2_mono s _ A _ fi fl fi fl g2); auto.
  - destruct g3 as (X & I0 & U & IR). unfold G3. rewrite AT, AC, DD, HU.
    refine (conj _ (conj I0 (conj _ IR))).
    + apply (XR_mono s _ _ fi fi _ X); auto. simpl. split; intros Q.
      * apply in_app_or in Q. destruct Q as [Q|[Q|[]]]; auto. discriminate Q.
      * apply in_or_app. auto.
    + simpl. split; auto. intros _. apply in_or_app. right. left. reflexivity.
  - unfold G5. rewrite refs_of_snoc.
    assert (Q0 : match e with ERef n => [(n, top stk)] | _ => [] end = []) by (destruct e; try contradiction; reflexivity).
    rewrite Q0, app_nil_r.
    eapply Forall2_impl'; [|exact g5]. intros o0 na Q. apply (orel_mono s _ fi fl fi fl o0 na Q); auto.
Qed.

Lemma same_loc_iff a b : same_loc a b = true <-> l_name a = l_name b /\ l_blk a = l_blk b /\ l_seg a = l_seg b.
Proof.
  unfold same_loc. rewrite !andb_true_iff, String.eqb_eq, !Nat.eqb_eq. tauto.
Qed.
Lemma same_loc_sym a b : same_loc a b = same_loc b a.
Proof. unfold same_loc. rewrite String.eqb_sym, (Nat.eqb_sym (l_blk a)), (Nat.eqb_sym (l_seg a)). reflexivity. Qed.
Lemma same_loc_trans a b c : same_loc a b = true -> same_loc b c = true -> same_loc a c = true.
Proof. rewrite !same_loc_iff. intuition congruence. Qed.

Lemma same_ord_iff a b : same_ord a b = true <-> o_name a = o_name b /\ o_inst a = o_inst b.
Proof. unfold same_ord. rewrite andb_true_iff, String.eqb_eq, Nat.eqb_eq. tauto. Qed.
Lemma same_ord_sym a b : same_ord a b = same_ord b a.
Proof. unfold same_ord. rewrite String.eqb_sym, (Nat.eqb_sym (o_inst a)). reflexivity. Qed.
Lemma same_ord_trans a b c : same_ord a b = true -> same_ord b c = true -> same_ord a c = true.
Proof. rewrite !same_ord_iff. intuition congruence. Qed.

Lemma dup_loc_iff A d : existsb (same_loc d) (loc_defs A) = existsb (same_loc d) (LACC A).
Proof.
  pose proof (accepted_exists same_loc same_loc_trans (loc_defs A) [] d) as X. simpl in X. symmetry. exact X.
Qed.
Lemma dup_ord_iff A d : existsb (same_ord d) (ord_defs A) = existsb (same_ord d) (ACC A).
Proof.
  pose proof (accepted_exists same_ord same_ord_trans (ord_defs A) [] d) as X. simpl in X. symmetry. exact X.
Qed.

Lemma lookup_key_snoc k T en :
  lookup_key k (T ++ [en]) = match lookup_key k T with
                             | Some v => Some v
                             | None => if key_eqb (e_key en) k then Some (e_val en) else None end.
Proof.
  unfold lookup_key. induction T as [|a r IH]; simpl.
  - destruct (key_eqb (e_key en) k); reflexivity.
  - destruct (key_eqb (e_key a) k); auto.
Qed.

Lemma step_local_file s A stk P fi fl n v :
  Inv s A stk P fi fl -> stack s <> [] -> f_isfile (topf s) = true ->
  Inv (step s (ELocal n v)) (A ++ [(P, ELocal n v, top stk)]) (step_ann (ELocal n v) P stk) (S P) fi fl.
Proof.
  intros (g1 & g2 & g3 & g5) NE F.
  pose proof g1 as (H1 & H2 & H3 & H4 & H5 & H6 & H7 & H8 & H9 & H10).
  destruct (tops _ _ _ _ _ H2 NE) as (f & r & a & q & E1 & E2 & FR & FRr & T1 & T2).
  assert (HP : forall p e' a', In (p, e', a') A -> (p < P)%nat) by (intros p e' a' I0; destruct (H1 _ _ _ I0); lia).
  pose proof FR as (F1 & F2 & F3 & F4).
  assert (Fa : a_infile (top stk) = true) by (rewrite T2, <- F1, <- T1; exact F).
  assert (FI : In f (stack s)) by (rewrite E1; left; reflexivity).
  destruct (H6 _ FI) as [RIf RLf].
  pose proof (local_spec A P n v (top stk) Fa HP) as LS. cbv zeta in LS.
  set (d := {| l_name := lower n; l_blk := a_blk (top stk); l_seg := a_seg (top stk); l_val := v; l_pos := P |}) in *.
  set (dup := existsb (same_loc d) (loc_defs A)) in *.
  destruct LS as (AC & LA & AT & DD & HU).
  pose proof g2 as (G21 & G22 & G23 & G24).
  set (k0 := mkkey KLocal (f_loc (topf s)) n).
  assert (K0 : k0 = (KLocal, f_loc f, lower n)) by (unfold k0, mkkey; rewrite T1; reflexivity).
  assert (C : (exists w, lookup_key k0 (syms s) = Some w) <-> dup = true).
  { unfold dup. rewrite dup_loc_iff. rewrite K0. split.
    - intros [w W]. destruct (G23 _ _ _ W) as (_ & d' & Id & Nd & Fd & _).
      apply existsb_exists. exists d'. split; auto. apply same_loc_iff. unfold d. simpl. rewrite T2.
      rewrite F3 in Fd. inversion Fd. auto.
    - intros E. apply existsb_exists in E. destruct E as (d' & Id & Sd). apply same_loc_iff in Sd.
      unfold d in Sd. simpl in Sd. rewrite T2 in Sd. destruct Sd as (S1 & S2 & S3).
      destruct (G24 _ Id) as (k & Rk & Fk & Lk).
      assert (k = f_loc f). { apply H10; auto. rewrite Fk, F3, S2, S3. reflexivity. }
      subst k. exists (l_val d'). rewrite S1. exact Lk. }
  assert (XAe : forall i, XA (A ++ [(P, ELocal n v, top stk)]) i = XA A i) by (intros i; apply XA_def; exact I).
  simpl step_ann.
  destruct (lookup_key k0 (syms s)) as [w|] eqn:LK.
  - (* duplicate *)
    assert (Dt : dup = true) by (apply C; eauto).
    assert (S1 : step s (ELocal n v) = add_err s E_DUP).
    { unfold step. rewrite F. simpl negb. cbv iota. fold k0. rewrite LK. reflexivity. }
    rewrite S1. rewrite Dt in LA, DD. rewrite app_nil_r in LA. rewrite orb_true_r in DD.
    refine (conj _ (conj _ (conj _ _))).
    + apply (G1_same s _ A stk P fi fl _ g1); auto.
    + apply (G2_mono s _ A _ fi fl fi fl g2); auto.
    + destruct g3 as (X & I0 & U & IR). unfold G3. rewrite AT, AC, DD, HU.
      refine (conj _ (conj I0 (conj _ IR))).
      * destruct X as (X1 & X2 & X3). refine (conj X1 (conj X2 _)). simpl. split; auto.
        intros _. apply in_or_app. right. left. reflexivity.
      * simpl. rewrite <- U. split; intros Q; [|apply in_or_app; auto].
        apply in_app_or in Q. destruct Q as [Q|[Q|[]]]; auto. discriminate Q.
    + unfold G5. rewrite refs_of_snoc, app_nil_r.
      eapply Forall2_impl'; [|exact g5]. intros o0 na Q. apply (orel_mono s _ fi fl fi fl o0 na Q); auto.
  - (* accepted *)
    assert (Df : dup = false).
    { destruct dup eqn:Q; auto. destruct (proj2 C eq_refl) as [w W]. discriminate W. }
    set (en := {| e_key := k0; e_orig := render KLocal (f_loc (topf s)) n; e_val := v |}).
    assert (S1 : step s (ELocal n v) = add_sym s en).
    { unfold step. rewrite F. simpl negb. cbv iota. fold k0. rewrite LK. reflexivity. }
    rewrite S1. rewrite Df in LA, DD. rewrite orb_false_r in DD.
    assert (SYm : forall k w, lookup_key k (syms s) = Some w -> lookup_key k (syms (add_sym s en)) = Some w).
    { intros k w W. simpl. apply lookup_key_app_some. exact W. }
    refine (conj _ (conj _ (conj _ _))).
    + apply (G1_same s _ A stk P fi fl _ g1); auto.
    + unfold G2. rewrite AC, LA. simpl syms.
      refine (conj _ (conj _ (conj _ _))).
      * intros k ln w W. rewrite lookup_key_snoc in W.
        destruct (lookup_key (KInternal, k, ln) (syms s)) eqn:Q.
        -- inversion W; subst. apply G21. exact Q.
        -- destruct (key_eqb (e_key en) (KInternal, k, ln)) eqn:KE; [|discriminate].
           apply key_eqb_eq in KE. unfold en, k0, mkkey in KE. simpl in KE. discriminate KE.
      * intros d' Id. destruct (G22 _ Id) as (k & Rk & Fk & Lk). exists k. split; [exact Rk|]. split; [exact Fk|]. apply lookup_key_app_some. exact Lk.
      * intros k ln w W. rewrite lookup_key_snoc in W.
        destruct (lookup_key (KLocal, k, ln) (syms s)) eqn:Q.
        -- inversion W; subst. destruct (G23 _ _ _ Q) as (Rk & d' & Id & Q1 & Q2 & Q3).
           split; auto. exists d'. split; [apply in_or_app; auto|auto].
        -- destruct (key_eqb (e_key en) (KLocal, k, ln)) eqn:KE; [|discriminate].
           apply key_eqb_eq in KE. unfold en in KE. simpl in KE. rewrite K0 in KE. inversion KE; subst k ln.
           inversion W; subst w. split; auto. exists d. split; [apply in_or_app; right; left; reflexivity|].
           unfold d. simpl. rewrite T2. auto.
      * intros d' Id. apply in_app_or in Id. destruct Id as [Id|[<-|[]]].
        -- destruct (G24 _ Id) as (k & Rk & Fk & Lk). exists k. split; [exact Rk|]. split; [exact Fk|]. apply lookup_key_app_some. exact Lk.
        -- exists (f_loc f). split; [exact RLf|]. split; [unfold d; simpl; rewrite T2; exact F3|].
           unfold d. simpl l_name. simpl l_val. rewrite <- K0.
           exact (lookup_key_app_new (syms s) en LK).
    + apply (G3_same s _ A _ fi g3); auto. intros; simpl; tauto.
    + unfold G5. rewrite refs_of_snoc, app_nil_r.
      eapply Forall2_impl'; [|exact g5]. intros o0 na Q. apply (orel_mono s _ fi fl fi fl o0 na Q); auto.
Qed.

Lemma label_is_assign_bump s n x v :
  f_isfile (topf s) = true -> step s (ELabel n x v) = bump_local (step s (EAssign n x v)).
Proof.
  intros F. unfold step. rewrite F. simpl negb. cbv iota.
  destruct (lookup_key (mkkey KInternal (f_int (topf s)) n) (syms s)); [reflexivity|].
  f_equal.
  set (en := {| e_key := mkkey KInternal (f_int (topf s)) n; e_orig := render KInternal (f_int (topf s)) n; e_val := v |}).
  change (add_sym (add_isl s (f_int (topf s)) n) en) with (add_isl (add_sym s en) (f_int (topf s)) n).
  destruct x, (f_xall (topf s)); rewrite ?declare_add_isl; reflexivity.
Qed.

Lemma filter_snoc {T} (f : T -> bool) l x : filter f (l ++ [x]) = filter f l ++ (if f x then [x] else []).
Proof. rewrite filter_app. simpl. destruct (f x); reflexivity. Qed.

(* the definition itself: the same for 'name = v' and for 'name:' before the local prefix is renewed *)
Lemma step_odef_core s A stk P fi fl e n x v :
  e = ELabel n x v \/ e = EAssign n x v ->
  Inv s A stk P fi fl -> stack s <> [] -> f_isfile (topf s) = true ->
  Inv (step s (EAssign n x v)) (A ++ [(P, e, top stk)]) stk (S P) fi fl /\
  stack (step s (EAssign n x v)) = stack s /\ next_loc (step s (EAssign n x v)) = next_loc s.
Proof.
  intros Ee (g1 & g2 & g3 & g5) NE F.
  pose proof g1 as (H1 & H2 & H3 & H4 & H5 & H6 & H7 & H8 & H9 & H10).
  destruct (tops _ _ _ _ _ H2 NE) as (f & r & a & q & E1 & E2 & FR & FRr & T1 & T2).
  assert (HP : forall p e' a', In (p, e', a') A -> (p < P)%nat) by (intros p e' a' I0; destruct (H1 _ _ _ I0); lia).
  pose proof FR as (F1 & F2 & F3 & F4).
  assert (Fa : a_infile (top stk) = true) by (rewrite T2, <- F1, <- T1; exact F).
  assert (FI : In f (stack s)) by (rewrite E1; left; reflexivity).
  destruct (H6 _ FI) as [RIf RLf].
  pose proof (odef_spec A P e n x v (top stk) Ee Fa HP) as LS. cbv zeta in LS.
  set (d := {| o_name := lower n; o_inst := a_inst (top stk); o_val := v; o_pos := P; o_ext := x |}) in *.
  set (dup := existsb (same_ord d) (ord_defs A)) in *.
  destruct LS as (AC & LA & AT & DD & HU).
  pose proof g2 as (G21 & G22 & G23 & G24).
  set (i := f_int (topf s)).
  assert (Ii : i = f_int f) by (unfold i; rewrite T1; reflexivity).
  set (k0 := mkkey KInternal i n).
  assert (K0 : k0 = (KInternal, f_int f, lower n)) by (unfold k0, mkkey; rewrite Ii; reflexivity).
  assert (INST : a_inst (top stk) = fi (f_int f)) by (rewrite T2; symmetry; exact F2).
  assert (C : (exists w, lookup_key k0 (syms s) = Some w) <-> dup = true).
  { unfold dup. rewrite dup_ord_iff. rewrite K0. split.
    - intros [w W]. destruct (G21 _ _ _ W) as (_ & d' & Id & Nd & Fd & _).
      apply existsb_exists. exists d'. split; auto. apply same_ord_iff. unfold d. simpl. rewrite INST. auto.
    - intros E. apply existsb_exists in E. destruct E as (d' & Id & Sd). apply same_ord_iff in Sd.
      unfold d in Sd. simpl in Sd. destruct Sd as (S1 & S2).
      destruct (G22 _ Id) as (k & Rk & Fk & Lk).
      assert (k = f_int f). { apply H8; auto. rewrite Fk, <- S2. exact INST. }
      subst k. exists (o_val d'). rewrite S1. exact Lk. }
  assert (XAe : forall j, XA (A ++ [(P, e, top stk)]) j = XA A j).
  { intros j. apply XA_def. destruct Ee; subst e; exact I. }
  destruct (lookup_key k0 (syms s)) as [w|] eqn:LK.
  - (* duplicate *)
    assert (Dt : dup = true) by (apply C; eauto).
    assert (S1 : step s (EAssign n x v) = add_err s E_DUP).
    { unfold step. rewrite F. simpl negb. cbv iota. fold i. fold k0. rewrite LK. reflexivity. }
    rewrite S1. rewrite Dt in AC, AT, DD. rewrite app_nil_r in AC, AT. rewrite orb_true_r in DD.
    split; [|split; reflexivity].
    refine (conj _ (conj _ (conj _ _))).
    + apply (G1_same s _ A stk P fi fl _ g1); auto.
    + apply (G2_mono s _ A _ fi fl fi fl g2); auto.
    + destruct g3 as (X & I0 & U & IR). unfold G3. rewrite AT, AC, DD, HU.
      refine (conj _ (conj I0 (conj _ IR))).
      * destruct X as (X1 & X2 & X3). refine (conj X1 (conj X2 _)). simpl. split; auto.
        intros _. apply in_or_app. right. left. reflexivity.
      * simpl. rewrite <- U. split; intros Q; [|apply in_or_app; auto].
        apply in_app_or in Q. destruct Q as [Q|[Q|[]]]; auto. discriminate Q.
    + unfold G5. rewrite refs_of_snoc.
      assert (Q0 : match e with ERef n0 => [(n0, top stk)] | _ => [] end = []) by (destruct Ee; subst e; reflexivity).
      rewrite Q0, app_nil_r.
      eapply Forall2_impl'; [|exact g5]. intros o0 na Q. apply (orel_mono s _ fi fl fi fl o0 na Q); auto.
  - (* accepted *)
    assert (Df : dup = false).
    { destruct dup eqn:Q; auto. destruct (proj2 C eq_refl) as [w W]. discriminate W. }
    set (en := {| e_key := k0; e_orig := render KInternal i n; e_val := v |}).
    set (s3 := add_sym (add_isl s i n) en).
    set (s4 := if x then declare i s3 n else s3).
    set (s5 := if f_xall (topf s) then declare i s4 n else s4).
    assert (S1 : step s (EAssign n x v) = s5).
    { unfold step. rewrite F. simpl negb. cbv iota. fold i. fold k0. rewrite LK. reflexivity. }
    rewrite S1. rewrite Df in AC, AT, DD. rewrite orb_false_r in DD.
    assert (ST4 : stack s4 = stack s /\ next_loc s4 = next_loc s /\ next_int s4 = next_int s /\ isl s4 = isl s ++ [(i, n)] /\ outs s4 = outs s /\ syms s4 = syms s ++ [en]).
    { unfold s4. destruct x.
      - destruct (stack_declare i s3 n) as (Q1 & Q2 & Q3 & Q4 & Q5). rewrite Q1, Q2, Q3, Q4, Q5, syms_declare. repeat split; reflexivity.
      - repeat split; reflexivity. }
    destruct ST4 as (ST4 & NL4 & NI4 & IS4 & OU4 & SY4).
    assert (ST5 : stack s5 = stack s /\ next_loc s5 = next_loc s /\ next_int s5 = next_int s /\ isl s5 = isl s ++ [(i, n)] /\ outs s5 = outs s /\ syms s5 = syms s ++ [en]).
    { unfold s5. destruct (f_xall (topf s)).
      - destruct (stack_declare i s4 n) as (Q1 & Q2 & Q3 & Q4 & Q5). rewrite Q1, Q2, Q3, Q4, Q5, syms_declare. repeat split; assumption.
      - repeat split; assumption. }
    destruct ST5 as (ST5 & NL5 & NI5 & IS5 & OU5 & SY5).
    split; [|split; assumption].
    assert (SYm : forall k w, lookup_key k (syms s) = Some w -> lookup_key k (syms s5) = Some w).
    { intros k w W. rewrite SY5. apply lookup_key_app_some. exact W. }
    assert (RIe : forall k, rI s k -> rI s5 k) by (intros k R; apply (rI_eq s s5 k NI5); exact R).
    assert (RLe : forall k, rL s k -> rL s5 k) by (intros k R; apply (rL_eq s s5 k NL5); exact R).
    refine (conj _ (conj _ (conj _ _))).
    + apply (G1_same s s5 A stk P fi fl _ g1); auto.
    + unfold G2. rewrite AC, LA, SY5.
      refine (conj _ (conj _ (conj _ _))).
      * intros k ln w W. rewrite lookup_key_snoc in W.
        destruct (lookup_key (KInternal, k, ln) (syms s)) eqn:Q.
        -- inversion W; subst. destruct (G21 _ _ _ Q) as (Rk & d' & Id & Q1 & Q2 & Q3).
           split; [apply RIe; exact Rk|]. exists d'. split; [apply in_or_app; auto|auto].
        -- destruct (key_eqb (e_key en) (KInternal, k, ln)) eqn:KE; [|discriminate].
           apply key_eqb_eq in KE. unfold en in KE. simpl in KE. rewrite K0 in KE. inversion KE; subst k ln.
           inversion W; subst w. split; [apply RIe; exact RIf|]. exists d. split; [apply in_or_app; right; left; reflexivity|].
           unfold d. simpl. auto.
      * intros d' Id. apply in_app_or in Id. destruct Id as [Id|[<-|[]]].
        -- destruct (G22 _ Id) as (k & Rk & Fk & Lk). exists k. split; [apply RIe; exact Rk|]. split; [exact Fk|].
           apply lookup_key_app_some. exact Lk.
        -- exists (f_int f). split; [apply RIe; exact RIf|]. split; [unfold d; simpl; symmetry; exact INST|].
           unfold d. simpl o_name. simpl o_val. rewrite <- K0.
           exact (lookup_key_app_new (syms s) en LK).
      * intros k ln w W. rewrite lookup_key_snoc in W.
        destruct (lookup_key (KLocal, k, ln) (syms s)) eqn:Q.
        -- inversion W; subst. destruct (G23 _ _ _ Q) as (Rk & Q'). split; [apply RLe; exact Rk|exact Q'].
        -- destruct (key_eqb (e_key en) (KLocal, k, ln)) eqn:KE; [|discriminate].
           apply key_eqb_eq in KE. unfold en, k0, mkkey in KE. simpl in KE. discriminate KE.
      * intros d' Id. destruct (G24 _ Id) as (k & Rk & Fk & Lk). exists k. split; [apply RLe; exact Rk|]. split; [exact Fk|].
        apply lookup_key_app_some. exact Lk.
    + destruct g3 as (X & I0 & U & IR). unfold G3. rewrite AT, AC, DD, HU.
      assert (RI3 : rI s3 i) by (rewrite Ii; exact RIf).
      assert (X3 : XR s3 (ACTS A) fi (dupdefs A = true)).
      { apply (XR_mono s s3 _ fi fi _ X); auto. simpl; tauto. }
      assert (X4 : XR s4 (ACTS A ++ (if x then [(lower n, a_inst (top stk))] else [])) fi (dupdefs A = true)).
      { unfold s4. destruct x.
        - rewrite INST, <- Ii. apply declare_XR; auto.
        - rewrite app_nil_r. exact X3. }
      assert (RI4 : rI s4 i) by (apply (rI_eq s s4 i NI4); rewrite Ii; exact RIf).
      assert (XAf : f_xall (topf s) = XA A (a_inst (top stk))).
      { rewrite T1, T2. apply F4. rewrite <- T2. exact Fa. }
      refine (conj _ (conj _ (conj _ _))).
      * unfold s5. rewrite <- XAf. destruct (f_xall (topf s)).
        -- rewrite app_assoc. rewrite INST, <- Ii. apply declare_XR; auto. rewrite Ii, <- INST. exact X4.
        -- rewrite app_nil_r. exact X4.
      * intros k R. apply (rI_eq s s5 k NI5) in R. rewrite IS5, !filter_snoc. simpl fst.
        rewrite !map_app, (I0 _ R). f_equal.
        destruct (N.eqb i k) eqn:Q.
        -- apply N.eqb_eq in Q. subst k. simpl o_inst. rewrite INST, <- Ii, Nat.eqb_refl. reflexivity.
        -- simpl o_inst. assert (Q2 : Nat.eqb (a_inst (top stk)) (fi k) = false).
           { apply Nat.eqb_neq. intros Q3. apply N.eqb_neq in Q. apply Q. rewrite Ii. apply H8; auto. rewrite <- Q3. symmetry. exact INST. }
           rewrite Q2. reflexivity.
      * rewrite <- U. unfold s5, s4.
        destruct (f_xall (topf s)), x; rewrite ?(errs_declare_other _ _ _ _ unexpected_ne_dup); simpl; tauto.
      * intros p Ip. rewrite IS5 in Ip. apply RIe. apply in_app_or in Ip. destruct Ip as [Ip|[<-|[]]]; [auto|].
        simpl. rewrite Ii. exact RIf.
    + unfold G5. rewrite refs_of_snoc.
      assert (Q0 : match e with ERef n0 => [(n0, top stk)] | _ => [] end = []) by (destruct Ee; subst e; reflexivity).
      rewrite Q0, app_nil_r, OU5.
      eapply Forall2_impl'; [|exact g5]. intros o0 na Q. apply (orel_mono s s5 fi fl fi fl o0 na Q); auto.
Qed.

Lemma step_assign_file s A stk P fi fl n x v :
  Inv s A stk P fi fl -> stack s <> [] -> f_isfile (topf s) = true ->
  Inv (step s (EAssign n x v)) (A ++ [(P, EAssign n x v, top stk)]) (step_ann (EAssign n x v) P stk) (S P) fi fl.
Proof.
  intros H NE F. simpl step_ann. apply (step_odef_core s A stk P fi fl _ n x v (or_intror eq_refl) H NE F).
Qed.

(* an ordinary label renews the local prefix / opens a new segment *)
Lemma bump_inv s1 A' P fi fl a q :
  Inv s1 A' (a :: q) (S P) fi fl -> a_infile a = true -> (forall k, rL s1 k -> (snd (fl k) < P)%nat) ->
  Inv (bump_local s1) A' ({| a_inst := a_inst a; a_blk := a_blk a; a_infile := true; a_seg := P |} :: q) (S P)
      fi (upd fl (next_loc s1) (a_blk a, P)).
Proof.
  intros (g1 & g2 & g3 & g5) Fa LT.
  pose proof g1 as (H1 & H2 & H3 & H4 & H5 & H6 & H7 & H8 & H9 & H10).
  inversion H2 as [|f a0 r q0 FR FRr E1 E2]. subst a0 q0. symmetry in E1.
  set (s' := bump_local s1).
  assert (S1 : s' = {| next_loc := next_loc s1 + 1; next_int := next_int s1; syms := syms s1; exts := exts s1; isl := isl s1;
         errs := errs s1; outs := outs s1;
         stack := {| f_isfile := f_isfile f; f_int := f_int f; f_loc := next_loc s1; f_xall := f_xall f |} :: r |}).
  { unfold s', bump_local. rewrite E1. reflexivity. }
  assert (NI : next_int s' = next_int s1) by (rewrite S1; reflexivity).
  assert (NL : next_loc s' = (next_loc s1 + 1)%N) by (rewrite S1; reflexivity).
  destruct H5 as [C1 C2].
  assert (FLo : forall k, rL s1 k -> upd fl (next_loc s1) (a_blk a, P) k = fl k) by (intros k R; apply upd_other, rL_not_next; exact R).
  assert (RIm : forall k, rI s1 k -> rI s' k) by (intros k R; apply (rI_eq s1 s' k NI); auto).
  assert (RLm : forall k, rL s1 k -> rL s' k) by (intros k R; apply (rL_succ s1 s' k NL C2); auto).
  assert (FI : In f (stack s1)) by (rewrite E1; left; reflexivity).
  destruct (H6 _ FI) as [RIf RLf]. pose proof FR as (F1 & F2 & F3 & F4).
  refine (conj _ (conj _ (conj _ _))).
  - unfold G1.
    refine (conj H1 (conj _ (conj _ (conj _ (conj _ (conj _ (conj _ (conj _ (conj _ _))))))))).
    + rewrite S1. simpl stack. constructor.
      * unfold frel. simpl. rewrite upd_same. repeat split; auto. congruence.
      * eapply (Forall2_frel_ext fi fl) with (s := s1); [exact FRr| |auto|exact FLo|auto].
        intros f0 If. apply H6. rewrite E1. right. exact If.
    + intros a0 [<-|Ia]; simpl.
      * destruct (H3 a (or_introl eq_refl)). lia.
      * apply H3. right. exact Ia.
    + simpl. simpl in H4. rewrite Fa in H4. exact H4.
    + rewrite NI, NL. lia.
    + intros f0 If. rewrite S1 in If. simpl in If. destruct If as [<-|If]; simpl.
      * split; [apply RIm; exact RIf|]. unfold rL. rewrite NL. lia.
      * assert (In f0 (stack s1)) by (rewrite E1; right; exact If). destruct (H6 _ H). auto.
    + intros k R. apply (rI_eq s1 s' k NI) in R. auto.
    + intros k k' R R'. apply (rI_eq s1 s' k NI) in R. apply (rI_eq s1 s' k' NI) in R'. auto.
    + intros k R. apply (rL_succ s1 s' k NL C2) in R. destruct R as [R| ->].
      * rewrite FLo by exact R. auto.
      * rewrite upd_same. simpl. lia.
    + intros k k' R R'. apply (rL_succ s1 s' k NL C2) in R. apply (rL_succ s1 s' k' NL C2) in R'.
      destruct R as [R| ->], R' as [R'| ->]; rewrite ?upd_same, ?FLo by assumption; auto.
      * intros Q. specialize (LT _ R). rewrite Q in LT. simpl in LT. lia.
      * intros Q. specialize (LT _ R'). rewrite <- Q in LT. simpl in LT. lia.
  - apply (G2_mono s1 s' A' A' fi fl _ _ g2); auto. rewrite S1. reflexivity.
  - apply (G3_same s1 s' A' A' fi g3); auto; try (rewrite S1; reflexivity); try (intros e0; rewrite S1; simpl; tauto).
  - unfold G5. assert (OU : outs s' = outs s1) by (rewrite S1; reflexivity). rewrite OU.
    eapply Forall2_impl'; [|exact g5]. intros o0 na Q.
    apply (orel_mono s1 s' fi fl _ _ o0 na Q); auto. rewrite S1. simpl. auto.
Qed.

Lemma step_label_file s A stk P fi fl n x v :
  Inv s A stk P fi fl -> stack s <> [] -> f_isfile (topf s) = true ->
  exists fl', Inv (step s (ELabel n x v)) (A ++ [(P, ELabel n x v, top stk)]) (step_ann (ELabel n x v) P stk) (S P) fi fl'.
Proof.
  intros H NE F.
  destruct (step_odef_core s A stk P fi fl (ELabel n x v) n x v (or_introl eq_refl) H NE F) as (I1 & ST & NL).
  destruct H as (g1 & _). pose proof g1 as (H1 & H2 & H3 & H4 & H5 & H6 & H7 & H8 & H9 & H10).
  destruct (tops _ _ _ _ _ H2 NE) as (f & r & a & q & E1 & E2 & FR & FRr & T1 & T2).
  pose proof FR as (F1 & F2 & F3 & F4).
  assert (Fa : a_infile a = true) by (rewrite <- F1, <- T1; exact F).
  rewrite label_is_assign_bump by exact F.
  simpl step_ann. rewrite T2, Fa. rewrite E2 in I1. rewrite E2. simpl tl.
  eexists. apply bump_inv.
  - exact I1.
  - exact Fa.
  - intros k R. apply H9. unfold rL in *. rewrite NL in R. exact R.
Qed.

Lemma filter_pos_lt A P i :
  (forall p e a, In (p, e, a) A -> (p < P)%nat) ->
  filter (fun d => Nat.eqb (o_inst d) i && Nat.ltb (o_pos d) P) (ACC A) = filter (fun d => Nat.eqb (o_inst d) i) (ACC A).
Proof.
  intros HP. pose proof (acc_pos_lt A P HP) as Q. induction (ACC A) as [|d r IH]; simpl; auto.
  assert (L : Nat.ltb (o_pos d) P = true) by (apply Nat.ltb_lt; apply Q; left; reflexivity).
  rewrite L, andb_true_r, IH by (intros d' I; apply Q; right; exact I). reflexivity.
Qed.

Lemma step_externall s A stk P fi fl :
  Inv s A stk P fi fl -> stack s <> [] ->
  Inv (step s EExternAll) (A ++ [(P, EExternAll, top stk)]) (step_ann EExternAll P stk) (S P) fi fl.
Proof.
  intros (g1 & g2 & g3 & g5) NE.
  pose proof g1 as (H1 & H2 & H3 & H4 & H5 & H6 & H7 & H8 & H9 & H10).
  destruct (tops _ _ _ _ _ H2 NE) as (f & r & a & q & E1 & E2 & FR & FRr & T1 & T2).
  assert (HP : forall p e' a', In (p, e', a') A -> (p < P)%nat) by (intros p e' a' I0; destruct (H1 _ _ _ I0); lia).
  destruct (nodef_spec A P EExternAll (top stk) I HP) as (AC & LA & AT & DD & HU).
  assert (FI : In f (stack s)) by (rewrite E1; left; reflexivity).
  destruct (H6 _ FI) as [RIf RLf]. pose proof FR as (F1 & F2 & F3 & F4).
  destruct g3 as (X & I0 & U & IR).
  set (mine := map snd (filter (fun p => N.eqb (fst p) (f_int f)) (isl s))).
  set (s1 := fold_left (declare (f_int f)) mine s).
  destruct (stack_fold_declare (f_int f) mine s) as (ST & NL & NI & IS & OU). fold s1 in ST, NL, NI, IS, OU.
  assert (SY1 : syms s1 = syms s) by apply syms_fold_declare.
  set (f' := {| f_isfile := f_isfile f; f_int := f_int f; f_loc := f_loc f; f_xall := true |}).
  assert (S1 : step s EExternAll = with_stack s1 (f' :: r)).
  { unfold step. rewrite T1. fold mine. fold s1. unfold set_xall. rewrite ST, E1. reflexivity. }
  rewrite S1. simpl step_ann. rewrite T2 in *.
  assert (XAe : forall j, XA (A ++ [(P, EExternAll, a)]) j = XA A j || (Nat.eqb (a_inst a) j && a_infile a)).
  { intros j. unfold XA. rewrite existsb_app. simpl. rewrite orb_false_r. reflexivity. }
  assert (ACTe : acts_at (A ++ [(P, EExternAll, a)]) (ACC A) (P, EExternAll, a) =
                 map (fun n => (lower n, fi (f_int f))) mine).
  { simpl acts_at. rewrite (filter_pos_lt A P _ HP). rewrite <- F2.
    pose proof (I0 _ RIf) as Q. unfold mine.
    rewrite map_map.
    assert (G : forall (l : list odef), (forall d, In d l -> o_inst d = fi (f_int f)) ->
                map (fun d => (o_name d, o_inst d)) l = map (fun ln => (ln, fi (f_int f))) (map o_name l)).
    { induction l as [|d l' IHl]; simpl; intros Hl; auto. rewrite (Hl d) by (left; reflexivity). f_equal.
      apply IHl. intros d' I'. apply Hl. right. exact I'. }
    rewrite G.
    - rewrite <- Q, map_map. reflexivity.
    - intros d Id. apply filter_In in Id. destruct Id as [_ Id]. apply Nat.eqb_eq in Id. exact Id. }
  refine (conj _ (conj _ (conj _ _))).
  - assert (RIe : forall k, rI (with_stack s1 (f' :: r)) k <-> rI s k) by (intros k; unfold rI; simpl; rewrite NI; tauto).
    assert (RLe : forall k, rL (with_stack s1 (f' :: r)) k <-> rL s k) by (intros k; unfold rL; simpl; rewrite NL; tauto).
    unfold G1. simpl stack. simpl next_int. simpl next_loc. rewrite NI, NL.
    refine (conj _ (conj _ (conj _ (conj H4 (conj H5 (conj _ (conj _ (conj _ (conj _ _))))))))).
    6:{ intros k k' R R'. apply RIe in R. apply RIe in R'. auto. }
    7:{ intros k k' R R'. apply RLe in R. apply RLe in R'. auto. }
    + intros p e0 a0 Hin. apply (G1_pos_snoc A stk P EExternAll H1 H3 p e0 a0). rewrite T2. exact Hin.
    + rewrite E2. constructor.
      * unfold frel, f'. simpl. refine (conj F1 (conj F2 (conj F3 _))). intros Fa.
        rewrite XAe, Nat.eqb_refl, Fa. simpl. rewrite orb_true_r. reflexivity.
      * (* deeper frames: another instance, or a block *)
        assert (ND : forall a0, In a0 q -> a_infile a0 = true -> a_infile a = true -> a_inst a <> a_inst a0).
        { intros a0 Ia0 Fa0 Fa Q. rewrite E2 in H4. simpl in H4. rewrite Fa in H4. simpl in H4.
          inversion H4; subst. apply H11. rewrite Q. apply in_map. apply filter_In. auto. }
        clear -FRr XAe ND. induction FRr; constructor.
        -- destruct H as (G1' & G2' & G3' & G4'). refine (conj G1' (conj G2' (conj G3' _))). intros Fy.
           rewrite XAe, (G4' Fy). destruct (a_infile a) eqn:Fa; [|rewrite andb_false_r, orb_false_r; reflexivity].
           assert (Q : Nat.eqb (a_inst a) (a_inst y) = false).
           { apply Nat.eqb_neq. apply ND; auto. left. reflexivity. }
           rewrite Q. simpl. rewrite orb_false_r. reflexivity.
        -- apply IHFRr. intros a0 Ia0. apply ND. right. exact Ia0.
    + intros a0 Ia. destruct (H3 _ Ia). lia.
    + intros f0 [<-|If]; simpl.
      * split; [apply RIe|apply RLe]; assumption.
      * assert (If' : In f0 (stack s)) by (rewrite E1; right; exact If). destruct (H6 _ If').
        split; [apply RIe|apply RLe]; assumption.
    + intros k R. apply RIe in R. specialize (H7 _ R). lia.
    + intros k R. apply RLe in R. specialize (H9 _ R). lia.
  - apply (G2_mono s _ A _ fi fl fi fl g2); auto.
    + intros k R. unfold rI in *. simpl. rewrite NI. exact R.
    + intros k R. unfold rL in *. simpl. rewrite NL. exact R.
  - unfold G3. rewrite AT, AC, DD, HU, ACTe. simpl isl. rewrite IS.
    refine (conj _ (conj _ (conj _ _))).
    + apply (XR_mono s1 _ _ fi fi _ (fold_declare_XR fi _ (f_int f) mine s (ACTS A) RIf X)); auto.
      * simpl; tauto.
    + intros k R. unfold rI in R. simpl in R. rewrite NI in R. auto.
    + simpl errs. unfold s1. rewrite (errs_fold_declare_other _ _ _ unexpected_ne_dup). exact U.
    + intros p Ip. unfold rI. simpl. rewrite NI. apply IR. exact Ip.
  - unfold G5. rewrite refs_of_snoc, app_nil_r. simpl outs. rewrite OU.
    eapply Forall2_impl'; [|exact g5]. intros o0 na Q.
    apply (orel_mono s _ fi fl fi fl o0 na Q); auto.
    + simpl. rewrite SY1. auto.
    + intros k R. unfold rI in *. simpl. rewrite NI. exact R.
    + intros k R. unfold rL in *. simpl. rewrite NL. exact R.
Qed.

(* ================================================================== Part 3: the whole trace *)
Lemma inv_step s A stk P fi fl e :
  Inv s A stk P fi fl -> (e = EFile \/ stk <> []) ->
  exists fi' fl', Inv (step s e) (A ++ [(P, e, top stk)]) (step_ann e P stk) (S P) fi' fl'.
Proof.
  intros H N.
  assert (NE : e = EFile \/ stack s <> []).
  { destruct N as [N|N]; auto. right. destruct H as ((_ & H2 & _) & _). intros Q. rewrite Q in H2. inversion H2. congruence. }
  destruct e.
  - exists (upd fi (next_int s) P), (upd fl (next_loc s) (P, P)). apply step_file. exact H.
  - exists fi, fl. apply step_end; auto.
  - destruct NE as [NE|NE]; [discriminate|]. exists fi, (upd fl (next_loc s) (P, P)). apply step_block; auto.
  - exists fi, fl. apply step_end; auto.
  - destruct NE as [NE|NE]; [discriminate|]. destruct (f_isfile (topf s)) eqn:F.
    + destruct (step_label_file s A stk P fi fl name ext addr H NE F) as [fl' Q]. exists fi, fl'. exact Q.
    + exists fi, fl. apply step_unexp; auto. exact I.
  - destruct NE as [NE|NE]; [discriminate|]. exists fi, fl. destruct (f_isfile (topf s)) eqn:F.
    + apply step_local_file; auto.
    + apply step_unexp; auto. exact I.
  - destruct NE as [NE|NE]; [discriminate|]. exists fi, fl. destruct (f_isfile (topf s)) eqn:F.
    + apply step_assign_file; auto.
    + apply step_unexp; auto. exact I.
  - destruct NE as [NE|NE]; [discriminate|]. exists fi, fl. apply step_ref; auto.
  - destruct NE as [NE|NE]; [discriminate|]. exists fi, fl. apply step_extern; auto.
  - destruct NE as [NE|NE]; [discriminate|]. exists fi, fl. apply step_externall; auto.
Qed.

(* every event other than the start of a file instance lies inside a file instance *)
Fixpoint nested_from (d : nat) (tr : list ev) : bool :=
  match tr with
  | [] => true
  | e :: r =>
      match e with
      | EFile => nested_from (S d) r
      | EBlock => Nat.ltb 0 d && nested_from (S d) r
      | EEndFile | EEndBlock => Nat.ltb 0 d && nested_from (Nat.pred d) r
      | _ => Nat.ltb 0 d && nested_from d r
      end
  end.

Definition nested (tr : list ev) : bool := nested_from 0 tr.

Lemma step_ann_length e P stk : (e = EFile \/ stk <> []) ->
  length (step_ann e P stk) =
  match e with EFile | EBlock => S (length stk) | EEndFile | EEndBlock => Nat.pred (length stk) | _ => length stk end.
Proof.
  intros N. destruct e; simpl; auto; try (destruct stk; reflexivity).
  destruct N as [N|N]; [discriminate|]. destruct stk as [|a q]; [congruence|]. simpl.
  destruct (a_infile a); reflexivity.
Qed.

Lemma inv_run tr : forall s A stk P fi fl,
  Inv s A stk P fi fl -> nested_from (length stk) tr = true ->
  exists fi' fl', Inv (fold_left step tr s) (A ++ annot tr P stk) (sstack tr P stk) (P + length tr)%nat fi' fl'.
Proof.
  induction tr as [|e r IH]; intros s A stk P fi fl H N.
  - simpl. rewrite app_nil_r, Nat.add_0_r. eauto.
  - assert (NE : e = EFile \/ stk <> []).
    { destruct e; auto; right; simpl in N; apply andb_true_iff in N; destruct N as [N _];
        apply Nat.ltb_lt in N; intros Q; rewrite Q in N; simpl in N; lia. }
    destruct (inv_step s A stk P fi fl e H NE) as (fi1 & fl1 & H1).
    assert (N' : nested_from (length (step_ann e P stk)) r = true).
    { rewrite (step_ann_length e P stk NE). destruct e; simpl in N; try exact N;
        apply andb_true_iff in N; destruct N as [_ N]; exact N. }
    destruct (IH _ _ _ _ _ _ H1 N') as (fi2 & fl2 & H2).
    exists fi2, fl2. simpl fold_left. rewrite annot_cons. simpl sstack.
    replace (A ++ (P, e, top stk) :: annot r (S P) (step_ann e P stk))
      with ((A ++ [(P, e, top stk)]) ++ annot r (S P) (step_ann e P stk)) by (rewrite <- app_assoc; reflexivity).
    replace (P + length (e :: r))%nat with (S P + length r)%nat by (simpl; lia). exact H2.
Qed.

Lemma inv_init : Inv init [] [] 0 (fun _ => 0%nat) (fun _ => (0%nat, 0%nat)).
Proof.
  refine (conj _ (conj _ (conj _ _))).
  - unfold G1. simpl.
    refine (conj _ (conj _ (conj _ (conj _ (conj _ (conj _ (conj _ (conj _ (conj _ _))))))))); try (intros; contradiction); try constructor; try lia.
    all: try (intros k R; unfold rI, rL in R; simpl in R; lia); try (intros k k' R; unfold rI, rL in R; simpl in R; lia).
  - unfold G2. simpl. repeat split; intros; try discriminate; try contradiction.
  - unfold G3, XR. simpl. repeat split; intros; try discriminate; try contradiction;
      try (destruct H as [H|H]; discriminate); try (unfold rI in H; simpl in H; lia).
  - constructor.
Qed.

(* ------------------------------------------------------------------ the walk itself never reports 'undefined' *)
Lemma errs_bump s : errs (bump_local s) = errs s.
Proof. unfold bump_local. destruct (stack s); reflexivity. Qed.
Lemma errs_set_xall s : errs (set_xall s) = errs s.
Proof. unfold set_xall. destruct (stack s); reflexivity. Qed.

Lemma undef_ne_dup : E_UNDEFINED <> E_DUP. Proof. discriminate. Qed.

Lemma in_add_err_undef s y : y <> E_UNDEFINED -> In E_UNDEFINED (errs (add_err s y)) -> In E_UNDEFINED (errs s).
Proof. intros N H. simpl in H. apply in_app_or in H. destruct H as [H|[H|[]]]; auto. congruence. Qed.

Lemma step_no_undef s e : In E_UNDEFINED (errs (step s e)) -> In E_UNDEFINED (errs s).
Proof.
  unfold step. destruct e; break_if;
    rewrite ?errs_bump, ?errs_set_xall;
    repeat (rewrite ?(errs_declare_other _ _ _ _ undef_ne_dup), ?(errs_fold_declare_other _ _ _ undef_ne_dup); simpl errs);
    auto; try (apply in_add_err_undef; discriminate).
Qed.

Lemma walk_no_undef tr : forall s, In E_UNDEFINED (errs (fold_left step tr s)) -> In E_UNDEFINED (errs s).
Proof. induction tr as [|e r IH]; simpl; intros s H; auto. apply (step_no_undef s e). apply IH. exact H. Qed.

(* ------------------------------------------------------------------ bindings *)
Definition bindf (acc : list odef) (lacc : list ldef) (acts : list (string * nat)) (na : string * ann) : option Z :=
  if is_local (fst na) then bind_loc lacc (lower (fst na)) (a_blk (snd na)) (a_seg (snd na))
  else bind_ord acc acts (lower (fst na)) (a_inst (snd na)).

Lemma bindings_refs A acc lacc acts : bindings A acc lacc acts = map (bindf acc lacc acts) (refs_of A).
Proof.
  unfold bindings, refs_of. induction A as [|[[p e] a] r IH]; simpl; auto.
  destruct e; simpl; auto. rewrite IH. reflexivity.
Qed.

Lemma find_ord_some A ln i v :
  find_ord (ACC A) ln i = Some v <-> exists d, In d (ACC A) /\ o_name d = ln /\ o_inst d = i /\ o_val d = v.
Proof.
  unfold find_ord. split.
  - destruct (find (fun d => String.eqb (o_name d) ln && Nat.eqb (o_inst d) i) (ACC A)) eqn:E; [|discriminate].
    intros H. inversion H; subst. apply find_some in E. destruct E as [I Q].
    apply andb_true_iff in Q. destruct Q as [Q1 Q2]. apply String.eqb_eq in Q1. apply Nat.eqb_eq in Q2. eauto.
  - intros (d & I & N & In_ & V).
    destruct (find (fun d => String.eqb (o_name d) ln && Nat.eqb (o_inst d) i) (ACC A)) eqn:E.
    + apply find_some in E. destruct E as [I' Q]. apply andb_true_iff in Q. destruct Q as [Q1 Q2].
      apply String.eqb_eq in Q1. apply Nat.eqb_eq in Q2.
      assert (o = d). { unfold ACC in *. eapply (accepted_func same_ord same_ord_sym); eauto. apply same_ord_iff. split; congruence. }
      subst. reflexivity.
    + exfalso. apply (find_none _ _ E) in I. rewrite N, In_, String.eqb_refl, Nat.eqb_refl in I. discriminate.
Qed.

Lemma bind_loc_some A ln b g v :
  bind_loc (LACC A) ln b g = Some v <-> exists d, In d (LACC A) /\ l_name d = ln /\ l_blk d = b /\ l_seg d = g /\ l_val d = v.
Proof.
  unfold bind_loc. split.
  - destruct (find (fun d => String.eqb (l_name d) ln && Nat.eqb (l_blk d) b && Nat.eqb (l_seg d) g) (LACC A)) eqn:E; [|discriminate].
    intros H. inversion H; subst. apply find_some in E. destruct E as [I Q].
    apply andb_true_iff in Q. destruct Q as [Q Q3]. apply andb_true_iff in Q. destruct Q as [Q1 Q2].
    apply String.eqb_eq in Q1. apply Nat.eqb_eq in Q2. apply Nat.eqb_eq in Q3. exists l. auto.
  - intros (d & I & N & B & G & V).
    destruct (find (fun d => String.eqb (l_name d) ln && Nat.eqb (l_blk d) b && Nat.eqb (l_seg d) g) (LACC A)) eqn:E.
    + apply find_some in E. destruct E as [I' Q].
      apply andb_true_iff in Q. destruct Q as [Q Q3]. apply andb_true_iff in Q. destruct Q as [Q1 Q2].
      apply String.eqb_eq in Q1. apply Nat.eqb_eq in Q2. apply Nat.eqb_eq in Q3.
      assert (l = d). { unfold LACC in *. eapply (accepted_func same_loc same_loc_sym); eauto. apply same_loc_iff. repeat split; congruence. }
      subst. reflexivity.
    + exfalso. apply (find_none _ _ E) in I. rewrite N, B, G, String.eqb_refl, !Nat.eqb_refl in I. discriminate.
Qed.

(* the table lookups are the Spec's finds *)
Lemma lookup_int_find s A fi fl k ln :
  G1 s A (@nil ann) 0 fi fl \/ True -> G2 s A fi fl -> rI s k ->
  (forall k k', rI s k -> rI s k' -> fi k = fi k' -> k = k') ->
  lookup_key (KInternal, k, ln) (syms s) = find_ord (ACC A) ln (fi k).
Proof.
  intros _ (G21 & G22 & _) R INJ.
  destruct (lookup_key (KInternal, k, ln) (syms s)) eqn:L.
  - symmetry. apply find_ord_some. destruct (G21 _ _ _ L) as (_ & d & I & N & F & V). eauto.
  - destruct (find_ord (ACC A) ln (fi k)) eqn:F; auto.
    apply find_ord_some in F. destruct F as (d & I & N & F & V).
    destruct (G22 _ I) as (k' & R' & F' & L'). assert (k' = k) by (apply INJ; auto; congruence). subst.
    try rewrite N in L'; congruence.
Qed.

Lemma lookup_loc_find s A fi fl k ln :
  G2 s A fi fl -> rL s k ->
  (forall k k', rL s k -> rL s k' -> fl k = fl k' -> k = k') ->
  lookup_key (KLocal, k, ln) (syms s) = bind_loc (LACC A) ln (fst (fl k)) (snd (fl k)).
Proof.
  intros (_ & _ & G23 & G24) R INJ.
  destruct (lookup_key (KLocal, k, ln) (syms s)) eqn:L.
  - symmetry. apply bind_loc_some. destruct (G23 _ _ _ L) as (_ & d & I & N & F & V). exists d. rewrite F. simpl. auto.
  - destruct (bind_loc (LACC A) ln (fst (fl k)) (snd (fl k))) eqn:F; auto.
    apply bind_loc_some in F. destruct F as (d & I & N & B & G & V).
    destruct (G24 _ I) as (k' & R' & F' & L'). assert (k' = k).
    { apply INJ; auto. rewrite F'. rewrite B, G. destruct (fl k); reflexivity. }
    subst. try rewrite N in L'; congruence.
Qed.

Lemma kinded_local T k ln v : kinded T -> lookup_key (KLocal, k, ln) T = Some v -> is_local ln = true.
Proof.
  intros K H. apply lookup_key_in in H. destruct H as (en & I & E & _). pose proof (K _ I) as Q. rewrite E in Q. exact Q.
Qed.
Lemma kinded_internal T k ln v : kinded T -> lookup_key (KInternal, k, ln) T = Some v -> is_local ln = false.
Proof.
  intros K H. apply lookup_key_in in H. destruct H as (en & I & E & _). pose proof (K _ I) as Q. rewrite E in Q. exact Q.
Qed.

Lemma force_bind s A stk P fi fl o na :
  Inv s A stk P fi fl -> kinded (syms s) -> orel s fi fl o na ->
  force s o = bindf (ACC A) (LACC A) (ACTS A) na.
Proof.
  intros (g1 & g2 & g3 & g5) K (loc & int & RL & RI & Fi & Fl & H).
  pose proof g1 as (H1 & H2 & H3 & H4 & H5 & H6 & H7 & H8 & H9 & H10).
  destruct g3 as ((X1 & X2 & X3) & _).
  destruct na as [n a]. simpl fst in *. simpl snd in *.
  assert (LL : lookup_key (KLocal, loc, lower n) (syms s) = bind_loc (LACC A) (lower n) (a_blk a) (a_seg a)).
  { rewrite (lookup_loc_find s A fi fl loc (lower n) g2 RL H10), Fl. reflexivity. }
  assert (II : forall k, rI s k -> lookup_key (KInternal, k, lower n) (syms s) = find_ord (ACC A) (lower n) (fi k)).
  { intros k R. apply (lookup_int_find s A fi fl k (lower n) (or_intror I) g2 R H8). }
  unfold bindf. simpl fst. simpl snd. rewrite <- (is_local_lower n).
  destruct H as [->|(v & -> & [H|H])].
  - simpl force. unfold resolve_final. rewrite <- LL.
    destruct (lookup_key (KLocal, loc, lower n) (syms s)) as [v|] eqn:L.
    + rewrite (kinded_local _ _ _ _ K L). reflexivity.
    + destruct (is_local (lower n)) eqn:LOC.
      * destruct (lookup_key (KInternal, int, lower n) (syms s)) eqn:Q.
        { pose proof (kinded_internal _ _ _ _ K Q). congruence. }
        destruct (lookup_ext (lower n) (exts s)) as [key|] eqn:E; auto.
        destruct (X1 _ _ E) as (k & -> & Rk & _).
        destruct (lookup_key (KInternal, k, lower n) (syms s)) eqn:Q2; auto.
        pose proof (kinded_internal _ _ _ _ K Q2). congruence.
      * unfold bind_ord. rewrite <- Fi, <- (II int RI).
        destruct (lookup_key (KInternal, int, lower n) (syms s)); auto.
        destruct (first_act (lower n) (ACTS A)) as [i|] eqn:FA.
        -- destruct (X2 _ _ FA) as (k & Rk & Fk & Lk). rewrite Lk, <- Fk. apply II. exact Rk.
        -- destruct (lookup_ext (lower n) (exts s)) as [key|] eqn:E; auto.
           destruct (X1 _ _ E) as (k & _ & _ & Q). congruence.
  - simpl force. rewrite (kinded_local _ _ _ _ K H), <- LL, H. reflexivity.
  - simpl force. rewrite (kinded_internal _ _ _ _ K H). unfold bind_ord. rewrite <- Fi, <- (II int RI), H. reflexivity.
Qed.

Lemma has_iff e l (b : bool) : (In e l <-> b = true) -> has e l = b.
Proof.
  intros H. unfold has. destruct b.
  - apply existsb_exists. exists e. split; [apply H; reflexivity|apply String.eqb_refl].
  - destruct (existsb (String.eqb e) l) eqn:Q; auto. apply existsb_exists in Q. destruct Q as (x & I & Q).
    apply String.eqb_eq in Q. subst. apply H in I. discriminate.
Qed.

Lemma has_app e l1 l2 : has e (l1 ++ l2) = has e l1 || has e l2.
Proof. unfold has. apply existsb_app. Qed.

(* ------------------------------------------------------------------ scope_refines *)
Lemma scope_refines_lemma tr :
  Forall wf_ev tr -> nested tr = true -> fst (model_trace tr) = spec_trace tr.
Proof.
  intros W N.
  destruct (inv_run tr init [] [] 0%nat _ _ inv_init N) as (fi & fl & HI).
  simpl app in HI. simpl plus in HI. fold (walk tr) in HI.
  set (s := walk tr) in *. set (A := annot tr 0 []) in *.
  assert (K : kinded (syms s)) by (apply kinded_walk; auto; intros en []).
  pose proof HI as (g1 & g2 & g3 & g5).
  destruct g3 as ((X1 & X2 & X3) & _ & U & _).
  assert (VALS : map (force s) (outs s) = bindings A (ACC A) (LACC A) (ACTS A)).
  { rewrite bindings_refs. unfold G5 in g5. clear -g5 HI K.
    induction g5; simpl; auto. f_equal; auto. eapply force_bind; eauto. }
  unfold model_trace, spec_trace. fold s. fold A. simpl fst.
  fold (ACC A). fold (LACC A). fold (ACTS A). rewrite VALS.
  set (bs := bindings A (ACC A) (LACC A) (ACTS A)).
  set (un := existsb (fun v : option Z => match v with None => true | Some _ => false end) bs).
  assert (NU : has E_UNDEFINED (errs s) = false).
  { unfold has. destruct (existsb (String.eqb E_UNDEFINED) (errs s)) eqn:Q; auto.
    apply existsb_exists in Q. destruct Q as (x & I0 & Q). apply String.eqb_eq in Q. subst x.
    apply (walk_no_undef tr init) in I0. destruct I0. }
  assert (E1 : has E_UNEXPECTED (errs s ++ (if un then [E_UNDEFINED] else [])) = has_unexpected A).
  { rewrite has_app, (has_iff _ _ _ U). destruct un; simpl; rewrite orb_false_r; reflexivity. }
  assert (E2 : has E_DUP (errs s ++ (if un then [E_UNDEFINED] else [])) =
               negb (Nat.eqb (length (ACC A)) (length (ord_defs A))) || negb (Nat.eqb (length (LACC A)) (length (loc_defs A))) || has_dup_name [] (ACTS A)).
  { rewrite has_app. fold (dupdefs A).
    assert (Q : has E_DUP (errs s) = dupdefs A || has_dup_name [] (ACTS A)).
    { apply has_iff. rewrite X3, orb_true_iff. tauto. }
    rewrite Q. destruct un; simpl; rewrite orb_false_r; reflexivity. }
  assert (E3 : has E_UNDEFINED (errs s ++ (if un then [E_UNDEFINED] else [])) = un).
  { rewrite has_app, NU. destruct un; reflexivity. }
  rewrite E1, E2, E3. reflexivity.
Qed.

(* ================================================================== Part 4: traces of abstract programs *)
Definition bal (t : list ev) : Prop :=
  forall d rest, (1 <= d)%nat -> nested_from d (t ++ rest) = nested_from d rest.

Lemma bal_nil : bal []. Proof. intros d rest L. reflexivity. Qed.

Lemma bal_app t1 t2 : bal t1 -> bal t2 -> bal (t1 ++ t2).
Proof. intros B1 B2 d rest L. rewrite <- app_assoc, B1, B2; auto. Qed.

Lemma bal_single e : (match e with EFile | EEndFile | EBlock | EEndBlock => False | _ => True end) -> bal [e].
Proof.
  intros H d rest L. simpl. assert (Q : Nat.ltb 0 d = true) by (apply Nat.ltb_lt; lia).
  destruct e; try contradiction; rewrite Q; reflexivity.
Qed.

Lemma bal_wrap_block t : bal t -> bal (EBlock :: t ++ [EEndBlock]).
Proof.
  intros B d rest L. simpl. assert (Q : Nat.ltb 0 d = true) by (apply Nat.ltb_lt; lia). rewrite Q. simpl.
  rewrite <- app_assoc, B by lia. simpl. reflexivity.
Qed.

Lemma bal_wrap_file t : bal t -> bal (EFile :: t ++ [EEndFile]).
Proof.
  intros B d rest L. simpl. rewrite <- app_assoc, B by lia. simpl. reflexivity.
Qed.

Lemma iter_block_bal g k : (forall cnt t c, g cnt = Ok (t, c) -> bal t) ->
  forall cnt t c, iter_block g k cnt = Ok (t, c) -> bal t.
Proof.
  intros G. induction k as [|k IH]; intros cnt t c H; simpl in H.
  - inversion H; subst. apply bal_nil.
  - apply bind_ok_inv in H. destruct H as ([t1 c1] & H1 & H). apply bind_ok_inv in H. destruct H as ([t2 c2] & H2 & H).
    inversion H; subst. simpl.
    replace (EBlock :: t1 ++ EEndBlock :: t2) with ((EBlock :: t1 ++ [EEndBlock]) ++ t2)
      by (simpl; rewrite <- app_assoc; reflexivity).
    apply bal_app; [apply bal_wrap_block; eapply G; eauto|eapply IH; eauto].
Qed.

Lemma xl_bal : forall fuel tbl its cnt t c, xl fuel tbl its cnt = Ok (t, c) -> bal t.
Proof.
  induction fuel as [|f IH]; intros tbl its cnt t c H; simpl in H; [discriminate|].
  destruct its as [|it rest]; [inversion H; apply bal_nil|].
  assert (X : forall r1, (match it with
                 | Label n e => Ok ([ELabel n e (addr_of cnt)], cnt)
                 | LocalLabel n => Ok ([ELocal n (addr_of cnt)], cnt)
                 | Assign n e v => Ok ([EAssign n e v], cnt)
                 | Ref n => Ok ([ERef n], cnt + 1)
                 | Block k body => iter_block (xl f tbl body) k cnt
                 | Include i =>
                     match nth_error tbl i with
                     | None => Err ["io-error"%string]
                     | Some fl => do r <- xl f tbl fl cnt; Ok (EFile :: fst r ++ [EEndFile], snd r)
                     end
                 | ExternDecl ns => Ok ([EExtern ns], cnt)
                 | ExternAll => Ok ([EExternAll], cnt)
                 | End => Ok ([], cnt)
                 end) = Ok r1 -> bal (fst r1)).
  { intros [t1 c1] H1. simpl. destruct it; try (inversion H1; subst; apply bal_single; exact I).
    - eapply iter_block_bal; [|exact H1]. intros; eapply IH; eauto.
    - destruct (nth_error tbl f0); [|discriminate]. apply bind_ok_inv in H1. destruct H1 as ([t2 c2] & H2 & H1).
      inversion H1; subst. simpl. apply bal_wrap_file. eapply IH; eauto.
    - inversion H1; subst. apply bal_nil. }
  destruct it; try (apply bind_ok_inv in H; destruct H as (r1 & H1 & H); apply bind_ok_inv in H; destruct H as ([t2 c2] & H2 & H);
                    inversion H; subst; apply bal_app; [apply X; exact H1|eapply IH; eauto]).
  inversion H. apply bal_nil.
Qed.

Lemma xfiles_nested fuel tbl : forall fs cnt tr d, xfiles fuel tbl fs cnt = Ok tr -> nested_from d tr = true.
Proof.
  induction fs as [|fl rest IH]; intros cnt tr d H; simpl in H.
  - inversion H. reflexivity.
  - apply bind_ok_inv in H. destruct H as ([t c] & H1 & H). apply bind_ok_inv in H. destruct H as (t2 & H2 & H).
    inversion H; subst. simpl fst.
    change (EFile :: t ++ EEndFile :: t2) with ([EFile] ++ t ++ EEndFile :: t2). simpl.
    rewrite (xl_bal _ _ _ _ _ _ H1) by lia. simpl. eapply IH; eauto.
Qed.

Lemma expand_nested fuel p tr : expand fuel p = Ok tr -> nested tr = true.
Proof. unfold expand, nested. apply xfiles_nested. Qed.

Definition WF (its : list item) : Prop := exists k, wf_items k its = true.

Lemma WF_cons it rest : WF (it :: rest) ->
  WF rest /\ match it with
             | Label n _ | Assign n _ _ => is_local n = false
             | LocalLabel n => is_local n = true
             | Block _ body => WF body
             | _ => True end.
Proof.
  intros [k H]. destruct k as [|k]; simpl in H; [discriminate|].
  apply andb_true_iff in H. destruct H as [H1 H2]. split.
  - exists (S k). simpl. exact H2.
  - destruct it; auto; try (apply negb_true_iff; exact H1). exists k. exact H1.
Qed.

Lemma iter_block_wf g k : (forall cnt t c, g cnt = Ok (t, c) -> Forall wf_ev t) ->
  forall cnt t c, iter_block g k cnt = Ok (t, c) -> Forall wf_ev t.
Proof.
  intros G. induction k as [|k IH]; intros cnt t c H; simpl in H.
  - inversion H; subst. constructor.
  - apply bind_ok_inv in H. destruct H as ([t1 c1] & H1 & H). apply bind_ok_inv in H. destruct H as ([t2 c2] & H2 & H).
    inversion H; subst. simpl. constructor; [exact I|]. apply Forall_app. split; [eapply G; eauto|].
    constructor; [exact I|]. eapply IH; eauto.
Qed.

Lemma xl_wf tbl : (forall fl, In fl tbl -> WF fl) ->
  forall fuel its cnt t c, WF its -> xl fuel tbl its cnt = Ok (t, c) -> Forall wf_ev t.
Proof.
  intros TB. induction fuel as [|f IH]; intros its cnt t c W H; simpl in H; [discriminate|].
  destruct its as [|it rest]; [inversion H; constructor|].
  destruct (WF_cons _ _ W) as [Wr Wi].
  destruct it;
    try (apply bind_ok_inv in H; destruct H as ([t1 c1] & H1 & H); apply bind_ok_inv in H; destruct H as ([t2 c2] & H2 & H);
         inversion H; subst; simpl; apply Forall_app; split; [|eapply IH; [exact Wr|exact H2]]);
    try (inversion H1; subst; constructor; [first [exact Wi|exact I]|constructor]).
  - eapply iter_block_wf; [|exact H1]. intros cnt0 t0 c0 H0. eapply IH; [exact Wi|exact H0].
  - unfold file in *. revert H1. match goal with |- context [nth_error tbl ?x] => destruct (nth_error tbl x) eqn:E end; intros H1; [|discriminate H1].
    apply bind_ok_inv in H1. destruct H1 as ([t3 c3] & H3 & H1).
    inversion H1; subst. simpl. constructor; [exact I|]. apply Forall_app. split; [|constructor; [exact I|constructor]].
    eapply IH; [|exact H3]. apply TB. eapply nth_error_In; eauto.
  - inversion H. constructor.
Qed.

Lemma xfiles_wf fuel tbl : (forall fl, In fl tbl -> WF fl) ->
  forall fs cnt tr, (forall fl, In fl fs -> WF fl) -> xfiles fuel tbl fs cnt = Ok tr -> Forall wf_ev tr.
Proof.
  intros TB. induction fs as [|fl rest IH]; intros cnt tr W H; simpl in H.
  - inversion H. constructor.
  - apply bind_ok_inv in H. destruct H as ([t c] & H1 & H). apply bind_ok_inv in H. destruct H as (t2 & H2 & H).
    inversion H; subst. simpl. constructor; [exact I|]. apply Forall_app. split.
    + eapply (xl_wf tbl TB); [|exact H1]. apply W. left. reflexivity.
    + constructor; [exact I|]. eapply IH; [|exact H2]. intros fl' I'. apply W. right. exact I'.
Qed.

Definition wf_program (p : program) : Prop :=
  (forall fl, In fl (linked p) -> WF fl) /\ (forall fl, In fl (inctable p) -> WF fl).

(* for every abstract program whose names are well-kinded: the mechanism gives exactly what the Spec designates --
   the same words when both succeed, the same set of error identifiers otherwise *)
Lemma scope_refines_program fuel p tr :
  wf_program p -> expand fuel p = Ok tr -> fst (model_trace tr) = spec_trace tr.
Proof.
  intros [W1 W2] E. apply scope_refines_lemma.
  - unfold expand in E. eapply (xfiles_wf fuel (inctable p) W2 (linked p)); [exact W1|exact E].
  - eapply expand_nested; eauto.
Qed.

Lemma scope_refines_run fuel p :
  wf_program p ->
  match model_run fuel p, spec_run fuel p with
  | Ok (o, _), Ok o' => o = o'
  | Err a, Err b => a = b
  | Crash a, Crash b => a = b
  | OutOfFuel, OutOfFuel => True
  | _, _ => False
  end.
Proof.
  intros W. unfold model_run, spec_run. destruct (expand fuel p) as [tr| | |] eqn:E; cbn [bind]; auto.
  pose proof (scope_refines_program fuel p tr W E) as Q. destruct (model_trace tr) as [o t]. exact Q.
Qed.

(* a use that stays unbound is an error of the build *)
Lemma undefined_is_error tr l i n :
  In (inr (l, i, n)) (outs (walk tr)) -> resolve_final (walk tr) l i n = None ->
  exists es, fst (model_trace tr) = OutFail es /\ In E_UNDEFINED es.
Proof.
  intros I R. unfold model_trace. simpl fst.
  set (s := walk tr) in *.
  set (vals := map (force s) (outs s)).
  assert (X : existsb (fun v : option Z => match v with None => true | Some _ => false end) vals = true).
  { apply existsb_exists. exists None. split; auto. unfold vals. apply in_map_iff. exists (inr (l, i, n)). split; auto. }
  rewrite X.
  set (es := errs s ++ [E_UNDEFINED]).
  assert (H : has E_UNDEFINED es = true).
  { unfold has. apply existsb_exists. exists E_UNDEFINED. split; [apply in_or_app; right; left; reflexivity|apply String.eqb_refl]. }
  rewrite H. destruct (has E_UNEXPECTED es), (has E_DUP es); eexists; (split; [reflexivity|]); simpl; auto.
Qed.

(* ------------------------------------------------------------------ fresh counters: nothing is bound under the
   next internal / local prefix, and the extern mapping points to instances that exist *)
Lemma fresh_counters tr : nested tr = true ->
  let s := walk tr in
  (forall ln, lookup_key (KInternal, next_int s, ln) (syms s) = None) /\
  (forall ln, lookup_key (KLocal, next_loc s, ln) (syms s) = None) /\
  (forall ln key, lookup_ext ln (exts s) = Some key -> exists i, key = (KInternal, i, ln) /\ (1 <= i < next_int s)%N) /\
  (forall k i ln v, lookup_key (k, i, ln) (syms s) = Some v ->
     match k with KInternal => (1 <= i < next_int s)%N | KLocal => (1 <= i < next_loc s)%N end).
Proof.
  intros N s.
  destruct (inv_run tr init [] [] 0%nat _ _ inv_init N) as (fi & fl & (g1 & (G21 & _ & G23 & _) & ((X1 & _) & _) & _)).
  fold (walk tr) in *. fold s in G21, G23, X1.
  refine (conj _ (conj _ (conj _ _))).
  - intros ln. destruct (lookup_key (KInternal, next_int s, ln) (syms s)) eqn:E; auto.
    destruct (G21 _ _ _ E) as [R _]. unfold rI in R. lia.
  - intros ln. destruct (lookup_key (KLocal, next_loc s, ln) (syms s)) eqn:E; auto.
    destruct (G23 _ _ _ E) as [R _]. unfold rL in R. lia.
  - intros ln key E. destruct (X1 _ _ E) as (k & -> & R & _). exists k. split; auto.
  - intros k i ln v E. destruct k.
    + destruct (G23 _ _ _ E) as [R _]. exact R.
    + destruct (G21 _ _ _ E) as [R _]. exact R.
Qed.

(* ------------------------------------------------------------------ export order for labels *)
Lemma bump_declare i s n : bump_local (declare i s n) = declare i (bump_local s) n.
Proof.
  unfold bump_local. rewrite (proj1 (stack_declare i s n)). destruct (stack s); auto.
  unfold declare. simpl. destruct (lookup_ext (lower n) (exts s)); reflexivity.
Qed.

Lemma bump_fold_declare i ns : forall s, bump_local (fold_left (declare i) ns s) = fold_left (declare i) ns (bump_local s).
Proof. induction ns; simpl; intros s; auto. rewrite IHns, bump_declare. reflexivity. Qed.

Lemma topf_bump_int s : f_int (topf (bump_local s)) = f_int (topf s) /\ f_isfile (topf (bump_local s)) = f_isfile (topf s)
                        /\ f_xall (topf (bump_local s)) = f_xall (topf s) /\ isl (bump_local s) = isl s.
Proof. unfold bump_local, topf. destruct (stack s) eqn:E; simpl; rewrite ?E; repeat split; reflexivity. Qed.

Lemma bump_extern s ns : step (bump_local s) (EExtern ns) = bump_local (step s (EExtern ns)).
Proof. unfold step. rewrite (proj1 (topf_bump_int s)), bump_fold_declare. reflexivity. Qed.

Lemma bump_set_xall s : bump_local (set_xall s) = set_xall (bump_local s).
Proof. unfold bump_local, set_xall. destruct (stack s) eqn:E; simpl; rewrite ?E; simpl; reflexivity. Qed.

Lemma bump_externall s : step (bump_local s) EExternAll = bump_local (step s EExternAll).
Proof.
  unfold step. destruct (topf_bump_int s) as (A & _ & _ & B). rewrite A, B, bump_set_xall, bump_fold_declare. reflexivity.
Qed.

Lemma topf_fold_declare_file i ns s : topf (fold_left (declare i) ns s) = topf s.
Proof. unfold topf. rewrite (proj1 (stack_fold_declare i ns s)). reflexivity. Qed.

(* 'name:' then '.extern name'  ==  '.extern name' then 'name:' ; the same for '.extern all' *)
Lemma extern_label_commute s n m v :
  f_isfile (topf s) = true -> f_xall (topf s) = false -> lower m = lower n ->
  lookup_key (mkkey KInternal (f_int (topf s)) n) (syms s) = None ->
  step (step s (ELabel n false v)) (EExtern [m]) = step (step s (EExtern [m])) (ELabel n false v).
Proof.
  intros F X L U.
  rewrite (label_is_assign_bump s n false v F), bump_extern, (extern_assign_commute s n m v F X L U).
  symmetry. apply label_is_assign_bump. simpl. rewrite topf_declare. exact F.
Qed.

Lemma externall_label_commute s n v :
  f_isfile (topf s) = true -> f_xall (topf s) = false ->
  lookup_key (mkkey KInternal (f_int (topf s)) n) (syms s) = None ->
  step (step s (ELabel n false v)) EExternAll = step (step s EExternAll) (ELabel n false v).
Proof.
  intros F X U.
  rewrite (label_is_assign_bump s n false v F), bump_externall, (externall_assign_commute s n v F X U).
  symmetry. apply label_is_assign_bump.
  unfold step, set_xall. rewrite (proj1 (stack_fold_declare _ _ _)).
  unfold topf in *. destruct (stack s); [discriminate|]. simpl. exact F.
Qed.
