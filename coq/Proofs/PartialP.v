(* Proofs about Model/Partial.v: under the guard the code has, the partial operation cannot raise. *)
From Coq Require Import String List ZArith NArith Bool Lia.
From Verif Require Import Base.Res Base.Bytes Gen.GenGetAsInt Gen.GenMeta Gen.GenPartial Model.Partial.
From Verif Require Gen.GenOperators.
Import ListNotations.
Open Scope Z_scope.

(* ------------------------------------------------------------------ catch *)
Lemma catch_no_crash {A} classes (r h : res A) :
  (forall e, r = Crash e -> smem e classes = true) ->
  (forall s, h <> Crash s) ->
  forall s, catch classes r h <> Crash s.
Proof.
  intros Hr Hh s. unfold catch. destruct r as [a|ids|e|]; try discriminate.
  rewrite (Hr e eq_refl). apply Hh.
Qed.

(* ------------------------------------------------------------------ get_as_int ranges, struct.pack *)
Lemma pow2_pos n : 0 <= n -> 0 < 2 ^ n.
Proof. intros H. apply Z.pow_pos_nonneg; lia. Qed.

Lemma gai_signed_range n v w : 0 <= n -> get_as_int (Some n) false None v = Ok w -> 0 <= w < 2 ^ n.
Proof.
  intros Hn. unfold get_as_int, get_as_int_raw, GenGetAsInt.py_pow. simpl.
  destruct (v <=? - 2 ^ n); [discriminate|].
  destruct (v >=? 2 ^ n); [discriminate|].
  unfold rz_mod, GenGetAsInt.py_mod. simpl.
  pose proof (pow2_pos n Hn) as P.
  destruct (2 ^ n =? 0) eqn:E; [apply Z.eqb_eq in E; lia|]. simpl.
  intros H; inversion H; subst. apply Z.mod_pos_bound. exact P.
Qed.

Lemma gai_no_crash bitness unsigned default v s :
  (match bitness with Some n => 0 <= n | None => True end) -> get_as_int bitness unsigned default v <> Crash s.
Proof.
  intros Hn. unfold get_as_int, get_as_int_raw, GenGetAsInt.py_pow.
  destruct (unsigned && (v <? 0))%bool; [destruct default; discriminate|].
  destruct bitness as [n|]; [|discriminate].
  destruct (v <=? - 2 ^ n); [destruct default; discriminate|].
  destruct (v >=? 2 ^ n); [destruct default; discriminate|].
  unfold rz_mod, GenGetAsInt.py_mod. simpl.
  pose proof (pow2_pos n Hn) as P.
  destruct (2 ^ n =? 0) eqn:E; [apply Z.eqb_eq in E; lia|]. simpl. discriminate.
Qed.

Lemma pack_H_ok w : 0 <= w < 65536 -> exists bs, pack_H w = Ok bs.
Proof.
  intros H. unfold pack_H.
  assert (E : ((0 <=? w) && (w <? 65536))%bool = true) by (apply andb_true_intro; split; [apply Z.leb_le|apply Z.ltb_lt]; lia).
  rewrite E. eauto.
Qed.
Lemma pack_B_ok w : 0 <= w < 256 -> exists bs, pack_B w = Ok bs.
Proof.
  intros H. unfold pack_B.
  assert (E : ((0 <=? w) && (w <? 256))%bool = true) by (apply andb_true_intro; split; [apply Z.leb_le|apply Z.ltb_lt]; lia).
  rewrite E. eauto.
Qed.

Lemma pack_word_no_crash v s : pack_word v <> Crash s.
Proof.
  unfold pack_word. destruct (get_as_int (Some 16) false None v) as [w|ids|e|] eqn:E; simpl; try discriminate.
  - apply gai_signed_range in E; [|lia]. change (2 ^ 16) with 65536 in E.
    destruct (pack_H_ok w E) as [bs ->]. discriminate.
  - exfalso. eapply gai_no_crash; [|exact E]. simpl. lia.
Qed.

Lemma pack_byte_no_crash v s : pack_byte v <> Crash s.
Proof.
  unfold pack_byte. destruct (get_as_int (Some 8) false None v) as [w|ids|e|] eqn:E; simpl; try discriminate.
  - apply gai_signed_range in E; [|lia]. change (2 ^ 8) with 256 in E.
    destruct (pack_B_ok w E) as [bs ->]. discriminate.
  - exfalso. eapply gai_no_crash; [|exact E]. simpl. lia.
Qed.

Lemma pack_dword_no_crash v s : pack_dword v <> Crash s.
Proof.
  unfold pack_dword. destruct (get_as_int (Some 32) false None v) as [w|ids|e|] eqn:E; simpl; try discriminate.
  - apply gai_signed_range in E; [|lia]. change (2 ^ 32) with 4294967296 in E.
    assert (H1 : 0 <= Z.shiftr w 16 < 65536).
    { rewrite Z.shiftr_div_pow2 by lia. change (2 ^ 16) with 65536.
      split; [apply Z.div_pos; lia | apply Z.div_lt_upper_bound; lia]. }
    assert (H2 : 0 <= Z.land w 65535 < 65536).
    { change 65535 with (Z.ones 16). rewrite Z.land_ones by lia. change (2 ^ 16) with 65536. apply Z.mod_pos_bound. lia. }
    destruct (pack_H_ok _ H1) as [hi ->]. simpl. destruct (pack_H_ok _ H2) as [lo ->]. simpl. discriminate.
  - exfalso. eapply gai_no_crash; [|exact E]. simpl. lia.
Qed.

Lemma ascii_chunk_no_crash v s : ascii_chunk v <> Crash s.
Proof.
  unfold ascii_chunk, get_as_int_raw, GenGetAsInt.py_pow. simpl.
  change (Z.pow_pos 2 8) with 256.
  assert (Z0 : pack_B 0 <> Crash s) by (vm_compute; discriminate).
  destruct (v <? 0); [exact Z0|].
  destruct (v <=? -256); [exact Z0|].
  destruct (v >=? 256); [exact Z0|].
  assert (R : 0 <= v mod 256 < 256) by (apply Z.mod_pos_bound; lia).
  destruct (pack_B_ok _ R) as [bs E]. rewrite E. discriminate.
Qed.

Lemma pack_relative_no_crash v s : pack_relative v <> Crash s.
Proof.
  unfold pack_relative, GenGetAsInt.py_mod. change (2 ^ 16) with 65536. simpl.
  assert (R : 0 <= v mod 65536 < 65536) by (apply Z.mod_pos_bound; lia).
  destruct (pack_H_ok _ R) as [bs ->]. discriminate.
Qed.

Lemma typing_ok_true : typing_ok = true.
Proof. vm_compute. reflexivity. Qed.

(* ------------------------------------------------------------------ directive one-liners and operators (Gen bodies) *)
Lemma align_no_crash addr count s : body_align addr count <> Crash s.
Proof.
  unfold body_align, rz_eqb, rb_mul, rz_mod, rz_neg, GenGetAsInt.py_mod. simpl.
  destruct (count =? 0); simpl; discriminate.
Qed.
Lemma even_no_crash addr s : body_even addr <> Crash s.
Proof. unfold body_even, rb_if, rz_eqb, rz_mod, GenGetAsInt.py_mod. simpl. destruct (addr mod 2 =? 1); discriminate. Qed.
Lemma odd_no_crash addr s : body_odd addr <> Crash s.
Proof. unfold body_odd, rb_if, rz_eqb, rz_mod, GenGetAsInt.py_mod. simpl. destruct (addr mod 2 =? 0); discriminate. Qed.

Lemma div_no_crash a b s : GenOperators.body_div a b <> Crash s.
Proof.
  unfold GenOperators.body_div, GenOperators.catch_zde, GenOperators.py_floordiv.
  destruct (Z.eqb b 0); simpl; discriminate.
Qed.
Lemma mod_no_crash a b s : GenOperators.body_mod a b <> Crash s.
Proof.
  unfold GenOperators.body_mod, GenOperators.catch_zde, GenOperators.py_mod.
  destruct (Z.eqb b 0); simpl; discriminate.
Qed.
(* shifts (fix a3755b4): times_power_of_two refuses a count beyond MAX_SHIFT with MemoryError, which the wrapper of
   compile_and_link_files (fix 291322a) turns into the reported error 'too-complex'.  That refusal is the ONLY Crash an
   operator body can return; within the bound nothing crashes. *)
Lemma tpt_crash a b s : 0 <= b -> GenOperators.fn_times_power_of_two a b = Crash s ->
  s = "MemoryError"%string /\ GenOperators.MAX_SHIFT < b.
Proof.
  intros Hb. unfold GenOperators.fn_times_power_of_two, GenOperators.py_lshift.
  destruct (Z.gtb b GenOperators.MAX_SHIFT) eqn:E.
  - intros H; inversion H. split; [reflexivity|]. rewrite Z.gtb_ltb in E. apply Z.ltb_lt in E. exact E.
  - assert (Z.ltb b 0 = false) as -> by (apply Z.ltb_ge; exact Hb). simpl. discriminate.
Qed.
Lemma tpt_ok a b : 0 <= b <= GenOperators.MAX_SHIFT -> exists z, GenOperators.fn_times_power_of_two a b = Ok z.
Proof.
  intros [H1 H2]. unfold GenOperators.fn_times_power_of_two, GenOperators.py_lshift.
  assert (Z.gtb b GenOperators.MAX_SHIFT = false) as -> by (rewrite Z.gtb_ltb; apply Z.ltb_ge; exact H2).
  assert (Z.ltb b 0 = false) as -> by (apply Z.ltb_ge; exact H1). simpl. eauto.
Qed.

Lemma lshift_crash a b s : GenOperators.body_lshift a b = Crash s -> s = "MemoryError"%string /\ GenOperators.MAX_SHIFT < b.
Proof.
  unfold GenOperators.body_lshift, GenOperators.reported_then, GenOperators.py_rshift.
  destruct (Z.geb b 0) eqn:E.
  - apply Z.geb_le in E.
    destruct (GenOperators.fn_times_power_of_two a b) as [z|ids|e|] eqn:T; simpl; try discriminate.
    intros H; inversion H; subst. eapply tpt_crash; eauto.
  - assert (Z.ltb (Z.opp b) 0 = false) as ->.
    { apply Z.ltb_ge. rewrite Z.geb_leb in E. apply Z.leb_gt in E. lia. }
    simpl. discriminate.
Qed.
Lemma lsh_crash a b s : GenOperators.body_lsh a b = Crash s -> s = "MemoryError"%string /\ GenOperators.MAX_SHIFT < b.
Proof.
  unfold GenOperators.body_lsh, GenOperators.py_rshift.
  destruct (Z.geb b 0) eqn:E.
  - apply Z.geb_le in E.
    destruct (GenOperators.fn_times_power_of_two a b) as [z|ids|e|] eqn:T; simpl; try discriminate.
    intros H; inversion H; subst. eapply tpt_crash; eauto.
  - assert (Z.ltb (Z.opp b) 0 = false) as ->.
    { apply Z.ltb_ge. rewrite Z.geb_leb in E. apply Z.leb_gt in E. lia. }
    simpl. discriminate.
Qed.
(* '>>' with a negative count reports arithmetic-error first; a refusal after that stays a reported error *)
Lemma rshift_no_crash a b s : GenOperators.body_rshift a b <> Crash s.
Proof.
  unfold GenOperators.body_rshift, GenOperators.py_rshift, GenOperators.py_assert, GenOperators.reported_then.
  destruct (Z.eqb b 0) eqn:E0; [discriminate|].
  destruct (Z.gtb b 0) eqn:E1.
  - assert (Z.ltb b 0 = false) as -> by (apply Z.ltb_ge; rewrite Z.gtb_ltb in E1; apply Z.ltb_lt in E1; lia). simpl. discriminate.
  - assert (Hb : b < 0).
    { rewrite Z.gtb_ltb in E1. apply Z.ltb_ge in E1. apply Z.eqb_neq in E0. lia. }
    assert (Z.ltb b 0 = true) as -> by (apply Z.ltb_lt; exact Hb).
    destruct (GenOperators.fn_times_power_of_two a (Z.opp b)) as [z|ids|e|]; simpl; discriminate.
Qed.
Lemma shifts_within_bound_no_crash a b s : b <= GenOperators.MAX_SHIFT ->
  GenOperators.body_lshift a b <> Crash s /\ GenOperators.body_lsh a b <> Crash s.
Proof.
  intros Hb. split; intros H; [apply lshift_crash in H|apply lsh_crash in H]; destruct H as [_ H]; lia.
Qed.

(* ------------------------------------------------------------------ chr *)
Lemma chr_caught_both : smem "ValueError" chr_caught = true /\ smem "OverflowError" chr_caught = true.
Proof. split; vm_compute; reflexivity. Qed.

Lemma site_chr_no_crash code s : site_chr code <> Crash s.
Proof.
  unfold site_chr. apply catch_no_crash; [|discriminate].
  intros e. unfold py_chr.
  destruct ((0 <=? code) && (code <? 1114112))%bool; [discriminate|].
  destruct ((-2147483648 <=? code) && (code <? 2147483648))%bool; intros H; inversion H; apply chr_caught_both.
Qed.

(* ------------------------------------------------------------------ TABLE.index, radix-50 *)
Lemma index_of_crash c t k e : index_of c t k = Crash e -> e = "ValueError"%string.
Proof.
  revert k; induction t as [|x xs IH]; intros k H; simpl in H.
  - inversion H; reflexivity.
  - destruct (N.eqb x c); [discriminate|]. eapply IH; eauto.
Qed.

Lemma rad50_caught_value : smem "ValueError" rad50_caught = true.
Proof. vm_compute. reflexivity. Qed.

Lemma site_rad50_char_no_crash c s : site_rad50_char c <> Crash s.
Proof.
  unfold site_rad50_char. apply catch_no_crash; [|discriminate].
  intros e H. destruct (128 <=? c)%N.
  - inversion H; apply rad50_caught_value.
  - unfold table_index in H. apply index_of_crash in H. subst. apply rad50_caught_value.
Qed.

Lemma nmem_In c l : nmem c l = true -> In c l.
Proof.
  induction l as [|x xs IH]; simpl; [discriminate|].
  intros H. apply orb_true_iff in H. destruct H as [H|H]; [left; apply N.eqb_eq; exact H | right; auto].
Qed.

Definition class_indexable : bool :=
  forallb (fun c => is_ok (table_index (ascii_upper c))) rad50_literal_class && is_ok (table_index 32%N).
Lemma class_indexable_true : class_indexable = true.
Proof. vm_compute. reflexivity. Qed.

Lemma class_char_ok c : nmem c rad50_literal_class = true -> exists k, table_index (ascii_upper c) = Ok k.
Proof.
  intros H. apply nmem_In in H.
  pose proof class_indexable_true as T. unfold class_indexable in T. apply andb_prop in T. destruct T as [T _].
  rewrite forallb_forall in T. specialize (T c H).
  destruct (table_index (ascii_upper c)); try discriminate. eauto.
Qed.
Lemma space_ok : exists k, table_index 32%N = Ok k.
Proof. vm_compute. eauto. Qed.

Lemma rad50_literal_no_crash (chars : list N) s :
  Forall (fun c => nmem c rad50_literal_class = true) chars -> rad50_literal chars <> Crash s.
Proof.
  intros H. destruct space_ok as [sp Hsp].
  assert (P : forall a b c, (exists k, table_index a = Ok k) -> (exists k, table_index b = Ok k) -> (exists k, table_index c = Ok k) ->
              pack_to_int [a; b; c] <> Crash s).
  { intros a b c [x Hx] [y Hy] [z Hz]. unfold pack_to_int. simpl. rewrite Hx, Hy, Hz. simpl. discriminate. }
  unfold rad50_literal.
  destruct chars as [|a [|b [|c rest]]]; simpl.
  - apply (P 32%N 32%N 32%N); eauto.
  - inversion H; subst. apply (P (ascii_upper a) 32%N 32%N); eauto using class_char_ok.
  - inversion H as [|? ? Ha H']; subst. inversion H'; subst.
    apply (P (ascii_upper a) (ascii_upper b) 32%N); eauto using class_char_ok.
  - inversion H as [|? ? Ha H']; subst. inversion H' as [|? ? Hb H'']; subst. inversion H''; subst.
    apply (P (ascii_upper a) (ascii_upper b) (ascii_upper c)); eauto using class_char_ok.
Qed.

(* ------------------------------------------------------------------ int(s, base) *)
Lemma py_int_ok s base : s <> [] -> forallb (digit_ok base) s = true -> exists z, py_int s base = Ok z.
Proof. intros Hs H. unfold py_int. destruct s; [contradiction|]. rewrite H. eauto. Qed.

Definition radix_classes_ok : bool :=
  forallb (fun row => match row with (_, cls, base) => forallb (digit_ok base) cls end) radix_classes.
Lemma radix_classes_ok_true : radix_classes_ok = true.
Proof. vm_compute. reflexivity. Qed.

Lemma forallb_sub {A} (p : A -> bool) (q : A -> bool) (l cls : list A) :
  (forall x, In x cls -> p x = true) -> (forall x, In x l -> In x cls) -> forallb p l = true.
Proof. intros Hc Hl. apply forallb_forall. intros x Hx. apply Hc. apply Hl. exact Hx. Qed.

Lemma prefixed_number_no_crash prefix cls base (digits : list N) s :
  In (prefix, cls, base) radix_classes ->
  digits <> [] -> Forall (fun c => In c cls) digits ->
  py_int digits base <> Crash s.
Proof.
  intros Hin Hne Hd.
  pose proof radix_classes_ok_true as T. unfold radix_classes_ok in T. rewrite forallb_forall in T.
  specialize (T _ Hin). simpl in T. rewrite forallb_forall in T.
  destruct (py_int_ok digits base Hne) as [z Hz]; [|rewrite Hz; discriminate].
  apply forallb_forall. intros c Hc. apply T. rewrite Forall_forall in Hd. apply Hd. exact Hc.
Qed.

Definition hex_pairs_ok : bool :=
  forallb (fun a => forallb (fun b =>
    match py_int [a; b] 16 with Ok z => (match py_chr z with Ok _ => true | _ => false end) | _ => false end)
    hex_escape_class) hex_escape_class.
Lemma hex_pairs_ok_true : hex_pairs_ok = true.
Proof. vm_compute. reflexivity. Qed.

Lemma hex_escape_no_crash a b :
  In a hex_escape_class -> In b hex_escape_class -> exists z c, py_int [a; b] 16 = Ok z /\ py_chr z = Ok c.
Proof.
  intros Ha Hb. pose proof hex_pairs_ok_true as T. unfold hex_pairs_ok in T.
  rewrite forallb_forall in T. specialize (T a Ha). rewrite forallb_forall in T. specialize (T b Hb).
  destruct (py_int [a; b] 16) as [z| | |] eqn:E1; try discriminate.
  destruct (py_chr z) as [c| | |] eqn:E2; try discriminate. exists z, c. split; [reflexivity|exact E2].
Qed.

Lemma digit_ok_of_ascii_digit base c : 10 <= base -> is_ascii_digit c = true -> digit_ok base c = true.
Proof.
  intros Hb H. unfold is_ascii_digit in H. unfold digit_ok, digit_val. rewrite H.
  apply andb_prop in H. destruct H as [H1 H2]. apply N.leb_le in H1. apply N.leb_le in H2.
  apply Z.ltb_lt. lia.
Qed.

Lemma bare_decimal_no_crash num s : decimal_guard num = true -> site_bare_decimal num <> Crash s.
Proof.
  unfold decimal_guard, site_bare_decimal. intros H. apply andb_prop in H. destruct H as [H1 H2].
  destruct num as [|c cs]; [discriminate|].
  destruct (py_int_ok (c :: cs) 10) as [z Hz]; [discriminate| |rewrite Hz; discriminate].
  apply forallb_forall. intros x Hx. rewrite forallb_forall in H1. apply digit_ok_of_ascii_digit; [lia|auto].
Qed.

Lemma nmem_false c l : nmem c l = false -> ~ In c l.
Proof.
  induction l as [|x xs IH]; simpl; [tauto|].
  intros H. apply orb_false_iff in H. destruct H as [H1 H2]. apply N.eqb_neq in H1.
  intros [E|I]; [congruence|apply IH; auto].
Qed.

Lemma bare_octal_no_crash num s : octal_guard num = true -> site_bare_octal num <> Crash s.
Proof.
  unfold octal_guard, site_bare_octal. intros H.
  apply andb_prop in H. destruct H as [H H4]. apply andb_prop in H. destruct H as [H H3].
  apply andb_prop in H. destruct H as [H1 H2].
  apply negb_true_iff in H2. apply negb_true_iff in H3.
  destruct num as [|c cs]; [discriminate|].
  destruct (py_int_ok (c :: cs) 8) as [z Hz]; [discriminate| |rewrite Hz; discriminate].
  apply forallb_forall. intros x Hx. rewrite forallb_forall in H1. specialize (H1 x Hx).
  pose proof (nmem_false _ _ H2) as N8. pose proof (nmem_false _ _ H3) as N9.
  assert (x <> 56%N) by (intros ->; auto). assert (x <> 57%N) by (intros ->; auto).
  unfold is_ascii_digit in H1. unfold digit_ok, digit_val. rewrite H1.
  apply andb_prop in H1. destruct H1 as [A B]. apply N.leb_le in A. apply N.leb_le in B.
  apply Z.ltb_lt. lia.
Qed.

(* the lexer only hands ASCII characters to num.isdigit(): there str.isdigit is "in 0..9" *)
Lemma local_symbol_class_ascii : forallb (fun c => (c <? 128)%N) local_symbol_class = true.
Proof. vm_compute. reflexivity. Qed.

Lemma c_style_no_crash digits base s : site_c_style digits base <> Crash s.
Proof.
  unfold site_c_style. apply catch_no_crash; [|discriminate].
  intros e H. unfold py_int in H. destruct digits; [inversion H; reflexivity|].
  destruct (forallb (digit_ok base) (n :: digits)); [discriminate|inversion H; reflexivity].
Qed.

(* ------------------------------------------------------------------ dictionary lookups *)
Lemma smem_In s l : In s l -> smem s l = true.
Proof.
  induction l as [|x xs IH]; simpl; [tauto|]. intros [E|I].
  - subst. rewrite String.eqb_refl. reflexivity.
  - rewrite (IH I). apply orb_true_r.
Qed.

Definition stub_chars_ok : bool :=
  forallb (fun c => smem c reg_stub_keys) reg_stub_chars && forallb (fun c => smem c acc_stub_keys) acc_stub_chars.
Lemma stub_chars_ok_true : stub_chars_ok = true.
Proof. vm_compute. reflexivity. Qed.

Lemma reg_lookup_no_crash c s : In c reg_stub_chars -> dict_lookup reg_stub_keys c <> Crash s.
Proof.
  intros H. pose proof stub_chars_ok_true as T. unfold stub_chars_ok in T. apply andb_prop in T. destruct T as [T _].
  rewrite forallb_forall in T. unfold dict_lookup. rewrite (T c H). discriminate.
Qed.
Lemma acc_lookup_no_crash c s : In c acc_stub_chars -> dict_lookup acc_stub_keys c <> Crash s.
Proof.
  intros H. pose proof stub_chars_ok_true as T. unfold stub_chars_ok in T. apply andb_prop in T. destruct T as [_ T].
  rewrite forallb_forall in T. unfold dict_lookup. rewrite (T c H). discriminate.
Qed.
