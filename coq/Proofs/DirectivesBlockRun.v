(* Directives one after another and inside .repeat: the running-address model (Model/DirectivesSeq.v
   block_run / repeat_run / items_run) against Spec/DataBlockSpec.v items_image. *)
From Coq Require Import String List ZArith NArith ZifyBool Lia Bool.
From Verif Require Import Base.Res Base.Bytes Gen.GenGetAsInt Gen.GenMeta Model.Directives Model.DirectivesSeq
  Spec.DataSpec Spec.DataBlockSpec
  Proofs.DirectivesGai Proofs.DirectivesData Proofs.DirectivesAnnounce Proofs.DirectivesFill Proofs.DirectivesSpec
  Proofs.DirectivesBlock.
Import ListNotations.
Open Scope string_scope.
Open Scope list_scope.
Open Scope Z_scope.

Lemma existsb_errors ds : existsb is_error ds = false -> errors ds = [].
Proof.
  induction ds as [|d ds IH]; [reflexivity|]. cbn [existsb]. intros H. apply orb_false_elim in H. destruct H as [H1 H2].
  unfold errors. cbn [filter]. rewrite H1. apply IH. exact H2.
Qed.

Lemma zlen_app a b : zlen (a ++ b) = zlen a + zlen b.
Proof. unfold zlen. rewrite app_length. lia. Qed.

(* ---- runners: something that, started at an address, gives an outcome and the address after it ---- *)
Definition runner := Z -> out * Z.
Definition spec := Z -> option (list Z).

(* the runner does what the spec states: the stated image without any error and the address right after it,
   or a refusal *)
Definition good (r : runner) (s : spec) : Prop :=
  forall addr,
    match s addr with
    | Some img => exists dg a', r addr = (Out dg img, a') /\ a' = addr + zlen img /\ existsb is_error dg = false
    | None => observe (fst (r addr)) = Refused
    end.

Definition seq_run (r1 r2 : runner) : runner := fun addr =>
  match r1 addr with
  | (Out dg bs, a') => let (o, a'') := r2 a' in (after dg bs o, a'')
  | (o, a') => (o, a')
  end.

Definition seq_spec (s1 s2 : spec) : spec := fun addr =>
  match s1 addr with
  | None => None
  | Some bs => match s2 (addr + zlen bs) with None => None | Some tl => Some (bs ++ tl) end
  end.

Lemma good_nocrash r s addr : good r s -> observe (fst (r addr)) <> Crashing.
Proof.
  intros G. specialize (G addr). destruct (s addr) as [img|].
  - destruct G as [dg [a' [-> [_ He]]]]. cbn [fst observe]. rewrite He. discriminate.
  - rewrite G. discriminate.
Qed.

Lemma good_nil : good (fun a => (Out [] [], a)) (fun _ => Some []).
Proof. intros addr. exists [], addr. repeat split. unfold zlen. simpl. lia. Qed.

Lemma good_seq r1 r2 s1 s2 : good r1 s1 -> good r2 s2 -> good (seq_run r1 r2) (seq_spec s1 s2).
Proof.
  intros G1 G2 addr. unfold seq_run, seq_spec. pose proof (G1 addr) as H1.
  destruct (s1 addr) as [bs|].
  - destruct H1 as [dg [a' [E1 [Ea He]]]]. rewrite E1. subst a'.
    pose proof (G2 (addr + zlen bs)) as H2.
    destruct (s2 (addr + zlen bs)) as [tl|].
    + destruct H2 as [dg' [a'' [E2 [Ea' He']]]]. rewrite E2. cbn [after].
      exists (dg ++ dg'), a''. split; [reflexivity|]. split; [rewrite zlen_app; lia|].
      rewrite existsb_app, He, He'. reflexivity.
    + destruct (r2 (addr + zlen bs)) as [o a''] eqn:E2. cbn [fst] in *. apply observe_after_refused. exact H2.
  - destruct (r1 addr) as [o1 a'] eqn:E1. cbn [fst] in H1.
    destruct o1 as [dg bs|dg|s].
    + pose proof (good_nocrash r2 s2 a' G2) as NC. destruct (r2 a') as [o a''] eqn:E2. cbn [fst] in *.
      apply observe_after_error; [|exact NC].
      cbn [observe] in H1. destruct (existsb is_error dg); [reflexivity|discriminate].
    + exact H1.
    + discriminate H1.
Qed.

Section WithCodec.
Variable enc : list N -> option (list Z).

Definition embedl (d : sdirl) : xdirective :=
  match d with
  | SPlain d => XD (embed d)
  | SDataL w ops => XLit (vname w) (map operand_of ops)
  end.

Definition embed_item (it : sitem) : xitem :=
  match it with
  | SOne d => XOne (embedl d)
  | SRepeat n body => XRepeat n (map embedl body)
  end.

(* ---- one directive ----------------------------------------------------------------------------- *)
Lemma plain_exact d addr bs : stated_image enc d addr = Some bs ->
  exists dg, emit enc (embed d) addr = Out dg bs /\ existsb is_error dg = false.
Proof.
  intros S. pose proof (model_meets_spec enc d addr) as M.
  assert (MR : must_refuse enc d addr = false).
  { unfold stated_image in S. destruct (must_refuse enc d addr); [discriminate|reflexivity]. }
  destruct (emit enc (embed d) addr) as [dg bs'|dg|s]; cbn [observe] in M.
  - destruct (existsb is_error dg) eqn:He; cbn [meets] in M; rewrite MR in M; [discriminate|].
    cbn [negb andb] in M. pose proof (allowed_unique enc d addr bs' MR M) as U. rewrite S in U.
    apply some_eq in U. subst bs'. exists dg. split; [reflexivity|exact He].
  - destruct (existsb is_error dg); cbn [meets] in M; [rewrite MR in M|]; discriminate.
  - discriminate.
Qed.

Lemma plain_refused d addr : stated_image enc d addr = None -> observe (emit enc (embed d) addr) = Refused.
Proof.
  intros S. pose proof (model_meets_spec enc d addr) as M.
  assert (MR : must_refuse enc d addr = true).
  { unfold stated_image in S. destruct (must_refuse enc d addr); [reflexivity|discriminate]. }
  destruct (observe (emit enc (embed d) addr)); cbn [meets] in M; [rewrite MR in M; discriminate|reflexivity|discriminate].
Qed.

Lemma emitx_exact d addr bs : stated_imagel enc d addr = Some bs ->
  exists dg, emitx enc (embedl d) addr = Out dg bs /\ existsb is_error dg = false.
Proof.
  destruct d as [d|w ops]; cbn [stated_imagel embedl emitx].
  - apply plain_exact.
  - destruct (operands_values enc ops) as [vs|] eqn:V; [|discriminate]. intros S.
    rewrite (literal_clean enc w ops vs addr V). apply (plain_exact (SData w vs)). exact S.
Qed.

Lemma emitx_refused d addr : stated_imagel enc d addr = None -> observe (emitx enc (embedl d) addr) = Refused.
Proof.
  destruct d as [d|w ops]; cbn [stated_imagel embedl emitx].
  - apply plain_refused.
  - destruct (operands_values enc ops) as [vs|] eqn:V.
    + intros S. rewrite (literal_clean enc w ops vs addr V). apply (plain_refused (SData w vs)). exact S.
    + intros _. apply literal_refused. exact V.
Qed.

(* the address advances by the announced size, which is the number of bytes *)
Lemma step_exact d addr dg bs :
  emitx enc (embedl d) addr = Out dg bs -> existsb is_error dg = false ->
  match announcedx enc (embedl d) with Some sz => sz | None => Z.of_nat (length bs) end = zlen bs.
Proof.
  intros E He. destruct d as [d|w ops]; cbn [embedl emitx announcedx] in *.
  - destruct (announced (embed d)) as [sz|] eqn:A; [|reflexivity].
    symmetry. apply (announce_eq_emit enc (embed d) addr dg bs sz E (existsb_errors dg He) A).
  - destruct (announced (DMeta (vname w) (map (fun o => (false, value_of enc o)) (map operand_of ops)))) as [sz|] eqn:A; [|reflexivity].
    rewrite emit_lit_value in E. apply after_out in E. destruct E as [ds' [bs' [E [-> ->]]]].
    rewrite existsb_app in He. apply orb_false_elim in He. destruct He as [_ He].
    symmetry. cbn [app]. apply (announce_eq_emit enc _ addr ds' bs' sz E (existsb_errors ds' He) A).
Qed.

Definition single (d : xdirective) : runner := fun addr =>
  match emitx enc d addr with
  | Out dg bs => (Out dg bs, addr + match announcedx enc d with Some sz => sz | None => Z.of_nat (length bs) end)
  | Raised dg => (Raised dg, addr)
  | Crashed s => (Crashed s, addr)
  end.

Lemma good_single d : good (single (embedl d)) (stated_imagel enc d).
Proof.
  intros addr. unfold single. destruct (stated_imagel enc d addr) as [bs|] eqn:S.
  - destruct (emitx_exact d addr bs S) as [dg [E He]]. rewrite E.
    exists dg, (addr + zlen bs). split; [|split; [reflexivity|exact He]].
    rewrite (step_exact d addr dg bs E He). reflexivity.
  - pose proof (emitx_refused d addr S) as R. destruct (emitx enc (embedl d) addr); exact R.
Qed.

(* ---- a block, a .repeat, a program -------------------------------------------------------------- *)
Lemma block_run_cons d rest addr :
  block_run enc (d :: rest) addr = seq_run (single d) (block_run enc rest) addr.
Proof.
  unfold seq_run, single. cbn [block_run]. destruct (emitx enc d addr) as [dg bs|dg|s]; reflexivity.
Qed.

Lemma good_block ds : good (block_run enc (map embedl ds)) (seq_image enc ds).
Proof.
  induction ds as [|d ds IH].
  - apply good_nil.
  - intros addr. cbn [map]. rewrite block_run_cons. apply (good_seq _ _ _ _ (good_single d) IH addr).
Qed.

Lemma good_repeat n body : good (repeat_run enc n (map embedl body)) (rep_image enc n body).
Proof.
  induction n as [|k IH].
  - apply good_nil.
  - intros addr. apply (good_seq _ _ _ _ (good_block body) IH addr).
Qed.

Lemma good_item it : good (item_run enc (embed_item it)) (item_image enc it).
Proof.
  destruct it as [d|n body]; cbn [embed_item item_run item_image].
  - intros addr. cbn [item_image item_run]. pose proof (good_block [d] addr) as G. cbn [map seq_image] in G.
    destruct (stated_imagel enc d addr) as [bs|]; [rewrite app_nil_r in G|]; exact G.
  - intros addr. cbn [item_image item_run]. rewrite gai_uint. destruct (n <? 0) eqn:N.
    + reflexivity.
    + apply good_repeat.
Qed.

Lemma good_items its : good (items_run enc (map embed_item its)) (items_image enc its).
Proof.
  induction its as [|it its IH].
  - apply good_nil.
  - intros addr. apply (good_seq _ _ _ _ (good_item it) IH addr).
Qed.

(* the program meets the Spec: every copy of every directive stores its stated image at the address where
   the bytes before it end, or the program is refused *)
Theorem items_meet_spec its addr :
  meets_items enc its addr (observe (fst (items_run enc (map embed_item its) addr))) = true.
Proof.
  pose proof (good_items its addr) as G. unfold meets_items.
  destruct (items_image enc its addr) as [img|].
  - destruct G as [dg [a' [-> [_ He]]]]. cbn [fst observe]. rewrite He. apply bytes_eqb_refl.
  - rewrite G. reflexivity.
Qed.

(* `.repeat n { body }` is the body written out n times, for the model as for the Spec *)
Theorem repeat_is_unrolled n body addr img :
  rep_image enc n body addr = Some img ->
  exists dg, fst (repeat_run enc n (map embedl body) addr) = Out dg img /\ existsb is_error dg = false.
Proof.
  intros S. pose proof (good_repeat n body addr) as G. rewrite S in G.
  destruct G as [dg [a' [E [_ He]]]]. exists dg. rewrite E. split; [reflexivity|exact He].
Qed.

End WithCodec.
