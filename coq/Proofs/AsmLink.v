(* Several files given to the linker (Model/AsmT.link): the placed statements are the files' blocks, one after the
   other, each block the flattening of its file up to that file's End. *)
From Coq Require Import ZArith List String Ascii Bool NArith Lia.
From Verif Require Import Base.Res Spec.Arith Model.Asm Model.AsmT Proofs.AsmP Proofs.AsmMeta Proofs.AsmMove Proofs.AsmSup.
Import ListNotations.
Notation length := Datatypes.length.
Notation concat := List.concat.
Open Scope string_scope.
Open Scope list_scope.
Open Scope Z_scope.

Lemma flat_app_inv cnt a : forall b c d b', flat cnt b (a ++ c) d b' ->
  exists d1 d2 b1, d = d1 ++ d2 /\ flat cnt b a d1 b1 /\ flat cnt b1 c d2 b'.
Proof.
  induction a as [|x a IH]; intros b c d b' H.
  - exists [], d, b. split; [reflexivity|]. split; [constructor|exact H].
  - cbn [app] in H. inversion H; subst;
      match goal with Hf : flat _ _ (a ++ c) _ _ |- _ => destruct (IH _ _ _ _ Hf) as [d1 [d2 [bb [-> [F1 F2]]]]] end.
    + exists (x :: d1), d2, bb. split; [reflexivity|]. split; [constructor; auto|exact F2].
    + exists (Link e :: d1), d2, bb. split; [reflexivity|]. split; [apply flat_link; exact F1|exact F2].
    + exists (Skip e :: d1), d2, bb. split; [reflexivity|]. split; [apply flat_skip; exact F1|exact F2].
    + exists (Link e :: d1), d2, bb. split; [reflexivity|]. split; [apply flat_base; exact F1|exact F2].
    + exists (concat copies ++ d1), d2, bb. split; [rewrite app_assoc; reflexivity|]. split; [constructor; auto|exact F2].
    + exists (d0 ++ d1), d2, bb. split; [rewrite app_assoc; reflexivity|]. split; [econstructor; eauto|exact F2].
Qed.

Definition linked (fb : nat * program) : stmt := Include false (fst fb) (snd fb).

Lemma flat_linked cnt rest : forall b d b', flat cnt b (map linked rest) d b' ->
  exists ds, d = concat ds /\ Forall2 (fun fb dk => exists b0 b1, flat cnt b0 (cut_end (snd fb)) dk b1) rest ds.
Proof.
  induction rest as [|fb rest IH]; intros b d b' H; simpl in H.
  - inversion H; subst. exists []. split; [reflexivity|constructor].
  - inversion H; subst; try discriminate.
    match goal with Hf : flat _ _ (map linked rest) _ _ |- _ => destruct (IH _ _ _ Hf) as [ds [-> F]] end.
    exists (d0 :: ds). split; [reflexivity|]. constructor; [eauto|exact F].
Qed.

Lemma cut_end_linked rest : cut_end (map linked rest) = map linked rest.
Proof. induction rest as [|fb r IH]; simpl; [reflexivity|]. rewrite IH. reflexivity. Qed.

Lemma map_eq_concat {A B} (f : A -> B) : forall (ds : list (list B)) (l : list A), map f l = concat ds ->
  exists ls, l = concat ls /\ map (map f) ls = ds.
Proof.
  induction ds as [|d ds IH]; intros l H; simpl in H.
  - apply map_eq_nil in H. subst. exists []. auto.
  - apply map_eq_app in H. destruct H as [l1 [l2 [-> [H1 H2]]]]. destruct (IH _ H2) as [ls [-> E]].
    exists (l1 :: ls). simpl. split; [reflexivity|]. congruence.
Qed.

Theorem link_blocks enc f1 rest f : assemble_full enc (link f1 rest) = XOk f ->
  let q := link f1 rest in
  let cnt := layout_count enc (collect_defs 0 0 q) (collect_keys 0 0 q) (f_exports f) (S (length (collect_defs 0 0 q))) in
  exists I1 Is,
    f_items f = I1 ++ concat Is /\
    (exists b1, flat cnt false (cut_end f1) (map i_stmt I1) b1) /\
    Forall2 (fun fb Ik => exists b0 b1, flat cnt b0 (cut_end (snd fb)) (map i_stmt Ik) b1) rest Is.
Proof.
  intros H q cnt. destruct (layout_thm _ _ _ H) as [_ [[b' F] _]].
  assert (Eq : cut_end (link f1 rest) = link f1 rest).
  { unfold link. rewrite (cut_end_noend_app _ (cut_end_noend f1)). fold linked. rewrite cut_end_linked. reflexivity. }
  rewrite Eq in F. fold q cnt in F. unfold q, link in F. fold linked in F.
  destruct (flat_app_inv _ _ _ _ _ _ F) as [d1 [d2 [b1 [E [F1 F2]]]]].
  destruct (flat_linked _ _ _ _ _ F2) as [ds [-> FD]].
  apply map_eq_app in E. destruct E as [I1 [I2 [EI [E1 E2]]]]. destruct (map_eq_concat _ _ _ E2) as [Is [-> EIs]].
  exists I1, Is. split; [exact EI|]. split; [exists b1; rewrite E1; exact F1|].
  subst ds. clear - FD. revert FD. generalize rest. induction Is as [|Ik Is IH]; intros r FD; inversion FD; subst; constructor; auto.
Qed.

(* ---- whose names: every placed statement of a file's block is evaluated in that file (or in a file it includes) *)
Section Files.
Variable enc : list N -> option (list Z).
Variable D : list defn.
Variable allkeys : list key.
Variable exports : list (string * nat).
Variable fuel : nat.
Notation layL := (lay_leaf enc D allkeys exports fuel).
Notation layS := (lay_stmt enc D allkeys exports fuel).
Notation layl := (lay_list enc D allkeys exports fuel).

Lemma lay_leaf_file inrep s st st' d : layL inrep s st = XOk (st', d) -> forall it, In it d -> fst (i_scope it) = l_file st.
Proof.
  intros H. destruct (lay_leaf_ext _ _ _ _ _ _ _ _ _ _ H) as [it0 [-> _]]. intros it [<-|[]].
  unfold Asm.lay_leaf in H.
  destruct s; try discriminate;
    try (cbn [sized_size] in H; xinv H; inversion H; subst; reflexivity).
  - destruct inrep; [discriminate|]. destruct (_ || _); [discriminate|]. inversion H; subst. reflexivity.
  - destruct inrep; [discriminate|]. destruct (kmem _ _); [discriminate|]. inversion H; subst. reflexivity.
  - destruct inrep; [discriminate|]. destruct (_ || _); [discriminate|]. inversion H; subst. reflexivity.
  - destruct inrep; [discriminate|]. destruct (l_inc st); [discriminate|]. destruct (l_based st); [discriminate|]. inversion H; subst. reflexivity.
  - destruct (l_inc st); [discriminate|]. destruct (l_based st).
    + xinv H. inversion H; subst. reflexivity.
    + destruct inrep; [discriminate|]. inversion H; subst. reflexivity.
  - destruct inrep; [discriminate|]. inversion H; subst. reflexivity.
  - destruct inrep; [discriminate|]. inversion H; subst. reflexivity.
Qed.

Definition in_files (f : nat) (ids : list nat) (d : list item) : Prop :=
  Forall (fun it => fst (i_scope it) = f \/ In (fst (i_scope it)) ids) d.

Lemma in_files_mono f ids ids' d : (forall x, In x ids -> In x ids') -> in_files f ids d -> in_files f ids' d.
Proof. intros H. apply Forall_impl. intros it [E|E]; auto. Qed.

Definition stmt_files (s : stmt) : Prop :=
  forall inrep st st' d, layS inrep s st = XOk (st', d) -> in_files (l_file st) (file_ids_stmt s) d.

Lemma list_files l : Forall stmt_files l -> forall inrep st st' d, layl inrep l st = XOk (st', d) ->
  in_files (l_file st) (file_ids l) d.
Proof.
  induction 1 as [|x r Hx _ IH]; intros inrep st st' d H; simpl in H.
  - inversion H; subst. constructor.
  - xinv H. destruct a as [s1 d1]. destruct a0 as [s2 d2]. simpl in *. inversion H; subst.
    pose proof (frame_stmt enc D allkeys exports fuel x _ _ _ _ Ha) as [F _ _ _ _ _ _].
    apply Forall_app. split.
    + eapply in_files_mono; [|eapply Hx; eauto]. intros y Hy. unfold file_ids. simpl. apply in_or_app. auto.
    + rewrite <- F. eapply in_files_mono; [|eapply IH; eauto]. intros y Hy. unfold file_ids. simpl. apply in_or_app. auto.
Qed.

Lemma file_ids_go_nested body :
  (fix go (l : list stmt) : list nat := match l with [] => [] | x :: r => file_ids_stmt x ++ go r end) body = file_ids body.
Proof. induction body as [|x r IH]; simpl; [reflexivity|]. unfold file_ids in *. simpl. congruence. Qed.
Lemma file_ids_go_cut body :
  (fix go (l : list stmt) : list nat := match l with [] => [] | End :: _ => [] | x :: r => file_ids_stmt x ++ go r end) body
  = file_ids (cut_end body).
Proof. induction body as [|x r IH]; [reflexivity|]. destruct x; simpl; unfold file_ids in *; simpl; rewrite ?IH; reflexivity. Qed.

Lemma iter_files body : Forall stmt_files body -> forall n st st' d,
  iter_x n (layl true body) st = XOk (st', d) -> in_files (l_file st) (file_ids body) d.
Proof.
  intros Hb. induction n as [|n IH]; intros st st' d H; simpl in H.
  - inversion H; subst. constructor.
  - xinv H. destruct a as [s1 d1]. destruct a0 as [s2 d2]. simpl in *. inversion H; subst.
    destruct (file_inc_list enc D allkeys exports fuel _ _ _ _ _ Ha) as [F _].
    apply Forall_app. split; [eapply list_files; eauto|]. rewrite <- F. eapply IH; eauto.
Qed.

Lemma stmt_files_all s : stmt_files s.
Proof.
  induction s as [ce body IH | own fid body IH | s Hs] using stmt_ind2; intros inrep st st' d H.
  - rewrite lay_stmt_repeat in H. xinv H. destruct (65536 <? a0); [discriminate|]. cbn [file_ids_stmt]. rewrite file_ids_go_nested. eapply iter_files; eauto.
  - destruct inrep; [discriminate|]. rewrite lay_stmt_include in H. xinv H. destruct a as [s1 d1]. simpl in H. inversion H; subst.
    pose proof (list_files _ (Forall_cut_end _ _ IH) _ _ _ _ Ha) as G. simpl in G.
    cbn [file_ids_stmt]. rewrite file_ids_go_cut. eapply Forall_impl; [|exact G].
    intros it [E|E]; right; [left; symmetry; exact E|right; exact E].
  - rewrite lay_stmt_leaf in H by exact Hs. intros. apply Forall_forall. intros it Hi. left. eapply lay_leaf_file; eauto.
Qed.

Lemma program_files l inrep st st' d : layl inrep l st = XOk (st', d) -> in_files (l_file st) (file_ids l) d.
Proof. apply list_files. apply Forall_forall. intros x _. apply stmt_files_all. Qed.

(* the blocks of the files linked after the program file *)
Definition block_of (fb : nat * program) (Ik : list item) : Prop :=
  (exists b0 b1, flat (layout_count enc D allkeys exports fuel) b0 (cut_end (snd fb)) (map i_stmt Ik) b1) /\
  in_files (fst fb) (file_ids (cut_end (snd fb))) Ik /\
  exists a a', chain a Ik a'.

Lemma lay_linked rest : forall st st' d, layl false (map linked rest) st = XOk (st', d) ->
  exists Is, d = concat Is /\ Forall2 block_of rest Is /\ chain (l_addr st) d (l_addr st').
Proof.
  induction rest as [|fb rest IH]; intros st st' d H; cbn [map Asm.lay_list] in H.
  - inversion H; subst. exists []. split; [reflexivity|]. split; [constructor|reflexivity].
  - xinv H. destruct a as [s1 d1]. destruct a0 as [s2 d2]. cbn [fst snd] in *. inversion H; subst.
    destruct (IH _ _ _ Ha0) as [Is [-> [FB C2]]].
    unfold linked in Ha. rewrite lay_stmt_include in Ha. xinv Ha. destruct a as [s0 d0]. cbn [fst snd] in Ha. inversion Ha; subst.
    cbn [l_addr] in C2.
    destruct (lay_program_ext _ _ _ _ _ _ _ _ _ _ Ha1) as [[C1 _ _] F1]. cbn [l_addr] in C1.
    exists (d1 :: Is). split; [reflexivity|]. split.
    + constructor; [|exact FB]. split; [eauto|]. split; [|eauto].
      pose proof (program_files _ _ _ _ _ Ha1) as G. cbn [l_file] in G. exact G.
    + cbn [concat]. eapply chain_app; eauto.
Qed.
End Files.

Theorem link_is_concat enc f1 rest f : assemble_full enc (link f1 rest) = XOk f ->
  let q := link f1 rest in
  let D := collect_defs 0 0 q in let K := collect_keys 0 0 q in let fuel := S (length D) in
  exists I1 Is a1,
    f_items f = I1 ++ concat Is /\
    (exists b1, flat (layout_count enc D K (f_exports f) fuel) false (cut_end f1) (map i_stmt I1) b1) /\
    in_files 0 (file_ids (cut_end f1)) I1 /\ chain (f_base f) I1 a1 /\
    Forall2 (block_of enc D K (f_exports f) fuel) rest Is /\ (exists a2, chain a1 (concat Is) a2).
Proof.
  intros H q D K fuel.
  assert (Eq : cut_end (link f1 rest) = link f1 rest).
  { unfold link. rewrite (cut_end_noend_app _ (cut_end_noend f1)). fold linked. rewrite cut_end_linked. reflexivity. }
  destruct (assemble_full_inv _ _ _ H) as [st [dv [Hx [_ [Hl _]]]]]. rewrite Eq in Hl, Hx. fold q D K fuel in Hl, Hx.
  unfold q, link in Hl. fold linked in Hl. rewrite lay_list_app in Hl. xinv Hl. destruct a as [s1 I1]. destruct a0 as [s2 I2].
  cbn [fst snd] in *. inversion Hl; subst. rewrite Hx.
  destruct (lay_program_ext _ _ _ _ _ _ _ _ _ _ Ha) as [[C1 _ _] F1]. cbn [l_addr l_based] in C1, F1.
  destruct (lay_linked _ _ _ _ _ _ _ _ _ Ha0) as [Is [-> [FB C2]]].
  exists I1, Is, (l_addr s1). split; [reflexivity|]. split; [eauto|]. split.
  - pose proof (program_files _ _ _ _ _ _ _ _ _ _ Ha) as G. cbn [l_file] in G. exact G.
  - split; [exact C1|]. split; [exact FB|eauto].
Qed.
