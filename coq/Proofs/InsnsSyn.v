(* Proofs/InsnsSyn.v -- synonyms (C01): mnemonics with the same canonical meaning assemble to the
   same words for all operands and addresses; pseudo-instructions equal their expansion. *)
From Coq Require Import ZArith List String Ascii Bool Lia ZifyBool.
From Verif Require Import Base.Res Base.Range Spec.PDP11 Gen.GenOpcodes Model.Insns Proofs.InsnsCheck Proofs.InsnsP Proofs.InsnsMain.
Import ListNotations.
Open Scope string_scope.
Open Scope list_scope.
Open Scope Z_scope.

Definition entry_of (m : string) : option insn :=
  match lookup_pat m opcode_table with
  | Some pat => match init_entry pat with Ok i => Some i | _ => None end
  | None => None
  end.

Lemma compile_insn_entry m i ops addr : entry_of m = Some i -> compile_insn m ops addr = compile_with i ops addr.
Proof.
  unfold entry_of, compile_insn. destruct (lookup_pat m opcode_table); try discriminate.
  destruct (init_entry s); try discriminate. intros H; inv H. reflexivity.
Qed.

Definition res_eqb (a b : res Z) : bool := match a, b with Ok x, Ok y => x =? y | _, _ => false end.
Lemma res_eqb_eq a b : res_eqb a b = true -> a = b.
Proof. destruct a, b; simpl; try discriminate. intros H. apply Z.eqb_eq in H. congruence. Qed.

(* ------------------------------------------------------------------------------------------ *)
(* plain synonyms *)
Definition sig (st : stub) : stub_kind * nat * bool := (sk st, List.length (bit_indexes st), unsigned_ st).

Definition sk_eqb (a b : stub_kind) : bool :=
  match a, b with
  | SkRegister, SkRegister | SkRegMode, SkRegMode | SkFpRM, SkFpRM | SkFpAcc, SkFpAcc
  | SkOffset, SkOffset | SkImmediate, SkImmediate => true
  | _, _ => false
  end.
Lemma sk_eqb_eq a b : sk_eqb a b = true -> a = b.
Proof. destruct a, b; simpl; congruence. Qed.

Definition sig_eqb (a b : stub) : bool :=
  sk_eqb (sk a) (sk b) && Nat.eqb (List.length (bit_indexes a)) (List.length (bit_indexes b)) &&
  Bool.eqb (unsigned_ a) (unsigned_ b).
Lemma sig_eqb_eq a b : sig_eqb a b = true -> sig a = sig b.
Proof.
  unfold sig_eqb, sig. intros H. apply andb_true_iff in H. destruct H as [H H3].
  apply andb_true_iff in H. destruct H as [H1 H2].
  apply sk_eqb_eq in H1. apply Nat.eqb_eq in H2. apply Bool.eqb_prop in H3. congruence.
Qed.

Fixpoint sigs_eqb (a b : list stub) : bool :=
  match a, b with
  | [], [] => true
  | x :: a', y :: b' => sig_eqb x y && sigs_eqb a' b'
  | _, _ => false
  end.

Lemma enc_stub_sig st st' o rel : sig st = sig st' -> enc_stub st o rel = enc_stub st' o rel.
Proof.
  unfold sig. intros H. injection H as H1 H2 H3.
  unfold enc_stub, enc_fpacc, bitness. rewrite H1, H2, H3. reflexivity.
Qed.

Lemma enc_operands_sig sts : forall sts' ops addr ext0, sigs_eqb sts sts' = true ->
  enc_operands sts ops addr ext0 = enc_operands sts' ops addr ext0 /\ List.length sts = List.length sts'.
Proof.
  induction sts as [|st sts IH]; destruct sts' as [|st' sts']; simpl; intros ops addr ext0 H; try discriminate.
  - auto.
  - apply andb_true_iff in H. destruct H as [H1 H2]. apply sig_eqb_eq in H1.
    destruct ops as [|o ops]; [split; [reflexivity | f_equal; apply (IH sts' [] addr ext0 H2)]|].
    rewrite (enc_stub_sig _ _ _ _ H1). split.
    + destruct (enc_stub st' o _) as [ve| | |]; cbn [bind]; try reflexivity.
      destruct (IH sts' ops addr (ext0 ++ snd ve) H2) as [-> _]. reflexivity.
    + f_equal. apply (IH sts' [] addr ext0 H2).
Qed.

Definition canon_eqb (a b : option (string * list cst * list cst)) : bool :=
  match a, b with
  | Some (n, p, q), Some (n', p', q') =>
      String.eqb n n' && Nat.eqb (List.length p) (List.length p') && Nat.eqb (List.length q) (List.length q')
      && Nat.eqb (List.length p + List.length q) 0
  | _, _ => false
  end.

(* same canonical operation, nothing supplied: a plain synonym *)
Definition plain_syn (m m' : string) : Prop :=
  exists n, canon m = Some (n, [], []) /\ canon m' = Some (n, [], []).

Lemma canon_eqb_plain m m' : plain_syn m m' -> canon_eqb (canon m) (canon m') = true.
Proof. intros [n [-> ->]]. simpl. rewrite String.eqb_refl. reflexivity. Qed.

Definition syn_ok (e e' : string * string) : bool :=
  match init_entry (snd e), init_entry (snd e') with
  | Ok i, Ok i' =>
      sigs_eqb (stubs i) (stubs i') &&
      match shapes (stubs i) with
      | Some ks => forallb (fun vals => res_eqb (get_opcode (opcode_pattern i) (combine (stubs i) vals))
                                                (get_opcode (opcode_pattern i') (combine (stubs i') vals))) (enum ks)
      | None => false
      end
  | _, _ => false
  end.

Definition all_syn_ok_on (tbl : list (string * string)) : bool :=
  let cs := map (fun e => (e, canon (fst e))) tbl in
  forallb (fun a => forallb (fun b => if canon_eqb (snd a) (snd b) then syn_ok (fst a) (fst b) else true) cs) cs.

(* generic in the table, so that no proof step ever has to unfold the 252 entries *)
Lemma all_syn_ok_on_spec tbl : all_syn_ok_on tbl = true ->
  forall e e', In e tbl -> In e' tbl -> canon_eqb (canon (fst e)) (canon (fst e')) = true -> syn_ok e e' = true.
Proof.
  unfold all_syn_ok_on. intros A e e' I1 I2 C.
  rewrite forallb_forall in A.
  assert (J1 : In (e, canon (fst e)) (map (fun e => (e, canon (fst e))) tbl)) by (apply in_map_iff; exists e; auto).
  assert (J2 : In (e', canon (fst e')) (map (fun e => (e, canon (fst e))) tbl)) by (apply in_map_iff; exists e'; auto).
  specialize (A _ J1). rewrite forallb_forall in A. specialize (A _ J2).
  cbn [fst snd] in A. rewrite C in A. exact A.
Qed.

Lemma all_syn_ok_true : all_syn_ok_on opcode_table = true.
Proof. vm_compute. reflexivity. Qed.

Lemma syn_ok_sound m pat m' pat' i ks :
  syn_ok (m, pat) (m', pat') = true -> init_entry pat = Ok i -> shapes (stubs i) = Some ks ->
  exists i', init_entry pat' = Ok i' /\ sigs_eqb (stubs i) (stubs i') = true /\
    forall vals, Forall2 in_range ks vals ->
      get_opcode (opcode_pattern i) (combine (stubs i) vals) = get_opcode (opcode_pattern i') (combine (stubs i') vals).
Proof.
  unfold syn_ok. cbn [snd]. intros A Hi Hs. rewrite Hi in A.
  destruct (init_entry pat') as [i'| | |]; try discriminate.
  apply andb_true_iff in A. destruct A as [A1 A2]. rewrite Hs in A2.
  exists i'. split; [reflexivity|]. split; [exact A1|].
  intros vals R. rewrite forallb_forall in A2. apply res_eqb_eq. apply A2. apply enum_complete. exact R.
Qed.

Theorem synonyms_plain m m' pat pat' ops addr :
  lookup_pat m opcode_table = Some pat -> lookup_pat m' opcode_table = Some pat' ->
  plain_syn m m' -> compile_insn m ops addr = compile_insn m' ops addr.
Proof.
  intros L L' P.
  pose proof (all_syn_ok_on_spec _ all_syn_ok_true (m, pat) (m', pat')
                (lookup_pat_In _ _ _ L) (lookup_pat_In _ _ _ L') (canon_eqb_plain _ _ P)) as A.
  destruct (entry_fact_of_lookup _ _ L) as [i [name [pre [post [ks F]]]]].
  destruct (syn_ok_sound _ _ _ _ _ _ A (ef_init _ _ _ _ _ _ _ F) (ef_shapes _ _ _ _ _ _ _ F)) as [i' [Hi' [A1 A2]]].
  unfold compile_insn. rewrite L, L', Hi', (ef_init _ _ _ _ _ _ _ F).
  cbn [bind]. unfold compile_with.
  destruct (enc_operands_sig _ _ ops addr [] A1) as [E Hl]. rewrite <- E, <- Hl.
  destruct (Nat.eqb (List.length ops) (List.length (stubs i))) eqn:Hlen; cbn [negb]; [|reflexivity].
  apply Nat.eqb_eq in Hlen.
  destruct (enc_operands (stubs i) ops addr []) as [[vals ext]| | |] eqn:He; cbn [bind fst snd]; try reflexivity.
  pose proof (shapes_Forall2 _ _ (ef_shapes _ _ _ _ _ _ _ F)) as Hs.
  destruct (enc_operands_sound _ _ Hs _ _ _ _ _ Hlen He) as [R _].
  rewrite (A2 vals R). reflexivity.
Qed.

(* ------------------------------------------------------------------------------------------ *)
(* pseudo-instructions *)
Definition opw (m : string) (vals : list Z) : res Z :=
  match entry_of m with
  | Some i => get_opcode (opcode_pattern i) (combine (stubs i) vals)
  | None => Crash "no entry"
  end.

Lemma push_words : forallb (fun v => res_eqb (opw "push" [v]) (opw "mov" [v; 38])) (zrange 0 64) = true.
Proof. vm_compute. reflexivity. Qed.
Lemma pop_words : forallb (fun v => res_eqb (opw "pop" [v]) (opw "mov" [22; v])) (zrange 0 64) = true.
Proof. vm_compute. reflexivity. Qed.
Lemma call_words : forallb (fun v => res_eqb (opw "call" [v]) (opw "jsr" [7; v])) (zrange 0 64) = true.
Proof. vm_compute. reflexivity. Qed.

Ltac open_entries Ep Em :=
  vm_compute in Ep; vm_compute in Em; inv Ep; inv Em; unfold compile_with;
  cbn [stubs opcode_pattern List.length Nat.eqb negb enc_operands enc_stub sk bind fst snd app Z.of_nat] in *.

Theorem push_is_mov x addr : compile_insn "push" [x] addr = compile_insn "mov" [x; OAutoDec 6] addr.
Proof.
  destruct (entry_of "push") as [ip|] eqn:Ep; [|vm_compute in Ep; discriminate].
  destruct (entry_of "mov") as [im|] eqn:Em; [|vm_compute in Em; discriminate].
  rewrite (compile_insn_entry _ _ _ _ Ep), (compile_insn_entry _ _ _ _ Em).
  pose proof (fun v => zrange_forallb 0 64 _ push_words v) as W. unfold opw in W. rewrite Ep, Em in W.
  open_entries Ep Em.
  destruct (enc_regmode x (addr + 2 + 2 * 0)) as [[v e]| | |] eqn:E; cbn [bind fst snd]; [|reflexivity..].
  change (enc_regmode (OAutoDec 6) (addr + 2 + 2 * Z.of_nat (Datatypes.length e))) with (@Ok (Z * list Z) (38, [])).
  cbn [bind fst snd]. rewrite app_nil_r.
  apply enc_regmode_sound in E. destruct E as [Hv _].
  specialize (W v ltac:(lia)). apply res_eqb_eq in W. rewrite W. reflexivity.
Qed.

Theorem pop_is_mov x addr : compile_insn "pop" [x] addr = compile_insn "mov" [OAutoInc 6; x] addr.
Proof.
  destruct (entry_of "pop") as [ip|] eqn:Ep; [|vm_compute in Ep; discriminate].
  destruct (entry_of "mov") as [im|] eqn:Em; [|vm_compute in Em; discriminate].
  rewrite (compile_insn_entry _ _ _ _ Ep), (compile_insn_entry _ _ _ _ Em).
  pose proof (fun v => zrange_forallb 0 64 _ pop_words v) as W. unfold opw in W. rewrite Ep, Em in W.
  open_entries Ep Em.
  change (enc_regmode (OAutoInc 6) (addr + 2 + 2 * 0)) with (@Ok (Z * list Z) (22, [])).
  cbn [bind fst snd List.length Z.of_nat].
  destruct (enc_regmode x (addr + 2 + 2 * 0)) as [[v e]| | |] eqn:E; cbn [bind fst snd]; [|reflexivity..].
  apply enc_regmode_sound in E. destruct E as [Hv _].
  specialize (W v ltac:(lia)). apply res_eqb_eq in W. rewrite W. reflexivity.
Qed.

Theorem call_is_jsr_pc x addr : compile_insn "call" [x] addr = compile_insn "jsr" [OReg 7; x] addr.
Proof.
  destruct (entry_of "call") as [ip|] eqn:Ep; [|vm_compute in Ep; discriminate].
  destruct (entry_of "jsr") as [im|] eqn:Em; [|vm_compute in Em; discriminate].
  rewrite (compile_insn_entry _ _ _ _ Ep), (compile_insn_entry _ _ _ _ Em).
  pose proof (fun v => zrange_forallb 0 64 _ call_words v) as W. unfold opw in W. rewrite Ep, Em in W.
  open_entries Ep Em.
  change (enc_register (OReg 7)) with (@Ok (Z * list Z) (7, [])).
  cbn [bind fst snd List.length Z.of_nat].
  destruct (enc_regmode x (addr + 2 + 2 * 0)) as [[v e]| | |] eqn:E; cbn [bind fst snd]; [|reflexivity..].
  apply enc_regmode_sound in E. destruct E as [Hv _].
  specialize (W v ltac:(lia)). apply res_eqb_eq in W. rewrite W. reflexivity.
Qed.

Theorem ret_is_rts_pc addr :
  compile_insn "ret" [] addr = compile_insn "rts" [OReg 7] addr /\
  compile_insn "return" [] addr = compile_insn "rts" [OReg 7] addr.
Proof. split; reflexivity. Qed.

(* an explicitly written (pc)+ / @(pc)+ is mode 27 / 37 and no extension word is emitted for it *)
Lemma pc_autoinc_fields rel :
  enc_regmode (OAutoInc 7) rel = Ok (23, []) /\ enc_regmode (OAutoIncDef 7) rel = Ok (31, []).
Proof. split; reflexivity. Qed.

(* ------------------------------------------------------------------------------------------ *)
(* table_wf *)
Theorem table_wf m pat : In (m, pat) opcode_table ->
  exists i, init_entry pat = Ok i /\ List.length (opcode_pattern i) = 16%nat /\
            forallb good_char (opcode_pattern i) = true /\ exists ks, shapes (stubs i) = Some ks.
Proof.
  intros H. pose proof all_entries_ok as A. rewrite forallb_forall in A. specialize (A _ H).
  apply check_entry_fact in A. destruct A as [i [name [pre [post [ks F]]]]].
  exists i. destruct F. eauto 10.
Qed.

(* field_range, stub by stub, for every field width *)
Theorem field_range_acc st n v e :
  enc_fpacc st (OAcc n) = Ok (v, e) -> 0 <= bitness st -> v = n /\ 0 <= n < 2 ^ bitness st /\ e = [].
Proof.
  unfold enc_fpacc. intros H Hb. remember (2 ^ bitness st) as p.
  destruct ((0 <=? n) && (n <=? 5)) eqn:E; try discriminate.
  destruct (n >=? p) eqn:E2; inversion H; subst v e. repeat split; lia.
Qed.

Theorem field_range_imm u b x f : 0 <= b -> enc_imm u b x = Ok f ->
  (if u then 0 <= x else - 2 ^ b < x) /\ x < 2 ^ b /\ f = x mod 2 ^ b /\ 0 <= f < 2 ^ b.
Proof. intros Hb H. pose proof (enc_imm_spec u b x Hb) as P. rewrite H in P. exact P. Qed.

Theorem field_range_reg r v : reg_val r = Ok v -> 0 <= r < 8 /\ v = r.
Proof. intros H. apply reg_val_ok in H. tauto. Qed.

Theorem field_range_word x w : int16 x = Ok w -> -65536 < x < 65536 /\ w = x mod 65536.
Proof.
  intros H. pose proof (int16_ok _ _ H) as [V [_ E]]. split; [|exact E].
  unfold val16 in V. destruct ((-65536 <? x) && (x <? 65536)) eqn:C; try discriminate. lia.
Qed.

(* the token acN by operand class (Spec.token_acc) *)
Lemma acc_named_symbol c n t addr k :
  sem_operand c (token_acc c n (Some t)) addr k =
  match c with
  | CFpRM => if (0 <=? n) && (n <=? 5) then Some (SAcc n) else None
  | CAcc => if (0 <=? n) && (n <=? 3) then Some (SAcc n) else None
  | _ => sem_operand c (ORel t) addr k
  end.
Proof. destruct c; reflexivity. Qed.
