(* R_permute_defs: permuting independent definitions `n = e` of a program -- as a contiguous block, or scattered over
   arbitrary top-level positions ahead of any End -- leaves the outcome unchanged (C03 on whole programs).
   Obtained from Proofs/AsmMove.move_def (one definition moved across a segment) by iterated moves:
   same_outcome is an equivalence; a block permutation is a chain of adjacent transpositions, each one move_def
   with l2 := the one neighbouring definition; a scattered arrangement is brought to the normal form
   "all moved definitions in front, then the other statements" by one move_def per definition.
   The hypotheses of move_def are stated over the program WITHOUT the moved definition; they are re-derived at each
   step from hypotheses over the fixed part [b] of the program through [ins]: inserting definitions changes neither
   the local-label names nor the export table, and keeps `nodef n` when the inserted names differ from n. *)
From Coq Require Import ZArith List String Ascii Bool NArith Lia Permutation.
From Verif Require Import Base.Res Spec.Arith Model.Asm Model.AsmT Proofs.AsmMeta Proofs.AsmMove.
Import ListNotations.
Notation length := Datatypes.length.
Open Scope string_scope.
Open Scope list_scope.
Open Scope Z_scope.

(* ---- same_outcome is an equivalence ------------------------------------------------------------------------- *)
Lemma so_refl r : same_outcome r r.
Proof. unfold same_outcome. destruct r as [[[b i] T]| | | |]; auto. Qed.

Lemma so_sym r r' : same_outcome r r' -> same_outcome r' r.
Proof.
  unfold same_outcome. destruct r as [[[b i] T]| | | |], r' as [[[b' i'] T']| | | |]; auto.
  intros [E1 [E2 E3]]. repeat split; auto.
Qed.

Lemma so_trans r1 r2 r3 : same_outcome r1 r2 -> same_outcome r2 r3 -> same_outcome r1 r3.
Proof.
  unfold same_outcome.
  destruct r1 as [[[b1 i1] T1]| | | |], r2 as [[[b2 i2] T2]| | | |], r3 as [[[b3 i3] T3]| | | |]; auto; try tauto.
  intros [E1 [E2 E3]] [F1 [F2 F3]]. repeat split; [congruence|congruence|intros k; rewrite E3; apply F3].
Qed.

(* ---- definitions as data ------------------------------------------------------------------------------------- *)
Definition mk (d : string * expr) : stmt := Assign (fst d) (snd d).
Definition mks (ds : list (string * expr)) : list stmt := map mk ds.
Definition noend (l : list stmt) : Prop := Forall (fun y => is_end y = false) l.

(* the side conditions of move_def for every definition of ds, over the fixed part b of the program; the moved names
   are pairwise distinct (with `nodef` over b: each moved name is defined exactly once in the whole program) *)
Definition ok_defs (ds : list (string * expr)) (b : list stmt) : Prop :=
  NoDup (map fst ds) /\
  Forall (fun d => forallb (nodef (fst d)) b = true /\ efree (lnames b) (snd d) = true /\ nodot (snd d) = true) ds /\
  existsb (Nat.eqb 0) (snd (collect_exports 0 b)) = false.

(* p is b with the definitions ds, in this order, written at arbitrary top-level positions, all of them ahead of
   any End of b (w_skip passes non-End statements only; after the last definition the rest of b is arbitrary) *)
Inductive weave : list (string * expr) -> list stmt -> list stmt -> Prop :=
| w_done b : weave [] b b
| w_def d ds b p : weave ds b p -> weave (d :: ds) b (mk d :: p)
| w_skip x ds b p : is_end x = false -> weave ds b p -> weave ds (x :: b) (x :: p).

(* the same for a program given as it is: its top-level definitions, its other statements, and "no top-level
   definition behind an End" *)
Definition is_assign (s : stmt) : bool := match s with Assign _ _ => true | _ => false end.
Fixpoint assigns (p : list stmt) : list (string * expr) :=
  match p with [] => [] | Assign n e :: r => (n, e) :: assigns r | _ :: r => assigns r end.
Definition others (p : list stmt) : list stmt := filter (fun s => negb (is_assign s)) p.
Fixpoint defs_first (p : list stmt) : bool :=
  match p with
  | [] => true
  | End :: r => forallb (fun s => negb (is_assign s)) r
  | _ :: r => defs_first r
  end.

Lemma mks_app a b : mks (a ++ b) = mks a ++ mks b.
Proof. apply map_app. Qed.

Lemma noend_mks ds : noend (mks ds).
Proof. induction ds; constructor; auto. Qed.

Lemma ok_defs_perm ds ds' b : Permutation ds ds' -> ok_defs ds b -> ok_defs ds' b.
Proof.
  intros P [H1 [H2 H3]]. repeat split; auto.
  - eapply Permutation_NoDup; [apply Permutation_map; exact P|exact H1].
  - rewrite Forall_forall in *. intros d Hd. apply H2. eapply Permutation_in; [apply Permutation_sym; exact P|exact Hd].
Qed.

(* ---- q is b with some definitions taken from dl inserted anywhere at the top level ------------------------------- *)
Inductive ins (dl : list (string * expr)) : list stmt -> list stmt -> Prop :=
| ins_nil b : ins dl b b
| ins_def d b q : In d dl -> ins dl b q -> ins dl b (mk d :: q)
| ins_skip x b q : ins dl b q -> ins dl (x :: b) (x :: q).

Lemma ins_app_l dl X b q : ins dl b q -> ins dl (X ++ b) (X ++ q).
Proof. intros H. induction X as [|x X IH]; [exact H|]. simpl. apply ins_skip. exact IH. Qed.

Lemma ins_front dl D b q : incl D dl -> ins dl b q -> ins dl b (mks D ++ q).
Proof.
  intros Hi H. induction D as [|d D IH]; [exact H|]. simpl. apply ins_def.
  - apply Hi. left. reflexivity.
  - apply IH. intros x Hx. apply Hi. right. exact Hx.
Qed.

Lemma ins_weave dl ds b p : weave ds b p -> incl ds dl -> ins dl b p.
Proof.
  induction 1 as [b|d ds b p _ IH|x ds b p _ _ IH]; intros Hi.
  - apply ins_nil.
  - apply ins_def; [apply Hi; left; reflexivity|]. apply IH. intros y Hy. apply Hi. right. exact Hy.
  - apply ins_skip. apply IH. exact Hi.
Qed.

Lemma ins_lnames dl b q : ins dl b q -> lnames q = lnames b.
Proof. induction 1 as [b|d b q _ _ IH|x b q _ IH]; [reflexivity|exact IH|]. unfold lnames in *. simpl. rewrite IH. reflexivity. Qed.

Lemma ins_exports dl b q : ins dl b q -> forall f, collect_exports f q = collect_exports f b.
Proof.
  induction 1 as [b|d b q _ _ IH|x b q _ IH]; intros f; [reflexivity| |].
  - etransitivity; [exact (collect_exports_skipA (fst d) (snd d) [] q f)|apply IH].
  - destruct x; simpl; rewrite ?IH; reflexivity.
Qed.

Lemma ins_nodef dl b q n : ins dl b q -> (forall d, In d dl -> fst d <> n) ->
  forallb (nodef n) b = true -> forallb (nodef n) q = true.
Proof.
  intros H Hn. induction H as [b|d b q Hd _ IH|x b q _ IH]; intros Hb; [exact Hb| |].
  - simpl. rewrite (IH Hb), andb_true_r. apply negb_true_iff. apply String.eqb_neq. apply Hn. exact Hd.
  - simpl in *. apply andb_true_iff in Hb. destruct Hb as [Hx Hb]. rewrite Hx, (IH Hb). reflexivity.
Qed.

Lemma nodup_other (dA dB : list (string * expr)) d : NoDup (map fst (dA ++ d :: dB)) ->
  forall d', In d' (dA ++ dB) -> fst d' <> fst d.
Proof.
  intros H d' Hd' E. rewrite map_app in H. simpl in H. apply NoDup_remove_2 in H. apply H.
  rewrite <- map_app, <- E. apply in_map. exact Hd'.
Qed.

(* one step: the definition d of the moved ones crosses L2; the rest of the program is b with other moved definitions *)
Lemma move_one enc dA d dB b L1 L2 L3 :
  ok_defs (dA ++ d :: dB) b -> ins (dA ++ dB) b (L1 ++ L2 ++ L3) -> noend L1 -> noend L2 ->
  same_outcome (assemble enc (L1 ++ mk d :: L2 ++ L3)) (assemble enc (L1 ++ L2 ++ mk d :: L3)).
Proof.
  intros [Hnd [Hall Hx]] Hins E1 E2.
  assert (Hd : forallb (nodef (fst d)) b = true /\ efree (lnames b) (snd d) = true /\ nodot (snd d) = true).
  { rewrite Forall_forall in Hall. apply Hall. apply in_elt. }
  destruct Hd as [Hd1 [Hd2 Hd3]]. unfold mk.
  apply move_def; auto.
  - eapply ins_nodef; [exact Hins| |exact Hd1]. apply nodup_other. exact Hnd.
  - rewrite (ins_lnames _ _ _ Hins). exact Hd2.
  - rewrite (ins_exports _ _ _ Hins). exact Hx.
Qed.

(* ---- a contiguous block of definitions, permuted ------------------------------------------------------------- *)
Theorem permute_defs_block enc ds ds' l1 l2 :
  Permutation ds ds' -> noend l1 -> ok_defs ds (l1 ++ l2) ->
  same_outcome (assemble enc (l1 ++ mks ds ++ l2)) (assemble enc (l1 ++ mks ds' ++ l2)).
Proof.
  intros P E1. revert ds ds' P.
  apply (Permutation_ind_transp (fun ds ds' => ok_defs ds (l1 ++ l2) ->
           same_outcome (assemble enc (l1 ++ mks ds ++ l2)) (assemble enc (l1 ++ mks ds' ++ l2)))).
  - intros l _. apply so_refl.
  - intros x y dA dB Hok.
    replace (l1 ++ mks (dA ++ y :: x :: dB) ++ l2) with ((l1 ++ mks dA) ++ mk y :: [mk x] ++ mks dB ++ l2)
      by (rewrite mks_app; simpl; rewrite <- !app_assoc; reflexivity).
    replace (l1 ++ mks (dA ++ x :: y :: dB) ++ l2) with ((l1 ++ mks dA) ++ [mk x] ++ mk y :: mks dB ++ l2)
      by (rewrite mks_app; simpl; rewrite <- !app_assoc; reflexivity).
    apply (move_one enc dA y (x :: dB) (l1 ++ l2)).
    + exact Hok.
    + rewrite <- app_assoc. apply ins_app_l.
      replace (mks dA ++ [mk x] ++ mks dB ++ l2) with (mks (dA ++ x :: dB) ++ l2)
        by (rewrite mks_app; simpl; rewrite <- !app_assoc; reflexivity).
      apply ins_front; [apply incl_refl|apply ins_nil].
    + apply Forall_app. split; [exact E1|apply noend_mks].
    + apply (noend_mks [x]).
  - intros l l' l'' P1 IH1 P2 IH2 Hok. eapply so_trans; [apply IH1; exact Hok|]. apply IH2.
    eapply ok_defs_perm; [exact P1|exact Hok].
Qed.

(* ---- scattered definitions: to the normal form "definitions first" --------------------------------------------- *)
Lemma to_front enc ds b p : weave ds b p -> forall dsp pre, noend pre -> ok_defs (dsp ++ ds) (pre ++ b) ->
  same_outcome (assemble enc (mks dsp ++ pre ++ p)) (assemble enc (mks dsp ++ mks ds ++ pre ++ b)).
Proof.
  induction 1 as [b|d ds b p Hw IH|x ds b p Hx Hw IH]; intros dsp pre Ep Hok.
  - apply so_refl.
  - apply so_trans with (assemble enc (mks dsp ++ mk d :: pre ++ p)).
    + apply so_sym. apply (move_one enc dsp d ds (pre ++ b)); [exact Hok| |apply noend_mks|exact Ep].
      apply ins_front; [apply incl_appl; apply incl_refl|]. apply ins_app_l.
      eapply ins_weave; [exact Hw|]. apply incl_appr. apply incl_refl.
    + specialize (IH (dsp ++ [d]) pre Ep). rewrite <- app_assoc in IH. simpl in IH. specialize (IH Hok).
      rewrite mks_app in IH. simpl in IH. rewrite <- !app_assoc in IH. simpl in IH. exact IH.
  - assert (Ep' : noend (pre ++ [x])) by (apply Forall_app; split; [exact Ep|constructor; [exact Hx|constructor]]).
    specialize (IH dsp (pre ++ [x]) Ep'). rewrite <- !app_assoc in IH. simpl in IH. apply IH. exact Hok.
Qed.

Theorem permute_defs_weave enc ds ds' b p p' :
  weave ds b p -> weave ds' b p' -> Permutation ds ds' -> ok_defs ds b ->
  same_outcome (assemble enc p) (assemble enc p').
Proof.
  intros W W' P Hok.
  pose proof (to_front enc ds b p W [] [] (Forall_nil _) Hok) as A. simpl in A.
  pose proof (to_front enc ds' b p' W' [] [] (Forall_nil _) (ok_defs_perm _ _ _ P Hok)) as A'. simpl in A'.
  pose proof (permute_defs_block enc ds ds' [] b P (Forall_nil _) Hok) as B. simpl in B.
  eapply so_trans; [exact A|]. eapply so_trans; [exact B|]. apply so_sym. exact A'.
Qed.

(* ---- the same on programs as they are written ----------------------------------------------------------------- *)
Lemma assigns_none r : forallb (fun s => negb (is_assign s)) r = true -> assigns r = [] /\ others r = r.
Proof.
  induction r as [|x r IH]; intros H; [split; reflexivity|]. simpl in H. apply andb_true_iff in H. destruct H as [Hx Hr].
  destruct (IH Hr) as [A O]. unfold others in *. destruct x; try discriminate; simpl; rewrite ?O; auto.
Qed.

Lemma weave_self p : defs_first p = true -> weave (assigns p) (others p) p.
Proof.
  induction p as [|x r IH]; intros H; [apply w_done|].
  destruct x; simpl in H;
    try (unfold others; simpl; apply w_skip; [reflexivity|apply IH; exact H]).
  - apply (w_def (name, e)). apply IH. exact H.
  - destruct (assigns_none r H) as [A O]. unfold others in *. simpl. rewrite A, O. apply w_done.
Qed.

Theorem permute_defs_filter enc p p' :
  defs_first p = true -> defs_first p' = true -> others p = others p' -> Permutation (assigns p) (assigns p') ->
  ok_defs (assigns p) (others p) ->
  same_outcome (assemble enc p) (assemble enc p').
Proof.
  intros F F' O P Hok. apply (permute_defs_weave enc (assigns p) (assigns p') (others p)); auto.
  - apply weave_self. exact F.
  - rewrite O. apply weave_self. exact F'.
Qed.

(* ---- the statements with the hypotheses written out (Props/R_permute.v) ----------------------------------------- *)
Lemma permute_defs_block_plain enc (defs defs' : list (string * expr)) l1 l2 :
  Permutation defs defs' -> NoDup (map fst defs) ->
  Forall (fun y => is_end y = false) l1 ->
  Forall (fun d => forallb (nodef (fst d)) (l1 ++ l2) = true /\ efree (lnames (l1 ++ l2)) (snd d) = true /\
                   nodot (snd d) = true) defs ->
  existsb (Nat.eqb 0) (snd (collect_exports 0 (l1 ++ l2))) = false ->
  same_outcome (assemble enc (l1 ++ map (fun d => Assign (fst d) (snd d)) defs ++ l2))
               (assemble enc (l1 ++ map (fun d => Assign (fst d) (snd d)) defs' ++ l2)).
Proof. intros P N E A X. apply permute_defs_block; [exact P|exact E|]. repeat split; assumption. Qed.

Lemma permute_defs_weave_plain enc ds ds' b p p' :
  weave ds b p -> weave ds' b p' -> Permutation ds ds' -> NoDup (map fst ds) ->
  Forall (fun d => forallb (nodef (fst d)) b = true /\ efree (lnames b) (snd d) = true /\ nodot (snd d) = true) ds ->
  existsb (Nat.eqb 0) (snd (collect_exports 0 b)) = false ->
  same_outcome (assemble enc p) (assemble enc p').
Proof. intros W W' P N A X. apply (permute_defs_weave enc ds ds' b); auto. repeat split; assumption. Qed.

Lemma permute_defs_filter_plain enc p p' :
  defs_first p = true -> defs_first p' = true -> others p = others p' -> Permutation (assigns p) (assigns p') ->
  NoDup (map fst (assigns p)) ->
  Forall (fun d => forallb (nodef (fst d)) (others p) = true /\ efree (lnames (others p)) (snd d) = true /\
                   nodot (snd d) = true) (assigns p) ->
  existsb (Nat.eqb 0) (snd (collect_exports 0 (others p))) = false ->
  same_outcome (assemble enc p) (assemble enc p').
Proof. intros F F' O P N A X. apply permute_defs_filter; auto. repeat split; assumption. Qed.

(* boolean form of the hypotheses, for examples and streams *)
Definition ok_defsb (ds : list (string * expr)) (b : list stmt) : bool :=
  nodup_str (map fst ds) &&
  forallb (fun d => forallb (nodef (fst d)) b && efree (lnames b) (snd d) && nodot (snd d)) ds &&
  negb (existsb (Nat.eqb 0) (snd (collect_exports 0 b))).

Lemma nodup_str_NoDup l : nodup_str l = true -> NoDup l.
Proof.
  induction l as [|x r IH]; intros H; [constructor|]. simpl in H. apply andb_true_iff in H. destruct H as [H1 H2].
  constructor; [|apply IH; exact H2]. intros Hi. apply negb_true_iff in H1.
  assert (E : existsb (String.eqb x) r = true) by (apply existsb_exists; exists x; split; [exact Hi|apply String.eqb_refl]).
  congruence.
Qed.

Lemma ok_defsb_ok ds b : ok_defsb ds b = true -> ok_defs ds b.
Proof.
  unfold ok_defsb. intros H. apply andb_true_iff in H. destruct H as [H H3]. apply andb_true_iff in H. destruct H as [H1 H2].
  repeat split.
  - apply nodup_str_NoDup. exact H1.
  - rewrite Forall_forall. rewrite forallb_forall in H2. intros d Hd. specialize (H2 d Hd).
    apply andb_true_iff in H2. destruct H2 as [H2 Hc]. apply andb_true_iff in H2. destruct H2 as [Ha Hb]. auto.
  - apply negb_true_iff in H3. exact H3.
Qed.

(* the decidable form: two written programs, compared by booleans and a permutation of their definitions *)
Theorem permute_defs_bool enc p p' :
  defs_first p = true -> defs_first p' = true -> others p = others p' -> Permutation (assigns p) (assigns p') ->
  ok_defsb (assigns p) (others p) = true ->
  same_outcome (assemble enc p) (assemble enc p').
Proof. intros F F' O P H. apply permute_defs_filter; auto. apply ok_defsb_ok. exact H. Qed.
