(* All radix spellings of a natural number lex to that number (C10 number_spellings).
   Model: Model/Spelling.v lex_number (parser.number); prefixes and bases come from Gen/GenSpelling.v. *)
From Coq Require Import List NArith ZArith Bool Lia String Ascii.
From Verif Require Import Base.Res Base.Range Gen.GenSpelling Model.CIDict Model.SkipWs Model.Spelling Proofs.SpellingP.
Import ListNotations.
Open Scope N_scope.
Open Scope list_scope.

(* ------------------------------------------------------------------ digits of n in base b *)
Definition step (b a v : N) : N := a * b + v.

Lemma to_digits_fold b : 2 <= b -> forall fuel n acc, n < 2 ^ N.of_nat fuel ->
  fold_left (step b) (to_digits fuel b n acc) 0 = fold_left (step b) acc n.
Proof.
  intros Hb. induction fuel as [|f IH]; intros n acc Hn.
  - simpl in Hn. assert (n = 0) by lia. subst. reflexivity.
  - cbn [to_digits]. destruct (n / b =? 0) eqn:E.
    + apply N.eqb_eq in E. cbn [fold_left]. unfold step at 2.
      assert (n mod b = n) by (apply N.mod_small; apply N.div_small_iff in E; lia). rewrite H. reflexivity.
    + rewrite IH.
      * cbn [fold_left]. unfold step at 2. f_equal. rewrite N.mul_comm. symmetry. apply N.div_mod. lia.
      * rewrite Nat2N.inj_succ, N.pow_succ_r' in Hn.
        assert (n / b <= n / 2) by (apply N.div_le_compat_l; lia).
        assert (n / 2 < 2 ^ N.of_nat f) by (apply N.div_lt_upper_bound; lia). lia.
Qed.

Lemma digits_value b n : 2 <= b -> fold_left (step b) (digits b n) 0 = n.
Proof.
  intros Hb. unfold digits. rewrite to_digits_fold; [reflexivity | exact Hb|].
  rewrite Nat2N.inj_succ, N2Nat.id.
  destruct (N.eq_dec n 0) as [->|Hn]; [reflexivity|]. apply N.log2_spec. lia.
Qed.

Lemma to_digits_bound b : 0 < b -> forall fuel n acc, Forall (fun v => v < b) acc -> Forall (fun v => v < b) (to_digits fuel b n acc).
Proof.
  intros Hb. induction fuel as [|f IH]; intros n acc Ha; [exact Ha|].
  cbn [to_digits]. assert (Forall (fun v => v < b) (n mod b :: acc)) by (constructor; [apply N.mod_lt; lia | exact Ha]).
  destruct (n / b =? 0); [assumption | apply IH; assumption].
Qed.

Lemma digits_bound b n : 0 < b -> Forall (fun v => v < b) (digits b n).
Proof. intros. unfold digits. apply to_digits_bound; [assumption | constructor]. Qed.

Lemma to_digits_nonempty b : forall fuel n acc, acc <> [] -> to_digits fuel b n acc <> [].
Proof.
  induction fuel as [|f IH]; intros n acc Ha; [exact Ha|].
  cbn [to_digits]. destruct (n / b =? 0); [discriminate | apply IH; discriminate].
Qed.

Lemma digits_nonempty b n : digits b n <> [].
Proof.
  unfold digits. cbn [to_digits]. destruct (n / b =? 0); [discriminate | apply to_digits_nonempty; discriminate].
Qed.

(* ------------------------------------------------------------------ digit characters (finite facts) *)
Definition opt_N_eqb (a b : option N) : bool :=
  match a, b with Some x, Some y => x =? y | None, None => true | _, _ => false end.

Definition char_facts (up : bool) (v : N) : bool :=
  let c := digit_char up v in
  opt_N_eqb (digit_val c) (Some v)
  && is_tokch c && in_class "hex" c && negb (c =? 36) && negb (c =? 95) && negb (c =? 46)
  && negb (ascii_lower c =? 120) && negb (ascii_lower c =? 111)
  && negb (is_space c) && negb (c =? 59) && negb (c =? 45) && negb (c =? 94)
  && (if v <? 10 then is_digit c && in_class "dec" c && negb (ascii_lower c =? 98) else negb (is_digit c))
  && (if v <? 8 then in_class "oct" c && negb (c =? 56) && negb (c =? 57) else true)
  && (if v <? 2 then in_class "bin" c else true).

Lemma char_facts_all : forallb (fun v => char_facts true v && char_facts false v) (nrange 16) = true.
Proof. vm_compute. reflexivity. Qed.

Lemma char_facts_ok up v : v < 16 -> char_facts up v = true.
Proof.
  intros H. pose proof (nrange_forallb 16 _ char_facts_all v H) as P. cbv beta in P.
  apply andb_true_iff in P. destruct up; tauto.
Qed.

Ltac split_facts F :=
  repeat (let G := fresh "G" in apply andb_true_iff in F; destruct F as [F G]).

(* what a list of digit characters must satisfy for the lexer lemmas *)
Record good_chars (kind : string) (base : N) (n : N) (cs : str) : Prop := {
  g_nonempty : cs <> [];
  g_tok : forallb is_tokch cs = true;
  g_class : forallb (in_class kind) cs = true;
  g_nodollar : mem_ch 36 cs = false /\ mem_ch 95 cs = false /\ mem_ch 46 cs = false;
  g_int : int_digits base 0 cs = Some n;
  g_nox : forallb (fun c => negb (ascii_lower c =? 120) && negb (ascii_lower c =? 111)) cs = true;
  g_head : exists c r, cs = c :: r /\ is_space c = false /\ c <> 59 /\ c <> 45 /\ c <> 94
}.

Lemma int_digits_chars base mask : base <= 16 -> forall vs i acc, Forall (fun v => v < base) vs ->
  int_digits base acc (chars_of mask i vs) = Some (fold_left (step base) vs acc).
Proof.
  intros Hb. induction vs as [|v r IH]; intros i acc Hv; [reflexivity|].
  inversion Hv as [|? ? Hv1 Hv2]; subst. cbn [chars_of int_digits fold_left].
  assert (Hv16 : v < 16) by lia.
  pose proof (char_facts_ok (mask i) v Hv16) as F. unfold char_facts in F. cbv zeta in F.
  split_facts F.
  destruct (digit_val (digit_char (mask i) v)) as [x|]; [|discriminate]. simpl in F. apply N.eqb_eq in F. subst x.
  replace (v <? base) with true by (symmetry; apply N.ltb_lt; exact Hv1). apply IH. exact Hv2.
Qed.

Section CharFacts.
Variables (up : bool) (v : N).
Hypothesis Hv : v < 16.

Lemma cf_all :
  let c := digit_char up v in
  is_tokch c = true /\ in_class "hex" c = true /\ (c =? 36) = false /\ (c =? 95) = false /\ (c =? 46) = false
  /\ (ascii_lower c =? 120) = false /\ (ascii_lower c =? 111) = false
  /\ is_space c = false /\ (c =? 59) = false /\ (c =? 45) = false /\ (c =? 94) = false
  /\ (v < 10 -> is_digit c = true /\ in_class "dec" c = true)
  /\ (v < 8 -> in_class "oct" c = true)
  /\ (v < 2 -> in_class "bin" c = true).
Proof.
  pose proof (char_facts_ok up v Hv) as F. unfold char_facts in F. cbv zeta in F. cbv zeta.
  split_facts F.
  repeat match goal with X : negb _ = true |- _ => apply negb_true_iff in X end.
  repeat split; try assumption.
  all: intros; clear Hv.
  all: match goal with Hlt : v < ?k |- _ =>
         replace (v <? k) with true in * by (symmetry; apply N.ltb_lt; exact Hlt)
       end;
       repeat match goal with X : _ && _ = true |- _ => apply andb_true_iff in X; destruct X end; assumption.
Qed.
End CharFacts.

Lemma forallb_chars (p : N -> bool) mask bound :
  (forall up v, v < bound -> p (digit_char up v) = true) ->
  forall vs i, Forall (fun v => v < bound) vs -> forallb p (chars_of mask i vs) = true.
Proof.
  intros Hp. induction vs as [|v r IH]; intros i Hv; [reflexivity|].
  inversion Hv; subst. cbn [chars_of forallb]. rewrite Hp by assumption. apply IH. assumption.
Qed.

Lemma mem_ch_chars x mask bound :
  (forall up v, v < bound -> (digit_char up v =? x) = false) ->
  forall vs i, Forall (fun v => v < bound) vs -> mem_ch x (chars_of mask i vs) = false.
Proof.
  intros Hp. induction vs as [|v r IH]; intros i Hv; [reflexivity|].
  inversion Hv; subst. unfold mem_ch in *. cbn [chars_of existsb]. rewrite N.eqb_sym, Hp by assumption. apply IH. assumption.
Qed.

Lemma chars_nonempty mask i vs : vs <> [] -> chars_of mask i vs <> [].
Proof. destruct vs; [contradiction | discriminate]. Qed.

(* the four digit classes *)
Lemma good_of_digits kind base mask n :
  (kind = "hex"%string /\ base = 16) \/ (kind = "oct"%string /\ base = 8) \/ (kind = "bin"%string /\ base = 2) \/ (kind = "dec"%string /\ base = 10) ->
  good_chars kind base n (chars_of mask 0 (digits base n)).
Proof.
  intros K.
  assert (Hb2 : 2 <= base) by (destruct K as [[_ ->]|[[_ ->]|[[_ ->]|[_ ->]]]]; lia).
  assert (Hb16 : base <= 16) by (destruct K as [[_ ->]|[[_ ->]|[[_ ->]|[_ ->]]]]; lia).
  pose proof (digits_bound base n ltac:(lia)) as B.
  assert (B16 : Forall (fun v => v < 16) (digits base n)) by (eapply Forall_impl; [|exact B]; simpl; intros; lia).
  constructor.
  - apply chars_nonempty. apply digits_nonempty.
  - apply (forallb_chars is_tokch mask 16); [|exact B16]. intros up v H. apply (cf_all up v H).
  - apply (forallb_chars (in_class kind) mask base); [|exact B]. intros up v H.
    destruct K as [[-> ->]|[[-> ->]|[[-> ->]|[-> ->]]]].
    + apply (cf_all up v H).
    + assert (H16 : v < 16) by lia. apply (cf_all up v H16). exact H.
    + assert (H16 : v < 16) by lia. apply (cf_all up v H16). exact H.
    + assert (H16 : v < 16) by lia. apply (cf_all up v H16). exact H.
  - repeat split; apply (mem_ch_chars _ mask 16); try exact B16; intros up v H; apply (cf_all up v H).
  - rewrite (int_digits_chars base mask Hb16 _ 0%nat 0 B). f_equal. apply digits_value. exact Hb2.
  - apply (forallb_chars _ mask 16); [|exact B16]. intros up v H.
    destruct (cf_all up v H) as [_ [_ [_ [_ [_ [X [O _]]]]]]]. rewrite X, O. reflexivity.
  - pose proof (digits_nonempty base n) as NE. destruct (digits base n) as [|v r] eqn:E; [contradiction|].
    inversion B16; subst. exists (digit_char (mask 0%nat) v), (chars_of mask 1 r). split; [reflexivity|].
    destruct (cf_all (mask 0%nat) v ltac:(assumption)) as [_ [_ [_ [_ [_ [_ [_ [S [C1 [C2 [C3 _]]]]]]]]]]].
    repeat split; try assumption; apply N.eqb_neq; assumption.
Qed.

(* ------------------------------------------------------------------ lexer pieces *)
Lemma span_app (p : N -> bool) xs rest :
  forallb p xs = true -> match rest with [] => True | c :: _ => p c = false end ->
  span p (xs ++ rest) = (xs, rest).
Proof.
  intros Hx Hr. induction xs as [|x r IH]; simpl.
  - destruct rest as [|c t]; [reflexivity|]. simpl. rewrite Hr. reflexivity.
  - simpl in Hx. apply andb_true_iff in Hx. destruct Hx as [Hx1 Hx2]. rewrite Hx1, (IH Hx2). reflexivity.
Qed.

Lemma py_int_plain base cs n :
  cs <> [] -> int_digits base 0 cs = Some n ->
  forallb (fun c => negb (ascii_lower c =? 120) && negb (ascii_lower c =? 111)) cs = true ->
  (base = 2 -> forallb (in_class "bin") cs = true) ->
  py_int base cs = Some n.
Proof.
  intros NE Hi Hx Hbin. unfold py_int.
  assert (S : strip_base_prefix base cs = cs).
  { unfold strip_base_prefix. destruct cs as [|c [|l r]]; try reflexivity.
    assert (Pl : forall p : N -> bool, forallb p (c :: l :: r) = true -> p l = true).
    { intros p H. cbn [forallb] in H. apply andb_true_iff in H. destruct H as [_ H]. apply andb_true_iff in H. tauto. }
    pose proof (Pl _ Hx) as Hl. cbv beta in Hl.
    apply andb_true_iff in Hl. destruct Hl as [H1 H2]. apply negb_true_iff in H1, H2. rewrite H1, H2.
    rewrite !andb_false_r. cbn [orb].
    destruct (base =? 2) eqn:E2; [|rewrite andb_false_r; reflexivity]. apply N.eqb_eq in E2. specialize (Hbin E2).
    pose proof (Pl _ Hbin) as Hbl.
    unfold in_class in Hbl. cbn in Hbl.
    replace (ascii_lower l =? 98) with false; [rewrite andb_false_r; reflexivity|].
    symmetry. apply N.eqb_neq. apply orb_true_iff in Hbl. destruct Hbl as [Hbl|Hbl]; apply N.eqb_eq in Hbl; subst l; vm_compute; discriminate. }
  rewrite S. destruct cs; [contradiction | exact Hi].
Qed.

Lemma skip_head c r : is_space c = false -> c <> 59 -> skip (c :: r) = c :: r.
Proof. intros. apply skip_fixed; assumption. Qed.

Lemma match_literal_caret_digit lit c r : c <> 94 -> is_alpha c = false -> match_literal (94 :: lit) (c :: r) = None.
Proof.
  intros Hc Ha. cbn [match_literal]. destruct (is_ascii c); [|reflexivity].
  replace (ascii_lower 94) with 94 by reflexivity.
  assert (ascii_lower c = c).
  { unfold ascii_lower. unfold is_alpha in Ha. apply orb_false_iff in Ha. destruct Ha as [Ha _]. rewrite Ha. reflexivity. }
  rewrite H. replace (94 =? c) with false by (symmetry; apply N.eqb_neq; congruence). reflexivity.
Qed.

Lemma caret_number_none sign c r : c <> 94 -> is_alpha c = false -> caret_number caret_prefixes sign (c :: r) = None.
Proof.
  intros Hc Ha. unfold caret_prefixes. cbn [caret_number].
  change (s2n "^X") with (94 :: [88]). change (s2n "^O") with (94 :: [79]). change (s2n "^B") with (94 :: [66]). change (s2n "^D") with (94 :: [68]).
  rewrite !match_literal_caret_digit by assumption. reflexivity.
Qed.

(* the body of one caret row, after the prefix matched *)
Definition caret_tail (kind : string) (base : N) (sign : Z) (rest : str) : option lexres :=
  let (ds, after) := span (in_class kind) rest in
  Some
  match ds with
  | [] => LCritical
  | _ =>
      match after with
      | c :: _ =>
          if is_word c || (c =? 36) || (c =? 46) then LCritical
          else match py_int base ds with
               | Some v => LNumber (sign * Z.of_N v) false false false
               | None => LUnmodelled
               end
      | [] => match py_int base ds with
              | Some v => LNumber (sign * Z.of_N v) false false false
              | None => LUnmodelled
              end
      end
  end.

Definition kind_of_letter (l : N) : string :=
  let l := ascii_lower l in
  if l =? 120 then "hex" else if l =? 111 then "oct" else if l =? 98 then "bin" else "dec".

Lemma caret_number_row sign l tail :
  In l [88; 120; 79; 111; 66; 98; 68; 100] ->
  caret_number caret_prefixes sign (94 :: l :: tail) = caret_tail (kind_of_letter l) (base_of_letter l) sign tail.
Proof.
  intros H. simpl in H.
  repeat (destruct H as [<-|H]; [reflexivity|]). destruct H.
Qed.

Lemma follow_props rest : follow_ok rest = true ->
  match rest with [] => True | c :: _ => is_tokch c = false end /\
  match rest with [] => True | c :: _ => is_word c = false /\ (c =? 36) = false /\ (c =? 46) = false end /\
  starts_with_colon (skip rest) = false.
Proof.
  unfold follow_ok. destruct rest as [|c r]; [intros _; repeat split|].
  intros H.
  apply andb_true_iff in H. destruct H as [H Hcol].
  apply andb_true_iff in H. destruct H as [H Hword].
  apply andb_true_iff in H. destruct H as [_ Htok].
  apply negb_true_iff in Hcol, Hword, Htok.
  split; [exact Htok|]. split; [|exact Hcol]. split; [exact Hword|].
  unfold is_tokch in Htok.
  apply orb_false_iff in Htok. destruct Htok as [Htok H46].
  apply orb_false_iff in Htok. destruct Htok as [Htok H36].
  split; assumption.
Qed.

Lemma in_class_not_tokch kind c : is_tokch c = false -> in_class kind c = false.
Proof.
  intros H. unfold is_tokch in H.
  apply orb_false_iff in H. destruct H as [H _].
  apply orb_false_iff in H. destruct H as [H _].
  apply orb_false_iff in H. destruct H as [H _].
  apply orb_false_iff in H. destruct H as [H Halpha].
  unfold in_class.
  assert (Hl : (97 <=? ascii_lower c) && (ascii_lower c <=? 102) = false).
  { unfold is_alpha in Halpha. apply orb_false_iff in Halpha. destruct Halpha as [Hu Hlw].
    unfold ascii_lower. rewrite Hu. destruct ((97 <=? c) && (c <=? 102)) eqn:E; [|reflexivity].
    apply andb_true_iff in E. destruct E as [E1 E2]. apply N.leb_le in E1, E2.
    assert ((97 <=? c) && (c <=? 122) = true) by (apply andb_true_iff; split; apply N.leb_le; lia). congruence. }
  unfold is_digit in H.
  destruct (String.eqb kind "hex"); [rewrite Hl; unfold is_digit; rewrite H; reflexivity|].
  destruct (String.eqb kind "oct").
  { destruct ((48 <=? c) && (c <=? 55)) eqn:E; [|reflexivity]. apply andb_true_iff in E. destruct E as [E1 E2].
    apply N.leb_le in E1, E2. assert ((48 <=? c) && (c <=? 57) = true) by (apply andb_true_iff; split; apply N.leb_le; lia). congruence. }
  destruct (String.eqb kind "bin").
  { destruct ((c =? 48) || (c =? 49)) eqn:E; [|reflexivity]. apply orb_true_iff in E.
    assert ((48 <=? c) && (c <=? 57) = true) by (destruct E as [E|E]; apply N.eqb_eq in E; subst; reflexivity). congruence. }
  destruct (String.eqb kind "dec"); [exact H | reflexivity].
Qed.

(* caret spellings *)
Lemma lex_caret sign l cs rest n :
  In l [88; 120; 79; 111; 66; 98; 68; 100] ->
  good_chars (kind_of_letter l) (base_of_letter l) n cs -> follow_ok rest = true ->
  caret_number caret_prefixes sign (94 :: l :: cs ++ rest) = Some (LNumber (sign * Z.of_N n) false false false).
Proof.
  intros Hl G F. rewrite caret_number_row by exact Hl. unfold caret_tail.
  destruct (follow_props rest F) as [F1 [F2 _]].
  rewrite span_app; [|apply (g_class _ _ _ _ G)|destruct rest; [exact I | apply in_class_not_tokch; exact F1]].
  assert (P : py_int (base_of_letter l) cs = Some n).
  { apply py_int_plain; [apply (g_nonempty _ _ _ _ G) | apply (g_int _ _ _ _ G) | apply (g_nox _ _ _ _ G)|].
    intros Hb. pose proof (g_class _ _ _ _ G) as C.
    simpl in Hl. repeat (destruct Hl as [<-|Hl]; [try (vm_compute in Hb; discriminate); exact C|]). destruct Hl. }
  pose proof (g_nonempty _ _ _ _ G) as NE. destruct cs as [|c0 cr]; [contradiction|].
  destruct rest as [|c t]; [rewrite P; reflexivity|].
  destruct F2 as [W [D1 D2]]. rewrite W, D1, D2. simpl. rewrite P. reflexivity.
Qed.

Lemma last_opt_app_single xs x : last_opt (xs ++ [x]) = Some x.
Proof.
  induction xs as [|y r IH]; [reflexivity|]. simpl. destruct (r ++ [x]) eqn:E; [destruct r; discriminate|]. exact IH.
Qed.

Lemma last_opt_mem x xs : mem_ch x xs = false -> last_opt xs <> Some x.
Proof.
  induction xs as [|y r IH]; simpl; [discriminate|]. unfold mem_ch in *. simpl. intros H.
  apply orb_false_iff in H. destruct H as [H1 H2]. destruct r as [|z t].
  - intros E. inversion E; subst. rewrite N.eqb_refl in H1. discriminate.
  - apply IH. exact H2.
Qed.

Lemma has_dot_false tok : mem_ch 46 tok = false ->
  match last_opt tok with Some c => c =? 46 | None => false end = false.
Proof.
  intros H. pose proof (last_opt_mem 46 tok H) as L. destruct (last_opt tok) as [c|]; [|reflexivity].
  apply N.eqb_neq. congruence.
Qed.

Lemma plain_number_token sign tok rest c0 cr :
  tok = c0 :: cr -> is_digit c0 = true -> forallb is_tokch tok = true -> follow_ok rest = true ->
  plain_number sign (tok ++ rest) = classify_token sign tok.
Proof.
  intros E Hd Ht F. destruct (follow_props rest F) as [F1 [_ F3]].
  unfold plain_number. rewrite E at 1. cbn [app]. rewrite Hd. cbn [negb].
  rewrite span_app by assumption. rewrite F3. reflexivity.
Qed.

Lemma octal_chars cs : forallb (in_class "oct") cs = true ->
  forallb is_digit cs = true /\ mem_ch 56 cs = false /\ mem_ch 57 cs = false.
Proof.
  induction cs as [|c r IH]; intros C; [repeat split|].
  cbn [forallb] in C. apply andb_true_iff in C. destruct C as [C1 C2]. destruct (IH C2) as [I1 [I2 I3]].
  unfold in_class in C1. cbn in C1. apply andb_true_iff in C1. destruct C1 as [L U]. apply N.leb_le in L, U.
  unfold mem_ch in *. cbn [forallb existsb]. rewrite I1, I2, I3. rewrite andb_true_r, !orb_false_r. repeat split.
  - unfold is_digit. apply andb_true_iff. split; apply N.leb_le; lia.
  - apply N.eqb_neq. lia.
  - apply N.eqb_neq. lia.
Qed.

Lemma decimal_chars cs : forallb (in_class "dec") cs = true -> forallb is_digit cs = true.
Proof. intros H. exact H. Qed.

(* bare octal *)
Lemma classify_oct sign cs n : good_chars "oct" 8 n cs ->
  classify_token sign cs = LNumber (sign * Z.of_N n) (sign =? 1)%Z false false.
Proof.
  intros G. destruct (g_nodollar _ _ _ _ G) as [N1 [N2 N3]].
  unfold classify_token. rewrite (has_dot_false cs N3). rewrite N1, N2, N3. cbn [orb].
  destruct (octal_chars cs (g_class _ _ _ _ G)) as [D1 [D2 D3]]. rewrite D1, D2, D3.
  pose proof (g_nonempty _ _ _ _ G) as NE. destruct cs as [|c r] eqn:E; [contradiction|]. rewrite <- E in *.
  replace (negb match cs with [] => true | _ :: _ => false end) with true by (rewrite E; reflexivity).
  cbn [andb orb].
  rewrite (py_int_plain 8 cs n); [reflexivity | rewrite E; discriminate | apply (g_int _ _ _ _ G) | apply (g_nox _ _ _ _ G) | discriminate].
Qed.

Lemma removelast_app_single {A} (xs : list A) x : removelast (xs ++ [x]) = xs.
Proof. rewrite removelast_app by discriminate. simpl. apply app_nil_r. Qed.

(* decimal with a trailing dot *)
Lemma classify_dec sign cs n : good_chars "dec" 10 n cs ->
  classify_token sign (cs ++ [46]) = LNumber (sign * Z.of_N n) false false false.
Proof.
  intros G. destruct (g_nodollar _ _ _ _ G) as [N1 [N2 N3]].
  unfold classify_token. rewrite last_opt_app_single, N.eqb_refl, removelast_app_single.
  rewrite N1, N2, N3. cbn [orb]. rewrite (decimal_chars cs (g_class _ _ _ _ G)).
  pose proof (g_nonempty _ _ _ _ G) as NE. destruct cs as [|c r] eqn:E; [contradiction|]. rewrite <- E in *.
  replace (negb match cs with [] => true | _ :: _ => false end) with true by (rewrite E; reflexivity).
  cbn [andb].
  rewrite (py_int_plain 10 cs n); [reflexivity | rewrite E; discriminate | apply (g_int _ _ _ _ G) | apply (g_nox _ _ _ _ G) | discriminate].
Qed.

(* 0x.. 0o.. 0b.. *)
Lemma classify_c sign l cs n : In l [88; 120; 79; 111; 66; 98] ->
  good_chars (kind_of_letter l) (base_of_letter l) n cs ->
  classify_token sign (48 :: l :: cs) = LNumber (sign * Z.of_N n) (sign =? 1)%Z false false.
Proof.
  intros Hl G. destruct (g_nodollar _ _ _ _ G) as [N1 [N2 N3]].
  pose proof (g_nonempty _ _ _ _ G) as NE.
  assert (P : py_int (base_of_letter l) cs = Some n).
  { apply py_int_plain; [exact NE | apply (g_int _ _ _ _ G) | apply (g_nox _ _ _ _ G)|].
    intros Hb. pose proof (g_class _ _ _ _ G) as C.
    simpl in Hl. repeat (destruct Hl as [<-|Hl]; [try (vm_compute in Hb; discriminate); exact C|]). destruct Hl. }
  assert (L : match last_opt (48 :: l :: cs) with Some c => c =? 46 | None => false end = false).
  { apply has_dot_false. unfold mem_ch in *. cbn [existsb]. rewrite N3.
    simpl in Hl. repeat (destruct Hl as [<-|Hl]; [reflexivity|]). destruct Hl. }
  unfold classify_token. rewrite L.
  assert (M : forall x, In x [36; 95; 46] -> mem_ch x (48 :: l :: cs) = mem_ch x cs).
  { intros x Hx. unfold mem_ch. cbn [existsb]. simpl in Hx, Hl.
    repeat (destruct Hx as [<-|Hx]; [repeat (destruct Hl as [<-|Hl]; [reflexivity|]); destruct Hl|]). destruct Hx. }
  rewrite (M 36), (M 95), (M 46) by (simpl; tauto). rewrite N1, N2, N3. cbn [orb].
  assert (D : forallb is_digit (48 :: l :: cs) = false).
  { cbn [forallb]. replace (is_digit l) with false; [reflexivity|].
    simpl in Hl. repeat (destruct Hl as [<-|Hl]; [reflexivity|]). destruct Hl. }
  rewrite D. cbn [andb]. rewrite N.eqb_refl.
  assert (A : is_alpha l = true /\ c_base l = Some (base_of_letter l)).
  { simpl in Hl. repeat (destruct Hl as [<-|Hl]; [split; reflexivity|]). destruct Hl. }
  destruct A as [A1 A2]. rewrite A1, A2. cbn [andb]. rewrite P. reflexivity.
Qed.

(* ------------------------------------------------------------------ the theorem *)
Lemma letters_of_style_c l : style_ok (SC l) = true -> In l [88; 120; 79; 111; 66; 98].
Proof.
  unfold style_ok, ascii_lower. intros H.
  destruct ((65 <=? l) && (l <=? 90)) eqn:E.
  - apply andb_true_iff in E. destruct E as [E1 E2]. apply N.leb_le in E1, E2.
    repeat (apply orb_true_iff in H; destruct H as [H|H]); apply N.eqb_eq in H; simpl;
      [assert (l = 88) by lia | assert (l = 79) by lia | assert (l = 66) by lia]; subst; tauto.
  - repeat (apply orb_true_iff in H; destruct H as [H|H]); apply N.eqb_eq in H; subst; simpl; tauto.
Qed.

Lemma letters_of_style_caret l : style_ok (SCaret l) = true -> In l [88; 120; 79; 111; 66; 98; 68; 100].
Proof.
  unfold style_ok, ascii_lower. intros H.
  destruct ((65 <=? l) && (l <=? 90)) eqn:E.
  - apply andb_true_iff in E. destruct E as [E1 E2]. apply N.leb_le in E1, E2.
    repeat (apply orb_true_iff in H; destruct H as [H|H]); apply N.eqb_eq in H; simpl;
      [assert (l = 88) by lia | assert (l = 79) by lia | assert (l = 66) by lia | assert (l = 68) by lia]; subst; tauto.
  - repeat (apply orb_true_iff in H; destruct H as [H|H]); apply N.eqb_eq in H; subst; simpl; tauto.
Qed.

Lemma kind_base_of_letter l : In l [88; 120; 79; 111; 66; 98; 68; 100] ->
  (kind_of_letter l = "hex"%string /\ base_of_letter l = 16) \/ (kind_of_letter l = "oct"%string /\ base_of_letter l = 8)
  \/ (kind_of_letter l = "bin"%string /\ base_of_letter l = 2) \/ (kind_of_letter l = "dec"%string /\ base_of_letter l = 10).
Proof.
  intros H. simpl in H.
  repeat (destruct H as [<-|H]; [vm_compute; tauto|]). destruct H.
Qed.

Lemma digit_not_alpha c : is_digit c = true -> is_alpha c = false.
Proof.
  unfold is_digit, is_alpha. intros H. apply andb_true_iff in H. destruct H as [Q1 Q2]. apply N.leb_le in Q1, Q2.
  apply orb_false_iff; split; apply andb_false_iff; left; apply N.leb_gt; lia.
Qed.

(* lexing a spelling, with a given sign already consumed *)
Lemma lex_after_sign sign st mask n rest : style_ok st = true -> follow_ok rest = true ->
  match caret_number caret_prefixes sign (spell st mask n ++ rest) with
  | Some r => r
  | None => plain_number sign (spell st mask n ++ rest)
  end = LNumber (sign * Z.of_N n)
          (match st with SOct | SC _ => (sign =? 1)%Z | _ => false end) false false
  /\ skip (spell st mask n ++ rest) = spell st mask n ++ rest
  /\ match spell st mask n ++ rest with 45 :: _ => False | _ => True end.
Proof.
  intros Hs F. destruct st as [| |l|l]; unfold spell.
  - (* octal *)
    pose proof (good_of_digits "oct" 8 mask n ltac:(tauto)) as G.
    destruct (g_head _ _ _ _ G) as [c [r [E [H1 [H2 [H3 H4]]]]]].
    assert (Hd : is_digit c = true).
    { pose proof (g_class _ _ _ _ G) as C. rewrite E in C. simpl in C. apply andb_true_iff in C. destruct C as [C _].
      destruct (octal_chars [c] ltac:(simpl; rewrite C; reflexivity)) as [D _]. simpl in D. rewrite andb_true_r in D. exact D. }
    split; [|split].
    + rewrite E at 1. cbn [app]. rewrite caret_number_none; [|exact H4|apply digit_not_alpha; exact Hd].
      rewrite (plain_number_token sign _ rest c r E Hd (g_tok _ _ _ _ G) F). apply classify_oct. exact G.
    + rewrite E. cbn [app]. apply skip_head; assumption.
    + rewrite E. cbn [app]. destruct (N.eq_dec c 45); [contradiction|].
      destruct c as [|p]; [exact I|]. repeat (destruct p as [p|p|]; try exact I). contradiction.
  - (* decimal with dot *)
    pose proof (good_of_digits "dec" 10 mask n ltac:(tauto)) as G.
    destruct (g_head _ _ _ _ G) as [c [r [E [H1 [H2 [H3 H4]]]]]].
    assert (Hd : is_digit c = true).
    { pose proof (g_class _ _ _ _ G) as C. rewrite E in C. simpl in C. apply andb_true_iff in C. destruct C as [C _]. exact C. }
    set (cs := chars_of mask 0 (digits 10 n)) in *.
    assert (Tk : forallb is_tokch (cs ++ [46]) = true) by (rewrite forallb_app, (g_tok _ _ _ _ G); reflexivity).
    split; [|split].
    + rewrite <- app_assoc. rewrite E at 1. cbn [app]. rewrite caret_number_none; [|exact H4|apply digit_not_alpha; exact Hd].
      replace (cs ++ 46 :: rest) with ((cs ++ [46]) ++ rest) by (rewrite <- app_assoc; reflexivity).
      rewrite (plain_number_token sign (cs ++ [46]) rest c (r ++ [46])); [apply classify_dec; exact G | rewrite E; reflexivity | exact Hd | exact Tk | exact F].
    + rewrite <- app_assoc. rewrite E. cbn [app]. apply skip_head; assumption.
    + rewrite <- app_assoc. rewrite E. cbn [app]. destruct (N.eq_dec c 45); [contradiction|].
      destruct c as [|p]; [exact I|]. repeat (destruct p as [p|p|]; try exact I). contradiction.
  - (* 0x 0o 0b *)
    pose proof (letters_of_style_c l Hs) as Hl.
    assert (Hl8 : In l [88; 120; 79; 111; 66; 98; 68; 100]) by (simpl in *; tauto).
    pose proof (good_of_digits _ _ mask n (kind_base_of_letter l Hl8)) as G.
    set (cs := chars_of mask 0 (digits (base_of_letter l) n)) in *.
    assert (Tk : forallb is_tokch (48 :: l :: cs) = true).
    { cbn [forallb]. rewrite (g_tok _ _ _ _ G). simpl in Hl. repeat (destruct Hl as [<-|Hl]; [reflexivity|]). destruct Hl. }
    split; [|split].
    + cbn [app]. rewrite caret_number_none by (try discriminate; reflexivity).
      change (48 :: l :: cs ++ rest) with ((48 :: l :: cs) ++ rest).
      rewrite (plain_number_token sign (48 :: l :: cs) rest 48 (l :: cs) eq_refl eq_refl Tk F).
      apply classify_c; assumption.
    + cbn [app]. apply skip_head; [reflexivity | discriminate].
    + exact I.
  - (* ^X ^O ^B ^D *)
    pose proof (letters_of_style_caret l Hs) as Hl.
    pose proof (good_of_digits _ _ mask n (kind_base_of_letter l Hl)) as G.
    split; [|split].
    + cbn [app]. rewrite (lex_caret sign l _ rest n Hl G F). reflexivity.
    + cbn [app]. apply skip_head; [reflexivity | discriminate].
    + exact I.
Qed.

Theorem number_spellings st mask n rest : style_ok st = true -> follow_ok rest = true ->
  lex_value (lex_number (spell st mask n ++ rest)) = Some (Z.of_N n) /\
  lex_value (lex_number (45 :: spell st mask n ++ rest)) = Some (- Z.of_N n)%Z.
Proof.
  intros Hs F. split.
  - destruct (lex_after_sign 1 st mask n rest Hs F) as [L [S1 S2]].
    unfold lex_number. rewrite S1.
    destruct (spell st mask n ++ rest) as [|c t] eqn:E.
    + rewrite L. cbn [lex_value]. f_equal; try lia.
    + destruct (N.eq_dec c 45) as [->|Hc]; [contradiction|].
      replace (match c :: t with 45 :: r => ((-1)%Z, skip r) | _ => (1%Z, c :: t) end) with (1%Z, c :: t).
      * rewrite L. cbn [lex_value]. f_equal; try lia.
      * destruct c as [|p]; [reflexivity|]. repeat (destruct p as [p|p|]; try reflexivity). contradiction.
  - destruct (lex_after_sign (-1) st mask n rest Hs F) as [L [S1 S2]].
    unfold lex_number. rewrite skip_head by (try discriminate; reflexivity). rewrite S1.
    rewrite L. cbn [lex_value]. f_equal; try lia.
Qed.
