(* Lemmas about the error latch (Model/Reports.v over Gen/GenReports.v) -- C07. *)
From Coq Require Import String Ascii List NArith ZArith Bool Lia.
From Verif Require Import Gen.GenReports Spec.ReportSpec Model.Reports.
Import ListNotations.
Open Scope string_scope.
Open Scope list_scope.

(* ------------------------------------------------------------------------------------------ *)
(* finite facts about the regenerated decision functions *)

Lemma latch_is_error_severity : forall p, emit_sets_latch p = error_severity (sev_of p).
Proof. destruct p; reflexivity. Qed.

(* only a critical report raises, it raises UnrecoverableError, and it sets the latch first *)
Lemma raises_iff_critical : forall p,
  emit_raises p = match p with PCritical => Some EUnrecoverable | _ => None end.
Proof. destruct p; reflexivity. Qed.

Lemma raises_sets_latch : forall p e, emit_raises p = Some e -> e = EUnrecoverable /\ emit_sets_latch p = true.
Proof. destruct p; simpl; intros e H; inversion H; split; reflexivity. Qed.

(* FilterHandler: exact rule *)
Definition wc_shows (wc : dict) (id : string) : bool :=
  match dict_get id wc with
  | Some b => b
  | None => str_mem id (warning_class "default")
  end.

Definition keeps (wc : dict) (r : priority * string) : bool :=
  negb (is_warning (fst r)) || wc_shows wc (snd r).

Lemma filter_spec : forall wc p id,
  filter_decision wc p id = if keeps wc (p, id) then FDeliver else FDrop.
Proof.
  intros wc p id. unfold filter_decision, keeps, wc_shows, is_warning, dict_mem. cbn [fst snd].
  generalize (str_mem id (warning_class "default")). intros m.
  destruct (priority_eqb p PWarning); cbn [negb orb]; [|reflexivity].
  destruct (dict_get id wc) as [[|]|]; cbn [negb]; try reflexivity.
  destruct m; reflexivity.
Qed.

Lemma filter_never_keyerror : forall wc p id, filter_decision wc p id <> FKeyError.
Proof. intros. rewrite filter_spec. destruct (keeps wc (p, id)); discriminate. Qed.

Lemma errors_always_kept : forall wc p id, is_warning p = false -> keeps wc (p, id) = true.
Proof. intros wc p id H. unfold keeps. simpl. rewrite H. reflexivity. Qed.

(* handle_reports.__exit__ with a nested handler that does not swallow *)
Lemma leave_char : forall l exc,
  exc = None \/ exc = Some ERecoverable \/ exc = Some EUnrecoverable ->
  (with_leave (hr_exit_decision l false exc) exc = LRaise EUnrecoverable <-> l = true \/ exc = Some EUnrecoverable).
Proof.
  intros l exc [H|[H|H]]; subst; destruct l; simpl; split; intros H;
    try reflexivity; try (left; reflexivity); try (right; reflexivity);
    try discriminate; destruct H; discriminate.
Qed.

Lemma leave_normal_char : forall l exc,
  exc = None \/ exc = Some ERecoverable \/ exc = Some EUnrecoverable ->
  (with_leave (hr_exit_decision l false exc) exc = LNormal <-> l = false /\ exc = None).
Proof.
  intros l exc [H|[H|H]]; subst; destruct l; simpl; split; intros H;
    try discriminate; try (split; reflexivity); destruct H; discriminate.
Qed.

Lemma leave_foreign : forall l e,
  e <> ERecoverable -> e <> EUnrecoverable ->
  with_leave (hr_exit_decision l false (Some e)) (Some e) = LRaise e.
Proof.
  intros l e H1 H2. destruct l; destruct e; simpl; try reflexivity; contradiction.
Qed.

(* ------------------------------------------------------------------------------------------ *)
(* the body, independently of the warning control *)

Fixpoint trace_exc (tr : list event) : option exn :=
  match tr with
  | [] => None
  | Return :: _ => None
  | RaiseRecoverable :: _ => Some ERecoverable
  | RaiseUnrecoverable :: _ => Some EUnrecoverable
  | RaiseOther t :: _ => Some (EOther t)
  | Report p _ :: rest => match emit_raises p with Some e => Some e | None => trace_exc rest end
  end.

Lemma run_body_report : forall wc p id rest,
  run_body wc (Report p id :: rest) =
  let fa := filter_decision wc p id in
  match emit_raises p with
  | Some e => mk_body (emit_sets_latch p) (delivered_of fa p id) (Some e) 1
  | None => let r := run_body wc rest in
            mk_body (emit_sets_latch p || b_latch r) (delivered_of fa p id ++ b_delivered r) (b_exc r) (S (b_executed r))
  end.
Proof.
  intros. simpl. pose proof (filter_never_keyerror wc p id) as H.
  destruct (filter_decision wc p id); try reflexivity. contradiction.
Qed.

Lemma body_exc : forall wc tr, b_exc (run_body wc tr) = trace_exc tr.
Proof.
  intros wc tr. induction tr as [|ev rest IH]; [reflexivity|].
  destruct ev; try reflexivity.
  rewrite run_body_report. simpl. destruct (emit_raises p); simpl; [reflexivity|exact IH].
Qed.

Lemma body_latch : forall wc tr, b_latch (run_body wc tr) = has_error (reports_of (executed tr)).
Proof.
  intros wc tr. induction tr as [|ev rest IH]; [reflexivity|].
  destruct ev; try reflexivity.
  rewrite run_body_report. simpl. unfold has_error in *.
  destruct (emit_raises p); simpl; rewrite latch_is_error_severity.
  - rewrite orb_false_r. reflexivity.
  - rewrite IH. reflexivity.
Qed.

Lemma body_executed : forall wc tr, b_executed (run_body wc tr) = length (executed tr).
Proof.
  intros wc tr. induction tr as [|ev rest IH]; [reflexivity|].
  destruct ev; try reflexivity.
  rewrite run_body_report. simpl. destruct (emit_raises p); simpl; [reflexivity|]. rewrite IH. reflexivity.
Qed.

Lemma body_delivered : forall wc tr,
  b_delivered (run_body wc tr) = filter (keeps wc) (reports_of (executed tr)).
Proof.
  intros wc tr. induction tr as [|ev rest IH]; [reflexivity|].
  destruct ev; try reflexivity.
  rewrite run_body_report. simpl. rewrite filter_spec.
  destruct (emit_raises p); simpl; destruct (keeps wc (p, id)); simpl; try reflexivity; rewrite IH; reflexivity.
Qed.

Lemma executed_prefix : forall tr, exists rest, tr = executed tr ++ rest.
Proof.
  induction tr as [|ev tr IH]; [exists []; reflexivity|].
  destruct ev; simpl; try (exists tr; reflexivity).
  destruct (emit_raises p).
  - exists tr. reflexivity.
  - destruct IH as [r Hr]. exists r. simpl. f_equal. exact Hr.
Qed.

(* ------------------------------------------------------------------------------------------ *)
(* C07 *)

(* no exception other than the two report exceptions, and UnrecoverableError only through a
   critical report (never written directly in the body) *)
Definition clean_event (ev : event) : bool :=
  match ev with RaiseOther _ | RaiseUnrecoverable => false | _ => true end.
Definition clean (tr : list event) : bool := forallb clean_event (executed tr).

Lemma clean_exc : forall tr, clean tr = true ->
  trace_exc tr = None \/ trace_exc tr = Some ERecoverable \/
  (trace_exc tr = Some EUnrecoverable /\ has_error (reports_of (executed tr)) = true).
Proof.
  unfold clean. induction tr as [|ev rest IH]; intros H; [left; reflexivity|].
  destruct ev; simpl in *; try discriminate; auto.
  destruct (emit_raises p) eqn:E.
  - apply raises_sets_latch in E. destruct E as [-> E]. right. right. split; [reflexivity|].
    unfold has_error. simpl. rewrite <- latch_is_error_severity, E. reflexivity.
  - simpl in H. destruct (IH H) as [H1|[H1|[H1 H2]]]; auto.
    right. right. split; [exact H1|]. unfold has_error in *. simpl. rewrite H2. apply orb_true_r.
Qed.

Theorem fail_iff_error : forall wc tr, clean tr = true ->
  (r_leave (run_with wc tr) = LRaise EUnrecoverable <-> has_error (reports_of (executed tr)) = true).
Proof.
  intros wc tr Hc. unfold run_with, run_with_sw. simpl.
  rewrite body_exc, body_latch.
  destruct (clean_exc tr Hc) as [H|[H|[H H2]]]; rewrite H.
  - rewrite leave_char by auto. split; [intros [A|A]; [exact A|discriminate]|auto].
  - rewrite leave_char by auto. split; [intros [A|A]; [exact A|discriminate]|auto].
  - rewrite leave_char by auto. split; auto.
Qed.

(* without an error the block is left normally, or by the RecoverableError the body raised *)
Theorem no_error_leaves : forall wc tr, clean tr = true ->
  has_error (reports_of (executed tr)) = false ->
  r_leave (run_with wc tr) = match trace_exc tr with None => LNormal | Some e => LRaise e end /\
  (trace_exc tr = None \/ trace_exc tr = Some ERecoverable).
Proof.
  intros wc tr Hc Hn. unfold run_with, run_with_sw. simpl. rewrite body_exc, body_latch, Hn.
  destruct (clean_exc tr Hc) as [H|[H|[H H2]]]; rewrite H; simpl; auto. congruence.
Qed.

(* the general form: a directly raised UnrecoverableError also leaves that way *)
Definition no_foreign (tr : list event) : bool :=
  forallb (fun ev => match ev with RaiseOther _ => false | _ => true end) (executed tr).

Lemma no_foreign_exc : forall tr, no_foreign tr = true ->
  trace_exc tr = None \/ trace_exc tr = Some ERecoverable \/ trace_exc tr = Some EUnrecoverable.
Proof.
  unfold no_foreign. induction tr as [|ev rest IH]; intros H; [left; reflexivity|].
  destruct ev; simpl in *; try discriminate; auto.
  destruct (emit_raises p) eqn:E.
  - apply raises_sets_latch in E. destruct E as [-> _]. auto.
  - apply IH. exact H.
Qed.

Theorem fail_iff_error_general : forall wc tr, no_foreign tr = true ->
  (r_leave (run_with wc tr) = LRaise EUnrecoverable <->
   has_error (reports_of (executed tr)) = true \/ trace_exc tr = Some EUnrecoverable).
Proof.
  intros wc tr H. unfold run_with, run_with_sw. simpl. rewrite body_exc, body_latch.
  apply leave_char. apply no_foreign_exc. exact H.
Qed.

(* nothing after a critical report is executed *)
Lemma critical_cuts_executed : forall tr1 id t,
  executed (tr1 ++ Report PCritical id :: t) = executed (tr1 ++ [Report PCritical id]).
Proof.
  induction tr1 as [|ev r IH]; intros id t; simpl; [reflexivity|].
  destruct ev; try reflexivity. destruct (emit_raises p); [reflexivity|]. rewrite IH. reflexivity.
Qed.

Lemma critical_cuts_body : forall wc tr1 id t,
  run_body wc (tr1 ++ Report PCritical id :: t) = run_body wc (tr1 ++ [Report PCritical id]).
Proof.
  induction tr1 as [|ev r IH]; intros id t.
  - simpl app. rewrite !run_body_report. reflexivity.
  - simpl app. destruct ev; try reflexivity. rewrite !run_body_report. cbv zeta.
    destruct (emit_raises p); [reflexivity|]. rewrite IH. reflexivity.
Qed.

Theorem critical_aborts : forall wc tr1 id tr2 tr2',
  run_with wc (tr1 ++ Report PCritical id :: tr2) = run_with wc (tr1 ++ Report PCritical id :: tr2') /\
  executed (tr1 ++ Report PCritical id :: tr2) = executed (tr1 ++ [Report PCritical id]).
Proof.
  intros wc tr1 id tr2 tr2'. split; [|apply critical_cuts_executed].
  unfold run_with, run_with_sw. rewrite (critical_cuts_body wc tr1 id tr2), (critical_cuts_body wc tr1 id tr2'). reflexivity.
Qed.

Theorem critical_is_last : forall tr1 id tr2,
  exists pre, executed (tr1 ++ Report PCritical id :: tr2) = pre ++ [Report PCritical id] \/
              (executed (tr1 ++ Report PCritical id :: tr2) = executed tr1 /\ length (executed tr1) <= length tr1 /\
               executed tr1 = pre).
Proof.
  intros tr1 id tr2. induction tr1 as [|ev r IH]; simpl.
  - exists []. left. reflexivity.
  - destruct ev; simpl; try (eexists; right; split; [reflexivity|split; [simpl; lia|reflexivity]]).
    destruct (emit_raises p) eqn:E.
    + eexists; right; split; [reflexivity|split; [simpl; lia|reflexivity]].
    + destruct IH as [pre [H|[H1 [H2 H3]]]].
      * exists (Report p id0 :: pre). left. rewrite H. reflexivity.
      * exists (Report p id0 :: pre). right. rewrite H1, <- H3. split; [reflexivity|]. split; [simpl; lia|reflexivity].
Qed.

(* the filter: latch, exit, number of executed events are those of an empty control; what reaches
   the nested handler is the executed reports minus the warnings that [keeps] rejects *)
Theorem filter_transparent_wc : forall wc tr,
  r_leave (run_with wc tr) = r_leave (run_with [] tr) /\
  r_latch (run_with wc tr) = r_latch (run_with [] tr) /\
  r_executed (run_with wc tr) = r_executed (run_with [] tr) /\
  r_delivered (run_with wc tr) = filter (keeps wc) (reports_of (executed tr)) /\
  filter (fun r => negb (is_warning (fst r))) (r_delivered (run_with wc tr)) =
  filter (fun r => negb (is_warning (fst r))) (reports_of (executed tr)).
Proof.
  intros wc tr. unfold run_with, run_with_sw. simpl.
  rewrite !body_exc, !body_latch, !body_executed, !body_delivered.
  repeat split; try reflexivity.
  induction (reports_of (executed tr)) as [|[p id] l IH]; [reflexivity|].
  simpl. unfold keeps at 1. simpl.
  destruct (is_warning p) eqn:W; simpl.
  - destruct (wc_shows wc id); simpl; [rewrite W; simpl|]; exact IH.
  - rewrite W. simpl. f_equal. exact IH.
Qed.

(* ---- the -W algebra of main_cli against the Spec ("the last mention decides") *)

Lemma class_lookup_spec : forall cs name, class_lookup_in name cs = spec_class name cs.
Proof. induction cs as [|[k v] r IH]; intros; simpl; [reflexivity|]. rewrite IH. reflexivity. Qed.

Lemma substring_all : forall s, substring 0 (String.length s) s = s.
Proof. induction s; simpl; [reflexivity|]. rewrite IHs. reflexivity. Qed.

Local Opaque ascii_dec.
Lemma w_decode_spec : forall arg,
  w_decode arg = match strip_no arg with Some rest => (rest, false) | None => (arg, true) end.
Proof.
  intros arg. unfold w_decode, w_no_prefix, strip_no.
  destruct arg as [|a [|b [|c r]]]; try reflexivity.
  - simpl. destruct (ascii_dec "n" a); reflexivity.
  - simpl. destruct (ascii_dec "n" a); [destruct (ascii_dec "o" b)|]; reflexivity.
  - cbn [String.prefix].
    destruct (ascii_dec "n" a) as [<-|Na].
    + destruct (ascii_dec "o" b) as [<-|Nb].
      * destruct (ascii_dec "-" c) as [<-|Nc].
        -- simpl. rewrite Nat.sub_0_r, substring_all. destruct r; reflexivity.
        -- assert (Ascii.eqb c "-" = false) as E by (apply Ascii.eqb_neq; congruence).
           simpl. rewrite E. reflexivity.
      * assert (Ascii.eqb b "o" = false) as E by (apply Ascii.eqb_neq; congruence).
        simpl. rewrite E. reflexivity.
    + assert (Ascii.eqb a "n" = false) as E by (apply Ascii.eqb_neq; congruence).
      simpl. rewrite E. reflexivity.
Qed.
Local Transparent ascii_dec.

Lemma dict_get_set : forall d k k' v,
  dict_get k (dict_set k' v d) = if String.eqb k' k then Some v else dict_get k d.
Proof.
  induction d as [|[k0 v0] r IH]; intros k k' v; simpl.
  - reflexivity.
  - destruct (String.eqb_spec k0 k') as [->|N]; simpl.
    + destruct (String.eqb k' k); reflexivity.
    + rewrite IH. destruct (String.eqb_spec k0 k) as [->|N2].
      * destruct (String.eqb_spec k' k) as [->|_]; [contradiction|reflexivity].
      * reflexivity.
Qed.

Lemma dict_get_set_all : forall names v d w,
  dict_get w (fold_left (fun d n => dict_set n v d) names d) =
  if existsb (String.eqb w) names then Some v else dict_get w d.
Proof.
  induction names as [|n ns IH]; intros v d w; simpl; [reflexivity|].
  rewrite IH, dict_get_set. rewrite (String.eqb_sym w n).
  destruct (existsb (String.eqb w) ns); [rewrite orb_true_r; reflexivity|].
  rewrite orb_false_r. reflexivity.
Qed.

Lemma w_step_spec : forall d arg w,
  dict_get w (w_step d arg) =
  match mention warning_classes arg w with Some b => Some b | None => dict_get w d end.
Proof.
  intros d arg w. unfold w_step, mention, w_names, names_of, class_lookup. rewrite w_decode_spec.
  destruct (strip_no arg) as [rest|]; rewrite dict_get_set_all, class_lookup_spec;
    match goal with |- context [existsb ?f ?l] => destruct (existsb f l) end; reflexivity.
Qed.

Lemma warning_control_get : forall args d w,
  dict_get w (fold_left w_step args d) =
  match last_mention warning_classes args w with Some b => Some b | None => dict_get w d end.
Proof.
  induction args as [|a rest IH]; intros d w; simpl; [reflexivity|].
  rewrite IH. destruct (last_mention warning_classes rest w); [reflexivity|]. apply w_step_spec.
Qed.

Theorem warning_control_spec : forall args w,
  wc_shows (warning_control_of args) w = spec_warning_shown warning_classes args w.
Proof.
  intros args w. unfold wc_shows, warning_control_of, spec_warning_shown.
  rewrite warning_control_get. cbn [dict_get].
  destruct (last_mention warning_classes args w); [reflexivity|].
  unfold str_mem, warning_class, class_lookup. rewrite class_lookup_spec. reflexivity.
Qed.

Lemma keeps_spec : forall args p id,
  keeps (warning_control_of args) (p, id) = spec_shown warning_classes args (sev_of p) id.
Proof.
  intros. unfold keeps, spec_shown. simpl. rewrite warning_control_spec.
  destruct p; reflexivity.
Qed.

Theorem filter_transparent : forall args tr,
  let r := run_with (warning_control_of args) tr in
  let r0 := run_with [] tr in
  r_leave r = r_leave r0 /\ r_latch r = r_latch r0 /\ r_executed r = r_executed r0 /\
  r_delivered r = filter (fun x => spec_shown warning_classes args (sev_of (fst x)) (snd x)) (reports_of (executed tr)) /\
  filter (fun x => error_severity (sev_of (fst x))) (r_delivered r) =
  filter (fun x => error_severity (sev_of (fst x))) (reports_of (executed tr)).
Proof.
  intros args tr r r0. subst r r0.
  destruct (filter_transparent_wc (warning_control_of args) tr) as [H1 [H2 [H3 [H4 H5]]]].
  repeat split; try assumption.
  - rewrite H4. apply filter_ext. intros [p id]. apply keeps_spec.
  - assert (X : forall l : list (priority * string),
              filter (fun x => error_severity (sev_of (fst x))) l = filter (fun r => negb (is_warning (fst r))) l).
    { intros l. apply filter_ext. intros [p id]. destruct p; reflexivity. }
    rewrite !X. exact H5.
Qed.

(* an exception that is neither of the two report exceptions leaves the block unchanged: it is
   never turned into a clean failure (UnrecoverableError) nor swallowed *)
Theorem foreign_exception_propagates : forall wc tr e,
  trace_exc tr = Some e -> e <> ERecoverable -> e <> EUnrecoverable ->
  r_leave (run_with wc tr) = LRaise e.
Proof.
  intros wc tr e H N1 N2. unfold run_with, run_with_sw. simpl. rewrite body_exc, H.
  apply leave_foreign; assumption.
Qed.

(* ---- main_cli *)

(* discipline of the package: RecoverableError is only raised after an error was reported *)
Definition disciplined (tr : list event) : bool :=
  clean tr && (match trace_exc tr with Some ERecoverable => has_error (reports_of (executed tr)) | _ => true end).

Lemma block_status : forall wc tr, disciplined tr = true ->
  (r_leave (run_with wc tr) = LNormal /\ has_error (reports_of (executed tr)) = false) \/
  (r_leave (run_with wc tr) = LRaise EUnrecoverable /\ has_error (reports_of (executed tr)) = true).
Proof.
  intros wc tr H. unfold disciplined in H. apply andb_true_iff in H. destruct H as [Hc Hd].
  destruct (has_error (reports_of (executed tr))) eqn:E.
  - right. split; [|reflexivity]. apply fail_iff_error; assumption.
  - left. split; [|reflexivity].
    destruct (no_error_leaves wc tr Hc E) as [H1 [H2|H2]]; rewrite H1, H2; [reflexivity|].
    rewrite H2 in Hd. discriminate.
Qed.

(* ---- the second block: Compiler.emit_files *)
Definition make_ok (w : make_write) : bool := match w with WOk => true | _ => false end.
Definition make_crash (w : make_write) : bool := match w with WCrash => true | _ => false end.

Lemma emit_trace_ok : forall ws, forallb make_ok ws = true -> emit_trace ws = [Return].
Proof.
  induction ws as [|w r IH]; simpl; intros H; [reflexivity|].
  destruct w; simpl in H; try discriminate. apply IH. exact H.
Qed.

Lemma emit_written_ok : forall ws i, forallb make_ok ws = true -> emit_written i ws = seq i (length ws).
Proof.
  induction ws as [|w r IH]; simpl; intros i H; [reflexivity|].
  destruct w; simpl in H; try discriminate. rewrite IH by exact H. reflexivity.
Qed.

Lemma emit_exc : forall ws, trace_exc (emit_trace ws) = None \/ trace_exc (emit_trace ws) = Some (EOther 2).
Proof.
  induction ws as [|w r IH]; simpl; [left; reflexivity|].
  destruct w; simpl; auto.
Qed.

(* latch of the second block: a write failure was reported before any crash *)
Definition emit_reported (ws : list make_write) : bool := has_error (reports_of (executed (emit_trace ws))).

Lemma emit_not_ok : forall ws, forallb make_ok ws = false ->
  emit_reported ws = true \/ trace_exc (emit_trace ws) = Some (EOther 2).
Proof.
  unfold emit_reported. induction ws as [|w r IH]; simpl; intros H; [discriminate|].
  destruct w; simpl in *; auto.
Qed.

Lemma emit_reported_not_ok : forall ws, emit_reported ws = true -> forallb make_ok ws = false.
Proof.
  intros ws H. destruct (forallb make_ok ws) eqn:E; [|reflexivity].
  unfold emit_reported in H. rewrite (emit_trace_ok ws E) in H. discriminate.
Qed.

Lemma block2_ok : forall wc ws, forallb make_ok ws = true ->
  r_leave (run_with wc (emit_trace ws)) = LNormal /\ r_latch (run_with wc (emit_trace ws)) = false /\
  r_delivered (run_with wc (emit_trace ws)) = [].
Proof. intros wc ws H. rewrite (emit_trace_ok ws H). repeat split; reflexivity. Qed.

Lemma block2_fails : forall wc ws, forallb make_ok ws = false ->
  exists e, r_leave (run_with wc (emit_trace ws)) = LRaise e /\ cli_status_of (LRaise e) = 1%Z /\
  r_latch (run_with wc (emit_trace ws)) = emit_reported ws.
Proof.
  intros wc ws H. unfold run_with, run_with_sw, emit_reported. cbn [r_leave r_latch].
  rewrite body_exc, body_latch.
  destruct (emit_not_ok ws H) as [L|X].
  - unfold emit_reported in L. rewrite L. destruct (emit_exc ws) as [E|E]; rewrite E.
    + exists EUnrecoverable. repeat split; reflexivity.
    + exists (EOther 2). repeat split; reflexivity.
  - rewrite X. destruct (has_error (reports_of (executed (emit_trace ws)))); exists (EOther 2); repeat split; reflexivity.
Qed.

(* ---- main_cli with its writes *)
Definition err1 (tr1 : list event) : bool := has_error (reports_of (executed tr1)).
Definition make_fails (env : cli_env) : bool := negb (forallb make_ok (e_make env)).
Definition post_fails (env : cli_env) : bool :=
  match e_out env with
  | PFail | PCrash => true
  | _ => match e_lst env with PFail | PCrash => true | _ => false end
  end.
(* every way in which the run ends with a non-zero status *)
Definition cli_fails (tr1 : list event) (env : cli_env) : bool :=
  e_pre_fail env || err1 tr1 || make_fails env || post_fails env.
(* ... and those among them that issue no error-severity report *)
Definition silent_failure (tr1 : list event) (env : cli_env) : bool :=
  e_pre_fail env ||
  (negb (err1 tr1) && (existsb make_crash (e_make env) || (forallb make_ok (e_make env) && post_fails env))).
(* everything that was asked for *)
Definition requested (env : cli_env) : list nat :=
  seq 0 (length (e_make env)) ++ (match e_out env with POk => [length (e_make env)] | _ => [] end)
  ++ (match e_lst env with POk => [S (length (e_make env))] | _ => [] end).

Lemma crash_not_ok : forall ws, existsb make_crash ws = true -> forallb make_ok ws = false.
Proof.
  induction ws as [|w r IH]; simpl; intros H; [discriminate|].
  destruct w; simpl in *; auto.
Qed.

Lemma not_ok_reported_or_crash : forall ws, forallb make_ok ws = false -> emit_reported ws = true \/ existsb make_crash ws = true.
Proof.
  unfold emit_reported. induction ws as [|w r IH]; simpl; intros H; [discriminate|].
  destruct w; simpl in *; auto.
Qed.

Lemma crash_not_ok_contra : forall ws, forallb make_ok ws = true -> existsb make_crash ws = false.
Proof.
  intros ws H. destruct (existsb make_crash ws) eqn:E; [|reflexivity].
  apply crash_not_ok in E. congruence.
Qed.

Theorem cli_status : forall args tr1 env, disciplined tr1 = true ->
  let c := cli_run args tr1 env in
  (c_status c <> 0%Z <-> cli_fails tr1 env = true) /\
  (c_status c = 0%Z \/ c_status c = 1%Z) /\
  (c_error_reported c = true -> c_status c <> 0%Z) /\
  (c_status c <> 0%Z <-> c_error_reported c = true \/ silent_failure tr1 env = true).
Proof.
  intros args tr1 env D. unfold cli_run, cli_fails, silent_failure, make_fails, post_fails, err1. cbv zeta.
  destruct (e_pre_fail env); cbn [orb].
  { cbn. repeat split; auto; try discriminate. }
  destruct (block_status (warning_control_of args) tr1 D) as [[L E]|[L E]]; rewrite L, E; cbv iota; cbn [orb negb andb].
  2: { assert (B : r_latch (run_with (warning_control_of args) tr1) = true).
       { unfold run_with, run_with_sw. cbn [r_latch]. rewrite body_latch. exact E. }
       rewrite B. cbn. repeat split; auto; try discriminate. }
  assert (B : r_latch (run_with (warning_control_of args) tr1) = false).
  { unfold run_with, run_with_sw. cbn [r_latch]. rewrite body_latch. exact E. }
  rewrite B. cbn [orb].
  destruct (forallb make_ok (e_make env)) eqn:M; cbn [negb orb andb].
  - destruct (block2_ok (warning_control_of args) (e_make env) M) as [L2 [T2 _]]. rewrite L2, T2.
    rewrite (crash_not_ok_contra (e_make env) M).
    destruct (e_out env); destruct (e_lst env); cbn;
      repeat split; auto; try discriminate; try (intros [H|H]; discriminate); try (intros H; exfalso; apply H; reflexivity).
  - destruct (block2_fails (warning_control_of args) (e_make env) M) as [e [L2 [S2 T2]]]. rewrite L2, T2.
    assert (S2' : cli_status_of (LRaise e) <> 0%Z) by (rewrite S2; discriminate).
    destruct (not_ok_reported_or_crash (e_make env) M) as [R|R]; rewrite ?R.
    + cbn [c_status c_error_reported]. repeat split; auto; try (rewrite S2; right; reflexivity).
    + cbn [c_status c_error_reported]. rewrite ?R. repeat split; auto; try (rewrite S2; right; reflexivity);
        try (intros _; right; reflexivity).
Qed.

(* a failure of the assembly proper (or before it) leaves nothing behind *)
Theorem cli_no_files_when_assembly_fails : forall args tr1 env, disciplined tr1 = true ->
  e_pre_fail env = true \/ err1 tr1 = true ->
  c_written (cli_run args tr1 env) = [] /\ c_status (cli_run args tr1 env) <> 0%Z.
Proof.
  intros args tr1 env D H. unfold cli_run, err1 in *. cbv zeta.
  destruct (e_pre_fail env); [split; [reflexivity|discriminate]|].
  destruct H as [H|H]; [discriminate|].
  destruct (block_status (warning_control_of args) tr1 D) as [[L E]|[L E]]; [congruence|].
  rewrite L. split; [reflexivity|discriminate].
Qed.

(* a run that ends with status 0 reported no error and wrote everything that was asked for *)
Theorem cli_success_writes_all : forall args tr1 env, disciplined tr1 = true ->
  c_status (cli_run args tr1 env) = 0%Z ->
  c_written (cli_run args tr1 env) = requested env /\ c_error_reported (cli_run args tr1 env) = false /\ err1 tr1 = false.
Proof.
  intros args tr1 env D. unfold cli_run, requested, err1. cbv zeta.
  destruct (e_pre_fail env); [discriminate|].
  destruct (block_status (warning_control_of args) tr1 D) as [[L E]|[L E]]; rewrite L; cbv iota; [|discriminate].
  assert (B : r_latch (run_with (warning_control_of args) tr1) = false).
  { unfold run_with, run_with_sw. cbn [r_latch]. rewrite body_latch. exact E. }
  rewrite B.
  destruct (forallb make_ok (e_make env)) eqn:M.
  - destruct (block2_ok (warning_control_of args) (e_make env) M) as [L2 [T2 _]]. rewrite L2, T2.
    rewrite (emit_written_ok _ 0 M).
    destruct (e_out env); destruct (e_lst env); cbn; intros H; try discriminate;
      rewrite ?app_nil_r, <- ?app_assoc; repeat split; auto.
  - destruct (block2_fails (warning_control_of args) (e_make env) M) as [e [L2 [S2 _]]]. rewrite L2.
    cbn [c_status]. rewrite S2. discriminate.
Qed.

(* ---- several make_* directives on one path: source order, the last successful writer wins *)
Definition no_crash (ws : list (N * make_write)) : bool :=
  forallb (fun pw => match snd pw with WCrash => false | _ => true end) ws.

Lemma emit_disk_snoc : forall ws i disk p w, no_crash ws = true ->
  emit_disk i (ws ++ [(p, w)]) disk =
  match w with
  | WOk => fun q => if N.eqb q p then Some (i + length ws)%nat else emit_disk i ws disk q
  | _ => emit_disk i ws disk
  end.
Proof.
  induction ws as [|[p0 w0] r IH]; intros i disk p w H; simpl.
  - destruct w; try reflexivity. rewrite Nat.add_0_r. reflexivity.
  - simpl in H. destruct w0; simpl in H; try discriminate.
    + rewrite IH by exact H. destruct w; try reflexivity.
      replace (S i + length r)%nat with (i + S (length r))%nat by lia. reflexivity.
    + rewrite IH by exact H. destruct w; try reflexivity.
      replace (S i + length r)%nat with (i + S (length r))%nat by lia. reflexivity.
Qed.

Theorem emit_last_writer_wins : forall ws p w disk, no_crash ws = true ->
  (w = WOk -> emit_disk 0 (ws ++ [(p, w)]) disk p = Some (length ws)) /\
  (forall q, q <> p \/ w <> WOk -> emit_disk 0 (ws ++ [(p, w)]) disk q = emit_disk 0 ws disk q).
Proof.
  intros ws p w disk H. rewrite (emit_disk_snoc ws 0 disk p w H). split.
  - intros ->. rewrite N.eqb_refl. reflexivity.
  - intros q [N|N]; destruct w; try reflexivity; try contradiction.
    destruct (N.eqb_spec q p); [contradiction|reflexivity].
Qed.
