(* Lemmas about the module-level state (Model/GState.v over Gen/GenGState.v) -- C18. *)
From Coq Require Import String List NArith ZArith Bool Lia Permutation.
From Verif Require Import Gen.GenReports Gen.GenGState Model.GState.
Import ListNotations.
Open Scope Z_scope.

(* equality of module-level states as far as they are RESTORED: depth, the two stacks and the is_awaiting flags
   (compared object by object).  try_compute.not_ready_yet ([nry]) is deliberately not part of it: it is not
   restored -- it is replaced on the next outermost __enter__ and only read while speculating, see [agree]. *)
Definition gstate_eq (a b : gstate) : Prop :=
  depth a = depth b /\ awaiting a = awaiting b /\ handlers a = handlers b /\ (forall d, flags a d = flags b d) /\
  length (fcs a) = length (fcs b).
(* (the CONTENT of Awaiting.known_cycles / found_cycles_stack is handled by [wf] below: it is empty whenever
   awaiting_stack is) *)

Lemma gstate_eq_refl : forall a, gstate_eq a a.
Proof. intros a. repeat split; reflexivity. Qed.

Lemma gstate_eq_sym : forall a b, gstate_eq a b -> gstate_eq b a.
Proof. intros a b [H1 [H2 [H3 [H4 H5]]]]. repeat split; auto. Qed.

Lemma gstate_eq_trans : forall a b c, gstate_eq a b -> gstate_eq b c -> gstate_eq a c.
Proof.
  intros a b c [A1 [A2 [A3 [A4 A5]]]] [B1 [B2 [B3 [B4 B5]]]].
  split; [congruence|]. split; [congruence|]. split; [congruence|]. split; [|congruence].
  intros d. rewrite A4. apply B4.
Qed.

Ltac unfold_steps :=
  unfold enter, exit_cm, lift_enter, try_enter, try_exit, await_enter, await_exit, hr_enter, hr_exit_pop,
         sbind, add_depth, set_flag, guard_not_awaiting, push_awaiting, pop_assert_awaiting,
         push_handler, pop_assert_handler, reset_nry_at_depth0, push_cycles_frame in *.

(* __enter__ raising leaves the state as it was (and __exit__ is not called) *)
Lemma enter_raise_unchanged : forall c s e s',
  enter c s = EnterRaise e s' -> gstate_eq (g s') (g s) /\ e = EDeferredCycle.
Proof.
  intros c [[dp aw fl hs nr kc0 fc] ls] e s' H. destruct c; unfold_steps; simpl in H.
  - discriminate.
  - destruct (fl d || kc_mem d _); inversion H; subst. split; [apply gstate_eq_refl|reflexivity].
  - discriminate.
Qed.

(* if the body restored the state, __exit__ restores what __enter__ changed *)
Lemma with_restores : forall c s s1, enter c s = EnterOk s1 ->
  forall s2 exc, gstate_eq (g s2) (g s1) ->
  gstate_eq (g (snd (exit_cm c exc s2))) (g s).
Proof.
  intros c [[dp aw fl hs nr kc0 fc] ls] s1 He [[dp2 aw2 fl2 hs2 nr2 kc2 fc2] ls2] exc [E1 [E2 [E3 [E4 E5]]]].
  destruct c; unfold_steps; simpl in *.
  - inversion He; subst; simpl in *. subst. repeat split; simpl; try reflexivity; try lia; assumption.
  - destruct (fl d || kc_mem d _) eqn:F0; inversion He; subst; simpl in *. subst.
    apply orb_false_iff in F0. destruct F0 as [F _].
    rewrite N.eqb_refl. simpl. destruct fc2 as [|l r]; simpl in E5; [discriminate|]. unfold pop_cycles_frame. simpl.
    assert (X : forall x, (if (x =? d)%N then false else fl2 x) = fl x).
    { intros x. rewrite E4. destruct (N.eqb_spec x d) as [->|N]; [rewrite F|]; reflexivity. }
    destruct (exc_is exc EDeferredCycle); [destruct r as [|parent r']|]; simpl in *;
      repeat split; simpl; try reflexivity; try lia; exact X.
  - inversion He; subst; simpl in *. subst.
    rewrite N.eqb_refl. destruct ox; simpl; repeat split; simpl; try reflexivity; assumption.
Qed.

Lemma wait_record_core : forall d x, gstate_eq (wait_record d x) x.
Proof. intros d x. unfold wait_record. destruct (depth x >? 0); repeat split; reflexivity. Qed.

Lemma remember_core : forall d x, gstate_eq (remember_cycle d x) x.
Proof.
  intros d x. unfold remember_cycle. destruct (fcs x) as [|l r] eqn:F; [apply gstate_eq_refl|].
  destruct (kc_mem d x); [apply gstate_eq_refl|]. repeat split; simpl; try reflexivity. rewrite F. reflexivity.
Qed.

Theorem state_restored : forall p s, gstate_eq (g (snd (eval p s))) (g s).
Proof.
  induction p; intros s; simpl.
  - apply gstate_eq_refl.
  - apply gstate_eq_refl.
  - apply gstate_eq_refl.
  - destruct (not_ready_raises (g s)); [apply gstate_eq_refl|apply IHp].
  - destruct (top_handler (g s)); [|apply gstate_eq_refl].
    destruct (emit_sets_latch p); destruct (emit_raises p); simpl; try apply gstate_eq_refl;
      (eapply gstate_eq_trans; [apply IHp|apply gstate_eq_refl]).
  - destruct (flags (g s) d); [apply IHp1|apply IHp2].
  - eapply gstate_eq_trans; [apply IHp|]. simpl. apply remember_core.
  - pose proof (IHp1 s) as H1. destruct (eval p1 s) as [o s']. simpl in H1.
    destruct o; try exact H1; (eapply gstate_eq_trans; [apply IHp2|exact H1]).
  - destruct (wait_blocked d (g s)); [apply gstate_eq_refl|].
    destruct (await_enter d (g s)) as [g1|e g'] eqn:En.
    + assert (En' : enter (CAwait d) s = EnterOk (mk_mstate g1 (latches s))) by (unfold enter, lift_enter; rewrite En; reflexivity).
      pose proof (IHp1 (mk_mstate g1 (latches s))) as H1. destruct (eval p1 (mk_mstate g1 (latches s))) as [o s2]. simpl in H1.
      set (s2' := match o with ORaise ENotReady => mk_mstate (wait_record d (g s2)) (latches s2) | _ => s2 end).
      assert (H2 : gstate_eq (g s2') g1).
      { subst s2'. destruct o as [| |[]]; try exact H1. simpl. eapply gstate_eq_trans; [apply wait_record_core|exact H1]. }
      pose proof (with_restores (CAwait d) s _ En' s2' (match o with ORaise e => Some e | _ => None end) H2) as R. unfold exit_cm in R.
      destruct (await_exit d (match o with ORaise e => Some e | _ => None end) (g s2')) as [g3|e' g3]; simpl in R.
      * destruct o as [| |e]; [eapply gstate_eq_trans; [apply IHp2|exact R]|eapply gstate_eq_trans; [apply IHp2|exact R]|].
        destruct e; simpl; try exact R. eapply gstate_eq_trans; [apply remember_core|exact R].
      * destruct e'; simpl; try exact R. eapply gstate_eq_trans; [apply remember_core|exact R].
    + assert (En' : enter (CAwait d) s = EnterRaise e (mk_mstate g' (latches s))) by (unfold enter, lift_enter; rewrite En; reflexivity).
      destruct (enter_raise_unchanged _ _ _ _ En') as [U ->]. simpl.
      eapply gstate_eq_trans; [apply remember_core|exact U].
  - destruct (enter c s) as [s1|e s'] eqn:En.
    + pose proof (IHp1 s1) as H1. destruct (eval p1 s1) as [o s2]. simpl in H1.
      pose proof (with_restores c s s1 En s2 (match o with ORaise e => Some e | _ => None end) H1) as R.
      destruct (exit_cm c (match o with ORaise e => Some e | _ => None end) s2) as [act s3]. simpl in R.
      destruct act as [e'|sw]; [exact R|].
      destruct o; [eapply gstate_eq_trans; [apply IHp2|exact R]|exact R|].
      destruct sw; [eapply gstate_eq_trans; [apply IHp2|exact R]|exact R].
    + simpl. apply (enter_raise_unchanged c s e s' En).
Qed.

Corollary history_restored : forall hist s, gstate_eq (g (run_all hist s)) (g s).
Proof.
  induction hist as [|p rest IH]; intros s; simpl; [apply gstate_eq_refl|].
  eapply gstate_eq_trans; [apply IH|apply state_restored].
Qed.

(* ------------------------------------------------------------------------------------------ *)
(* the outcome of a program depends on the module-level state and on the latches of the
   handle_reports instances that are on the stack -- on nothing else *)
Definition nry_ok (a b : gstate) : Prop :=
  (depth a > 0 -> nry a = nry b) /\ kc a = kc b /\ fcs a = fcs b.
Definition agree (s1 s2 : mstate) : Prop :=
  gstate_eq (g s1) (g s2) /\
  (forall h, In h (handlers (g s1)) -> latches s1 h = latches s2 h) /\
  nry_ok (g s1) (g s2).
(* [nry_ok]: not_ready_yet has to agree only while speculating (depth > 0); at depth 0 it is dead data:
   every read is guarded by depth > 0 and every way to depth > 0 passes __enter__ at depth 0, which replaces it.
   The cycle memo (known_cycles, found_cycles_stack) has to agree -- and it does between runs: both are empty
   whenever awaiting_stack is ([wf] below). *)

Lemma enter_congr : forall c s1 s2, agree s1 s2 ->
  match enter c s1, enter c s2 with
  | EnterOk a, EnterOk b => agree a b
  | EnterRaise e a, EnterRaise e' b => e = e' /\ agree a b
  | _, _ => False
  end.
Proof.
  intros c [[dp aw fl hs nr kc0 fc] ls] [[dp2 aw2 fl2 hs2 nr2 kc2 fc2] ls2] [[E1 [E2 [E3 [E4 E5]]]] [L [NR [KC FC]]]]. simpl in *. subst.
  destruct c; unfold_steps; simpl.
  - split; [repeat split; simpl; auto|]. split; [exact L|]. split; [|split; reflexivity]. simpl. intros H.
    destruct (Z.eqb_spec dp2 0); [reflexivity|apply NR; lia].
  - rewrite <- (E4 d). unfold kc_mem. simpl. destruct (fl d || existsb (N.eqb d) kc2).
    + split; [reflexivity|]. split; [repeat split; simpl; auto|]. split; [exact L|]. split; [exact NR|split; reflexivity].
    + split; [repeat split; simpl; auto|]. { intros x. rewrite E4. reflexivity. } split; [exact L|]. split; [exact NR|split; reflexivity].
  - split; [repeat split; simpl; auto|]. split; [|split; [exact NR|split; reflexivity]]. simpl. intros x [<-|Hx]; unfold set_latch.
    + rewrite N.eqb_refl. reflexivity.
    + destruct (N.eqb x h); [reflexivity|apply L; exact Hx].
Qed.

Lemma exit_congr : forall c exc s1 s2, agree s1 s2 ->
  fst (exit_cm c exc s1) = fst (exit_cm c exc s2) /\ agree (snd (exit_cm c exc s1)) (snd (exit_cm c exc s2)).
Proof.
  intros c exc [[dp aw fl hs nr kc0 fc] ls] [[dp2 aw2 fl2 hs2 nr2 kc2 fc2] ls2] [[E1 [E2 [E3 [E4 E5]]]] [L [NR [KC FC]]]]. simpl in *. subst.
  destruct c; unfold_steps; simpl.
  - split; [reflexivity|]. split; [repeat split; simpl; auto|]. split; [exact L|]. split; [|split; reflexivity]. simpl. intros H. apply NR. lia.
  - destruct aw2 as [|top rest]; simpl.
    + split; [reflexivity|]. split; [repeat split; simpl; auto|]. split; [exact L|]. split; [exact NR|split; reflexivity].
    + destruct (N.eqb top d); simpl.
      * unfold pop_cycles_frame. simpl.
        destruct fc2 as [|l r]; simpl; [|destruct (exc_is exc EDeferredCycle); [destruct r as [|parent r']|]; simpl];
          (split; [reflexivity|]); (split; [repeat split; simpl; auto|split; [exact L|split; [exact NR|split; reflexivity]]]);
          intros x; rewrite E4; reflexivity.
      * split; [reflexivity|]. split; [repeat split; simpl; auto|split; [exact L|split; [exact NR|split; reflexivity]]].
  - destruct hs2 as [|top rest]; simpl.
    + split; [reflexivity|]. split; [repeat split; simpl; auto|]. split; [exact L|]. split; [exact NR|split; reflexivity].
    + assert (L' : forall x, In x rest -> ls x = ls2 x) by (intros x Hx; apply L; right; exact Hx).
      destruct (N.eqb_spec top h) as [->|N]; simpl.
      * rewrite (L h (or_introl eq_refl)).
        destruct ox; simpl; (split; [reflexivity|]); (split; [repeat split; simpl; auto|split; [exact L'|split; [exact NR|split; reflexivity]]]).
      * split; [reflexivity|]. split; [repeat split; simpl; auto|split; [exact L'|split; [exact NR|split; reflexivity]]].
Qed.

Lemma agree_g : forall s1 s2, agree s1 s2 -> gstate_eq (g s1) (g s2).
Proof. intros s1 s2 [H _]. exact H. Qed.

(* BaseDeferred.wait: the two places that touch not_ready_yet *)
Lemma wait_blocked_congr : forall d s1 s2, agree s1 s2 -> wait_blocked d (g s1) = wait_blocked d (g s2).
Proof.
  intros d s1 s2 [[E1 _] [_ [NR _]]]. unfold wait_blocked, nry_mem. rewrite <- E1.
  destruct (Z.gtb_spec (depth (g s1)) 0); [|reflexivity]. rewrite (NR ltac:(lia)). reflexivity.
Qed.

Lemma wait_record_congr : forall d s1 s2, agree s1 s2 ->
  agree (mk_mstate (wait_record d (g s1)) (latches s1)) (mk_mstate (wait_record d (g s2)) (latches s2)).
Proof.
  intros d s1 s2 [[E1 [E2 [E3 [E4 E5]]]] [L [NR [KC FC]]]]. unfold wait_record, nry_mem, nry_ok in *. rewrite <- E1.
  destruct (Z.gtb_spec (depth (g s1)) 0) as [P|P]; simpl.
  - rewrite <- (NR ltac:(lia)). split; [repeat split; simpl; auto|]. split; [exact L|]. split; [intros _; reflexivity|split; assumption].
  - split; [repeat split; auto|]. split; [exact L|]. split; [exact NR|split; assumption].
Qed.

Lemma await_enter_congr : forall d s1 s2, agree s1 s2 ->
  match await_enter d (g s1), await_enter d (g s2) with
  | SOk a, SOk b => agree (mk_mstate a (latches s1)) (mk_mstate b (latches s2))
  | SRaise e a, SRaise e' b => e = e' /\ agree (mk_mstate a (latches s1)) (mk_mstate b (latches s2))
  | _, _ => False
  end.
Proof.
  intros d s1 s2 A. pose proof (enter_congr (CAwait d) s1 s2 A) as H. unfold enter, lift_enter in H.
  destruct (await_enter d (g s1)); destruct (await_enter d (g s2)); exact H.
Qed.

Lemma await_exit_congr : forall d exc s1 s2, agree s1 s2 ->
  match await_exit d exc (g s1), await_exit d exc (g s2) with
  | SOk a, SOk b => agree (mk_mstate a (latches s1)) (mk_mstate b (latches s2))
  | SRaise e a, SRaise e' b => e = e' /\ agree (mk_mstate a (latches s1)) (mk_mstate b (latches s2))
  | _, _ => False
  end.
Proof.
  intros d exc s1 s2 A. pose proof (exit_congr (CAwait d) exc s1 s2 A) as [H1 H2]. unfold exit_cm in *.
  destruct (await_exit d exc (g s1)); destruct (await_exit d exc (g s2)); simpl in *; try discriminate; try exact H2.
  inversion H1. split; [reflexivity|exact H2].
Qed.

Lemma remember_congr : forall d s1 s2, agree s1 s2 ->
  agree (mk_mstate (remember_cycle d (g s1)) (latches s1)) (mk_mstate (remember_cycle d (g s2)) (latches s2)).
Proof.
  intros d s1 s2 A. pose proof A as [[E1 [E2 [E3 [E4 E5]]]] [L [NR [KC FC]]]]. unfold remember_cycle, kc_mem. rewrite <- FC, <- KC.
  destruct (fcs (g s1)) as [|l r] eqn:F; [exact A|].
  destruct (existsb (N.eqb d) (kc (g s1))); [exact A|].
  split; [repeat split; simpl; auto|]. split; [exact L|]. split; [exact NR|split; reflexivity].
Qed.

Theorem eval_congr : forall p s1 s2, agree s1 s2 ->
  fst (eval p s1) = fst (eval p s2) /\ agree (snd (eval p s1)) (snd (eval p s2)).
Proof.
  induction p; intros s1 s2 A; simpl.
  - split; [reflexivity|exact A].
  - split; [reflexivity|exact A].
  - split; [reflexivity|exact A].
  - pose proof A as [[E1 _] _]. unfold not_ready_raises. rewrite E1.
    destruct (depth (g s2) >? 0); cbn [fst snd]; [split; [reflexivity|exact A]|]. apply IHp. exact A.
  - pose proof A as [G [L NR]]. pose proof G as [E1 [E2 [E3 [E4 E5]]]]. unfold top_handler. rewrite <- E3.
    destruct (handlers (g s1)) as [|h rest] eqn:Hs; simpl.
    + split; [reflexivity|exact A].
    + assert (A' : agree (if emit_sets_latch p then mk_mstate (g s1) (set_latch h true (latches s1)) else s1)
                         (if emit_sets_latch p then mk_mstate (g s2) (set_latch h true (latches s2)) else s2)).
      { destruct (emit_sets_latch p); [|exact A].
        split; [exact G|]. split; [|exact NR]. simpl. intros x Hx. unfold set_latch.
        destruct (N.eqb x h); [reflexivity|apply L; rewrite <- Hs; exact Hx]. }
      destruct (emit_raises p); [split; [reflexivity|exact A']|]. apply IHp. exact A'.
  - pose proof A as [[_ [_ [_ [E4 _]]]] _]. rewrite <- (E4 d).
    destruct (flags (g s1) d); [apply IHp1|apply IHp2]; exact A.
  - apply IHp. apply remember_congr. exact A.
  - destruct (IHp1 s1 s2 A) as [O A1].
    destruct (eval p1 s1) as [o1 t1]; destruct (eval p1 s2) as [o2 t2]. simpl in *. subst o2.
    destruct o1; [apply IHp2; exact A1|apply IHp2; exact A1|split; [reflexivity|exact A1]].
  - rewrite <- (wait_blocked_congr d s1 s2 A).
    destruct (wait_blocked d (g s1)); [split; [reflexivity|exact A]|].
    pose proof (await_enter_congr d s1 s2 A) as En.
    destruct (await_enter d (g s1)) as [a|e a]; destruct (await_enter d (g s2)) as [b|e' b]; try contradiction.
    + destruct (IHp1 _ _ En) as [O A1].
      destruct (eval p1 (mk_mstate a (latches s1))) as [o1 t1]; destruct (eval p1 (mk_mstate b (latches s2))) as [o2 t2].
      simpl in O, A1. subst o2.
      set (t1' := match o1 with ORaise ENotReady => mk_mstate (wait_record d (g t1)) (latches t1) | _ => t1 end).
      set (t2' := match o1 with ORaise ENotReady => mk_mstate (wait_record d (g t2)) (latches t2) | _ => t2 end).
      assert (A2 : agree t1' t2').
      { subst t1' t2'. destruct o1 as [| |[]]; try exact A1. apply wait_record_congr. exact A1. }
      pose proof (await_exit_congr d (match o1 with ORaise e => Some e | _ => None end) t1' t2' A2) as Ex.
      destruct (await_exit d (match o1 with ORaise e => Some e | _ => None end) (g t1')) as [u|e1 u];
        destruct (await_exit d (match o1 with ORaise e => Some e | _ => None end) (g t2')) as [v|e2 v]; try contradiction.
      * destruct o1 as [| |e]; [apply IHp2; exact Ex|apply IHp2; exact Ex|].
        destruct e; simpl; try (split; [reflexivity|exact Ex]). split; [reflexivity|]. apply (remember_congr d _ _ Ex).
      * destruct Ex as [-> Ex]. destruct e2; simpl; try (split; [reflexivity|exact Ex]). split; [reflexivity|]. apply (remember_congr d _ _ Ex).
    + destruct En as [-> A1]. destruct e'; simpl; try (split; [reflexivity|exact A1]). split; [reflexivity|]. apply (remember_congr d _ _ A1).
  - pose proof (enter_congr c s1 s2 A) as En.
    destruct (enter c s1) as [a|e a]; destruct (enter c s2) as [b|e' b]; try contradiction.
    + destruct (IHp1 a b En) as [O A1].
      destruct (eval p1 a) as [o1 t1]; destruct (eval p1 b) as [o2 t2]. simpl in *. subst o2.
      destruct (exit_congr c (match o1 with ORaise e => Some e | _ => None end) t1 t2 A1) as [X A2].
      destruct (exit_cm c (match o1 with ORaise e => Some e | _ => None end) t1) as [act1 u1].
      destruct (exit_cm c (match o1 with ORaise e => Some e | _ => None end) t2) as [act2 u2].
      simpl in *. subst act2.
      destruct act1 as [e'|sw]; [split; [reflexivity|exact A2]|].
      destruct o1; [apply IHp2; exact A2|split; [reflexivity|exact A2]|].
      destruct sw; [apply IHp2; exact A2|split; [reflexivity|exact A2]].
    + destruct En as [-> A1]. split; [reflexivity|exact A1].
Qed.

(* the latch lives on the handle_reports instance: what a program does cannot depend on the latch
   of an instance that is not on the stack (a failed earlier block cannot pre-fail a later one) *)
Theorem latch_is_per_block : forall p gs l1 l2,
  (forall h, In h (handlers gs) -> l1 h = l2 h) ->
  fst (eval p (mk_mstate gs l1)) = fst (eval p (mk_mstate gs l2)) /\
  gstate_eq (g (snd (eval p (mk_mstate gs l1)))) (g (snd (eval p (mk_mstate gs l2)))).
Proof.
  intros p gs l1 l2 H.
  destruct (eval_congr p (mk_mstate gs l1) (mk_mstate gs l2)) as [O A].
  - split; [apply gstate_eq_refl|]. split; [exact H|]. split; [intros _; reflexivity|split; reflexivity].
  - split; [exact O|apply agree_g; exact A].
Qed.

(* ------------------------------------------------------------------------------------------ *)
(* the cycle memo: Awaiting.found_cycles_stack runs parallel to awaiting_stack, known_cycles holds exactly what the
   lists on it hold, each identity once.  Hence both are empty whenever nothing is being awaited. *)
Definition wf (x : gstate) : Prop :=
  length (fcs x) = length (awaiting x) /\
  (forall k, In k (kc x) <-> In k (concat (fcs x))) /\
  NoDup (concat (fcs x)).

Lemma existsb_eqb_In : forall k l, existsb (N.eqb k) l = true <-> In k l.
Proof.
  intros k l. rewrite existsb_exists. split.
  - intros [x [H E]]. apply N.eqb_eq in E. subst. exact H.
  - intros H. exists k. split; [exact H|apply N.eqb_refl].
Qed.

Lemma memo_empty_when_idle : forall x, wf x -> awaiting x = [] -> kc x = [] /\ fcs x = [].
Proof.
  intros x [L [K _]] A. rewrite A in L. simpl in L.
  assert (F : fcs x = []) by (destruct (fcs x); [reflexivity|discriminate]).
  split; [|exact F]. rewrite F in K. simpl in K.
  destruct (kc x) as [|k r]; [reflexivity|]. exfalso. apply (K k). left. reflexivity.
Qed.

Lemma remember_wf : forall d x, wf x -> wf (remember_cycle d x).
Proof.
  intros d x [L [K ND]]. unfold remember_cycle. destruct (fcs x) as [|l r] eqn:F; [rewrite <- F in *; repeat split; auto; apply K|].
  destruct (kc_mem d x) eqn:M; [repeat split; try rewrite F; auto; apply K|].
  assert (NI : ~ In d (l ++ concat r)).
  { intros H. apply K in H. unfold kc_mem in M. apply existsb_eqb_In in H. congruence. }
  simpl in *. repeat split; simpl.
  - exact L.
  - intros [<-|H]; [rewrite <- app_assoc; apply in_or_app; right; left; reflexivity|].
    apply K in H. rewrite <- app_assoc. apply in_app_or in H. apply in_or_app. destruct H; [left|right; right]; assumption.
  - intros H. rewrite <- app_assoc in H. apply in_app_or in H. destruct H as [H|[H|H]]; [right|left; exact H|right]; apply K; apply in_or_app; auto.
  - rewrite <- app_assoc. simpl. apply (Permutation_NoDup (Permutation_middle l (concat r) d)). constructor; assumption.
Qed.

Lemma enter_wf : forall c s, wf (g s) ->
  match enter c s with EnterOk s1 => wf (g s1) | EnterRaise _ s1 => wf (g s1) end.
Proof.
  intros c [[dp aw fl hs nr kc0 fc] ls] [L [K ND]]. destruct c; unfold_steps; simpl in *.
  - split; [exact L|split; [exact K|exact ND]].
  - destruct (fl d || kc_mem d _); simpl; (split; [simpl; try rewrite L; reflexivity|split; [exact K|exact ND]]).
  - split; [exact L|split; [exact K|exact ND]].
Qed.

Lemma exit_wf : forall c s s1, enter c s = EnterOk s1 ->
  forall s2 exc, gstate_eq (g s2) (g s1) -> wf (g s2) -> wf (g (snd (exit_cm c exc s2))).
Proof.
  intros c [[dp aw fl hs nr kc0 fc] ls] s1 He [[dp2 aw2 fl2 hs2 nr2 kc2 fc2] ls2] exc [E1 [E2 [E3 [E4 E5]]]] [L [K ND]].
  destruct c; unfold_steps; simpl in *.
  - inversion He; subst; simpl in *. split; [exact L|split; [exact K|exact ND]].
  - destruct (fl d || kc_mem d _) eqn:F0; inversion He; subst; simpl in *. subst.
    rewrite N.eqb_refl. simpl. destruct fc2 as [|l r]; simpl in E5; [discriminate|]. unfold pop_cycles_frame. simpl in *.
    assert (FORGET : wf {| depth := dp; awaiting := aw; flags := fun x : N => if (x =? d)%N then false else fl2 x; handlers := hs; nry := nr2;
                          kc := filter (fun k : N => negb (existsb (N.eqb k) l)) kc2; fcs := r |}).
    { split; [simpl; lia|]. split; [intros k; simpl; split|simpl].
      + intros H. apply filter_In in H. destruct H as [H1 H2]. apply K in H1. apply in_app_or in H1. destruct H1 as [H1|H1]; [|exact H1].
        apply existsb_eqb_In in H1. rewrite H1 in H2. discriminate.
      + intros H. apply filter_In. split; [apply K; apply in_or_app; right; exact H|].
        destruct (existsb (N.eqb k) l) eqn:X; [|reflexivity]. exfalso. apply existsb_eqb_In in X.
        revert ND H X. clear. induction l as [|a l IH]; simpl; intros ND H X; [contradiction|].
        inversion ND; subst. destruct X as [<-|X]; [apply H2; apply in_or_app; right; exact H|apply IH; assumption].
      + revert ND. clear. induction l as [|a l IH]; simpl; intros ND; [exact ND|]. inversion ND; subst. apply IH. assumption. }
    destruct (exc_is exc EDeferredCycle); [destruct r as [|parent r']|]; simpl; try exact FORGET.
    (* the frame's list is handed to the parent: the same identities, on one list less *)
    simpl in *. split; [simpl; lia|]. split; [intros k; simpl; split|simpl].
    + intros H. apply K in H. rewrite <- app_assoc. apply in_app_or in H. destruct H as [H|H]; [apply in_or_app; right; apply in_or_app; left; exact H|].
      apply in_app_or in H. apply in_or_app. destruct H; [left|right; apply in_or_app; right]; assumption.
    + intros H. apply K. rewrite <- app_assoc in H. apply in_app_or in H. destruct H as [H|H]; [apply in_or_app; right; apply in_or_app; left; exact H|].
      apply in_app_or in H. apply in_or_app. destruct H; [left|right; apply in_or_app; right]; assumption.
    + rewrite <- app_assoc. rewrite app_assoc in ND. rewrite app_assoc.
      apply (Permutation_NoDup (Permutation_app_tail (concat r') (Permutation_app_comm l parent))). exact ND.
  - inversion He; subst; simpl in *. subst. rewrite N.eqb_refl. destruct ox; simpl; (split; [exact L|split; [exact K|exact ND]]).
Qed.

Lemma wait_record_wf : forall d x, wf x -> wf (wait_record d x).
Proof. intros d x H. unfold wait_record. destruct (depth x >? 0); exact H. Qed.

Theorem eval_wf : forall p s, wf (g s) -> wf (g (snd (eval p s))).
Proof.
  induction p; intros s W; simpl; try exact W.
  - destruct (not_ready_raises (g s)); [exact W|apply IHp; exact W].
  - destruct (top_handler (g s)); [|exact W].
    destruct (emit_sets_latch p); destruct (emit_raises p); simpl; try exact W; apply IHp; exact W.
  - destruct (flags (g s) d); [apply IHp1|apply IHp2]; exact W.
  - apply IHp. simpl. apply remember_wf. exact W.
  - pose proof (IHp1 s W) as H1. destruct (eval p1 s) as [o s']. simpl in H1.
    destruct o; try exact H1; apply IHp2; exact H1.
  - destruct (wait_blocked d (g s)); [exact W|].
    pose proof (enter_wf (CAwait d) s W) as EW. unfold enter, lift_enter in EW.
    destruct (await_enter d (g s)) as [g1|e g'] eqn:En; simpl in EW.
    2: { destruct e; simpl; try exact EW. apply remember_wf. exact EW. }
    assert (En' : enter (CAwait d) s = EnterOk (mk_mstate g1 (latches s))) by (unfold enter, lift_enter; rewrite En; reflexivity).
    pose proof (IHp1 (mk_mstate g1 (latches s)) EW) as W1.
    pose proof (state_restored p1 (mk_mstate g1 (latches s))) as H1.
    destruct (eval p1 (mk_mstate g1 (latches s))) as [o s2]. simpl in H1, W1.
    set (s2' := match o with ORaise ENotReady => mk_mstate (wait_record d (g s2)) (latches s2) | _ => s2 end).
    assert (H2 : gstate_eq (g s2') g1).
    { subst s2'. destruct o as [| |[]]; try exact H1. simpl. eapply gstate_eq_trans; [apply wait_record_core|exact H1]. }
    assert (W2 : wf (g s2')).
    { subst s2'. destruct o as [| |[]]; try exact W1. simpl. apply wait_record_wf. exact W1. }
    pose proof (exit_wf (CAwait d) s _ En' s2' (match o with ORaise e => Some e | _ => None end) H2 W2) as R. unfold exit_cm in R.
    destruct (await_exit d (match o with ORaise e => Some e | _ => None end) (g s2')) as [g3|e' g3]; simpl in R.
    + destruct o as [| |e]; [apply IHp2; exact R|apply IHp2; exact R|]. destruct e; simpl; try exact R. apply remember_wf. exact R.
    + destruct e'; simpl; try exact R. apply remember_wf. exact R.
  - pose proof (enter_wf c s W) as EW.
    destruct (enter c s) as [s1|e s'] eqn:En; [|exact EW].
    pose proof (IHp1 s1 EW) as W1. pose proof (state_restored p1 s1) as H1.
    destruct (eval p1 s1) as [o s2]. simpl in H1, W1.
    pose proof (exit_wf c s s1 En s2 (match o with ORaise e => Some e | _ => None end) H1 W1) as R.
    destruct (exit_cm c (match o with ORaise e => Some e | _ => None end) s2) as [act s3]. simpl in R.
    destruct act as [e'|sw]; [exact R|].
    destruct o; [apply IHp2; exact R|exact R|]. destruct sw; [apply IHp2; exact R|exact R].
Qed.

Corollary history_wf : forall hist s, wf (g s) -> wf (g (run_all hist s)).
Proof. induction hist as [|p r IH]; intros s W; simpl; [exact W|]. apply IH. apply eval_wf. exact W. Qed.

(* between runs (nothing is being awaited) the cycle memo is empty, whatever the runs were and however they ended *)
Theorem cycle_memo_empty_between_runs : forall hist s, wf (g s) -> awaiting (g s) = [] ->
  kc (g (run_all hist s)) = [] /\ fcs (g (run_all hist s)) = [].
Proof.
  intros hist s W A. apply memo_empty_when_idle; [apply history_wf; exact W|].
  destruct (history_restored hist s) as [_ [R _]]. rewrite R. exact A.
Qed.

(* the probe behaves as in a fresh process after any history, whatever the history did *)
Theorem probe_after_history : forall hist p s,
  handlers (g s) = [] -> depth (g s) = 0 -> awaiting (g s) = [] -> wf (g s) ->
  fst (eval p (run_all hist s)) = fst (eval p s) /\
  gstate_eq (g (snd (eval p (run_all hist s)))) (g s).
Proof.
  intros hist p s H D A W.
  pose proof (history_restored hist s) as R.
  destruct (cycle_memo_empty_between_runs hist s W A) as [K1 F1].
  destruct (memo_empty_when_idle (g s) W A) as [K0 F0].
  assert (AG : agree (run_all hist s) s).
  { split; [exact R|]. destruct R as [R1 [_ [R3 _]]]. split.
    - rewrite R3, H. intros h [].
    - split; [rewrite R1, D; lia|]. split; congruence. }
  destruct (eval_congr p _ _ AG) as [O _]. split; [exact O|].
  eapply gstate_eq_trans; [apply state_restored|exact R].
Qed.

(* in particular: whatever not_ready_yet holds when a run starts outside any speculation is irrelevant *)
Theorem leftover_not_ready_irrelevant : forall p dp aw fl hs n1 n2 k f l,
  dp <= 0 ->
  fst (eval p (mk_mstate (mk_gstate dp aw fl hs n1 k f) l)) = fst (eval p (mk_mstate (mk_gstate dp aw fl hs n2 k f) l)).
Proof.
  intros p dp aw fl hs n1 n2 k f l D. apply eval_congr.
  split; [repeat split; reflexivity|]. split; [reflexivity|]. split; [simpl; lia|split; reflexivity].
Qed.

(* ------------------------------------------------------------------------------------------ *)
(* the asserts / list.pop of the three __exit__ methods never fail: every exception that leaves a
   program is one the program raises itself, or one of the four the mechanism produces *)
Definition sound_exn (e : exn) (p : prog) : Prop :=
  In e (raised_in p) \/ e = ENotReady \/ e = EDeferredCycle \/ e = EUnrecoverable \/ e = EOther 0.

Lemma decision_raises_unrecoverable : forall l sw exc e,
  hr_exit_decision l sw exc = XRaise e -> e = EUnrecoverable.
Proof.
  intros l sw exc e. unfold hr_exit_decision.
  destruct l; destruct sw; destruct exc as [[]|]; simpl; intros H; inversion H; reflexivity.
Qed.

Lemma with_exit_action : forall c s s1, enter c s = EnterOk s1 ->
  forall s2 exc e, gstate_eq (g s2) (g s1) ->
  fst (exit_cm c exc s2) = XRaise e ->
  e = EUnrecoverable \/ (exists h, c = CHandle h (ObjRaises e)).
Proof.
  intros c [[dp aw fl hs nr kc0 fc] ls] s1 He [[dp2 aw2 fl2 hs2 nr2 kc2 fc2] ls2] exc e [E1 [E2 [E3 [E4 E5]]]].
  destruct c; unfold_steps; simpl in *.
  - discriminate.
  - destruct (fl d || kc_mem d _); inversion He; subst; simpl in *. subst. rewrite N.eqb_refl. simpl.
    destruct fc2 as [|l r]; simpl in E5; [discriminate|]. unfold pop_cycles_frame. simpl.
    destruct (exc_is exc EDeferredCycle); [destruct r as [|parent r']|]; simpl; discriminate.
  - inversion He; subst; simpl in *. subst. rewrite N.eqb_refl.
    destruct ox; simpl; intros H.
    + left. eapply decision_raises_unrecoverable. exact H.
    + left. eapply decision_raises_unrecoverable. exact H.
    + inversion H; subst. right. exists h. reflexivity.
Qed.

Theorem only_sound_exceptions : forall p s e, fst (eval p s) = ORaise e -> sound_exn e p.
Proof.
  unfold sound_exn. induction p; intros s e0; simpl.
  - discriminate.
  - discriminate.
  - intros H. inversion H. left. left. reflexivity.
  - destruct (not_ready_raises (g s)); intros H; [inversion H; auto|]. apply IHp in H. exact H.
  - destruct (top_handler (g s)); [|intros H; inversion H; auto 6].
    destruct (emit_raises p) eqn:E.
    + destruct p; simpl in E; inversion E; subst. intros H. inversion H. auto 6.
    + intros H. apply IHp in H. exact H.
  - destruct (flags (g s) d); intros H.
    + apply IHp1 in H. destruct H as [H|H]; [left; apply in_or_app; left; exact H|right; exact H].
    + apply IHp2 in H. destruct H as [H|H]; [left; apply in_or_app; right; exact H|right; exact H].
  - intros H. apply IHp in H. exact H.
  - destruct (eval p1 s) as [o s'] eqn:E1.
    destruct o; intros H.
    + apply IHp2 in H. destruct H as [H|H]; [left; apply in_or_app; right; exact H|right; exact H].
    + apply IHp2 in H. destruct H as [H|H]; [left; apply in_or_app; right; exact H|right; exact H].
    + simpl in H. inversion H; subst.
      assert (X : fst (eval p1 s) = ORaise e0) by (rewrite E1; reflexivity).
      apply IHp1 in X. destruct X as [X|X]; [left; apply in_or_app; left; exact X|right; exact X].
  - destruct (wait_blocked d (g s)); [intros H; inversion H; auto|].
    destruct (await_enter d (g s)) as [g1|e g'] eqn:En.
    + assert (En' : enter (CAwait d) s = EnterOk (mk_mstate g1 (latches s))) by (unfold enter, lift_enter; rewrite En; reflexivity).
      pose proof (state_restored p1 (mk_mstate g1 (latches s))) as R.
      destruct (eval p1 (mk_mstate g1 (latches s))) as [o s2] eqn:E1. simpl in R.
      set (s2' := match o with ORaise ENotReady => mk_mstate (wait_record d (g s2)) (latches s2) | _ => s2 end).
      assert (R2 : gstate_eq (g s2') g1).
      { subst s2'. destruct o as [| |[]]; try exact R. simpl. eapply gstate_eq_trans; [apply wait_record_core|exact R]. }
      pose proof (with_exit_action (CAwait d) s _ En' s2' (match o with ORaise e => Some e | _ => None end)) as W. unfold exit_cm in W.
      destruct (await_exit d (match o with ORaise e => Some e | _ => None end) (g s2')) as [g3|e' g3]; simpl in W.
      * destruct o as [| |e]; intros H.
        -- apply IHp2 in H. destruct H as [H|H]; [left; apply in_or_app; right; exact H|right; exact H].
        -- apply IHp2 in H. destruct H as [H|H]; [left; apply in_or_app; right; exact H|right; exact H].
        -- assert (H' : e0 = e) by (destruct e; simpl in H; inversion H; reflexivity). subst e0.
           assert (X : fst (eval p1 (mk_mstate g1 (latches s))) = ORaise e) by (rewrite E1; reflexivity).
           apply IHp1 in X. destruct X as [X|X]; [left; apply in_or_app; left; exact X|right; exact X].
      * intros H. assert (H' : e0 = e') by (destruct e'; simpl in H; inversion H; reflexivity). subst e0.
        destruct (W e' R2 eq_refl) as [->|[h Hh]]; [auto 6|discriminate].
    + assert (En' : enter (CAwait d) s = EnterRaise e (mk_mstate g' (latches s))) by (unfold enter, lift_enter; rewrite En; reflexivity).
      destruct (enter_raise_unchanged _ _ _ _ En') as [_ ->]. simpl. intros H. inversion H; subst. auto.
  - destruct (enter c s) as [s1|e s'] eqn:En.
    + pose proof (state_restored p1 s1) as R.
      destruct (eval p1 s1) as [o s2] eqn:E1. simpl in R.
      pose proof (with_exit_action c s s1 En s2 (match o with ORaise e => Some e | _ => None end)) as W.
      destruct (exit_cm c (match o with ORaise e => Some e | _ => None end) s2) as [act s3]. simpl in W.
      assert (REST : forall t, fst (eval p2 t) = ORaise e0 ->
                (In e0 ((match c with CHandle _ (ObjRaises e) => [e] | _ => [] end) ++ raised_in p1 ++ raised_in p2)) \/
                e0 = ENotReady \/ e0 = EDeferredCycle \/ e0 = EUnrecoverable \/ e0 = EOther 0).
      { intros t H. apply IHp2 in H. destruct H as [H|H]; [left|right; exact H].
        apply in_or_app. right. apply in_or_app. right. exact H. }
      destruct act as [e'|sw].
      * intros H. simpl in H. inversion H; subst.
        destruct (W e0 R eq_refl) as [->|[h ->]]; [auto 6|]. left. simpl. left. reflexivity.
      * destruct o.
        -- apply REST.
        -- discriminate.
        -- destruct sw; [apply REST|]. intros H. simpl in H. inversion H; subst.
           assert (X : fst (eval p1 s1) = ORaise e0) by (rewrite E1; reflexivity).
           apply IHp1 in X. destruct X as [X|X]; [left|right; exact X].
           apply in_or_app. right. apply in_or_app. left. exact X.
    + intros H. simpl in H. inversion H; subst.
      destruct (enter_raise_unchanged c s e0 s' En) as [_ ->]. auto.
Qed.

Corollary asserts_never_fire : forall p s,
  ~ In EAssertion (raised_in p) -> ~ In EIndex (raised_in p) ->
  fst (eval p s) <> ORaise EAssertion /\ fst (eval p s) <> ORaise EIndex.
Proof.
  intros p s H1 H2. split; intros H; apply only_sound_exceptions in H;
    destruct H as [H|[H|[H|[H|H]]]]; try discriminate; contradiction.
Qed.
