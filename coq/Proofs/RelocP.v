(* The relocation law for Model/Reloc.v. *)
From Coq Require Import String List ZArith Lia Bool.
From Verif Require Import Base.Res Base.Bytes Model.Poly Model.Reloc Proofs.PolyP.
Import ListNotations.
Open Scope Z_scope.

(* ---------- values move by coefficient * difference ---------- *)
Lemma at_base_upd b1 b2 x : at_base b2 x = upd (at_base b1) LA b2 x.
Proof. unfold at_base, upd. destruct (x =? LA); reflexivity. Qed.

Theorem aval_shift e b1 b2 : aval b2 e = aval b1 e + acoef e * (b2 - b1).
Proof.
  unfold aval, acoef. rewrite (eval_ext _ _ _ (at_base_upd b1 b2)), eval_upd.
  replace (at_base b1 LA) with b1 by reflexivity. reflexivity.
Qed.

Lemma acoef_lab k : acoef (ALab k) = 1.
Proof. unfold acoef. simpl. rewrite coeff_addc, coeff_pvar. reflexivity. Qed.
Lemma acoef_const k : acoef (AConst k) = 0.
Proof. reflexivity. Qed.
Lemma acoef_add a b : acoef (AAdd a b) = acoef a + acoef b.
Proof. unfold acoef; simpl. apply coeff_add. Qed.
Lemma acoef_sub a b : acoef (ASub a b) = acoef a - acoef b.
Proof. unfold acoef; simpl. apply coeff_sub. Qed.
Lemma acoef_neg a : acoef (ANeg a) = - acoef a.
Proof. unfold acoef; simpl. apply coeff_neg. Qed.
Lemma acoef_scale k a : acoef (AScale k a) = k * acoef a.
Proof. unfold acoef; simpl. apply coeff_scale. Qed.

Lemma aval_lab b k : aval b (ALab k) = b + k.
Proof. unfold aval; simpl. rewrite eval_addc, eval_pvar. reflexivity. Qed.

(* ---------- displacement fields whose target moves with the base ---------- *)
Theorem branch_offset_base_free e pos b1 b2 : acoef e = 1 -> branch_offset b2 pos e = branch_offset b1 pos e.
Proof. intros H. unfold branch_offset. rewrite (aval_shift e b1 b2), H. lia. Qed.

Theorem rel_base_free e pos b1 b2 : acoef e = 1 -> rel_field b2 pos e = rel_field b1 pos e.
Proof.
  intros H. unfold rel_field, rel_value. rewrite (aval_shift e b1 b2), H.
  f_equal. f_equal. lia.
Qed.

Theorem branch_base_free e op pos b1 b2 : acoef e = 1 -> branch_field b2 pos op e = branch_field b1 pos op e.
Proof. intros H. unfold branch_field. rewrite (branch_offset_base_free e pos b1 b2 H). reflexivity. Qed.

Theorem sob_base_free e op pos b1 b2 : acoef e = 1 -> sob_field b2 pos op e = sob_field b1 pos op e.
Proof. intros H. unfold sob_field. rewrite (branch_offset_base_free e pos b1 b2 H). reflexivity. Qed.

(* ---------- sizes ---------- *)
Lemma zeros_len_z n : 0 <= n -> Z.of_nat (length (zeros (Z.to_nat n))) = n.
Proof. intros H. rewrite zeros_length. lia. Qed.

Lemma get_as_int_inv bits v r : get_as_int bits v = Ok r -> r = v mod 2 ^ bits.
Proof.
  unfold get_as_int. destruct (v <=? - 2 ^ bits); [discriminate|].
  destruct (2 ^ bits <=? v); [discriminate|]. intros H; inversion H; reflexivity.
Qed.

Lemma item_len b pos it bs : item_bytes b pos it = Ok bs -> Z.of_nat (length bs) = item_size b pos it.
Proof.
  destruct it; simpl; intros H.
  - inversion H; reflexivity.
  - unfold abs_field in H. destruct (get_as_int 16 (aval b e)); simpl in H; inversion H; reflexivity.
  - inversion H; reflexivity.
  - unfold branch_field in H.
    destruct ((branch_offset b pos e <? -256) || (254 <? branch_offset b pos e)); [discriminate|].
    destruct (branch_offset b pos e mod 2 =? 1); inversion H; reflexivity.
  - unfold sob_field in H.
    destruct ((0 <? branch_offset b pos e) || (branch_offset b pos e <? -126)); [discriminate|].
    destruct (branch_offset b pos e mod 2 =? 1); inversion H; reflexivity.
  - destruct (get_as_int 8 (aval b e)); simpl in H; inversion H; reflexivity.
  - destruct (m <=? 0) eqn:E; [discriminate|]. inversion H; subst.
    apply zeros_len_z. apply Z.leb_gt in E. apply Z.mod_pos_bound. lia.
  - inversion H; subst. destruct ((b + pos) mod 2 =? 0); reflexivity.
  - destruct ((b + pos) mod 2 =? 1); inversion H; reflexivity.
  - destruct (get_as_int 16 (b + pos + n)); simpl in H; try discriminate.
    destruct (n <? 0) eqn:E; [discriminate|]. apply Z.ltb_ge in E. inversion H; subst.
    rewrite zeros_length. lia.
Qed.

Lemma item_size_nonneg b pos it : 0 <= item_size b pos it.
Proof.
  destruct it; simpl; try lia.
  - destruct (m <=? 0) eqn:E; [lia|]. apply Z.leb_gt in E. apply Z.mod_pos_bound. lia.
  - destruct ((b + pos) mod 2 =? 0); lia.
Qed.

Lemma mod_shift_dvd a d m : 0 < m -> d mod m = 0 -> (a + d) mod m = a mod m.
Proof.
  intros Hm Hd. rewrite Z.add_mod by lia. rewrite Hd, Z.add_0_r. apply Z.mod_mod. lia.
Qed.

Lemma neg_mod_shift b1 b2 pos m : 0 < m -> (b2 - b1) mod m = 0 -> (- (b2 + pos)) mod m = (- (b1 + pos)) mod m.
Proof.
  intros Hm Hd.
  replace (- (b2 + pos)) with (- (b1 + pos) + (- (b2 - b1))) by lia.
  apply mod_shift_dvd; [assumption|].
  apply Z.mod_divide in Hd; [|lia]. apply Z.mod_divide; [lia|]. apply Z.divide_opp_r. assumption.
Qed.

Lemma pos_mod_shift b1 b2 pos m : 0 < m -> (b2 - b1) mod m = 0 -> (b2 + pos) mod m = (b1 + pos) mod m.
Proof.
  intros Hm Hd. replace (b2 + pos) with ((b1 + pos) + (b2 - b1)) by lia. apply mod_shift_dvd; assumption.
Qed.

Lemma item_size_d9 b1 b2 pos it : item_d9 (b2 - b1) it = true -> item_size b2 pos it = item_size b1 pos it.
Proof.
  destruct it; simpl; intros H; try reflexivity.
  - apply andb_prop in H. destruct H as [Hm Hd]. apply Z.ltb_lt in Hm. apply Z.eqb_eq in Hd.
    destruct (m <=? 0); [reflexivity|]. apply neg_mod_shift; assumption.
  - apply Z.eqb_eq in H. rewrite (pos_mod_shift b1 b2 pos 2) by (lia || assumption). reflexivity.
Qed.

(* ---------- one item at two bases ---------- *)
Lemma le16_inj_word w : 0 <= w < 65536 -> w mod 256 + 256 * ((w / 256) mod 256) = w.
Proof.
  intros H. rewrite (Z.mod_small (w / 256)).
  - pose proof (Z.div_mod w 256). lia.
  - split; [apply Z.div_pos; lia|apply Z.div_lt_upper_bound; lia].
Qed.

Definition moved (bs1 bs2 : list Z) (c d : Z) : Prop :=
  exists w, 0 <= w < 65536 /\ bs1 = le16 w /\ bs2 = le16 ((w + c * d) mod 65536).

Lemma item_reloc b1 b2 pos it bs1 bs2 :
  item_d9 (b2 - b1) it = true ->
  item_bytes b1 pos it = Ok bs1 -> item_bytes b2 pos it = Ok bs2 ->
  (item_moves pos it = [] /\ bs2 = bs1) \/
  (exists c, item_moves pos it = [(pos, c)] /\ moved bs1 bs2 c (b2 - b1)).
Proof.
  intros Hd H1 H2. destruct it; simpl in *.
  - left. split; [reflexivity|congruence].
  - (* AbsWord *)
    unfold abs_field in *.
    destruct (get_as_int 16 (aval b1 e)) as [v1| | |] eqn:E1; simpl in H1; try discriminate.
    destruct (get_as_int 16 (aval b2 e)) as [v2| | |] eqn:E2; simpl in H2; try discriminate.
    inversion H1; inversion H2; subst. apply get_as_int_inv in E1, E2.
    rewrite (aval_shift e b1 b2) in E2.
    destruct (acoef e =? 0) eqn:Ec.
    + left. split; [reflexivity|]. apply Z.eqb_eq in Ec. rewrite Ec in E2.
      replace (aval b1 e + 0 * (b2 - b1)) with (aval b1 e) in E2 by lia. congruence.
    + right. exists (acoef e). split; [reflexivity|]. exists v1. split; [|split].
      * subst v1. apply Z.mod_pos_bound. reflexivity.
      * reflexivity.
      * f_equal. subst v1 v2. change (2 ^ 16) with 65536. rewrite Zplus_mod_idemp_l. reflexivity.
  - (* RelWord *)
    inversion H1; inversion H2; subst. unfold rel_field, rel_value.
    rewrite (aval_shift e b1 b2).
    destruct (acoef e - 1 =? 0) eqn:Ec.
    + left. split; [reflexivity|]. apply Z.eqb_eq in Ec. f_equal. f_equal. nia.
    + right. exists (acoef e - 1). split; [reflexivity|].
      exists ((aval b1 e - (b1 + pos) - 2) mod 65536). split; [|split].
      * apply Z.mod_pos_bound. reflexivity.
      * reflexivity.
      * f_equal. rewrite Zplus_mod_idemp_l. f_equal. nia.
  - (* Branch *)
    left. split; [reflexivity|]. apply Z.eqb_eq in Hd.
    rewrite (branch_base_free e op pos b1 b2 Hd) in H2. congruence.
  - left. split; [reflexivity|]. apply Z.eqb_eq in Hd.
    rewrite (sob_base_free e op pos b1 b2 Hd) in H2. congruence.
  - (* ByteExpr *)
    left. split; [reflexivity|]. apply Z.eqb_eq in Hd.
    rewrite (aval_shift e b1 b2), Hd in H2.
    replace (aval b1 e + 0 * (b2 - b1)) with (aval b1 e) in H2 by lia. congruence.
  - (* Align *)
    left. split; [reflexivity|]. apply andb_prop in Hd. destruct Hd as [Hm Hdv].
    apply Z.ltb_lt in Hm. apply Z.eqb_eq in Hdv.
    destruct (m <=? 0); [discriminate|].
    rewrite (neg_mod_shift b1 b2 pos m Hm Hdv) in H2. congruence.
  - left. split; [reflexivity|]. apply Z.eqb_eq in Hd.
    rewrite (pos_mod_shift b1 b2 pos 2) in H2 by (lia || assumption). congruence.
  - left. split; [reflexivity|].
    destruct ((b1 + pos) mod 2 =? 1); [discriminate|]. destruct ((b2 + pos) mod 2 =? 1); [discriminate|]. congruence.
  - left. split; [reflexivity|].
    destruct (get_as_int 16 (b1 + pos + n)); simpl in H1; try discriminate.
    destruct (get_as_int 16 (b2 + pos + n)); simpl in H2; try discriminate.
    destruct (n <? 0); [discriminate|]. congruence.
Qed.

(* ---------- patch ---------- *)
Lemma patch_nil_aw img pos d : patch img pos [] d = img.
Proof. destruct img; reflexivity. Qed.

Lemma patch_skip chunk rest pos aw d :
  (forall o c, In (o, c) aw -> pos + Z.of_nat (length chunk) <= o) ->
  patch (chunk ++ rest) pos aw d = chunk ++ patch rest (pos + Z.of_nat (length chunk)) aw d.
Proof.
  revert pos. induction chunk as [|x ch IH]; intros pos H.
  - simpl. replace (pos + 0) with pos by lia. reflexivity.
  - destruct aw as [|[o c1] aw'].
    + rewrite !patch_nil_aw. reflexivity.
    + cbn [app patch]. assert (Ho : pos + Z.of_nat (length (x :: ch)) <= o) by (apply (H o c1); left; reflexivity).
      cbn [length] in Ho. destruct (o =? pos) eqn:E; [apply Z.eqb_eq in E; lia|].
      f_equal. rewrite IH.
      * f_equal. f_equal. cbn [length]. lia.
      * intros o' c' Hin. specialize (H o' c' Hin). cbn [length] in H. lia.
Qed.

Lemma patch_word w rest pos c1 aw d : 0 <= w < 65536 ->
  patch (le16 w ++ rest) pos ((pos, c1) :: aw) d = le16 ((w + c1 * d) mod 65536) ++ patch rest (pos + 2) aw d.
Proof.
  intros Hw. unfold le16 at 1. cbn [app patch]. rewrite Z.eqb_refl.
  rewrite (le16_inj_word w Hw). reflexivity.
Qed.

Lemma patch_length img : forall pos aw d, length (patch img pos aw d) = length img.
Proof.
  assert (G : forall n img, (length img <= n)%nat -> forall pos aw d, length (patch img pos aw d) = length img).
  { induction n as [|n IH]; intros im Hl pos aw d.
    - destruct im; [reflexivity|simpl in Hl; lia].
    - destruct im as [|x rest]; [reflexivity|]. destruct aw as [|[o c1] aw']; [reflexivity|].
      cbn [patch]. destruct (o =? pos).
      + destruct rest as [|y rest']; [reflexivity|]. cbn [length]. rewrite IH; [reflexivity|]. simpl in Hl. lia.
      + cbn [length]. rewrite IH; [reflexivity|]. simpl in Hl. lia. }
  intros. apply (G (length img)). lia.
Qed.

(* patch touches nothing but the two bytes of each listed word *)
Lemma patch_untouched img : forall pos aw d k,
  (forall o c, In (o, c) aw -> pos + Z.of_nat k <> o /\ pos + Z.of_nat k <> o + 1) ->
  nth_error (patch img pos aw d) k = nth_error img k.
Proof.
  assert (G : forall n img, (length img <= n)%nat -> forall pos aw d k,
            (forall o c, In (o, c) aw -> pos + Z.of_nat k <> o /\ pos + Z.of_nat k <> o + 1) ->
            nth_error (patch img pos aw d) k = nth_error img k).
  { induction n as [|n IH]; intros im Hl pos aw d k H.
    - destruct im; [reflexivity|simpl in Hl; lia].
    - destruct im as [|x rest]; [reflexivity|]. destruct aw as [|[o c1] aw']; [reflexivity|].
      cbn [patch]. destruct (o =? pos) eqn:E.
      + apply Z.eqb_eq in E.
        destruct (H o c1 (or_introl eq_refl)) as [H0 H1].
        destruct k as [|[|k]]; [lia|lia|].
        destruct rest as [|y rest']; [reflexivity|]. cbn [nth_error].
        apply IH; [simpl in Hl; lia|].
        intros o' c' Hin. specialize (H o' c' (or_intror Hin)). lia.
      + destruct k as [|k]; [reflexivity|]. cbn [nth_error].
        apply IH; [simpl in Hl; lia|].
        intros o' c' Hin. specialize (H o' c' Hin). lia. }
  intros. apply (G (length img)); [lia|assumption].
Qed.

(* ---------- the programme ---------- *)
Lemma abs_words_lower b p : forall pos o c, In (o, c) (abs_words_from b pos p) -> pos <= o.
Proof.
  induction p as [|it r IH]; intros pos o c H; [destruct H|].
  cbn [abs_words_from] in H. apply in_app_or in H. destruct H as [H|H].
  - destruct it; simpl in H; try contradiction.
    + destruct (acoef e =? 0); [contradiction|]. destruct H as [H|[]]. inversion H; lia.
    + destruct (acoef e - 1 =? 0); [contradiction|]. destruct H as [H|[]]. inversion H; lia.
  - apply IH in H. pose proof (item_size_nonneg b pos it). lia.
Qed.

Lemma abs_words_same b1 b2 p : d9 (b2 - b1) p = true ->
  forall pos, abs_words_from b2 pos p = abs_words_from b1 pos p.
Proof.
  induction p as [|it r IH]; intros Hd pos; [reflexivity|].
  simpl in Hd. apply andb_prop in Hd. destruct Hd as [Hi Hr].
  cbn [abs_words_from]. rewrite (item_size_d9 b1 b2 pos it Hi), (IH Hr). reflexivity.
Qed.

Theorem relocation_from b1 b2 p : d9 (b2 - b1) p = true ->
  forall pos i1 i2,
  image_from b1 pos p = Ok i1 -> image_from b2 pos p = Ok i2 ->
  i2 = patch i1 pos (abs_words_from b1 pos p) (b2 - b1).
Proof.
  induction p as [|it r IH]; intros Hd pos i1 i2 H1 H2.
  - simpl in *. inversion H1; inversion H2; reflexivity.
  - simpl in Hd. apply andb_prop in Hd. destruct Hd as [Hi Hr].
    cbn [image_from] in H1, H2.
    apply bind_ok_inv in H1. destruct H1 as [bs1 [Hb1 H1]].
    apply bind_ok_inv in H1. destruct H1 as [t1 [Ht1 H1]]. inversion H1; subst i1; clear H1.
    apply bind_ok_inv in H2. destruct H2 as [bs2 [Hb2 H2]].
    apply bind_ok_inv in H2. destruct H2 as [t2 [Ht2 H2]]. inversion H2; subst i2; clear H2.
    pose proof (item_len _ _ _ _ Hb1) as L1. pose proof (item_len _ _ _ _ Hb2) as L2.
    rewrite (item_size_d9 b1 b2 pos it Hi) in L2.
    rewrite L2 in Ht2. rewrite L1 in Ht1.
    specialize (IH Hr _ _ _ Ht1 Ht2).
    cbn [abs_words_from].
    destruct (item_reloc b1 b2 pos it bs1 bs2 Hi Hb1 Hb2) as [[Hm E]|[c [Hm [w [Hw [E1 E2]]]]]].
    + rewrite Hm. cbn [app]. subst bs2. rewrite patch_skip.
      * rewrite L1. f_equal. exact IH.
      * intros o c Hin. apply abs_words_lower in Hin. lia.
    + rewrite Hm. cbn [app]. subst bs1 bs2. rewrite (patch_word w t1 pos c _ _ Hw).
      f_equal. assert (S2 : item_size b1 pos it = 2) by (rewrite <- L1; reflexivity).
      rewrite S2 in IH. rewrite S2. exact IH.
Qed.

Theorem relocation p b1 b2 i1 i2 : d9 (b2 - b1) p = true ->
  image b1 p = Ok i1 -> image b2 p = Ok i2 ->
  i2 = patch i1 0 (abs_words b1 p) (b2 - b1).
Proof. intros Hd H1 H2. exact (relocation_from b1 b2 p Hd 0 i1 i2 H1 H2). Qed.

Theorem abs_words_base_free p b1 b2 : d9 (b2 - b1) p = true -> abs_words b2 p = abs_words b1 p.
Proof. intros Hd. exact (abs_words_same b1 b2 p Hd 0). Qed.

(* what must NOT change, byte by byte *)
Theorem relocation_unchanged p b1 b2 i1 i2 k : d9 (b2 - b1) p = true ->
  image b1 p = Ok i1 -> image b2 p = Ok i2 ->
  (forall o c, In (o, c) (abs_words b1 p) -> Z.of_nat k <> o /\ Z.of_nat k <> o + 1) ->
  nth_error i2 k = nth_error i1 k.
Proof.
  intros Hd H1 H2 Hk. rewrite (relocation p b1 b2 i1 i2 Hd H1 H2). apply patch_untouched.
  intros o c Hin. specialize (Hk o c Hin). lia.
Qed.

Theorem relocation_same_length p b1 b2 i1 i2 : d9 (b2 - b1) p = true ->
  image b1 p = Ok i1 -> image b2 p = Ok i2 -> length i2 = length i1.
Proof. intros Hd H1 H2. rewrite (relocation p b1 b2 i1 i2 Hd H1 H2). apply patch_length. Qed.

Theorem pic p b1 b2 i1 i2 : d9 (b2 - b1) p = true -> abs_words b1 p = [] ->
  image b1 p = Ok i1 -> image b2 p = Ok i2 -> i2 = i1.
Proof.
  intros Hd Ha H1 H2. rewrite (relocation p b1 b2 i1 i2 Hd H1 H2), Ha. apply patch_nil_aw.
Qed.

(* a field that holds c1*LA + c0 for the generator's programs: c1 = 1 for every absolute reference *)
Lemma acoef_lab_plus k c : acoef (AAdd (ALab k) (AConst c)) = 1.
Proof. rewrite acoef_add, acoef_lab, acoef_const. reflexivity. Qed.
Lemma acoef_lab_diff k k' : acoef (ASub (ALab k) (ALab k')) = 0.
Proof. rewrite acoef_sub, !acoef_lab. reflexivity. Qed.
