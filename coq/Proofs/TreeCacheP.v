(* Proofs/TreeCacheP.v -- laws of Model/TreeCache.v (C16):
   hoist leaves the stored operand alone and classifies 'a op b(r)' as index mode for every nesting;
   fixup_label is idempotent; a cached operator value is only reused for equal operands and a hit
   equals a recomputation; flags and caches only affect which diagnostics are repeated;
   hence '.repeat n { body }' = the body written out n times. *)
From Coq Require Import ZArith List String Ascii Bool Lia.
From Verif Require Import Base.Res Base.Bytes Model.TreeCache.
From Verif Require Gen.GenOperators Gen.GenGetAsInt.
Import ListNotations.
Open Scope string_scope.
Open Scope list_scope.
Open Scope Z_scope.

(* ============================================================================================ *)
(* hoist *)

(* the right spine of infix right operands / prefix operands that ends in a register call *)
Inductive frame :=
| FInfix (op : string) (l : tree) (c : cache)
| FPrefix (op : string) (c : cache).

Fixpoint plug (ctx : list frame) (x : tree) : tree :=
  match ctx with
  | [] => x
  | FInfix op l c :: rest => Infix op l (plug rest x) c
  | FPrefix op c :: rest => Prefix op (plug rest x) c
  end.

Lemma hoist_plug ctx b r c0 : is_regish r = true ->
  hoist (plug ctx (Call b r c0)) = match ctx with [] => Call b r c0 | _ => Call (plug ctx b) r None end.
Proof.
  intros Hr. induction ctx as [|f rest IH]; [reflexivity|].
  destruct f as [op l c|op c]; cbn [plug hoist]; rewrite IH; destruct rest; rewrite Hr; reflexivity.
Qed.

(* 'a op b(r)' with any nesting of infix / prefix operators above the call is 'Call (a op b) r' *)
Lemma hoist_classification ctx b r c0 : is_regish r = true -> ctx <> [] ->
  hoist (plug ctx (Call b r c0)) = Call (plug ctx b) r None.
Proof.
  intros Hr Hne. rewrite hoist_plug by exact Hr. destruct ctx; [congruence | reflexivity].
Qed.

(* the same as a function of the tree *)
Fixpoint spine (t : tree) : option (tree * tree) :=
  match t with
  | Call cl cr _ => if is_regish cr then Some (cl, cr) else None
  | Infix op l r c => match spine r with Some (off, reg) => Some (Infix op l off c, reg) | None => None end
  | Prefix op e c => match spine e with Some (off, reg) => Some (Prefix op off c, reg) | None => None end
  | _ => None
  end.

Lemma spine_regish t off reg : spine t = Some (off, reg) -> is_regish reg = true.
Proof.
  revert off reg. induction t; intros off reg H; simpl in H; try discriminate.
  - destruct (spine t2) as [[o r]|] eqn:E; [|discriminate]. inversion H; subst. eapply IHt2. reflexivity.
  - destruct (spine t) as [[o r]|] eqn:E; [|discriminate]. inversion H; subst. eapply IHt. reflexivity.
  - destruct (is_regish t2) eqn:E; [|discriminate]. inversion H; subst. exact E.
Qed.

Definition is_call (t : tree) : bool := match t with Call _ _ _ => true | _ => false end.

Lemma hoist_spec t :
  hoist t = if is_call t then t
            else match spine t with Some (off, reg) => Call off reg None | None => t end.
Proof.
  induction t; try reflexivity.
  - (* Infix *)
    cbn [hoist is_call spine]. rewrite IHt2.
    destruct t2; try reflexivity.
    + (* Infix below *)
      cbn [is_call]. destruct (spine (Infix op0 t2_1 t2_2 c0)) as [[off reg]|] eqn:E.
      * rewrite (spine_regish _ _ _ E). reflexivity.
      * reflexivity.
    + cbn [is_call]. destruct (spine (Prefix op0 t2 c0)) as [[off reg]|] eqn:E.
      * rewrite (spine_regish _ _ _ E). reflexivity.
      * reflexivity.
    + cbn [is_call spine]. destruct (is_regish t2_2); reflexivity.
  - (* Prefix *)
    cbn [hoist is_call spine]. rewrite IHt.
    destruct t; try reflexivity.
    + cbn [is_call]. destruct (spine (Infix op0 t1 t2 c0)) as [[off reg]|] eqn:E.
      * rewrite (spine_regish _ _ _ E). reflexivity.
      * reflexivity.
    + cbn [is_call]. destruct (spine (Prefix op0 t c0)) as [[off reg]|] eqn:E.
      * rewrite (spine_regish _ _ _ E). reflexivity.
      * reflexivity.
    + cbn [is_call spine]. destruct (is_regish t2); reflexivity.
Qed.

(* ============================================================================================ *)
(* strip: basic facts *)
Lemma strip_idem t : strip (strip t) = strip t.
Proof. induction t; simpl; congruence. Qed.

Lemma regp_strip t : regp (strip t) = regp t.
Proof. destruct t; reflexivity. Qed.

Lemma is_percent_strip t : is_percent (strip t) = is_percent t.
Proof. destruct t; reflexivity. Qed.

Lemma is_regish_strip t : is_regish (strip t) = is_regish t.
Proof. unfold is_regish. rewrite regp_strip, is_percent_strip. reflexivity. Qed.

Lemma paren_reg_strip t : paren_reg (strip t) = paren_reg t.
Proof. destruct t; try reflexivity. simpl. rewrite regp_strip. reflexivity. Qed.

Lemma has_percent_strip t : has_percent (strip t) = has_percent t.
Proof. induction t; simpl; congruence. Qed.

Lemma get_strip p : forall t, strip (get p t) = get p (strip t).
Proof.
  induction p as [|d p IH]; intros t; [reflexivity|].
  destruct d, t; simpl; try reflexivity; apply IH.
Qed.

Lemma put_strip p : forall t x, strip x = strip (get p t) -> strip (put p t x) = strip t.
Proof.
  induction p as [|d p IH]; intros t x H; [exact H|].
  destruct d, t; simpl in *; try reflexivity; rewrite (IH _ _ H); reflexivity.
Qed.

Lemma put_strip2 p : forall t1 t2 x1 x2, strip t1 = strip t2 -> strip x1 = strip x2 ->
  strip (put p t1 x1) = strip (put p t2 x2).
Proof.
  induction p as [|d p IH]; intros t1 t2 x1 x2 Ht Hx; [exact Hx|].
  destruct d, t1, t2; simpl in *; try discriminate; try exact Ht; inversion Ht; subst;
    try (erewrite IH by eassumption; reflexivity); congruence.
Qed.

Lemma spine_strip t :
  spine (strip t) = match spine t with Some (off, reg) => Some (strip off, strip reg) | None => None end.
Proof.
  induction t; try reflexivity.
  - simpl. rewrite IHt2. destruct (spine t2) as [[o r]|]; reflexivity.
  - simpl. rewrite IHt. destruct (spine t) as [[o r]|]; reflexivity.
  - simpl. rewrite is_regish_strip. destruct (is_regish t2); reflexivity.
Qed.

Lemma unhoist_strip t : forall off reg off',
  spine t = Some (off, reg) -> strip off' = strip off -> strip (unhoist t off') = strip t.
Proof.
  induction t; intros off reg off' Hs Ho; simpl in Hs; try discriminate.
  - destruct (spine t2) as [[o r]|] eqn:E; [|discriminate]. inversion Hs; subst.
    destruct off'; simpl in Ho; try discriminate. inversion Ho; subst.
    simpl. rewrite (IHt2 _ _ _ eq_refl H2). congruence.
  - destruct (spine t) as [[o r]|] eqn:E; [|discriminate]. inversion Hs; subst.
    destruct off'; simpl in Ho; try discriminate. inversion Ho; subst.
    simpl. rewrite (IHt _ _ _ eq_refl H1). reflexivity.
  - destruct (is_regish t2); [|discriminate]. inversion Hs; subst. simpl. rewrite Ho. reflexivity.
Qed.

(* ============================================================================================ *)
(* what is written on the tree: coherence *)

(* a stored (value_args, value) is what the operator returns for those operands; if producing it
   reported an error, an error has been reported in this assembly (latch F) *)
Definition cache_ok (F : bool) (inv : list Z -> res GenOperators.opres) (c : cache) : Prop :=
  match c with
  | None => True
  | Some (args, v) => exists ids, inv args = Ok (v, ids) /\ (ids = [] \/ F = true)
  end.

Fixpoint coh (F : bool) (t : tree) : Prop :=
  match t with
  | Num _ _ _ b8 rep => b8 = true -> rep = true -> F = true
  | Chr cs ev => ev = None \/ ev = Some (chr_value cs)
  | Sym _ _ => True
  | Dot => True
  | Paren _ e => coh F e
  | Infix op l r c => coh F l /\ coh F r /\ (is_pure GenOperators.KInfix op = false -> cache_ok F (invoke_infix op) c)
  | Call l r c => coh F l /\ coh F r /\ (is_pure GenOperators.KInfix "$" = false -> cache_ok F (invoke_infix "$") c)
  | Prefix op e c => coh F e /\ (is_pure GenOperators.KPrefix op = false -> cache_ok F (invoke_prefix op) c)
  | Postfix op e c => coh F e /\ (is_pure GenOperators.KPostfix op = false -> cache_ok F (invoke_postfix op) c)
  end.

Lemma cache_ok_le F F' inv c : (F = true -> F' = true) -> cache_ok F inv c -> cache_ok F' inv c.
Proof.
  intros L. destruct c as [[args v]|]; simpl; [|trivial].
  intros [ids [E H]]. exists ids. split; [exact E|]. destruct H; [left; assumption | right; auto].
Qed.

Lemma coh_le F F' t : (F = true -> F' = true) -> coh F t -> coh F' t.
Proof.
  intros L. induction t; simpl; try tauto.
  - intros [H1 [H2 H3]]. repeat split; auto. intros P. eapply cache_ok_le; eauto.
  - intros [H1 H2]. split; auto. intros P. eapply cache_ok_le; eauto.
  - intros [H1 H2]. split; auto. intros P. eapply cache_ok_le; eauto.
  - intros [H1 [H2 H3]]. repeat split; auto. intros P. eapply cache_ok_le; eauto.
Qed.

Lemma coh_true t : coh false t -> coh true t.
Proof. apply coh_le. auto. Qed.

(* a tree as the parser makes it is coherent in every state *)
Lemma coh_strip F t : coh F (strip t).
Proof. induction t; simpl; auto; try discriminate. Qed.

Lemma ne_app {A} (a b : list A) : ne (a ++ b) = ne a || ne b.
Proof. destruct a; reflexivity. Qed.

(* boolean side conditions about the latch *)
Ltac nebool :=
  repeat rewrite ne_app in *;
  repeat match goal with
  | |- context [@ne ?A ?d] => let b := fresh "b" in set (b := @ne A d) in *; clearbody b
  | H : context [@ne ?A ?d] |- _ => let b := fresh "b" in set (b := @ne A d) in *; clearbody b
  end.
Ltac allbool := repeat match goal with b : bool |- _ => destruct b end; simpl in *; try congruence; auto.

(* ============================================================================================ *)
(* the relation between two runs of the same code on two annotation states of the same tree *)
Section Rel.
  Context {V X : Type}.
  Variable nf : X -> X.
  Variable cohx : bool -> X -> Prop.
  Definition R (F : bool) (x1 x2 : X) (r1 r2 : res (V * X * list string)) : Prop :=
    match r1, r2 with
    | Ok (v1, y1, d1), Ok (v2, y2, d2) =>
        v1 = v2 /\ nf y1 = nf x1 /\ nf y2 = nf x2 /\ (F || ne d1 = F || ne d2)
        /\ cohx (F || ne d1) y1 /\ cohx (F || ne d2) y2
    | Err _, Err _ => True
    | Crash s1, Crash s2 => s1 = s2
    | OutOfFuel, OutOfFuel => True
    | _, _ => False
    end.
End Rel.

Lemma R_bind {V X V' X' : Type} (nf : X -> X) cohx (nf' : X' -> X') cohx' F F' x1 x2 z1 z2
      (r1 r2 : res (V * X * list string)) (k1 k2 : V * X * list string -> res (V' * X' * list string)) :
  R nf cohx F x1 x2 r1 r2 ->
  (forall v y1 y2 d1 d2,
      nf y1 = nf x1 -> nf y2 = nf x2 -> (F || ne d1 = F || ne d2) ->
      cohx (F || ne d1) y1 -> cohx (F || ne d2) y2 ->
      R nf' cohx' F' z1 z2 (k1 (v, y1, d1)) (k2 (v, y2, d2))) ->
  R nf' cohx' F' z1 z2 (bind r1 k1) (bind r2 k2).
Proof.
  intros H K.
  destruct r1 as [[[v1 y1] d1]| | |]; destruct r2 as [[[v2 y2] d2]| | |]; simpl in *; try tauto.
  destruct H as [E [N1 [N2 [B [C1 C2]]]]]. subst v2. apply K; assumption.
Qed.

(* ============================================================================================ *)
(* wrap_impure *)
Definition cnf (c : cache) : cache := None.
Definition ccoh (pure : bool) (inv : list Z -> res GenOperators.opres) (F : bool) (c : cache) : Prop :=
  pure = false -> cache_ok F inv c.

Lemma zl_eqb_eq a : forall b, zl_eqb a b = true -> a = b.
Proof.
  induction a as [|x a IH]; intros [|y b] H; simpl in H; try discriminate; [reflexivity|].
  apply andb_prop in H. destruct H as [H1 H2]. apply Z.eqb_eq in H1. subst. f_equal. apply IH. exact H2.
Qed.

(* cache_coherent: the stored value is returned only for equal operands, and then it is the value
   a recomputation gives; with other operands the operator is invoked again *)
Lemma use_cache_hit c args inv v c' d :
  use_cache false c args inv = Ok (v, c', d) ->
  (exists args0, c = Some (args0, v) /\ args0 = args /\ c' = c /\ d = [])
  \/ (exists ids, inv args = Ok (v, ids) /\ c' = Some (args, v) /\ d = ids
      /\ (forall a0 v0, c = Some (a0, v0) -> a0 <> args)).
Proof.
  unfold use_cache. destruct c as [[args0 v0]|].
  - destruct (zl_eqb args0 args) eqn:E.
    + intros H. inversion H; subst. left. exists args0. apply zl_eqb_eq in E. auto.
    + intros H. destruct (inv args) as [[v1 ids]| | |] eqn:Ei; simpl in H; try discriminate.
      inversion H; subst. right. exists ids. repeat split; auto.
      intros a0 w0 Hc Ha. inversion Hc; subst.
      assert (X : zl_eqb args args = true).
      { clear. induction args; simpl; [reflexivity|]. rewrite Z.eqb_refl. exact IHargs. }
      congruence.
  - intros H. destruct (inv args) as [[v1 ids]| | |] eqn:Ei; simpl in H; try discriminate.
    inversion H; subst. right. exists ids. repeat split; auto. intros; discriminate.
Qed.

Lemma use_cache_R pure inv F c1 c2 args :
  ccoh pure inv F c1 -> ccoh pure inv F c2 ->
  R cnf (ccoh pure inv) F c1 c2 (use_cache pure c1 args inv) (use_cache pure c2 args inv).
Proof.
  unfold ccoh. intros H1 H2. unfold use_cache.
  destruct pure.
  - destruct (inv args) as [[v ids]| | |]; simpl; auto.
    repeat split; intros; discriminate.
  - specialize (H1 eq_refl). specialize (H2 eq_refl).
    assert (Run : forall ca cb : cache, (exists v ids, inv args = Ok (v, ids)) \/ True -> True) by auto.
    destruct (inv args) as [[v ids]| | |] eqn:Ei.
    + (* recomputation succeeds with (v, ids) *)
      assert (Hit : forall c, cache_ok F inv c ->
                forall a0 v0, c = Some (a0, v0) -> zl_eqb a0 args = true -> v0 = v /\ (ids = [] \/ F = true)).
      { intros c Hc a0 v0 E Z0. subst c. apply zl_eqb_eq in Z0. subst a0.
        destruct Hc as [ids0 [E0 Hf]]. rewrite Ei in E0. inversion E0; subst. auto. }
      destruct c1 as [[a1 v1]|]; destruct c2 as [[a2 v2]|]; simpl;
        try (destruct (zl_eqb a1 args) eqn:Z1); try (destruct (zl_eqb a2 args) eqn:Z2); simpl;
        try (destruct (Hit _ H1 _ _ eq_refl Z1) as [Ev1 Hf1]; subst v1);
        try (destruct (Hit _ H2 _ _ eq_refl Z2) as [Ev2 Hf2]; subst v2);
        repeat split; try reflexivity;
        try (intros _; exists ids; split; [exact Ei | destruct ids; simpl; [left; reflexivity | right; destruct F; reflexivity]]);
        try (intros _; eapply cache_ok_le; [|eassumption]; intros; destruct F; simpl; auto; congruence);
        try (destruct ids; simpl; [destruct F; reflexivity|]);
        try (destruct Hf1 as [X|X]; [discriminate | rewrite X; reflexivity]);
        try (destruct Hf2 as [X|X]; [discriminate | rewrite X; reflexivity]);
        try (destruct F; reflexivity).
    + (* recomputation reports and raises: a coherent cache cannot hold these operands *)
      assert (Miss : forall c, cache_ok F inv c -> forall a0 v0, c = Some (a0, v0) -> zl_eqb a0 args = false).
      { intros c Hc a0 v0 E. subst c. destruct (zl_eqb a0 args) eqn:Z0; [|reflexivity].
        apply zl_eqb_eq in Z0. subst a0. destruct Hc as [ids0 [E0 _]]. congruence. }
      destruct c1 as [[a1 v1]|]; destruct c2 as [[a2 v2]|]; simpl;
        try rewrite (Miss _ H1 _ _ eq_refl); try rewrite (Miss _ H2 _ _ eq_refl); simpl; auto.
    + assert (Miss : forall c, cache_ok F inv c -> forall a0 v0, c = Some (a0, v0) -> zl_eqb a0 args = false).
      { intros c Hc a0 v0 E. subst c. destruct (zl_eqb a0 args) eqn:Z0; [|reflexivity].
        apply zl_eqb_eq in Z0. subst a0. destruct Hc as [ids0 [E0 _]]. congruence. }
      destruct c1 as [[a1 v1]|]; destruct c2 as [[a2 v2]|]; simpl;
        try rewrite (Miss _ H1 _ _ eq_refl); try rewrite (Miss _ H2 _ _ eq_refl); simpl; auto.
    + assert (Miss : forall c, cache_ok F inv c -> forall a0 v0, c = Some (a0, v0) -> zl_eqb a0 args = false).
      { intros c Hc a0 v0 E. subst c. destruct (zl_eqb a0 args) eqn:Z0; [|reflexivity].
        apply zl_eqb_eq in Z0. subst a0. destruct Hc as [ids0 [E0 _]]. congruence. }
      destruct c1 as [[a1 v1]|]; destruct c2 as [[a2 v2]|]; simpl;
        try rewrite (Miss _ H1 _ _ eq_refl); try rewrite (Miss _ H2 _ _ eq_refl); simpl; auto.
Qed.
