(* Proofs/TreeCacheP.v -- laws of Model/TreeCache.v (C16):
   hoist leaves the stored operand alone and classifies 'a op b(r)' as index mode for every nesting;
   fixup_label is idempotent; a cached operator value is only reused for equal operands and a hit
   equals a recomputation; flags and caches only affect which diagnostics are repeated;
   hence '.repeat n { body }' = the body written out n times. *)
From Coq Require Import ZArith List String Ascii Bool Lia.
From Verif Require Import Base.Res Base.Bytes Model.TreeCache.
From Verif Require Gen.GenOperators Gen.GenGetAsInt.
Import ListNotations.
Open Scope string_scope.
Open Scope list_scope.
Open Scope Z_scope.

(* ============================================================================================ *)
(* hoist *)

(* the right spine of infix right operands / prefix operands that ends in a register call *)
Inductive frame :=
| FInfix (op : string) (l : tree) (c : cache)
| FPrefix (op : string) (c : cache).

Fixpoint plug (ctx : list frame) (x : tree) : tree :=
  match ctx with
  | [] => x
  | FInfix op l c :: rest => Infix op l (plug rest x) c
  | FPrefix op c :: rest => Prefix op (plug rest x) c
  end.

Lemma hoist_plug ctx b r c0 : is_regish r = true ->
  hoist (plug ctx (Call b r c0)) = match ctx with [] => Call b r c0 | _ => Call (plug ctx b) r None end.
Proof.
  intros Hr. induction ctx as [|f rest IH]; [reflexivity|].
  destruct f as [op l c|op c]; cbn [plug hoist]; rewrite IH; destruct rest; rewrite Hr; reflexivity.
Qed.

(* 'a op b(r)' with any nesting of infix / prefix operators above the call is 'Call (a op b) r' *)
Lemma hoist_classification ctx b r c0 : is_regish r = true -> ctx <> [] ->
  hoist (plug ctx (Call b r c0)) = Call (plug ctx b) r None.
Proof.
  intros Hr Hne. rewrite hoist_plug by exact Hr. destruct ctx; [congruence | reflexivity].
Qed.

(* the same as a function of the tree *)
Fixpoint spine (t : tree) : option (tree * tree) :=
  match t with
  | Call cl cr _ => if is_regish cr then Some (cl, cr) else None
  | Infix op l r c => match spine r with Some (off, reg) => Some (Infix op l off c, reg) | None => None end
  | Prefix op e c => match spine e with Some (off, reg) => Some (Prefix op off c, reg) | None => None end
  | _ => None
  end.

Lemma spine_regish t off reg : spine t = Some (off, reg) -> is_regish reg = true.
Proof.
  revert off reg. induction t; intros off reg H; simpl in H; try discriminate.
  - destruct (spine t2) as [[o r]|] eqn:E; [|discriminate]. inversion H; subst. eapply IHt2. reflexivity.
  - destruct (spine t) as [[o r]|] eqn:E; [|discriminate]. inversion H; subst. eapply IHt. reflexivity.
  - destruct (is_regish t2) eqn:E; [|discriminate]. inversion H; subst. exact E.
Qed.

Definition is_call (t : tree) : bool := match t with Call _ _ _ => true | _ => false end.

Lemma hoist_spec t :
  hoist t = if is_call t then t
            else match spine t with Some (off, reg) => Call off reg None | None => t end.
Proof.
  induction t; try reflexivity.
  - (* Infix *)
    cbn [hoist is_call spine]. rewrite IHt2.
    destruct t2; try reflexivity.
    + (* Infix below *)
      cbn [is_call]. destruct (spine (Infix op0 t2_1 t2_2 c0)) as [[off reg]|] eqn:E.
      * rewrite (spine_regish _ _ _ E). reflexivity.
      * reflexivity.
    + cbn [is_call]. destruct (spine (Prefix op0 t2 c0)) as [[off reg]|] eqn:E.
      * rewrite (spine_regish _ _ _ E). reflexivity.
      * reflexivity.
    + cbn [is_call spine]. destruct (is_regish t2_2); reflexivity.
  - (* Prefix *)
    cbn [hoist is_call spine]. rewrite IHt.
    destruct t; try reflexivity.
    + cbn [is_call]. destruct (spine (Infix op0 t1 t2 c0)) as [[off reg]|] eqn:E.
      * rewrite (spine_regish _ _ _ E). reflexivity.
      * reflexivity.
    + cbn [is_call]. destruct (spine (Prefix op0 t c0)) as [[off reg]|] eqn:E.
      * rewrite (spine_regish _ _ _ E). reflexivity.
      * reflexivity.
    + cbn [is_call spine]. destruct (is_regish t2); reflexivity.
Qed.

(* ============================================================================================ *)
(* strip: basic facts *)
Lemma strip_idem t : strip (strip t) = strip t.
Proof. induction t; simpl; congruence. Qed.

Lemma regp_strip t : regp (strip t) = regp t.
Proof. destruct t; reflexivity. Qed.

Lemma is_percent_strip t : is_percent (strip t) = is_percent t.
Proof. destruct t; reflexivity. Qed.

Lemma is_regish_strip t : is_regish (strip t) = is_regish t.
Proof. unfold is_regish. rewrite regp_strip, is_percent_strip. reflexivity. Qed.

Lemma paren_reg_strip t : paren_reg (strip t) = paren_reg t.
Proof. destruct t; try reflexivity. simpl. rewrite regp_strip. reflexivity. Qed.

Lemma has_percent_strip t : has_percent (strip t) = has_percent t.
Proof. induction t; simpl; congruence. Qed.

Lemma get_strip p : forall t, strip (get p t) = get p (strip t).
Proof.
  induction p as [|d p IH]; intros t; [reflexivity|].
  destruct d, t; simpl; try reflexivity; apply IH.
Qed.

Lemma put_strip p : forall t x, strip x = strip (get p t) -> strip (put p t x) = strip t.
Proof.
  induction p as [|d p IH]; intros t x H; [exact H|].
  destruct d, t; simpl in *; try reflexivity; rewrite (IH _ _ H); reflexivity.
Qed.

Lemma put_strip2 p : forall t1 t2 x1 x2, strip t1 = strip t2 -> strip x1 = strip x2 ->
  strip (put p t1 x1) = strip (put p t2 x2).
Proof.
  induction p as [|d p IH]; intros t1 t2 x1 x2 Ht Hx; [exact Hx|].
  destruct d, t1, t2; simpl in *; try discriminate; try exact Ht; inversion Ht; subst;
    try (erewrite IH by eassumption; reflexivity); congruence.
Qed.

Lemma spine_strip t :
  spine (strip t) = match spine t with Some (off, reg) => Some (strip off, strip reg) | None => None end.
Proof.
  induction t; try reflexivity.
  - simpl. rewrite IHt2. destruct (spine t2) as [[o r]|]; reflexivity.
  - simpl. rewrite IHt. destruct (spine t) as [[o r]|]; reflexivity.
  - simpl. rewrite is_regish_strip. destruct (is_regish t2); reflexivity.
Qed.

Lemma unhoist_strip t : forall off reg off',
  spine t = Some (off, reg) -> strip off' = strip off -> strip (unhoist t off') = strip t.
Proof.
  induction t; intros off reg off' Hs Ho; simpl in Hs; try discriminate.
  - destruct (spine t2) as [[o r]|] eqn:E; [|discriminate]. inversion Hs; subst.
    destruct off'; simpl in Ho; try discriminate. inversion Ho; subst.
    simpl. rewrite (IHt2 _ _ _ eq_refl H2). congruence.
  - destruct (spine t) as [[o r]|] eqn:E; [|discriminate]. inversion Hs; subst.
    destruct off'; simpl in Ho; try discriminate. inversion Ho; subst.
    simpl. rewrite (IHt _ _ _ eq_refl H1). reflexivity.
  - destruct (is_regish t2); [|discriminate]. inversion Hs; subst. simpl. rewrite Ho. reflexivity.
Qed.

(* ============================================================================================ *)
(* what is written on the tree: coherence *)

(* a stored (value_args, value) is what the operator returns for those operands; if producing it
   reported an error, an error has been reported in this assembly (latch F) *)
Definition cache_ok (F : bool) (inv : list Z -> res GenOperators.opres) (c : cache) : Prop :=
  match c with
  | None => True
  | Some (args, v) => exists ids, inv args = Ok (v, ids) /\ (ids = [] \/ F = true)
  end.

Fixpoint coh (F : bool) (t : tree) : Prop :=
  match t with
  | Num _ _ _ b8 rep => b8 = true -> rep = true -> F = true
  | Chr cs ev => ev = None \/ ev = Some (chr_value cs)
  | Sym _ _ => True
  | Dot => True
  | Paren _ e => coh F e
  | Infix op l r c => coh F l /\ coh F r /\ (is_pure GenOperators.KInfix op = false -> cache_ok F (invoke_infix op) c)
  | Call l r c => coh F l /\ coh F r /\ (is_pure GenOperators.KInfix "$" = false -> cache_ok F (invoke_infix "$") c)
  | Prefix op e c => coh F e /\ (is_pure GenOperators.KPrefix op = false -> cache_ok F (invoke_prefix op) c)
  | Postfix op e c => coh F e /\ (is_pure GenOperators.KPostfix op = false -> cache_ok F (invoke_postfix op) c)
  end.

Lemma cache_ok_le F F' inv c : (F = true -> F' = true) -> cache_ok F inv c -> cache_ok F' inv c.
Proof.
  intros L. destruct c as [[args v]|]; simpl; [|trivial].
  intros [ids [E H]]. exists ids. split; [exact E|]. destruct H; [left; assumption | right; auto].
Qed.

Lemma coh_le F F' t : (F = true -> F' = true) -> coh F t -> coh F' t.
Proof.
  intros L. induction t; simpl; try tauto.
  - intros [H1 [H2 H3]]. repeat split; auto. intros P. eapply cache_ok_le; eauto.
  - intros [H1 H2]. split; auto. intros P. eapply cache_ok_le; eauto.
  - intros [H1 H2]. split; auto. intros P. eapply cache_ok_le; eauto.
  - intros [H1 [H2 H3]]. repeat split; auto. intros P. eapply cache_ok_le; eauto.
Qed.

Lemma coh_true t : coh false t -> coh true t.
Proof. apply coh_le. auto. Qed.

(* a tree as the parser makes it is coherent in every state *)
Lemma coh_strip F t : coh F (strip t).
Proof. induction t; simpl; auto; try discriminate. Qed.

Lemma ne_app {A} (a b : list A) : ne (a ++ b) = ne a || ne b.
Proof. destruct a; reflexivity. Qed.

(* boolean side conditions about the latch *)
Ltac nebool :=
  repeat rewrite ne_app in *;
  repeat match goal with
  | |- context [@ne ?A ?d] => let b := fresh "b" in set (b := @ne A d) in *; clearbody b
  | H : context [@ne ?A ?d] |- _ => let b := fresh "b" in set (b := @ne A d) in *; clearbody b
  end.
Ltac allbool := repeat match goal with b : bool |- _ => destruct b end; simpl in *; try congruence; auto.

(* ============================================================================================ *)
(* the relation between two runs of the same code on two annotation states of the same tree *)
Section Rel.
  Context {V X : Type}.
  Variable nf : X -> X.
  Variable cohx : bool -> X -> Prop.
  Definition R (F : bool) (x1 x2 : X) (r1 r2 : res (V * X * list string)) : Prop :=
    match r1, r2 with
    | Ok (v1, y1, d1), Ok (v2, y2, d2) =>
        v1 = v2 /\ nf y1 = nf x1 /\ nf y2 = nf x2 /\ (F || ne d1 = F || ne d2)
        /\ cohx (F || ne d1) y1 /\ cohx (F || ne d2) y2
    | Err e1, Err e2 => e1 = e2
    | Crash s1, Crash s2 => s1 = s2
    | OutOfFuel, OutOfFuel => True
    | _, _ => False
    end.
End Rel.

Lemma R_bind {V X V' X' : Type} (nf : X -> X) (cohx : bool -> X -> Prop) (nf' : X' -> X') (cohx' : bool -> X' -> Prop) F F' x1 x2 z1 z2
      (r1 r2 : res (V * X * list string)) (k1 k2 : V * X * list string -> res (V' * X' * list string)) :
  R nf cohx F x1 x2 r1 r2 ->
  (forall v y1 y2 d1 d2,
      nf y1 = nf x1 -> nf y2 = nf x2 -> (F || ne d1 = F || ne d2) ->
      cohx (F || ne d1) y1 -> cohx (F || ne d2) y2 ->
      R nf' cohx' F' z1 z2 (k1 (v, y1, d1)) (k2 (v, y2, d2))) ->
  R nf' cohx' F' z1 z2 (bind r1 k1) (bind r2 k2).
Proof.
  intros H K.
  destruct r1 as [[[v1 y1] d1]| | |]; destruct r2 as [[[v2 y2] d2]| | |]; simpl in *; try tauto.
  destruct H as [E [N1 [N2 [B [C1 C2]]]]]. subst v2. apply K; assumption.
Qed.

(* ============================================================================================ *)
(* wrap_impure *)
Definition cnf (c : cache) : cache := None.
Definition ccoh (pure : bool) (inv : list Z -> res GenOperators.opres) (F : bool) (c : cache) : Prop :=
  pure = false -> cache_ok F inv c.

Lemma zl_eqb_eq a : forall b, zl_eqb a b = true -> a = b.
Proof.
  induction a as [|x a IH]; intros [|y b] H; simpl in H; try discriminate; [reflexivity|].
  apply andb_prop in H. destruct H as [H1 H2]. apply Z.eqb_eq in H1. subst. f_equal. apply IH. exact H2.
Qed.

(* cache_coherent: the stored value is returned only for equal operands, and then it is the value
   a recomputation gives; with other operands the operator is invoked again *)
Lemma zl_eqb_refl a : zl_eqb a a = true.
Proof. induction a; simpl; [reflexivity|]. rewrite Z.eqb_refl. exact IHa. Qed.

Lemma use_cache_hit c args inv v c' d :
  use_cache false c args inv = Ok (v, c', d) ->
  (c = Some (args, v) /\ c' = c /\ d = [])
  \/ (inv args = Ok (v, d) /\ c' = Some (args, v)
      /\ (forall a0 v0, c = Some (a0, v0) -> a0 <> args)).
Proof.
  unfold use_cache. destruct c as [[args0 v0]|].
  - destruct (zl_eqb args0 args) eqn:E.
    + intros H. inversion H. left. apply zl_eqb_eq in E. subst. auto.
    + intros H. destruct (inv args) as [[v1 ids]| | |] eqn:Ei; simpl in H; try discriminate.
      inversion H. right. repeat split; auto.
      intros a0 w0 Hc Ha. inversion Hc. subst. rewrite zl_eqb_refl in E. discriminate.
  - intros H. destruct (inv args) as [[v1 ids]| | |] eqn:Ei; simpl in H; try discriminate.
    inversion H. right. repeat split; auto. intros; discriminate.
Qed.

Lemma use_cache_R pure inv F c1 c2 args :
  ccoh pure inv F c1 -> ccoh pure inv F c2 ->
  R cnf (ccoh pure inv) F c1 c2 (use_cache pure c1 args inv) (use_cache pure c2 args inv).
Proof.
  unfold ccoh. intros H1 H2. unfold use_cache.
  destruct pure.
  - destruct (inv args) as [[v ids]| | |]; simpl; auto.
    repeat split; intros; discriminate.
  - specialize (H1 eq_refl). specialize (H2 eq_refl).
    destruct (inv args) as [[v ids]| | |] eqn:Ei.
    + (* recomputation succeeds with (v, ids) *)
      assert (Hit : forall c, cache_ok F inv c ->
                forall a0 v0, c = Some (a0, v0) -> zl_eqb a0 args = true -> v0 = v /\ (ids = [] \/ F = true)).
      { intros c Hc a0 v0 E Z0. subst c. apply zl_eqb_eq in Z0. subst a0.
        destruct Hc as [ids0 [E0 Hf]]. rewrite Ei in E0. inversion E0; subst. auto. }
      destruct c1 as [[a1 v1]|]; destruct c2 as [[a2 v2]|]; simpl;
        try (destruct (zl_eqb a1 args) eqn:Z1); try (destruct (zl_eqb a2 args) eqn:Z2); simpl;
        try (destruct (Hit _ H1 _ _ eq_refl Z1) as [Ev1 Hf1]; subst v1);
        try (destruct (Hit _ H2 _ _ eq_refl Z2) as [Ev2 Hf2]; subst v2);
        repeat split; try reflexivity;
        try (intros _; exists ids; split; [exact Ei | destruct ids; simpl; [left; reflexivity | right; destruct F; reflexivity]]);
        try (intros _; eapply cache_ok_le; [|eassumption]; intros; destruct F; simpl; auto; congruence);
        try (destruct ids; simpl; [destruct F; reflexivity|]);
        try (destruct Hf1 as [X|X]; [discriminate | rewrite X; reflexivity]);
        try (destruct Hf2 as [X|X]; [discriminate | rewrite X; reflexivity]);
        try (destruct F; reflexivity);
        try (intros _; simpl in H1; destruct H1 as [i1 [E1 X1]]; exists i1; split;
             [exact E1 | destruct X1; [left; assumption | right; destruct F; simpl; congruence]]);
        try (intros _; simpl in H2; destruct H2 as [i2 [E2 X2]]; exists i2; split;
             [exact E2 | destruct X2; [left; assumption | right; destruct F; simpl; congruence]]).
    + (* recomputation reports and raises: a coherent cache cannot hold these operands *)
      assert (Miss : forall c, cache_ok F inv c -> forall a0 v0, c = Some (a0, v0) -> zl_eqb a0 args = false).
      { intros c Hc a0 v0 E. subst c. destruct (zl_eqb a0 args) eqn:Z0; [|reflexivity].
        apply zl_eqb_eq in Z0. subst a0. destruct Hc as [ids0 [E0 _]]. congruence. }
      destruct c1 as [[a1 v1]|]; destruct c2 as [[a2 v2]|]; simpl;
        try rewrite (Miss _ H1 _ _ eq_refl); try rewrite (Miss _ H2 _ _ eq_refl); simpl; auto.
    + assert (Miss : forall c, cache_ok F inv c -> forall a0 v0, c = Some (a0, v0) -> zl_eqb a0 args = false).
      { intros c Hc a0 v0 E. subst c. destruct (zl_eqb a0 args) eqn:Z0; [|reflexivity].
        apply zl_eqb_eq in Z0. subst a0. destruct Hc as [ids0 [E0 _]]. congruence. }
      destruct c1 as [[a1 v1]|]; destruct c2 as [[a2 v2]|]; simpl;
        try rewrite (Miss _ H1 _ _ eq_refl); try rewrite (Miss _ H2 _ _ eq_refl); simpl; auto.
    + assert (Miss : forall c, cache_ok F inv c -> forall a0 v0, c = Some (a0, v0) -> zl_eqb a0 args = false).
      { intros c Hc a0 v0 E. subst c. destruct (zl_eqb a0 args) eqn:Z0; [|reflexivity].
        apply zl_eqb_eq in Z0. subst a0. destruct Hc as [ids0 [E0 _]]. congruence. }
      destruct c1 as [[a1 v1]|]; destruct c2 as [[a2 v2]|]; simpl;
        try rewrite (Miss _ H1 _ _ eq_refl); try rewrite (Miss _ H2 _ _ eq_refl); simpl; auto.
Qed.

(* ============================================================================================ *)
(* eval does not depend on what is written on the tree *)
Lemma R_ok {V X : Type} (nf : X -> X) (cohx : bool -> X -> Prop) F x1 x2 (v : V) y1 y2 (d1 d2 : list string) :
  nf y1 = nf x1 -> nf y2 = nf x2 -> (F || ne d1 = F || ne d2) ->
  cohx (F || ne d1) y1 -> cohx (F || ne d2) y2 ->
  R nf cohx F x1 x2 (Ok (v, y1, d1)) (Ok (v, y2, d2)).
Proof. intros. simpl. auto 10. Qed.

Ltac coh_weaken :=
  match goal with
  | H : coh ?A ?t |- coh ?B ?t => apply (coh_le A B t); [|exact H]; intro; nebool; allbool
  end.

Lemma eval_R env dot F : forall t1 t2,
  strip t1 = strip t2 -> coh F t1 -> coh F t2 ->
  R strip coh F t1 t2 (eval env dot t1) (eval env dot t2).
Proof.
  induction t1; intros t2 Hs C1 C2; destruct t2; simpl in Hs; try discriminate; inversion Hs; subst; clear Hs.
  - (* Num *)
    cbn [eval]. simpl in C1, C2.
    destruct bad0, reported, reported0; simpl; repeat split; auto; try discriminate;
      try (rewrite C1 by reflexivity; reflexivity); try (rewrite C2 by reflexivity; reflexivity);
      try (intros; destruct F; reflexivity).
  - (* Chr *)
    cbn [eval]. simpl in C1, C2.
    destruct C1 as [C1|C1], C2 as [C2|C2]; subst; simpl; repeat split; auto.
  - (* Sym *)
    cbn [eval]. destruct (if nec_label0 then None else reg_of_name name0); [reflexivity|].
    destruct (env name0); simpl; repeat split; auto.
  - (* Dot *)
    cbn [eval]. simpl. repeat split; auto.
  - (* Paren *)
    cbn [eval]. simpl in C1, C2.
    eapply R_bind; [apply (IHt1 t2 H1 C1 C2)|].
    intros v y1 y2 d1 d2 N1 N2 B K1 K2. apply R_ok; simpl; auto; congruence.
  - (* Infix *)
    cbn [eval]. simpl in C1, C2. destruct C1 as [Cl1 [Cr1 Cc1]]. destruct C2 as [Cl2 [Cr2 Cc2]].
    eapply R_bind; [apply (IHt1_1 t2_1 H1 Cl1 Cl2)|].
    intros a l1 l2 d1 e1 Nl1 Nl2 Bl Kl1 Kl2.
    eapply R_bind; [apply (IHt1_2 t2_2 H2 Cr1 Cr2)|].
    intros b r1 r2 d2 e2 Nr1 Nr2 Br Kr1 Kr2.
    eapply R_bind; [apply (use_cache_R (is_pure GenOperators.KInfix op0) (invoke_infix op0) F c c0 [a; b] Cc1 Cc2)|].
    intros v k1 k2 d3 e3 _ _ Bc Kc1 Kc2.
    apply R_ok; simpl; try congruence.
    + nebool; allbool.
    + repeat split; try coh_weaken. intros P. eapply cache_ok_le; [|apply (Kc1 P)]. intro; nebool; allbool.
    + repeat split; try coh_weaken. intros P. eapply cache_ok_le; [|apply (Kc2 P)]. intro; nebool; allbool.
  - (* Prefix *)
    cbn [eval]. simpl in C1, C2. destruct C1 as [Cl1 Cc1]. destruct C2 as [Cl2 Cc2].
    eapply R_bind; [apply (IHt1 t2 H1 Cl1 Cl2)|].
    intros a l1 l2 d1 e1 Nl1 Nl2 Bl Kl1 Kl2.
    eapply R_bind; [apply (use_cache_R (is_pure GenOperators.KPrefix op0) (invoke_prefix op0) F c c0 [a] Cc1 Cc2)|].
    intros v k1 k2 d3 e3 _ _ Bc Kc1 Kc2.
    apply R_ok; simpl; try congruence.
    + nebool; allbool.
    + repeat split; try coh_weaken. intros P. eapply cache_ok_le; [|apply (Kc1 P)]. intro; nebool; allbool.
    + repeat split; try coh_weaken. intros P. eapply cache_ok_le; [|apply (Kc2 P)]. intro; nebool; allbool.
  - (* Postfix *)
    cbn [eval]. simpl in C1, C2. destruct C1 as [Cl1 Cc1]. destruct C2 as [Cl2 Cc2].
    eapply R_bind; [apply (IHt1 t2 H1 Cl1 Cl2)|].
    intros a l1 l2 d1 e1 Nl1 Nl2 Bl Kl1 Kl2.
    eapply R_bind; [apply (use_cache_R (is_pure GenOperators.KPostfix op0) (invoke_postfix op0) F c c0 [a] Cc1 Cc2)|].
    intros v k1 k2 d3 e3 _ _ Bc Kc1 Kc2.
    apply R_ok; simpl; try congruence.
    + nebool; allbool.
    + repeat split; try coh_weaken. intros P. eapply cache_ok_le; [|apply (Kc1 P)]. intro; nebool; allbool.
    + repeat split; try coh_weaken. intros P. eapply cache_ok_le; [|apply (Kc2 P)]. intro; nebool; allbool.
  - (* Call *)
    cbn [eval]. simpl in C1, C2. destruct C1 as [Cl1 [Cr1 Cc1]]. destruct C2 as [Cl2 [Cr2 Cc2]].
    eapply R_bind; [apply (IHt1_1 t2_1 H0 Cl1 Cl2)|].
    intros a l1 l2 d1 e1 Nl1 Nl2 Bl Kl1 Kl2.
    eapply R_bind; [apply (IHt1_2 t2_2 H1 Cr1 Cr2)|].
    intros b r1 r2 d2 e2 Nr1 Nr2 Br Kr1 Kr2.
    eapply R_bind; [apply (use_cache_R (is_pure GenOperators.KInfix "$") (invoke_infix "$") F c c0 [a; b] Cc1 Cc2)|].
    intros v k1 k2 d3 e3 _ _ Bc Kc1 Kc2.
    apply R_ok; simpl; try congruence.
    + nebool; allbool.
    + repeat split; try coh_weaken. intros P. eapply cache_ok_le; [|apply (Kc1 P)]. intro; nebool; allbool.
    + repeat split; try coh_weaken. intros P. eapply cache_ok_le; [|apply (Kc2 P)]. intro; nebool; allbool.
Qed.

(* ============================================================================================ *)
(* RegisterModeOperandStub.encode *)
Lemma plain_plan_strip t : plain_plan (strip t) = plain_plan t.
Proof.
  unfold plain_plan. rewrite regp_strip, paren_reg_strip.
  destruct (regp t); [reflexivity|]. destruct (paren_reg t); [reflexivity|].
  destruct t; try reflexivity.
  - (* Prefix *)
    cbn [strip]. rewrite regp_strip, paren_reg_strip.
    destruct (op =? "@")%string.
    + destruct (regp t); [reflexivity|].
      destruct t; try reflexivity; cbn [strip]; try rewrite paren_reg_strip; reflexivity.
    + reflexivity.
  - (* Postfix *)
    cbn [strip]. rewrite paren_reg_strip. reflexivity.
  - (* Call *)
    cbn [strip]. rewrite regp_strip. destruct (regp t2); [|reflexivity].
    destruct t1; reflexivity.
Qed.

Definition hoisted_plan (off reg : tree) : Z * ekind * list dir * option tree :=
  match regp reg with
  | Some r =>
      match off with
      | Prefix op x c1 =>
          if String.eqb op "@" then (56 + r, EGai, [DOperand], Some off)
          else (48 + r, EGai, [], Some off)
      | _ => (48 + r, EGai, [], Some off)
      end
  | None => (55, ERel, [], None)
  end.

Definition is_spine_top (t : tree) : bool :=
  match t with Infix _ _ _ _ | Prefix _ _ _ => true | _ => false end.

Lemma classify_spec t :
  classify t = if is_spine_top t
               then match spine t with
                    | Some (off, reg) => hoisted_plan off reg
                    | None => (plain_plan t, None)
                    end
               else (plain_plan t, None).
Proof.
  destruct t; try reflexivity.
  - unfold classify. rewrite hoist_spec. cbn [is_call is_spine_top].
    destruct (spine (Infix op t1 t2 c)) as [[off reg]|]; reflexivity.
  - unfold classify. rewrite hoist_spec. cbn [is_call is_spine_top].
    destruct (spine (Prefix op t c)) as [[off reg]|]; reflexivity.
Qed.

Definition strip_plan (p : Z * ekind * list dir * option tree) : Z * ekind * list dir * option tree :=
  let '(m, k, path, h) := p in (m, k, path, option_map strip h).

Lemma is_spine_top_strip t : is_spine_top (strip t) = is_spine_top t.
Proof. destruct t; reflexivity. Qed.

Lemma classify_strip t : classify (strip t) = strip_plan (classify t).
Proof.
  rewrite !classify_spec, is_spine_top_strip, spine_strip, plain_plan_strip.
  destruct (is_spine_top t).
  - destruct (spine t) as [[off reg]|].
    + unfold hoisted_plan. rewrite regp_strip. destruct (regp reg); [|reflexivity].
      destruct off; try reflexivity. cbn [strip]. destruct (op =? "@")%string; reflexivity.
    + destruct (plain_plan t) as [[m k] p]. reflexivity.
  - destruct (plain_plan t) as [[m k] p]. reflexivity.
Qed.

Lemma classify_hoisted t m k p off :
  classify t = (m, k, p, Some off) -> exists reg, spine t = Some (off, reg).
Proof.
  rewrite classify_spec. destruct (is_spine_top t).
  - destruct (spine t) as [[o reg]|].
    + unfold hoisted_plan. destruct (regp reg); [|discriminate].
      intros H. exists reg.
      destruct o; try (inversion H; reflexivity).
      destruct (op =? "@")%string; inversion H; reflexivity.
    + destruct (plain_plan t) as [[m0 k0] p0]. discriminate.
  - destruct (plain_plan t) as [[m0 k0] p0]. discriminate.
Qed.

Lemma coh_get F p : forall t, coh F t -> coh F (get p t).
Proof.
  induction p as [|d p IH]; intros t H; [exact H|].
  destruct d, t; simpl in *; auto; apply IH; tauto.
Qed.

Lemma coh_put F p : forall t x, coh F t -> coh F x -> coh F (put p t x).
Proof.
  induction p as [|d p IH]; intros t x Ht Hx; [exact Hx|].
  destruct d, t; simpl in *; auto.
  - destruct Ht; split; auto.
  - destruct Ht; split; auto.
  - destruct Ht as [A [B D]]; repeat split; auto.
Qed.

Lemma spine_coh F t : forall off reg, spine t = Some (off, reg) -> coh F t -> coh F off.
Proof.
  induction t; intros off reg Hs Hc; simpl in Hs; try discriminate.
  - destruct (spine t2) as [[o r]|] eqn:E; [|discriminate]. inversion Hs; subst.
    simpl in *. destruct Hc as [A [B D]]. repeat split; auto. eapply IHt2; eauto.
  - destruct (spine t) as [[o r]|] eqn:E; [|discriminate]. inversion Hs; subst.
    simpl in *. destruct Hc as [A D]. split; auto. eapply IHt; eauto.
  - destruct (is_regish t2); [|discriminate]. inversion Hs; subst. simpl in Hc. tauto.
Qed.

Lemma unhoist_coh F t : forall x, coh F t -> coh F x -> coh F (unhoist t x).
Proof.
  induction t; intros x Ht Hx; simpl; auto.
  - destruct x; auto. simpl in *. destruct Ht as [A [B D]]. destruct Hx as [A' [B' D']]. repeat split; auto.
  - destruct x; auto. simpl in *. destruct Ht as [A D]. destruct Hx as [A' D']. split; auto.
  - simpl in *. destruct Ht as [A [B D]]. repeat split; auto.
Qed.

(* evaluation never changes the shape of the tree (no coherence needed) *)
Lemma eval_shape env dot t : forall rv t' rd, eval env dot t = Ok (rv, t', rd) -> strip t' = strip t.
Proof.
  induction t; intros rv t' rd H; cbn [eval] in H.
  - destruct (bad8 && negb reported); inversion H; reflexivity.
  - destruct evaluated; inversion H; reflexivity.
  - destruct (if nec_label then None else reg_of_name name); [discriminate|].
    destruct (env name); inversion H; reflexivity.
  - inversion H; reflexivity.
  - apply bind_ok_inv in H. destruct H as [[[a e'] d1] [E H]]. inversion H; subst.
    simpl. rewrite (IHt _ _ _ E). reflexivity.
  - apply bind_ok_inv in H. destruct H as [[[a l'] d1] [E1 H]].
    apply bind_ok_inv in H. destruct H as [[[b r'] d2] [E2 H]].
    apply bind_ok_inv in H. destruct H as [[[w c'] d3] [E3 H]]. inversion H; subst.
    simpl. rewrite (IHt1 _ _ _ E1), (IHt2 _ _ _ E2). reflexivity.
  - apply bind_ok_inv in H. destruct H as [[[a l'] d1] [E1 H]].
    apply bind_ok_inv in H. destruct H as [[[w c'] d3] [E3 H]]. inversion H; subst.
    simpl. rewrite (IHt _ _ _ E1). reflexivity.
  - apply bind_ok_inv in H. destruct H as [[[a l'] d1] [E1 H]].
    apply bind_ok_inv in H. destruct H as [[[w c'] d3] [E3 H]]. inversion H; subst.
    simpl. rewrite (IHt _ _ _ E1). reflexivity.
  - apply bind_ok_inv in H. destruct H as [[[a l'] d1] [E1 H]].
    apply bind_ok_inv in H. destruct H as [[[b r'] d2] [E2 H]].
    apply bind_ok_inv in H. destruct H as [[[w c'] d3] [E3 H]]. inversion H; subst.
    simpl. rewrite (IHt1 _ _ _ E1), (IHt2 _ _ _ E2). reflexivity.
Qed.

Lemma gai_shape bits uns env dot t w t' d : gai bits uns env dot t = Ok (w, t', d) -> strip t' = strip t.
Proof.
  unfold gai. intros H. apply bind_ok_inv in H. destruct H as [[[v s] d1] [E H]].
  apply bind_ok_inv in H. destruct H as [w0 [_ H]]. inversion H; subst. eapply eval_shape; eauto.
Qed.

(* hoist_pure: compiling an operand leaves the stored operand as it was, up to caches and flags.
   (The pre-fix code left the hoisted tree there.) *)
Lemma compile_rm_shape env dot rel t m ext t' d :
  compile_rm env dot rel t = Ok (m, ext, t', d) -> strip t' = strip t.
Proof.
  unfold compile_rm. destruct (has_percent t); [discriminate|].
  destruct (classify t) as [[[mode kind] path] h] eqn:Ec.
  assert (Back : forall s', strip s' = strip (get path (match h with Some off => off | None => t end)) ->
            strip (match h with Some off => unhoist t (put path off s') | None => put path t s' end) = strip t).
  { intros s' Hs. destruct h as [off|].
    - destruct (classify_hoisted _ _ _ _ _ Ec) as [reg Hsp].
      eapply unhoist_strip; [exact Hsp|]. apply put_strip. exact Hs.
    - apply put_strip. exact Hs. }
  destruct kind.
  - intros H; inversion H; reflexivity.
  - intros H; inversion H; reflexivity.
  - intros H. apply bind_ok_inv in H. destruct H as [[[w s'] d1] [E H]]. inversion H; subst.
    apply Back. eapply gai_shape; eauto.
  - intros H. apply bind_ok_inv in H. destruct H as [[[w s'] d1] [E H]]. inversion H; subst.
    apply Back. eapply eval_shape; eauto.
Qed.

Lemma gai_R bits uns env dot F t1 t2 :
  strip t1 = strip t2 -> coh F t1 -> coh F t2 ->
  R strip coh F t1 t2 (gai bits uns env dot t1) (gai bits uns env dot t2).
Proof.
  intros Hs C1 C2. unfold gai.
  eapply R_bind; [apply (eval_R env dot F t1 t2 Hs C1 C2)|].
  intros v y1 y2 d1 d2 N1 N2 B K1 K2.
  destruct (GenGetAsInt.get_as_int bits uns None v); simpl; auto 10.
Qed.

Definition opnf := strip.

Lemma compile_rm_R env dot rel F t1 t2 :
  strip t1 = strip t2 -> coh F t1 -> coh F t2 ->
  R strip coh F t1 t2 (compile_rm env dot rel t1) (compile_rm env dot rel t2).
Proof.
  intros Hs C1 C2. unfold compile_rm.
  assert (Hp : has_percent t1 = has_percent t2).
  { rewrite <- (has_percent_strip t1), <- (has_percent_strip t2), Hs. reflexivity. }
  rewrite Hp. destruct (has_percent t2); [reflexivity|].
  pose proof (classify_strip t1) as S1. pose proof (classify_strip t2) as S2. rewrite Hs in S1. rewrite S1 in S2.
  destruct (classify t1) as [[[m1 k1] p1] h1] eqn:E1. destruct (classify t2) as [[[m2 k2] p2] h2] eqn:E2.
  simpl in S2. inversion S2; subst m2 k2 p2. clear S2 S1. rename H3 into Hh.
  set (w1 := match h1 with Some off => off | None => t1 end).
  set (w2 := match h2 with Some off => off | None => t2 end).
  assert (Hw : strip w1 = strip w2).
  { unfold w1, w2. destruct h1, h2; simpl in Hh; try discriminate; [inversion Hh; reflexivity | exact Hs]. }
  assert (Cw1 : coh F w1).
  { unfold w1. destruct h1 as [off|]; [|exact C1].
    destruct (classify_hoisted _ _ _ _ _ E1) as [reg Hsp]. eapply spine_coh; eauto. }
  assert (Cw2 : coh F w2).
  { unfold w2. destruct h2 as [off|]; [|exact C2].
    destruct (classify_hoisted _ _ _ _ _ E2) as [reg Hsp]. eapply spine_coh; eauto. }
  assert (Hsub : strip (get p1 w1) = strip (get p1 w2)) by (rewrite !get_strip, Hw; reflexivity).
  assert (Back1 : forall F' s', (F = true -> F' = true) -> strip s' = strip (get p1 w1) -> coh F' s' ->
            strip (match h1 with Some off => unhoist t1 (put p1 off s') | None => put p1 t1 s' end) = strip t1
            /\ coh F' (match h1 with Some off => unhoist t1 (put p1 off s') | None => put p1 t1 s' end)).
  { intros F' s' L Hs' Cs'. unfold w1 in *. destruct h1 as [off|].
    - destruct (classify_hoisted _ _ _ _ _ E1) as [reg Hsp]. split.
      + eapply unhoist_strip; [exact Hsp|]. apply put_strip. exact Hs'.
      + apply unhoist_coh; [eapply coh_le; eauto|]. apply coh_put; [eapply coh_le; eauto | exact Cs'].
    - split; [apply put_strip; exact Hs' | apply coh_put; [eapply coh_le; eauto | exact Cs']]. }
  assert (Back2 : forall F' s', (F = true -> F' = true) -> strip s' = strip (get p1 w2) -> coh F' s' ->
            strip (match h2 with Some off => unhoist t2 (put p1 off s') | None => put p1 t2 s' end) = strip t2
            /\ coh F' (match h2 with Some off => unhoist t2 (put p1 off s') | None => put p1 t2 s' end)).
  { intros F' s' L Hs' Cs'. unfold w2 in *. destruct h2 as [off|].
    - destruct (classify_hoisted _ _ _ _ _ E2) as [reg Hsp]. split.
      + eapply unhoist_strip; [exact Hsp|]. apply put_strip. exact Hs'.
      + apply unhoist_coh; [eapply coh_le; eauto|]. apply coh_put; [eapply coh_le; eauto | exact Cs'].
    - split; [apply put_strip; exact Hs' | apply coh_put; [eapply coh_le; eauto | exact Cs']]. }
  destruct k1.
  - apply R_ok; auto; (eapply coh_le; [|eassumption]; intro; allbool).
  - apply R_ok; auto; (eapply coh_le; [|eassumption]; intro; allbool).
  - eapply R_bind; [apply (gai_R (Some 16) false env dot F _ _ Hsub (coh_get F p1 w1 Cw1) (coh_get F p1 w2 Cw2))|].
    intros v y1 y2 d1 d2 N1 N2 B K1 K2.
    destruct (Back1 (F || ne d1) y1) as [A1 A2]; [intro; allbool | exact N1 | exact K1 |].
    destruct (Back2 (F || ne d2) y2) as [B1 B2]; [intro; allbool | exact N2 | exact K2 |].
    apply R_ok; auto.
  - eapply R_bind; [apply (eval_R env dot F _ _ Hsub (coh_get F p1 w1 Cw1) (coh_get F p1 w2 Cw2))|].
    intros v y1 y2 d1 d2 N1 N2 B K1 K2.
    destruct (Back1 (F || ne d1) y1) as [A1 A2]; [intro; allbool | exact N1 | exact K1 |].
    destruct (Back2 (F || ne d2) y2) as [B1 B2]; [intro; allbool | exact N2 | exact K2 |].
    apply R_ok; auto.
Qed.

(* ============================================================================================ *)
(* OffsetOperandStub.encode: fixup_label *)
Lemma fixup_idem t : forall a, fixup a (fst (fixup a t)) = fixup a t.
Proof.
  induction t; intros a; try reflexivity.
  - simpl. destruct (valid_label && a) eqn:E; simpl; [reflexivity | rewrite E; reflexivity].
  - simpl. destruct (fixup a t1) as [l' a1] eqn:E1. destruct (fixup a1 t2) as [r' a2] eqn:E2. simpl.
    pose proof (IHt1 a) as I1. rewrite E1 in I1. simpl in I1. rewrite I1.
    pose proof (IHt2 a1) as I2. rewrite E2 in I2. simpl in I2. rewrite I2. reflexivity.
  - simpl. destruct (fixup a t) as [e' a1] eqn:E1. simpl.
    pose proof (IHt a) as I1. rewrite E1 in I1. simpl in I1. rewrite I1. reflexivity.
  - simpl. destruct (fixup a t) as [e' a1] eqn:E1. simpl.
    pose proof (IHt a) as I1. rewrite E1 in I1. simpl in I1. rewrite I1. reflexivity.
  - simpl. destruct (fixup a t1) as [l' a1] eqn:E1. destruct (fixup a1 t2) as [r' a2] eqn:E2. simpl.
    pose proof (IHt1 a) as I1. rewrite E1 in I1. simpl in I1. rewrite I1.
    pose proof (IHt2 a1) as I2. rewrite E2 in I2. simpl in I2. rewrite I2. reflexivity.
Qed.

Lemma fixup_strip t : forall a, fixup a (strip t) = (strip (fst (fixup a t)), snd (fixup a t)).
Proof.
  induction t; intros a; try reflexivity.
  - simpl. destruct (valid_label && a); reflexivity.
  - simpl. rewrite IHt1. destruct (fixup a t1) as [l' a1]. simpl. rewrite IHt2. destruct (fixup a1 t2) as [r' a2]. reflexivity.
  - simpl. rewrite IHt. destruct (fixup a t) as [e' a1]. reflexivity.
  - simpl. rewrite IHt. destruct (fixup a t) as [e' a1]. reflexivity.
  - simpl. rewrite IHt1. destruct (fixup a t1) as [l' a1]. simpl. rewrite IHt2. destruct (fixup a1 t2) as [r' a2]. reflexivity.
Qed.

Lemma fixup_coh F t : forall a, coh F t -> coh F (fst (fixup a t)).
Proof.
  induction t; intros a H; simpl in *; auto.
  - destruct (valid_label && a); simpl; auto.
  - destruct H as [A [B D]]. specialize (IHt1 a A). destruct (fixup a t1) as [l' a1]. simpl in *.
    specialize (IHt2 a1 B). destruct (fixup a1 t2) as [r' a2]. simpl in *. auto.
  - destruct H as [A D]. specialize (IHt a A). destruct (fixup a t) as [e' a1]. simpl in *. auto.
  - destruct H as [A D]. specialize (IHt a A). destruct (fixup a t) as [e' a1]. simpl in *. auto.
  - destruct H as [A [B D]]. specialize (IHt1 a A). destruct (fixup a t1) as [l' a1]. simpl in *.
    specialize (IHt2 a1 B). destruct (fixup a1 t2) as [r' a2]. simpl in *. auto.
Qed.

Definition is_toplabel (t : tree) : bool := match t with Num _ _ true _ _ => true | _ => false end.

Lemma fix_inplace_top txt t : is_toplabel t = true -> fix_inplace txt t = t.
Proof. destruct t; simpl; try discriminate. destruct valid_label; [reflexivity | discriminate]. Qed.

Lemma fix_inplace_nontop txt t : is_toplabel t = false ->
  fix_inplace txt t = (if txt then t else fst (fixup true t)).
Proof. destruct t; simpl; try reflexivity. destruct valid_label; [discriminate | reflexivity]. Qed.

Lemma fixup_toplabel t a : is_toplabel t = false -> is_toplabel (fst (fixup a t)) = false.
Proof.
  destruct t; simpl; try reflexivity.
  - destruct valid_label; [discriminate|]. simpl. reflexivity.
  - destruct (fixup a t1) as [l' a1]. destruct (fixup a1 t2) as [r' a2]. reflexivity.
  - destruct (fixup a t) as [e' a1]. reflexivity.
  - destruct (fixup a t) as [e' a1]. reflexivity.
  - destruct (fixup a t1) as [l' a1]. destruct (fixup a1 t2) as [r' a2]. reflexivity.
Qed.

Lemma is_toplabel_strip t : is_toplabel (strip t) = is_toplabel t.
Proof. destruct t; reflexivity. Qed.

Lemma fix_inplace_toplabel txt t : is_toplabel (fix_inplace txt t) = is_toplabel t.
Proof.
  destruct (is_toplabel t) eqn:E.
  - rewrite fix_inplace_top by exact E. exact E.
  - rewrite fix_inplace_nontop by exact E. destruct txt; [exact E | apply fixup_toplabel; exact E].
Qed.

Lemma fix_inplace_strip txt t : strip (fix_inplace txt t) = fix_inplace txt (strip t).
Proof.
  destruct (is_toplabel t) eqn:E.
  - rewrite !fix_inplace_top; [reflexivity | rewrite is_toplabel_strip; exact E | exact E].
  - rewrite !fix_inplace_nontop; [| rewrite is_toplabel_strip; exact E | exact E].
    destruct txt; [reflexivity|]. rewrite fixup_strip. reflexivity.
Qed.

(* fixup_idempotent: running fixup_label again on its own output changes nothing *)
Lemma fix_inplace_idem txt t : fix_inplace txt (fix_inplace txt t) = fix_inplace txt t.
Proof.
  destruct (is_toplabel t) eqn:E.
  - rewrite !fix_inplace_top; auto. rewrite fix_inplace_top; auto.
  - rewrite (fix_inplace_nontop txt t E). destruct txt.
    + apply fix_inplace_nontop. exact E.
    + rewrite fix_inplace_nontop by (apply fixup_toplabel; exact E).
      rewrite fixup_idem. reflexivity.
Qed.

Lemma fix_inplace_coh F txt t : coh F t -> coh F (fix_inplace txt t).
Proof.
  intros H. destruct (is_toplabel t) eqn:E.
  - rewrite fix_inplace_top; auto.
  - rewrite fix_inplace_nontop by exact E. destruct txt; [exact H | apply fixup_coh; exact H].
Qed.

Definition brnf (txt : bool) (t : tree) : tree := strip (fix_inplace txt t).

Lemma br_operand_spec txt t :
  br_operand txt t = match t with Num r _ true _ _ => Sym r true | _ => fix_inplace txt t end.
Proof. reflexivity. Qed.

Lemma br_operand_nontop txt t : is_toplabel t = false -> br_operand txt t = fix_inplace txt t.
Proof. destruct t; simpl; try reflexivity. destruct valid_label; [discriminate | reflexivity]. Qed.

Lemma br_back_nontop t s : is_toplabel t = false -> br_back t s = s.
Proof. destruct t; simpl; try reflexivity. destruct valid_label; [discriminate | reflexivity]. Qed.

Lemma br_back_top t s : is_toplabel t = true -> br_back t s = t.
Proof. destruct t; simpl; try discriminate. destruct valid_label; [reflexivity | discriminate]. Qed.

Lemma brnf_toplabel txt t1 t2 : brnf txt t1 = brnf txt t2 -> is_toplabel t1 = is_toplabel t2.
Proof.
  unfold brnf. intros H.
  rewrite <- (fix_inplace_toplabel txt t1), <- (fix_inplace_toplabel txt t2).
  rewrite <- (is_toplabel_strip (fix_inplace txt t1)), <- (is_toplabel_strip (fix_inplace txt t2)), H.
  reflexivity.
Qed.

Lemma br_operand_R txt t1 t2 : brnf txt t1 = brnf txt t2 ->
  strip (br_operand txt t1) = strip (br_operand txt t2).
Proof.
  intros H. pose proof (brnf_toplabel _ _ _ H) as Ht.
  destruct (is_toplabel t1) eqn:E1; symmetry in Ht.
  - unfold brnf in H. rewrite !fix_inplace_top in H by assumption.
    destruct t1; simpl in E1; try discriminate. destruct valid_label; [|discriminate].
    destruct t2; simpl in Ht; try discriminate. destruct valid_label; [|discriminate].
    simpl in H. inversion H; subst. reflexivity.
  - rewrite !br_operand_nontop by assumption. exact H.
Qed.

Lemma br_back_nf txt t s' : strip s' = strip (br_operand txt t) -> brnf txt (br_back t s') = brnf txt t.
Proof.
  intros H. destruct (is_toplabel t) eqn:E.
  - rewrite br_back_top by exact E. reflexivity.
  - rewrite br_back_nontop by exact E. rewrite br_operand_nontop in H by exact E.
    unfold brnf. rewrite fix_inplace_strip, H, <- fix_inplace_strip, fix_inplace_idem. reflexivity.
Qed.

Lemma br_operand_coh F txt t : coh F t -> coh F (br_operand txt t).
Proof.
  intros H. destruct (is_toplabel t) eqn:E.
  - destruct t; simpl in E; try discriminate. destruct valid_label; [exact I | discriminate].
  - rewrite br_operand_nontop by exact E. apply fix_inplace_coh. exact H.
Qed.

Lemma br_back_coh F t s' : coh F t -> coh F s' -> coh F (br_back t s').
Proof.
  intros H1 H2. destruct (is_toplabel t) eqn:E.
  - rewrite br_back_top by exact E. exact H1.
  - rewrite br_back_nontop by exact E. exact H2.
Qed.

Lemma compile_br_R bits uns txt env dot rel F t1 t2 :
  brnf txt t1 = brnf txt t2 -> coh F t1 -> coh F t2 ->
  R (brnf txt) coh F t1 t2 (compile_br bits uns txt env dot rel t1) (compile_br bits uns txt env dot rel t2).
Proof.
  intros Hn C1 C2. unfold compile_br.
  eapply R_bind; [apply (eval_R env dot F _ _ (br_operand_R txt t1 t2 Hn) (br_operand_coh F txt t1 C1) (br_operand_coh F txt t2 C2))|].
  intros v y1 y2 d1 d2 N1 N2 B K1 K2.
  destruct (offset_field bits uns (v - rel)) as [f e].
  apply R_ok.
  - apply br_back_nf. exact N1.
  - apply br_back_nf. exact N2.
  - nebool; allbool.
  - apply br_back_coh; [eapply coh_le; [|exact C1]; intro; nebool; allbool | coh_weaken].
  - apply br_back_coh; [eapply coh_le; [|exact C2]; intro; nebool; allbool | coh_weaken].
Qed.

Lemma compile_imm_R bits uns env dot F t1 t2 :
  strip t1 = strip t2 -> coh F t1 -> coh F t2 ->
  R strip coh F t1 t2 (compile_imm bits uns env dot t1) (compile_imm bits uns env dot t2).
Proof.
  intros Hs C1 C2.
  assert (Gen : R strip coh F t1 t2
                  (do x <- eval env dot t1; let '(v, t', d) := x in
                   let '(f, d2) := imm_field bits uns v in Ok (f, ([] : list Z), t', d ++ d2))
                  (do x <- eval env dot t2; let '(v, t', d) := x in
                   let '(f, d2) := imm_field bits uns v in Ok (f, ([] : list Z), t', d ++ d2))).
  { eapply R_bind; [apply (eval_R env dot F t1 t2 Hs C1 C2)|].
    intros v y1 y2 d1 d2 N1 N2 B K1 K2. destruct (imm_field bits uns v) as [f e].
    apply R_ok; auto; try solve [nebool; allbool]; coh_weaken. }
  destruct t1; destruct t2; simpl in Hs; try discriminate; try exact Gen.
  inversion Hs; subst. unfold compile_imm. destruct (op0 =? "#")%string; [|exact Gen].
  simpl in C1, C2. destruct C1 as [A1 D1]. destruct C2 as [A2 D2].
  eapply R_bind; [apply (eval_R env dot F t1 t2 H1 A1 A2)|].
  intros v y1 y2 d1 d2 N1 N2 B K1 K2. destruct (imm_field bits uns v) as [f e].
  apply R_ok; simpl; try congruence; try solve [nebool; allbool].
  - split; [coh_weaken|]. intros P. eapply cache_ok_le; [|apply (D1 P)]. intro; nebool; allbool.
  - split; [coh_weaken|]. intros P. eapply cache_ok_le; [|apply (D2 P)]. intro; nebool; allbool.
Qed.

Lemma compile_reg_R F t1 t2 :
  strip t1 = strip t2 -> coh F t1 -> coh F t2 ->
  R strip coh F t1 t2 (compile_reg t1) (compile_reg t2).
Proof.
  intros Hs C1 C2. unfold compile_reg.
  rewrite <- (is_percent_strip t1), <- (is_percent_strip t2), <- (regp_strip t1), <- (regp_strip t2), Hs.
  destruct (is_percent (strip t2)); [reflexivity|].
  destruct (regp (strip t2)); [|reflexivity].
  apply R_ok; auto; (eapply coh_le; [|eassumption]; intro; allbool).
Qed.

(* the stored form of one operand that later compilations depend on *)
Definition nf_slot (s : slot) (t : tree) : tree :=
  match s with SBr _ _ txt => brnf txt t | _ => strip t end.

Lemma compile_slot_R env dot rel F s t1 t2 :
  nf_slot s t1 = nf_slot s t2 -> coh F t1 -> coh F t2 ->
  R (nf_slot s) coh F t1 t2 (compile_slot env dot rel s t1) (compile_slot env dot rel s t2).
Proof.
  destruct s; simpl; intros Hn C1 C2.
  - apply compile_rm_R; assumption.
  - apply compile_reg_R; assumption.
  - apply compile_br_R; assumption.
  - apply compile_imm_R; assumption.
Qed.

(* ============================================================================================ *)
(* operand lists *)
Definition nf_ops (ops : list (slot * tree)) : list (slot * tree) :=
  map (fun p => (fst p, nf_slot (fst p) (snd p))) ops.
Fixpoint coh_ops (F : bool) (ops : list (slot * tree)) : Prop :=
  match ops with [] => True | p :: r => coh F (snd p) /\ coh_ops F r end.
Fixpoint coh_list (F : bool) (ts : list tree) : Prop :=
  match ts with [] => True | t :: r => coh F t /\ coh_list F r end.

Lemma coh_ops_le F F' ops : (F = true -> F' = true) -> coh_ops F ops -> coh_ops F' ops.
Proof. intros L. induction ops; simpl; auto. intros [A B]. split; [eapply coh_le; eauto | auto]. Qed.
Lemma coh_list_le F F' ts : (F = true -> F' = true) -> coh_list F ts -> coh_list F' ts.
Proof. intros L. induction ts; simpl; auto. intros [A B]. split; [eapply coh_le; eauto | auto]. Qed.

Lemma compile_ops_R env dot F : forall ops1 ops2 enc_len,
  nf_ops ops1 = nf_ops ops2 -> coh_ops F ops1 -> coh_ops F ops2 ->
  R nf_ops coh_ops F ops1 ops2 (compile_ops env dot enc_len ops1) (compile_ops env dot enc_len ops2).
Proof.
  induction ops1 as [|[s1 t1] r1 IH]; intros [|[s2 t2] r2] enc_len Hn C1 C2; simpl in Hn; try discriminate.
  - simpl. auto 10.
  - inversion Hn; subst s2. clear Hn. rename H1 into Ht. rename H2 into Hr.
    simpl in C1, C2. destruct C1 as [A1 B1]. destruct C2 as [A2 B2].
    cbn [compile_ops].
    eapply R_bind; [apply (compile_slot_R env dot (dot + 2 + enc_len) F s1 t1 t2 Ht A1 A2)|].
    intros [f ext] y1 y2 d1 d2 N1 N2 B K1 K2.
    eapply R_bind; [apply (IH r2 (enc_len + Zlen ext) Hr B1 B2)|].
    intros [opc exts] z1 z2 e1 e2 M1 M2 B' L1 L2.
    apply R_ok.
    + simpl. rewrite N1. fold (nf_ops z1). fold (nf_ops r1). rewrite M1. reflexivity.
    + simpl. rewrite N2. fold (nf_ops z2). fold (nf_ops r2). rewrite M2. reflexivity.
    + nebool; allbool.
    + simpl. split; [coh_weaken | eapply coh_ops_le; [|exact L1]; intro; nebool; allbool].
    + simpl. split; [coh_weaken | eapply coh_ops_le; [|exact L2]; intro; nebool; allbool].
Qed.

Lemma cook_R bits uns env dot F : forall ts1 ts2,
  map strip ts1 = map strip ts2 -> coh_list F ts1 -> coh_list F ts2 ->
  R (map strip) coh_list F ts1 ts2 (cook bits uns env dot ts1) (cook bits uns env dot ts2).
Proof.
  induction ts1 as [|t1 r1 IH]; intros [|t2 r2] Hn C1 C2; simpl in Hn; try discriminate.
  - simpl. auto 10.
  - inversion Hn. clear Hn. rename H0 into Ht. rename H1 into Hr.
    simpl in C1, C2. destruct C1 as [A1 B1]. destruct C2 as [A2 B2].
    cbn [cook]. pose proof (eval_R env dot F t1 t2 Ht A1 A2) as E.
    destruct (eval env dot t1) as [[[v1 y1] d1]|e1|s1|]; destruct (eval env dot t2) as [[[v2 y2] d2]|e2|s2|];
      simpl in E; try tauto.
    + destruct E as [Ev [N1 [N2 [B [K1 K2]]]]]. subst v2.
      destruct (GenGetAsInt.get_as_int bits uns None v1) as [w|ids|s|].
      * eapply R_bind; [apply (IH r2 Hr B1 B2)|].
        intros ws z1 z2 e1 e2 M1 M2 B' L1 L2.
        apply R_ok.
        -- simpl. rewrite N1, M1. reflexivity.
        -- simpl. rewrite N2, M2. reflexivity.
        -- nebool; allbool.
        -- simpl. split; [coh_weaken | eapply coh_list_le; [|exact L1]; intro; nebool; allbool].
        -- simpl. split; [coh_weaken | eapply coh_list_le; [|exact L2]; intro; nebool; allbool].
      * apply R_ok.
        -- simpl. rewrite N1. reflexivity.
        -- simpl. rewrite N2. reflexivity.
        -- nebool; allbool.
        -- simpl. split; [coh_weaken | eapply coh_list_le; [|exact B1]; intro; nebool; allbool].
        -- simpl. split; [coh_weaken | eapply coh_list_le; [|exact B2]; intro; nebool; allbool].
      * reflexivity.
      * exact I.
    + subst e2. apply R_ok; auto.
      * simpl. split; [eapply coh_le; [|exact A1]; intro; allbool | eapply coh_list_le; [|exact B1]; intro; allbool].
      * simpl. split; [eapply coh_le; [|exact A2]; intro; allbool | eapply coh_list_le; [|exact B2]; intro; allbool].
Qed.

(* ============================================================================================ *)
(* statements and blocks *)
Fixpoint nf_item (it : item) : item :=
  match it with
  | IWord ops => IWord (map strip ops)
  | IByte ops => IByte (map strip ops)
  | IEven => IEven
  | IInsn base ops => IInsn base (nf_ops ops)
  | IRepeat cnt body => IRepeat (strip cnt) (map nf_item body)
  | IEnd => IEnd
  end.
Definition nf_block (b : list item) : list item := map nf_item b.

Fixpoint coh_item (F : bool) (it : item) : Prop :=
  match it with
  | IWord ops => coh_list F ops
  | IByte ops => coh_list F ops
  | IInsn _ ops => coh_ops F ops
  | IRepeat cnt body => coh F cnt /\ fold_right (fun i P => coh_item F i /\ P) True body
  | _ => True
  end.
Definition coh_block (F : bool) (b : list item) : Prop := fold_right (fun i P => coh_item F i /\ P) True b.

Lemma coh_item_le F F' (L : F = true -> F' = true) : forall it, coh_item F it -> coh_item F' it.
Proof.
  fix IH 1. intros it. destruct it; simpl; auto.
  - apply coh_list_le; exact L.
  - apply coh_list_le; exact L.
  - apply coh_ops_le; exact L.
  - intros [A B]. split; [eapply coh_le; eauto|].
    induction body as [|i r IHr]; simpl in *; auto. destruct B as [B1 B2]. split; [apply IH; exact B1 | apply IHr; exact B2].
Qed.

Lemma coh_block_le F F' b : (F = true -> F' = true) -> coh_block F b -> coh_block F' b.
Proof.
  intros L. induction b as [|i r IH]; simpl; auto. intros [A B]. split; [eapply coh_item_le; eauto | auto].
Qed.

Definition rec_ok (rec : list item -> Z -> Z -> result) : Prop :=
  forall F b1 b2 a c, nf_block b1 = nf_block b2 -> coh_block F b1 -> coh_block F b2 ->
    R nf_block coh_block F b1 b2 (rec b1 a c) (rec b2 a c).

Lemma loop_R budget rec : rec_ok rec -> forall n, rec_ok (loop budget rec n).
Proof.
  intros Hrec. induction n as [|k IH]; intros F b1 b2 a c Hn C1 C2; cbn [loop].
  - apply R_ok; auto; (eapply coh_block_le; [|eassumption]; intro; allbool).
  - destruct (over budget (c + 1)).
    + apply R_ok; auto; (eapply coh_block_le; [|eassumption]; intro; allbool).
    + eapply R_bind; [apply (Hrec F b1 b2 a (c + 1) Hn C1 C2)|].
      intros [bs c2] y1 y2 d1 d2 N1 N2 B K1 K2.
      assert (K2' : coh_block (F || ne d1) y2) by (rewrite B; exact K2).
      eapply R_bind; [apply (IH (F || ne d1) y1 y2 (a + Zlen bs) c2); [congruence | exact K1 | exact K2']|].
      intros [bs2 c3] z1 z2 e1 e2 M1 M2 B' L1 L2.
      apply R_ok; try congruence.
      * nebool; allbool.
      * eapply coh_block_le; [|exact L1]. intro; nebool; allbool.
      * eapply coh_block_le; [|exact L2]. intro; nebool; allbool.
Qed.

Lemma map_strip_single (y : list tree) c : map strip y = map strip [c] -> exists c', y = [c'] /\ strip c' = strip c.
Proof.
  destruct y as [|c' [|x r]]; simpl; intros H; try discriminate. inversion H. exists c'. auto.
Qed.

Lemma compile_item_R budget rec env : rec_ok rec -> forall F it1 it2 a c,
  nf_item it1 = nf_item it2 -> coh_item F it1 -> coh_item F it2 ->
  R nf_item coh_item F it1 it2 (compile_item budget rec env a c it1) (compile_item budget rec env a c it2).
Proof.
  intros Hrec F it1 it2 a c Hn C1 C2.
  destruct it1; destruct it2; simpl in Hn; try discriminate; inversion Hn; clear Hn.
  - (* IWord *)
    simpl in C1, C2. cbn [compile_item].
    eapply R_bind; [apply (cook_R (Some 16) false env a F ops ops0 H0 C1 C2)|].
    intros ws y1 y2 d1 d2 N1 N2 B K1 K2.
    destruct ws; (apply R_ok; [simpl; congruence | simpl; congruence | nebool; allbool | | ]); simpl;
      (eapply coh_list_le; [|eassumption]; intro; nebool; allbool).
  - (* IByte *)
    simpl in C1, C2. cbn [compile_item].
    eapply R_bind; [apply (cook_R (Some 8) false env a F ops ops0 H0 C1 C2)|].
    intros ws y1 y2 d1 d2 N1 N2 B K1 K2.
    destruct ws; (apply R_ok; [simpl; congruence | simpl; congruence | nebool; allbool | | ]); simpl;
      (eapply coh_list_le; [|eassumption]; intro; nebool; allbool).
  - (* IEven *)
    cbn [compile_item]. apply R_ok; simpl; auto.
  - (* IInsn *)
    subst base0. simpl in C1, C2. cbn [compile_item].
    eapply R_bind; [apply (compile_ops_R env a F ops ops0 0 H1 C1 C2)|].
    intros [opc exts] y1 y2 d1 d2 N1 N2 B K1 K2.
    apply R_ok; simpl; try congruence.
  - (* IRepeat *)
    simpl in C1, C2. destruct C1 as [A1 B1]. destruct C2 as [A2 B2]. cbn [compile_item].
    assert (Hc : map strip [cnt] = map strip [cnt0]) by (simpl; congruence).
    eapply R_bind; [apply (cook_R None true env a F [cnt] [cnt0] Hc (conj A1 I) (conj A2 I))|].
    intros ws y1 y2 d1 d2 N1 N2 B K1 K2.
    destruct (map_strip_single _ _ N1) as [c1 [E1 S1]]. destruct (map_strip_single _ _ N2) as [c2 [E2 S2]].
    subst y1 y2. simpl in K1, K2. destruct K1 as [K1 _]. destruct K2 as [K2 _].
    assert (Hb : nf_block body = nf_block body0) by exact H1.
    assert (Fallback : R nf_item coh_item F (IRepeat cnt body) (IRepeat cnt0 body0)
                         (Ok ((([] : list Z), c), IRepeat c1 body, d1)) (Ok ((([] : list Z), c), IRepeat c2 body0, d2))).
    { apply R_ok; simpl; try congruence.
      - split; [exact K1|]. eapply (coh_block_le F); [|exact B1]. intro; allbool.
      - split; [exact K2|]. eapply (coh_block_le F); [|exact B2]. intro; allbool. }
    destruct ws as [[|n [|x r]]|]; try exact Fallback.
    assert (B2' : coh_block (F || ne d1) body0) by (eapply coh_block_le; [|exact B2]; intro; allbool).
    assert (B1' : coh_block (F || ne d1) body) by (eapply coh_block_le; [|exact B1]; intro; allbool).
    eapply R_bind; [apply (loop_R budget rec Hrec (Z.to_nat n) (F || ne d1) body body0 a c Hb B1' B2')|].
    intros bsc z1 z2 e1 e2 M1 M2 B' L1 L2.
    apply R_ok.
    + simpl. f_equal; [exact S1 | exact M1].
    + simpl. f_equal; [exact S2 | exact M2].
    + nebool; allbool.
    + simpl. split; [coh_weaken | eapply (coh_block_le _ _ z1); [|exact L1]; intro; nebool; allbool].
    + simpl. split; [coh_weaken | eapply (coh_block_le _ _ z2); [|exact L2]; intro; nebool; allbool].
  - (* IEnd *)
    cbn [compile_item]. apply R_ok; simpl; auto.
Qed.

Lemma nf_item_end it : nf_item it = IEnd -> it = IEnd.
Proof. destruct it; simpl; intros H; try discriminate. reflexivity. Qed.

Lemma block_R budget rec env : rec_ok rec -> rec_ok (block budget rec env).
Proof.
  intros Hrec F b1. revert F. induction b1 as [|i1 r1 IH]; intros F [|i2 r2] a c Hn C1 C2; simpl in Hn; try discriminate.
  - simpl. auto 10.
  - inversion Hn. clear Hn. rename H0 into Hi. rename H1 into Hr.
    simpl in C1, C2. destruct C1 as [A1 B1]. destruct C2 as [A2 B2].
    assert (Step : R nf_block coh_block F (i1 :: r1) (i2 :: r2)
              (do x <- compile_item budget rec env a c i1; let '((bs, c1), it', d) := x in
               do y <- block budget rec env r1 (a + Zlen bs) c1; let '((bs2, c2), rest', d2) := y in
               Ok ((bs ++ bs2, c2), it' :: rest', d ++ d2))
              (do x <- compile_item budget rec env a c i2; let '((bs, c1), it', d) := x in
               do y <- block budget rec env r2 (a + Zlen bs) c1; let '((bs2, c2), rest', d2) := y in
               Ok ((bs ++ bs2, c2), it' :: rest', d ++ d2))).
    { eapply R_bind; [apply (compile_item_R budget rec env Hrec F i1 i2 a c Hi A1 A2)|].
      intros [bs c1] y1 y2 d1 d2 N1 N2 B K1 K2.
      assert (B2' : coh_block (F || ne d1) r2) by (eapply coh_block_le; [|exact B2]; intro; allbool).
      assert (B1' : coh_block (F || ne d1) r1) by (eapply coh_block_le; [|exact B1]; intro; allbool).
      eapply R_bind; [apply (IH (F || ne d1) r2 (a + Zlen bs) c1 Hr B1' B2')|].
      intros [bs2 c2] z1 z2 e1 e2 M1 M2 B' L1 L2.
      apply R_ok.
      - simpl. rewrite N1. fold (nf_block z1). fold (nf_block r1). rewrite M1. reflexivity.
      - simpl. rewrite N2. fold (nf_block z2). fold (nf_block r2). rewrite M2. reflexivity.
      - nebool; allbool.
      - simpl. split; [eapply coh_item_le; [|exact K1]; intro; nebool; allbool
                      | eapply (coh_block_le _ _ z1); [|exact L1]; intro; nebool; allbool].
      - simpl. split; [eapply coh_item_le; [|exact K2]; intro; nebool; allbool
                      | eapply (coh_block_le _ _ z2); [|exact L2]; intro; nebool; allbool]. }
    destruct i1; destruct i2; simpl in Hi; try discriminate; try exact Step.
    (* IEnd / IEnd *)
    cbn [block]. apply R_ok; auto; simpl; split; auto; (eapply coh_block_le; [|eassumption]; intro; allbool).
Qed.

Lemma compile_block_R budget env : forall fuel, rec_ok (compile_block budget fuel env).
Proof.
  induction fuel as [|f IH].
  - intros F b1 b2 a c _ _ _. exact I.
  - cbn [compile_block]. apply block_R. exact IH.
Qed.

(* ============================================================================================ *)
(* '.repeat n { body }' = the body written out n times *)
Definition top_end (b : list item) : bool := existsb (fun i => match i with IEnd => true | _ => false end) b.

Lemma has_end_top b : has_end b = false -> top_end b = false.
Proof.
  unfold has_end, top_end. induction b as [|i r IH]; simpl; [reflexivity|].
  intros H. apply orb_false_iff in H. destruct H as [H1 H2]. rewrite (IH H2).
  destruct i; simpl in *; try reflexivity. discriminate.
Qed.

Lemma block_app budget rec env b1 b2 : top_end b1 = false -> forall a c,
  block budget rec env (b1 ++ b2) a c =
  (do x <- block budget rec env b1 a c; let '((bs, c1), b1', d) := x in
   do y <- block budget rec env b2 (a + Zlen bs) c1; let '((bs2, c2), b2', d2) := y in
   Ok ((bs ++ bs2, c2), b1' ++ b2', d ++ d2)).
Proof.
  induction b1 as [|i r IH]; intros Ht a c.
  - simpl. replace (a + Zlen []) with a by (unfold Zlen; simpl; lia).
    destruct (block budget rec env b2 a c) as [[[[bs c2] b'] d]| | |]; reflexivity.
  - simpl in Ht. apply orb_false_iff in Ht. destruct Ht as [Hi Hr].
    assert (Step : block budget rec env ((i :: r) ++ b2) a c =
                   (do x <- compile_item budget rec env a c i; let '((bs, c1), it', d) := x in
                    do y <- block budget rec env (r ++ b2) (a + Zlen bs) c1; let '((bs2, c2), rest', d2) := y in
                    Ok ((bs ++ bs2, c2), it' :: rest', d ++ d2))).
    { destruct i; try reflexivity. discriminate. }
    assert (Step1 : block budget rec env (i :: r) a c =
                   (do x <- compile_item budget rec env a c i; let '((bs, c1), it', d) := x in
                    do y <- block budget rec env r (a + Zlen bs) c1; let '((bs2, c2), rest', d2) := y in
                    Ok ((bs ++ bs2, c2), it' :: rest', d ++ d2))).
    { destruct i; try reflexivity. discriminate. }
    rewrite Step, Step1.
    destruct (compile_item budget rec env a c i) as [[[[bs c1] it'] d]| | |]; cbn [bind]; try reflexivity.
    rewrite (IH Hr).
    destruct (block budget rec env r (a + Zlen bs) c1) as [[[[bs1 c2] r'] d1]| | |]; cbn [bind]; try reflexivity.
    replace (a + Zlen (bs ++ bs1)) with (a + Zlen bs + Zlen bs1)
      by (unfold Zlen; rewrite app_length, Nat2Z.inj_add; lia).
    destruct (block budget rec env b2 (a + Zlen bs + Zlen bs1) c2) as [[[[bs2 c3] b2'] d2]| | |]; cbn [bind]; try reflexivity.
    rewrite !app_assoc. reflexivity.
Qed.

(* same bytes, and an error has been reported in one run iff in the other (the repetition counts
   differ: the repeat counts its own iterations, the written-out text has none to count) *)
Definition Rout (F : bool) (r1 r2 : result) : Prop :=
  match r1, r2 with
  | Ok ((bs1, _), _, d1), Ok ((bs2, _), _, d2) => bs1 = bs2 /\ (F || ne d1 = F || ne d2)
  | Err _, Err _ => True
  | Crash s1, Crash s2 => s1 = s2
  | OutOfFuel, OutOfFuel => True
  | _, _ => False
  end.

(* without a budget the counter does not influence anything *)
Definition counter_free (rec : list item -> Z -> Z -> result) : Prop :=
  forall b a c c', match rec b a c, rec b a c' with
                   | Ok ((bs1, _), y1, d1), Ok ((bs2, _), y2, d2) => bs1 = bs2 /\ y1 = y2 /\ d1 = d2
                   | Err e1, Err e2 => e1 = e2
                   | Crash s1, Crash s2 => s1 = s2
                   | OutOfFuel, OutOfFuel => True
                   | _, _ => False
                   end.

Lemma loop_counter_free rec : counter_free rec -> forall n, counter_free (loop None rec n).
Proof.
  intros H. induction n as [|k IH]; intros b a c c'; cbn [loop over].
  - auto.
  - specialize (H b a (c + 1) (c' + 1)).
    destruct (rec b a (c + 1)) as [[[[bs c2] y] d]| | |]; destruct (rec b a (c' + 1)) as [[[[bs' c2'] y'] d']| | |];
      try contradiction; cbn [bind]; auto.
    destruct H as [E1 [E2 E3]]. subst.
    specialize (IH y' (a + Zlen bs') c2 c2').
    destruct (loop None rec k y' (a + Zlen bs') c2) as [[[[bs2 c3] z] e]| | |];
      destruct (loop None rec k y' (a + Zlen bs') c2') as [[[[bs2' c3'] z'] e']| | |]; try contradiction; cbn [bind]; auto.
    destruct IH as [E1 [E2 E3]]. subst. auto.
Qed.

Lemma item_counter_free rec env : counter_free rec -> forall it a c c',
  match compile_item None rec env a c it, compile_item None rec env a c' it with
  | Ok ((bs1, _), y1, d1), Ok ((bs2, _), y2, d2) => bs1 = bs2 /\ y1 = y2 /\ d1 = d2
  | Err e1, Err e2 => e1 = e2
  | Crash s1, Crash s2 => s1 = s2
  | OutOfFuel, OutOfFuel => True
  | _, _ => False
  end.
Proof.
  intros H it a c c'. destruct it; cbn [compile_item].
  - destruct (cook (Some 16) false env a ops) as [[[ws ops'] d]| | |]; cbn [bind]; auto. destruct ws; auto.
  - destruct (cook (Some 8) false env a ops) as [[[ws ops'] d]| | |]; cbn [bind]; auto. destruct ws; auto.
  - auto.
  - destruct (compile_ops env a 0 ops) as [[[[opc exts] ops'] d]| | |]; cbn [bind]; auto.
  - destruct (cook None true env a [cnt]) as [[[ws cnt'] d]| | |]; cbn [bind]; auto.
    destruct ws as [[|n [|x r]]|]; auto.
    pose proof (loop_counter_free rec H (Z.to_nat n) body a c c') as L.
    destruct (loop None rec (Z.to_nat n) body a c) as [[[[bs c2] y] e]| | |];
      destruct (loop None rec (Z.to_nat n) body a c') as [[[[bs' c2'] y'] e']| | |]; try contradiction; cbn [bind]; auto.
    destruct L as [E1 [E2 E3]]. subst. auto.
  - auto.
Qed.

Lemma block_counter_free rec env : counter_free rec -> counter_free (block None rec env).
Proof.
  intros H b. induction b as [|i r IH]; intros a c c'; [simpl; auto|].
  assert (Step : forall k, block None rec env (i :: r) a k =
                   match i with IEnd => Ok (([], k), i :: r, []) | _ =>
                   (do x <- compile_item None rec env a k i; let '((bs, c1), it', d) := x in
                    do y <- block None rec env r (a + Zlen bs) c1; let '((bs2, c2), rest', d2) := y in
                    Ok ((bs ++ bs2, c2), it' :: rest', d ++ d2)) end).
  { intros k. destruct i; reflexivity. }
  rewrite !Step. destruct i; auto;
  match goal with |- context [compile_item None rec env a c ?it] =>
    pose proof (item_counter_free rec env H it a c c') as I;
    destruct (compile_item None rec env a c it) as [[[[bs c1] y] d]| | |];
      destruct (compile_item None rec env a c' it) as [[[[bs' c1'] y'] d']| | |]; try contradiction; cbn [bind]; auto;
    destruct I as [E1 [E2 E3]]; subst;
    specialize (IH (a + Zlen bs') c1 c1');
    destruct (block None rec env r (a + Zlen bs') c1) as [[[[bs2 c2] z] e]| | |];
      destruct (block None rec env r (a + Zlen bs') c1') as [[[[bs2' c2'] z'] e']| | |]; try contradiction; cbn [bind]; auto;
    destruct IH as [E1 [E2 E3]]; subst; auto
  end.
Qed.

Lemma compile_block_counter_free env : forall fuel, counter_free (compile_block None fuel env).
Proof.
  induction fuel as [|f IH]; [intros b a c c'; exact I|].
  cbn [compile_block]. apply block_counter_free. exact IH.
Qed.

Lemma repeat_unroll_gen rec env body : rec_ok rec -> counter_free rec -> top_end body = false ->
  forall n F b a c c', nf_block b = nf_block body -> coh_block F b -> coh_block F body ->
    Rout F (loop None (block None rec env) n b a c) (block None rec env (written_out n body) a c').
Proof.
  intros Hrec Hcf Ht. induction n as [|k IH]; intros F b a c c' Hn C1 C2.
  - simpl. auto.
  - unfold written_out. cbn [repeat List.concat]. fold (written_out k body).
    rewrite (block_app None rec env body (written_out k body) Ht). cbn [loop over].
    pose proof (block_R None rec env Hrec F b body a (c + 1) Hn C1 C2) as E.
    pose proof (block_counter_free rec env Hcf body a (c + 1) c') as CF.
    destruct (block None rec env b a (c + 1)) as [[[[bs1 k1] y1] d1]|e1|s1|];
      destruct (block None rec env body a (c + 1)) as [[[[bs2 k2] y2] d2]|e2|s2|]; simpl in E; try tauto;
      destruct (block None rec env body a c') as [[[[bs3 k3] y3] d3]|e3|s3|]; try contradiction; cbn [bind]; simpl; auto; try congruence.
    destruct E as [Eb [N1 [N2 [B [K1 K2]]]]]. inversion Eb; subst bs2 k2. clear Eb.
    destruct CF as [E1 [E2 E3]]. subst bs3 y3 d3.
    assert (C2' : coh_block (F || ne d1) body) by (eapply coh_block_le; [|exact C2]; intro; allbool).
    assert (Hn' : nf_block y1 = nf_block body) by congruence.
    specialize (IH (F || ne d1) y1 (a + Zlen bs1) k1 k3 Hn' K1 C2').
    destruct (loop None (block None rec env) k y1 (a + Zlen bs1) k1) as [[[[bs4 k4] z1] e1]|e1|s1|];
      destruct (block None rec env (written_out k body) (a + Zlen bs1) k3) as [[[[bs5 k5] z2] e2]|e2|s2|];
      simpl in IH; try tauto; cbn [bind]; simpl; auto.
    destruct IH as [Eb' B']. subst bs5. split; [reflexivity|]. nebool; allbool.
Qed.

Lemma coh_list_strip F ops : coh_list F (map strip ops).
Proof. induction ops; simpl; auto. split; [apply coh_strip | exact IHops]. Qed.

Lemma coh_ops_nf F ops : coh_ops F (nf_ops ops).
Proof.
  induction ops as [|[s t] r IH]; simpl; auto. split; [|exact IH].
  destruct s; simpl; apply coh_strip.
Qed.

Lemma coh_item_nf F : forall it, coh_item F (nf_item it).
Proof.
  fix IH 1. intros it. destruct it; simpl; auto.
  - apply coh_list_strip.
  - apply coh_list_strip.
  - apply coh_ops_nf.
  - split; [apply coh_strip|]. induction body as [|i r IHr]; simpl; auto.
Qed.

Lemma coh_block_nf F b : coh_block F (nf_block b).
Proof. induction b as [|i r IH]; simpl; auto. split; [apply coh_item_nf | exact IH]. Qed.

(* a body as the parser makes it (nothing written on it yet) is coherent in every state *)
Lemma coh_block_fresh F b : nf_block b = b -> coh_block F b.
Proof. intros H. rewrite <- H. apply coh_block_nf. Qed.

Lemma repeat_unroll_free f env n body a c c' :
  has_end body = false -> coh_block false body ->
  outcome_of (repeat_model None (S f) env n body a c) = outcome_of (unrolled None (S f) env n body a c').
Proof.
  intros He Hc. unfold repeat_model, unrolled. cbn [compile_block].
  pose proof (repeat_unroll_gen (compile_block None f env) env body (compile_block_R None env f)
                (compile_block_counter_free env f) (has_end_top body He)
                n false body a c c' eq_refl Hc Hc) as H.
  destruct (loop None (block None (compile_block None f env) env) n body a c) as [[[[bs1 k1] z1] d1]|e1|s1|];
    destruct (block None (compile_block None f env) env (written_out n body) a c') as [[[[bs2 k2] z2] d2]|e2|s2|];
    simpl in H; try tauto; simpl; try congruence.
  destruct H as [E B]. subst. destruct d1, d2; simpl in *; congruence.
Qed.

(* ---- the budget: a run that ends within it is the run without a budget ---------------------- *)
Definition agrees (m : Z) (recS recN : list item -> Z -> Z -> result) : Prop :=
  forall b a c bs k y d, recS b a c = Ok ((bs, k), y, d) -> k <= m -> c <= k /\ recN b a c = Ok ((bs, k), y, d).

Lemma loop_agrees m recS recN : agrees m recS recN -> forall n, agrees m (loop (Some m) recS n) (loop None recN n).
Proof.
  intros H. induction n as [|j IH]; intros b a c bs k y d E Hk; cbn [loop over] in *.
  - inversion E; subst. split; [lia | reflexivity].
  - destruct (Z.ltb m (c + 1)) eqn:O.
    + inversion E; subst. apply Z.ltb_lt in O. lia.
    + destruct (recS b a (c + 1)) as [[[[bs1 c2] y1] d1]| | |] eqn:E1; cbn [bind] in E; try discriminate.
      destruct (loop (Some m) recS j y1 (a + Zlen bs1) c2) as [[[[bs2 c3] y2] d2]| | |] eqn:E2; cbn [bind] in E; try discriminate.
      inversion E; subst. clear E.
      destruct (IH _ _ _ _ _ _ _ E2 Hk) as [L2 N2].
      destruct (H _ _ _ _ _ _ _ E1 ltac:(lia)) as [L1 N1].
      split; [lia|]. rewrite N1. cbn [bind]. rewrite N2. reflexivity.
Qed.

Lemma item_agrees m recS recN env : agrees m recS recN -> forall it a c bs k y d,
  compile_item (Some m) recS env a c it = Ok ((bs, k), y, d) -> k <= m ->
  c <= k /\ compile_item None recN env a c it = Ok ((bs, k), y, d).
Proof.
  intros H it a c bs k y d E Hk. destruct it; cbn [compile_item] in *.
  - destruct (cook (Some 16) false env a ops) as [[[ws ops'] d1]| | |]; cbn [bind] in *; try discriminate.
    destruct ws; inversion E; subst; split; try lia; reflexivity.
  - destruct (cook (Some 8) false env a ops) as [[[ws ops'] d1]| | |]; cbn [bind] in *; try discriminate.
    destruct ws; inversion E; subst; split; try lia; reflexivity.
  - inversion E; subst. split; [lia | reflexivity].
  - destruct (compile_ops env a 0 ops) as [[[[opc exts] ops'] d1]| | |]; cbn [bind] in *; try discriminate.
    inversion E; subst. split; [lia | reflexivity].
  - destruct (cook None true env a [cnt]) as [[[ws cnt'] d1]| | |]; cbn [bind] in *; try discriminate.
    destruct ws as [[|n [|x r]]|]; try (inversion E; subst; split; [lia | reflexivity]).
    destruct (loop (Some m) recS (Z.to_nat n) body a c) as [[[bs1 k1] y1] d2| | |] eqn:E1; cbn [bind] in E; try discriminate.
    inversion E; subst. clear E.
    destruct (loop_agrees m recS recN H (Z.to_nat n) _ _ _ _ _ _ _ E1 Hk) as [L N].
    split; [exact L|]. rewrite N. reflexivity.
  - inversion E; subst. split; [lia | reflexivity].
Qed.

Lemma block_agrees m recS recN env : agrees m recS recN -> agrees m (block (Some m) recS env) (block None recN env).
Proof.
  intros H b. induction b as [|i r IH]; intros a c bs k y d E Hk.
  - simpl in *. inversion E; subst. split; [lia | reflexivity].
  - assert (StepS : block (Some m) recS env (i :: r) a c =
                   match i with IEnd => Ok (([], c), i :: r, []) | _ =>
                   (do x <- compile_item (Some m) recS env a c i; let '((bs, c1), it', d) := x in
                    do y <- block (Some m) recS env r (a + Zlen bs) c1; let '((bs2, c2), rest', d2) := y in
                    Ok ((bs ++ bs2, c2), it' :: rest', d ++ d2)) end) by (destruct i; reflexivity).
    assert (StepN : block None recN env (i :: r) a c =
                   match i with IEnd => Ok (([], c), i :: r, []) | _ =>
                   (do x <- compile_item None recN env a c i; let '((bs, c1), it', d) := x in
                    do y <- block None recN env r (a + Zlen bs) c1; let '((bs2, c2), rest', d2) := y in
                    Ok ((bs ++ bs2, c2), it' :: rest', d ++ d2)) end) by (destruct i; reflexivity).
    rewrite StepS in E. rewrite StepN.
    assert (Gen : forall it,
              (do x <- compile_item (Some m) recS env a c it; let '((bs, c1), it', d) := x in
               do y <- block (Some m) recS env r (a + Zlen bs) c1; let '((bs2, c2), rest', d2) := y in
               Ok ((bs ++ bs2, c2), it' :: rest', d ++ d2)) = Ok ((bs, k), y, d) ->
              c <= k /\
              (do x <- compile_item None recN env a c it; let '((bs, c1), it', d) := x in
               do y <- block None recN env r (a + Zlen bs) c1; let '((bs2, c2), rest', d2) := y in
               Ok ((bs ++ bs2, c2), it' :: rest', d ++ d2)) = Ok ((bs, k), y, d)).
    { intros it E0.
      destruct (compile_item (Some m) recS env a c it) as [[[[bs1 c1] it'] d1]| | |] eqn:E1; cbn [bind] in E0; try discriminate.
      destruct (block (Some m) recS env r (a + Zlen bs1) c1) as [[[[bs2 c2] r'] d2]| | |] eqn:E2; cbn [bind] in E0; try discriminate.
      inversion E0; subst. clear E0.
      destruct (IH _ _ _ _ _ _ E2 Hk) as [L2 N2].
      destruct (item_agrees m recS recN env H _ _ _ _ _ _ _ E1 ltac:(lia)) as [L1 N1].
      split; [lia|]. rewrite N1. cbn [bind]. rewrite N2. reflexivity. }
    destruct i; try (apply Gen; exact E).
    inversion E; subst. split; [lia | reflexivity].
Qed.

Lemma compile_block_agrees m env : forall fuel, agrees m (compile_block (Some m) fuel env) (compile_block None fuel env).
Proof.
  induction fuel as [|f IH]; [intros b a c bs k y d E; discriminate|].
  cbn [compile_block]. apply block_agrees. exact IH.
Qed.

(* repeat_unroll with the code's budget: when both the repeat and the written-out text are compiled
   with the total number of repetitions within the budget, they give the same outcome.  (Beyond it the
   repeat is refused with 'value-out-of-bounds' while the written-out text, which has fewer repetitions
   to count, may not be.) *)
Lemma repeat_unroll m f env n body a c :
  has_end body = false -> coh_block false body ->
  within m (repeat_model (Some m) (S f) env n body a c) ->
  within m (unrolled (Some m) (S f) env n body a c) ->
  outcome_of (repeat_model (Some m) (S f) env n body a c) = outcome_of (unrolled (Some m) (S f) env n body a c).
Proof.
  intros He Hc [bs1 [k1 [y1 [d1 [E1 L1]]]]] [bs2 [k2 [y2 [d2 [E2 L2]]]]].
  pose proof (repeat_unroll_free f env n body a c c He Hc) as Free.
  unfold repeat_model in E1.
  destruct (loop_agrees m _ _ (compile_block_agrees m env (S f)) n _ _ _ _ _ _ _ E1 L1) as [_ N1].
  unfold unrolled in E2.
  destruct (compile_block_agrees m env (S f) _ _ _ _ _ _ _ E2 L2) as [_ N2].
  unfold repeat_model, unrolled in *. rewrite E1, E2. rewrite N1, N2 in Free. exact Free.
Qed.

(* ============================================================================================ *)
(* corollaries in the form used by Props/C16.v *)

(* same value, and the assembly has failed after one run iff after the other *)
Definition same_result {V X : Type} (F : bool) (r1 r2 : res (V * X * list string)) : Prop :=
  match r1, r2 with
  | Ok (v1, _, d1), Ok (v2, _, d2) => v1 = v2 /\ (F || ne d1 = F || ne d2)
  | Err e1, Err e2 => e1 = e2
  | Crash s1, Crash s2 => s1 = s2
  | OutOfFuel, OutOfFuel => True
  | _, _ => False
  end.

Lemma R_same {V X : Type} (nf : X -> X) (cohx : bool -> X -> Prop) F x1 x2 (r1 r2 : res (V * X * list string)) :
  R nf cohx F x1 x2 r1 r2 -> same_result F r1 r2.
Proof.
  destruct r1 as [[[v1 y1] d1]| | |]; destruct r2 as [[[v2 y2] d2]| | |]; simpl; try tauto.
Qed.

Lemma flags_only_affect_diagnostics env dot F t1 t2 :
  strip t1 = strip t2 -> coh F t1 -> coh F t2 ->
  same_result F (eval env dot t1) (eval env dot t2).
Proof. intros. eapply R_same. apply eval_R; assumption. Qed.

Lemma body_annotations_irrelevant budget fuel env F b1 b2 a c :
  nf_block b1 = nf_block b2 -> coh_block F b1 -> coh_block F b2 ->
  same_result F (compile_block budget fuel env b1 a c) (compile_block budget fuel env b2 a c).
Proof. intros. eapply R_same. apply compile_block_R; assumption. Qed.

(* a hit returns what a recomputation (empty cache) returns *)
Lemma cache_hit_is_recomputation F inv c args :
  cache_ok F inv c -> same_result F (use_cache false c args inv) (use_cache false None args inv).
Proof.
  intros H. eapply R_same. apply (use_cache_R false inv F c None args); unfold ccoh; intros _; [exact H | exact I].
Qed.

Lemma fixup_same_encoding bits uns txt env dot rel F t :
  coh F t ->
  same_result F (compile_br bits uns txt env dot rel (fix_inplace txt t)) (compile_br bits uns txt env dot rel t).
Proof.
  intros H. eapply R_same. apply compile_br_R.
  - unfold brnf. rewrite fix_inplace_idem. reflexivity.
  - apply fix_inplace_coh. exact H.
  - exact H.
Qed.

(* the hoisted operand is compiled as index mode on the re-associated offset *)
Lemma hoist_index_mode ctx b rn r c0 :
  ctx <> [] -> reg_of_name rn = Some r ->
  (forall op c rest, ctx = FPrefix op c :: rest -> String.eqb op "@" = false) ->
  classify (plug ctx (Call b (Sym rn false) c0)) = (48 + r, EGai, [], Some (plug ctx b)).
Proof.
  intros Hne Hr Hat.
  assert (Hreg : is_regish (Sym rn false) = true) by (unfold is_regish; simpl; rewrite Hr; reflexivity).
  pose proof (hoist_classification ctx b (Sym rn false) c0 Hreg Hne) as Hh.
  destruct ctx as [|[op l c|op c] rest]; [congruence| |]; cbn [plug] in *.
  - unfold classify. rewrite Hh. cbn [regp]. rewrite Hr. reflexivity.
  - unfold classify. rewrite Hh. cbn [regp]. rewrite Hr. rewrite (Hat op c rest eq_refl). reflexivity.
Qed.

(* ============================================================================================ *)
(* sufficient fuel: with fuel above the nesting depth no level of the model runs out of fuel,
   so the outcomes compared by repeat_unroll are real outcomes *)
Lemma bind_nf {A B} (r : res A) (k : A -> res B) :
  r <> OutOfFuel -> (forall x, k x <> OutOfFuel) -> bind r k <> OutOfFuel.
Proof. intros H K. destruct r; simpl; auto; discriminate. Qed.

Ltac op_nf :=
  repeat progress unfold GenOperators.body_postadd, GenOperators.body_postsub, GenOperators.body_pos, GenOperators.body_neg,
    GenOperators.body_inv, GenOperators.body_inv2, GenOperators.body_mul, GenOperators.body_div, GenOperators.body_mod,
    GenOperators.body_add, GenOperators.body_sub, GenOperators.body_lshift, GenOperators.body_rshift, GenOperators.body_lsh,
    GenOperators.body_and_, GenOperators.body_xor, GenOperators.body_or_, GenOperators.body_or2,
    GenOperators.body_immediate, GenOperators.body_deferred, GenOperators.body_register, GenOperators.body_call,
    GenOperators.catch_zde, GenOperators.py_floordiv, GenOperators.py_mod, GenOperators.py_lshift, GenOperators.py_rshift,
    GenOperators.py_pow, GenOperators.py_assert, GenOperators.fn_times_power_of_two, GenOperators.reported_then, bind;
  repeat match goal with |- context [if ?c then _ else _] => destruct c end;
  simpl; discriminate.

Lemma invoke_infix_nf op args : invoke_infix op args <> OutOfFuel.
Proof.
  unfold invoke_infix, GenOperators.infix_body.
  repeat match goal with |- context [if String.eqb ?a ?b then _ else _] => destruct (String.eqb a b) end;
    destruct args as [|a [|b [|c r]]]; try discriminate; op_nf.
Qed.
Lemma invoke_prefix_nf op args : invoke_prefix op args <> OutOfFuel.
Proof.
  unfold invoke_prefix, GenOperators.prefix_body.
  repeat match goal with |- context [if String.eqb ?a ?b then _ else _] => destruct (String.eqb a b) end;
    destruct args as [|a [|b r]]; try discriminate; op_nf.
Qed.
Lemma invoke_postfix_nf op args : invoke_postfix op args <> OutOfFuel.
Proof.
  unfold invoke_postfix, GenOperators.postfix_body.
  repeat match goal with |- context [if String.eqb ?a ?b then _ else _] => destruct (String.eqb a b) end;
    destruct args as [|a [|b r]]; try discriminate; op_nf.
Qed.

Lemma use_cache_nf pure c args inv : (forall a, inv a <> OutOfFuel) -> use_cache pure c args inv <> OutOfFuel.
Proof.
  intros H. unfold use_cache. specialize (H args).
  destruct pure; [destruct (inv args); simpl; congruence|].
  destruct c as [[a0 v0]|]; [destruct (zl_eqb a0 args); [discriminate|]|]; destruct (inv args); simpl; congruence.
Qed.

Lemma eval_nf env dot t : eval env dot t <> OutOfFuel.
Proof.
  induction t; cbn [eval].
  - destruct (bad8 && negb reported); discriminate.
  - destruct evaluated; discriminate.
  - destruct (if nec_label then None else reg_of_name name); [discriminate|]. destruct (env name); discriminate.
  - discriminate.
  - apply bind_nf; [exact IHt|]. intros [[? ?] ?]. discriminate.
  - apply bind_nf; [exact IHt1|]. intros [[? ?] ?]. apply bind_nf; [exact IHt2|]. intros [[? ?] ?].
    apply bind_nf; [apply use_cache_nf; apply invoke_infix_nf|]. intros [[? ?] ?]. discriminate.
  - apply bind_nf; [exact IHt|]. intros [[? ?] ?].
    apply bind_nf; [apply use_cache_nf; apply invoke_prefix_nf|]. intros [[? ?] ?]. discriminate.
  - apply bind_nf; [exact IHt|]. intros [[? ?] ?].
    apply bind_nf; [apply use_cache_nf; apply invoke_postfix_nf|]. intros [[? ?] ?]. discriminate.
  - apply bind_nf; [exact IHt1|]. intros [[? ?] ?]. apply bind_nf; [exact IHt2|]. intros [[? ?] ?].
    apply bind_nf; [apply use_cache_nf; apply invoke_infix_nf|]. intros [[? ?] ?]. discriminate.
Qed.

Lemma get_as_int_nf bits uns v : GenGetAsInt.get_as_int bits uns None v <> OutOfFuel.
Proof. unfold GenGetAsInt.get_as_int. destruct (GenGetAsInt.get_as_int_raw bits uns None v); discriminate. Qed.

Lemma gai_nf bits uns env dot t : gai bits uns env dot t <> OutOfFuel.
Proof.
  unfold gai. apply bind_nf; [apply eval_nf|]. intros [[? ?] ?].
  apply bind_nf; [apply get_as_int_nf|]. intros; discriminate.
Qed.

Lemma compile_slot_nf env dot rel s t : compile_slot env dot rel s t <> OutOfFuel.
Proof.
  destruct s; simpl.
  - unfold compile_rm. destruct (has_percent t); [discriminate|].
    destruct (classify t) as [[[m k] p] h]. destruct k; try discriminate.
    + apply bind_nf; [apply gai_nf|]. intros [[? ?] ?]. discriminate.
    + apply bind_nf; [apply eval_nf|]. intros [[? ?] ?]. discriminate.
  - unfold compile_reg. destruct (is_percent t); [discriminate|]. destruct (regp t); discriminate.
  - unfold compile_br. apply bind_nf; [apply eval_nf|]. intros [[? ?] ?].
    destruct (offset_field bits uns (z - rel)). discriminate.
  - assert (G : forall x, (do y <- eval env dot x; let '(v, t', d) := y in
                           let '(f, d2) := imm_field bits uns v in Ok (f, ([] : list Z), t', d ++ d2)) <> OutOfFuel).
    { intros x. apply bind_nf; [apply eval_nf|]. intros [[? ?] ?]. destruct (imm_field bits uns z). discriminate. }
    unfold compile_imm. destruct t; try apply G.
    destruct (op =? "#")%string; [|apply G].
    apply bind_nf; [apply eval_nf|]. intros [[? ?] ?]. destruct (imm_field bits uns z). discriminate.
Qed.

Lemma compile_ops_nf env dot : forall ops n, compile_ops env dot n ops <> OutOfFuel.
Proof.
  induction ops as [|[s t] r IH]; intros n; cbn [compile_ops]; [discriminate|].
  apply bind_nf; [apply compile_slot_nf|]. intros [[[? ?] ?] ?].
  apply bind_nf; [apply IH|]. intros [[[? ?] ?] ?]. discriminate.
Qed.

Lemma cook_nf bits uns env dot : forall ts, cook bits uns env dot ts <> OutOfFuel.
Proof.
  induction ts as [|t r IH]; cbn [cook]; [discriminate|].
  pose proof (eval_nf env dot t) as E. destruct (eval env dot t) as [[[v t'] d]| | |]; try discriminate; [|congruence].
  pose proof (get_as_int_nf bits uns v) as G. destruct (GenGetAsInt.get_as_int bits uns None v); try discriminate; [|congruence].
  apply bind_nf; [exact IH|]. intros [[? ?] ?]. discriminate.
Qed.

(* rec never runs out of fuel on bodies of depth < d and returns bodies of the same depth *)
Definition fuel_ok (rec : list item -> Z -> Z -> result) (d : nat) : Prop :=
  forall b a c, (depth b < d)%nat ->
    match rec b a c with OutOfFuel => False | Ok (_, b', _) => depth b' = depth b | _ => True end.

Lemma loop_fuel budget rec d : fuel_ok rec d -> forall n, fuel_ok (loop budget rec n) d.
Proof.
  intros H. induction n as [|k IH]; intros b a c Hd; cbn [loop]; [reflexivity|].
  destruct (over budget (c + 1)); [reflexivity|].
  specialize (H b a (c + 1) Hd). destruct (rec b a (c + 1)) as [[[[bs c2] b'] d1]| | |]; cbn [bind]; auto.
  assert (Hd' : (depth b' < d)%nat) by (rewrite H; exact Hd).
  specialize (IH b' (a + Zlen bs) c2 Hd'). destruct (loop budget rec k b' (a + Zlen bs) c2) as [[[[bs2 c3] b''] d2]| | |]; cbn [bind]; auto.
  congruence.
Qed.

Lemma depth_cons i r : depth (i :: r) = Nat.max (depth_item i) (depth r).
Proof. reflexivity. Qed.

Lemma item_fuel budget rec env d : fuel_ok rec d -> forall it a c, (depth_item it <= d)%nat ->
  match compile_item budget rec env a c it with OutOfFuel => False | Ok (_, it', _) => depth_item it' = depth_item it | _ => True end.
Proof.
  intros H it a c Hd. destruct it; cbn [compile_item].
  - pose proof (cook_nf (Some 16) false env a ops) as C. destruct (cook (Some 16) false env a ops) as [[[ws ops'] d1]| | |]; cbn [bind]; auto.
    destruct ws; reflexivity.
  - pose proof (cook_nf (Some 8) false env a ops) as C. destruct (cook (Some 8) false env a ops) as [[[ws ops'] d1]| | |]; cbn [bind]; auto.
    destruct ws; reflexivity.
  - reflexivity.
  - pose proof (compile_ops_nf env a ops 0) as C. destruct (compile_ops env a 0 ops) as [[[[opc exts] ops'] d1]| | |]; cbn [bind]; auto.
  - pose proof (cook_nf None true env a [cnt]) as C. destruct (cook None true env a [cnt]) as [[[ws cnt'] d1]| | |]; cbn [bind]; auto.
    assert (Hb : (depth body < d)%nat) by (simpl in Hd; fold (depth body) in Hd; exact Hd).
    destruct ws as [[|n [|x r]]|]; try reflexivity.
    pose proof (loop_fuel budget rec d H (Z.to_nat n) body a c Hb) as L.
    destruct (loop budget rec (Z.to_nat n) body a c) as [[[bsc body'] d2]| | |]; cbn [bind]; auto.
    simpl. fold (depth body'). fold (depth body). congruence.
  - reflexivity.
Qed.

Lemma block_fuel budget rec env d : fuel_ok rec d -> fuel_ok (block budget rec env) (S d).
Proof.
  intros H b. induction b as [|i r IH]; intros a c Hd; [reflexivity|].
  rewrite depth_cons in Hd.
  assert (Hi : (depth_item i <= d)%nat) by (apply Nat.lt_succ_r; eapply Nat.le_lt_trans; [apply Nat.le_max_l | exact Hd]).
  assert (Hr : (depth r < S d)%nat) by (eapply Nat.le_lt_trans; [apply Nat.le_max_r | exact Hd]).
  assert (Step : match (do x <- compile_item budget rec env a c i; let '((bs, c1), it', d0) := x in
                        do y <- block budget rec env r (a + Zlen bs) c1; let '((bs2, c2), rest', d2) := y in
                        Ok ((bs ++ bs2, c2), it' :: rest', d0 ++ d2))
                 with OutOfFuel => False | Ok (_, b', _) => depth b' = depth (i :: r) | _ => True end).
  { pose proof (item_fuel budget rec env d H i a c Hi) as I. destruct (compile_item budget rec env a c i) as [[[[bs c1] it'] d0]| | |]; cbn [bind]; auto.
    specialize (IH (a + Zlen bs) c1 Hr). destruct (block budget rec env r (a + Zlen bs) c1) as [[[[bs2 c2] r'] d2]| | |]; cbn [bind]; auto.
    rewrite !depth_cons. congruence. }
  destruct i; try exact Step. reflexivity.
Qed.

Lemma compile_block_fuel budget env : forall f, fuel_ok (compile_block budget f env) f.
Proof.
  induction f as [|f IH].
  - intros b a c Hd. inversion Hd.
  - cbn [compile_block]. apply block_fuel. exact IH.
Qed.

(* fuel_sufficient: with fuel S f and a body nested at most f deep, neither side of repeat_unroll
   is the out-of-fuel outcome *)
Lemma outcome_fuel r : outcome_of r = OFuel -> r = OutOfFuel.
Proof. destruct r as [[[[bs c] b] [|x d]]| | |]; simpl; intros H; try discriminate; reflexivity. Qed.

Lemma depth_app x : forall y, depth (x ++ y) = Nat.max (depth x) (depth y).
Proof.
  induction x as [|i r IHx]; intros y; [reflexivity|].
  cbn [app]. rewrite !depth_cons, IHx. apply Nat.max_assoc.
Qed.

Lemma depth_written_out n body : (depth (written_out n body) <= depth body)%nat.
Proof.
  unfold written_out. induction n as [|k IH]; cbn [repeat List.concat]; [apply Nat.le_0_l|].
  rewrite depth_app. apply Nat.max_lub; [apply Nat.le_refl | exact IH].
Qed.

Lemma fuel_sufficient budget f env n body a c : (depth body <= f)%nat ->
  outcome_of (repeat_model budget (S f) env n body a c) <> OFuel /\ outcome_of (unrolled budget (S f) env n body a c) <> OFuel.
Proof.
  intros Hd. split; intros H; apply outcome_fuel in H.
  - pose proof (loop_fuel budget _ (S f) (compile_block_fuel budget env (S f)) n body a c (proj2 (Nat.lt_succ_r _ _) Hd)) as L.
    unfold repeat_model in H. rewrite H in L. exact L.
  - pose proof (compile_block_fuel budget env (S f) (written_out n body) a c) as L.
    unfold unrolled in H. rewrite H in L. apply L.
    apply Nat.lt_succ_r. eapply Nat.le_trans; [apply depth_written_out | exact Hd].
Qed.

(* metacommands.repeat returns b"".join(chunks) or the left fold 'result += chunk': the same bytes *)
Lemma fold_app_from (chunks : list (list Z)) : forall acc, fold_left (@app Z) chunks acc = acc ++ List.concat chunks.
Proof.
  induction chunks as [|x r IH]; intros acc; simpl; [rewrite app_nil_r; reflexivity|].
  rewrite IH, app_assoc. reflexivity.
Qed.

Lemma join_is_fold (chunks : list (list Z)) : fold_left (@app Z) chunks [] = List.concat chunks.
Proof. apply fold_app_from. Qed.
