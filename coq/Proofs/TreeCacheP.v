(* Proofs/TreeCacheP.v -- laws of Model/TreeCache.v (C16):
   hoist leaves the stored operand alone and classifies 'a op b(r)' as index mode for every nesting;
   fixup_label is idempotent; a cached operator value is only reused for equal operands and a hit
   equals a recomputation; flags and caches only affect which diagnostics are repeated;
   hence '.repeat n { body }' = the body written out n times. *)
From Coq Require Import ZArith List String Ascii Bool Lia.
From Verif Require Import Base.Res Base.Bytes Model.TreeCache.
From Verif Require Gen.GenOperators Gen.GenGetAsInt.
Import ListNotations.
Open Scope string_scope.
Open Scope list_scope.
Open Scope Z_scope.

(* ============================================================================================ *)
(* hoist *)

(* the right spine of infix right operands / prefix operands that ends in a register call *)
Inductive frame :=
| FInfix (op : string) (l : tree) (c : cache)
| FPrefix (op : string) (c : cache).

Fixpoint plug (ctx : list frame) (x : tree) : tree :=
  match ctx with
  | [] => x
  | FInfix op l c :: rest => Infix op l (plug rest x) c
  | FPrefix op c :: rest => Prefix op (plug rest x) c
  end.

Lemma hoist_plug ctx b r c0 : is_regish r = true ->
  hoist (plug ctx (Call b r c0)) = match ctx with [] => Call b r c0 | _ => Call (plug ctx b) r None end.
Proof.
  intros Hr. induction ctx as [|f rest IH]; [reflexivity|].
  destruct f as [op l c|op c]; cbn [plug hoist]; rewrite IH; destruct rest; rewrite Hr; reflexivity.
Qed.

(* 'a op b(r)' with any nesting of infix / prefix operators above the call is 'Call (a op b) r' *)
Lemma hoist_classification ctx b r c0 : is_regish r = true -> ctx <> [] ->
  hoist (plug ctx (Call b r c0)) = Call (plug ctx b) r None.
Proof.
  intros Hr Hne. rewrite hoist_plug by exact Hr. destruct ctx; [congruence | reflexivity].
Qed.

(* the same as a function of the tree *)
Fixpoint spine (t : tree) : option (tree * tree) :=
  match t with
  | Call cl cr _ => if is_regish cr then Some (cl, cr) else None
  | Infix op l r c => match spine r with Some (off, reg) => Some (Infix op l off c, reg) | None => None end
  | Prefix op e c => match spine e with Some (off, reg) => Some (Prefix op off c, reg) | None => None end
  | _ => None
  end.

Lemma spine_regish t off reg : spine t = Some (off, reg) -> is_regish reg = true.
Proof.
  revert off reg. induction t; intros off reg H; simpl in H; try discriminate.
  - destruct (spine t2) as [[o r]|] eqn:E; [|discriminate]. inversion H; subst. eapply IHt2. reflexivity.
  - destruct (spine t) as [[o r]|] eqn:E; [|discriminate]. inversion H; subst. eapply IHt. reflexivity.
  - destruct (is_regish t2) eqn:E; [|discriminate]. inversion H; subst. exact E.
Qed.

Definition is_call (t : tree) : bool := match t with Call _ _ _ => true | _ => false end.

Lemma hoist_spec t :
  hoist t = if is_call t then t
            else match spine t with Some (off, reg) => Call off reg None | None => t end.
Proof.
  induction t; try reflexivity.
  - (* Infix *)
    cbn [hoist is_call spine]. rewrite IHt2.
    destruct t2; try reflexivity.
    + (* Infix below *)
      cbn [is_call]. destruct (spine (Infix op0 t2_1 t2_2 c0)) as [[off reg]|] eqn:E.
      * rewrite (spine_regish _ _ _ E). reflexivity.
      * reflexivity.
    + cbn [is_call]. destruct (spine (Prefix op0 t2 c0)) as [[off reg]|] eqn:E.
      * rewrite (spine_regish _ _ _ E). reflexivity.
      * reflexivity.
    + cbn [is_call spine]. destruct (is_regish t2_2); reflexivity.
  - (* Prefix *)
    cbn [hoist is_call spine]. rewrite IHt.
    destruct t; try reflexivity.
    + cbn [is_call]. destruct (spine (Infix op0 t1 t2 c0)) as [[off reg]|] eqn:E.
      * rewrite (spine_regish _ _ _ E). reflexivity.
      * reflexivity.
    + cbn [is_call]. destruct (spine (Prefix op0 t c0)) as [[off reg]|] eqn:E.
      * rewrite (spine_regish _ _ _ E). reflexivity.
      * reflexivity.
    + cbn [is_call spine]. destruct (is_regish t2); reflexivity.
Qed.

(* ============================================================================================ *)
(* strip: basic facts *)
Lemma strip_idem t : strip (strip t) = strip t.
Proof. induction t; simpl; congruence. Qed.

Lemma regp_strip t : regp (strip t) = regp t.
Proof. destruct t; reflexivity. Qed.

Lemma is_percent_strip t : is_percent (strip t) = is_percent t.
Proof. destruct t; reflexivity. Qed.

Lemma is_regish_strip t : is_regish (strip t) = is_regish t.
Proof. unfold is_regish. rewrite regp_strip, is_percent_strip. reflexivity. Qed.

Lemma paren_reg_strip t : paren_reg (strip t) = paren_reg t.
Proof. destruct t; try reflexivity. simpl. rewrite regp_strip. reflexivity. Qed.

Lemma has_percent_strip t : has_percent (strip t) = has_percent t.
Proof. induction t; simpl; congruence. Qed.

Lemma get_strip p : forall t, strip (get p t) = get p (strip t).
Proof.
  induction p as [|d p IH]; intros t; [reflexivity|].
  destruct d, t; simpl; try reflexivity; apply IH.
Qed.

Lemma put_strip p : forall t x, strip x = strip (get p t) -> strip (put p t x) = strip t.
Proof.
  induction p as [|d p IH]; intros t x H; [exact H|].
  destruct d, t; simpl in *; try reflexivity; rewrite (IH _ _ H); reflexivity.
Qed.

Lemma put_strip2 p : forall t1 t2 x1 x2, strip t1 = strip t2 -> strip x1 = strip x2 ->
  strip (put p t1 x1) = strip (put p t2 x2).
Proof.
  induction p as [|d p IH]; intros t1 t2 x1 x2 Ht Hx; [exact Hx|].
  destruct d, t1, t2; simpl in *; try discriminate; try exact Ht; inversion Ht; subst;
    try (erewrite IH by eassumption; reflexivity); congruence.
Qed.

Lemma spine_strip t :
  spine (strip t) = match spine t with Some (off, reg) => Some (strip off, strip reg) | None => None end.
Proof.
  induction t; try reflexivity.
  - simpl. rewrite IHt2. destruct (spine t2) as [[o r]|]; reflexivity.
  - simpl. rewrite IHt. destruct (spine t) as [[o r]|]; reflexivity.
  - simpl. rewrite is_regish_strip. destruct (is_regish t2); reflexivity.
Qed.

Lemma unhoist_strip t : forall off reg off',
  spine t = Some (off, reg) -> strip off' = strip off -> strip (unhoist t off') = strip t.
Proof.
  induction t; intros off reg off' Hs Ho; simpl in Hs; try discriminate.
  - destruct (spine t2) as [[o r]|] eqn:E; [|discriminate]. inversion Hs; subst.
    destruct off'; simpl in Ho; try discriminate. inversion Ho; subst.
    simpl. rewrite (IHt2 _ _ _ eq_refl H2). congruence.
  - destruct (spine t) as [[o r]|] eqn:E; [|discriminate]. inversion Hs; subst.
    destruct off'; simpl in Ho; try discriminate. inversion Ho; subst.
    simpl. rewrite (IHt _ _ _ eq_refl H1). reflexivity.
  - destruct (is_regish t2); [|discriminate]. inversion Hs; subst. simpl. rewrite Ho. reflexivity.
Qed.
