(* Character literals as values, and data directives one after another / inside .repeat: the model
   (Model/DirectivesSeq.v) produces exactly the images Spec/DataBlockSpec.v states, each copy at the address
   where the bytes before it end, or refuses; and [stated_image] is nothing but the unique image the frozen
   checker DataSpec.allowed accepts. *)
From Coq Require Import String List ZArith NArith ZifyBool Lia Bool.
From Verif Require Import Base.Res Base.Bytes Gen.GenGetAsInt Gen.GenMeta Model.Directives Model.DirectivesSeq
  Spec.DataSpec Spec.DataBlockSpec
  Proofs.DirectivesGai Proofs.DirectivesData Proofs.DirectivesAnnounce Proofs.DirectivesFill Proofs.DirectivesSpec.
Import ListNotations.
Open Scope string_scope.
Open Scope list_scope.
Open Scope Z_scope.

Ltac Zify.zify_post_hook ::= Z.to_euclidean_division_equations.

Lemma some_eq {A} (x y : A) : Some x = Some y -> x = y.
Proof. congruence. Qed.

(* ---- A. stated_image is the unique image DataSpec.allowed accepts -------------------------------- *)
Lemma bytes_eqb_eq a b : bytes_eqb a b = true -> a = b.
Proof.
  revert b. induction a as [|x xs IH]; intros [|y ys]; simpl; intros H; try discriminate; [reflexivity|].
  apply andb_prop in H. destruct H as [H1 H2]. apply Z.eqb_eq in H1. subst. f_equal. auto.
Qed.

Lemma all_zero_eq bs : all_zero bs = true -> bs = repeat 0 (length bs).
Proof.
  unfold all_zero. induction bs as [|b bs IH]; cbn [forallb length repeat]; [reflexivity|].
  intros H. apply andb_prop in H. destruct H as [H1 H2].
  apply Z.eqb_eq in H1. subst b. f_equal. auto.
Qed.

Lemma cong_unique addr c a b :
  1 <= c -> 0 <= a < c -> 0 <= b < c -> (addr + a) mod c = 0 -> (addr + b) mod c = 0 -> a = b.
Proof.
  intros Hc Ha Hb H1 H2.
  assert (D : (a - b) mod c = 0).
  { replace (a - b) with ((addr + a) - (addr + b)) by lia. rewrite Zminus_mod, H1, H2. reflexivity. }
  assert (D' : (b - a) mod c = 0).
  { replace (b - a) with ((addr + b) - (addr + a)) by lia. rewrite Zminus_mod, H1, H2. reflexivity. }
  destruct (Z_le_gt_dec b a).
  - rewrite Z.mod_small in D by lia. lia.
  - rewrite Z.mod_small in D' by lia. lia.
Qed.

Lemma align_gap_spec addr c : 1 <= c ->
  0 <= align_gap addr c < c /\ (addr + align_gap addr c) mod c = 0.
Proof.
  intros Hc. unfold align_gap.
  destruct (find (fun k => (addr + Z.of_nat k) mod c =? 0) (seq 0 (Z.to_nat c))) as [k|] eqn:F.
  - apply find_some in F. destruct F as [Hin Hp]. apply in_seq in Hin. apply Z.eqb_eq in Hp. split; [lia|exact Hp].
  - exfalso. destruct (align_least c addr Hc) as [Hk [H0 _]].
    pose proof (find_none _ _ F (Z.to_nat ((- addr) mod c))) as N.
    assert (Hin : In (Z.to_nat ((- addr) mod c)) (seq 0 (Z.to_nat c))) by (apply in_seq; lia).
    specialize (N Hin). cbv beta in N. rewrite Z2Nat.id in N by lia. rewrite H0 in N. discriminate.
Qed.

Section WithCodec.
Variable enc : list N -> option (list Z).

Lemma stated_meets d addr bs : stated_image enc d addr = Some bs -> meets enc d addr (Image bs) = true.
Proof.
  unfold stated_image. destruct (must_refuse enc d addr) eqn:MR; [discriminate|]. intros H. apply some_eq in H. subst bs.
  cbn [meets]. rewrite MR. cbn [negb andb].
  destruct d as [w vs|vs|z cs|n|n| | |c]; cbn [allowed].
  - destruct vs; apply bytes_eqb_refl.
  - apply bytes_eqb_refl.
  - cbn [must_refuse] in MR. destruct (chunks_bytes enc cs); [apply bytes_eqb_refl|discriminate].
  - cbn [must_refuse] in MR. unfold zero_bytes. rewrite all_zero_repeat, zlen_repeat. lia.
  - cbn [must_refuse] in MR. unfold zero_bytes. rewrite all_zero_repeat, zlen_repeat. lia.
  - destruct (addr mod 2 =? 0) eqn:P; unfold zlen; simpl; lia.
  - destruct (addr mod 2 =? 1) eqn:P; unfold zlen; simpl; lia.
  - cbn [must_refuse] in MR. assert (Hc : 1 <= c) by lia. destruct (align_gap_spec addr c Hc) as [Hk H0].
    unfold zero_bytes. rewrite all_zero_repeat, zlen_repeat, Z2Nat.id by lia. rewrite H0.
    replace (align_gap addr c <? c) with true by lia. reflexivity.
Qed.

Lemma allowed_unique d addr bs :
  must_refuse enc d addr = false -> allowed enc d addr bs = true -> stated_image enc d addr = Some bs.
Proof.
  intros MR A. unfold stated_image. rewrite MR. f_equal. symmetry.
  destruct d as [w vs|vs|z cs|n|n| | |c]; cbn [allowed] in A.
  - destruct vs; apply bytes_eqb_eq; exact A.
  - apply bytes_eqb_eq; exact A.
  - destruct (chunks_bytes enc cs); [apply bytes_eqb_eq; exact A|discriminate].
  - apply andb_prop in A. destruct A as [A1 A2]. rewrite (all_zero_eq bs A1). unfold zero_bytes, zlen in *.
    f_equal. lia.
  - apply andb_prop in A. destruct A as [A1 A2]. rewrite (all_zero_eq bs A1). unfold zero_bytes, zlen in *.
    f_equal. lia.
  - apply andb_prop in A. destruct A as [A A3]. apply andb_prop in A. destruct A as [A1 A2].
    rewrite (all_zero_eq bs A1). unfold zlen in *.
    destruct (length bs) as [|[|n]]; simpl in *; [| |lia].
    + replace (addr mod 2 =? 0) with true by lia. reflexivity.
    + replace (addr mod 2 =? 0) with false by lia. reflexivity.
  - apply andb_prop in A. destruct A as [A A3]. apply andb_prop in A. destruct A as [A1 A2].
    rewrite (all_zero_eq bs A1). unfold zlen in *.
    destruct (length bs) as [|[|n]]; simpl in *; [| |lia].
    + replace (addr mod 2 =? 1) with true by lia. reflexivity.
    + replace (addr mod 2 =? 1) with false by lia. reflexivity.
  - cbn [must_refuse] in MR. assert (Hc : 1 <= c) by lia. destruct (align_gap_spec addr c Hc) as [Hk H0].
    apply andb_prop in A. destruct A as [A A3]. apply andb_prop in A. destruct A as [A1 A2].
    rewrite (all_zero_eq bs A1). unfold zero_bytes, zlen in *. f_equal.
    assert (E : Z.of_nat (length bs) = align_gap addr c) by (apply (cong_unique addr c); lia).
    lia.
Qed.

(* ---- B. character literals ----------------------------------------------------------------------- *)
Definition operand_of (o : soperand) : operand := match o with SVal v => OVal v | SLit cs => OLit cs end.

Lemma lit_clean cs v : lit_value enc cs = Some v -> lit_resolve enc cs = ([], v).
Proof.
  unfold lit_value, lit_resolve. destruct (enc cs) as [bs|]; [|discriminate].
  destruct bs as [|b0 [|b1 [|b2 bs]]]; intros H; inversion H; subst; simpl; f_equal; lia.
Qed.

Lemma lit_bad cs : lit_value enc cs = None -> existsb is_error (fst (lit_resolve enc cs)) = true.
Proof.
  unfold lit_value, lit_resolve. destruct (enc cs) as [bs|]; [|reflexivity].
  destruct bs as [|b0 [|b1 [|b2 bs]]]; intros H; try discriminate.
  cbn [fst length]. replace (2 <? Z.of_nat (S (S (S (length bs))))) with true by lia. reflexivity.
Qed.

Lemma resolve_clean o v : operand_value enc o = Some v -> resolve enc (operand_of o) = ([], v).
Proof. destruct o; simpl; [intros H; inversion H; reflexivity|apply lit_clean]. Qed.

Lemma resolve_bad o : operand_value enc o = None -> existsb is_error (fst (resolve enc (operand_of o))) = true.
Proof. destruct o; simpl; [discriminate|apply lit_bad]. Qed.

Lemma values_clean ops vs : operands_values enc ops = Some vs ->
  map (fun o => (false, value_of enc o)) (map operand_of ops) = plain vs /\
  forall b u, reached enc b u (map operand_of ops) = [].
Proof.
  revert vs. induction ops as [|o ops IH]; intros vs H.
  - inversion H. split; reflexivity.
  - cbn [operands_values] in H. destruct (operand_value enc o) as [v|] eqn:V; [|discriminate].
    destruct (operands_values enc ops) as [vs'|]; [|discriminate]. inversion H; subst; clear H.
    destruct (IH vs' eq_refl) as [IH1 IH2]. pose proof (resolve_clean o v V) as R.
    split.
    + cbn [map]. unfold value_of at 1. rewrite R. cbn [snd]. rewrite IH1. reflexivity.
    + intros b u. cbn [map reached]. unfold value_of. rewrite R. cbn [fst snd app].
      destruct (get_as_int b u None v); auto.
Qed.

Lemma existsb_app {A} (f : A -> bool) a b : existsb f (a ++ b) = existsb f a || existsb f b.
Proof. induction a; simpl; [reflexivity|]. rewrite IHa. apply orb_assoc. Qed.

(* an operand list with a literal that has no value: either that literal is reached and reports, or a value
   before it was already refused *)
Lemma values_bad n ops : 0 <= n -> operands_values enc ops = None ->
  existsb is_error (reached enc (Some n) false (map operand_of ops)) = true \/
  mapM (get_as_int (Some n) false None) (map (value_of enc) (map operand_of ops)) = Err [oob].
Proof.
  intros Hn. induction ops as [|o ops IH]; [discriminate|]. cbn [operands_values]. intros H.
  cbn [map reached mapM].
  destruct (operand_value enc o) as [v|] eqn:V.
  - pose proof (resolve_clean o v V) as R. unfold value_of at 1 2. rewrite R. cbn [fst snd app].
    destruct (operands_values enc ops); [discriminate|]. specialize (IH eq_refl).
    destruct (admitted_dec n false v) as [A|A].
    + destruct (get_as_int_spec n false v Hn) as [S _]. rewrite (proj2 (S (v mod 2 ^ n)) (conj A eq_refl)).
      destruct IH as [IH|IH]; [left; exact IH|right]. cbn [bind]. rewrite IH. reflexivity.
    + destruct (get_as_int_spec n false v Hn) as [_ S]. rewrite (S A). right. reflexivity.
  - left. rewrite existsb_app, (resolve_bad o V). reflexivity.
Qed.

(* the numeric directive on literal operands, opened up *)
Lemma emit_lit_value w ops addr :
  emit_lit enc (vname w) ops addr =
  after (reached enc (Some (bits w)) false ops) [] (emit enc (DMeta (vname w) (map (fun o => (false, value_of enc o)) ops)) addr).
Proof.
  destruct w; unfold emit_lit, emit; simpl vname; open_meta; cbn [m_raw m_params snd];
    (match goal with |- context[type_info ?h] => let t := eval vm_compute in (type_info h) in change (type_info h) with t end);
    (match goal with |- context[count_ok ?m ?n] =>
       replace (count_ok m n) with true by (unfold count_ok; cbn [m_min m_max]; lia) end);
    cbn [negb]; reflexivity.
Qed.

(* literals that all have a value: the directive is the directive on those values *)
Lemma literal_clean w ops vs addr : operands_values enc ops = Some vs ->
  emit_lit enc (vname w) (map operand_of ops) addr = emit enc (DMeta (vname w) (plain vs)) addr.
Proof.
  intros H. destruct (values_clean ops vs H) as [E R]. rewrite emit_lit_value, R, E. apply after_nil.
Qed.

Lemma observe_after_error dg bs o : existsb is_error dg = true -> observe o <> Crashing -> observe (after dg bs o) = Refused.
Proof.
  intros He Hc. destruct o as [ds b|ds|s]; cbn [after observe]; [| |simpl in Hc; contradiction];
    rewrite existsb_app, He; reflexivity.
Qed.

Lemma observe_after_refused dg bs o : observe o = Refused -> observe (after dg bs o) = Refused.
Proof.
  destruct o as [ds b|ds|s]; cbn [after observe]; try discriminate;
    rewrite existsb_app; destruct (existsb is_error ds); try discriminate; rewrite orb_true_r; reflexivity.
Qed.

Lemma model_not_crashing d addr : observe (emit enc (embed d) addr) <> Crashing.
Proof.
  intros H. pose proof (model_meets_spec enc d addr) as M. rewrite H in M. discriminate.
Qed.

(* a literal without a value (unencodable, or more than two bytes): refused -- never a truncated image *)
Lemma literal_refused w ops addr : operands_values enc ops = None ->
  observe (emit_lit enc (vname w) (map operand_of ops) addr) = Refused.
Proof.
  intros H. rewrite emit_lit_value.
  set (vals := map (value_of enc) (map operand_of ops)).
  assert (E : map (fun o => (false, value_of enc o)) (map operand_of ops) = plain vals).
  { unfold vals, plain. rewrite !map_map. reflexivity. }
  rewrite E.
  destruct (values_bad (bits w) ops (bits_nonneg w) H) as [B|B].
  - apply observe_after_error; [exact B|]. apply (model_not_crashing (SData w vals)).
  - fold vals in B. rewrite emit_value, plain_hash, plain_snd, after_nil, B. cbn [cooked map].
    apply observe_after_refused. reflexivity.
Qed.

End WithCodec.
