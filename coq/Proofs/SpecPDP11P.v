(* Proofs/SpecPDP11P.v -- sanity of the Spec's opcode table itself: rows are aligned to their field
   size, lie inside the 16-bit space and are pairwise disjoint, so the decoder's answer does not
   depend on the order of the rows ("most specific first" is moot). *)
From Coq Require Import ZArith List String Ascii Bool Lia.
From Verif Require Import Spec.PDP11.
Import ListNotations.
Open Scope Z_scope.

Definition row_aligned (r : row) : bool :=
  let '(_, f, base) := r in (0 <=? base) && (base + fsize f <=? 65536) && (0 <? fsize f) && (base mod fsize f =? 0).

Definition rows_apart (r1 r2 : row) : bool :=
  let '(n1, f1, b1) := r1 in let '(n2, f2, b2) := r2 in
  (b1 + fsize f1 <=? b2) || (b2 + fsize f2 <=? b1) || (String.eqb n1 n2 && (b1 =? b2) && (fsize f1 =? fsize f2)).

Definition table_ok : bool :=
  forallb row_aligned optable && forallb (fun r1 => forallb (rows_apart r1) optable) optable.

Lemma table_ok_true : table_ok = true.
Proof. vm_compute. reflexivity. Qed.

Fixpoint nodup_names (l : list row) : bool :=
  match l with
  | [] => true
  | (n, _, _) :: r => negb (existsb (fun x : row => String.eqb (fst (fst x)) n) r) && nodup_names r
  end.
Lemma names_unique : nodup_names optable = true.
Proof. vm_compute. reflexivity. Qed.

(* a word inside a row's range is decoded as that row's operation, whatever the row order *)
Theorem decode_head_row name f base w :
  In (name, f, base) optable -> base <= w < base + fsize f ->
  exists f', decode_head w = Some (name, fields_of f' w) /\ fsize f' = fsize f /\ In (name, f', base) optable.
Proof.
  intros Hin Hw. unfold decode_head.
  pose proof table_ok_true as T. unfold table_ok in T. apply andb_true_iff in T. destruct T as [_ T].
  rewrite forallb_forall in T. specialize (T _ Hin). rewrite forallb_forall in T.
  destruct (find (row_matches w) optable) as [[[n' f'] b']|] eqn:F.
  - apply find_some in F. destruct F as [Hin' M]. specialize (T _ Hin').
    unfold row_matches in M. unfold rows_apart in T.
    apply andb_true_iff in M. destruct M as [M1 M2].
    apply Z.leb_le in M1. apply Z.ltb_lt in M2.
    apply orb_true_iff in T. destruct T as [T|T].
    + apply orb_true_iff in T. destruct T as [T|T]; apply Z.leb_le in T; lia.
    + apply andb_true_iff in T. destruct T as [T T3]. apply andb_true_iff in T. destruct T as [T1 T2].
      apply String.eqb_eq in T1. apply Z.eqb_eq in T2. apply Z.eqb_eq in T3. subst n' b'.
      exists f'. auto.
  - exfalso. pose proof (find_none _ _ F _ Hin) as N. unfold row_matches in N.
    apply andb_false_iff in N. destruct N as [N|N]; [apply Z.leb_gt in N | apply Z.ltb_ge in N]; lia.
Qed.
