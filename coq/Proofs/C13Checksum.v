(* C13 -- the translated checksum() of bk_wav.py is the end-around-carry sum of Spec/BkTape.v,
   for every byte list. *)
From Coq Require Import List ZArith Lia Bool ZifyBool.
From Verif Require Import Base.Res Gen.GenBkWav Model.Formats Spec.BkTape.
Import ListNotations.
Open Scope Z_scope.
Ltac Zify.zify_post_hook ::= Z.to_euclidean_division_equations.

Definition is_byte_z (b : Z) : Prop := 0 <= b < 256.
Definition zsum (l : list Z) : Z := fold_left Z.add l 0.

(* the representative of s modulo 65535 in 1..65535, except that 0 stays 0 *)
Definition canon (s : Z) : Z := if s =? 0 then 0 else (s - 1) mod 65535 + 1.

Lemma canon_range s : 0 <= s -> 0 <= canon s <= 65535.
Proof. unfold canon. destruct (s =? 0) eqn:E; lia. Qed.

Lemma canon_small s : 0 <= s < 65536 -> canon s = s.
Proof. unfold canon. destruct (s =? 0) eqn:E; lia. Qed.

Lemma canon_zero_iff s : 0 <= s -> (canon s = 0 <-> s = 0).
Proof. unfold canon. destruct (s =? 0) eqn:E; lia. Qed.

Lemma canon_multiple s : 0 < s -> s mod 65535 = 0 -> canon s = 65535.
Proof. unfold canon. destruct (s =? 0) eqn:E; lia. Qed.

Lemma add_eac_canon s b : 0 <= s -> 0 <= b < 256 -> add_eac (canon s) b = canon (s + b).
Proof.
  intros Hs Hb. unfold add_eac, canon.
  destruct (s =? 0) eqn:E1; destruct (s + b =? 0) eqn:E2; lia.
Qed.

Lemma fold_add_acc l a : fold_left Z.add l a = a + zsum l.
Proof.
  unfold zsum. revert a. induction l as [|x l IH]; simpl; intros a.
  - lia.
  - rewrite (IH (a + x)), (IH x). lia.
Qed.

Lemma zsum_cons x l : zsum (x :: l) = x + zsum l.
Proof. unfold zsum at 1. simpl. apply fold_add_acc. Qed.

Lemma zsum_nonneg l : Forall is_byte_z l -> 0 <= zsum l.
Proof.
  induction 1 as [|x l Hx _ IH].
  - unfold zsum; simpl; lia.
  - rewrite zsum_cons. unfold is_byte_z in Hx. lia.
Qed.

Lemma fold_eac_canon l : Forall is_byte_z l ->
  forall s, 0 <= s -> fold_left add_eac l (canon s) = canon (s + zsum l).
Proof.
  induction 1 as [|x l Hx Hl IH]; intros s Hs.
  - simpl. unfold zsum; simpl. f_equal. lia.
  - simpl. rewrite add_eac_canon by assumption.
    unfold is_byte_z in Hx. rewrite IH by lia. rewrite zsum_cons. f_equal. lia.
Qed.

Lemma cksum_spec_canon l : Forall is_byte_z l -> cksum_spec l = canon (zsum l).
Proof.
  intros H. unfold cksum_spec. change 0 with (canon 0) at 1.
  rewrite fold_eac_canon by (auto; lia). reflexivity.
Qed.

(* ---- the translated loop *)
Lemma step_is r : 0 <= r -> checksum_step r = r mod 65536 + r / 65536.
Proof.
  intros H. unfold checksum_step.
  change 65535 with (Z.ones 16). rewrite Z.land_ones by lia.
  rewrite Z.shiftr_div_pow2 by lia. reflexivity.
Qed.

Lemma cond_is r : checksum_cond r = (65536 <=? r).
Proof. unfold checksum_cond. change (2 ^ 16) with 65536. lia. Qed.

Lemma while_canon fuel : forall r, 0 <= r -> r / 65535 < Z.of_nat fuel ->
  while_loop fuel checksum_cond checksum_step r = Ok (canon r).
Proof.
  induction fuel as [|k IH]; intros r Hr Hf.
  - simpl. rewrite cond_is. destruct (65536 <=? r) eqn:E; [lia|].
    rewrite canon_small by lia. reflexivity.
  - simpl. rewrite cond_is. destruct (65536 <=? r) eqn:E.
    + rewrite step_is by lia.
      rewrite IH by lia. f_equal. unfold canon.
      destruct (r mod 65536 + r / 65536 =? 0) eqn:E1; destruct (r =? 0) eqn:E2; lia.
    + rewrite canon_small by lia. reflexivity.
Qed.

Lemma checksum_canon code : Forall is_byte_z code -> checksum code = Ok (canon (zsum code)).
Proof.
  intros H. unfold checksum, checksum_fuel, checksum_init. fold (zsum code).
  pose proof (zsum_nonneg code H).
  apply while_canon; [assumption|].
  rewrite Nat2Z.inj_succ, Z2Nat.id by lia. lia.
Qed.

Lemma checksum_is_spec code : Forall is_byte_z code -> checksum code = Ok (cksum_spec code).
Proof. intros H. rewrite checksum_canon, cksum_spec_canon by assumption. reflexivity. Qed.

Lemma cksum_spec_range code : Forall is_byte_z code -> 0 <= cksum_spec code <= 65535.
Proof. intros H. rewrite cksum_spec_canon by assumption. apply canon_range, zsum_nonneg, H. Qed.

Lemma cksum_spec_ffff code : Forall is_byte_z code -> zsum code <> 0 -> zsum code mod 65535 = 0 ->
  cksum_spec code = 65535.
Proof.
  intros H Hn Hm. rewrite cksum_spec_canon by assumption.
  apply canon_multiple; [pose proof (zsum_nonneg code H); lia | assumption].
Qed.

Lemma cksum_spec_zero_iff code : Forall is_byte_z code -> (cksum_spec code = 0 <-> zsum code = 0).
Proof. intros H. rewrite cksum_spec_canon by assumption. apply canon_zero_iff, zsum_nonneg, H. Qed.

Lemma cksum_spec_congruent code : Forall is_byte_z code -> cksum_spec code mod 65535 = zsum code mod 65535.
Proof.
  intros H. rewrite cksum_spec_canon by assumption. unfold canon.
  destruct (zsum code =? 0) eqn:E; lia.
Qed.

Lemma checksum_ffff code : Forall is_byte_z code -> zsum code <> 0 -> zsum code mod 65535 = 0 ->
  checksum code = Ok 65535.
Proof. intros H1 H2 H3. rewrite (checksum_is_spec code H1), (cksum_spec_ffff code H1 H2 H3). reflexivity. Qed.
