(* Model/AsmRel.v: what its answer means in terms of Model/Asm.v. *)
From Coq Require Import ZArith List String Ascii Bool NArith Lia.
From Verif Require Import Base.Res Spec.Arith Model.Asm Model.AsmT Model.AsmRel Proofs.AsmP Proofs.AsmTotal.
Import ListNotations.
Notation length := Datatypes.length.
Open Scope string_scope.
Open Scope list_scope.
Open Scope Z_scope.

Lemma Forall2_impl2 {A B} (R S : A -> B -> Prop) l l' : (forall a b, R a b -> S a b) -> Forall2 R l l' -> Forall2 S l l'.
Proof. intros H. induction 1; constructor; auto. Qed.

(* the rewritten program: the same statements, some top-level .repeat counts replaced by the literal recorded *)
Definition same_but_count (ch : list (expr * Z)) (s s' : stmt) : Prop :=
  s = s' \/ exists ce v body, s = Repeat ce body /\ s' = Repeat (zlit v) body /\ In (ce, v) ch /\ 0 <= v /\ nodot ce = true.

Lemma resolve_list_shape enc D K X labs l : forall l' ch, resolve_list enc D K X labs l = (l', ch) ->
  Forall2 (same_but_count ch) l l'.
Proof.
  induction l as [|s r IH]; intros l' ch H; simpl in H.
  - inversion H; subst. constructor.
  - assert (W : forall ch1 ch2 a b, (forall x, In x ch1 -> In x ch2) -> same_but_count ch1 a b -> same_but_count ch2 a b).
    { intros ch1 ch2 a b Hi [E|[ce [v [body [E1 [E2 [Hin Hv]]]]]]]; [left; exact E|right; exists ce, v, body; auto]. }
    destruct (resolve_list enc D K X labs r) as [r' ch0] eqn:ER. specialize (IH _ _ eq_refl).
    destruct s; try (inversion H; subst; constructor; [left; reflexivity|exact IH]).
    destruct (nodot count) eqn:Nd; [|inversion H; subst; constructor; [left; reflexivity|exact IH]].
    destruct (peval enc D K X labs count) as [p|]; [|inversion H; subst; constructor; [left; reflexivity|exact IH]].
    destruct (Poly.is_const p && (0 <=? Poly.const p)) eqn:C; inversion H; subst.
    + apply andb_true_iff in C. destruct C as [_ C]. apply Z.leb_le in C. constructor.
      * right. exists count, (Poly.const p), body. repeat split; auto. left. reflexivity.
      * eapply Forall2_impl2; [|exact IH]. intros a b Hab. eapply W; [|exact Hab]. intros x Hx. right. exact Hx.
    + constructor; [left; reflexivity|exact IH].
Qed.

Theorem resolve_shape enc p p' ch : resolve enc p = (p', ch) -> Forall2 (same_but_count ch) (cut_end p) p'.
Proof.
  unfold resolve. destruct (find_base _ _ _ _ _ _); try (intros H; inversion H; subst; clear; induction (cut_end p); constructor; auto; left; reflexivity).
  apply resolve_list_shape.
Qed.

(* an answer of assemble_rel is an answer of Model/Asm.v for the rewritten program, and every rewritten count
   expression, evaluated by the Spec with the final symbol table, is the literal that was used *)
Theorem rel_sound enc p f : assemble_rel_full enc p = XOk f ->
  exists p' ch, resolve enc p = (p', ch) /\ assemble_full enc p' = XOk f /\
    Forall (fun c => Arith.eval (cenc enc) (sym_of (f_exports f) (f_syms f) (0%nat, None)) 0 (fst c) = Ok (snd c)) ch.
Proof.
  unfold assemble_rel_full. destruct (resolve enc p) as [p' ch]. intros H.
  destruct (assemble_full enc p') as [f'| | | |] eqn:E; simpl in H; try discriminate.
  destruct (check_counts enc f' ch) eqn:C; inversion H; subst.
  exists p', ch. split; [reflexivity|]. split; [exact E|].
  unfold check_counts in C. rewrite forallb_forall in C. apply Forall_forall. intros c Hc. specialize (C c Hc).
  destruct (Arith.eval _ _ _ (fst c)); try discriminate. apply Z.eqb_eq in C. congruence.
Qed.

Theorem rel_no_crash enc p : (forall s, assemble_rel enc p <> XCrash s) /\ assemble_rel enc p <> XOutOfFuel.
Proof.
  assert (N : xnc (assemble_rel enc p)).
  { unfold assemble_rel, assemble_rel_full. destruct (resolve enc p) as [p' ch].
    apply xnc_bind; [|intros; exact I]. apply xnc_bind; [apply no_crash_thm|]. intros f. destruct (check_counts enc f ch); exact I. }
  split; [intros s E|intros E]; rewrite E in N; exact N.
Qed.
