(* Model/AsmRel.v: what its answer means in terms of Model/Asm.v. *)
From Coq Require Import ZArith List String Ascii Bool NArith Lia.
From Verif Require Import Base.Res Spec.Arith Model.Asm Model.AsmT Model.AsmRel Proofs.AsmP Proofs.AsmTotal.
Import ListNotations.
Notation length := Datatypes.length.
Open Scope string_scope.
Open Scope list_scope.
Open Scope Z_scope.

Lemma Forall2_impl2 {A B} (R S : A -> B -> Prop) l l' : (forall a b, R a b -> S a b) -> Forall2 R l l' -> Forall2 S l l'.
Proof. intros H. induction 1; constructor; auto. Qed.

(* the rewritten program: the same statements, some top-level .repeat counts replaced by the literal recorded *)
Definition same_but_count (ch : list (expr * Z)) (s s' : stmt) : Prop :=
  s = s' \/ exists ce v body, s = Repeat ce body /\ s' = Repeat (zlit v) body /\ In (ce, v) ch /\ 0 <= v /\ nodot ce = true.

Lemma resolve_list_shape enc D K X labs l : forall l' ch, resolve_list enc D K X labs l = (l', ch) ->
  Forall2 (same_but_count ch) l l'.
Proof.
  induction l as [|s r IH]; intros l' ch H; simpl in H.
  - inversion H; subst. constructor.
  - assert (W : forall ch1 ch2 a b, (forall x, In x ch1 -> In x ch2) -> same_but_count ch1 a b -> same_but_count ch2 a b).
    { intros ch1 ch2 a b Hi [E|[ce [v [body [E1 [E2 [Hin Hv]]]]]]]; [left; exact E|right; exists ce, v, body; auto]. }
    destruct (resolve_list enc D K X labs r) as [r' ch0] eqn:ER. specialize (IH _ _ eq_refl).
    destruct s; try (inversion H; subst; constructor; [left; reflexivity|exact IH]).
    destruct (nodot count) eqn:Nd; [|inversion H; subst; constructor; [left; reflexivity|exact IH]].
    destruct (peval enc D K X labs count) as [p|]; [|inversion H; subst; constructor; [left; reflexivity|exact IH]].
    destruct (Poly.is_const p && (0 <=? Poly.const p)) eqn:C; inversion H; subst.
    + apply andb_true_iff in C. destruct C as [_ C]. apply Z.leb_le in C. constructor.
      * right. exists count, (Poly.const p), body. repeat split; auto. left. reflexivity.
      * eapply Forall2_impl2; [|exact IH]. intros a b Hab. eapply W; [|exact Hab]. intros x Hx. right. exact Hx.
    + constructor; [left; reflexivity|exact IH].
Qed.

(* ... or the expression of the base-fixing statement replaced by the literal recorded *)
Definition same_but (ch : list (expr * Z)) (s s' : stmt) : Prop :=
  same_but_count ch s s' \/
  exists e v, In (e, v) ch /\ ((s = Link e /\ s' = Link (zlit v)) \/ (s = Skip e /\ s' = Skip (zlit v))).

Lemma same_but_mono ch ch' a b : (forall x, In x ch -> In x ch') -> same_but ch a b -> same_but ch' a b.
Proof.
  intros Hi [[E|[ce [v [body [E1 [E2 [Hin Hr]]]]]]]|[e [v [Hin Hr]]]].
  - left; left; exact E.
  - left; right. exists ce, v, body. auto.
  - right. exists e, v. auto.
Qed.

Lemma same_but_weaken ch ch' l l' : (forall x, In x ch -> In x ch') -> Forall2 (same_but_count ch) l l' -> Forall2 (same_but ch') l l'.
Proof.
  intros Hi. induction 1 as [|a b l l' Hab _ IH]; constructor; auto.
  apply (same_but_mono ch); [exact Hi|left; exact Hab].
Qed.

Lemma resolve_set_shape enc D K X labs e v : forall l l' ch2, top_base l = Some e ->
  resolve_list enc D K X labs (set_base (zlit v) l) = (l', ch2) -> Forall2 (same_but ((e, v) :: ch2)) l l'.
Proof.
  induction l as [|x r IH]; intros l' ch2 HT H; [discriminate|].
  assert (TAIL : forall r0 r' ch0, resolve_list enc D K X labs r0 = (r', ch0) -> (forall y, In y ch0 -> In y ch2) ->
                 Forall2 (same_but ((e, v) :: ch2)) r0 r').
  { intros r0 r' ch0 Hr Hi. eapply same_but_weaken; [|eapply resolve_list_shape; exact Hr]. intros y Hy. right. auto. }
  destruct x; cbn [top_base set_base] in HT, H;
    try (cbn [resolve_list] in H; destruct (resolve_list enc D K X labs (set_base (zlit v) r)) as [r' ch0] eqn:ER;
         inversion H; subst; constructor; [left; left; reflexivity|apply IH; [exact HT|reflexivity]]).
  - (* Link *) inversion HT; subst. cbn [resolve_list] in H. destruct (resolve_list enc D K X labs r) as [r' ch0] eqn:ER.
    inversion H; subst. constructor; [right; exists e, v; split; [left; reflexivity|auto]|]. eapply TAIL; eauto.
  - (* Skip *) inversion HT; subst. cbn [resolve_list] in H. destruct (resolve_list enc D K X labs r) as [r' ch0] eqn:ER.
    inversion H; subst. constructor; [right; exists e, v; split; [left; reflexivity|auto]|]. eapply TAIL; eauto.
  - (* Repeat *)
    cbn [resolve_list] in H. destruct (resolve_list enc D K X labs (set_base (zlit v) r)) as [r' ch0] eqn:ER.
    assert (T0 : forall c, (forall y, In y ch0 -> In y c) -> Forall2 (same_but ((e, v) :: c)) r r').
    { intros c Hc. eapply Forall2_impl2; [|apply (IH r' ch0 HT eq_refl)]. intros a b Hab. eapply same_but_mono; [|exact Hab].
      intros y [<-|Hy]; [left; reflexivity|right; auto]. }
    destruct (nodot count) eqn:Nd; [|inversion H; subst; constructor; [left; left; reflexivity|apply T0; auto]].
    destruct (peval enc D K X labs count) as [pp|]; [|inversion H; subst; constructor; [left; left; reflexivity|apply T0; auto]].
    destruct (Poly.is_const pp && (0 <=? Poly.const pp)) eqn:C; inversion H; subst.
    + apply andb_true_iff in C. destruct C as [_ C]. apply Z.leb_le in C. constructor.
      * left. right. exists count, (Poly.const pp), body. repeat split; auto. right. left. reflexivity.
      * apply T0. intros y Hy. right. exact Hy.
    + constructor; [left; left; reflexivity|apply T0; auto].
  - (* Include *) destruct own.
    + cbn [resolve_list] in H. destruct (resolve_list enc D K X labs (set_base (zlit v) r)) as [r' ch0] eqn:ER.
      inversion H; subst. constructor; [left; left; reflexivity|apply IH; [exact HT|reflexivity]].
    + discriminate.
Qed.

Theorem resolve_shape enc p p' ch : resolve enc p = (p', ch) -> Forall2 (same_but ch) (cut_end p) p'.
Proof.
  assert (R : forall c l0, Forall2 (same_but c) l0 l0) by (intros c l0; induction l0; constructor; auto; left; left; reflexivity).
  unfold resolve. destruct (find_base _ _ _ _ _ (cut_end p)) eqn:FB;
    try (destruct (resolve_base _ _ _ _ (cut_end p)) as [[e bv]|] eqn:RB; [|intros H; inversion H; subst; apply R]);
    try (intros H; eapply same_but_weaken; [|eapply resolve_list_shape; exact H]; auto).
  all: unfold resolve_base in RB; destruct (top_base (cut_end p)) as [e0|] eqn:TB; try discriminate;
       destruct (nodot e0); try discriminate;
       destruct (peval _ _ _ _ _ e0) as [pp|]; try discriminate; destruct (Poly.is_const pp); try discriminate; inversion RB; subst;
       destruct (find_base _ _ _ _ _ (set_base _ _)); try (intros H; inversion H; subst; apply R);
       destruct (resolve_list _ _ _ _ _ (set_base _ _)) as [q2 ch2] eqn:RL; intros H; inversion H; subst;
       eapply resolve_set_shape; eauto.
Qed.

(* an answer of assemble_rel is an answer of Model/Asm.v for the rewritten program, and every rewritten count
   expression, evaluated by the Spec with the final symbol table, is the literal that was used *)
Theorem rel_sound enc p f : assemble_rel_full enc p = XOk f ->
  exists p' ch, resolve enc p = (p', ch) /\ assemble_full enc p' = XOk f /\
    Forall (fun c => Arith.eval (cenc enc) (sym_of (f_exports f) (f_syms f) (0%nat, None)) 0 (fst c) = Ok (snd c)) ch.
Proof.
  unfold assemble_rel_full. destruct (resolve enc p) as [p' ch]. intros H.
  destruct (assemble_full enc p') as [f'| | | |] eqn:E; simpl in H; try discriminate.
  destruct (check_counts enc f' ch) eqn:C; inversion H; subst.
  exists p', ch. split; [reflexivity|]. split; [exact E|].
  unfold check_counts in C. rewrite forallb_forall in C. apply Forall_forall. intros c Hc. specialize (C c Hc).
  destruct (Arith.eval _ _ _ (fst c)); try discriminate. apply Z.eqb_eq in C. congruence.
Qed.

Theorem rel_no_crash enc p : (forall s, assemble_rel enc p <> XCrash s) /\ assemble_rel enc p <> XOutOfFuel.
Proof.
  assert (N : xnc (assemble_rel enc p)).
  { unfold assemble_rel, assemble_rel_full. destruct (resolve enc p) as [p' ch].
    apply xnc_bind; [|intros; exact I]. apply xnc_bind; [apply no_crash_thm|]. intros f. destruct (check_counts enc f ch); exact I. }
  split; [intros s E|intros E]; rewrite E in N; exact N.
Qed.
