(* R_move_def: where a definition `n = e` stands in the program does not matter (C03 on whole programs),
   provided e mentions neither `.` nor a local label -- the two things a definition takes from its place. *)
From Coq Require Import ZArith List String Ascii Bool NArith Lia.
From Verif Require Import Base.Res Base.Bytes Spec.PDP11 Spec.Arith Gen.GenGetAsInt Gen.GenOpcodes
  Model.Insns Model.Directives Model.Asm Model.AsmT Proofs.AsmP Proofs.AsmMeta.
Import ListNotations.
Notation length := Datatypes.length.
Notation concat := List.concat.
Open Scope string_scope.
Open Scope list_scope.
Open Scope Z_scope.

Ltac xinv H :=
  repeat match type of H with
  | xbind ?r ?f = XOk _ =>
      let a := fresh "a" in let Ha := fresh "Ha" in
      apply xbind_ok in H; destruct H as [a [Ha H]]
  end.

(* two tables that agree except (possibly) on the key of the moved definition *)
Definition tab_eq (n : string) (D D' : symtab) : Prop :=
  forall k, k <> KGlobal 0 n -> klookup k D = klookup k D'.

Lemma kmem_klookup k T : kmem k T = match klookup k T with Some _ => true | None => false end.
Proof. induction T as [|[k' v] T IH]; simpl; [reflexivity|]. destruct (key_eqb k k'); simpl; auto. Qed.

Lemma tab_eq_kmem n D D' k : tab_eq n D D' -> k <> KGlobal 0 n -> kmem k D = kmem k D'.
Proof. intros H Hk. rewrite !kmem_klookup, (H k Hk). reflexivity. Qed.

Lemma tab_eq_cons n D D' k v : tab_eq n D D' -> tab_eq n ((k, v) :: D) ((k, v) :: D').
Proof. intros H k' Hk'. simpl. destruct (key_eqb k' k); auto. Qed.

Lemma tab_eq_refl n D : tab_eq n D D.
Proof. intros k _. reflexivity. Qed.

(* the same definition up to the local scope it was written in *)
Definition def_sim (d d' : option defn) : Prop :=
  match d, d' with
  | Some a, Some b => d_file a = d_file b /\ d_name a = d_name b /\ d_expr a = d_expr b
  | None, None => True
  | _, _ => False
  end.

Section Eq.
Variable enc : list N -> option (list Z).
Variable allkeys : list key.
Variable exports : list (string * nat).
Variable n : string.
Variable e : expr.
Variable names : list string.
Variable D D' : list defn.
Hypothesis HK : keys_named names allkeys.
Hypothesis He : efree names e = true.
Hypothesis Hd : nodot e = true.
(* the two definition tables: the same definitions; the one of n (file 0) is `n = e` in both *)
Hypothesis HD : forall f s, (f, s) <> (0%nat, n) -> find_def f s D = find_def f s D'.
Hypothesis HDn : exists sc sc', find_def 0 n D = Some (mkDef 0 n sc e) /\ find_def 0 n D' = Some (mkDef 0 n sc' e).

Lemma xeval_nodot A K X L T fuel vis c dot dot' x : nodot x = true ->
  xeval enc A K X L T fuel vis c dot x = xeval enc A K X L T fuel vis c dot' x.
Proof.
  induction x; intros Hx; simpl in Hx; try discriminate.
  - destruct fuel; reflexivity.
  - destruct fuel; reflexivity.
  - specialize (IHx Hx). destruct fuel; simpl in *; rewrite IHx; reflexivity.
  - apply andb_true_iff in Hx. destruct Hx as [H1 H2]. specialize (IHx1 H1). specialize (IHx2 H2).
    destruct fuel; simpl in *; rewrite IHx1, IHx2; reflexivity.
  - specialize (IHx Hx). destruct fuel; simpl in *; exact IHx.
Qed.

Lemma pair_dec (f : nat) (s : string) : {(f, s) = (0%nat, n)} + {(f, s) <> (0%nat, n)}.
Proof.
  destruct (Nat.eq_dec f 0) as [->|Hf]; [|right; congruence].
  destruct (string_dec s n) as [->|Hs]; [left; reflexivity|right; congruence].
Qed.

Lemma xeval_move labels T T' : locals_named names labels -> tab_eq n T T' ->
  forall fuel vis c dot x,
  xeval enc D allkeys exports labels T fuel vis c dot x = xeval enc D' allkeys exports labels T' fuel vis c dot x.
Proof.
  intros HL HT.
  assert (Step : forall fuel, 
     (forall fl, fuel = S fl -> forall vis c dot x,
         xeval enc D allkeys exports labels T fl vis c dot x = xeval enc D' allkeys exports labels T' fl vis c dot x) ->
     forall vis (s : string) (g : nat) (k k' : xres Z), k = k' ->
       match find_def g s D with
       | Some d => if vmem g s vis then XErr ["recursive-definition"]
                   else match fuel with
                        | O => XOutOfFuel
                        | S fl => xeval enc D allkeys exports labels T fl ((g, s) :: vis) (g, Some (d_scope d)) (klookup (KGlobal g s) T) (d_expr d)
                        end
       | None => k end =
       match find_def g s D' with
       | Some d => if vmem g s vis then XErr ["recursive-definition"]
                   else match fuel with
                        | O => XOutOfFuel
                        | S fl => xeval enc D' allkeys exports labels T' fl ((g, s) :: vis) (g, Some (d_scope d)) (klookup (KGlobal g s) T') (d_expr d)
                        end
       | None => k' end).
  { intros fuel IH vis s g k k' ->. destruct (pair_dec g s) as [E|E].
    - injection E as -> ->. destruct HDn as [sc [sc' [E1 E2]]]. rewrite E1, E2. cbn [d_scope d_expr].
      destruct (vmem 0 n vis); [reflexivity|]. destruct fuel as [|fl]; [reflexivity|].
      rewrite (IH fl eq_refl).
      rewrite (xeval_scope enc D' allkeys exports names HK labels T' fl _ 0%nat (Some sc) (Some sc') _ e HL He).
      apply xeval_nodot. exact Hd.
    - rewrite <- (HD g s E). destruct (find_def g s D); [|reflexivity].
      destruct (vmem g s vis); [reflexivity|]. destruct fuel as [|fl]; [reflexivity|].
      rewrite (IH fl eq_refl). rewrite (HT (KGlobal g s)) by congruence. reflexivity. }
  induction fuel as [|f IHf]; intros vis c dot x; induction x;
    try (destruct f; reflexivity); try reflexivity.
  - simpl. destruct (own_of labels c s); [reflexivity|].
    apply (Step 0%nat); [intros fl E; discriminate|].
    match goal with |- context[if ?b then _ else _] => destruct b end; [reflexivity|].
    destruct (slookup s exports) as [g|]; [|reflexivity]. destruct (klookup (KGlobal g s) labels); [reflexivity|].
    apply (Step 0%nat); [intros fl E; discriminate|reflexivity].
  - simpl in *. rewrite IHx. reflexivity.
  - simpl in *. rewrite IHx1, IHx2. reflexivity.
  - simpl in *. exact IHx.
  - simpl. destruct (own_of labels c s); [reflexivity|].
    apply (Step (S f)); [intros fl E; injection E as <-; apply IHf|].
    match goal with |- context[if ?b then _ else _] => destruct b end; [reflexivity|].
    destruct (slookup s exports) as [g|]; [|reflexivity]. destruct (klookup (KGlobal g s) labels); [reflexivity|].
    apply (Step (S f)); [intros fl E; injection E as <-; apply IHf|reflexivity].
  - simpl in *. rewrite IHx. reflexivity.
  - simpl in *. rewrite IHx1, IHx2. reflexivity.
  - simpl in *. exact IHx.
Qed.
End Eq.

(* ---- layout of the same statement in the two programs ----------------------------------------- *)
Definition sim (n : string) (st st' : lstate) : Prop :=
  l_addr st = l_addr st' /\ l_file st = l_file st' /\ l_scope st = l_scope st' /\ l_labels st = l_labels st' /\
  tab_eq n (l_ddots st) (l_ddots st') /\ l_based st = l_based st' /\ l_inc st = l_inc st'.

Definition res_sim (n : string) (r r' : lres) : Prop :=
  match r, r' with
  | XOk a, XOk b => sim n (fst a) (fst b) /\ snd a = snd b
  | XErr a, XErr b => a = b
  | XCrash a, XCrash b => a = b
  | XOutOfFuel, XOutOfFuel => True
  | XUnsup a, XUnsup b => a = b
  | _, _ => False
  end.

Lemma nodef_nested n body :
  (fix go (l : list stmt) : bool := match l with [] => true | x :: r => nodef n x && go r end) body = forallb (nodef n) body.
Proof. reflexivity. Qed.

Lemma xmapM_ext {A B} (f g : A -> xres B) l : (forall x, f x = g x) -> xmapM f l = xmapM g l.
Proof. intros H. induction l as [|x r IH]; simpl; [reflexivity|]. rewrite H, IH. reflexivity. Qed.

Lemma emit_leaf_ext enc ev ev' a s : (forall x, ev x = ev' x) -> emit_leaf enc ev a s = emit_leaf enc ev' a s.
Proof.
  intros H. destruct s; cbn [emit_leaf]; try reflexivity; rewrite ?H; try reflexivity;
    try (rewrite (xmapM_ext ev ev' _ H); reflexivity).
  - rewrite (xmapM_ext (eval_opnd ev) (eval_opnd ev')); [reflexivity|].
    intros o. destruct o; simpl; rewrite ?H; reflexivity.
  - rewrite (xmapM_ext (eval_chunk ev) (eval_chunk ev')); [reflexivity|]. intros [s|x]; simpl; rewrite ?H; reflexivity.
  - rewrite (xmapM_ext (eval_rchunk ev) (eval_rchunk ev')); [reflexivity|]. intros [s|x]; simpl; rewrite ?H; reflexivity.
Qed.

Section Sim.
Variable enc : list N -> option (list Z).
Variable allkeys : list key.
Variable exports : list (string * nat).
Variable fuel : nat.
Variable n : string.
Variable e : expr.
Variable names : list string.
Variable D D' : list defn.
Hypothesis HK : keys_named names allkeys.
Hypothesis He : efree names e = true.
Hypothesis Hd : nodot e = true.
Hypothesis HD : forall f s, (f, s) <> (0%nat, n) -> find_def f s D = find_def f s D'.
Hypothesis HDn : exists sc sc', find_def 0 n D = Some (mkDef 0 n sc e) /\ find_def 0 n D' = Some (mkDef 0 n sc' e).

Notation layL := (lay_leaf enc D allkeys exports fuel).
Notation layL' := (lay_leaf enc D' allkeys exports fuel).
Notation layS := (lay_stmt enc D allkeys exports fuel).
Notation layS' := (lay_stmt enc D' allkeys exports fuel).
Notation layl := (lay_list enc D allkeys exports fuel).
Notation layl' := (lay_list enc D' allkeys exports fuel).

Lemma lev_move st st' c x : sim n st st' -> locals_named names (l_labels st) ->
  lev enc D allkeys exports fuel st c x = lev enc D' allkeys exports fuel st' c x.
Proof.
  intros [Ea [_ [_ [El [Et _]]]]] HL. unfold lev. rewrite <- Ea, <- El.
  apply (xeval_move enc allkeys exports n e names D D' HK He Hd HD HDn); assumption.
Qed.

Lemma key_neq f m : String.eqb m n = false -> KGlobal f m <> KGlobal 0 n.
Proof. intros H E. injection E as _ E. subst. rewrite String.eqb_refl in H. discriminate. Qed.

Lemma lay_leaf_sim inrep s st st' : sim n st st' -> locals_named names (l_labels st) -> nodef n s = true ->
  res_sim n (layL inrep s st) (layL' inrep s st').
Proof.
  intros S HL Hn. pose proof S as [Ea [Ef [Es [El [Et [Eb Ei]]]]]].
  assert (LV : forall c x, lev enc D allkeys exports fuel st c x = lev enc D' allkeys exports fuel st' c x)
    by (intros; apply lev_move; assumption).
  assert (PUT : forall c s0 sz, res_sim n (XOk (put st c s0 sz)) (XOk (put st' c s0 sz))).
  { intros c s0 sz. unfold put. simpl. rewrite Ea. split; [|reflexivity]. unfold sim; simpl. auto 10. }
  assert (EM : forall c s0, res_sim n
            (xbind (emit_leaf enc (lev enc D allkeys exports fuel st c) (l_addr st) s0) (fun bs => XOk (put st c s0 (zlen bs))))
            (xbind (emit_leaf enc (lev enc D' allkeys exports fuel st' c) (l_addr st') s0) (fun bs => XOk (put st' c s0 (zlen bs))))).
  { intros c s0. rewrite (emit_leaf_ext enc _ (lev enc D' allkeys exports fuel st' c) _ _ (LV c)). rewrite <- Ea.
    destruct (emit_leaf enc _ (l_addr st) s0); cbn [xbind]; try apply PUT; simpl; auto. }
  assert (SZ : forall c s0 (r : xres Z), res_sim n (xbind r (fun sz => XOk (put st c s0 sz))) (xbind r (fun sz => XOk (put st' c s0 sz)))).
  { intros c s0 r. destruct r; cbn [xbind]; try apply PUT; simpl; auto. }
  unfold Asm.lay_leaf. cbv zeta. rewrite <- Ef, <- Es, <- El, <- Eb, <- Ei.
  destruct s; cbn [sized_size]; try apply SZ; try apply EM; try (simpl; reflexivity).
  - (* Label *) simpl in Hn. apply negb_true_iff in Hn.
    destruct inrep; [reflexivity|]. rewrite <- (tab_eq_kmem n _ _ _ Et (key_neq _ _ Hn)).
    destruct (_ || _); [reflexivity|]. simpl. rewrite <- Ea. split; [|reflexivity]. unfold sim; simpl. auto 10.
  - (* LocalLabel *) destruct inrep; [reflexivity|]. destruct (kmem _ _); [reflexivity|]. simpl. rewrite <- Ea.
    split; [|reflexivity]. unfold sim; simpl. auto 10.
  - (* Assign *) simpl in Hn. apply negb_true_iff in Hn.
    destruct inrep; [reflexivity|]. rewrite <- (tab_eq_kmem n _ _ _ Et (key_neq _ _ Hn)).
    destruct (_ || _); [reflexivity|]. simpl. rewrite <- Ea. split; [|reflexivity]. unfold sim; simpl.
    repeat split; auto. apply tab_eq_cons. exact Et.
  - (* Link *) destruct inrep; [reflexivity|]. destruct (l_inc st); [reflexivity|]. destruct (l_based st); [reflexivity|].
    simpl. rewrite <- Ea. split; [|reflexivity]. unfold sim; simpl. auto 10.
  - (* Skip *) destruct (l_inc st); [reflexivity|]. destruct (l_based st); [apply EM|]. destruct inrep; [reflexivity|].
    simpl. rewrite <- Ea. split; [|reflexivity]. unfold sim; simpl. auto 10.
  - (* Extern *) destruct inrep; [reflexivity|]. apply PUT.
  - (* ExternAll *) destruct inrep; [reflexivity|]. apply PUT.
Qed.

Lemma sim_labels st st' : sim n st st' -> l_labels st = l_labels st'.
Proof. intros [_ [_ [_ [E _]]]]. exact E. Qed.

Definition stmt_sim (s : stmt) : Prop :=
  forall inrep st st', sim n st st' -> locals_named names (l_labels st) -> nodef n s = true ->
  (forall m, In m (lnames_stmt s) -> smem m names = true) ->
  res_sim n (layS inrep s st) (layS' inrep s st').

Lemma lay_list_sim l : Forall stmt_sim l -> forall inrep st st',
  sim n st st' -> locals_named names (l_labels st) -> forallb (nodef n) l = true ->
  (forall m, In m (lnames l) -> smem m names = true) ->
  res_sim n (layl inrep l st) (layl' inrep l st').
Proof.
  induction 1 as [|x r Hx _ IH]; intros inrep st st' S HL Hn Hm; simpl.
  - split; [exact S|reflexivity].
  - simpl in Hn. apply andb_true_iff in Hn. destruct Hn as [Hnx Hnr].
    assert (Hmx : forall m, In m (lnames_stmt x) -> smem m names = true) by (intros m Hi; apply Hm; apply in_or_app; auto).
    assert (Hmr : forall m, In m (lnames r) -> smem m names = true) by (intros m Hi; apply Hm; apply in_or_app; auto).
    pose proof (Hx inrep st st' S HL Hnx Hmx) as Rx.
    destruct (layS inrep x st) as [[s1 d1]| | | |] eqn:E1, (layS' inrep x st') as [[s2 d2]| | | |] eqn:E2;
      simpl in Rx; try contradiction; try discriminate; simpl; auto.
    destruct Rx as [S1 Ed]. simpl in *. subst d2.
    assert (HL1 : locals_named names (l_labels s1)).
    { eapply (lay_stmt_named enc D allkeys exports fuel names x); eauto. }
    pose proof (IH inrep s1 s2 S1 HL1 Hnr Hmr) as Rr.
    destruct (layl inrep r s1) as [[s3 d3]| | | |], (layl' inrep r s2) as [[s4 d4]| | | |];
      simpl in Rr; try contradiction; try discriminate; simpl; auto.
    destruct Rr as [S3 Ed]. simpl in *. subst d4. split; [exact S3|reflexivity].
Qed.

Lemma iter_sim body : Forall stmt_sim body -> forallb (nodef n) body = true ->
  (forall m, In m (lnames body) -> smem m names = true) ->
  forall k st st', sim n st st' -> locals_named names (l_labels st) ->
  res_sim n (iter_x k (layl true body) st) (iter_x k (layl' true body) st').
Proof.
  intros Hb Hn Hm. induction k as [|k IH]; intros st st' S HL; simpl.
  - split; [exact S|reflexivity].
  - pose proof (lay_list_sim body Hb true st st' S HL Hn Hm) as R1.
    destruct (layl true body st) as [[s1 d1]| | | |] eqn:E1, (layl' true body st') as [[s2 d2]| | | |];
      simpl in R1; try contradiction; try discriminate; simpl; auto.
    destruct R1 as [S1 Ed]. simpl in *. subst d2.
    assert (HL1 : locals_named names (l_labels s1)) by (eapply lay_program_named; eauto).
    pose proof (IH s1 s2 S1 HL1) as R2.
    destruct (iter_x k (layl true body) s1) as [[s3 d3]| | | |], (iter_x k (layl' true body) s2) as [[s4 d4]| | | |];
      simpl in R2; try contradiction; try discriminate; simpl; auto.
    destruct R2 as [S3 Ed]. simpl in *. subst d4. split; [exact S3|reflexivity].
Qed.

Lemma forallb_cut_end (P : stmt -> bool) l : forallb P l = true -> forallb P (cut_end l) = true.
Proof.
  induction l as [|x r IH]; simpl; [auto|]. intros H. apply andb_true_iff in H. destruct H as [H1 H2].
  destruct x; simpl; try (rewrite H1, IH; auto); reflexivity.
Qed.

Lemma lay_stmt_sim s : stmt_sim s.
Proof.
  induction s as [ce body IH | own fid body IH | s Hs] using stmt_ind2; intros inrep st st' S HL Hn Hm.
  - rewrite !lay_stmt_repeat. pose proof S as [Ea [Ef [Es _]]]. rewrite <- Ef, <- Es.
    rewrite (lev_move st st' _ ce S HL).
    destruct (lev enc D' allkeys exports fuel st' _ ce); simpl; auto.
    destruct (lift (get_as_int None true None a)); simpl; auto.
    destruct (65536 <? a0); [reflexivity|].
    simpl in Hm. rewrite lnames_nested in Hm. apply iter_sim; auto.
  - destruct inrep; [reflexivity|]. rewrite !lay_stmt_include.
    pose proof S as [Ea [Ef [Es [El [Et [Eb Ei]]]]]].
    set (s0 := mkL (l_addr st) fid 0 (l_labels st) (l_ddots st) (l_based st) (own || l_inc st)).
    set (s0' := mkL (l_addr st') fid 0 (l_labels st') (l_ddots st') (l_based st') (own || l_inc st')).
    assert (S0 : sim n s0 s0') by (unfold sim, s0, s0'; simpl; rewrite Ei; auto 10).
    simpl in Hn. rewrite nodef_nested in Hn. simpl in Hm. rewrite lnames_nested in Hm.
    pose proof (lay_list_sim (cut_end body) (Forall_cut_end _ _ IH) false s0 s0' S0 HL (forallb_cut_end _ _ Hn)
                  (fun m Hi => Hm m (lnames_cut_end _ _ Hi))) as R.
    destruct (layl false (cut_end body) s0) as [[s1 d1]| | | |], (layl' false (cut_end body) s0') as [[s2 d2]| | | |];
      simpl in R; try contradiction; try discriminate; simpl; auto.
    destruct R as [[Fa [_ [_ [Fl [Ft [Fb _]]]]]] Ed]. simpl in *. subst d2. split; [|reflexivity].
    unfold sim; simpl. auto 10.
  - rewrite !lay_stmt_leaf by exact Hs. apply lay_leaf_sim; assumption.
Qed.

Lemma lay_program_sim l inrep st st' :
  sim n st st' -> locals_named names (l_labels st) -> forallb (nodef n) l = true ->
  (forall m, In m (lnames l) -> smem m names = true) ->
  res_sim n (layl inrep l st) (layl' inrep l st').
Proof. apply lay_list_sim. apply Forall_forall. intros x _. apply lay_stmt_sim. Qed.

End Sim.

(* ---- invariants of the layout: the file of the top level, absence of a key named n -------------- *)
Definition nokey (n : string) (st : lstate) : Prop :=
  forall f, klookup (KGlobal f n) (l_labels st) = None /\ klookup (KGlobal f n) (l_ddots st) = None.

Lemma klookup_cons_ne k k' v T : key_eqb k k' = false -> klookup k ((k', v) :: T) = klookup k T.
Proof. intros H. simpl. rewrite H. reflexivity. Qed.

Lemma gkey_neq f g m n : String.eqb m n = false -> key_eqb (KGlobal f n) (KGlobal g m) = false.
Proof. intros H. simpl. rewrite String.eqb_sym, H. apply andb_false_r. Qed.

Section Inv.
Variable enc : list N -> option (list Z).
Variable alldefs : list defn.
Variable allkeys : list key.
Variable exports : list (string * nat).
Variable fuel : nat.
Variable n : string.
Notation layS := (lay_stmt enc alldefs allkeys exports fuel).
Notation layl := (lay_list enc alldefs allkeys exports fuel).

Definition keeps (s : stmt) : Prop :=
  forall inrep st st' d, layS inrep s st = XOk (st', d) ->
  l_file st' = l_file st /\ (nodef n s = true -> nokey n st -> nokey n st').

Lemma keeps_leaf inrep s st st' d : lay_leaf enc alldefs allkeys exports fuel inrep s st = XOk (st', d) ->
  l_file st' = l_file st /\ (nodef n s = true -> nokey n st -> nokey n st').
Proof.
  unfold Asm.lay_leaf. intros H.
  destruct s; try discriminate;
    try (cbn [sized_size] in H; xinv H; inversion H; subst; split; [reflexivity|intros _ K; exact K]).
  - destruct inrep; [discriminate|]. destruct (_ || _); [discriminate|]. inversion H; subst. split; [reflexivity|].
    cbn [nodef]. intros Hn K f. apply negb_true_iff in Hn. destruct (K f) as [K1 K2]. cbn [l_labels l_ddots]. split; [|exact K2].
    rewrite klookup_cons_ne by (apply gkey_neq; exact Hn). exact K1.
  - destruct inrep; [discriminate|]. destruct (kmem _ _); [discriminate|]. inversion H; subst. split; [reflexivity|].
    intros _ K f. destruct (K f) as [K1 K2]. simpl. split; [exact K1|exact K2].
  - destruct inrep; [discriminate|]. destruct (_ || _); [discriminate|]. inversion H; subst. split; [reflexivity|].
    cbn [nodef]. intros Hn K f. apply negb_true_iff in Hn. destruct (K f) as [K1 K2]. cbn [l_labels l_ddots]. split; [exact K1|].
    rewrite klookup_cons_ne by (apply gkey_neq; exact Hn). exact K2.
  - destruct inrep; [discriminate|]. destruct (l_inc st); [discriminate|]. destruct (l_based st); [discriminate|].
    inversion H; subst. split; [reflexivity|intros _ K; exact K].
  - destruct (l_inc st); [discriminate|]. destruct (l_based st).
    + xinv H. inversion H; subst. split; [reflexivity|intros _ K; exact K].
    + destruct inrep; [discriminate|]. inversion H; subst. split; [reflexivity|intros _ K; exact K].
  - destruct inrep; [discriminate|]. inversion H; subst. split; [reflexivity|intros _ K; exact K].
  - destruct inrep; [discriminate|]. inversion H; subst. split; [reflexivity|intros _ K; exact K].
Qed.

Lemma keeps_list l : Forall keeps l -> forall inrep st st' d, layl inrep l st = XOk (st', d) ->
  l_file st' = l_file st /\ (forallb (nodef n) l = true -> nokey n st -> nokey n st').
Proof.
  induction 1 as [|x r Hx _ IH]; intros inrep st st' d H; simpl in H.
  - inversion H; subst. auto.
  - xinv H. destruct a as [s1 d1]. destruct a0 as [s2 d2]. simpl in *. inversion H; subst.
    destruct (Hx _ _ _ _ Ha) as [F1 K1]. destruct (IH _ _ _ _ Ha0) as [F2 K2]. split; [congruence|].
    intros Hn K. apply andb_true_iff in Hn. destruct Hn. auto.
Qed.

Lemma keeps_stmt s : keeps s.
Proof.
  induction s as [ce body IH | own fid body IH | s Hs] using stmt_ind2; intros inrep st st' d H.
  - rewrite lay_stmt_repeat in H. xinv H. destruct (65536 <? a0); [discriminate|]. clear Ha Ha0. revert st st' d H. generalize (Z.to_nat a0). intros k.
    induction k as [|k IHk]; intros st st' d H; simpl in H.
    + inversion H; subst. auto.
    + destruct (layl true body st) as [[s1 d1]| | | |] eqn:E1; try discriminate. cbn [xbind fst snd] in H.
      destruct (iter_x k (layl true body) s1) as [[s2 d2]| | | |] eqn:E2; try discriminate. cbn [xbind fst snd] in H.
      inversion H; subst. destruct (keeps_list _ IH _ _ _ _ E1) as [F1 K1]. destruct (IHk _ _ _ E2) as [F2 K2].
      split; [congruence|]. intros Hn K. simpl in Hn. rewrite nodef_nested in Hn. apply K2; [exact Hn|]. apply K1; assumption.
  - destruct inrep; [discriminate|]. rewrite lay_stmt_include in H. xinv H. destruct a as [s1 d1]. simpl in H. inversion H; subst.
    split; [reflexivity|]. intros Hn K. simpl in Hn. rewrite nodef_nested in Hn.
    destruct (keeps_list _ (Forall_cut_end _ _ IH) _ _ _ _ Ha) as [_ K1].
    assert (K0 : nokey n (mkL (l_addr st) fid 0 (l_labels st) (l_ddots st) (l_based st) true)) by exact K.
    specialize (K1 (forallb_cut_end _ _ Hn) K0). exact K1.
  - rewrite lay_stmt_leaf in H by exact Hs. eapply keeps_leaf; eauto.
Qed.

Lemma keeps_program l inrep st st' d : layl inrep l st = XOk (st', d) ->
  l_file st' = l_file st /\ (forallb (nodef n) l = true -> nokey n st -> nokey n st').
Proof. apply keeps_list. apply Forall_forall. intros x _. apply keeps_stmt. Qed.
End Inv.

(* ---- the collectors and the moved definition ---------------------------------------------------- *)
Lemma collect_keys_skipA n e l1 : forall r f sc, collect_keys f sc (l1 ++ Assign n e :: r) = collect_keys f sc (l1 ++ r).
Proof. induction l1 as [|x l IH]; intros r f sc; simpl; [reflexivity|]. destruct x; simpl; rewrite ?IH; reflexivity. Qed.

Lemma collect_exports_skipA n e l1 : forall r f, collect_exports f (l1 ++ Assign n e :: r) = collect_exports f (l1 ++ r).
Proof.
  induction l1 as [|x l IH]; intros r f; simpl; [destruct (collect_exports f r); reflexivity|].
  destruct x; simpl; rewrite ?IH; reflexivity.
Qed.

Lemma first_base_skipA n e l1 : forall r f, first_base f (l1 ++ Assign n e :: r) = first_base f (l1 ++ r).
Proof. induction l1 as [|x l IH]; intros r f; [reflexivity|]. cbn [app first_base]. rewrite IH. reflexivity. Qed.

Lemma file_ids_skipA n e l1 r : file_ids (l1 ++ Assign n e :: r) = file_ids (l1 ++ r).
Proof. unfold file_ids. rewrite !flat_map_app. reflexivity. Qed.

Lemma collect_defs_cons x rest f sc : is_end x = false ->
  collect_defs f sc (x :: rest) = defs_stmt f sc x ++ collect_defs f (match x with Label _ => S sc | _ => sc end) rest.
Proof. destruct x; intros H; try discriminate; reflexivity. Qed.

Lemma collect_defs_ins n e l1 : Forall (fun y => is_end y = false) l1 -> forall r f sc,
  exists X Y sc', collect_defs f sc (l1 ++ Assign n e :: r) = X ++ mkDef f n sc' e :: Y /\
                  collect_defs f sc (l1 ++ r) = X ++ Y.
Proof.
  induction 1 as [|x l Hx _ IH]; intros r f sc.
  - exists [], (collect_defs f sc r), sc. split; reflexivity.
  - cbn [app]. rewrite !collect_defs_cons by exact Hx.
    destruct (IH r f (match x with Label _ => S sc | _ => sc end)) as [X [Y [sc' [E1 E2]]]].
    exists (defs_stmt f sc x ++ X), Y, sc'. rewrite E1, E2, !app_assoc. split; reflexivity.
Qed.

Lemma defs_go_eq fid body : forall sc,
  (fix go (sc' : nat) (l : list stmt) {struct l} : list defn :=
     match l with
     | [] => []
     | End :: _ => []
     | Label _ :: r => go (S sc') r
     | x :: r => defs_stmt fid sc' x ++ go sc' r
     end) sc body = collect_defs fid sc body.
Proof. induction body as [|x r IH]; intros sc; [reflexivity|]. destruct x; simpl; rewrite ?IH; reflexivity. Qed.

Definition stmt_nodef_defs (n : string) (s : stmt) : Prop :=
  nodef n s = true -> forall f sc d, In d (defs_stmt f sc s) -> d_name d <> n.

Lemma nodef_defs_list n l : Forall (stmt_nodef_defs n) l -> forallb (nodef n) l = true ->
  forall f sc d, In d (collect_defs f sc l) -> d_name d <> n.
Proof.
  induction 1 as [|x r Hx _ IH]; intros Hn f sc d Hd; [destruct Hd|].
  simpl in Hn. apply andb_true_iff in Hn. destruct Hn as [H1 H2].
  assert (G : In d (defs_stmt f sc x ++ collect_defs f sc r) -> d_name d <> n).
  { intros Hi. apply in_app_or in Hi. destruct Hi; [eapply Hx; eauto|eapply IH; eauto]. }
  destruct x; try (apply G; exact Hd).
  - simpl in Hd. eapply IH; eauto.
  - destruct Hd.
Qed.

Lemma nodef_defs_stmt n s : stmt_nodef_defs n s.
Proof.
  induction s as [ce body IH | own fid body IH | s Hs] using stmt_ind2; intros Hn f sc d Hd.
  - destruct Hd.
  - cbn [defs_stmt] in Hd. rewrite defs_go_eq in Hd. simpl in Hn. rewrite nodef_nested in Hn.
    eapply nodef_defs_list; eauto.
  - destruct s; simpl in *; try contradiction; try discriminate. destruct Hd as [<-|[]]. simpl.
    apply negb_true_iff in Hn. intros E. subst. rewrite String.eqb_refl in Hn. discriminate.
Qed.

Lemma nodef_defs n l : forallb (nodef n) l = true -> forall f sc d, In d (collect_defs f sc l) -> d_name d <> n.
Proof. apply nodef_defs_list. apply Forall_forall. intros x _. apply nodef_defs_stmt. Qed.

Lemma find_def_app f s X Y : find_def f s (X ++ Y) = match find_def f s X with Some d => Some d | None => find_def f s Y end.
Proof. induction X as [|d r IH]; simpl; [reflexivity|]. destruct (_ && _); auto. Qed.

Lemma find_def_none f s X : (forall d, In d X -> d_name d <> s) -> find_def f s X = None.
Proof.
  induction X as [|d r IH]; intros H; simpl; [reflexivity|].
  destruct (String.eqb s (d_name d)) eqn:E.
  - apply String.eqb_eq in E. exfalso. apply (H d); [left; reflexivity|congruence].
  - rewrite andb_false_r. apply IH. intros d' Hd'. apply H. right. exact Hd'.
Qed.

(* D = X ++ (n = e) :: Y looks up like X ++ Y except at (0, n) *)
Lemma find_def_ins n e X Y sc f s : (f, s) <> (0%nat, n) ->
  find_def f s (X ++ mkDef 0 n sc e :: Y) = find_def f s (X ++ Y).
Proof.
  intros H. rewrite !find_def_app. destruct (find_def f s X); [reflexivity|]. simpl.
  destruct (Nat.eqb f 0 && String.eqb s n) eqn:E; [|reflexivity].
  apply andb_true_iff in E. destruct E as [E1 E2]. apply Nat.eqb_eq in E1. apply String.eqb_eq in E2. subst. contradiction.
Qed.

Lemma find_def_at n e X Y sc : (forall d, In d X -> d_name d <> n) ->
  find_def 0 n (X ++ mkDef 0 n sc e :: Y) = Some (mkDef 0 n sc e).
Proof. intros H. rewrite find_def_app, (find_def_none 0 n X H). simpl. rewrite String.eqb_refl. reflexivity. Qed.

(* the exported names do not depend on where the definition stands, when the program itself is not `.extern all` *)
Lemma all_exports_ins n e X Y sc K ex : existsb (Nat.eqb 0) (snd ex) = false ->
  all_exports (X ++ mkDef 0 n sc e :: Y) K ex = all_exports (X ++ Y) K ex.
Proof.
  intros H. unfold all_exports. f_equal. induction (snd ex) as [|f fs IH]; [reflexivity|].
  simpl in H. apply orb_false_iff in H. destruct H as [H1 H2]. simpl. rewrite (IH H2). f_equal. f_equal.
  rewrite !flat_map_app. f_equal. cbn [flat_map d_file d_name].
  replace (Nat.eqb f 0) with false by (rewrite Nat.eqb_sym; symmetry; exact H1). reflexivity.
Qed.

(* ---- one element inserted at two different places of a list ------------------------------------ *)
Lemma xmapM_app {A B} (f : A -> xres B) a : forall b,
  xmapM f (a ++ b) = xbind (xmapM f a) (fun x => xbind (xmapM f b) (fun y => XOk (x ++ y))).
Proof.
  induction a as [|h t IH]; intros b; simpl.
  - destruct (xmapM f b); reflexivity.
  - destruct (f h); simpl; auto. rewrite IH. destruct (xmapM f t); simpl; auto. destruct (xmapM f b); reflexivity.
Qed.

Lemma xmapM_ext_in {A B} (f g : A -> xres B) l : (forall x, In x l -> f x = g x) -> xmapM f l = xmapM g l.
Proof.
  induction l as [|h t IH]; intros H; simpl; [reflexivity|].
  rewrite (H h) by (left; reflexivity). rewrite IH by (intros; apply H; right; assumption). reflexivity.
Qed.

Lemma xmapM_len {A B} (f : A -> xres B) l r : xmapM f l = XOk r -> length r = length l.
Proof. intros H. apply (xmapM_nth f l r H). Qed.

Lemma xmapM_ins {A B} (f g : A -> xres B) X Y X' Y' a a' :
  X ++ Y = X' ++ Y' -> (forall x, In x (X ++ Y) -> f x = g x) -> f a = g a' ->
  match xmapM f (X ++ a :: Y), xmapM g (X' ++ a' :: Y') with
  | XOk r, XOk r' => exists rx ry rx' ry' ra, r = rx ++ ra :: ry /\ r' = rx' ++ ra :: ry' /\ rx ++ ry = rx' ++ ry' /\
                       f a = XOk ra /\ length rx = length X /\ length rx' = length X' /\ xmapM f (X ++ Y) = XOk (rx ++ ry)
  | XOk _, _ | _, XOk _ => False
  | _, _ => True
  end.
Proof.
  intros E Hfg Ha.
  assert (Q : xmapM f (X ++ Y) = xmapM g (X' ++ Y')) by (rewrite <- E; apply xmapM_ext_in; exact Hfg).
  rewrite !xmapM_app in Q. rewrite !xmapM_app. cbn [xmapM]. rewrite <- Ha.
  destruct (xmapM f X) as [rx| | | |] eqn:EX, (xmapM f Y) as [ry| | | |] eqn:EY,
           (xmapM g X') as [rx'| | | |] eqn:EX', (xmapM g Y') as [ry'| | | |] eqn:EY', (f a) as [ra| | | |];
    simpl in *; try discriminate; auto.
  inversion Q. exists rx, ry, rx', ry', ra. repeat split; auto; eapply xmapM_len; eauto.
Qed.

(* symbol tables that look up alike evaluate alike *)
Lemma eval_sym_ext enc sym sym' dot x : (forall s, sym s = sym' s) -> Arith.eval enc sym dot x = Arith.eval enc sym' dot x.
Proof. intros H. induction x; simpl; rewrite ?H, ?IHx, ?IHx1, ?IHx2; reflexivity. Qed.

Lemma emit_item_tab_ext enc exports T T' it : (forall k, klookup k T = klookup k T') ->
  emit_item enc exports T it = emit_item enc exports T' it.
Proof.
  intros H. unfold emit_item. apply emit_leaf_ext. intros x. unfold fev. f_equal. apply eval_sym_ext.
  intros s. unfold sym_of, own_of. destruct (slookup s exports) as [g|]; destruct (snd (i_scope it)); rewrite !H; reflexivity.
Qed.

Lemma klookup_ins k kn v A B : klookup kn (A ++ B) = None ->
  klookup k (A ++ (kn, v) :: B) = if key_eqb k kn then Some v else klookup k (A ++ B).
Proof.
  intros H. rewrite !klookup_app_cases. rewrite klookup_app_cases in H.
  destruct (key_eqb k kn) eqn:E.
  - apply key_eqb_eq in E. subst k. destruct (klookup kn A); [discriminate|]. simpl. rewrite key_eqb_refl. reflexivity.
  - destruct (klookup k A); [reflexivity|]. simpl. rewrite E. reflexivity.
Qed.

Definition same_outcome (r r' : xres (Z * list Z * symtab)) : Prop :=
  match r, r' with
  | XOk (b, img, T), XOk (b', img', T') => b = b' /\ img = img' /\ forall k, klookup k T = klookup k T'
  | XOk _, _ | _, XOk _ => False
  | _, _ => True
  end.

Lemma tab_eq_consL n v T T' : tab_eq n T T' -> tab_eq n ((KGlobal 0 n, v) :: T) T'.
Proof.
  intros H k Hk. simpl. destruct (key_eqb k (KGlobal 0 n)) eqn:E; [apply key_eqb_eq in E; contradiction|apply H; exact Hk].
Qed.
Lemma tab_eq_consR n v T T' : tab_eq n T T' -> tab_eq n T ((KGlobal 0 n, v) :: T').
Proof.
  intros H k Hk. simpl. destruct (key_eqb k (KGlobal 0 n)) eqn:E; [apply key_eqb_eq in E; contradiction|apply H; exact Hk].
Qed.

Lemma sim_refl n st : sim n st st.
Proof. unfold sim. repeat split; auto; apply tab_eq_refl. Qed.

Section Move.
Variable enc : list N -> option (list Z).
Variable allkeys : list key.
Variable exports : list (string * nat).
Variable fuel : nat.
Variable n : string.
Variable e : expr.
Variable names : list string.
Variable D D' : list defn.
Hypothesis HK : keys_named names allkeys.
Hypothesis He : efree names e = true.
Hypothesis Hd : nodot e = true.
Hypothesis HD : forall f s, (f, s) <> (0%nat, n) -> find_def f s D = find_def f s D'.
Hypothesis HDn : exists sc sc', find_def 0 n D = Some (mkDef 0 n sc e) /\ find_def 0 n D' = Some (mkDef 0 n sc' e).
Variable l1 l2 l3 : list stmt.
Hypothesis Hn1 : forallb (nodef n) l1 = true.
Hypothesis Hn2 : forallb (nodef n) l2 = true.
Hypothesis Hn3 : forallb (nodef n) l3 = true.
Hypothesis Hm1 : forall m, In m (lnames l1) -> smem m names = true.
Hypothesis Hm2 : forall m, In m (lnames l2) -> smem m names = true.
Hypothesis Hm3 : forall m, In m (lnames l3) -> smem m names = true.

Notation layl := (lay_list enc D allkeys exports fuel).
Notation layl' := (lay_list enc D' allkeys exports fuel).
Notation psim := (lay_program_sim enc allkeys exports fuel n e names D D' HK He Hd HD HDn).

Definition a_state (st : lstate) : lstate :=
  mkL (l_addr st) 0 (l_scope st) (l_labels st) ((KGlobal 0 n, l_addr st) :: l_ddots st) (l_based st) (l_inc st).
Definition a_item (st : lstate) : item := mkItem (l_addr st) (0%nat, Some (l_scope st)) (Assign n e) 0.

Lemma lay_assign A st : l_file st = 0%nat -> nokey n st ->
  lay_stmt enc A allkeys exports fuel false (Assign n e) st = XOk (a_state st, [a_item st]).
Proof.
  intros F K. cbn [Asm.lay_stmt]. unfold Asm.lay_leaf. cbv zeta. rewrite F, !kmem_klookup.
  destruct (K 0%nat) as [-> ->]. reflexivity.
Qed.

Lemma lay_move st0 : nokey n st0 -> l_file st0 = 0%nat -> locals_named names (l_labels st0) ->
  match layl false (l1 ++ Assign n e :: l2 ++ l3) st0, layl' false (l1 ++ l2 ++ Assign n e :: l3) st0 with
  | XOk (s, d), XOk (s', d') =>
      sim n s s' /\ locals_named names (l_labels s) /\
      exists d1 d2 d3 a a', d = d1 ++ a :: d2 ++ d3 /\ d' = d1 ++ d2 ++ a' :: d3 /\
                            i_stmt a = Assign n e /\ i_stmt a' = Assign n e /\ i_size a = 0 /\ i_size a' = 0
  | XOk _, _ | _, XOk _ => False
  | _, _ => True
  end.
Proof.
  intros K0 F0 HL0. rewrite !lay_list_app.
  pose proof (psim l1 false st0 st0 (sim_refl n st0) HL0 Hn1 Hm1) as R1.
  destruct (layl false l1 st0) as [[s1 d1]| | | |] eqn:E1, (layl' false l1 st0) as [[s1' d1']| | | |] eqn:E1';
    simpl in R1; try contradiction; try discriminate; cbn [xbind fst snd]; auto.
  cbn [Asm.lay_list].
  destruct R1 as [S1 Ed]. simpl in S1, Ed. subst d1'.
  destruct (keeps_program enc D allkeys exports fuel n _ _ _ _ _ E1) as [F1 K1].
  destruct (keeps_program enc D' allkeys exports fuel n _ _ _ _ _ E1') as [F1' K1'].
  assert (HL1 : locals_named names (l_labels s1)) by (eapply lay_program_named; eauto).
  rewrite (lay_assign D s1) by (try congruence; auto). cbn [xbind fst snd].
  rewrite !lay_list_app.
  assert (S1A : sim n (a_state s1) s1').
  { destruct S1 as [Ea [Ef [Es [El [Et [Eb Ei]]]]]]. unfold sim, a_state; simpl. repeat split; auto; try congruence.
    apply tab_eq_consL. exact Et. }
  pose proof (psim l2 false (a_state s1) s1' S1A HL1 Hn2 Hm2) as R2.
  destruct (layl false l2 (a_state s1)) as [[s2 d2]| | | |] eqn:E2, (layl' false l2 s1') as [[s2' d2']| | | |] eqn:E2';
    simpl in R2; try contradiction; try discriminate; cbn [xbind fst snd]; auto.
  cbn [Asm.lay_list].
  destruct R2 as [S2 Ed]. simpl in S2, Ed. subst d2'.
  destruct (keeps_program enc D' allkeys exports fuel n _ _ _ _ _ E2') as [F2' K2'].
  assert (HL2 : locals_named names (l_labels s2)) by (eapply lay_program_named; [exact E2|exact Hm2|exact HL1]).
  rewrite (lay_assign D' s2') by (try congruence; auto). cbn [xbind fst snd].
  assert (S2A : sim n s2 (a_state s2')).
  { destruct S2 as [Ea [Ef [Es [El [Et [Eb Ei]]]]]]. unfold sim, a_state; simpl. repeat split; auto; try congruence.
    apply tab_eq_consR. exact Et. }
  pose proof (psim l3 false s2 (a_state s2') S2A HL2 Hn3 Hm3) as R3.
  destruct (layl false l3 s2) as [[s3 d3]| | | |] eqn:E3, (layl' false l3 (a_state s2')) as [[s3' d3']| | | |] eqn:E3';
    simpl in R3; try contradiction; try discriminate; cbn [xbind fst snd]; auto.
  destruct R3 as [S3 Ed]. simpl in S3, Ed. subst d3'.
  split; [exact S3|]. split; [eapply lay_program_named; [exact E3|exact Hm3|exact HL2]|].
  exists d1, d2, d3, (a_item s1), (a_item s2'). repeat split; reflexivity.
Qed.
End Move.

(* ---- the theorem --------------------------------------------------------------------------------- *)
Lemma combine_app' {A B} (l1 l2 : list A) (r1 r2 : list B) : length l1 = length r1 ->
  combine (l1 ++ l2) (r1 ++ r2) = combine l1 r1 ++ combine l2 r2.
Proof. revert r1. induction l1 as [|a l IH]; intros [|b r] H; simpl in *; try discriminate; [reflexivity|]. rewrite IH by lia. reflexivity. Qed.

Lemma guard_ins X Y a (cx cy : list (list Z)) : length cx = length X -> i_size a = 0 ->
  forallb size_ok (combine (X ++ a :: Y) (cx ++ [] :: cy)) = forallb size_ok (combine (X ++ Y) (cx ++ cy)).
Proof.
  intros L Z0. rewrite !combine_app' by (symmetry; exact L). rewrite !forallb_app. simpl.
  unfold size_ok at 2. simpl. rewrite Z0. reflexivity.
Qed.

Lemma concat_ins (cx cy : list (list Z)) : concat (cx ++ [] :: cy) = concat (cx ++ cy).
Proof. rewrite !concat_app. reflexivity. Qed.

Lemma vals_nokey {A} (F : A -> xres (key * Z)) (nm : A -> string) n l : forall r,
  xmapM F l = XOk r -> (forall d kv, F d = XOk kv -> exists g, fst kv = KGlobal g (nm d)) ->
  (forall d, In d l -> nm d <> n) -> forall g, klookup (KGlobal g n) r = None.
Proof.
  induction l as [|d t IH]; intros r H HF Hn g; simpl in H.
  - inversion H; reflexivity.
  - xinv H. inversion H; subst. destruct a as [k v]. destruct (HF _ _ Ha) as [g' E]. simpl in E. subst k.
    simpl. assert (N : String.eqb n (nm d) = false).
    { apply String.eqb_neq. intros E. apply (Hn d); [left; reflexivity|congruence]. }
    rewrite N, andb_false_r. eapply IH; eauto. intros d' Hd'. apply Hn. right. exact Hd'.
Qed.

Theorem move_def_cut enc n e l1 l2 l3 :
  Forall (fun y => is_end y = false) l1 -> Forall (fun y => is_end y = false) l2 ->
  forallb (nodef n) (l1 ++ l2 ++ l3) = true ->
  efree (lnames (l1 ++ l2 ++ l3)) e = true -> nodot e = true ->
  existsb (Nat.eqb 0) (snd (collect_exports 0 (l1 ++ l2 ++ l3))) = false ->
  same_outcome (asm_of (asm_cut enc (l1 ++ Assign n e :: l2 ++ l3)))
               (asm_of (asm_cut enc (l1 ++ l2 ++ Assign n e :: l3))).
Proof.
  intros E1 E2 Hn He Hd Hx. set (q0 := l1 ++ l2 ++ l3) in *. set (names := lnames q0) in *.
  destruct (collect_defs_ins n e l1 E1 (l2 ++ l3) 0%nat 0%nat) as [X [Y [sc [ED E0]]]].
  assert (E12 : Forall (fun y => is_end y = false) (l1 ++ l2)) by (apply Forall_app; auto).
  destruct (collect_defs_ins n e (l1 ++ l2) E12 l3 0%nat 0%nat) as [X' [Y' [sc' [ED' E0']]]].
  rewrite <- !app_assoc in ED', E0'. fold q0 in E0, E0'.
  assert (EXY : X ++ Y = X' ++ Y') by congruence.
  assert (NN : forall d, In d (X ++ Y) -> d_name d <> n) by (rewrite <- E0; apply nodef_defs; exact Hn).
  assert (KL : collect_keys 0 0 (l1 ++ Assign n e :: l2 ++ l3) = collect_keys 0 0 q0) by apply collect_keys_skipA.
  assert (KR : collect_keys 0 0 (l1 ++ l2 ++ Assign n e :: l3) = collect_keys 0 0 q0)
    by (rewrite (app_assoc l1 l2), collect_keys_skipA, <- app_assoc; reflexivity).
  assert (XL : collect_exports 0 (l1 ++ Assign n e :: l2 ++ l3) = collect_exports 0 q0) by apply collect_exports_skipA.
  assert (XR : collect_exports 0 (l1 ++ l2 ++ Assign n e :: l3) = collect_exports 0 q0)
    by (rewrite (app_assoc l1 l2), collect_exports_skipA, <- app_assoc; reflexivity).
  assert (BL : first_base 0 (l1 ++ Assign n e :: l2 ++ l3) = first_base 0 q0) by apply first_base_skipA.
  assert (BR : first_base 0 (l1 ++ l2 ++ Assign n e :: l3) = first_base 0 q0)
    by (rewrite (app_assoc l1 l2), first_base_skipA, <- app_assoc; reflexivity).
  assert (IL : file_ids (l1 ++ Assign n e :: l2 ++ l3) = file_ids q0) by apply file_ids_skipA.
  assert (IR : file_ids (l1 ++ l2 ++ Assign n e :: l3) = file_ids q0)
    by (rewrite (app_assoc l1 l2), file_ids_skipA, <- app_assoc; reflexivity).
  unfold asm_cut, find_base. rewrite ED, ED', KL, KR, XL, XR, BL, BR, IL, IR.
  rewrite !all_exports_ins by exact Hx. rewrite <- EXY.
  assert (LEN : length (X' ++ mkDef 0 n sc' e :: Y') = length (X ++ mkDef 0 n sc e :: Y)).
  { apply (f_equal (@length defn)) in EXY. rewrite !app_length in *. simpl. lia. }
  rewrite LEN.
  set (Dl := X ++ mkDef 0 n sc e :: Y). set (Dr := X' ++ mkDef 0 n sc' e :: Y').
  set (K := collect_keys 0 0 q0). set (XP := all_exports (X ++ Y) K (collect_exports 0 q0)). set (fuel := S (length Dl)).
  assert (HK : keys_named names K) by apply collect_keys_named.
  assert (HD : forall f s, (f, s) <> (0%nat, n) -> find_def f s Dl = find_def f s Dr).
  { intros f s Hfs. unfold Dl, Dr. rewrite !find_def_ins by exact Hfs. rewrite EXY. reflexivity. }
  assert (HDn : exists a b, find_def 0 n Dl = Some (mkDef 0 n a e) /\ find_def 0 n Dr = Some (mkDef 0 n b e)).
  { exists sc, sc'. split; apply find_def_at; intros d Hi; apply NN; [|rewrite EXY]; apply in_or_app; left; exact Hi. }
  destruct (negb (nodup_nat (0%nat :: file_ids q0))); [exact I|].
  destruct (negb (nodup_str (map fst XP))); [exact I|].
  assert (XM := xeval_move enc K XP n e names Dl Dr HK He Hd HD HDn).
  assert (BASE : (match first_base 0 q0 with
                  | Some (f0, e0) => xbind (xeval enc Dl K XP [] [] fuel [] (f0, None) None e0) (fun v => lift (get_as_int (Some 16) false None v))
                  | None => XOk default_base end) =
                 (match first_base 0 q0 with
                  | Some (f0, e0) => xbind (xeval enc Dr K XP [] [] fuel [] (f0, None) None e0) (fun v => lift (get_as_int (Some 16) false None v))
                  | None => XOk default_base end)).
  { destruct (first_base 0 q0) as [[f0 e0]|]; [|reflexivity]. rewrite (XM [] [] [] (locals_named_nil names) (tab_eq_refl n [])). reflexivity. }
  rewrite BASE. clear BASE.
  destruct (match first_base 0 q0 with Some _ => _ | None => _ end) as [base| | | |]; try exact I. cbn [xbind].
  assert (Hn' := Hn). unfold q0 in Hn'. rewrite !forallb_app in Hn'. apply andb_true_iff in Hn'. destruct Hn' as [Hn1 Hn23].
  apply andb_true_iff in Hn23. destruct Hn23 as [Hn2 Hn3].
  assert (Hm : forall l, incl l q0 -> forall m, In m (lnames l) -> smem m names = true).
  { intros l Hl m Hi. apply smem_In. unfold names, lnames in *. apply in_flat_map in Hi. destruct Hi as [x [Hx1 Hx2]].
    apply in_flat_map. exists x. split; [apply Hl; exact Hx1|exact Hx2]. }
  set (st0 := mkL base 0 0 [] [] false false).
  pose proof (lay_move enc K XP fuel n e names Dl Dr HK He Hd HD HDn l1 l2 l3 Hn1 Hn2 Hn3
                (Hm l1 ltac:(unfold q0; intros x Hi; apply in_or_app; auto))
                (Hm l2 ltac:(unfold q0; intros x Hi; apply in_or_app; right; apply in_or_app; auto))
                (Hm l3 ltac:(unfold q0; intros x Hi; apply in_or_app; right; apply in_or_app; auto))
                st0 ltac:(intros f; split; reflexivity) eq_refl (locals_named_nil names)) as LM.
  destruct (lay_list enc Dl K XP fuel false (l1 ++ Assign n e :: l2 ++ l3) st0) as [[s d]| | | |],
           (lay_list enc Dr K XP fuel false (l1 ++ l2 ++ Assign n e :: l3) st0) as [[s' d']| | | |];
    try contradiction; try exact I.
  destruct LM as [S [HL [d1 [d2 [d3 [a [a' [-> [-> [Sa [Sa' [Za Za']]]]]]]]]]]]. cbn [xbind fst snd].
  pose proof S as [_ [_ [_ [El [Et _]]]]]. rewrite <- El.
  (* the definition values *)
  unfold def_values.
  set (F := fun A T (dd : defn) =>
         xbind (xeval enc A K XP (l_labels s) T fuel [(d_file dd, d_name dd)] (d_file dd, Some (d_scope dd))
                      (klookup (KGlobal (d_file dd) (d_name dd)) T) (d_expr dd))
               (fun v => XOk (KGlobal (d_file dd) (d_name dd), v))).
  change (xmapM _ Dl) with (xmapM (F Dl (l_ddots s)) Dl). change (xmapM _ Dr) with (xmapM (F Dr (l_ddots s')) Dr).
  assert (FX : forall x, In x (X ++ Y) -> F Dl (l_ddots s) x = F Dr (l_ddots s') x).
  { intros x Hi. unfold F. rewrite (XM (l_labels s) _ _ HL Et).
    rewrite (Et (KGlobal (d_file x) (d_name x))); [reflexivity|]. intros E. injection E as _ E. apply (NN x Hi). exact E. }
  assert (FA : F Dl (l_ddots s) (mkDef 0 n sc e) = F Dr (l_ddots s') (mkDef 0 n sc' e)).
  { unfold F. cbn [d_file d_name d_scope d_expr]. rewrite (XM (l_labels s) _ _ HL Et).
    rewrite (xeval_scope enc Dr K XP names HK (l_labels s) (l_ddots s') fuel _ 0%nat (Some sc) (Some sc') _ e HL He).
    rewrite (xeval_nodot enc Dr K XP (l_labels s) (l_ddots s') fuel _ _ _ (klookup (KGlobal 0 n) (l_ddots s')) e Hd). reflexivity. }
  pose proof (xmapM_ins (F Dl (l_ddots s)) (F Dr (l_ddots s')) X Y X' Y' _ _ EXY FX FA) as DV.
  fold Dl Dr in DV.
  destruct (xmapM (F Dl (l_ddots s)) Dl) as [dv| | | |], (xmapM (F Dr (l_ddots s')) Dr) as [dv'| | | |];
    try contradiction; try exact I.
  destruct DV as [rx [ry [rx' [ry' [ra [-> [-> [Er [Ea [_ [_ Exy]]]]]]]]]]]. cbn [xbind].
  unfold F in Ea. cbn [d_file d_name] in Ea. xinv Ea. inversion Ea; subst ra. clear Ea.
  assert (NK : forall g, klookup (KGlobal g n) (rx ++ ry) = None).
  { eapply (vals_nokey (F Dl (l_ddots s)) d_name n (X ++ Y)); [exact Exy| |exact NN].
    intros dd kv Hkv. unfold F in Hkv. xinv Hkv. inversion Hkv; subst. eexists; reflexivity. }
  assert (LK : forall k, klookup k (l_labels s ++ rx ++ (KGlobal 0 n, a0) :: ry) = klookup k (l_labels s ++ rx' ++ (KGlobal 0 n, a0) :: ry')).
  { intros k. rewrite !klookup_app_cases with (T1 := l_labels s). destruct (klookup k (l_labels s)); [reflexivity|].
    rewrite !klookup_ins; [rewrite Er; reflexivity|rewrite <- Er; apply NK|apply NK]. }
  set (T := l_labels s ++ rx ++ (KGlobal 0 n, a0) :: ry) in *. set (T' := l_labels s ++ rx' ++ (KGlobal 0 n, a0) :: ry') in *.
  (* emission *)
  assert (GX : forall x, In x (d1 ++ d2 ++ d3) -> emit_item enc XP T x = emit_item enc XP T' x)
    by (intros; apply emit_item_tab_ext; exact LK).
  assert (GA : emit_item enc XP T a = emit_item enc XP T' a').
  { unfold emit_item. rewrite Sa, Sa'. reflexivity. }
  rewrite (app_assoc d1 d2 (a' :: d3)).
  pose proof (xmapM_ins (emit_item enc XP T) (emit_item enc XP T') d1 (d2 ++ d3) (d1 ++ d2) d3 a a'
                (app_assoc d1 d2 d3) GX GA) as CH.
  destruct (xmapM (emit_item enc XP T) (d1 ++ a :: d2 ++ d3)) as [ch| | | |],
           (xmapM (emit_item enc XP T') ((d1 ++ d2) ++ a' :: d3)) as [ch'| | | |];
    try contradiction; try exact I.
  destruct CH as [cx [cy [cx' [cy' [ca [-> [-> [Ec [Eca [Lx [Lx' _]]]]]]]]]]]. cbn [xbind].
  unfold emit_item in Eca. rewrite Sa in Eca. cbn [emit_leaf] in Eca. inversion Eca; subst ca.
  rewrite (guard_ins d1 (d2 ++ d3) a cx cy Lx Za), (guard_ins (d1 ++ d2) d3 a' cx' cy' Lx' Za').
  rewrite <- (app_assoc d1 d2 d3), <- Ec.
  destruct (forallb size_ok (combine (d1 ++ d2 ++ d3) (cx ++ cy))); [|exact I].
  simpl. rewrite !concat_ins, Ec. repeat split; auto.
Qed.

(* ---- on whole programs (a file ends at its End; the definition moves within the part before it) -- *)
Lemma cut_end_noend_app l : Forall (fun y => is_end y = false) l -> forall r, cut_end (l ++ r) = l ++ cut_end r.
Proof. induction 1 as [|x t Hx _ IH]; intros r; [reflexivity|]. cbn [app]. rewrite cut_end_cons by exact Hx. rewrite IH. reflexivity. Qed.

Lemma collect_exports_cut f r : collect_exports f (cut_end r) = collect_exports f r.
Proof. induction r as [|x t IH]; [reflexivity|]. destruct x; simpl; rewrite ?IH; reflexivity. Qed.

Lemma collect_exports_cut_app f l : Forall (fun y => is_end y = false) l -> forall r,
  collect_exports f (l ++ cut_end r) = collect_exports f (l ++ r).
Proof.
  induction 1 as [|x t Hx _ IH]; intros r; [apply collect_exports_cut|].
  destruct x; try discriminate; simpl; rewrite ?IH; reflexivity.
Qed.

Lemma efree_incl names names' x : (forall s, smem s names' = true -> smem s names = true) ->
  efree names x = true -> efree names' x = true.
Proof.
  intros H. induction x; simpl; auto.
  - intros Hs. apply negb_true_iff in Hs. apply negb_true_iff. destruct (smem s names') eqn:E; [|reflexivity].
    apply H in E. congruence.
  - intros Hb. apply andb_true_iff in Hb. destruct Hb. apply andb_true_iff. auto.
Qed.

Theorem move_def enc n e l1 l2 l3 :
  Forall (fun y => is_end y = false) l1 -> Forall (fun y => is_end y = false) l2 ->
  forallb (nodef n) (l1 ++ l2 ++ l3) = true ->
  efree (lnames (l1 ++ l2 ++ l3)) e = true -> nodot e = true ->
  existsb (Nat.eqb 0) (snd (collect_exports 0 (l1 ++ l2 ++ l3))) = false ->
  same_outcome (assemble enc (l1 ++ Assign n e :: l2 ++ l3)) (assemble enc (l1 ++ l2 ++ Assign n e :: l3)).
Proof.
  intros E1 E2 Hn He Hd Hx. rewrite !assemble_cut.
  assert (E12 : Forall (fun y => is_end y = false) (l1 ++ l2)) by (apply Forall_app; auto).
  replace (cut_end (l1 ++ Assign n e :: l2 ++ l3)) with (l1 ++ Assign n e :: l2 ++ cut_end l3).
  2:{ rewrite (cut_end_noend_app l1 E1). cbn [cut_end]. rewrite (cut_end_noend_app l2 E2). reflexivity. }
  replace (cut_end (l1 ++ l2 ++ Assign n e :: l3)) with (l1 ++ l2 ++ Assign n e :: cut_end l3).
  2:{ rewrite (cut_end_noend_app l1 E1), (cut_end_noend_app l2 E2). reflexivity. }
  apply move_def_cut; auto.
  - rewrite !forallb_app in *. apply andb_true_iff in Hn. destruct Hn as [H1 H2]. apply andb_true_iff in H2. destruct H2 as [H2 H3].
    rewrite H1, H2, (forallb_cut_end _ _ H3). reflexivity.
  - eapply efree_incl; [|exact He]. intros s Hs. apply smem_In in Hs. apply smem_In.
    unfold lnames in *. rewrite !flat_map_app in *. apply in_app_or in Hs. apply in_or_app. destruct Hs as [Hs|Hs]; [auto|right].
    apply in_app_or in Hs. apply in_or_app. destruct Hs as [Hs|Hs]; [auto|right]. apply lnames_cut_end. exact Hs.
  - rewrite (app_assoc l1 l2), (collect_exports_cut_app 0 (l1 ++ l2) E12), <- app_assoc. exact Hx.
Qed.
