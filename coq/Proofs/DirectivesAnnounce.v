(* announced size = emitted length: whenever a data directive announces a size (SizedDeferred: .byte .word
   .dword and their aliases, implicit word lists) and its bytes come out without an error diagnostic, the
   number of bytes is the announced size.  Exported for C02: [announce_eq_emit]. *)
From Coq Require Import String List ZArith ZifyBool Lia Bool.
From Verif Require Import Base.Res Base.Bytes Gen.GenGetAsInt Gen.GenMeta Model.Directives Spec.DataSpec
  Proofs.DirectivesGai Proofs.DirectivesData.
Import ListNotations.
Open Scope string_scope.
Open Scope list_scope.
Open Scope Z_scope.

Lemma errors_app a b : errors (a ++ b) = errors a ++ errors b.
Proof. unfold errors. apply filter_app. Qed.

Lemma after_out ds0 pre o ds bs :
  after ds0 pre o = Out ds bs -> exists ds' bs', o = Out ds' bs' /\ ds = ds0 ++ ds' /\ bs = pre ++ bs'.
Proof. destruct o; simpl; intros H; inversion H; eauto. Qed.

(* a packer that never reports: its result is Ok or Crash *)
Definition silent {A} (r : res A) : Prop := match r with Err _ => False | _ => True end.

Lemma mapM_silent {A B} (f : A -> res B) l : (forall x, silent (f x)) -> silent (mapM f l).
Proof.
  intros H. induction l as [|x xs IH]; simpl; [exact I|].
  specialize (H x). destruct (f x); simpl in *; auto. destruct (mapM f xs); simpl in *; auto.
Qed.

Lemma pack_all_silent pack xs : (forall x, silent (pack x)) -> silent (pack_all pack xs).
Proof.
  intros H. unfold pack_all, rmap. pose proof (mapM_silent pack xs H) as S.
  destruct (mapM pack xs); simpl in *; auto.
Qed.

Lemma pack_B_silent x : silent (pack_B x).
Proof. unfold pack_B. destruct ((0 <=? x) && (x <? 256)); exact I. Qed.
Lemma pack_H_silent x : silent (pack_H x).
Proof. unfold pack_H. destruct ((0 <=? x) && (x <? 65536)); exact I. Qed.
Lemma encode_i32_silent x : silent (encode_i32 x).
Proof.
  unfold encode_i32. pose proof (pack_H_silent (Z.shiftr x 16)) as A. pose proof (pack_H_silent (Z.land x 65535)) as B.
  destruct (pack_H (Z.shiftr x 16)); simpl in *; auto. destruct (pack_H (Z.land x 65535)); simpl in *; auto.
Qed.

Lemma of_res_silent_out r ds bs : silent r -> of_res r = Out ds bs -> r = Ok bs /\ ds = [].
Proof. destruct r; simpl; intros S H; inversion H; subst; auto; contradiction. Qed.

Lemma odd_prefix_cases addr :
  (addr mod 2 = 1 /\ odd_prefix addr = Ok ([(E, "odd-address")], [0])) \/
  (addr mod 2 = 0 /\ odd_prefix addr = Ok ([], [])).
Proof.
  assert (addr mod 2 = 0 \/ addr mod 2 = 1) as [H|H] by lia.
  - right. split; [assumption|apply odd_prefix_even; assumption].
  - left. split; [assumption|apply odd_prefix_odd; assumption].
Qed.

(* the body of a word-like directive: k bytes per value after the (possibly empty) prefix *)
Lemma wordlike_length addr pack k vs body ds bs :
  (forall x, silent (pack x)) -> (forall x b, pack x = Ok b -> length b = k) ->
  (forall ds0 pre, odd_prefix addr = Ok (ds0, pre) -> body = after ds0 pre (of_res (pack_all pack vs))) ->
  body = Out ds bs -> errors ds = [] -> length bs = (k * length vs)%nat.
Proof.
  intros Hs Hk Hb H He.
  destruct (odd_prefix_cases addr) as [[_ Hp]|[_ Hp]]; rewrite (Hb _ _ Hp) in H;
    apply after_out in H; destruct H as [ds' [bs' [Ho [-> ->]]]].
  - discriminate He.
  - apply of_res_silent_out in Ho; [|apply pack_all_silent; assumption]. destruct Ho as [Ho _].
    simpl. eapply pack_all_length; eauto.
Qed.

Definition width_bytes (w : width) : Z := match w with W8 => 1 | W16 => 2 | W32 => 4 end.

Lemma py_or_S n : py_or (Z.of_nat (S n)) 1 = Z.of_nat (S n).
Proof. unfold py_or. destruct (Z.of_nat (S n) =? 0) eqn:Z0; lia. Qed.

Lemma vbody_length w addr vs ds bs :
  vbody w addr vs = Out ds bs -> errors ds = [] ->
  Z.of_nat (length bs) = width_bytes w * py_or (Z.of_nat (length vs)) 1.
Proof.
  intros H He. destruct w; unfold vbody in H.
  - destruct vs as [|v vs'].
    + inversion H; subst. reflexivity.
    + rewrite byte_body_ne in H by discriminate.
      apply of_res_silent_out in H; [|apply pack_all_silent; apply pack_B_silent]. destruct H as [H _].
      apply (pack_all_length pack_B 1) in H; [|apply pack_B_len]. rewrite H.
      cbn [length]. rewrite py_or_S. unfold width_bytes. lia.
  - destruct vs as [|v vs'].
    + unfold word_body in H. destruct (odd_prefix_cases addr) as [[_ Hp]|[_ Hp]]; rewrite Hp in H; inversion H; subst.
      * discriminate He.
      * reflexivity.
    + assert (L : length bs = (2 * length (v :: vs'))%nat).
      { eapply (wordlike_length addr pack_H 2 (v :: vs') (word_body addr (v :: vs'))); eauto using pack_H_silent, pack_H_len.
        intros ds0 pre Hp. apply word_body_ne; [discriminate|assumption]. }
      rewrite L. cbn [length]. rewrite py_or_S. unfold width_bytes. lia.
  - destruct vs as [|v vs'].
    + unfold dword_body in H. destruct (odd_prefix_cases addr) as [[_ Hp]|[_ Hp]]; rewrite Hp in H; inversion H; subst.
      * discriminate He.
      * reflexivity.
    + assert (L : length bs = (4 * length (v :: vs'))%nat).
      { eapply (wordlike_length addr encode_i32 4 (v :: vs') (dword_body addr (v :: vs'))); eauto using encode_i32_silent, encode_i32_len.
        intros ds0 pre Hp. apply dword_body_ne; [discriminate|assumption]. }
      rewrite L. cbn [length]. rewrite py_or_S. unfold width_bytes. lia.
Qed.

(* .byte / .word / .dword with any operands (also '#' ones, which are errors and therefore excluded) *)
Lemma announce_value enc w ops addr ds bs :
  emit enc (DMeta (vname w) ops) addr = Out ds bs -> errors ds = [] ->
  Z.of_nat (length bs) = width_bytes w * py_or (Z.of_nat (length ops)) 1.
Proof.
  rewrite emit_value. intros H He.
  apply after_out in H. destruct H as [ds' [bs' [Ho [-> ->]]]].
  rewrite errors_app in He. apply app_eq_nil in He. destruct He as [_ He].
  unfold cooked in Ho.
  destruct (mapM (get_as_int (Some (bits w)) false None) (map snd ops)) as [vs|ids|s|] eqn:M; try discriminate.
  apply mapM_length in M. rewrite map_length in M. rewrite <- M. simpl app.
  eapply vbody_length; eauto.
Qed.

Lemma announced_value w ops :
  announced (DMeta (vname w) ops) = Some (width_bytes w * py_or (Z.of_nat (length ops)) 1).
Proof.
  destruct w; unfold width_bytes.
  - change (announced (DMeta (vname W8) ops)) with (Some (py_or (Z.of_nat (length ops)) 1)). f_equal. lia.
  - reflexivity.
  - reflexivity.
Qed.

Lemma announce_words enc ws addr ds bs :
  emit enc (DWordList ws) addr = Out ds bs -> errors ds = [] -> Z.of_nat (length bs) = 2 * Z.of_nat (length ws).
Proof.
  simpl emit. rewrite word_list_unfold. intros H He.
  destruct (mapM (get_as_int (Some 16) false None) ws) as [vs|ids|s|] eqn:M; try discriminate.
  apply mapM_length in M.
  assert (L : length bs = (2 * length vs)%nat).
  { eapply (wordlike_length addr pack_H 2 vs); eauto using pack_H_silent, pack_H_len.
    intros ds0 pre Hp. rewrite Hp. reflexivity. }
  lia.
Qed.

(* a name that finds an entry behaves as the entry's own name *)
Lemma emit_by_entry enc name ops addr m :
  find_meta name = Some m -> find_meta (m_name m) = Some m ->
  emit enc (DMeta name ops) addr = emit enc (DMeta (m_name m) ops) addr /\
  announced (DMeta name ops) = announced (DMeta (m_name m) ops).
Proof. intros H1 H2. unfold emit, announced. rewrite H1, H2. split; reflexivity. Qed.

(* ---- the exported statement: every directive of the model --------------------------------------- *)
Theorem announce_eq_emit enc d addr ds bs sz :
  emit enc d addr = Out ds bs -> errors ds = [] -> announced d = Some sz -> Z.of_nat (length bs) = sz.
Proof.
  destruct d as [name ops|z ops|ws].
  - destruct (find_meta name) as [m|] eqn:Hf.
    2:{ unfold emit. rewrite Hf. discriminate. }
    pose proof Hf as Hin. apply find_some in Hin. destruct Hin as [Hin _].
    unfold meta_table in Hin. simpl in Hin.
    repeat (destruct Hin as [Hin|Hin]; [subst m|]); try contradiction;
      (* the entries that announce nothing *)
      try (intros _ _ H; unfold announced in H; rewrite Hf in H; discriminate H);
      (* .byte .word .dword *)
      (destruct (emit_by_entry enc name ops addr _ Hf eq_refl) as [-> ->]; cbn [m_name]).
    + intros H He Ha. change ".byte" with (vname W8) in *. rewrite announced_value in Ha.
      assert (Hsz : sz = width_bytes W8 * py_or (Z.of_nat (length ops)) 1) by congruence.
      rewrite Hsz. eapply announce_value; eauto.
    + intros H He Ha. change ".word" with (vname W16) in *. rewrite announced_value in Ha.
      assert (Hsz : sz = width_bytes W16 * py_or (Z.of_nat (length ops)) 1) by congruence.
      rewrite Hsz. eapply announce_value; eauto.
    + intros H He Ha. change ".dword" with (vname W32) in *. rewrite announced_value in Ha.
      assert (Hsz : sz = width_bytes W32 * py_or (Z.of_nat (length ops)) 1) by congruence.
      rewrite Hsz. eapply announce_value; eauto.
  - intros _ _ H. destruct z; discriminate H.
  - intros H He Ha. inversion Ha; subst. eapply announce_words; eauto.
Qed.
