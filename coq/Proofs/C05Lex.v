(* C05 (iii): literals.  The model of number() (Model/Lexer.v) reads every spelling of every n : N
   as n; bare digit strings with 8 or 9 are flagged; a minus sign makes one negative literal;
   character literals pack little-endian. *)
From Coq Require Import String Ascii List ZArith NArith Bool Lia ZifyBool.
From Verif Require Import Base.Res Base.Range Spec.ExprTokens Spec.Arith Model.Lexer.
Import ListNotations.
Open Scope string_scope.
Open Scope N_scope.

(* ---- positional notation: digits and horner are inverse --------------------------------------- *)
Fixpoint value_lsd (base : N) (ds : list N) : N :=
  match ds with
  | [] => 0
  | d :: rest => d + base * value_lsd base rest
  end.

Lemma horner_acc base ds acc :
  fold_left (fun a d => a * base + d) ds acc
  = acc * base ^ N.of_nat (length ds) + fold_left (fun a d => a * base + d) ds 0.
Proof.
  revert acc. induction ds as [|d ds IH]; intros acc.
  - simpl. lia.
  - cbn [fold_left length]. rewrite IH. rewrite (IH (0 * base + d)).
    rewrite Nat2N.inj_succ, N.pow_succ_r'. lia.
Qed.

Lemma horner_rev base ds : horner base (rev ds) = value_lsd base ds.
Proof.
  unfold horner. induction ds as [|d ds IH].
  - reflexivity.
  - cbn [rev value_lsd]. rewrite fold_left_app. cbn [fold_left]. rewrite IH. rewrite (N.mul_comm base). apply N.add_comm.
Qed.

Lemma digits_lsd_value base : 2 <= base -> forall fuel n, n < 2 ^ N.of_nat fuel ->
  value_lsd base (digits_lsd fuel base n) = n /\ Forall (fun d => d < base) (digits_lsd fuel base n)
  /\ (fuel <> O -> digits_lsd fuel base n <> []).
Proof.
  intros Hb. induction fuel as [|f IH]; intros n Hn.
  - simpl in Hn. assert (n = 0) by lia. subst. simpl. repeat split; [constructor|congruence].
  - cbn [digits_lsd]. destruct (n <? base) eqn:E.
    + apply N.ltb_lt in E. cbn [value_lsd]. repeat split.
      * lia.
      * constructor; [exact E|constructor].
      * discriminate.
    + apply N.ltb_ge in E.
      assert (Hq : n / base < 2 ^ N.of_nat f).
      { rewrite Nat2N.inj_succ, N.pow_succ_r' in Hn.
        apply N.div_lt_upper_bound; [lia|]. nia. }
      destruct (IH _ Hq) as [Hv [Hall Hne]].
      cbn [value_lsd]. rewrite Hv. repeat split.
      * rewrite N.add_comm. symmetry. apply N.div_mod. lia.
      * constructor; [apply N.mod_lt; lia|exact Hall].
      * discriminate.
Qed.

Lemma fuel_enough n : n < 2 ^ N.of_nat (S (N.to_nat (N.log2 n))).
Proof.
  rewrite Nat2N.inj_succ, N2Nat.id.
  destruct n as [|p]; [reflexivity|].
  apply N.log2_spec. reflexivity.
Qed.

Lemma horner_digits base n : 2 <= base -> horner base (digits base n) = n.
Proof.
  intros Hb. unfold digits. rewrite horner_rev.
  apply (digits_lsd_value base Hb _ _ (fuel_enough n)).
Qed.

Lemma digits_lt base n : 2 <= base -> Forall (fun d => d < base) (digits base n).
Proof.
  intros Hb. unfold digits. apply Forall_rev.
  apply (digits_lsd_value base Hb _ _ (fuel_enough n)).
Qed.

Lemma digits_nonempty base n : 2 <= base -> digits base n <> [].
Proof.
  intros Hb. unfold digits. intros H.
  apply (f_equal (@rev N)) in H. rewrite rev_involutive in H. simpl in H.
  revert H. apply (digits_lsd_value base Hb _ _ (fuel_enough n)). discriminate.
Qed.

(* ---- characters of digit strings: finite facts lifted to strings of any length ------------------ *)
Definition digit_ok (B : nat) (p : ascii -> bool) : bool :=
  forallb (fun d => p (digit_char false d) && p (digit_char true d)) (nrange B).

Lemma digit_ok_spec B p : digit_ok B p = true ->
  forall up d, d < N.of_nat B -> p (digit_char up d) = true.
Proof.
  intros H up d Hd. unfold digit_ok in H.
  pose proof (nrange_forallb B _ H d Hd) as H1. apply andb_true_iff in H1.
  destruct up; tauto.
Qed.

Lemma sod_forallb p up ds :
  str_forallb p (string_of_digits up ds) = forallb (fun d => p (digit_char up d)) ds.
Proof. induction ds as [|d ds IH]; simpl; [reflexivity|]. rewrite IH. reflexivity. Qed.

Lemma sod_existsb p up ds :
  str_existsb p (string_of_digits up ds) = existsb (fun d => p (digit_char up d)) ds.
Proof. induction ds as [|d ds IH]; simpl; [reflexivity|]. rewrite IH. reflexivity. Qed.

Lemma all_digits B p up ds : digit_ok B p = true -> Forall (fun d => d < N.of_nat B) ds ->
  str_forallb p (string_of_digits up ds) = true.
Proof.
  intros H Hall. rewrite sod_forallb. apply forallb_forall. intros d Hin.
  rewrite Forall_forall in Hall. apply (digit_ok_spec B p H). apply Hall. exact Hin.
Qed.

Lemma no_digits B p up ds : digit_ok B (fun c => negb (p c)) = true -> Forall (fun d => d < N.of_nat B) ds ->
  str_existsb p (string_of_digits up ds) = false.
Proof.
  intros H Hall. rewrite sod_existsb. induction Hall as [|d ds Hd Hall IH]; simpl; [reflexivity|].
  rewrite IH. pose proof (digit_ok_spec B _ H up d Hd) as H1. simpl in H1.
  apply negb_true_iff in H1. rewrite H1. reflexivity.
Qed.

Lemma digit_val_char : forall up d, d < 36 -> digit_val (digit_char up d) = Some d.
Proof.
  assert (H : forallb (fun d =>
     match digit_val (digit_char false d), digit_val (digit_char true d) with
     | Some a, Some b => (a =? d) && (b =? d)
     | _, _ => false end) (nrange 36) = true) by (vm_compute; reflexivity).
  intros up d Hd. pose proof (nrange_forallb 36 _ H d Hd) as H1. cbv beta in H1.
  destruct (digit_val (digit_char false d)) as [a|] eqn:Ea; [|discriminate].
  destruct (digit_val (digit_char true d)) as [b|] eqn:Eb; [|discriminate].
  apply andb_true_iff in H1. destruct H1 as [H1 H2]. apply N.eqb_eq in H1, H2. subst.
  destruct up; assumption.
Qed.

Lemma int_digits_sod base up ds : base <= 36 -> Forall (fun d => d < base) ds -> forall acc,
  int_digits base (string_of_digits up ds) acc = Some (fold_left (fun a d => a * base + d) ds acc).
Proof.
  intros Hb Hall. induction Hall as [|d ds Hd Hall IH]; intros acc; simpl; [reflexivity|].
  rewrite digit_val_char by lia. apply N.ltb_lt in Hd. rewrite Hd. apply IH.
Qed.

Lemma int_digits_horner base up ds : base <= 36 -> Forall (fun d => d < base) ds ->
  int_digits base (string_of_digits up ds) 0 = Some (horner base ds).
Proof. intros. unfold horner. apply int_digits_sod; assumption. Qed.

Lemma forall_weaken (a b : N) ds : a <= b -> Forall (fun d => d < a) ds -> Forall (fun d => d < b) ds.
Proof. intros H. apply Forall_impl. intros; lia. Qed.

(* ---- string plumbing -------------------------------------------------------------------------- *)
Lemma append_nil_r s : (s ++ "")%string = s.
Proof. induction s; simpl; congruence. Qed.

Lemma str_last_app_dot s : str_last (s ++ ".") = Some "."%char.
Proof.
  induction s as [|c s IH]; [reflexivity|].
  simpl. destruct (s ++ ".")%string eqn:E.
  - destruct s; discriminate.
  - exact IH.
Qed.

Lemma str_drop_last_app_dot s : str_drop_last (s ++ ".") = s.
Proof.
  induction s as [|c s IH]; [reflexivity|].
  simpl. destruct (s ++ ".")%string eqn:E.
  - destruct s; discriminate.
  - rewrite IH. reflexivity.
Qed.

Lemma str_forallb_app p a b : str_forallb p (a ++ b) = str_forallb p a && str_forallb p b.
Proof. induction a as [|c a IH]; simpl; [reflexivity|]. rewrite IH. apply andb_assoc. Qed.

(* the last character of a non-empty digit string is the character of one of its digits *)
Lemma str_last_sod up ds : ds <> [] ->
  exists d, In d ds /\ str_last (string_of_digits up ds) = Some (digit_char up d).
Proof.
  induction ds as [|d ds IH]; [congruence|]. intros _.
  destruct ds as [|d2 ds].
  - exists d. split; [left; reflexivity|reflexivity].
  - destruct IH as [x [Hin Hx]]; [discriminate|].
    exists x. split; [right; exact Hin|].
    change (string_of_digits up (d :: d2 :: ds)) with
      (String (digit_char up d) (String (digit_char up d2) (string_of_digits up ds))).
    cbn [str_last]. exact Hx.
Qed.

Lemma last_not_dot B up ds : digit_ok B (fun c => negb (is_char c ".")) = true ->
  Forall (fun d => d < N.of_nat B) ds -> ds <> [] ->
  match str_last (string_of_digits up ds) with Some c => is_char c "." | None => false end = false.
Proof.
  intros H Hall Hne. destruct (str_last_sod up ds Hne) as [d [Hin Hl]]. rewrite Hl.
  rewrite Forall_forall in Hall. pose proof (digit_ok_spec B _ H up d (Hall d Hin)) as H1.
  simpl in H1. apply negb_true_iff in H1. exact H1.
Qed.

(* ---- number(): the branches ------------------------------------------------------------------- *)
Lemma lex_number_plain neg c r : is_char c "^" = false -> lex_number neg (String c r) = lex_plain neg (String c r).
Proof. intros H. unfold lex_number. destruct r; [reflexivity|]. rewrite H. reflexivity. Qed.

Definition special (c : ascii) : bool := is_char c "$" || is_char c "_" || is_char c ".".
Definition eight_nine (c : ascii) : bool := is_char c "8" || is_char c "9".

Lemma lex_plain_bare neg s dec :
  is_local_symbol_literal s = true ->
  match str_last s with Some c => is_char c "." | None => false end = false ->
  str_existsb special s = false ->
  str_forallb is_decimal_digit s = true ->
  int_digits 10 s 0 = Some dec ->
  lex_plain neg s =
    if str_existsb eight_nine s
    then (if neg then LexNum (signed neg dec) false true else LexNum (signed neg dec) true false)
    else match int_digits 8 s 0 with
         | Some oct => LexNum (signed neg oct) false false
         | None => LexLabel
         end.
Proof.
  intros H1 H2 H3 H4 H5. unfold lex_plain. rewrite H1. cbn [negb]. rewrite H2. cbv zeta.
  fold special. rewrite H3, H4, H5. fold eight_nine. reflexivity.
Qed.

Lemma lex_plain_dot neg s0 dec :
  is_local_symbol_literal (s0 ++ ".") = true ->
  str_existsb special s0 = false ->
  str_forallb is_decimal_digit s0 = true ->
  int_digits 10 s0 0 = Some dec ->
  lex_plain neg (s0 ++ ".") = LexNum (signed neg dec) false false.
Proof.
  intros H1 H3 H4 H5. unfold lex_plain. rewrite H1. cbn [negb]. rewrite str_last_app_dot.
  cbv zeta. change (is_char "." ".") with true. cbv iota.
  rewrite str_drop_last_app_dot. fold special. rewrite H3, H4, H5. reflexivity.
Qed.

(* ---- finite character facts used below ----------------------------------------------------------- *)
Lemma ok_not_caret : digit_ok 16 (fun c => negb (is_char c "^")) = true. Proof. vm_compute. reflexivity. Qed.
Lemma ok_not_dot : digit_ok 16 (fun c => negb (is_char c ".")) = true. Proof. vm_compute. reflexivity. Qed.
Lemma ok_not_special : digit_ok 16 (fun c => negb (special c)) = true. Proof. vm_compute. reflexivity. Qed.
Lemma ok_local_symbol_char : digit_ok 16 local_symbol_char = true. Proof. vm_compute. reflexivity. Qed.
Lemma ok_decimal_digit : digit_ok 10 is_decimal_digit = true. Proof. vm_compute. reflexivity. Qed.
Lemma ok_not_89 : digit_ok 8 (fun c => negb (eight_nine c)) = true. Proof. vm_compute. reflexivity. Qed.
Lemma ok_valid_2 : digit_ok 2 (valid_digit 2) = true. Proof. vm_compute. reflexivity. Qed.
Lemma ok_valid_8 : digit_ok 8 (valid_digit 8) = true. Proof. vm_compute. reflexivity. Qed.
Lemma ok_valid_10 : digit_ok 10 (valid_digit 10) = true. Proof. vm_compute. reflexivity. Qed.
Lemma ok_valid_16 : digit_ok 16 (valid_digit 16) = true. Proof. vm_compute. reflexivity. Qed.
Lemma ok_not_x : digit_ok 16 (fun c => negb (is_char (lower c) "x")) = true. Proof. vm_compute. reflexivity. Qed.
Lemma ok_not_o : digit_ok 8 (fun c => negb (is_char (lower c) "o")) = true. Proof. vm_compute. reflexivity. Qed.
Lemma ok_not_b : digit_ok 2 (fun c => negb (is_char (lower c) "b")) = true. Proof. vm_compute. reflexivity. Qed.

Lemma lt16 ds (B : N) : B <= 16 -> Forall (fun d => d < B) ds -> Forall (fun d => d < N.of_nat 16) ds.
Proof. intros H. apply Forall_impl. intros; lia. Qed.

Lemma first_digit_facts B up d ds :
  B <= 16 -> Forall (fun x => x < B) (d :: ds) ->
  is_char (digit_char up d) "^" = false.
Proof.
  intros HB Hall. inversion Hall; subst.
  pose proof (digit_ok_spec 16 _ ok_not_caret up d) as H. simpl in H.
  apply negb_true_iff. apply H. lia.
Qed.

(* a digit string (any of the four radixes) is a local symbol literal when it starts with a decimal digit *)
Lemma sod_local_chars B up ds : B <= 16 -> Forall (fun d => d < B) ds ->
  str_forallb local_symbol_char (string_of_digits up ds) = true.
Proof. intros HB Hall. apply (all_digits 16 _ up ds ok_local_symbol_char). apply (lt16 ds B HB Hall). Qed.

(* ---- bare digits ------------------------------------------------------------------------------- *)
Lemma bare_prelude up ds : ds <> [] -> Forall (fun d => d < 10) ds ->
  let s := string_of_digits up ds in
  (exists c r, s = String c r /\ is_char c "^" = false) /\
  is_local_symbol_literal s = true /\
  match str_last s with Some c => is_char c "." | None => false end = false /\
  str_existsb special s = false /\
  str_forallb is_decimal_digit s = true /\
  int_digits 10 s 0 = Some (horner 10 ds).
Proof.
  intros Hne Hall s. subst s.
  assert (H16 : Forall (fun d => d < N.of_nat 16) ds) by (apply (lt16 ds 10); [lia|exact Hall]).
  assert (H10 : Forall (fun d => d < N.of_nat 10) ds) by exact Hall.
  repeat split.
  - destruct ds as [|d ds]; [congruence|]. eexists; eexists; split; [reflexivity|].
    apply (first_digit_facts 10 up d ds); [lia|exact Hall].
  - destruct ds as [|d ds]; [congruence|]. cbn [string_of_digits is_local_symbol_literal].
    inversion Hall; subst.
    rewrite (digit_ok_spec 10 _ ok_decimal_digit up d) by assumption.
    rewrite (sod_local_chars 10 up ds) by (try lia; assumption). reflexivity.
  - apply (last_not_dot 16); [exact ok_not_dot|exact H16|exact Hne].
  - apply (no_digits 16 special up ds ok_not_special H16).
  - apply (all_digits 10 _ up ds ok_decimal_digit H10).
  - apply int_digits_horner; [lia|exact Hall].
Qed.

(* octal: bare digits 0-7 *)
Lemma lex_bare_octal_digits neg up ds : ds <> [] -> Forall (fun d => d < 8) ds ->
  lex_number neg (string_of_digits up ds) = LexNum (signed neg (horner 8 ds)) false false.
Proof.
  intros Hne Hall.
  assert (H10 : Forall (fun d => d < 10) ds) by (apply (forall_weaken 8 10); [lia|exact Hall]).
  destruct (bare_prelude up ds Hne H10) as [[c [r [Es Hc]]] [H1 [H2 [H3 [H4 H5]]]]].
  rewrite Es in *. rewrite (lex_number_plain neg c r Hc). rewrite <- Es in *.
  rewrite (lex_plain_bare neg _ _ H1 H2 H3 H4 H5).
  rewrite (no_digits 8 eight_nine up ds ok_not_89 Hall).
  rewrite int_digits_horner by (try lia; exact Hall). reflexivity.
Qed.

(* a bare digit string containing 8 or 9: the decimal value, flagged (positive) or reported at once (negative) *)
Lemma has_89 up ds : Forall (fun d => d < 10) ds -> existsb (fun d => 8 <=? d) ds = true ->
  str_existsb eight_nine (string_of_digits up ds) = true.
Proof.
  intros Hall. rewrite sod_existsb. induction Hall as [|d ds Hd Hall IH]; simpl; [congruence|].
  intros H. apply orb_true_iff in H. destruct H as [H|H].
  - apply N.leb_le in H. assert (d = 8 \/ d = 9) as [E|E] by lia; subst; destruct up; reflexivity.
  - rewrite IH by exact H. apply orb_true_r.
Qed.

Lemma lex_bare_89_digits neg up ds : ds <> [] -> Forall (fun d => d < 10) ds ->
  existsb (fun d => 8 <=? d) ds = true ->
  lex_number neg (string_of_digits up ds) =
    if neg then LexNum (signed neg (horner 10 ds)) false true
    else LexNum (signed neg (horner 10 ds)) true false.
Proof.
  intros Hne Hall H89.
  destruct (bare_prelude up ds Hne Hall) as [[c [r [Es Hc]]] [H1 [H2 [H3 [H4 H5]]]]].
  rewrite Es in *. rewrite (lex_number_plain neg c r Hc). rewrite <- Es in *.
  rewrite (lex_plain_bare neg _ _ H1 H2 H3 H4 H5).
  rewrite (has_89 up ds Hall H89). reflexivity.
Qed.

(* decimal: digits followed by a dot *)
Lemma lex_decimal_dot_digits neg up ds : ds <> [] -> Forall (fun d => d < 10) ds ->
  lex_number neg (string_of_digits up ds ++ ".") = LexNum (signed neg (horner 10 ds)) false false.
Proof.
  intros Hne Hall.
  destruct (bare_prelude up ds Hne Hall) as [[c [r [Es Hc]]] [H1 [H2 [H3 [H4 H5]]]]].
  assert (Es' : (string_of_digits up ds ++ ".")%string = String c (r ++ ".")) by (rewrite Es; reflexivity).
  rewrite Es'. rewrite (lex_number_plain neg c _ Hc). rewrite <- Es'.
  apply lex_plain_dot; try assumption.
  rewrite Es in *. cbn [append is_local_symbol_literal] in *.
  apply andb_true_iff in H1. destruct H1 as [Hd Hr]. rewrite Hd, str_forallb_app, Hr. reflexivity.
Qed.

(* ---- 0x / 0o / 0b -------------------------------------------------------------------------------- *)
(* [l]: the radix letter (either case), [bl] its lower case, [B] the base *)
Lemma strip_noop (B : nat) bl up ds :
  digit_ok B (fun c => negb (is_char (lower c) bl)) = true ->
  Forall (fun d => d < N.of_nat B) ds ->
  base_letter (N.of_nat B) = Some bl ->
  strip_base_prefix (N.of_nat B) (string_of_digits up ds) = string_of_digits up ds.
Proof.
  intros Hok Hall Hbl. unfold strip_base_prefix. rewrite Hbl.
  destruct ds as [|d1 [|d2 ds]]; try reflexivity.
  cbn [string_of_digits]. inversion Hall as [|? ? _ Hall2]; subst. inversion Hall2; subst.
  pose proof (digit_ok_spec B _ Hok up d2) as H. simpl in H.
  rewrite (proj1 (negb_true_iff _) (H ltac:(assumption))). rewrite andb_false_r. reflexivity.
Qed.

Lemma lex_zero_prefixed (B : nat) (l bl : ascii) neg up ds :
  N.of_nat B <= 16 ->
  is_alpha l = true -> is_decimal_digit l = false -> special l = false ->
  base_letter_inv (lower l) = Some (N.of_nat B) ->
  base_letter (N.of_nat B) = Some bl ->
  digit_ok B (fun c => negb (is_char (lower c) bl)) = true ->
  ds <> [] -> Forall (fun d => d < N.of_nat B) ds ->
  lex_number neg (String "0" (String l (string_of_digits up ds)))
  = LexNum (signed neg (horner (N.of_nat B) ds)) false false.
Proof.
  intros HB Hal Hnd Hns Hinv Hbl Hok Hne Hall.
  assert (H16 : Forall (fun d => d < N.of_nat 16) ds) by (apply (lt16 ds (N.of_nat B)); assumption).
  rewrite lex_number_plain by reflexivity.
  unfold lex_plain.
  assert (E1 : is_local_symbol_literal (String "0" (String l (string_of_digits up ds))) = true).
  { cbn [is_local_symbol_literal str_forallb]. change (is_decimal_digit "0") with true.
    unfold local_symbol_char at 1. rewrite Hal. rewrite orb_true_r. cbn [orb andb].
    apply (sod_local_chars (N.of_nat B)); assumption. }
  rewrite E1. cbn [negb].
  assert (E2 : match str_last (String "0" (String l (string_of_digits up ds))) with
               | Some c => is_char c "." | None => false end = false).
  { destruct ds as [|d ds]; [congruence|].
    change (str_last (String "0" (String l (string_of_digits up (d :: ds)))))
      with (str_last (string_of_digits up (d :: ds))).
    apply (last_not_dot 16); [exact ok_not_dot|exact H16|discriminate]. }
  rewrite E2. cbv zeta.
  assert (E3 : str_existsb (fun c => is_char c "$" || is_char c "_" || is_char c ".")
                 (String "0" (String l (string_of_digits up ds))) = false).
  { fold special. cbn [str_existsb]. change (special "0") with false. rewrite Hns. cbn [orb].
    apply (no_digits 16 special up ds ok_not_special H16). }
  rewrite E3.
  assert (E4 : str_forallb is_decimal_digit (String "0" (String l (string_of_digits up ds))) = false).
  { cbn [str_forallb]. rewrite Hnd. rewrite andb_false_r. reflexivity. }
  rewrite E4. change (is_char "0" "0") with true. rewrite Hal. cbn [andb]. rewrite Hinv.
  unfold py_int. rewrite (strip_noop B bl up ds Hok Hall Hbl).
  destruct ds as [|d ds]; [congruence|].
  cbn [string_of_digits]. 
  change (String (digit_char up d) (string_of_digits up ds)) with (string_of_digits up (d :: ds)).
  rewrite int_digits_horner by (try lia; exact Hall). reflexivity.
Qed.

(* ---- ^X ^O ^B ^D ---------------------------------------------------------------------------------- *)
Lemma lex_caret_form (B : nat) (l : ascii) neg up ds :
  N.of_nat B <= 16 ->
  caret_base l = Some (N.of_nat B) ->
  digit_ok B (valid_digit (N.of_nat B)) = true ->
  ds <> [] -> Forall (fun d => d < N.of_nat B) ds ->
  lex_number neg (String "^" (String l (string_of_digits up ds)))
  = LexNum (signed neg (horner (N.of_nat B) ds)) false false.
Proof.
  intros HB Hcb Hok Hne Hall. unfold lex_number. change (is_char "^" "^") with true. cbv iota.
  unfold lex_caret. rewrite Hcb.
  rewrite (all_digits B _ up ds Hok Hall).
  rewrite int_digits_horner by (try lia; exact Hall).
  destruct ds as [|d ds]; [congruence|]. reflexivity.
Qed.

(* ---- all spellings at once ---------------------------------------------------------------------- *)
Lemma lex_spell_digits : forall st neg up_prefix up_digits ds,
  ds <> [] -> Forall (fun d => d < style_base st) ds ->
  lex_number neg (spell_digits st up_prefix up_digits ds)
  = LexNum (signed neg (horner (style_base st) ds)) false false.
Proof.
  intros st neg upp upd ds Hne Hall. unfold spell_digits.
  destruct st; cbn [style_prefix style_suffix style_base] in *.
  - (* bare octal *) cbn [append]. rewrite append_nil_r. apply lex_bare_octal_digits; assumption.
  - (* decimal dot *) cbn [append]. apply lex_decimal_dot_digits; assumption.
  - (* 0x *) rewrite append_nil_r. destruct upp; cbn [append];
      apply (lex_zero_prefixed 16 _ "x"); try reflexivity; try assumption; try lia; exact ok_not_x.
  - (* 0o *) rewrite append_nil_r. destruct upp; cbn [append];
      apply (lex_zero_prefixed 8 _ "o"); try reflexivity; try assumption; try lia; exact ok_not_o.
  - (* 0b *) rewrite append_nil_r. destruct upp; cbn [append];
      apply (lex_zero_prefixed 2 _ "b"); try reflexivity; try assumption; try lia; exact ok_not_b.
  - (* ^X *) rewrite append_nil_r. destruct upp; cbn [append];
      apply (lex_caret_form 16); try reflexivity; try assumption; try lia; exact ok_valid_16.
  - (* ^O *) rewrite append_nil_r. destruct upp; cbn [append];
      apply (lex_caret_form 8); try reflexivity; try assumption; try lia; exact ok_valid_8.
  - (* ^B *) rewrite append_nil_r. destruct upp; cbn [append];
      apply (lex_caret_form 2); try reflexivity; try assumption; try lia; exact ok_valid_2.
  - (* ^D *) rewrite append_nil_r. destruct upp; cbn [append];
      apply (lex_caret_form 10); try reflexivity; try assumption; try lia; exact ok_valid_10.
Qed.

Lemma style_base_ge2 st : 2 <= style_base st.
Proof. destruct st; simpl; lia. Qed.

(* every spelling of every n reads as n; with a minus sign as -n *)
Lemma lex_spell : forall st neg up_prefix up_digits (n : N),
  lex_number neg (spell st up_prefix up_digits n) = LexNum (signed neg n) false false.
Proof.
  intros st neg upp upd n. unfold spell.
  rewrite lex_spell_digits.
  - rewrite horner_digits by apply style_base_ge2. reflexivity.
  - apply digits_nonempty, style_base_ge2.
  - apply digits_lt, style_base_ge2.
Qed.

(* ---- character literals ------------------------------------------------------------------------- *)
Lemma char_value_1 encode cs b0 : encode cs = Some [b0] -> char_value encode cs = (Z.of_N b0, []).
Proof. intros H. unfold char_value. rewrite H. simpl. f_equal. lia. Qed.

Lemma char_value_2 encode cs b0 b1 : encode cs = Some [b0; b1] ->
  char_value encode cs = ((Z.of_N b0 + 256 * Z.of_N b1)%Z, []).
Proof. intros H. unfold char_value. rewrite H. reflexivity. Qed.

Lemma char_value_long encode cs bs : encode cs = Some bs -> (2 < length bs)%nat ->
  snd (char_value encode cs) = ["too-long-string"].
Proof.
  intros H Hl. unfold char_value. rewrite H.
  replace (2 <? N.of_nat (length bs)) with true by (symmetry; apply N.ltb_lt; lia). reflexivity.
Qed.

Lemma char_value_unencodable encode cs : encode cs = None -> char_value encode cs = (0%Z, ["invalid-character"]).
Proof. intros H. unfold char_value. rewrite H. reflexivity. Qed.
