(* Proofs/AsmListingP.v -- the listing of a program assembled by the reference assembler: Proofs/ListingP.v (C19's
   model theorems) instantiated on the final symbol table of Model/Asm.v, and composed with Proofs/AsmP.v's layout
   theorem (C02's address invariant on the whole program): every listed label address is the address at which the
   byte following that label lies in the image. *)
From Coq Require Import ZArith List String Ascii Bool NArith Lia Sorted Permutation.
From Verif Require Import Base.Res Spec.Listing Model.Asm Proofs.AsmP Model.AsmListing.
From Verif Require Model.ListingM Proofs.ListingP.
Import ListNotations.
Notation length := Datatypes.length.
Notation concat := List.concat.
Open Scope string_scope.
Open Scope list_scope.
Open Scope Z_scope.

(* ------------------------------------------------------------------------------------------ *)
(* the adapter *)
Lemma lookup_pm fname T : forall f n v, In (KGlobal f n, v) T ->
  ListingM.lookup (N.of_nat f) (pm_of fname T) = Some (fname f).
Proof.
  unfold pm_of. induction T as [|[k z] r IH]; intros f n v H; [destruct H|].
  destruct k as [g m|g sc m]; simpl.
  - destruct (N.of_nat g =? N.of_nat f)%N eqn:E.
    + apply N.eqb_eq in E. apply Nat2N.inj in E. subst. reflexivity.
    + destruct H as [H|H]; [inversion H; subst; rewrite N.eqb_refl in E; discriminate|]. eapply IH; eauto.
  - destruct H as [H|H]; [discriminate|]. eapply IH; eauto.
Qed.

Lemma prefixes_known_of fname T : ListingM.prefixes_known (pm_of fname T) (entries_of T).
Proof.
  intros k n v H. unfold entries_of in H. apply in_map_iff in H. destruct H as [[key z] [E Hin]].
  destruct key as [g m|g sc m]; unfold entry_of in E; simpl in E; [|discriminate].
  inversion E; subst. rewrite (lookup_pm fname T g n v Hin). discriminate.
Qed.

Lemma ordinary_gen fname T : forall pm,
  (forall f n v, In (KGlobal f n, v) T -> ListingM.lookup (N.of_nat f) pm = Some (fname f)) ->
  ListingM.ordinary pm (entries_of T) = ordinary_of fname T.
Proof.
  unfold entries_of, ordinary_of. induction T as [|[k z] r IH]; intros pm H; [reflexivity|].
  destruct k as [g m|g sc m]; unfold entry_of at 1; simpl.
  - rewrite (H g m z) by (left; reflexivity). f_equal. apply IH. intros f n v Hin. eapply H. right. exact Hin.
  - apply IH. intros f n v Hin. eapply H. right. exact Hin.
Qed.

Lemma ordinary_eq fname T : ListingM.ordinary (pm_of fname T) (entries_of T) = ordinary_of fname T.
Proof. apply ordinary_gen. apply lookup_pm. Qed.

Lemma in_ordinary_of fname T f n v : In (KGlobal f n, v) T -> In (mkSym (fname f) n v) (ordinary_of fname T).
Proof. intros H. unfold ordinary_of. apply in_flat_map. exists (KGlobal f n, v). split; [exact H|]. left. reflexivity. Qed.

Lemma klookup_in k T : forall v, klookup k T = Some v -> In (k, v) T.
Proof.
  induction T as [|[k' z] r IH]; simpl; intros v H; [discriminate|].
  destruct (key_eqb k k') eqn:E.
  - apply key_eqb_eq in E. inversion H; subst. left. reflexivity.
  - right. apply IH. exact H.
Qed.

(* the listing of any table: text, blocks, every model theorem of C19 at once *)
Lemma listing_of_table fname T :
  exists text bs,
    ListingM.generate_listing (ListingM.table_of (entries_of T)) (pm_of fname T) = Ok text /\ renders bs text /\
    listing_of (ordinary_of fname T) bs /\ Permutation (flat_map block_syms bs) (ordinary_of fname T).
Proof.
  destruct (ListingP.generate_listing_full _ _ (prefixes_known_of fname T)) as (text & bs & G & R & L & P).
  rewrite ordinary_eq in L, P. exists text, bs. auto.
Qed.

(* ------------------------------------------------------------------------------------------ *)
(* rows under a file name *)
Lemma rows_under_notin file bs : ~ In file (map fst bs) -> rows_under file bs = [].
Proof.
  unfold rows_under. induction bs as [|b r IH]; simpl; intros H; [reflexivity|].
  destruct (String.eqb (fst b) file) eqn:E.
  - apply String.eqb_eq in E. exfalso. apply H. left. exact E.
  - simpl. apply IH. intros C. apply H. right. exact C.
Qed.

Lemma rows_under_unique bs : NoDup (map fst bs) -> forall b, In b bs -> rows_under (fst b) bs = snd b.
Proof.
  unfold rows_under. induction bs as [|b0 r IH]; simpl; intros ND b Hb; [destruct Hb|].
  inversion ND as [|x l Hn ND']; subst. destruct Hb as [->|Hb].
  - rewrite String.eqb_refl. fold (rows_under (fst b) r). rewrite (rows_under_notin _ _ Hn). apply app_nil_r.
  - destruct (String.eqb (fst b0) (fst b)) eqn:E.
    + apply String.eqb_eq in E. exfalso. apply Hn. rewrite E. apply in_map. exact Hb.
    + simpl. apply IH; assumption.
Qed.

Lemma in_rows_under file bs b l : In b bs -> fst b = file -> In l (snd b) -> In l (rows_under file bs).
Proof.
  intros Hb E Hl. unfold rows_under. apply in_flat_map. exists b. split; [exact Hb|].
  rewrite E, String.eqb_refl. exact Hl.
Qed.

Lemma rows_owed_eq fname file T :
  map (fun s => (s_value s, s_name s)) (syms_of_file file (ordinary_of fname T)) = rows_owed fname file T.
Proof.
  unfold rows_owed, syms_of_file, ordinary_of. induction T as [|[k z] r IH]; [reflexivity|].
  destruct k as [g m|g sc m]; simpl; [|exact IH].
  destruct (String.eqb (fname g) file); simpl; rewrite IH; reflexivity.
Qed.

Lemma block_rows b : map (fun s => (s_value s, s_name s)) (block_syms b) = snd b.
Proof.
  unfold block_syms. rewrite map_map. simpl. induction (snd b) as [|[v n] r IH]; simpl; [reflexivity|].
  rewrite IH. reflexivity.
Qed.

Lemma first_occ_in x l : In x (first_occurrences l) -> In x l.
Proof.
  revert x. induction l as [|y r IH]; simpl; intros x H; [exact H|].
  destruct H as [H|H]; [left; exact H|]. right. apply IH. apply filter_In in H. apply H.
Qed.

Lemma syms_of_file_nil file syms : ~ In file (map s_file syms) -> syms_of_file file syms = [].
Proof.
  unfold syms_of_file. induction syms as [|s r IH]; simpl; intros H; [reflexivity|].
  destruct (String.eqb (s_file s) file) eqn:E.
  - apply String.eqb_eq in E. exfalso. apply H. left. exact E.
  - apply IH. intros C. apply H. right. exact C.
Qed.

Lemma first_occ_nodup l : NoDup (first_occurrences l).
Proof.
  induction l as [|x r IH]; simpl; [constructor|]. constructor.
  - intros C. apply filter_In in C. destruct C as [_ C]. rewrite String.eqb_refl in C. discriminate.
  - apply NoDup_filter. exact IH.
Qed.

Lemma first_occ_complete x l : In x l -> In x (first_occurrences l).
Proof.
  induction l as [|y r IH]; simpl; intros H; [exact H|].
  destruct (String.eqb y x) eqn:E.
  - apply String.eqb_eq in E. left. exact E.
  - right. apply filter_In. split; [|rewrite E; reflexivity].
    destruct H as [H|H]; [subst; rewrite String.eqb_refl in E; discriminate|]. apply IH. exact H.
Qed.

(* complete, once, sorted -- for the listing of any table *)
Lemma table_complete_sorted fname T :
  exists text bs,
    ListingM.generate_listing (ListingM.table_of (entries_of T)) (pm_of fname T) = Ok text /\ renders bs text /\
    NoDup (map fst bs) /\
    (forall file, In file (map fst bs) <-> exists g n v, In (KGlobal g n, v) T /\ fname g = file) /\
    Permutation (flat_map block_syms bs) (ordinary_of fname T) /\
    forall file, Permutation (rows_under file bs) (rows_owed fname file T) /\ Sorted line_le (rows_under file bs).
Proof.
  destruct (listing_of_table fname T) as (text & bs & G & R & [L1 L2] & P).
  exists text, bs. split; [exact G|]. split; [exact R|].
  assert (ND : NoDup (map fst bs)) by (rewrite L1; apply first_occ_nodup).
  split; [exact ND|]. split.
  { intros file. rewrite L1. split.
    - intros H. apply first_occ_in in H. apply in_map_iff in H. destruct H as [s [E Hs]].
      unfold ordinary_of in Hs. apply in_flat_map in Hs. destruct Hs as [[k z] [Hin Hs]].
      destruct k as [g m|g sc m]; simpl in Hs; [|destruct Hs]. destruct Hs as [<-|[]]. simpl in E. eauto.
    - intros (g & n & v & Hin & E). apply first_occ_complete. apply in_map_iff.
      exists (mkSym (fname g) n v). split; [exact E|]. apply in_ordinary_of. exact Hin. }
  split; [exact P|]. intros file.
  destruct (in_dec string_dec file (map fst bs)) as [Hin|Hnot].
  - apply in_map_iff in Hin. destruct Hin as [b [E Hb]]. subst file.
    rewrite (rows_under_unique bs ND b Hb). rewrite Forall_forall in L2. destruct (L2 b Hb) as [Pb Sb].
    split; [|exact Sb]. rewrite <- rows_owed_eq, <- (block_rows b). apply Permutation_map. exact Pb.
  - rewrite (rows_under_notin _ _ Hnot). split; [|constructor].
    rewrite <- rows_owed_eq, syms_of_file_nil; [constructor|].
    intros C. apply Hnot. rewrite L1. apply first_occ_complete. exact C.
Qed.

(* ------------------------------------------------------------------------------------------ *)
(* the image behind a placed statement *)
Lemma skipn_nth {A} (l : list A) : forall k x, nth_error l k = Some x -> skipn k l = x :: skipn (S k) l.
Proof.
  induction l as [|a r IH]; intros [|k] x H; simpl in *; try discriminate.
  - inversion H; reflexivity.
  - apply IH. exact H.
Qed.

Lemma concat_split {A} (l : list (list A)) k : concat l = concat (firstn k l) ++ concat (skipn k l).
Proof. rewrite <- concat_app, firstn_skipn. reflexivity. Qed.

Lemma skipn_hd {A} (l : list A) n c r : skipn n l = c :: r -> nth_error l n = Some c.
Proof.
  revert l. induction n as [|n IH]; intros l H; simpl in *.
  - subst. reflexivity.
  - destruct l as [|a l']; [discriminate|]. apply IH. exact H.
Qed.

Lemma placed_from_sound fname items : forall chunks off0 s off,
  In (s, off) (placed_from fname items chunks off0) ->
  exists k it c n, nth_error items k = Some it /\ nth_error chunks k = Some c /\ i_stmt it = Label n /\
     s = mkSym (fname (fst (i_scope it))) n (i_addr it) /\ off = (off0 + length (concat (firstn k chunks)))%nat.
Proof.
  induction items as [|it r IH]; intros chunks off0 s off H; [destruct H|].
  destruct chunks as [|c cr]; [destruct H|]. simpl in H. apply in_app_or in H. destruct H as [H|H].
  - destruct (i_stmt it) eqn:E; simpl in H; try contradiction. destruct H as [H|[]]. inversion H; subst.
    exists 0%nat, it, c, name. simpl. repeat split; auto.
  - destruct (IH _ _ _ _ H) as (k & it' & c' & n & A & B & C & D & F).
    exists (S k), it', c', n. simpl. repeat split; auto. rewrite app_length. lia.
Qed.

Lemma placed_from_complete fname items : forall chunks off0 k it c n,
  nth_error items k = Some it -> nth_error chunks k = Some c -> i_stmt it = Label n ->
  In (mkSym (fname (fst (i_scope it))) n (i_addr it), (off0 + length (concat (firstn k chunks)))%nat)
     (placed_from fname items chunks off0).
Proof.
  induction items as [|it0 r IH]; intros chunks off0 k it c n A B C; [destruct k; discriminate|].
  destruct chunks as [|c0 cr]; [destruct k; discriminate|]. simpl. apply in_or_app. destruct k as [|k]; simpl in *.
  - inversion A; subst. left. rewrite C. left. rewrite Nat.add_0_r. reflexivity.
  - right. rewrite app_length, Nat.add_assoc. eapply IH; eauto.
Qed.

Section Assembled.
Variable enc : list N -> option (list Z).
Variable fname : nat -> string.
Variable p : program.
Variable f : full.
Hypothesis HA : assemble_full enc p = XOk f.

(* every placed statement: the image from its address on is its own bytes and then the bytes of everything placed
   after it, nothing else *)
Lemma image_after k it bs : nth_error (f_items f) k = Some it -> nth_error (f_chunks f) k = Some bs ->
  i_addr it = f_base f + zlen (concat (firstn k (f_chunks f))) /\
  skipn (Z.to_nat (i_addr it - f_base f)) (concat (f_chunks f)) = bs ++ concat (skipn (S k) (f_chunks f)).
Proof.
  intros H1 H2. destruct (layout_thm _ _ _ HA) as (_ & _ & Hk & _).
  destruct (Hk _ _ _ H1 H2) as (_ & A1 & _). split; [exact A1|].
  rewrite (concat_split (f_chunks f) k) at 1. rewrite (skipn_nth _ _ _ H2). simpl.
  replace (Z.to_nat (i_addr it - f_base f)) with (length (concat (firstn k (f_chunks f)))) by (rewrite A1; unfold zlen; lia).
  rewrite skipn_app, skipn_all, Nat.sub_diag. reflexivity.
Qed.

Lemma label_chunk k it n : nth_error (f_items f) k = Some it -> i_stmt it = Label n -> nth_error (f_chunks f) k = Some [].
Proof.
  intros H1 H2. destruct (assemble_full_inv _ _ _ HA) as (st & dv & _ & _ & _ & _ & _ & He & _).
  destruct (xmapM_nth _ _ _ He) as [_ Hn]. destruct (Hn _ _ H1) as [y [Hy E]].
  unfold emit_item in E. rewrite H2 in E. simpl in E. inversion E; subst. exact Hy.
Qed.

Lemma label_in_table k it n : nth_error (f_items f) k = Some it -> i_stmt it = Label n ->
  klookup (KGlobal (fst (i_scope it)) n) (f_syms f) = Some (i_addr it).
Proof.
  intros H1 H2. pose proof (label_chunk _ _ _ H1 H2) as Hc.
  destruct (layout_thm _ _ _ HA) as (_ & _ & Hk & _). destruct (Hk _ _ _ H1 Hc) as (_ & _ & _ & _ & L).
  unfold lab_ok in L. rewrite H2 in L. exact L.
Qed.

Theorem listing_label_is_image_address :
  exists text bs,
    asm_listing fname f = Ok text /\ renders bs text /\ listing_of (ordinary_of fname (f_syms f)) bs /\
    points_into_image (f_base f) bs (asm_placed fname f) /\
    forall k it n, nth_error (f_items f) k = Some it -> i_stmt it = Label n ->
      In (i_addr it, n) (rows_under (fname (fst (i_scope it))) bs) /\
      In (mkSym (fname (fst (i_scope it))) n (i_addr it), length (concat (firstn k (f_chunks f)))) (asm_placed fname f) /\
      klookup (KGlobal (fst (i_scope it)) n) (f_syms f) = Some (i_addr it) /\
      f_base f <= i_addr it /\
      i_addr it = f_base f + zlen (concat (firstn k (f_chunks f))) /\
      skipn (Z.to_nat (i_addr it - f_base f)) (concat (f_chunks f)) = concat (skipn (S k) (f_chunks f)) /\
      (forall c r, concat (skipn (S k) (f_chunks f)) = c :: r ->
                   nth_error (concat (f_chunks f)) (Z.to_nat (i_addr it - f_base f)) = Some c).
Proof.
  destruct (listing_of_table fname (f_syms f)) as (text & bs & G & R & L & P).
  assert (PI : points_into_image (f_base f) bs (asm_placed fname f)).
  { apply (ListingP.label_is_image_address_lemma (f_base f) (ordinary_of fname (f_syms f)) (asm_placed fname f)); [| |exact L].
    - intros s off H. destruct (placed_from_sound _ _ _ _ _ _ H) as (k & it & c & n & A & B & C & D & F). subst s.
      apply in_ordinary_of. apply klookup_in. eapply label_in_table; eauto.
    - intros s off H. destruct (placed_from_sound _ _ _ _ _ _ H) as (k & it & c & n & A & B & C & D & F). subst s off.
      simpl. destruct (image_after _ _ _ A B) as [E _]. rewrite E. unfold zlen. reflexivity. }
  exists text, bs. split; [exact G|]. split; [exact R|]. split; [exact L|]. split; [exact PI|].
  intros k it n H1 H2. pose proof (label_chunk _ _ _ H1 H2) as Hc. destruct (image_after _ _ _ H1 Hc) as [E S].
  pose proof (placed_from_complete fname _ _ 0%nat _ _ _ _ H1 Hc H2) as Hp. simpl in Hp. fold (asm_placed fname f) in Hp.
  simpl in S. split.
  { destruct (PI _ _ Hp) as (b & Hb & Eb & Hl & _). simpl in *. eapply in_rows_under; eauto. }
  split; [exact Hp|]. split; [eapply label_in_table; eauto|]. split; [rewrite E; unfold zlen; lia|].
  split; [exact E|]. split; [exact S|]. intros c r Hcr. apply skipn_hd with (r := r). rewrite S. exact Hcr.
Qed.

End Assembled.

Theorem listing_complete_sorted enc fname p f : assemble_full enc p = XOk f ->
  exists text bs,
    asm_listing fname f = Ok text /\ renders bs text /\
    NoDup (map fst bs) /\
    (forall file, In file (map fst bs) <-> exists g n v, In (KGlobal g n, v) (f_syms f) /\ fname g = file) /\
    Permutation (flat_map block_syms bs) (ordinary_of fname (f_syms f)) /\
    forall file, Permutation (rows_under file bs) (rows_owed fname file (f_syms f)) /\ Sorted line_le (rows_under file bs).
Proof. intros _. apply table_complete_sorted. Qed.

Lemma adapter_ok fname T :
  ListingM.prefixes_known (pm_of fname T) (entries_of T) /\
  ListingM.ordinary (pm_of fname T) (entries_of T) = ordinary_of fname T.
Proof. split; [apply prefixes_known_of|apply ordinary_eq]. Qed.

Lemma image_after_thm enc p f : assemble_full enc p = XOk f ->
  forall k it bs, nth_error (f_items f) k = Some it -> nth_error (f_chunks f) k = Some bs ->
  i_addr it = f_base f + zlen (concat (firstn k (f_chunks f))) /\
  skipn (Z.to_nat (i_addr it - f_base f)) (concat (f_chunks f)) = bs ++ concat (skipn (S k) (f_chunks f)).
Proof. intros H. exact (image_after enc (fun _ => EmptyString) p f H). Qed.

(* ------------------------------------------------------------------------------------------ *)
(* the converse: where the ordinary entries of the final table come from *)
Definition Src (st st' : lstate) (d : list item) : Prop :=
  forall g n v, In (KGlobal g n, v) (l_labels st') ->
    In (KGlobal g n, v) (l_labels st) \/
    exists it, In it d /\ i_addr it = v /\ i_stmt it = Label n /\ fst (i_scope it) = g.

Lemma Src_refl st : Src st st [].
Proof. intros g n v H. left. exact H. Qed.

Lemma Src_trans st1 st2 st3 d1 d2 : Src st1 st2 d1 -> Src st2 st3 d2 -> Src st1 st3 (d1 ++ d2).
Proof.
  intros H1 H2 g n v Hin. destruct (H2 _ _ _ Hin) as [Hin2|(it & A & B)].
  - destruct (H1 _ _ _ Hin2) as [Hin1|(it & A & B)]; [left; exact Hin1|].
    right. exists it. split; [apply in_or_app; left; exact A|exact B].
  - right. exists it. split; [apply in_or_app; right; exact A|exact B].
Qed.

Section Src.
Variable enc : list N -> option (list Z).
Variable alldefs : list defn.
Variable allkeys : list key.
Variable exports : list (string * nat).
Variable fuel : nat.
Notation lay_leaf := (lay_leaf enc alldefs allkeys exports fuel).
Notation lay_stmt := (lay_stmt enc alldefs allkeys exports fuel).
Notation lay_list := (lay_list enc alldefs allkeys exports fuel).

Ltac fin H := unfold put in H; inversion H; subst; clear H; intros g n v Hin; simpl in Hin; try (left; exact Hin).

Lemma lay_leaf_src inrep s st st' d : lay_leaf inrep s st = XOk (st', d) -> Src st st' d.
Proof.
  unfold Asm.lay_leaf. intros H.
  destruct s; try discriminate; try (cbn [sized_size] in H; xinv H; fin H; fail).
  - destruct inrep; [discriminate|]. destruct (_ || _); [discriminate|]. fin H.
    destruct Hin as [E|Hin]; [|left; exact Hin]. inversion E; subst. right. eexists. split; [left; reflexivity|]. simpl. auto.
  - destruct inrep; [discriminate|]. destruct (kmem _ _); [discriminate|]. fin H.
    destruct Hin as [E|Hin]; [discriminate|left; exact Hin].
  - destruct inrep; [discriminate|]. destruct (_ || _); [discriminate|]. fin H.
  - destruct inrep; [discriminate|]. destruct (l_inc st); [discriminate|]. destruct (l_based st); [discriminate|]. fin H.
  - destruct (l_inc st); [discriminate|]. destruct (l_based st).
    + xinv H. fin H.
    + destruct inrep; [discriminate|]. fin H.
  - destruct inrep; [discriminate|]. fin H.
  - destruct inrep; [discriminate|]. fin H.
Qed.

Definition stmt_src (s : stmt) : Prop := forall inrep st st' d, lay_stmt inrep s st = XOk (st', d) -> Src st st' d.

Lemma lay_list_src l : Forall stmt_src l -> forall inrep st st' d, lay_list inrep l st = XOk (st', d) -> Src st st' d.
Proof.
  induction 1 as [|x r Hx _ IH]; intros inrep st st' d H; simpl in H.
  - inversion H; subst. apply Src_refl.
  - xinv H. destruct a as [s1 d1]. destruct a0 as [s2 d2]. simpl in *. inversion H; subst.
    eapply Src_trans; [eapply Hx; eauto|eapply IH; eauto].
Qed.

Lemma iter_src body : Forall stmt_src body -> forall n st st' d,
  iter_x n (lay_list true body) st = XOk (st', d) -> Src st st' d.
Proof.
  intros Hb. induction n as [|n IH]; intros st st' d H; simpl in H.
  - inversion H; subst. apply Src_refl.
  - xinv H. destruct a as [s1 d1]. destruct a0 as [s2 d2]. simpl in *. inversion H; subst.
    eapply Src_trans; [eapply lay_list_src; eauto|eapply IH; eauto].
Qed.

Lemma lay_stmt_src s : stmt_src s.
Proof.
  induction s as [ce body IH | own fid body IH | s Hs] using stmt_ind2; intros inrep st st' d H.
  - rewrite lay_stmt_repeat in H. xinv H. destruct (65536 <? a0); [discriminate|]. eapply iter_src; eauto.
  - destruct inrep; [discriminate|]. rewrite lay_stmt_include in H. xinv H. destruct a as [s1 d1]. simpl in H. inversion H; subst.
    pose proof (lay_list_src _ (Forall_cut_end _ _ IH) _ _ _ _ Ha) as S. intros g n v Hin. simpl in Hin. exact (S g n v Hin).
  - rewrite lay_stmt_leaf in H by exact Hs. eapply lay_leaf_src; eauto.
Qed.

Lemma lay_program_src l inrep st st' d : lay_list inrep l st = XOk (st', d) -> Src st st' d.
Proof. apply lay_list_src. apply Forall_forall. intros x _. apply lay_stmt_src. Qed.
End Src.

Lemma xmapM_in {A B} (g : A -> xres B) l : forall l' y, xmapM g l = XOk l' -> In y l' -> exists x, In x l /\ g x = XOk y.
Proof.
  induction l as [|x xs IH]; simpl; intros l' y H Hy.
  - inversion H; subst. destruct Hy.
  - xinv H. inversion H; subst. destruct Hy as [<-|Hy]; [exists x; auto|].
    destruct (IH _ _ Ha0 Hy) as [x' [A1 A2]]. exists x'. auto.
Qed.

(* every ordinary entry of the final table -- hence every row of the listing -- is the address of a placed Label
   statement of that file, or the value of a `name = expr` definition of that file *)
Theorem table_sources enc p f : assemble_full enc p = XOk f ->
  forall g n v, In (KGlobal g n, v) (f_syms f) ->
    (exists k it, nth_error (f_items f) k = Some it /\ i_stmt it = Label n /\ fst (i_scope it) = g /\ i_addr it = v) \/
    (exists d, In d (collect_defs 0 0 (cut_end p)) /\ d_file d = g /\ d_name d = n).
Proof.
  intros HA g n v Hin. destruct (assemble_full_inv _ _ _ HA) as (st & dv & _ & _ & Hl & Hd & Hs & _).
  rewrite Hs in Hin. apply in_app_or in Hin. destruct Hin as [Hin|Hin].
  - left. destruct (lay_program_src _ _ _ _ _ _ _ _ _ _ Hl g n v Hin) as [C|(it & A & B & C & D)]; [destruct C|].
    apply In_nth_error in A. destruct A as [k A]. exists k, it. auto.
  - right. unfold def_values in Hd. destruct (xmapM_in _ _ _ _ Hd Hin) as [d [A B]]. xinv B. inversion B; subst.
    exists d. auto.
Qed.

Lemma in_rows_owed fname file T v n : In (v, n) (rows_owed fname file T) ->
  exists g, fname g = file /\ In (KGlobal g n, v) T.
Proof.
  unfold rows_owed. intros H. apply in_flat_map in H. destruct H as [[k z] [Hin H]].
  destruct k as [g m|g sc m]; simpl in H; [|destruct H].
  destruct (String.eqb (fname g) file) eqn:E; [|destruct H]. destruct H as [H|[]]. inversion H; subst.
  apply String.eqb_eq in E. eauto.
Qed.

(* every row of the listing: a label whose address is where the bytes placed after it begin in the image, or a constant *)
Theorem listing_rows_sources enc fname p f : assemble_full enc p = XOk f ->
  exists text bs,
    asm_listing fname f = Ok text /\ renders bs text /\
    forall file v n, In (v, n) (rows_under file bs) ->
      exists g, fname g = file /\
        ((exists k it, nth_error (f_items f) k = Some it /\ i_stmt it = Label n /\ fst (i_scope it) = g /\ i_addr it = v /\
                       f_base f <= v /\
                       skipn (Z.to_nat (v - f_base f)) (concat (f_chunks f)) = concat (skipn (S k) (f_chunks f))) \/
         (exists d, In d (collect_defs 0 0 (cut_end p)) /\ d_file d = g /\ d_name d = n)).
Proof.
  intros HA. destruct (table_complete_sorted fname (f_syms f)) as (text & bs & G & R & _ & _ & _ & Hr).
  exists text, bs. split; [exact G|]. split; [exact R|]. intros file v n Hin.
  destruct (Hr file) as [P _]. apply (Permutation_in _ P) in Hin. destruct (in_rows_owed _ _ _ _ _ Hin) as [g [E HT]].
  exists g. split; [exact E|]. destruct (table_sources _ _ _ HA _ _ _ HT) as [(k & it & A & B & C & D)|Hd]; [left|right; exact Hd].
  exists k, it. assert (Hc : nth_error (f_chunks f) k = Some []) by (eapply label_chunk; eauto).
  destruct (image_after_thm _ _ _ HA _ _ _ A Hc) as [E1 S]. simpl in S. subst v.
  repeat split; auto. rewrite E1. unfold zlen. lia.
Qed.
