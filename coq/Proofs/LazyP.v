(* C03 -- lemmas about Model/LazyEval.v *)
From Coq Require Import String List ZArith Bool Lia Permutation PeanoNat.
From Verif Require Import Base.Res Model.LazyEval.
Import ListNotations.
Open Scope Z_scope.

(* ------------------------------------------------------------------ lookup *)
Lemma lookup_app {A} n (T1 T2 : list (string * A)) :
  lookup n (T1 ++ T2) = match lookup n T1 with Some d => Some d | None => lookup n T2 end.
Proof.
  induction T1 as [|[k d] r IH]; simpl; auto.
  destruct (String.eqb n k); auto.
Qed.

Lemma lookup_none_notin {A} n (T : list (string * A)) :
  lookup n T = None <-> ~ In n (map fst T).
Proof.
  induction T as [|[k d] r IH]; simpl.
  - tauto.
  - destruct (String.eqb n k) eqn:E.
    + apply String.eqb_eq in E. subst. split; [discriminate|tauto].
    + apply String.eqb_neq in E. rewrite IH. split; intros H.
      * intros [H1|H1]; [congruence|tauto].
      * tauto.
Qed.

Lemma lookup_in {A} n (d : A) (T : list (string * A)) :
  lookup n T = Some d -> In (n, d) T.
Proof.
  induction T as [|[k d'] r IH]; simpl; [discriminate|].
  destruct (String.eqb n k) eqn:E.
  - apply String.eqb_eq in E. intros H; inversion H; subst. auto.
  - auto.
Qed.

Lemma in_lookup_nodup {A} n (d : A) (T : list (string * A)) :
  NoDup (map fst T) -> In (n, d) T -> lookup n T = Some d.
Proof.
  induction T as [|[k d'] r IH]; simpl; [tauto|].
  intros ND [H|H].
  - inversion H; subst. rewrite String.eqb_refl. reflexivity.
  - inversion ND; subst. destruct (String.eqb n k) eqn:E.
    + apply String.eqb_eq in E. subst. exfalso. apply H2.
      change k with (fst (k, d)). apply in_map. exact H.
    + auto.
Qed.

Lemma lookup_perm {A} (T T' : list (string * A)) :
  NoDup (map fst T) -> Permutation T T' -> forall n, lookup n T = lookup n T'.
Proof.
  intros ND P n.
  assert (ND' : NoDup (map fst T')).
  { eapply Permutation_NoDup; [|exact ND]. apply Permutation_map. exact P. }
  destruct (lookup n T) eqn:E.
  - symmetry. apply in_lookup_nodup; auto. eapply Permutation_in; [exact P|]. apply lookup_in; auto.
  - destruct (lookup n T') eqn:E'; auto.
    apply lookup_in in E'. apply Permutation_sym in P. eapply Permutation_in in E'; [|exact P].
    apply in_lookup_nodup in E'; auto. congruence.
Qed.

(* ------------------------------------------------------------------ eval: extensionality, fuel *)
Lemma eval_ext T T' : (forall n, lookup n T = lookup n T') ->
  forall f aw e, eval f T aw e = eval f T' aw e.
Proof.
  intros X f. induction f as [|f IH]; intros aw e; simpl; auto.
  destruct e; auto.
  - destruct (mem n aw); auto. rewrite <- X. destruct (lookup n T); auto.
  - rewrite !IH. reflexivity.
Qed.

Definition pend (D : defs) : ltable := map (fun nd => (fst nd, Pending (snd nd))) D.

Lemma lookup_pend n D : lookup n (pend D) = option_map Pending (lookup n D).
Proof.
  induction D as [|[k d] r IH]; simpl; auto.
  destruct (String.eqb n k); auto.
Qed.

Lemma eval_as_ev D : forall f aw e, ev false f (pend D) aw e = Some (eval f D aw e).
Proof.
  induction f as [|f IH]; intros aw e; simpl; auto.
  destruct e; auto.
  - destruct (mem n aw); auto. rewrite lookup_pend. destruct (lookup n D); simpl; auto.
  - rewrite !IH. destruct (eval f D aw e1); simpl; auto.
    destruct (eval f D aw e2); simpl; auto.
Qed.

Lemma ev_false_some : forall f T aw e, ev false f T aw e <> None.
Proof.
  induction f as [|f IH]; intros T aw e; simpl; [discriminate|].
  destruct e; try discriminate.
  - destruct (mem n aw); [discriminate|]. destruct (lookup n T) as [[v|d]|]; try discriminate. apply IH.
  - specialize (IH T aw). destruct (ev false f T aw e1) as [[x| | |]|] eqn:E1; try discriminate.
    + destruct (ev false f T aw e2) as [[y| | |]|] eqn:E2; try discriminate. exfalso; eapply IH; eauto.
    + exfalso; eapply IH; eauto.
Qed.

Lemma ev_mono_fuel s : forall f T aw e r,
  ev s f T aw e = Some r -> r <> OutOfFuel -> forall f', (f <= f')%nat -> ev s f' T aw e = Some r.
Proof.
  induction f as [|f IH]; intros T aw e r H NO f' L; simpl in H.
  - inversion H; subst. congruence.
  - destruct f' as [|f']; [lia|]. assert (L' : (f <= f')%nat) by lia. simpl.
    destruct e; auto.
    + destruct (mem n aw); auto. destruct (lookup n T) as [[v|d]|]; auto; try (eapply IH; eauto).
    + destruct (ev s f T aw e1) as [[x| | |]|] eqn:E1; try discriminate.
      * rewrite (IH _ _ _ _ E1 ltac:(discriminate) f' L').
        destruct (ev s f T aw e2) as [[y| | |]|] eqn:E2; try discriminate.
        -- rewrite (IH _ _ _ _ E2 ltac:(discriminate) f' L'). exact H.
        -- inversion H; subst. rewrite (IH _ _ _ _ E2 ltac:(discriminate) f' L'). reflexivity.
        -- inversion H; subst. rewrite (IH _ _ _ _ E2 ltac:(discriminate) f' L'). reflexivity.
        -- inversion H; subst. congruence.
      * inversion H; subst. rewrite (IH _ _ _ _ E1 ltac:(discriminate) f' L'). reflexivity.
      * inversion H; subst. rewrite (IH _ _ _ _ E1 ltac:(discriminate) f' L'). reflexivity.
      * inversion H; subst. congruence.
Qed.

Lemma eval_mono_fuel D f aw e r :
  eval f D aw e = r -> r <> OutOfFuel -> forall f', (f <= f')%nat -> eval f' D aw e = r.
Proof.
  intros H NO f' L.
  assert (X := eval_as_ev D f aw e). rewrite H in X.
  apply (ev_mono_fuel false _ _ _ _ _ X NO f') in L. rewrite eval_as_ev in L. congruence.
Qed.

(* ------------------------------------------------------------------ enough fuel *)
Definition free {A} (T : list (string * A)) (aw : list string) : nat :=
  length (filter (fun x => negb (mem x aw)) (map fst T)).

Lemma filter_lt {A} (P P' : A -> bool) l x :
  In x l -> P x = true -> P' x = false -> (forall y, P' y = true -> P y = true) ->
  (length (filter P' l) < length (filter P l))%nat.
Proof.
  intros I Px P'x Imp.
  assert (LE : forall l0, (length (filter P' l0) <= length (filter P l0))%nat).
  { induction l0 as [|y r IH]; simpl; auto.
    destruct (P' y) eqn:E.
    - rewrite (Imp _ E). simpl. lia.
    - destruct (P y); simpl; lia. }
  induction l as [|y r IH]; simpl in *; [tauto|].
  destruct I as [I|I].
  - subst. rewrite Px, P'x. simpl. specialize (LE r). lia.
  - specialize (IH I). destruct (P' y) eqn:E.
    + rewrite (Imp _ E). simpl. lia.
    + destruct (P y); simpl; lia.
Qed.

Lemma free_le {A} (T : list (string * A)) aw : (free T aw <= length T)%nat.
Proof.
  unfold free. rewrite <- (map_length fst T).
  induction (map fst T) as [|y r IH]; simpl; auto.
  destruct (negb (mem y aw)); simpl; lia.
Qed.

Lemma free_dec {A} (T : list (string * A)) aw n :
  In n (map fst T) -> mem n aw = false -> (free T (n :: aw) < free T aw)%nat.
Proof.
  intros I M. unfold free. eapply filter_lt; eauto.
  - rewrite M. reflexivity.
  - simpl. rewrite String.eqb_refl. reflexivity.
  - intros y. simpl. destruct (String.eqb y n); simpl; [discriminate|auto].
Qed.

Definition lheights (H : nat) (T : ltable) : Prop :=
  forall n d, In (n, Pending d) T -> (height d <= H)%nat.

Lemma ev_no_oof s H T : lheights H T ->
  forall f aw e, (free T aw * S H + height e < f)%nat -> ev s f T aw e <> Some OutOfFuel.
Proof.
  intros LH. induction f as [|f IH]; intros aw e L; [lia|]. simpl.
  destruct e.
  - discriminate.
  - destruct (mem n aw) eqn:M; [destruct s; discriminate|].
    destruct (lookup n T) as [[v|d]|] eqn:E; try (destruct s; discriminate).
    apply IH.
    assert (I : In n (map fst T)).
    { apply lookup_in in E. change n with (fst (n, Pending d)). apply in_map. exact E. }
    pose proof (free_dec T aw n I M).
    apply lookup_in in E. apply LH in E. simpl in L. nia.
  - simpl in L.
    assert (L1 : (free T aw * S H + height e1 < f)%nat) by lia.
    assert (L2 : (free T aw * S H + height e2 < f)%nat) by lia.
    specialize (IH aw). pose proof (IH e1 L1). pose proof (IH e2 L2).
    destruct (ev s f T aw e1) as [[x| | |]|]; try discriminate; try congruence.
    destruct (ev s f T aw e2) as [[y| | |]|]; try discriminate; try congruence.
    destruct o; simpl; try discriminate. unfold op_div. destruct (y =? 0); discriminate.
Qed.

Lemma max_height_in D n d : In (n, d) D -> (height d <= max_height D)%nat.
Proof.
  induction D as [|[k d'] r IH]; simpl; [tauto|].
  intros [H|H]; [inversion H; subst; lia|]. specialize (IH H). lia.
Qed.

Lemma lheights_pend D H : (max_height D <= H)%nat -> lheights H (pend D).
Proof.
  intros L n d I. unfold pend in I. apply in_map_iff in I. destruct I as [[k d'] [E I]].
  simpl in E. inversion E; subst. apply max_height_in in I. lia.
Qed.

Lemma free_pend D aw : free (pend D) aw = free D aw.
Proof.
  unfold free, pend. rewrite map_map. simpl. reflexivity.
Qed.

Lemma eval_enough D e f aw : (fuel_bound D e <= f)%nat -> eval f D aw e <> OutOfFuel.
Proof.
  intros L E.
  set (H := Nat.max (max_height D) (height e)).
  assert (LH : lheights H (pend D)) by (apply lheights_pend; unfold H; lia).
  apply (ev_no_oof false H (pend D) LH f aw e).
  - rewrite free_pend. pose proof (free_le D aw). unfold fuel_bound in L. fold H in L.
    assert (height e <= H)%nat by (unfold H; lia). nia.
  - rewrite eval_as_ev. congruence.
Qed.

(* ------------------------------------------------------------------ order independence *)
Lemma order_independent_lemma (D D' : defs) (e : expr) :
  NoDup (map fst D) -> Permutation D D' ->
  forall f f', (fuel_bound D e <= f)%nat -> (fuel_bound D' e <= f')%nat ->
  eval f' D' [] e = eval f D [] e /\ eval f D [] e <> OutOfFuel.
Proof.
  intros ND P f f' L L'.
  pose proof (eval_enough D e f [] L) as N.
  pose proof (eval_enough D' e f' [] L') as N'.
  split; auto.
  pose proof (lookup_perm D D' ND P) as X.
  rewrite <- (eval_mono_fuel D f [] e _ eq_refl N (Nat.max f f') ltac:(lia)).
  rewrite <- (eval_mono_fuel D' f' [] e _ eq_refl N' (Nat.max f f') ltac:(lia)).
  symmetry. apply eval_ext. exact X.
Qed.

(* ------------------------------------------------------------------ big-step semantics without an
   awaiting set (least fixed point), indexed by the height of the derivation *)
Inductive bs (D : defs) : expr -> Z -> nat -> Prop :=
| bs_const z : bs D (Const z) z 0
| bs_sym n d v h : lookup n D = Some d -> bs D d v h -> bs D (Sym n) v (S h)
| bs_bin o a b x y v ha hb :
    bs D a x ha -> bs D b y hb -> apply_bin o x y = Ok v -> bs D (Bin o a b) v (S (Nat.max ha hb)).

Lemma bs_unique D e v h : bs D e v h -> forall v' h', bs D e v' h' -> v = v' /\ h = h'.
Proof.
  induction 1; intros v' h' B; inversion B; subst.
  - auto.
  - match goal with A : lookup n D = Some ?d2, A' : bs D ?d2 v' _ |- _ =>
      assert (d2 = d) by congruence; subst d2; destruct (IHbs _ _ A') end. subst. auto.
  - repeat match goal with
    | A : bs D a _ _ |- _ => destruct (IHbs1 _ _ A); clear A
    | A : bs D b _ _ |- _ => destruct (IHbs2 _ _ A); clear A
    end. subst.
    match goal with A : apply_bin o _ _ = Ok v, A' : apply_bin o _ _ = Ok v' |- _ =>
      rewrite A in A'; inversion A' end. auto.
Qed.

(* what the walk's table says about the definitions D *)
Definition repP (T : ltable) (D : defs) : Prop :=
  forall n ent, lookup n T = Some ent ->
    match ent with
    | Pending d => lookup n D = Some d
    | Known v => exists h, bs D (Sym n) v h
    end.

Definition total (T : ltable) (D : defs) : Prop :=
  forall n d, lookup n D = Some d -> lookup n T <> None.

Lemma ev_sound s T D : repP T D ->
  forall f aw e v, ev s f T aw e = Some (Ok v) -> exists h, bs D e v h.
Proof.
  intros R. induction f as [|f IH]; intros aw e v H; simpl in H; [discriminate|].
  destruct e.
  - inversion H; subst. eexists; constructor.
  - destruct (mem n aw); [destruct s; discriminate|].
    destruct (lookup n T) as [[v'|d]|] eqn:E; try (destruct s; discriminate).
    + inversion H; subst. apply (R _ _ E).
    + pose proof (R _ _ E) as L. simpl in L. apply IH in H. destruct H as [h B].
      eexists. econstructor; eauto.
  - destruct (ev s f T aw e1) as [[x| | |]|] eqn:E1; try discriminate.
    destruct (ev s f T aw e2) as [[y| | |]|] eqn:E2; try discriminate.
    inversion H. apply IH in E1. apply IH in E2. destruct E1 as [h1 B1]. destruct E2 as [h2 B2].
    eexists. econstructor; eauto.
Qed.

(* every name being awaited has a derivation (if any) strictly higher than the current one *)
Definition awinv (D : defs) (aw : list string) (h : nat) : Prop :=
  forall m v' h', mem m aw = true -> bs D (Sym m) v' h' -> (h < h')%nat.

Lemma mem_cons n m aw : mem m (n :: aw) = true -> m = n \/ mem m aw = true.
Proof.
  simpl. destruct (String.eqb m n) eqn:E; simpl; auto.
  apply String.eqb_eq in E. auto.
Qed.

Lemma ev_complete T D : repP T D -> total T D ->
  forall e v h, bs D e v h -> forall f aw, (h < f)%nat -> awinv D aw h ->
  ev false f T aw e = Some (Ok v).
Proof.
  intros R Tot. induction 1; intros f aw L AI; (destruct f as [|f]; [lia|]); simpl.
  - reflexivity.
  - destruct (mem n aw) eqn:M.
    + exfalso. assert (B : bs D (Sym n) v (S h)) by (econstructor; eauto).
      specialize (AI _ _ _ M B). lia.
    + destruct (lookup n T) as [[v'|d']|] eqn:E.
      * destruct (R _ _ E) as [h' B'].
        assert (B : bs D (Sym n) v (S h)) by (econstructor; eauto).
        destruct (bs_unique _ _ _ _ B _ _ B'). subst. reflexivity.
      * pose proof (R _ _ E) as L'. simpl in L'. rewrite H in L'. inversion L'; subst.
        apply IHbs; [lia|].
        intros m v' h' Mm Bm. apply mem_cons in Mm. destruct Mm as [->|Mm].
        -- assert (B : bs D (Sym n) v (S h)) by (econstructor; eauto).
           destruct (bs_unique _ _ _ _ B _ _ Bm). lia.
        -- specialize (AI _ _ _ Mm Bm). lia.
      * exfalso. eapply Tot; eauto.
  - rewrite (IHbs1 f aw) by (try lia; intros m v' h' Mm Bm; specialize (AI _ _ _ Mm Bm); lia).
    rewrite (IHbs2 f aw) by (try lia; intros m v' h' Mm Bm; specialize (AI _ _ _ Mm Bm); lia).
    rewrite H1. reflexivity.
Qed.

Lemma repP_pend D : repP (pend D) D.
Proof.
  intros n ent E. rewrite lookup_pend in E. destruct (lookup n D); simpl in E; inversion E. reflexivity.
Qed.

Lemma total_pend D : total (pend D) D.
Proof.
  intros n d E. rewrite lookup_pend, E. discriminate.
Qed.

Lemma awinv_nil D h : awinv D [] h.
Proof. intros m v' h' M. discriminate. Qed.

Lemma eval_sound D f aw e v : eval f D aw e = Ok v -> exists h, bs D e v h.
Proof.
  intros H. eapply (ev_sound false (pend D) D (repP_pend D) f aw e v).
  rewrite eval_as_ev, H. reflexivity.
Qed.

Lemma eval_complete D e v h f : bs D e v h -> (h < f)%nat -> eval f D [] e = Ok v.
Proof.
  intros B L.
  pose proof (ev_complete (pend D) D (repP_pend D) (total_pend D) e v h B f [] L (awinv_nil D h)) as X.
  rewrite eval_as_ev in X. congruence.
Qed.

Lemma eval_complete_bound D e v h f : bs D e v h -> (fuel_bound D e <= f)%nat -> eval f D [] e = Ok v.
Proof.
  intros B L.
  pose proof (eval_enough D e f [] L) as N.
  pose proof (eval_complete D e v h (Nat.max f (S h)) B ltac:(lia)) as X.
  rewrite <- X. symmetry. eapply eval_mono_fuel; eauto. lia.
Qed.

(* ------------------------------------------------------------------ chains of any length *)
Lemma chain_from_lookup_other r : forall prev n, ~ In n (map fst r) -> lookup n (chain_from prev r) = None.
Proof.
  induction r as [|[k c] r IH]; intros prev n NI; simpl in *; auto.
  destruct (String.eqb n k) eqn:E.
  - apply String.eqb_eq in E. subst. tauto.
  - apply IH. tauto.
Qed.

Lemma bs_chain_from D : forall r prev vprev hprev,
  NoDup (map fst r) ->
  bs D (Sym prev) vprev hprev ->
  (forall n d, lookup n (chain_from prev r) = Some d -> lookup n D = Some d) ->
  forall n c, last (map Some r) None = Some (n, c) ->
  bs D (Sym n) (vprev + zsum (map snd r)) (hprev + 2 * length r).
Proof.
  induction r as [|[k c0] r IH]; intros prev vprev hprev ND B Sub n c L.
  - simpl in L. discriminate.
  - simpl in Sub.
    assert (Bk : bs D (Sym k) (vprev + c0) (S (S hprev))).
    { econstructor.
      - apply Sub. rewrite String.eqb_refl. reflexivity.
      - replace (S hprev) with (S (Nat.max hprev 0)) by lia.
        econstructor; [exact B|constructor|reflexivity]. }
    destruct r as [|[k2 c2] r'].
    + simpl in L. inversion L; subst. simpl. unfold zsum; simpl.
      replace (vprev + (c + 0)) with (vprev + c) by lia.
      replace (hprev + 2)%nat with (S (S hprev)) by lia. exact Bk.
    + inversion ND; subst.
      assert (X := IH k (vprev + c0) (S (S hprev)) H2 Bk).
      assert (Sub' : forall n d, lookup n (chain_from k ((k2, c2) :: r')) = Some d -> lookup n D = Some d).
      { intros n0 d0 E. apply Sub. destruct (String.eqb n0 k) eqn:E0; auto.
        apply String.eqb_eq in E0. subst. rewrite chain_from_lookup_other in E; [discriminate|exact H1]. }
      specialize (X Sub' n c). 
      replace (vprev + zsum (map snd ((k, c0) :: (k2, c2) :: r'))) with (vprev + c0 + zsum (map snd ((k2, c2) :: r')))
        by (unfold zsum; simpl; lia).
      replace (hprev + 2 * length ((k, c0) :: (k2, c2) :: r'))%nat with (S (S hprev) + 2 * length ((k2, c2) :: r'))%nat
        by (simpl; lia).
      apply X. exact L.
Qed.

Lemma chain_from_fst r : forall prev, map fst (chain_from prev r) = map fst r.
Proof.
  induction r as [|[k c] r IH]; intros prev; simpl; auto. rewrite IH. reflexivity.
Qed.

Lemma chain_any_length_lemma (l : list (string * Z)) (D : defs) n c :
  NoDup (map fst l) -> Permutation D (chain_defs l) ->
  last (map Some l) None = Some (n, c) ->
  eval (2 * length l) D [] (Sym n) = Ok (zsum (map snd l)).
Proof.
  intros ND P L.
  destruct l as [|[k0 c0] r]; [discriminate|].
  assert (NDc : NoDup (map fst (chain_defs ((k0, c0) :: r)))).
  { simpl. rewrite chain_from_fst. exact ND. }
  assert (X : forall m, lookup m D = lookup m (chain_defs ((k0, c0) :: r))).
  { intros m. symmetry. apply lookup_perm; auto. apply Permutation_sym. exact P. }
  rewrite (eval_ext D _ X).
  set (C := chain_defs ((k0, c0) :: r)).
  assert (B0 : bs C (Sym k0) c0 1).
  { econstructor; [|constructor]. unfold C. simpl. rewrite String.eqb_refl. reflexivity. }
  destruct r as [|[k1 c1] r'].
  - simpl in L. inversion L; subst. unfold zsum; simpl. rewrite String.eqb_refl.
    f_equal. lia.
  - simpl in ND. inversion ND; subst.
    assert (Sub : forall n d, lookup n (chain_from k0 ((k1, c1) :: r')) = Some d -> lookup n C = Some d).
    { intros m d E. unfold C. simpl chain_defs. simpl lookup at 1.
      destruct (String.eqb m k0) eqn:E0; auto.
      apply String.eqb_eq in E0. subst. rewrite chain_from_lookup_other in E; [discriminate|exact H1]. }
    pose proof (bs_chain_from C ((k1, c1) :: r') k0 c0 1%nat H2 B0 Sub n c L) as B.
    replace (zsum (map snd ((k0, c0) :: (k1, c1) :: r'))) with (c0 + zsum (map snd ((k1, c1) :: r')))
      by (unfold zsum; simpl; lia).
    eapply eval_complete; [exact B|]. simpl. lia.
Qed.

(* ------------------------------------------------------------------ try now, else defer *)
Definition sub (T T' : ltable) : Prop := forall n ent, lookup n T = Some ent -> lookup n T' = Some ent.

Lemma lazy_monotone_gen s' : forall f T T' aw e v,
  ev true f T aw e = Some (Ok v) -> sub T T' -> ev s' f T' aw e = Some (Ok v).
Proof.
  induction f as [|f IH]; intros T T' aw e v H S; simpl in H; [discriminate|]. simpl.
  destruct e.
  - exact H.
  - destruct (mem n aw); [discriminate|].
    destruct (lookup n T) as [[v'|d]|] eqn:E; [| |discriminate].
    + rewrite (S _ _ E). exact H.
    + rewrite (S _ _ E). eapply IH; eauto.
  - destruct (ev true f T aw e1) as [[x| | |]|] eqn:E1; try discriminate.
    destruct (ev true f T aw e2) as [[y| | |]|] eqn:E2; try discriminate.
    rewrite (IH _ _ _ _ _ E1 S), (IH _ _ _ _ _ E2 S). exact H.
Qed.

Lemma ev_plain s : forall f T aw e r, ev s f T aw e = Some r -> forall c, r <> Crash c.
Proof.
  induction f as [|f IH]; intros T aw e r H c; simpl in H.
  - inversion H; discriminate.
  - destruct e.
    + inversion H; discriminate.
    + destruct (mem n aw); [destruct s; inversion H; discriminate|].
      destruct (lookup n T) as [[v|d]|]; try (destruct s; inversion H; discriminate).
      eapply IH; eauto.
    + destruct (ev s f T aw e1) as [[x|ids|c1|]|] eqn:E1; try discriminate.
      * destruct (ev s f T aw e2) as [[y|ids|c2|]|] eqn:E2; try discriminate.
        -- injection H as <-. unfold apply_bin, op_div. destruct o; try discriminate.
           destruct (y =? 0); discriminate.
        -- injection H as <-. discriminate.
        -- exfalso. eapply (IH _ _ _ _ E2). reflexivity.
        -- injection H as <-. discriminate.
      * injection H as <-. discriminate.
      * exfalso. eapply (IH _ _ _ _ E1). reflexivity.
      * injection H as <-. discriminate.
Qed.

Lemma stmts_height_defs ss : (max_height (defs_of ss) <= stmts_height ss)%nat.
Proof.
  induction ss as [|[n d|e] r IH]; simpl; lia.
Qed.

Section Run.
  Variable D : defs.
  Variable Hs : nat.
  Variable f : nat.
  Hypothesis ND : NoDup (map fst D).
  Hypothesis HD : (max_height D <= Hs)%nat.

  Definition use_ok (u : Z + expr) (e : expr) : Prop :=
    (height e <= Hs)%nat /\
    match u with inl v => exists h, bs D e v h | inr e' => e' = e end.

  Lemma pass1_inv : forall rest T,
    repP T D -> lheights Hs T ->
    map fst T ++ map fst (defs_of rest) = map fst D ->
    incl (defs_of rest) D ->
    (stmts_height rest <= Hs)%nat ->
    let '(T', us) := pass1 f rest T in
    repP T' D /\ lheights Hs T' /\ map fst T' = map fst D /\ Forall2 use_ok us (uses_of rest).
  Proof.
    induction rest as [|[n d|e] r IH]; intros T R LH MF IN SH.
    - simpl. simpl in MF. rewrite app_nil_r in MF. auto.
    - simpl. simpl in MF, IN, SH.
      set (ent := match try_now f T d with Some v => Known v | None => Pending d end).
      assert (LD : lookup n D = Some d).
      { apply in_lookup_nodup; auto. apply IN. left. reflexivity. }
      apply IH.
      + intros m e0 E. rewrite lookup_app in E. destruct (lookup m T) eqn:E0.
        * inversion E; subst. apply (R _ _ E0).
        * simpl in E. destruct (String.eqb m n) eqn:Emn; [|discriminate].
          apply String.eqb_eq in Emn. subst m. inversion E; subst e0. unfold ent.
          unfold try_now. destruct (ev true f T [] d) as [[v| | |]|] eqn:Ev; auto.
          destruct (ev_sound true T D R _ _ _ _ Ev) as [h B]. eexists. econstructor; eauto.
      + intros m d0 I. apply in_app_or in I. destruct I as [I|I].
        * eapply LH; eauto.
        * simpl in I. destruct I as [I|[]]. inversion I; subst. unfold ent in H1.
          destruct (try_now f T d); inversion H1. subst. lia.
      + rewrite map_app. simpl. rewrite <- app_assoc. exact MF.
      + intros x I. apply IN. right. exact I.
      + lia.
    - simpl. simpl in MF, IN, SH.
      specialize (IH T R LH MF IN ltac:(lia)).
      destruct (pass1 f r T) as [T' us].
      destruct IH as (R' & LH' & MF' & F). repeat split; auto.
      constructor; auto. split; [lia|].
      unfold try_now. destruct (ev true f T [] e) as [[v| | |]|] eqn:Ev; auto.
      eapply ev_sound; eauto.
  Qed.

  Hypothesis FU : (S (length D) * S Hs + 1 <= f)%nat.

  Lemma bound_ok e : (height e <= Hs)%nat -> (fuel_bound D e <= f)%nat.
  Proof.
    intros L. unfold fuel_bound.
    assert (Nat.max (max_height D) (height e) <= Hs)%nat by lia. nia.
  Qed.

  Lemma force_equiv T u e :
    repP T D -> lheights Hs T -> map fst T = map fst D -> use_ok u e ->
    res_equiv (force f T u) (eval f D [] e).
  Proof.
    intros R LH MF [HE U].
    pose proof (bound_ok e HE) as FB.
    destruct u as [v|e'].
    - destruct U as [h B]. simpl. rewrite (eval_complete_bound D e v h f B FB). reflexivity.
    - subst e'. simpl.
      assert (Tot : total T D).
      { intros n d E X. apply lookup_none_notin in X. rewrite MF in X.
        apply lookup_none_notin in X. congruence. }
      destruct (ev false f T [] e) as [r1|] eqn:E1; [|exfalso; eapply ev_false_some; eauto].
      assert (N1 : r1 <> OutOfFuel).
      { intros ->. eapply (ev_no_oof false Hs T LH f [] e); eauto.
        pose proof (free_le T []). assert (length T = length D).
        { rewrite <- (map_length fst T), MF, map_length. reflexivity. }
        nia. }
      pose proof (eval_enough D e f [] FB) as N2.
      pose proof (ev_plain _ _ _ _ _ _ E1) as P1.
      assert (P2 : forall c, eval f D [] e <> Crash c).
      { intros c. eapply ev_plain. apply eval_as_ev. }
      destruct r1 as [v| | |].
      + destruct (ev_sound false T D R _ _ _ _ E1) as [h B].
        rewrite (eval_complete_bound D e v h f B FB). reflexivity.
      + destruct (eval f D [] e) as [v| | |] eqn:E2; simpl; auto.
        * exfalso. destruct (eval_sound _ _ _ _ _ E2) as [h B].
          pose proof (ev_complete T D R Tot e v h B (Nat.max f (S h)) [] ltac:(lia) (awinv_nil D h)) as X.
          rewrite (ev_mono_fuel false _ _ _ _ _ E1 N1 (Nat.max f (S h)) ltac:(lia)) in X. discriminate.
        * eapply P2; eauto.
      + exfalso. eapply P1; eauto.
      + congruence.
  Qed.
End Run.

Lemma lazy_refines_final_lemma (ss : list stmt) (f : nat) :
  NoDup (map fst (defs_of ss)) -> (run_bound ss <= f)%nat ->
  Forall2 res_equiv (lazy_run f ss) (final_run f ss).
Proof.
  intros ND FU. unfold lazy_run, final_run.
  set (D := defs_of ss). set (Hs := stmts_height ss).
  assert (HD : (max_height D <= Hs)%nat) by apply stmts_height_defs.
  pose proof (pass1_inv D Hs f ND HD ss []) as X.
  assert (R0 : repP [] D) by (intros n ent E; discriminate).
  assert (L0 : lheights Hs []) by (intros n d []).
  specialize (X R0 L0 eq_refl (incl_refl _) (Nat.le_refl _)).
  destruct (pass1 f ss []) as [T us]. destruct X as (R & LH & MF & F).
  clear R0 L0. induction F; simpl; constructor; auto.
  eapply force_equiv; eauto.
Qed.

(* the top-level form of monotonicity: a value obtained early is the value at the end *)
Lemma lazy_monotone_lemma f T T' e v :
  try_now f T e = Some v -> sub T T' -> ev false f T' [] e = Some (Ok v).
Proof.
  unfold try_now. intros H S. destruct (ev true f T [] e) as [[x| | |]|] eqn:E; try discriminate.
  inversion H; subst. eapply lazy_monotone_gen; eauto.
Qed.

(* ------------------------------------------------------------------ the order of definitions in a run *)
Lemma res_equiv_sym a b : res_equiv a b -> res_equiv b a.
Proof. destruct a, b; simpl; auto. Qed.

Lemma res_equiv_trans a b c : res_equiv a b -> res_equiv b c -> res_equiv a c.
Proof. destruct a, b, c; simpl; intuition congruence. Qed.

Lemma res_equiv_refl_plain r : r <> OutOfFuel -> (forall c, r <> Crash c) -> res_equiv r r.
Proof.
  destruct r; simpl; auto; intros A B.
  - eapply B; reflexivity.
Qed.

Lemma Forall2_res_equiv_trans l1 : forall l2 l3,
  Forall2 res_equiv l1 l2 -> Forall2 res_equiv l2 l3 -> Forall2 res_equiv l1 l3.
Proof.
  induction l1; intros l2 l3 A B; inversion A; subst; inversion B; subst; constructor.
  - eapply res_equiv_trans; eauto.
  - eapply IHl1; eauto.
Qed.

Lemma Forall2_res_equiv_sym l1 : forall l2, Forall2 res_equiv l1 l2 -> Forall2 res_equiv l2 l1.
Proof.
  induction l1; intros l2 A; inversion A; subst; constructor; auto using res_equiv_sym.
Qed.

Lemma in_uses_height ss e : In e (uses_of ss) -> (height e <= stmts_height ss)%nat.
Proof.
  induction ss as [|[n d|e'] r IH]; simpl; [tauto| |].
  - intros I. specialize (IH I). lia.
  - intros [->|I]; [lia|]. specialize (IH I). lia.
Qed.

Lemma run_bound_fuel ss e : In e (uses_of ss) -> (fuel_bound (defs_of ss) e <= run_bound ss)%nat.
Proof.
  intros I. unfold fuel_bound, run_bound.
  pose proof (in_uses_height ss e I). pose proof (stmts_height_defs ss).
  assert (Nat.max (max_height (defs_of ss)) (height e) <= stmts_height ss)%nat by lia. nia.
Qed.

Lemma Forall2_map_in {A B} (R : B -> B -> Prop) (g h : A -> B) l :
  (forall e, In e l -> R (g e) (h e)) -> Forall2 R (map g l) (map h l).
Proof.
  induction l as [|a r IH]; simpl; intros H; constructor.
  - apply H. left. reflexivity.
  - apply IH. intros e I. apply H. right. exact I.
Qed.

Lemma reorder_lemma (ss ss' : list stmt) (f f' : nat) :
  NoDup (map fst (defs_of ss)) ->
  Permutation (defs_of ss) (defs_of ss') -> uses_of ss' = uses_of ss ->
  (run_bound ss <= f)%nat -> (run_bound ss' <= f')%nat ->
  Forall2 res_equiv (lazy_run f' ss') (lazy_run f ss).
Proof.
  intros ND P U L L'.
  assert (ND' : NoDup (map fst (defs_of ss'))).
  { eapply Permutation_NoDup; [|exact ND]. apply Permutation_map. exact P. }
  eapply Forall2_res_equiv_trans; [apply lazy_refines_final_lemma; auto|].
  eapply Forall2_res_equiv_trans; [|apply Forall2_res_equiv_sym; apply lazy_refines_final_lemma; auto].
  unfold final_run. rewrite U.
  assert (X : forall e, In e (uses_of ss) -> eval f' (defs_of ss') [] e = eval f (defs_of ss) [] e).
  { intros e I. apply order_independent_lemma; auto.
    - etransitivity; [apply run_bound_fuel; exact I|exact L].
    - etransitivity; [apply run_bound_fuel; rewrite U; exact I|exact L']. }
  assert (Y : forall e, In e (uses_of ss) -> res_equiv (eval f (defs_of ss) [] e) (eval f (defs_of ss) [] e)).
  { intros e I. apply res_equiv_refl_plain.
    - apply eval_enough. etransitivity; [apply run_bound_fuel; exact I|exact L].
    - intros c. eapply (ev_plain false). apply eval_as_ev. }
  apply Forall2_map_in. intros e I. rewrite X by exact I. apply Y. exact I.
Qed.

(* move_def only moves a definition *)
Lemma uses_app a b : uses_of (a ++ b) = uses_of a ++ uses_of b.
Proof. induction a as [|[n d|e] r IH]; simpl; auto. rewrite IH. reflexivity. Qed.

Lemma defs_app a b : defs_of (a ++ b) = defs_of a ++ defs_of b.
Proof. induction a as [|[n d|e] r IH]; simpl; auto. rewrite IH. reflexivity. Qed.

Lemma remove_nth_def ss : forall i n d, nth_error ss i = Some (SDef n d) ->
  uses_of (remove_nth i ss) = uses_of ss /\ Permutation (defs_of ss) ((n, d) :: defs_of (remove_nth i ss)).
Proof.
  induction ss as [|s r IH]; intros i n d H; destruct i; simpl in H; try discriminate.
  - inversion H; subst. simpl. split; auto.
  - destruct (IH _ _ _ H) as [U P]. simpl. destruct s as [n' d'|e]; simpl.
    + split; auto. rewrite P. apply perm_swap.
    + rewrite U. split; auto.
Qed.

Lemma move_def_ok ss i j :
  uses_of (move_def ss i j) = uses_of ss /\ Permutation (defs_of ss) (defs_of (move_def ss i j)).
Proof.
  unfold move_def. destruct (nth_error ss i) as [[n d|e]|] eqn:E; auto.
  destruct (remove_nth_def ss i n d E) as [U P]. unfold insert_at.
  split.
  - rewrite uses_app. simpl. rewrite <- uses_app, firstn_skipn. exact U.
  - rewrite defs_app. simpl. rewrite P.
    rewrite <- (firstn_skipn j (remove_nth i ss)) at 1. rewrite defs_app.
    apply Permutation_middle.
Qed.

(* ------------------------------------------------------------------ every definition is forced at the end *)
Lemma defs_forced ss : defs_of (forced ss) = [].
Proof. unfold forced. induction (defs_of ss); simpl; auto. Qed.

Lemma uses_forced ss : uses_of (forced ss) = map (fun nd => Sym (fst nd)) (defs_of ss).
Proof. unfold forced. induction (defs_of ss); simpl; auto. f_equal. auto. Qed.

Lemma defs_close ss : defs_of (close ss) = defs_of ss.
Proof. unfold close. rewrite defs_app, defs_forced, app_nil_r. reflexivity. Qed.

Lemma uses_close ss : uses_of (close ss) = uses_of ss ++ map (fun nd => Sym (fst nd)) (defs_of ss).
Proof. unfold close. rewrite uses_app, uses_forced. reflexivity. Qed.

Lemma stmts_height_app a b : stmts_height (a ++ b) = Nat.max (stmts_height a) (stmts_height b).
Proof. induction a as [|[n d|e] r IH]; simpl; auto; rewrite IH; lia. Qed.

Lemma run_bound_close ss : run_bound (close ss) = run_bound ss.
Proof.
  unfold run_bound. rewrite defs_close. unfold close. rewrite stmts_height_app.
  assert (H : stmts_height (forced ss) = 0%nat).
  { unfold forced. induction (defs_of ss); simpl; auto. }
  rewrite H, Nat.max_0_r. reflexivity.
Qed.

Lemma res_equiv_fail a b : res_equiv a b -> is_fail a = is_fail b.
Proof. destruct a, b; simpl; tauto. Qed.

Lemma Forall2_equiv_fails l1 : forall l2, Forall2 res_equiv l1 l2 -> existsb is_fail l1 = existsb is_fail l2.
Proof.
  induction l1; intros l2 F; inversion F; subst; simpl; auto. rewrite (res_equiv_fail _ _ H1). f_equal. auto.
Qed.

Lemma existsb_perm {A} (f : A -> bool) l l' : Permutation l l' -> existsb f l = existsb f l'.
Proof.
  induction 1; simpl; auto.
  - rewrite IHPermutation. reflexivity.
  - destruct (f x), (f y); reflexivity.
  - congruence.
Qed.

(* moving / permuting definitions: the same values for the uses, and the same success or failure of the build even
   when the failing definition is not used by anything *)
Lemma build_fails_reorder (ss ss' : list stmt) (f f' : nat) :
  NoDup (map fst (defs_of ss)) ->
  Permutation (defs_of ss) (defs_of ss') -> uses_of ss' = uses_of ss ->
  (run_bound ss <= f)%nat -> (run_bound ss' <= f')%nat ->
  build_fails f' ss' = build_fails f ss.
Proof.
  intros ND P U L L'.
  assert (ND' : NoDup (map fst (defs_of ss'))).
  { eapply Permutation_NoDup; [|exact ND]. apply Permutation_map. exact P. }
  unfold build_fails.
  rewrite (Forall2_equiv_fails _ _ (lazy_refines_final_lemma (close ss') f' ltac:(rewrite defs_close; exact ND') ltac:(rewrite run_bound_close; exact L'))).
  rewrite (Forall2_equiv_fails _ _ (lazy_refines_final_lemma (close ss) f ltac:(rewrite defs_close; exact ND) ltac:(rewrite run_bound_close; exact L))).
  unfold final_run. rewrite !defs_close, !uses_close, U, !map_app, !existsb_app.
  assert (X : forall e, (fuel_bound (defs_of ss) e <= f)%nat -> (fuel_bound (defs_of ss') e <= f')%nat ->
              eval f' (defs_of ss') [] e = eval f (defs_of ss) [] e).
  { intros e B B'. apply order_independent_lemma; auto. }
  assert (HB : forall e, (height e <= stmts_height ss)%nat -> (fuel_bound (defs_of ss) e <= f)%nat).
  { intros e He. unfold fuel_bound. unfold run_bound in L. pose proof (stmts_height_defs ss).
    assert (Nat.max (max_height (defs_of ss)) (height e) <= stmts_height ss)%nat by lia. nia. }
  assert (SH : stmts_height ss' = stmts_height ss \/ True) by auto.
  assert (HB' : forall e, (height e <= stmts_height ss')%nat -> (fuel_bound (defs_of ss') e <= f')%nat).
  { intros e He. unfold fuel_bound. unfold run_bound in L'. pose proof (stmts_height_defs ss').
    assert (Nat.max (max_height (defs_of ss')) (height e) <= stmts_height ss')%nat by lia. nia. }
  f_equal.
  - f_equal. apply map_ext_in. intros e I. apply X.
    + apply HB. apply in_uses_height. exact I.
    + apply HB'. apply in_uses_height. rewrite U. exact I.
  - rewrite !map_map.
    rewrite (existsb_perm _ _ _ (Permutation_map (fun nd => eval f' (defs_of ss') [] (Sym (fst nd))) (Permutation_sym P))).
    f_equal. apply map_ext_in. intros [n d] I. simpl. apply X.
    + apply HB. simpl. lia.
    + apply HB'. simpl. lia.
Qed.

Lemma move_def_run (ss : list stmt) (i j f f' : nat) :
  NoDup (map fst (defs_of ss)) -> (run_bound ss <= f)%nat -> (run_bound (move_def ss i j) <= f')%nat ->
  Forall2 res_equiv (lazy_run f' (move_def ss i j)) (lazy_run f ss) /\
  build_fails f' (move_def ss i j) = build_fails f ss.
Proof.
  intros ND L L'. destruct (move_def_ok ss i j) as [U P]. split.
  - apply reorder_lemma; auto.
  - apply build_fails_reorder; auto.
Qed.
