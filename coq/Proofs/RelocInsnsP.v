(* Model/Reloc.v's field functions are the functions of Model/Insns.v (C01/C04) and of the regenerated
   Gen/GenGetAsInt.v (C06): C09's programme model rests on the same definitions. *)
From Coq Require Import String List ZArith Lia Bool.
From Verif Require Import Base.Res Base.Bytes Model.Poly Model.Reloc Model.Insns Gen.GenGetAsInt Gen.GenMeta.
Import ListNotations.
Open Scope Z_scope.

(* the model reports the first error where Insns.enc_offset lists both *)
Definition first_error {A} (r : res A) : res A :=
  match r with Err (id :: _) => Err [id] | r => r end.

Lemma pow_pos_nz bits : 0 <= bits -> 2 ^ bits <> 0.
Proof. intros H. pose proof (Z.pow_pos_nonneg 2 bits ltac:(lia) H). lia. Qed.

Theorem reloc_get_as_int_is_generated bits v : 0 <= bits ->
  Reloc.get_as_int bits v = GenGetAsInt.get_as_int (Some bits) false None v.
Proof.
  intros Hb. unfold Reloc.get_as_int, GenGetAsInt.get_as_int, get_as_int_raw, py_pow. simpl.
  destruct (v <=? - 2 ^ bits); [reflexivity|].
  rewrite Z.geb_leb. destruct (2 ^ bits <=? v); [reflexivity|].
  unfold rz_mod, py_mod. simpl. destruct (2 ^ bits =? 0) eqn:E; [apply Z.eqb_eq in E; exfalso; exact (pow_pos_nz bits Hb E)|].
  reflexivity.
Qed.

Theorem reloc_get_as_int16_is_int16 v : Reloc.get_as_int 16 v = Insns.int16 v.
Proof.
  unfold Reloc.get_as_int, Insns.int16. rewrite Z.geb_leb. reflexivity.
Qed.

Theorem rel_value_is_enc_rel b pos e : rel_value b pos e = enc_rel (aval b e) (b + pos).
Proof. reflexivity. Qed.

Theorem branch_field_is_enc_offset b pos op e :
  branch_field b pos op e =
  first_error (do f <- enc_offset false 8 (aval b e) (b + pos + 2); Ok (le16 (op + f mod 256))).
Proof.
  unfold branch_field, enc_offset, branch_offset. cbn [andb].
  set (off := aval b e - (b + pos + 2)).
  change (- 2 ^ (8 + 0) + 2 * 0) with (-256). change (2 ^ 8 - 2) with 254.
  destruct (off <? -256) eqn:E1; destruct (254 <? off) eqn:E2; cbn [orb];
  destruct (-256 <=? off) eqn:E3; destruct (off <=? 254) eqn:E4; cbn [andb];
  try (apply Z.ltb_lt in E1); try (apply Z.ltb_ge in E1); try (apply Z.ltb_lt in E2); try (apply Z.ltb_ge in E2);
  try (apply Z.leb_le in E3); try (apply Z.leb_gt in E3); try (apply Z.leb_le in E4); try (apply Z.leb_gt in E4);
  try lia; destruct (off mod 2 =? 1); reflexivity.
Qed.

Theorem sob_field_is_enc_offset b pos op e :
  sob_field b pos op e =
  first_error (do f <- enc_offset true 6 (aval b e) (b + pos + 2); Ok (le16 (op + f mod 64))).
Proof.
  unfold sob_field, enc_offset, branch_offset. cbn [andb].
  set (off := aval b e - (b + pos + 2)).
  change (- 2 ^ (6 + 1) + 2 * 1) with (-126).
  rewrite Z.gtb_ltb.
  destruct (0 <? off) eqn:E1; cbn [orb andb].
  - destruct (off mod 2 =? 1); reflexivity.
  - apply Z.ltb_ge in E1.
    destruct (off <? -126) eqn:E2; destruct (-126 <=? off) eqn:E3; destruct (off <=? 0) eqn:E4; cbn [andb];
    try (apply Z.ltb_lt in E2); try (apply Z.ltb_ge in E2);
    try (apply Z.leb_le in E3); try (apply Z.leb_gt in E3); try (apply Z.leb_le in E4); try (apply Z.leb_gt in E4);
    try lia; destruct (off mod 2 =? 1); reflexivity.
Qed.

Theorem abs_field_is_int16 b e : abs_field b e = do v <- Insns.int16 (aval b e); Ok (le16 v).
Proof. unfold abs_field. rewrite reloc_get_as_int16_is_int16. reflexivity. Qed.

(* ---- the padding directives are the bodies translated from metacommands.py on every run (Gen/GenMeta):
        .align for EVERY count (the padding is (-address) mod count, not a bit mask), .even, .odd ---- *)
Lemma concat_repeat_zero n : concat (repeat [0] n) = zeros n.
Proof. induction n as [|n IH]; simpl; [reflexivity|]. rewrite IH. reflexivity. Qed.

Theorem align_is_generated b pos m : 0 <= m -> item_bytes b pos (Align m) = body_align (b + pos) m.
Proof.
  intros Hm. unfold body_align, rz_eqb, rb_mul, rz_mod, rz_neg, py_mod, bytes_mul. cbn [item_bytes bind].
  destruct (m =? 0) eqn:E0.
  - apply Z.eqb_eq in E0. subst. reflexivity.
  - apply Z.eqb_neq in E0. destruct (m <=? 0) eqn:E1; [apply Z.leb_le in E1; lia|].
    cbn [bind]. rewrite concat_repeat_zero. reflexivity.
Qed.

Theorem even_is_generated b pos : item_bytes b pos (Align 2) = body_even (b + pos).
Proof.
  unfold body_even, rb_if, rz_eqb, rz_mod, py_mod. cbn [item_bytes bind Z.leb Z.compare Z.eqb].
  pose proof (Z.mod_pos_bound (b + pos) 2 ltac:(lia)) as H.
  assert (E : (- (b + pos)) mod 2 = (b + pos) mod 2).
  { pose proof (Z.mod_pos_bound (- (b + pos)) 2 ltac:(lia)).
    assert (((- (b + pos)) + (b + pos)) mod 2 = 0) by (replace (- (b + pos) + (b + pos)) with 0 by lia; reflexivity).
    rewrite Z.add_mod in H1 by lia.
    assert (C : (b + pos) mod 2 = 0 \/ (b + pos) mod 2 = 1) by lia.
    assert (D : (- (b + pos)) mod 2 = 0 \/ (- (b + pos)) mod 2 = 1) by lia.
    destruct C as [C|C], D as [D|D]; rewrite C, D in H1; simpl in H1; try discriminate; lia. }
  rewrite E. destruct ((b + pos) mod 2 =? 1) eqn:E1.
  - apply Z.eqb_eq in E1. rewrite E1. reflexivity.
  - apply Z.eqb_neq in E1. replace ((b + pos) mod 2) with 0 by lia. reflexivity.
Qed.

Theorem odd_is_generated b pos : item_bytes b pos Odd = body_odd (b + pos).
Proof.
  unfold body_odd, rb_if, rz_eqb, rz_mod, py_mod. cbn [item_bytes bind Z.eqb].
  destruct ((b + pos) mod 2 =? 0); reflexivity.
Qed.

(* the padding depends on the address only through (address mod count) -- for every count > 0 *)
Theorem align_padding_congruent m a1 a2 : 0 < m -> (a2 - a1) mod m = 0 -> (- a2) mod m = (- a1) mod m.
Proof.
  intros Hm Hd. replace (- a2) with (- a1 + (- (a2 - a1))) by lia.
  rewrite Z.add_mod by lia.
  assert (H : (- (a2 - a1)) mod m = 0).
  { apply Z.mod_divide in Hd; [|lia]. apply Z.mod_divide; [lia|]. apply Z.divide_opp_r. exact Hd. }
  rewrite H, Z.add_0_r. apply Z.mod_mod. lia.
Qed.
