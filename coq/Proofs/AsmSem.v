(* R composed with C01 and C06: what lies in the image at the address of an instruction / a data
   directive, stated with the Specs (PDP11.decode / expect, DataSpec.value_bytes) and the operand values
   of Spec.Arith.eval under the final symbol table. *)
From Coq Require Import ZArith List String Ascii Bool NArith Lia ZifyBool.
From Verif Require Import Base.Res Base.Bytes Spec.PDP11 Spec.Arith Spec.DataSpec Gen.GenGetAsInt Gen.GenOpcodes
  Model.Insns Model.Directives Proofs.InsnsCheck Proofs.InsnsP Proofs.InsnsMain
  Proofs.DirectivesData Proofs.DirectivesSpec Model.Asm Proofs.AsmP.
From Verif Require Model.Rad50.
Import ListNotations.
Notation length := Datatypes.length.
Notation concat := List.concat.
Open Scope string_scope.
Open Scope list_scope.
Open Scope Z_scope.

Ltac Zify.zify_post_hook ::= Z.to_euclidean_division_equations.

Ltac xinv H :=
  repeat match type of H with
  | xbind ?r ?f = XOk _ =>
      let a := fresh "a" in let Ha := fresh "Ha" in
      apply xbind_ok in H; destruct H as [a [Ha H]]
  end.

Lemma lift_ok {A} (r : res A) a : lift r = XOk a -> r = Ok a.
Proof. destruct r; simpl; intros H; inversion H; reflexivity. Qed.

(* every word the instruction encoder emits is a 16-bit word *)
Lemma compile_insn_words m ops addr ws :
  compile_insn m ops addr = Ok ws -> no_pc_autoinc ops -> Forall wordp ws.
Proof.
  intros H Hpc. apply compile_insn_inv in H.
  destruct H as [pat [i [name [pre [post [ks [vals [ext [w [L [F [Hlen [He [Hw ->]]]]]]]]]]]]]].
  pose proof (shapes_Forall2 _ _ (ef_shapes _ _ _ _ _ _ _ F)) as Hs.
  destruct (enc_operands_sound _ _ Hs _ _ _ _ _ Hlen He) as [R S].
  destruct (S Hpc) as [ext1 [ss [E1 [W _]]]]. simpl in E1. subst ext1.
  destruct (ef_word _ _ _ _ _ _ _ F vals R) as [w' [G1 [G2 _]]].
  rewrite G1 in Hw. inversion Hw; subst. constructor; assumption.
Qed.

Lemma words_roundtrip ws : forall tail, Forall wordp ws ->
  Rad50.words_of_bytes (words_bytes ws ++ tail) = ws ++ Rad50.words_of_bytes tail.
Proof.
  induction ws as [|w r IH]; intros tail H; simpl; [reflexivity|].
  inversion H as [|? ? Hw Hr]; subst. rewrite IH by exact Hr. f_equal.
  apply is_word_range in Hw. unfold word_of. lia.
Qed.

Lemma words_bytes_length ws : length (words_bytes ws) = (2 * length ws)%nat.
Proof. induction ws; simpl; lia. Qed.

Section Sem.
Variable enc : list N -> option (list Z).

Lemma emit_at p f k it bs : assemble_full enc p = XOk f ->
  nth_error (f_items f) k = Some it -> nth_error (f_chunks f) k = Some bs ->
  emit_item enc (f_exports f) (f_syms f) it = XOk bs.
Proof.
  intros H H1 H2. destruct (assemble_full_inv _ _ _ H) as [st [dv [_ [_ [_ [_ [_ [He _]]]]]]]].
  destruct (xmapM_nth _ _ _ He) as [_ N]. destruct (N _ _ H1) as [y [Hy E]]. congruence.
Qed.

Theorem insn_decodes_thm p f k it bs m ops :
  assemble_full enc p = XOk f ->
  nth_error (f_items f) k = Some it -> nth_error (f_chunks f) k = Some bs -> i_stmt it = Insn m ops ->
  exists os ws,
    xmapM (eval_opnd (fev enc (f_exports f) (f_syms f) (i_scope it) (i_addr it))) ops = XOk os /\
    compile_insn m os (i_addr it) = Ok ws /\ bs = words_bytes ws /\
    (no_pc_autoinc os ->
     exists name sops,
       expect m os (i_addr it) = Some (name, sops) /\
       decode (Rad50.words_of_bytes (skipn (Z.to_nat (i_addr it - f_base f)) (concat (f_chunks f)))) (i_addr it)
       = Some (name, sops, length ws)).
Proof.
  intros H H1 H2 Hs. pose proof (emit_at _ _ _ _ _ H H1 H2) as E.
  unfold emit_item in E. rewrite Hs in E. cbn [emit_leaf] in E. xinv E. inversion E; subst bs.
  apply lift_ok in Ha0. exists a, a0. repeat split; auto.
  intros Hpc. destruct (layout_thm _ _ _ H) as [_ [_ [L _]]].
  destruct (L _ _ _ H1 H2) as [_ [_ [_ [[tail T] _]]]]. rewrite T.
  rewrite words_roundtrip by (eapply compile_insn_words; eauto).
  destruct (encode_decode _ _ _ _ (Rad50.words_of_bytes tail) Ha0 Hpc) as [name [sops [X D]]].
  exists name, sops. split; assumption.
Qed.

Definition data_of (s : stmt) : option (width * list expr) :=
  match s with Byte es => Some (W8, es) | Word es => Some (W16, es) | Dword es => Some (W32, es) | _ => None end.

Definition stated (w : width) (vs : list Z) : list Z :=
  match vs with [] => zero_bytes (nbytes w) | _ => concat (map (value_bytes w) vs) end.

Lemma out_x_ok o bs : out_x o = XOk bs -> exists ds, o = Out ds bs /\ errors ds = [].
Proof.
  destruct o as [ds b|ds|s]; simpl; try discriminate.
  destruct (errors ds) eqn:E; intros H; inversion H; subst. eauto.
Qed.

Lemma data_emit_ok w vs addr bs :
  out_x (emit enc (DMeta (vname w) (DirectivesData.plain vs)) addr) = XOk bs ->
  bs = stated w vs /\ forallb (fits w) vs = true /\ (w = W8 \/ addr mod 2 = 0).
Proof.
  intros H. apply out_x_ok in H. destruct H as [ds [H He]].
  destruct (forallb (fits w) vs) eqn:F.
  2:{ rewrite data_out_of_range in H by exact F. discriminate. }
  assert (P : w = W8 \/ addr mod 2 = 0 \/ (w <> W8 /\ addr mod 2 = 1)).
  { destruct w; auto; right; destruct (parity addr); auto; right; split; auto; discriminate. }
  destruct P as [P|[P|[P1 P2]]].
  - destruct vs as [|v r].
    + change (DirectivesData.plain []) with (@nil (bool * Z)) in H. rewrite data_empty in H by auto. inversion H; subst. auto.
    + rewrite data_ok in H by (auto; discriminate). inversion H; subst. auto.
  - destruct vs as [|v r].
    + change (DirectivesData.plain []) with (@nil (bool * Z)) in H. rewrite data_empty in H by auto. inversion H; subst. auto.
    + rewrite data_ok in H by (auto; discriminate). inversion H; subst. auto.
  - destruct vs as [|v r].
    + change (DirectivesData.plain []) with (@nil (bool * Z)) in H. rewrite data_empty_odd in H by auto.
      inversion H; subst. discriminate.
    + rewrite data_odd in H by (auto; discriminate). inversion H; subst. discriminate.
Qed.

Theorem data_exact_thm p f k it bs w es :
  assemble_full enc p = XOk f ->
  nth_error (f_items f) k = Some it -> nth_error (f_chunks f) k = Some bs -> data_of (i_stmt it) = Some (w, es) ->
  exists vs,
    xmapM (fev enc (f_exports f) (f_syms f) (i_scope it) (i_addr it)) es = XOk vs /\
    bs = stated w vs /\ forallb (fits w) vs = true /\ (w = W8 \/ i_addr it mod 2 = 0) /\
    firstn (length bs) (skipn (Z.to_nat (i_addr it - f_base f)) (concat (f_chunks f))) = bs.
Proof.
  intros H H1 H2 Hs. pose proof (emit_at _ _ _ _ _ H H1 H2) as E.
  destruct (layout_thm _ _ _ H) as [_ [_ [L _]]]. destruct (L _ _ _ H1 H2) as [_ [_ [Sl _]]].
  unfold emit_item in E.
  destruct (i_stmt it); try discriminate; simpl in Hs; inversion Hs; subst; cbn [emit_leaf] in E; xinv E;
    exists a; (split; [exact Ha|]);
    match type of E with out_x (emit _ (DMeta ?n _) _) = _ =>
      first [ change n with (vname W8) in E | change n with (vname W16) in E | change n with (vname W32) in E ] end;
    change (Asm.plain a) with (DirectivesData.plain a) in E;
    destruct (data_emit_ok _ _ _ _ E) as [B1 [B2 B3]]; auto.
Qed.

Theorem wordlist_exact_thm p f k it bs es :
  assemble_full enc p = XOk f ->
  nth_error (f_items f) k = Some it -> nth_error (f_chunks f) k = Some bs -> i_stmt it = WordList es ->
  exists vs,
    xmapM (fev enc (f_exports f) (f_syms f) (i_scope it) (i_addr it)) es = XOk vs /\
    bs = concat (map (value_bytes W16) vs) /\ forallb (fits W16) vs = true /\ i_addr it mod 2 = 0.
Proof.
  intros H H1 H2 Hs. pose proof (emit_at _ _ _ _ _ H H1 H2) as E.
  unfold emit_item in E. rewrite Hs in E. cbn [emit_leaf] in E. xinv E. exists a. split; [exact Ha|].
  apply out_x_ok in E. destruct E as [ds [E He]].
  destruct (forallb (fits W16) a) eqn:F.
  2:{ rewrite words_out_of_range in E by exact F. discriminate. }
  destruct (parity (i_addr it)) as [P|P].
  - rewrite words_ok in E by auto. inversion E; subst. auto.
  - rewrite words_odd in E by auto. inversion E; subst. discriminate.
Qed.

End Sem.
