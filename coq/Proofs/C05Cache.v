(* C05: the cache of impure operators is transparent: whatever sequence of operand values one token
   is evaluated with, every evaluation returns what the operator body returns for those operands. *)
From Coq Require Import List ZArith Bool Lia.
From Verif Require Import Gen.GenOperators Model.ExprCache.
Import ListNotations.

Lemma args_match_eq a : forall b, args_match a b = true -> a = b.
Proof.
  induction a as [|x a IH]; intros [|y b] H; simpl in H; try discriminate; [reflexivity|].
  apply andb_true_iff in H. destruct H as [H1 H2]. apply Z.eqb_eq in H1. subst. f_equal. apply IH. exact H2.
Qed.

(* the cache holds a value together with the operands it was computed from *)
Definition coherent (invoke : list Z -> Z) (c : token_cache) : Prop :=
  match c with None => True | Some (v, va) => v = invoke va end.

Lemma keyed_step invoke c args : coherent invoke c ->
  fst (wrap_with true true invoke c args) = invoke args /\ coherent invoke (snd (wrap_with true true invoke c args)).
Proof.
  intros H. unfold wrap_with. destruct c as [[v va]|]; simpl.
  - destruct (args_match va args) eqn:E; simpl.
    + apply args_match_eq in E. subst. simpl in H. auto.
    + auto.
  - auto.
Qed.

Lemma keyed_run invoke : forall argss c, coherent invoke c ->
  run_with true true invoke c argss = map invoke argss.
Proof.
  induction argss as [|args rest IH]; intros c H; [reflexivity|].
  cbn [run_with map]. destruct (keyed_step invoke c args H) as [H1 H2]. rewrite H1. f_equal. apply IH. exact H2.
Qed.

(* the code as it is (the switches are regenerated from the source) *)
Lemma cache_transparent : forall (invoke : list Z -> Z) (argss : list (list Z)),
  run invoke None argss = map invoke argss.
Proof.
  intros invoke argss. unfold run.
  change wrap_impure_keyed with true. change wrap_impure_records_args with true.
  apply keyed_run. exact I.
Qed.

(* a cache that does not compare the operands returns the first value again: two evaluations suffice *)
Lemma unkeyed_refuted : forall records,
  exists invoke argss, run_with false records invoke None argss <> map invoke argss.
Proof.
  intros records. exists (fun args => match args with [a; b] => Z.div a b | _ => 0%Z end), [[512; 2]; [516; 2]]%Z.
  destruct records; vm_compute; discriminate.
Qed.
