(* Lemmas for C17: Model/ContextM.v (Context.__repr__) against Spec/LineCol.v. *)
From Coq Require Import List ZArith NArith Bool Lia Arith PeanoNat.
From Verif Require Import Spec.LineCol Model.ContextM.
Import ListNotations.
Open Scope Z_scope.
Local Arguments N.eqb : simpl never.

(* ---- count / rfind on a string extended by one character ---- *)
Lemma count_app ch a b : count ch (a ++ b) = count ch a + count ch b.
Proof. induction a as [|x r IH]; simpl; [lia|]. rewrite IH. lia. Qed.

Lemma count_nonneg ch s : 0 <= count ch s.
Proof. induction s as [|x r IH]; simpl; [lia|]. destruct (N.eqb x ch); lia. Qed.

Lemma count_le_length ch s : count ch s <= Z.of_nat (length s).
Proof. induction s as [|x r IH]; simpl length; simpl count; [lia|]. destruct (N.eqb x ch); lia. Qed.

Lemma rfind_from_snoc ch q : forall x i last,
  rfind_from ch (q ++ [x]) i last =
  if N.eqb x ch then i + Z.of_nat (length q) else rfind_from ch q i last.
Proof.
  induction q as [|y r IH]; intros x i last; simpl.
  - destruct (N.eqb x ch); lia.
  - rewrite IH. destruct (N.eqb x ch); [lia|reflexivity].
Qed.

Lemma rfind_from_bounds ch s : forall i last,
  last < i -> last <= rfind_from ch s i last < i + Z.of_nat (length s).
Proof.
  induction s as [|x r IH]; intros i last H; simpl rfind_from; simpl length.
  - lia.
  - destruct (N.eqb x ch).
    + specialize (IH (i + 1) i ltac:(lia)). lia.
    + specialize (IH (i + 1) last ltac:(lia)). lia.
Qed.

Lemma rfind_bounds ch s : -1 <= rfind ch s < Z.of_nat (length s).
Proof. unfold rfind. pose proof (rfind_from_bounds ch s 0 (-1) ltac:(lia)). lia. Qed.

Lemma rfind_snoc ch q x :
  rfind ch (q ++ [x]) = if N.eqb x ch then Z.of_nat (length q) else rfind ch q.
Proof. unfold rfind. rewrite rfind_from_snoc. destruct (N.eqb x ch); [lia|reflexivity]. Qed.

(* ---- the model on a prefix, by induction from the right ---- *)
(* the three quantities of __repr__, for the text p before the offset *)
Definition repr_of_prefix (p : list N) : Z * Z :=
  let idx := rfind 10%N p + 1 in
  (count 10%N p + 1, (Z.of_nat (length p) - idx) + count 9%N (skipn (Z.to_nat idx) p) * 3 + 1).

Lemma skipn_snoc {A} (n : nat) (q : list A) x : (n <= length q)%nat -> skipn n (q ++ [x]) = skipn n q ++ [x].
Proof. intros H. rewrite skipn_app. replace (n - length q)%nat with 0%nat by lia. reflexivity. Qed.

Lemma repr_of_prefix_spec p : repr_of_prefix p = linecol p.
Proof.
  induction p as [|x q IH] using rev_ind.
  - reflexivity.
  - unfold linecol in *. rewrite fold_left_app. cbn [fold_left]. rewrite <- IH. clear IH.
    unfold repr_of_prefix. rewrite rfind_snoc, !count_app, app_length. cbn [length count].
    pose proof (rfind_bounds 10%N q) as B. unfold step, NL, TAB.
    destruct (N.eqb x 10) eqn:E10.
    + (* newline: next line, column 1 *)
      replace (Z.to_nat (Z.of_nat (length q) + 1)) with (length (q ++ [x])) by (rewrite app_length; simpl; lia).
      rewrite skipn_all. cbn [count]. f_equal; lia.
    + rewrite skipn_snoc by lia. rewrite count_app. cbn [count].
      destruct (N.eqb x 9) eqn:E9; f_equal; lia.
Qed.

Theorem linecol_agrees code pos :
  (pos <= length code)%nat -> repr code pos = linecol_at code pos.
Proof.
  intros H. unfold linecol_at. rewrite <- repr_of_prefix_spec.
  unfold repr, repr_of_prefix, slice. simpl skipn at 1 2.
  rewrite firstn_length_le by exact H. reflexivity.
Qed.

(* ---- monotonicity ---- *)
Lemma lc_le_refl a : lc_le a a.
Proof. unfold lc_le. lia. Qed.

Lemma lc_le_trans a b c : lc_le a b -> lc_le b c -> lc_le a c.
Proof. unfold lc_le. lia. Qed.

Lemma step_increases st c : lc_le st (step st c).
Proof.
  destruct st as [l k]. unfold step, lc_le.
  destruct (N.eqb c NL); [simpl; lia|]. destruct (N.eqb c TAB); simpl; lia.
Qed.

Lemma fold_increases s : forall st, lc_le st (fold_left step s st).
Proof.
  induction s as [|c r IH]; intros st; simpl; [apply lc_le_refl|].
  eapply lc_le_trans; [apply step_increases | apply IH].
Qed.

Lemma firstn_split_le {A} (l : list A) : forall (a b : nat), (a <= b)%nat -> firstn b l = firstn a l ++ firstn (b - a) (skipn a l).
Proof.
  induction l as [|x r IH]; intros a b H.
  - rewrite !firstn_nil, skipn_nil, firstn_nil. reflexivity.
  - destruct a as [|a].
    + simpl. rewrite Nat.sub_0_r. reflexivity.
    + destruct b as [|b]; [lia|]. simpl. f_equal. apply IH. lia.
Qed.

Theorem start_le_end code pos1 pos2 :
  (pos1 <= pos2)%nat -> lc_le (linecol_at code pos1) (linecol_at code pos2).
Proof.
  intros H. unfold linecol_at, linecol. rewrite (firstn_split_le code pos1 pos2 H).
  rewrite fold_left_app. apply fold_increases.
Qed.

(* ---- inside the file ---- *)
Lemma split_lines_nonempty code : split_lines code <> [].
Proof.
  destruct code as [|c r]; simpl; [discriminate|].
  destruct (N.eqb c NL); [discriminate|]. destruct (split_lines r); discriminate.
Qed.

Lemma split_lines_count code : Z.of_nat (length (split_lines code)) = count 10%N code + 1.
Proof.
  induction code as [|c r IH]; [reflexivity|].
  simpl split_lines. simpl count. unfold NL. destruct (N.eqb c 10).
  - simpl length. lia.
  - pose proof (split_lines_nonempty r) as NE. destruct (split_lines r) as [|h t]; [congruence|]. simpl length in *. lia.
Qed.

Lemma line_monotone s : forall st, fst st <= fst (fold_left step s st).
Proof.
  intros st. pose proof (fold_increases s st) as H. unfold lc_le in H. lia.
Qed.

(* generalised over the starting state (l, k): the walk stays inside the lines of the text *)
Lemma inside_general code : forall pos l k,
  (pos <= length code)%nat ->
  let st := fold_left step (firstn pos code) (l, k) in
  l <= fst st /\
  fst st - l < Z.of_nat (length (split_lines code)) /\
  snd st <= (if fst st =? l then k else 1) + 4 * Z.of_nat (length (nth (Z.to_nat (fst st - l)) (split_lines code) [])).
Proof.
  induction code as [|c r IH]; intros pos l k Hpos.
  - simpl in Hpos. replace pos with 0%nat by lia. simpl. rewrite Z.sub_diag, Z.eqb_refl. simpl. lia.
  - destruct pos as [|n].
    + simpl firstn. simpl fold_left. cbv zeta. simpl fst. simpl snd. rewrite Z.sub_diag, Z.eqb_refl.
      pose proof (split_lines_nonempty (c :: r)). destruct (split_lines (c :: r)) as [|h t]; [congruence|]. change (Z.to_nat 0) with 0%nat. cbn [nth length]. lia.
    + simpl in Hpos. cbn [firstn fold_left]. cbv zeta.
      assert (S1 : step (l, k) c = if N.eqb c NL then (l + 1, 1) else if N.eqb c TAB then (l, k + 4) else (l, k + 1)) by reflexivity.
      rewrite S1. clear S1. cbn [split_lines].
      destruct (N.eqb c NL) eqn:ENL.
      * (* newline *)
        destruct (IH n (l + 1) 1 ltac:(lia)) as [M [L C]]. cbv zeta in M, L, C.
        set (st := fold_left step (firstn n r) (l + 1, 1)) in *.
        split; [lia|]. split; [cbn [length]; lia|].
        replace (fst st =? l) with false by lia.
        replace (Z.to_nat (fst st - l)) with (S (Z.to_nat (fst st - (l + 1)))) by lia.
        simpl nth. destruct (fst st =? l + 1); lia.
      * pose proof (split_lines_nonempty r) as NE.
        assert (X : exists k', (if N.eqb c TAB then (l, k + 4) else (l, k + 1)) = (l, k') /\ k < k' <= k + 4).
        { destruct (N.eqb c TAB); eexists; split; try reflexivity; lia. }
        destruct X as [k' [-> Hk]].
        destruct (IH n l k' ltac:(lia)) as [M [L C]]. cbv zeta in M, L, C.
        set (st := fold_left step (firstn n r) (l, k')) in *.
        destruct (split_lines r) as [|h t]; [congruence|].
        split; [lia|]. split; [cbn [length] in *; lia|].
        destruct (fst st =? l) eqn:E.
        -- replace (fst st - l) with 0 in * by lia. simpl nth in *. simpl length. lia.
        -- replace (Z.to_nat (fst st - l)) with (S (Z.to_nat (fst st - l - 1))) in * by lia.
           simpl nth in *. lia.
Qed.

Lemma col_positive s : forall st, 1 <= snd st -> 1 <= snd (fold_left step s st).
Proof.
  induction s as [|c r IH]; intros st H; simpl; [exact H|]. apply IH.
  destruct st as [l k]. unfold step. simpl in H. destruct (N.eqb c NL); [simpl; lia|]. destruct (N.eqb c TAB); simpl; lia.
Qed.

Theorem inside_file code pos :
  (pos <= length code)%nat ->
  let '(line, col) := linecol_at code pos in
  1 <= line <= Z.of_nat (length (split_lines code)) /\
  1 <= col <= 1 + 4 * Z.of_nat (length (nth (Z.to_nat (line - 1)) (split_lines code) [])).
Proof.
  intros H. unfold linecol_at, linecol.
  destruct (inside_general code pos 1 1 H) as [M [L C]]. cbv zeta in M, L, C.
  pose proof (fold_increases (firstn pos code) (1, 1)) as I. unfold lc_le in I. simpl fst in I. simpl snd in I.
  pose proof (col_positive (firstn pos code) (1, 1) ltac:(simpl; lia)) as P.
  destruct (fold_left step (firstn pos code) (1, 1)) as [line col]. simpl fst in *. simpl snd in *.
  split; [lia|]. destruct (line =? 1) eqn:E; lia.
Qed.

(* ---- a token planted after [before] ---- *)
Lemma firstn_length_app {A} (a b : list A) : firstn (length a) (a ++ b) = a.
Proof. induction a as [|x r IH]; simpl; [reflexivity|]. rewrite IH. reflexivity. Qed.

Theorem planted_position before token after :
  repr (before ++ token ++ after) (length before) = linecol before.
Proof.
  rewrite linecol_agrees by (rewrite app_length; lia).
  unfold linecol_at. rewrite firstn_length_app. reflexivity.
Qed.

(* ---- the bare report format ---- *)
Theorem bare_prefixes_spec spans :
  Forall (fun s => (sp_start s <= length (sp_code s))%nat) spans ->
  bare_prefixes spans =
  map (fun s => let '(l, c) := linecol_at (sp_code s) (sp_start s) in (sp_file s, l, c)) spans.
Proof.
  induction 1 as [|s rest Hs _ IH]; [reflexivity|].
  unfold bare_prefixes in *. cbn [map]. rewrite (linecol_agrees _ _ Hs). rewrite IH. reflexivity.
Qed.
