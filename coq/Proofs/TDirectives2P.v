(* Proofs/TDirectives2P.v -- Gen/GenPure3Directives.v (the whole bodies of byte / word / dword of pdpy11/metacommands.py,
   regenerated from the source on every run by tools/gens/gen_pure3.py) are EQUAL to Model/Directives.v byte_body /
   word_body / dword_body (C06). *)
From Coq Require Import String Ascii List ZArith NArith Bool Lia.
From Verif Require Import Base.Res Base.Bytes Gen.GenPure Gen.GenPureDirectives Gen.GenPure3 Gen.GenPure3Directives Model.Directives Proofs.GenPureDirectivesP.
Import ListNotations.
Open Scope list_scope.
Open Scope Z_scope.

(* what the generated bodies return, as the model's outcome: reports in order (error / warning), then the bytes; an
   exception loses both *)
Definition conv_report (r : string * string) : diag := (if String.eqb (fst r) "error" then E else W, snd r).
Definition as_out (r : res (list (string * string) * list Z)) : out :=
  match r with
  | Ok (rs, bs) => Out (map conv_report rs) bs
  | Err _ => Crashed "unexpected"
  | Crash s => Crashed s
  | OutOfFuel => Crashed "fuel"
  end.

(* b"".join(F(x) for x in xs) as translated is the model's pack_all *)
Lemma join_map_is_pack_all f l : py3_join_map f l = pack_all f l.
Proof.
  unfold pack_all, rmap. induction l as [|x r IH]; [reflexivity|].
  cbn [py3_join_map mapM]. rewrite IH. destruct (f x) as [a| | |]; try reflexivity. cbn [bind].
  destruct (mapM f r) as [ys| | |]; reflexivity.
Qed.

Definition ok_or_crash {A} (r : res A) : Prop := match r with Ok _ | Crash _ => True | _ => False end.

Lemma pack_all_ok_or_crash f l : (forall v, ok_or_crash (f v)) -> ok_or_crash (pack_all f l).
Proof.
  intros Hf. unfold pack_all, rmap. induction l as [|x r IH]; [exact I|].
  cbn [mapM]. specialize (Hf x). destruct (f x) as [a| | |]; try exact Hf; try exact I. cbn [bind].
  destruct (mapM f r) as [ys| | |]; cbn in IH |- *; try exact IH; exact I.
Qed.

Lemma pack_B_ok_or_crash v : ok_or_crash (pack_B v).
Proof. unfold pack_B. destruct ((0 <=? v) && (v <? 256))%bool; exact I. Qed.
Lemma pack_H_ok_or_crash v : ok_or_crash (pack_H v).
Proof. unfold pack_H. destruct ((0 <=? v) && (v <? 65536))%bool; exact I. Qed.
Lemma encode_i32_ok_or_crash v : ok_or_crash (Directives.encode_i32 v).
Proof.
  unfold Directives.encode_i32. pose proof (pack_H_ok_or_crash (Z.shiftr v 16)) as A.
  destruct (pack_H (Z.shiftr v 16)); try exact A; try exact I. cbn [bind].
  pose proof (pack_H_ok_or_crash (Z.land v 65535)) as B. destruct (pack_H (Z.land v 65535)); try exact B; exact I.
Qed.

Lemma byte_body_is_model addr vs : as_out (g_byte_body addr vs) = byte_body vs.
Proof.
  unfold g_byte_body, byte_body. destruct vs as [|v r]; [reflexivity|]. cbv zeta.
  rewrite join_map_is_pack_all. pose proof (pack_all_ok_or_crash pack_B (v :: r) pack_B_ok_or_crash) as H.
  destruct (pack_all pack_B (v :: r)); try contradiction; reflexivity.
Qed.

Lemma odd_prefix_eq addr :
  odd_prefix addr = Ok (if addr mod 2 =? 1 then ([(E, "odd-address"%string)], [0]) else ([], [])).
Proof. reflexivity. Qed.

Lemma word_body_is_model addr vs : as_out (g_word_body addr vs) = word_body addr vs.
Proof.
  unfold g_word_body, word_body. rewrite odd_prefix_eq. cbv zeta.
  destruct (addr mod 2 =? 1); (destruct vs as [|v r]; [reflexivity|]);
    rewrite join_map_is_pack_all; pose proof (pack_all_ok_or_crash pack_H (v :: r) pack_H_ok_or_crash) as H;
    destruct (pack_all pack_H (v :: r)); try contradiction; reflexivity.
Qed.

Lemma encode_i32_same : GenPureDirectives.encode_i32 = Directives.encode_i32.
Proof. reflexivity. Qed.

Lemma dword_body_is_model addr vs : as_out (g_dword_body addr vs) = dword_body addr vs.
Proof.
  unfold g_dword_body, dword_body. rewrite odd_prefix_eq, encode_i32_same. cbv zeta.
  destruct (addr mod 2 =? 1); (destruct vs as [|v r]; [reflexivity|]);
    rewrite join_map_is_pack_all; pose proof (pack_all_ok_or_crash Directives.encode_i32 (v :: r) encode_i32_ok_or_crash) as H;
    destruct (pack_all Directives.encode_i32 (v :: r)); try contradiction; reflexivity.
Qed.
