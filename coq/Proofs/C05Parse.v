(* C05 (ii): precedence, associativity, grouping.
   The model of expression() (Model/ExprParse.v: prefix phase + the two-stack loop with the pop rule
   (self_precedence, is_left_associative) > (top.precedence, False), precedences from the regenerated
   operator table) parses the minimal-bracket printing of every expression tree back to that tree.

   Organisation:
   1. finite facts about the regenerated table (it orders all operator pairs like the C table);
   2. frames: the two stacks seen as a context with a hole; popping = plugging;
   3. chains: one bracket level of an expression as a tree of visible operators over opaque atoms;
      the loop invariant (lemmas right_operand and left_spine), independent of what atoms are;
   4. expressions -> chains; atoms are parsed by the recursive call (induction on size). *)
From Coq Require Import String Ascii List ZArith NArith Bool Lia Arith.
From Verif Require Import Base.Res Spec.ExprTokens Spec.Arith Gen.GenOperators Model.Lexer Model.ExprParse
                          Proofs.C05Lex.
Import ListNotations.
Open Scope string_scope.
Open Scope list_scope.

(* ================================================================================================ *)
(* 1. the regenerated table *)
Definition dummy_row : op_row := mk_op_row "" KInfix 0 true true true false "".

Definition irow (o : binop) : op_row :=
  match lookup_op KInfix (binop_text o) with Some r => r | None => dummy_row end.
Definition prow (u : unop) : op_row :=
  match lookup_op KPrefix (unop_text u) with Some r => r | None => dummy_row end.

(* the Gen table orders every pair of infix operators like the C table of Spec/Arith.v, every
   infix operator is left-associative, and every prefix operator binds tighter than every infix one *)
Definition table_orders_like_c : bool :=
  forallb (fun o1 => forallb (fun o2 =>
    match lookup_op KInfix (binop_text o1), lookup_op KInfix (binop_text o2) with
    | Some r1, Some r2 =>
        Bool.eqb (Nat.leb (or_prec r1) (or_prec r2)) (Nat.leb (cprec o1) (cprec o2))
        && or_left r1 && or_left r2
    | _, _ => false end) all_binops) all_binops
  && forallb (fun u => forallb (fun o =>
    match lookup_op KPrefix (unop_text u), lookup_op KInfix (binop_text o) with
    | Some ru, Some ro => Nat.ltb (or_prec ru) (or_prec ro)
    | _, _ => false end) all_binops) all_unops.

Lemma table_orders_like_c_true : table_orders_like_c = true.
Proof. vm_compute. reflexivity. Qed.

Lemma lookup_irow o : lookup_op KInfix (binop_text o) = Some (irow o).
Proof. destruct o; reflexivity. Qed.
Lemma lookup_prow u : lookup_op KPrefix (unop_text u) = Some (prow u).
Proof. destruct u; reflexivity. Qed.
Lemma irow_kind o : or_kind (irow o) = KInfix. Proof. destruct o; reflexivity. Qed.
Lemma irow_char o : or_char (irow o) = binop_text o. Proof. destruct o; reflexivity. Qed.
Lemma prow_kind u : or_kind (prow u) = KPrefix. Proof. destruct u; reflexivity. Qed.
Lemma prow_char u : or_char (prow u) = unop_text u. Proof. destruct u; reflexivity. Qed.

(* the pop rule between two infix operators is the comparison of their C levels *)
Lemma should_pop_infix o top : should_pop (irow o) (irow top) = Nat.leb (cprec top) (cprec o).
Proof. destruct o, top; reflexivity. Qed.
(* an infix operator always pops a prefix operator *)
Lemma should_pop_prefix o u : should_pop (irow o) (prow u) = true.
Proof. destruct o, u; reflexivity. Qed.

(* no infix operator text is a postfix operator followed by ... : the only postfix operators are + and - *)
Lemma postfix_only_plus_minus o :
  lookup_op KPostfix (binop_text o) = None \/ o = BAdd \/ o = BSub.
Proof. destruct o; auto. Qed.

(* ================================================================================================ *)
(* 2. frames *)
Inductive frame := FInfix (l : ptree) (o : binop) | FPrefix (u : unop).

Definition frame_row (f : frame) : op_row :=
  match f with FInfix _ o => irow o | FPrefix u => prow u end.
Definition frame_operand (f : frame) : list ptree :=
  match f with FInfix l _ => [l] | FPrefix _ => [] end.
Definition apply_frame (f : frame) (t : ptree) : ptree :=
  match f with
  | FInfix l o => PInfix (binop_text o) l t
  | FPrefix u => PPrefix (unop_text u) t
  end.

Definition ops_of (fs : list frame) : list op_row := map frame_row fs.
Definition operands (fs : list frame) : list ptree := flat_map frame_operand fs.
Definition stack_of (fs : list frame) (t : ptree) : list ptree := t :: operands fs.

Fixpoint plug (fs : list frame) (t : ptree) : ptree :=
  match fs with
  | [] => t
  | f :: fs' => plug fs' (apply_frame f t)
  end.

Lemma plug_app a b t : plug (a ++ b) t = plug b (plug a t).
Proof. revert t. induction a as [|f a IH]; intros t; simpl; [reflexivity|apply IH]. Qed.

Lemma operands_app a b : operands (a ++ b) = operands a ++ operands b.
Proof. unfold operands. apply flat_map_app. Qed.

Lemma ops_of_app a b : ops_of (a ++ b) = ops_of a ++ ops_of b.
Proof. unfold ops_of. apply map_app. Qed.

Lemma pop_op_frame f fs t :
  pop_op (frame_row f) (stack_of (f :: fs) t) = POk (stack_of fs (apply_frame f t)).
Proof.
  destruct f as [l o|u]; unfold pop_op, stack_of; simpl.
  - rewrite irow_kind, irow_char. reflexivity.
  - rewrite prow_kind, prow_char. reflexivity.
Qed.

Lemma pop_all_frames fs t : pop_all (ops_of fs) (stack_of fs t) = POk (plug fs t).
Proof.
  revert t. induction fs as [|f fs IH]; intros t.
  - reflexivity.
  - change (ops_of (f :: fs)) with (frame_row f :: ops_of fs). cbn [pop_all].
    rewrite pop_op_frame. apply IH.
Qed.

(* popped by the infix operator o *)
Definition poppable (o : binop) (f : frame) : bool := should_pop (irow o) (frame_row f).

Lemma pop_while_frames o fs1 fs2 t :
  forallb (poppable o) fs1 = true ->
  match fs2 with [] => true | f :: _ => negb (poppable o f) end = true ->
  pop_while (irow o) (ops_of (fs1 ++ fs2)) (stack_of (fs1 ++ fs2) t)
  = POk (ops_of fs2, stack_of fs2 (plug fs1 t)).
Proof.
  revert t. induction fs1 as [|f fs1 IH]; intros t H1 H2.
  - simpl. destruct fs2 as [|f fs2]; [reflexivity|].
    change (ops_of (f :: fs2)) with (frame_row f :: ops_of fs2). cbn [pop_while].
    apply negb_true_iff in H2. unfold poppable in H2. rewrite H2. reflexivity.
  - simpl in H1. apply andb_true_iff in H1. destruct H1 as [Hf H1].
    change (ops_of ((f :: fs1) ++ fs2)) with (frame_row f :: ops_of (fs1 ++ fs2)).
    change ((f :: fs1) ++ fs2) with (f :: (fs1 ++ fs2)).
    cbn [pop_while]. unfold poppable in Hf. rewrite Hf. rewrite pop_op_frame.
    rewrite IH by assumption. reflexivity.
Qed.
