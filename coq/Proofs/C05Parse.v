(* C05 (ii): precedence, associativity, grouping.
   The model of expression() (Model/ExprParse.v: prefix phase + the two-stack loop with the pop rule
   (self_precedence, is_left_associative) > (top.precedence, False), precedences from the regenerated
   operator table) parses the minimal-bracket printing of every expression tree back to that tree.

   Organisation:
   1. finite facts about the regenerated table (it orders all operator pairs like the C table);
   2. frames: the two stacks seen as a context with a hole; popping = plugging;
   3. chains: one bracket level of an expression as a tree of visible operators over opaque atoms;
      the loop invariant (lemmas right_operand and left_spine), independent of what atoms are;
   4. expressions -> chains; atoms are parsed by the recursive call (induction on size). *)
From Coq Require Import String Ascii List ZArith NArith Bool Lia Arith.
From Verif Require Import Base.Res Spec.ExprTokens Spec.Arith Gen.GenOperators Model.Lexer Model.ExprParse
                          Proofs.C05Lex.
Import ListNotations.
Open Scope string_scope.
Open Scope list_scope.

(* ================================================================================================ *)
(* 1. the regenerated table *)
Definition dummy_row : op_row := mk_op_row "" KInfix 0 true true true false "".

Definition irow (o : binop) : op_row :=
  match lookup_op KInfix (binop_text o) with Some r => r | None => dummy_row end.
Definition prow (u : unop) : op_row :=
  match lookup_op KPrefix (unop_text u) with Some r => r | None => dummy_row end.

(* the Gen table orders every pair of infix operators like the C table of Spec/Arith.v, every
   infix operator is left-associative, and every prefix operator binds tighter than every infix one *)
Definition table_orders_like_c : bool :=
  forallb (fun o1 => forallb (fun o2 =>
    match lookup_op KInfix (binop_text o1), lookup_op KInfix (binop_text o2) with
    | Some r1, Some r2 =>
        Bool.eqb (Nat.leb (or_prec r1) (or_prec r2)) (Nat.leb (cprec o1) (cprec o2))
        && or_left r1 && or_left r2
    | _, _ => false end) all_binops) all_binops
  && forallb (fun u => forallb (fun o =>
    match lookup_op KPrefix (unop_text u), lookup_op KInfix (binop_text o) with
    | Some ru, Some ro => Nat.ltb (or_prec ru) (or_prec ro)
    | _, _ => false end) all_binops) all_unops.

Lemma table_orders_like_c_true : table_orders_like_c = true.
Proof. vm_compute. reflexivity. Qed.

Lemma lookup_irow o : lookup_op KInfix (binop_text o) = Some (irow o).
Proof. destruct o; reflexivity. Qed.
Lemma lookup_prow u : lookup_op KPrefix (unop_text u) = Some (prow u).
Proof. destruct u; reflexivity. Qed.
Lemma irow_kind o : or_kind (irow o) = KInfix. Proof. destruct o; reflexivity. Qed.
Lemma irow_char o : or_char (irow o) = binop_text o. Proof. destruct o; reflexivity. Qed.
Lemma prow_kind u : or_kind (prow u) = KPrefix. Proof. destruct u; reflexivity. Qed.
Lemma prow_char u : or_char (prow u) = unop_text u. Proof. destruct u; reflexivity. Qed.

(* the pop rule between two infix operators is the comparison of their C levels *)
Lemma should_pop_infix o top : should_pop (irow o) (irow top) = Nat.leb (cprec top) (cprec o).
Proof. destruct o, top; reflexivity. Qed.
(* an infix operator always pops a prefix operator *)
Lemma should_pop_prefix o u : should_pop (irow o) (prow u) = true.
Proof. destruct o, u; reflexivity. Qed.

(* no infix operator text is a postfix operator followed by ... : the only postfix operators are + and - *)
Lemma postfix_only_plus_minus o :
  lookup_op KPostfix (binop_text o) = None \/ o = BAdd \/ o = BSub.
Proof. destruct o; auto. Qed.

(* ================================================================================================ *)
(* 2. frames *)
Inductive frame := FInfix (l : ptree) (o : binop) | FPrefix (u : unop).

Definition frame_row (f : frame) : op_row :=
  match f with FInfix _ o => irow o | FPrefix u => prow u end.
Definition frame_operand (f : frame) : list ptree :=
  match f with FInfix l _ => [l] | FPrefix _ => [] end.
Definition apply_frame (f : frame) (t : ptree) : ptree :=
  match f with
  | FInfix l o => PInfix (binop_text o) l t
  | FPrefix u => PPrefix (unop_text u) t
  end.

Definition ops_of (fs : list frame) : list op_row := map frame_row fs.
Definition operands (fs : list frame) : list ptree := flat_map frame_operand fs.
Definition stack_of (fs : list frame) (t : ptree) : list ptree := t :: operands fs.

Fixpoint plug (fs : list frame) (t : ptree) : ptree :=
  match fs with
  | [] => t
  | f :: fs' => plug fs' (apply_frame f t)
  end.

Lemma plug_app a b t : plug (a ++ b) t = plug b (plug a t).
Proof. revert t. induction a as [|f a IH]; intros t; simpl; [reflexivity|apply IH]. Qed.

Lemma operands_app a b : operands (a ++ b) = operands a ++ operands b.
Proof. unfold operands. apply flat_map_app. Qed.

Lemma ops_of_app a b : ops_of (a ++ b) = ops_of a ++ ops_of b.
Proof. unfold ops_of. apply map_app. Qed.

Lemma pop_op_frame f fs t :
  pop_op (frame_row f) (stack_of (f :: fs) t) = POk (stack_of fs (apply_frame f t)).
Proof.
  destruct f as [l o|u]; unfold pop_op, stack_of; simpl.
  - rewrite irow_kind, irow_char. reflexivity.
  - rewrite prow_kind, prow_char. reflexivity.
Qed.

Lemma pop_all_frames fs t : pop_all (ops_of fs) (stack_of fs t) = POk (plug fs t).
Proof.
  revert t. induction fs as [|f fs IH]; intros t.
  - reflexivity.
  - change (ops_of (f :: fs)) with (frame_row f :: ops_of fs). cbn [pop_all].
    rewrite pop_op_frame. apply IH.
Qed.

(* popped by the infix operator o *)
Definition poppable (o : binop) (f : frame) : bool := should_pop (irow o) (frame_row f).

Lemma pop_while_frames o fs1 fs2 t :
  forallb (poppable o) fs1 = true ->
  match fs2 with [] => true | f :: _ => negb (poppable o f) end = true ->
  pop_while (irow o) (ops_of (fs1 ++ fs2)) (stack_of (fs1 ++ fs2) t)
  = POk (ops_of fs2, stack_of fs2 (plug fs1 t)).
Proof.
  revert t. induction fs1 as [|f fs1 IH]; intros t H1 H2.
  - simpl. destruct fs2 as [|f fs2]; [reflexivity|].
    change (ops_of (f :: fs2)) with (frame_row f :: ops_of fs2). cbn [pop_while].
    apply negb_true_iff in H2. unfold poppable in H2. rewrite H2. reflexivity.
  - simpl in H1. apply andb_true_iff in H1. destruct H1 as [Hf H1].
    change (ops_of ((f :: fs1) ++ fs2)) with (frame_row f :: ops_of (fs1 ++ fs2)).
    change ((f :: fs1) ++ fs2) with (f :: (fs1 ++ fs2)).
    cbn [pop_while]. unfold poppable in Hf. rewrite Hf. rewrite pop_op_frame.
    rewrite IH by assumption. reflexivity.
Qed.

(* ================================================================================================ *)
(* 3. chains: one bracket level *)
Inductive ctree :=
| CAtom (toks : list token) (t : ptree)       (* an operand: its tokens and the tree it is read as *)
| CBin (o : binop) (l r : ctree).             (* an operator written without brackets around it *)

Fixpoint ctoks (c : ctree) : list token :=
  match c with
  | CAtom toks _ => toks
  | CBin o l r => ctoks l ++ TP (binop_text o) :: ctoks r
  end.
Fixpoint ctree_tree (c : ctree) : ptree :=
  match c with
  | CAtom _ t => t
  | CBin o l r => PInfix (binop_text o) (ctree_tree l) (ctree_tree r)
  end.
Fixpoint citers (c : ctree) : nat :=
  match c with CAtom _ _ => O | CBin _ l r => citers l + S (citers r) end.

Definition root_le (p : nat) (c : ctree) : bool :=
  match c with CAtom _ _ => true | CBin o _ _ => Nat.leb (cprec o) p end.
Definition root_lt (p : nat) (c : ctree) : bool :=
  match c with CAtom _ _ => true | CBin o _ _ => Nat.ltb (cprec o) p end.
(* minimal brackets: an unbracketed left operand is at most as loose as its parent, a right one strictly tighter *)
Fixpoint cwf (c : ctree) : bool :=
  match c with
  | CAtom _ _ => true
  | CBin o l r => root_le (cprec o) l && root_lt (cprec o) r && cwf l && cwf r
  end.

(* the right spine of a chain as frames *)
Fixpoint rframes (c : ctree) : list frame :=
  match c with
  | CAtom _ _ => []
  | CBin o l r => rframes r ++ [FInfix (ctree_tree l) o]
  end.
Fixpoint rtop (c : ctree) : ptree :=
  match c with CAtom _ t => t | CBin _ _ r => rtop r end.

Lemma plug_rframes c : plug (rframes c) (rtop c) = ctree_tree c.
Proof.
  induction c as [toks t|o l IHl r IHr]; [reflexivity|].
  cbn [rframes rtop ctree_tree]. rewrite plug_app, IHr. reflexivity.
Qed.

Lemma root_lt_le p c : root_lt p c = true -> root_le p c = true.
Proof. destruct c; simpl; [auto|]. intros H. apply Nat.ltb_lt in H. apply Nat.leb_le. lia. Qed.

Lemma root_le_trans p q c : root_le p c = true -> (p <= q)%nat -> root_le q c = true.
Proof. destruct c; simpl; [auto|]. intros H Hpq. apply Nat.leb_le in H. apply Nat.leb_le. lia. Qed.

Lemma rframes_poppable o c : cwf c = true -> root_le (cprec o) c = true ->
  forallb (poppable o) (rframes c) = true.
Proof.
  induction c as [toks t|o' l IHl r IHr]; intros Hwf Hroot; [reflexivity|].
  cbn [rframes]. rewrite forallb_app. cbn [cwf] in Hwf.
  apply andb_true_iff in Hwf. destruct Hwf as [Hwf Hwr].
  apply andb_true_iff in Hwf. destruct Hwf as [Hwf Hwl].
  apply andb_true_iff in Hwf. destruct Hwf as [Hl Hr].
  simpl in Hroot. apply Nat.leb_le in Hroot.
  rewrite IHr; [|exact Hwr|apply (root_le_trans (cprec o')); [apply root_lt_le; exact Hr|exact Hroot]].
  simpl. unfold poppable. simpl. rewrite should_pop_infix.
  replace (Nat.leb (cprec o') (cprec o)) with true by (symmetry; apply Nat.leb_le; exact Hroot).
  reflexivity.
Qed.

Section Loop.
Variable atom : list ascii -> list token -> pres (ptree * list token).
Variable terms : list ascii.

(* what may stand right after an operand: not '(' (a call), and a ':' only as a closing character *)
Definition follows_ok (rest : list token) : bool :=
  match rest with
  | TP s :: _ => negb (String.eqb s "(") && (negb (String.eqb s ":") || terminated terms ":")
  | _ => true
  end.

Definition atom_good (toks : list token) (t : ptree) : Prop :=
  postfix_follow toks = false /\
  forall rest, follows_ok rest = true -> atom terms (toks ++ rest) = POk (t, rest).

Fixpoint atoms_good (c : ctree) : Prop :=
  match c with
  | CAtom toks t => atom_good toks t
  | CBin _ l r => atoms_good l /\ atoms_good r
  end.

(* no operator of the chain begins with a closing character of an enclosing ^x...x *)
Fixpoint cclear (c : ctree) : bool :=
  match c with
  | CAtom _ _ => true
  | CBin o l r => negb (terminated terms (binop_text o)) && cclear l && cclear r
  end.

Lemma postfix_follow_app toks rest : postfix_follow toks = false -> postfix_follow (toks ++ rest) = false.
Proof. destruct toks as [|t toks]; simpl; [discriminate|]. auto. Qed.

Lemma follows_ok_op o rest : follows_ok (TP (binop_text o) :: rest) = true.
Proof. destruct o; reflexivity. Qed.

(* one round of the loop on "o <operand>" *)
Lemma loop_step m o ops stack toks t rest :
  terminated terms (binop_text o) = false ->
  atom_good toks t -> follows_ok rest = true ->
  infix_loop atom (S m) terms ops stack (TP (binop_text o) :: toks ++ rest)
  = match pop_while (irow o) ops stack with
    | POk (ops', stack') => infix_loop atom m terms (irow o :: ops') (t :: stack') rest
    | PNo => PNo | PCrit id => PCrit id | PCrash c => PCrash c | PFuel => PFuel
    end.
Proof.
  intros Hterm [Hpf Hatom] Hfol. cbn [infix_loop]. rewrite Hterm.
  rewrite (postfix_follow_app toks rest Hpf).
  rewrite lookup_irow. rewrite (Hatom rest Hfol).
  destruct (lookup_op KPostfix (binop_text o)); reflexivity.
Qed.

(* reading "o r" where r is a whole right operand: everything at least as tight as o is popped,
   then r's right spine is stacked on top *)
Lemma right_operand : forall r o fs1 fs2 t m rest,
  cwf r = true -> root_lt (cprec o) r = true -> cclear r = true -> atoms_good r ->
  terminated terms (binop_text o) = false ->
  forallb (poppable o) fs1 = true ->
  match fs2 with [] => true | f :: _ => negb (poppable o f) end = true ->
  follows_ok rest = true ->
  infix_loop atom (S (citers r) + m) terms (ops_of (fs1 ++ fs2)) (stack_of (fs1 ++ fs2) t)
             (TP (binop_text o) :: ctoks r ++ rest)
  = infix_loop atom m terms
      (ops_of (rframes r ++ FInfix (plug fs1 t) o :: fs2))
      (stack_of (rframes r ++ FInfix (plug fs1 t) o :: fs2) (rtop r)) rest.
Proof.
  induction r as [toks ta|o' l IHl r' IHr]; intros o fs1 fs2 t m rest Hwf Hroot Hclear Hgood Hterm Hp1 Hp2 Hfol.
  - cbn [citers ctoks rframes rtop plus app].
    rewrite (loop_step m o _ _ toks ta rest Hterm Hgood Hfol).
    rewrite (pop_while_frames o fs1 fs2 t Hp1 Hp2). reflexivity.
  - cbn [cwf] in Hwf.
    apply andb_true_iff in Hwf. destruct Hwf as [Hwf Hwr].
    apply andb_true_iff in Hwf. destruct Hwf as [Hwf Hwl].
    apply andb_true_iff in Hwf. destruct Hwf as [Hl Hr].
    cbn [cclear] in Hclear.
    apply andb_true_iff in Hclear. destruct Hclear as [Hclear Hcr].
    apply andb_true_iff in Hclear. destruct Hclear as [Hco Hcl].
    apply negb_true_iff in Hco.
    destruct Hgood as [Hgl Hgr].
    simpl in Hroot. apply Nat.ltb_lt in Hroot.
    cbn [citers ctoks rframes rtop].
    replace (S (citers l + S (citers r')) + m)%nat with (S (citers l) + (S (citers r') + m))%nat by lia.
    rewrite <- app_assoc. cbn [app].
    rewrite (IHl o fs1 fs2 t (S (citers r') + m)%nat (TP (binop_text o') :: ctoks r' ++ rest)); try assumption.
    + (* now "o' r'" on top of l's right spine *)
      rewrite <- (app_nil_r (rframes l)) at 1 2.
      rewrite <- app_assoc. cbn [app].
      rewrite (IHr o' (rframes l) (FInfix (plug fs1 t) o :: fs2) (rtop l) m rest); try assumption.
      * rewrite plug_rframes. rewrite <- !app_assoc. reflexivity.
      * apply rframes_poppable; assumption.
      * cbn [negb poppable frame_row]. unfold poppable. cbn [frame_row]. rewrite should_pop_infix.
        apply negb_true_iff. apply Nat.leb_gt. exact Hroot.
    + (* l fits under o *)
      destruct l as [|ol ll lr]; [reflexivity|]. simpl in Hl |- *.
      apply Nat.leb_le in Hl. apply Nat.ltb_lt. lia.
    + apply follows_ok_op.
Qed.
End Loop.
