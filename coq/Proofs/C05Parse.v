(* C05 (ii): precedence, associativity, grouping.
   The model of expression() (Model/ExprParse.v: prefix phase + the two-stack loop with the pop rule
   (self_precedence, is_left_associative) > (top.precedence, False), precedences from the regenerated
   operator table) parses the minimal-bracket printing of every expression tree back to that tree.

   Organisation:
   1. finite facts about the regenerated table (it orders all operator pairs like the C table);
   2. frames: the two stacks seen as a context with a hole; popping = plugging;
   3. chains: one bracket level of an expression as a tree of visible operators over opaque atoms;
      the loop invariant (lemmas right_operand and left_spine), independent of what atoms are;
   4. expressions -> chains; atoms are parsed by the recursive call (induction on size). *)
From Coq Require Import String Ascii List ZArith NArith Bool Lia Arith.
From Verif Require Import Base.Res Spec.ExprTokens Spec.Arith Gen.GenOperators Model.Lexer Model.ExprParse
                          Proofs.C05Lex.
Import ListNotations.
Open Scope string_scope.
Open Scope list_scope.

(* ================================================================================================ *)
(* 1. the regenerated table *)
Definition dummy_row : op_row := mk_op_row "" KInfix 0 true true true false "".

Definition irow (o : binop) : op_row :=
  match lookup_op KInfix (binop_text o) with Some r => r | None => dummy_row end.
Definition prow (u : unop) : op_row :=
  match lookup_op KPrefix (unop_text u) with Some r => r | None => dummy_row end.

(* the Gen table orders every pair of infix operators like the C table of Spec/Arith.v, every
   infix operator is left-associative, and every prefix operator binds tighter than every infix one *)
Definition table_orders_like_c : bool :=
  forallb (fun o1 => forallb (fun o2 =>
    match lookup_op KInfix (binop_text o1), lookup_op KInfix (binop_text o2) with
    | Some r1, Some r2 =>
        Bool.eqb (Nat.leb (or_prec r1) (or_prec r2)) (Nat.leb (cprec o1) (cprec o2))
        && or_left r1 && or_left r2
    | _, _ => false end) all_binops) all_binops
  && forallb (fun u => forallb (fun o =>
    match lookup_op KPrefix (unop_text u), lookup_op KInfix (binop_text o) with
    | Some ru, Some ro => Nat.ltb (or_prec ru) (or_prec ro)
    | _, _ => false end) all_binops) all_unops.

Lemma table_orders_like_c_true : table_orders_like_c = true.
Proof. vm_compute. reflexivity. Qed.

Lemma lookup_irow o : lookup_op KInfix (binop_text o) = Some (irow o).
Proof. destruct o; reflexivity. Qed.
Lemma lookup_prow u : lookup_op KPrefix (unop_text u) = Some (prow u).
Proof. destruct u; reflexivity. Qed.
Lemma irow_kind o : or_kind (irow o) = KInfix. Proof. destruct o; reflexivity. Qed.
Lemma irow_char o : or_char (irow o) = binop_text o. Proof. destruct o; reflexivity. Qed.
Lemma prow_kind u : or_kind (prow u) = KPrefix. Proof. destruct u; reflexivity. Qed.
Lemma prow_char u : or_char (prow u) = unop_text u. Proof. destruct u; reflexivity. Qed.

(* the pop rule between two infix operators is the comparison of their C levels *)
Lemma should_pop_infix o top : should_pop (irow o) (irow top) = Nat.leb (cprec top) (cprec o).
Proof. destruct o, top; reflexivity. Qed.
(* an infix operator always pops a prefix operator *)
Lemma should_pop_prefix o u : should_pop (irow o) (prow u) = true.
Proof. destruct o, u; reflexivity. Qed.

(* no infix operator text is a postfix operator followed by ... : the only postfix operators are + and - *)
Lemma postfix_only_plus_minus o :
  lookup_op KPostfix (binop_text o) = None \/ o = BAdd \/ o = BSub.
Proof. destruct o; auto. Qed.

(* ================================================================================================ *)
(* 2. frames *)
Inductive frame := FInfix (l : ptree) (o : binop) | FPrefix (u : unop).

Definition frame_row (f : frame) : op_row :=
  match f with FInfix _ o => irow o | FPrefix u => prow u end.
Definition frame_operand (f : frame) : list ptree :=
  match f with FInfix l _ => [l] | FPrefix _ => [] end.
Definition apply_frame (f : frame) (t : ptree) : ptree :=
  match f with
  | FInfix l o => PInfix (binop_text o) l t
  | FPrefix u => PPrefix (unop_text u) t
  end.

Definition ops_of (fs : list frame) : list op_row := map frame_row fs.
Definition operands (fs : list frame) : list ptree := flat_map frame_operand fs.
Definition stack_of (fs : list frame) (t : ptree) : list ptree := t :: operands fs.

Fixpoint plug (fs : list frame) (t : ptree) : ptree :=
  match fs with
  | [] => t
  | f :: fs' => plug fs' (apply_frame f t)
  end.

Lemma plug_app a b t : plug (a ++ b) t = plug b (plug a t).
Proof. revert t. induction a as [|f a IH]; intros t; simpl; [reflexivity|apply IH]. Qed.

Lemma operands_app a b : operands (a ++ b) = operands a ++ operands b.
Proof. unfold operands. apply flat_map_app. Qed.

Lemma ops_of_app a b : ops_of (a ++ b) = ops_of a ++ ops_of b.
Proof. unfold ops_of. apply map_app. Qed.

Lemma pop_op_frame f fs t :
  pop_op (frame_row f) (stack_of (f :: fs) t) = POk (stack_of fs (apply_frame f t)).
Proof.
  destruct f as [l o|u]; unfold pop_op, stack_of; simpl.
  - rewrite irow_kind, irow_char. reflexivity.
  - rewrite prow_kind, prow_char. reflexivity.
Qed.

Lemma pop_all_frames fs t : pop_all (ops_of fs) (stack_of fs t) = POk (plug fs t).
Proof.
  revert t. induction fs as [|f fs IH]; intros t.
  - reflexivity.
  - change (ops_of (f :: fs)) with (frame_row f :: ops_of fs). cbn [pop_all].
    rewrite pop_op_frame. apply IH.
Qed.

(* popped by the infix operator o *)
Definition poppable (o : binop) (f : frame) : bool := should_pop (irow o) (frame_row f).

Lemma pop_while_frames o fs1 fs2 t :
  forallb (poppable o) fs1 = true ->
  match fs2 with [] => true | f :: _ => negb (poppable o f) end = true ->
  pop_while (irow o) (ops_of (fs1 ++ fs2)) (stack_of (fs1 ++ fs2) t)
  = POk (ops_of fs2, stack_of fs2 (plug fs1 t)).
Proof.
  revert t. induction fs1 as [|f fs1 IH]; intros t H1 H2.
  - simpl. destruct fs2 as [|f fs2]; [reflexivity|].
    change (ops_of (f :: fs2)) with (frame_row f :: ops_of fs2). cbn [pop_while].
    apply negb_true_iff in H2. unfold poppable in H2. rewrite H2. reflexivity.
  - simpl in H1. apply andb_true_iff in H1. destruct H1 as [Hf H1].
    change (ops_of ((f :: fs1) ++ fs2)) with (frame_row f :: ops_of (fs1 ++ fs2)).
    change ((f :: fs1) ++ fs2) with (f :: (fs1 ++ fs2)).
    cbn [pop_while]. unfold poppable in Hf. rewrite Hf. rewrite pop_op_frame.
    rewrite IH by assumption. reflexivity.
Qed.

(* ================================================================================================ *)
(* 3. chains: one bracket level *)
Inductive ctree :=
| CAtom (toks : list token) (t : ptree)       (* an operand: its tokens and the tree it is read as *)
| CBin (o : binop) (l r : ctree).             (* an operator written without brackets around it *)

Fixpoint ctoks (c : ctree) : list token :=
  match c with
  | CAtom toks _ => toks
  | CBin o l r => ctoks l ++ TP (binop_text o) :: ctoks r
  end.
Fixpoint ctree_tree (c : ctree) : ptree :=
  match c with
  | CAtom _ t => t
  | CBin o l r => PInfix (binop_text o) (ctree_tree l) (ctree_tree r)
  end.
Fixpoint citers (c : ctree) : nat :=
  match c with CAtom _ _ => O | CBin _ l r => citers l + S (citers r) end.

Definition root_le (p : nat) (c : ctree) : bool :=
  match c with CAtom _ _ => true | CBin o _ _ => Nat.leb (cprec o) p end.
Definition root_lt (p : nat) (c : ctree) : bool :=
  match c with CAtom _ _ => true | CBin o _ _ => Nat.ltb (cprec o) p end.
(* minimal brackets: an unbracketed left operand is at most as loose as its parent, a right one strictly tighter *)
Fixpoint cwf (c : ctree) : bool :=
  match c with
  | CAtom _ _ => true
  | CBin o l r => root_le (cprec o) l && root_lt (cprec o) r && cwf l && cwf r
  end.

(* the right spine of a chain as frames *)
Fixpoint rframes (c : ctree) : list frame :=
  match c with
  | CAtom _ _ => []
  | CBin o l r => rframes r ++ [FInfix (ctree_tree l) o]
  end.
Fixpoint rtop (c : ctree) : ptree :=
  match c with CAtom _ t => t | CBin _ _ r => rtop r end.

Lemma plug_rframes c : plug (rframes c) (rtop c) = ctree_tree c.
Proof.
  induction c as [toks t|o l IHl r IHr]; [reflexivity|].
  cbn [rframes rtop ctree_tree]. rewrite plug_app, IHr. reflexivity.
Qed.

Lemma root_lt_le p c : root_lt p c = true -> root_le p c = true.
Proof. destruct c; simpl; [auto|]. intros H. apply Nat.ltb_lt in H. apply Nat.leb_le. lia. Qed.

Lemma root_le_trans p q c : root_le p c = true -> (p <= q)%nat -> root_le q c = true.
Proof. destruct c; simpl; [auto|]. intros H Hpq. apply Nat.leb_le in H. apply Nat.leb_le. lia. Qed.

Lemma rframes_poppable o c : cwf c = true -> root_le (cprec o) c = true ->
  forallb (poppable o) (rframes c) = true.
Proof.
  induction c as [toks t|o' l IHl r IHr]; intros Hwf Hroot; [reflexivity|].
  cbn [rframes]. rewrite forallb_app. cbn [cwf] in Hwf.
  apply andb_true_iff in Hwf. destruct Hwf as [Hwf Hwr].
  apply andb_true_iff in Hwf. destruct Hwf as [Hwf Hwl].
  apply andb_true_iff in Hwf. destruct Hwf as [Hl Hr].
  simpl in Hroot. apply Nat.leb_le in Hroot.
  rewrite IHr; [|exact Hwr|apply (root_le_trans (cprec o')); [apply root_lt_le; exact Hr|exact Hroot]].
  simpl. unfold poppable. simpl. rewrite should_pop_infix.
  replace (Nat.leb (cprec o') (cprec o)) with true by (symmetry; apply Nat.leb_le; exact Hroot).
  reflexivity.
Qed.

Lemma fuel_split a b m : (S (a + S b) + m = S a + (S b + m))%nat.
Proof. lia. Qed.

Lemma root_le_lt p q c : root_le p c = true -> (p < q)%nat -> root_lt q c = true.
Proof. destruct c; simpl; [auto|]. intros H Hpq. apply Nat.leb_le in H. apply Nat.ltb_lt. lia. Qed.

Lemma terminated_not (ts : list ascii) (c0 : ascii) s :
  forallb (fun c => existsb (Ascii.eqb c) caret_chars) ts = true ->
  existsb (Ascii.eqb c0) caret_chars = false -> terminated ts (String c0 s) = false.
Proof.
  unfold terminated. intros Hok Hc. induction ts as [|c tl IH]; [reflexivity|].
  cbn [forallb] in Hok. apply andb_true_iff in Hok. destruct Hok as [Hc1 Hok].
  cbn [existsb]. rewrite IH by exact Hok. rewrite orb_false_r. cbn [starts_with].
  destruct (Ascii.eqb c c0) eqn:E; [|reflexivity].
  apply Ascii.eqb_eq in E. subst. congruence.
Qed.

Section Loop.
Variable atom : list ascii -> list token -> pres (ptree * list token).
Variable terms : list ascii.

(* what may stand right after an operand: not '(' (a call), and a ':' only as a closing character *)
Definition follows_ok (rest : list token) : bool :=
  match rest with
  | TP s :: _ => negb (String.eqb s "(") && (negb (String.eqb s ":") || terminated terms ":")
  | _ => true
  end.

Definition atom_good (toks : list token) (t : ptree) : Prop :=
  postfix_follow toks = false /\
  forall rest, follows_ok rest = true -> atom terms (toks ++ rest) = POk (t, rest).

Fixpoint atoms_good (c : ctree) : Prop :=
  match c with
  | CAtom toks t => atom_good toks t
  | CBin _ l r => atoms_good l /\ atoms_good r
  end.

(* no operator of the chain begins with a closing character of an enclosing ^x...x *)
Fixpoint cclear (c : ctree) : bool :=
  match c with
  | CAtom _ _ => true
  | CBin o l r => negb (terminated terms (binop_text o)) && cclear l && cclear r
  end.

Lemma postfix_follow_app toks rest : postfix_follow toks = false -> postfix_follow (toks ++ rest) = false.
Proof. destruct toks as [|t toks]; simpl; [discriminate|]. auto. Qed.

Lemma follows_ok_op o rest : follows_ok (TP (binop_text o) :: rest) = true.
Proof. destruct o; reflexivity. Qed.

(* one round of the loop on "o <operand>" *)
Lemma loop_step m o ops stack toks t rest :
  terminated terms (binop_text o) = false ->
  atom_good toks t -> follows_ok rest = true ->
  infix_loop atom (S m) terms ops stack (TP (binop_text o) :: toks ++ rest)
  = match pop_while (irow o) ops stack with
    | POk (ops', stack') => infix_loop atom m terms (irow o :: ops') (t :: stack') rest
    | PNo => PNo | PCrit id => PCrit id | PCrash c => PCrash c | PFuel => PFuel
    end.
Proof.
  intros Hterm [Hpf Hatom] Hfol. cbn [infix_loop]. rewrite Hterm.
  rewrite (postfix_follow_app toks rest Hpf).
  rewrite lookup_irow. rewrite (Hatom rest Hfol).
  destruct (lookup_op KPostfix (binop_text o)); reflexivity.
Qed.

(* reading "o r" where r is a whole right operand: everything at least as tight as o is popped,
   then r's right spine is stacked on top *)
Lemma right_operand : forall r o fs1 fs2 t m rest,
  cwf r = true -> root_lt (cprec o) r = true -> cclear r = true -> atoms_good r ->
  terminated terms (binop_text o) = false ->
  forallb (poppable o) fs1 = true ->
  match fs2 with [] => true | f :: _ => negb (poppable o f) end = true ->
  follows_ok rest = true ->
  infix_loop atom (S (citers r) + m) terms (ops_of (fs1 ++ fs2)) (stack_of (fs1 ++ fs2) t)
             (TP (binop_text o) :: ctoks r ++ rest)
  = infix_loop atom m terms
      (ops_of (rframes r ++ FInfix (plug fs1 t) o :: fs2))
      (stack_of (rframes r ++ FInfix (plug fs1 t) o :: fs2) (rtop r)) rest.
Proof.
  induction r as [toks ta|o' l IHl r' IHr]; intros o fs1 fs2 t m rest Hwf Hroot Hclear Hgood Hterm Hp1 Hp2 Hfol.
  - cbn [citers ctoks rframes rtop plus app].
    rewrite (loop_step m o _ _ toks ta rest Hterm Hgood Hfol).
    rewrite (pop_while_frames o fs1 fs2 t Hp1 Hp2). reflexivity.
  - cbn [cwf] in Hwf.
    apply andb_true_iff in Hwf. destruct Hwf as [Hwf Hwr].
    apply andb_true_iff in Hwf. destruct Hwf as [Hwf Hwl].
    apply andb_true_iff in Hwf. destruct Hwf as [Hl Hr].
    cbn [cclear] in Hclear.
    apply andb_true_iff in Hclear. destruct Hclear as [Hclear Hcr].
    apply andb_true_iff in Hclear. destruct Hclear as [Hco Hcl].
    apply negb_true_iff in Hco.
    destruct Hgood as [Hgl Hgr].
    simpl in Hroot. apply Nat.ltb_lt in Hroot.
    cbn [citers ctoks rframes rtop].
    rewrite fuel_split.
    rewrite <- app_assoc. cbn [app].
    rewrite (IHl o fs1 fs2 t (S (citers r') + m)%nat (TP (binop_text o') :: ctoks r' ++ rest)); try assumption.
    + (* now "o' r'" on top of l's right spine *)
      rewrite <- (app_nil_r (rframes l)) at 1 2.
      rewrite <- app_assoc. cbn [app].
      rewrite (IHr o' (rframes l) (FInfix (plug fs1 t) o :: fs2) (rtop l) m rest); try assumption.
      * rewrite plug_rframes. rewrite <- !app_assoc. reflexivity.
      * apply rframes_poppable; assumption.
      * cbn [negb poppable frame_row]. unfold poppable. cbn [frame_row]. rewrite should_pop_infix.
        apply negb_true_iff. apply Nat.leb_gt. exact Hroot.
    + (* l fits under o *)
      apply (root_le_lt (cprec o') (cprec o)); assumption.
    + apply follows_ok_op.
Qed.

(* ---- the left spine: the leftmost operand is already on the stack, under prefix operators ---- *)
Fixpoint ctail (c : ctree) : list token :=
  match c with
  | CAtom _ _ => []
  | CBin o l r => ctail l ++ TP (binop_text o) :: ctoks r
  end.
Fixpoint cfirst (c : ctree) : list token * ptree :=
  match c with CAtom toks t => (toks, t) | CBin _ l _ => cfirst l end.
(* the tree of the chain with another tree in place of its leftmost operand *)
Fixpoint ctree_with (t0 : ptree) (c : ctree) : ptree :=
  match c with
  | CAtom _ _ => t0
  | CBin o l r => PInfix (binop_text o) (ctree_with t0 l) (ctree_tree r)
  end.
(* frames and top operand once the whole chain has been read *)
Fixpoint lstate (P : list frame) (t0 : ptree) (c : ctree) : list frame * ptree :=
  match c with
  | CAtom _ _ => (P, t0)
  | CBin o l r => (rframes r ++ [FInfix (plug (fst (lstate P t0 l)) (snd (lstate P t0 l))) o], rtop r)
  end.

Lemma ctoks_split c : ctoks c = fst (cfirst c) ++ ctail c.
Proof.
  induction c as [toks t|o l IHl r IHr]; simpl; [rewrite app_nil_r; reflexivity|].
  rewrite IHl at 1. rewrite <- app_assoc. reflexivity.
Qed.

Lemma ctail_head c : ctail c = [] \/ exists o tl, ctail c = TP (binop_text o) :: tl.
Proof.
  induction c as [toks t|o l IHl r IHr]; [left; reflexivity|]. right. cbn [ctail].
  destruct IHl as [E|[o' [tl E]]]; rewrite E.
  - exists o. eexists. reflexivity.
  - exists o'. eexists. reflexivity.
Qed.

Lemma plug_lstate P t0 c : plug (fst (lstate P t0 c)) (snd (lstate P t0 c)) = ctree_with (plug P t0) c.
Proof.
  induction c as [toks t|o l IHl r IHr]; [reflexivity|].
  cbn [lstate fst snd ctree_with]. rewrite plug_app, plug_rframes. cbn [plug apply_frame].
  rewrite IHl. reflexivity.
Qed.

Definition is_prefix_frame (f : frame) : bool := match f with FPrefix _ => true | FInfix _ _ => false end.

Lemma prefix_frames_poppable o P : forallb is_prefix_frame P = true -> forallb (poppable o) P = true.
Proof.
  induction P as [|f P IH]; [reflexivity|]. simpl. intros H. apply andb_true_iff in H. destruct H as [Hf H].
  rewrite IH by exact H. destruct f; [discriminate|]. unfold poppable. simpl. rewrite should_pop_prefix. reflexivity.
Qed.

Lemma lstate_poppable o P t0 c : forallb is_prefix_frame P = true -> cwf c = true -> root_le (cprec o) c = true ->
  forallb (poppable o) (fst (lstate P t0 c)) = true.
Proof.
  intros HP Hwf Hroot. destruct c as [toks t|o' l r].
  - simpl. apply prefix_frames_poppable. exact HP.
  - cbn [lstate fst].
    change (rframes r ++ [FInfix (plug (fst (lstate P t0 l)) (snd (lstate P t0 l))) o'])
      with (rframes r ++ [FInfix (plug (fst (lstate P t0 l)) (snd (lstate P t0 l))) o']).
    rewrite forallb_app. cbn [cwf] in Hwf.
    apply andb_true_iff in Hwf. destruct Hwf as [Hwf Hwr].
    apply andb_true_iff in Hwf. destruct Hwf as [Hwf Hwl].
    apply andb_true_iff in Hwf. destruct Hwf as [Hl Hr].
    simpl in Hroot. pose proof Hroot as Hroot'. apply Nat.leb_le in Hroot.
    rewrite rframes_poppable; [|exact Hwr|apply (root_le_trans (cprec o')); [apply root_lt_le; exact Hr|exact Hroot]].
    simpl. unfold poppable. simpl. rewrite should_pop_infix. rewrite Hroot'. reflexivity.
Qed.

Lemma left_spine : forall c P t0 m rest,
  cwf c = true -> cclear c = true -> atoms_good c ->
  forallb is_prefix_frame P = true -> follows_ok rest = true ->
  infix_loop atom (citers c + m) terms (ops_of P) (stack_of P t0) (ctail c ++ rest)
  = infix_loop atom m terms (ops_of (fst (lstate P t0 c))) (stack_of (fst (lstate P t0 c)) (snd (lstate P t0 c))) rest.
Proof.
  induction c as [toks t|o l IHl r IHr]; intros P t0 m rest Hwf Hclear Hgood HP Hfol.
  - reflexivity.
  - cbn [cwf] in Hwf.
    apply andb_true_iff in Hwf. destruct Hwf as [Hwf Hwr].
    apply andb_true_iff in Hwf. destruct Hwf as [Hwf Hwl].
    apply andb_true_iff in Hwf. destruct Hwf as [Hl Hr].
    cbn [cclear] in Hclear.
    apply andb_true_iff in Hclear. destruct Hclear as [Hclear Hcr].
    apply andb_true_iff in Hclear. destruct Hclear as [Hco Hcl].
    apply negb_true_iff in Hco.
    destruct Hgood as [Hgl Hgr].
    cbn [citers ctail lstate fst snd].
    rewrite <- Nat.add_assoc. rewrite <- app_assoc. cbn [app].
    rewrite (IHl P t0 (S (citers r) + m)%nat (TP (binop_text o) :: ctoks r ++ rest)); try assumption;
      [|apply follows_ok_op].
    rewrite <- (app_nil_r (fst (lstate P t0 l))) at 1 2.
    rewrite (right_operand r o (fst (lstate P t0 l)) [] (snd (lstate P t0 l)) m rest); try assumption.
    + reflexivity.
    + apply lstate_poppable; assumption.
    + reflexivity.
Qed.

(* ---- where the loop ends ---------------------------------------------------------------------- *)
(* after a complete expression: end of input, or a closing bracket of either kind *)
Definition stop_ok (rest : list token) : bool :=
  match rest with
  | [] => true
  | TP s :: _ => terminated terms s || String.eqb s ")" || String.eqb s ">"
  | _ => false
  end.

Lemma loop_finish m ops stack rest : stop_ok rest = true ->
  infix_loop atom (S m) terms ops stack rest
  = match pop_all ops stack with
    | POk e => POk (e, rest)
    | PNo => PNo | PCrit id => PCrit id | PCrash s => PCrash s | PFuel => PFuel
    end.
Proof.
  intros H. destruct rest as [|tk rest]; [reflexivity|].
  destruct tk; try discriminate. cbn [stop_ok] in H. cbn [infix_loop].
  destruct (terminated terms s) eqn:E; [reflexivity|]. cbn [orb] in H.
  apply orb_true_iff in H. destruct H as [H|H]; apply String.eqb_eq in H; subst s; reflexivity.
Qed.

(* every closing character of an enclosing ^x...x is one of the admitted ones *)
Definition terms_ok : bool := forallb (fun c => existsb (Ascii.eqb c) caret_chars) terms.

Lemma terms_not (c0 : ascii) s : terms_ok = true ->
  existsb (Ascii.eqb c0) caret_chars = false -> terminated terms (String c0 s) = false.
Proof. unfold terms_ok. apply terminated_not. Qed.

Lemma stop_follows rest : terms_ok = true -> stop_ok rest = true -> follows_ok rest = true.
Proof.
  intros Hok H. destruct rest as [|tk rest]; [reflexivity|]. destruct tk; try reflexivity.
  cbn [stop_ok follows_ok] in *.
  destruct (String.eqb s "(") eqn:E1.
  - apply String.eqb_eq in E1. subst s. rewrite (terms_not "(" "" Hok) in H by reflexivity. discriminate.
  - cbn [negb andb]. destruct (String.eqb s ":") eqn:E2; [|reflexivity].
    apply String.eqb_eq in E2. subst s. cbn [negb orb]. simpl in H. rewrite !orb_false_r in H. exact H.
Qed.

(* ---- the first loop ---------------------------------------------------------------------------- *)
(* a prefix operator is only taken after an operand failed to match there: the '-' of a number belongs to the number *)
Definition no_num_after (u : unop) (rest : list token) : bool :=
  match u, rest with
  | UNeg, TNum _ :: _ => false
  | _, _ => true
  end.
Hypothesis prefix_no_atom : forall u rest, no_num_after u rest = true -> atom terms (TP (unop_text u) :: rest) = PNo.

Definition pre_tokens (pre : list unop) : list token := map (fun u => TP (unop_text u)) pre.
(* [P]: prefix operators read so far, last first *)
Definition pre_frames (pre : list unop) : list frame := map FPrefix (rev pre).

Fixpoint pre_ok (pre : list unop) (toks0 : list token) : bool :=
  match pre with
  | [] => true
  | [u] => no_num_after u toks0
  | _ :: rest => pre_ok rest toks0
  end.

Lemma prefix_tok_not_terminated u : terms_ok = true -> terminated terms (unop_text u) = false.
Proof. intros H. destruct u; apply terms_not; try exact H; reflexivity. Qed.

Lemma prefix_phase_reads : forall pre done toks0 t0 rest k,
  terms_ok = true -> pre_ok pre toks0 = true ->
  toks0 <> [] ->
  atom terms (toks0 ++ rest) = POk (t0, rest) ->
  prefix_phase atom (length pre + S k) terms (ops_of (pre_frames done)) (pre_tokens pre ++ toks0 ++ rest)
  = POk (ops_of (pre_frames (done ++ pre)), t0, rest).
Proof.
  induction pre as [|u pre IH]; intros done toks0 t0 rest k Hok Hpre Hne Hatom.
  - cbn [length plus pre_tokens map app prefix_phase]. rewrite Hatom. rewrite app_nil_r. reflexivity.
  - cbn [length plus pre_tokens map app prefix_phase].
    assert (Hno : atom terms (TP (unop_text u) :: pre_tokens pre ++ toks0 ++ rest) = PNo).
    { apply prefix_no_atom. destruct pre as [|u2 pre].
      - simpl in Hpre. cbn [pre_tokens map app]. destruct u; try reflexivity.
        destruct toks0 as [|tk toks0]; [congruence|]. destruct tk; try reflexivity. simpl in Hpre. discriminate.
      - destruct u; reflexivity. }
    fold (pre_tokens pre). rewrite Hno. rewrite (prefix_tok_not_terminated u Hok). rewrite lookup_prow.
    replace (prow u :: ops_of (pre_frames done)) with (ops_of (pre_frames (done ++ [u]))).
    + rewrite (IH (done ++ [u]) toks0 t0 rest k Hok); try assumption.
      * rewrite <- app_assoc. reflexivity.
      * destruct pre; [reflexivity|exact Hpre].
    + unfold pre_frames. rewrite rev_app_distr. reflexivity.
Qed.

Lemma pre_frames_prefix pre : forallb is_prefix_frame (pre_frames pre) = true.
Proof. unfold pre_frames. induction (rev pre); simpl; auto. Qed.

Lemma operands_pre_frames pre : operands (pre_frames pre) = [].
Proof. unfold pre_frames. induction (rev pre); simpl; auto. Qed.

(* prefix operators applied to a tree, first one outermost *)
Fixpoint wrap (pre : list unop) (t : ptree) : ptree :=
  match pre with [] => t | u :: rest => PPrefix (unop_text u) (wrap rest t) end.

Lemma plug_pre_frames pre t : plug (pre_frames pre) t = wrap pre t.
Proof.
  unfold pre_frames. revert t. induction pre as [|u pre IH]; intros t; [reflexivity|].
  cbn [rev]. rewrite map_app, plug_app. rewrite IH. reflexivity.
Qed.

(* ---- one whole expression at one bracket level -------------------------------------------------- *)
Lemma level_parses pre c rest n :
  terms_ok = true -> cwf c = true -> cclear c = true -> atoms_good c ->
  pre_ok pre (fst (cfirst c)) = true -> stop_ok rest = true ->
  (length pre + citers c < n)%nat ->
  match prefix_phase atom n terms [] (pre_tokens pre ++ ctoks c ++ rest) with
  | POk (ops, e, rest') => infix_loop atom n terms ops [e] rest'
  | PNo => PNo | PCrit id => PCrit id | PCrash s => PCrash s | PFuel => PFuel
  end
  = POk (ctree_with (wrap pre (snd (cfirst c))) c, rest).
Proof.
  intros Hok Hwf Hclear Hgood Hpre Hstop Hn.
  assert (Hfol : follows_ok rest = true) by (apply stop_follows; assumption).
  (* the leftmost operand *)
  assert (Hfirst : atom_good (fst (cfirst c)) (snd (cfirst c))).
  { clear -Hgood. induction c as [toks t|o l IHl r IHr]; [exact Hgood|]. apply IHl. apply Hgood. }
  destruct Hfirst as [Hpf Hatom].
  assert (Hne : fst (cfirst c) <> []) by (intros E; rewrite E in Hpf; discriminate).
  assert (Hfol1 : follows_ok (ctail c ++ rest) = true).
  { destruct (ctail_head c) as [E|[o [tl E]]]; rewrite E; [exact Hfol|apply follows_ok_op]. }
  rewrite ctoks_split. rewrite <- app_assoc.
  replace n with (length pre + S (n - length pre - 1))%nat at 1 by lia.
  change (@nil op_row) with (ops_of (pre_frames [])).
  rewrite (prefix_phase_reads pre [] (fst (cfirst c)) (snd (cfirst c)) (ctail c ++ rest) _ Hok Hpre Hne
             (Hatom _ Hfol1)).
  cbn [app].
  replace [snd (cfirst c)] with (stack_of (pre_frames pre) (snd (cfirst c)))
    by (unfold stack_of; rewrite operands_pre_frames; reflexivity).
  replace n with (citers c + S (n - citers c - 1))%nat by lia.
  rewrite (left_spine c (pre_frames pre) (snd (cfirst c)) _ rest Hwf Hclear Hgood (pre_frames_prefix pre) Hfol).
  rewrite (loop_finish _ _ _ rest Hstop). rewrite pop_all_frames.
  rewrite plug_lstate. rewrite plug_pre_frames. reflexivity.
Qed.
End Loop.

(* ================================================================================================ *)
(* 4. expressions as chains *)

(* the tree a literal is read as (what it is worth: Proofs/C05Lex.v) *)
Definition rad50_string (cs : list N) : string := string_of_list_ascii (map ascii_of_N cs).
Definition lit_tree (l : literal) : ptree :=
  match l with
  | LNum neg _ _ _ n => PNum (signed neg n) false false
  | LBad89 neg ds => if neg then PNum (signed true (horner 10 ds)) false true
                     else PNum (signed false (horner 10 ds)) true false
  | LChar1 c => PChar [c]
  | LChar2 c1 c2 => PChar [c1; c2]
  | LRad50 cs => match rad50_literal (rad50_string cs) with
                 | LexRad v errs => PRad50 v errs
                 | _ => PDot (* not reached for literals admitted by lit_ok *)
                 end
  end.

Definition xtoks (pc : list unop * ctree) : list token := pre_tokens (fst pc) ++ ctoks (snd pc).
Definition xtree (pc : list unop * ctree) : ptree := ctree_with (wrap (fst pc) (snd (cfirst (snd pc)))) (snd pc).

(* mirrors Spec.Arith.pr: the prefix operators in front, and the chain of the outermost bracket level *)
Fixpoint xchain (lead : bool) (e : expr) : list unop * ctree :=
  match e with
  | Lit l => ([], CAtom (lit_tokens l) (lit_tree l))
  | Sym s => ([], CAtom [TSym s] (PSym s false))
  | Dot => ([], CAtom [TDot] PDot)
  | Group b x =>
      ([], CAtom (TP (open_text b) :: xtoks (xchain true x) ++ [TP (close_text b)])
                 (PParen (open_text b) (xtree (xchain true x))))
  | Un u x =>
      let inner : list unop * ctree :=
        match x with
        | Un _ _ => xchain true x
        | Bin _ _ _ => ([], CAtom (paren (xtoks (xchain true x))) (PParen "(" (xtree (xchain true x))))
        | Lit l => match u with
                   | UNeg => if unsigned_number l
                             then ([], CAtom (paren (xtoks (xchain true x))) (PParen "(" (xtree (xchain true x))))
                             else xchain false x
                   | _ => xchain false x
                   end
        | _ => xchain false x
        end in
      if lead then (u :: fst inner, snd inner)
      else ([], CAtom (paren (xtoks (u :: fst inner, snd inner))) (PParen "(" (xtree (u :: fst inner, snd inner))))
  | Bin o l r =>
      let L : list unop * ctree :=
        match l with
        | Bin ol _ _ => if Nat.ltb (cprec o) (cprec ol)
                        then ([], CAtom (paren (xtoks (xchain true l))) (PParen "(" (xtree (xchain true l))))
                        else xchain lead l
        | _ => xchain lead l
        end in
      let R : ctree :=
        match r with
        | Bin or _ _ => if Nat.ltb (cprec or) (cprec o)
                        then snd (xchain false r)
                        else CAtom (paren (xtoks (xchain true r))) (PParen "(" (xtree (xchain true r)))
        | _ => snd (xchain false r)
        end in
      (fst L, CBin o (snd L) R)
  end.

Lemma xchain_bin lead o l r : xchain lead (Bin o l r) =
      (fst (match l with
        | Bin ol _ _ => if Nat.ltb (cprec o) (cprec ol)
                        then ([], CAtom (paren (xtoks (xchain true l))) (PParen "(" (xtree (xchain true l))))
                        else xchain lead l
        | _ => xchain lead l
        end), CBin o (snd (match l with
        | Bin ol _ _ => if Nat.ltb (cprec o) (cprec ol)
                        then ([], CAtom (paren (xtoks (xchain true l))) (PParen "(" (xtree (xchain true l))))
                        else xchain lead l
        | _ => xchain lead l
        end)) (match r with
        | Bin or _ _ => if Nat.ltb (cprec or) (cprec o)
                        then snd (xchain false r)
                        else CAtom (paren (xtoks (xchain true r))) (PParen "(" (xtree (xchain true r)))
        | _ => snd (xchain false r)
        end)).
Proof. reflexivity. Qed.

Lemma pr_bin lead o l r : pr lead (Bin o l r) =
      (match l with
       | Bin ol _ _ => if (cprec o <? cprec ol)%nat then paren (pr true l) else pr lead l
       | _ => pr lead l
       end ++
       TP (binop_text o) ::
       match r with
       | Bin or _ _ => if (cprec or <? cprec o)%nat then pr false r else paren (pr true r)
       | _ => pr false r
       end).
Proof. reflexivity. Qed.

Lemma xchain_nolead_pre e : fst (xchain false e) = [].
Proof.
  induction e as [l|s| |u x IH|o l IHl r IHr|b x IH]; try reflexivity.
  cbn [xchain fst]. destruct l as [| | | |ol ll lr|]; try exact IHl.
  destruct (Nat.ltb (cprec o) (cprec ol)); [reflexivity|exact IHl].
Qed.

Lemma xtoks_nolead e : xtoks (xchain false e) = ctoks (snd (xchain false e)).
Proof. unfold xtoks. rewrite xchain_nolead_pre. reflexivity. Qed.

(* the chain prints exactly as Spec.Arith.pr does *)
Lemma xtoks_pr : forall e lead, xtoks (xchain lead e) = pr lead e.
Proof.
  induction e as [l|s| |u x IH|o l IHl r IHr|b x IH]; intros lead; try reflexivity.
  - (* Un *)
    cbn [xchain pr].
    assert (Hinner : xtoks (u :: fst (match x with
        | Un _ _ => xchain true x
        | Bin _ _ _ => ([], CAtom (paren (xtoks (xchain true x))) (PParen "(" (xtree (xchain true x))))
        | Lit l => match u with
                   | UNeg => if unsigned_number l
                             then ([], CAtom (paren (xtoks (xchain true x))) (PParen "(" (xtree (xchain true x))))
                             else xchain false x
                   | _ => xchain false x
                   end
        | _ => xchain false x
        end), snd (match x with
        | Un _ _ => xchain true x
        | Bin _ _ _ => ([], CAtom (paren (xtoks (xchain true x))) (PParen "(" (xtree (xchain true x))))
        | Lit l => match u with
                   | UNeg => if unsigned_number l
                             then ([], CAtom (paren (xtoks (xchain true x))) (PParen "(" (xtree (xchain true x))))
                             else xchain false x
                   | _ => xchain false x
                   end
        | _ => xchain false x
        end)) = TP (unop_text u) ::
        match x with
        | Un _ _ => pr true x
        | Bin _ _ _ => paren (pr true x)
        | Lit l => match u with
                   | UNeg => if unsigned_number l then paren (pr true x) else pr false x
                   | _ => pr false x
                   end
        | _ => pr false x
        end).
    { unfold xtoks at 1. cbn [fst snd pre_tokens map app]. f_equal.
      destruct x as [l|s| |u2 x2|o2 l2 r2|b2 x2].
      - destruct u; try (rewrite <- (IH false); reflexivity).
        destruct (unsigned_number l); [|rewrite <- (IH false); reflexivity].
        cbn [fst snd pre_tokens map app ctoks]. rewrite (IH true). reflexivity.
      - rewrite <- (IH false). reflexivity.
      - rewrite <- (IH false). reflexivity.
      - rewrite <- (IH true). reflexivity.
      - cbn [fst snd pre_tokens map app ctoks]. rewrite (IH true). reflexivity.
      - rewrite <- (IH false). reflexivity. }
    destruct lead.
    + exact Hinner.
    + unfold xtoks at 1. cbn [fst snd pre_tokens map app ctoks]. rewrite Hinner. reflexivity.
  - (* Bin *)
    rewrite xchain_bin, pr_bin. unfold xtoks at 1. cbn [fst snd ctoks]. rewrite app_assoc. f_equal.
    + destruct l as [| | | |ol ll lr|]; try (rewrite <- (IHl lead); reflexivity).
      destruct (Nat.ltb (cprec o) (cprec ol)).
      * cbn [fst snd pre_tokens map app ctoks]. rewrite (IHl true). reflexivity.
      * rewrite <- (IHl lead). reflexivity.
    + f_equal. destruct r as [| | | |or rl rr|]; try (rewrite <- (IHr false), xtoks_nolead; reflexivity).
      destruct (Nat.ltb (cprec or) (cprec o)).
      * rewrite <- (IHr false), xtoks_nolead. reflexivity.
      * cbn [ctoks]. rewrite (IHr true). reflexivity.
  - (* Group *)
    cbn [xchain pr]. unfold xtoks at 1. cbn [fst snd pre_tokens map app ctoks]. rewrite (IH true). reflexivity.
Qed.

(* ---- operands: how expression_literal_rec reads each kind of atom ------------------------------ *)
Section Atoms.
Variable rec : list ascii -> list token -> pres (ptree * list token).
Variable terms : list ascii.

Lemma call_loop_done n value rest : follows_ok terms rest = true ->
  call_loop rec (S n) terms value rest = POk (value, rest).
Proof.
  intros H. destruct rest as [|tk rest]; [reflexivity|]. destruct tk; try reflexivity.
  cbn [follows_ok] in H. apply andb_true_iff in H. destruct H as [H _].
  cbn [call_loop]. rewrite H. reflexivity.
Qed.

Lemma take_colon_none rest : follows_ok terms rest = true -> take_colon terms rest = (false, rest).
Proof.
  intros H. destruct rest as [|tk rest]; [reflexivity|]. destruct tk; try reflexivity.
  cbn [follows_ok] in H. apply andb_true_iff in H. destruct H as [_ H].
  cbn [take_colon]. destruct (String.eqb s ":"); [|reflexivity].
  cbn [negb orb] in H. rewrite H. reflexivity.
Qed.

(* a literal-like operand: parse_literal succeeds and nothing that follows is a call *)
Lemma literal_atom toks t : 
  match toks with TP s :: _ => opening s = None | _ => True end ->
  (forall rest, follows_ok terms rest = true -> parse_literal terms (toks ++ rest) = POk (t, rest)) ->
  forall rest, follows_ok terms rest = true -> parse_atom rec terms (toks ++ rest) = POk (t, rest).
Proof.
  intros Hopen Hlit rest Hfol. unfold parse_atom. rewrite (Hlit rest Hfol).
  rewrite (call_loop_done _ t rest Hfol).
  destruct toks as [|tk toks]; cbn [app].
  - destruct rest as [|tk rest]; [reflexivity|]. destruct tk; try reflexivity.
    (* toks empty cannot happen for a successful literal, but the statement is still true only if ... *)
    specialize (Hlit (TP s :: rest) Hfol). cbn [app] in Hlit.
    destruct (opening s) as [[closing nt]|] eqn:E; [|reflexivity].
    exfalso. unfold parse_literal in Hlit. destruct rest as [|tk2 rest2]; [discriminate|].
    destruct tk2; try discriminate.
    destruct (negb (String.eqb s "-")) eqn:E2; [discriminate|].
    apply negb_false_iff in E2. apply String.eqb_eq in E2. subst s. discriminate.
  - destruct tk; try reflexivity. rewrite Hopen. reflexivity.
Qed.

Lemma number_atom neg s v i8 rep :
  lex_number neg s = LexNum v i8 rep ->
  let toks := (if neg then [TP "-"] else []) ++ [TNum s] in
  postfix_follow toks = false /\
  forall rest, follows_ok terms rest = true -> parse_atom rec terms (toks ++ rest) = POk (PNum v i8 rep, rest).
Proof.
  intros Hlex toks. split; [destruct neg; reflexivity|].
  apply literal_atom.
  - destruct neg; simpl; [reflexivity|exact I].
  - intros rest Hfol. subst toks. destruct neg; cbn [app parse_literal].
    + change (negb (String.eqb "-" "-")) with false. cbv iota.
      rewrite (take_colon_none rest Hfol). cbn [fst]. rewrite Hlex. reflexivity.
    + rewrite (take_colon_none rest Hfol). rewrite Hlex. reflexivity.
Qed.

Lemma simple_atom tk t :
  match tk with TSym _ | TDot | TChar1 _ | TChar2 _ _ => True | _ => False end ->
  (forall rest, follows_ok terms rest = true -> parse_literal terms (tk :: rest) = POk (t, rest)) ->
  postfix_follow [tk] = false /\
  forall rest, follows_ok terms rest = true -> parse_atom rec terms ([tk] ++ rest) = POk (t, rest).
Proof.
  intros Hk Hlit. split; [destruct tk; try reflexivity; contradiction|].
  apply literal_atom; [destruct tk; try exact I; contradiction|exact Hlit].
Qed.

(* a bracketed operand, given that the recursive call reads its content *)
Lemma bracket_atom (b : bracket) toksx treex :
  (match b with Caret c => existsb (Ascii.eqb c) caret_chars = true | _ => True end) ->
  (forall rest', rec (match b with Caret c => c :: terms | _ => terms end)
                     (toksx ++ TP (close_text b) :: rest') = POk (treex, TP (close_text b) :: rest')) ->
  postfix_follow (TP (open_text b) :: toksx ++ [TP (close_text b)]) = false /\
  forall rest, follows_ok terms rest = true ->
    parse_atom rec terms ((TP (open_text b) :: toksx ++ [TP (close_text b)]) ++ rest)
    = POk (PParen (open_text b) treex, rest).
Proof.
  intros Hb Hrec. split.
  - destruct b; reflexivity.
  - intros rest Hfol. unfold parse_atom. cbn [app].
    assert (Hopen : opening (open_text b) =
                    Some (close_text b, match b with Caret c => Some c | _ => None end)).
    { destruct b as [| |c]; try reflexivity. cbn [open_text close_text]. unfold opening.
      change (String.eqb (String "^" (String c "")) "(") with false.
      change (String.eqb (String "^" (String c "")) "<") with false. cbv iota.
      change (Ascii.eqb "^" "^") with true. cbn [andb].
      change caret_bracket_chars with caret_chars. rewrite Hb. reflexivity. }
    rewrite Hopen. unfold bracketed.
    rewrite <- app_assoc. cbn [app].
    replace (match (match b with Caret c => Some c | _ => None end) with Some c => c :: terms | None => terms end)
      with (match b with Caret c => c :: terms | _ => terms end) by (destruct b; reflexivity).
    rewrite Hrec. rewrite String.eqb_refl. apply call_loop_done. exact Hfol.
Qed.
End Atoms.

(* ---- radix-50 literals: the regenerated TABLE gives the standard codes ---------------------------- *)
Definition r50_char_fact (c : N) : bool :=
  match r50_code c with
  | Some k => if N.eqb c 32 then true
              else rad50_regex_char (ascii_of_N c)
                   && match index_of (code (upper (ascii_of_N c))) Gen.GenRadix50.rad50_table 0 with
                      | Some k' => N.eqb k k' | None => false end
  | None => true
  end.

Lemma r50_char_facts : forallb r50_char_fact (Base.Range.nrange 128) = true.
Proof. vm_compute. reflexivity. Qed.

Lemma r50_code_small c k : r50_code c = Some k -> (c < 128)%N.
Proof.
  unfold r50_code. intros H.
  repeat match type of H with
  | (if ?b then _ else _) = _ => destruct b eqn:?
  end; try discriminate;
  repeat match goal with
  | E : (_ && _)%bool = true |- _ => apply andb_true_iff in E; destruct E
  | E : N.eqb _ _ = true |- _ => apply N.eqb_eq in E
  | E : N.leb _ _ = true |- _ => apply N.leb_le in E
  end; lia.
Qed.

Lemma r50_char c k : r50_code c = Some k -> c <> 32%N ->
  rad50_regex_char (ascii_of_N c) = true /\
  index_of (code (upper (ascii_of_N c))) Gen.GenRadix50.rad50_table 0 = Some k.
Proof.
  intros Hk Hne. pose proof (r50_code_small c k Hk) as Hlt.
  pose proof (Base.Range.nrange_forallb 128 _ r50_char_facts c Hlt) as H.
  unfold r50_char_fact in H. rewrite Hk in H.
  replace (N.eqb c 32) with false in H by (symmetry; apply N.eqb_neq; exact Hne).
  apply andb_true_iff in H. destruct H as [H1 H2]. split; [exact H1|].
  destruct (index_of _ _ _) as [k'|]; [|discriminate]. apply N.eqb_eq in H2. congruence.
Qed.

Lemma rad50_lexes cs : lit_ok (LRad50 cs) = true ->
  exists v, rad50_literal (rad50_string cs) = LexRad v [] /\ r50_word cs = Some v.
Proof.
  cbn [lit_ok]. intros H.
  apply andb_true_iff in H. destruct H as [H Hall].
  apply andb_true_iff in H. destruct H as [Hne Hle].
  assert (Hc : forall c, In c cs -> exists k, r50_code c = Some k /\ c <> 32%N).
  { intros c Hin. rewrite forallb_forall in Hall. specialize (Hall c Hin).
    destruct (r50_code c) as [k|]; [|discriminate]. exists k. split; [reflexivity|].
    apply negb_true_iff in Hall. apply N.eqb_neq. exact Hall. }
  destruct cs as [|a [|b [|c [|d cs]]]]; try discriminate.
  - destruct (Hc a) as [ka [Ha Hna]]; [left; reflexivity|].
    destruct (r50_char a ka Ha Hna) as [Ra Ia].
    exists (ka * 1600 + 0 * 40 + 0)%N. split.
    + unfold rad50_literal, rad50_string. cbn [map string_of_list_ascii str_forallb]. rewrite Ra.
      cbn [andb negb String.length N.of_nat str_take str_map].
      unfold pack_to_int. cbn [list_ascii_of_string map length Nat.sub repeat app]. rewrite Ia.
      reflexivity.
    + unfold r50_word. cbn [length Nat.sub repeat app map]. rewrite Ha. reflexivity.
  - destruct (Hc a) as [ka [Ha Hna]]; [left; reflexivity|].
    destruct (Hc b) as [kb [Hb Hnb]]; [right; left; reflexivity|].
    destruct (r50_char a ka Ha Hna) as [Ra Ia]. destruct (r50_char b kb Hb Hnb) as [Rb Ib].
    exists (ka * 1600 + kb * 40 + 0)%N. split.
    + unfold rad50_literal, rad50_string. cbn [map string_of_list_ascii str_forallb]. rewrite Ra, Rb.
      cbn [andb negb String.length N.of_nat str_take str_map].
      unfold pack_to_int. cbn [list_ascii_of_string map length Nat.sub repeat app]. rewrite Ia, Ib.
      reflexivity.
    + unfold r50_word. cbn [length Nat.sub repeat app map]. rewrite Ha, Hb. reflexivity.
  - destruct (Hc a) as [ka [Ha Hna]]; [left; reflexivity|].
    destruct (Hc b) as [kb [Hb Hnb]]; [right; left; reflexivity|].
    destruct (Hc c) as [kc [Hcc Hnc]]; [right; right; left; reflexivity|].
    destruct (r50_char a ka Ha Hna) as [Ra Ia]. destruct (r50_char b kb Hb Hnb) as [Rb Ib].
    destruct (r50_char c kc Hcc Hnc) as [Rc Ic].
    exists (ka * 1600 + kb * 40 + kc)%N. split.
    + unfold rad50_literal, rad50_string. cbn [map string_of_list_ascii str_forallb]. rewrite Ra, Rb, Rc.
      cbn [andb negb String.length N.of_nat str_take str_map].
      unfold pack_to_int. cbn [list_ascii_of_string map length Nat.sub repeat app]. rewrite Ia, Ib, Ic.
      reflexivity.
    + unfold r50_word. cbn [length Nat.sub repeat app map]. rewrite Ha, Hb, Hcc. reflexivity.
Qed.

(* ---- literals as operands ------------------------------------------------------------------------ *)
Lemma is_bad89_facts ds : is_bad89 ds = true ->
  ds <> [] /\ Forall (fun d => (d < 10)%N) ds /\ existsb (fun d => (8 <=? d)%N) ds = true.
Proof.
  unfold is_bad89. intros H.
  apply andb_true_iff in H. destruct H as [H H3].
  apply andb_true_iff in H. destruct H as [H1 H2].
  repeat split.
  - destruct ds; [discriminate|discriminate].
  - apply Forall_forall. intros d Hin. rewrite forallb_forall in H2. apply N.ltb_lt. apply H2. exact Hin.
  - exact H3.
Qed.

Lemma lit_atom_good rec terms l : lit_ok l = true ->
  atom_good (parse_atom rec) terms (lit_tokens l) (lit_tree l).
Proof.
  intros Hok. destruct l as [neg st up ud n|neg ds|c|c1 c2|cs].
  - (* number *)
    apply (number_atom rec terms neg (spell st up ud n) (signed neg n) false false).
    apply lex_spell.
  - (* bare 8/9 *)
    destruct (is_bad89_facts ds Hok) as [Hne [Hall H89]].
    pose proof (lex_bare_89_digits neg false ds Hne Hall H89) as Hlex.
    cbn [lit_tokens lit_tree]. destruct neg.
    + apply (number_atom rec terms true _ _ false true Hlex).
    + apply (number_atom rec terms false _ _ true false Hlex).
  - apply (simple_atom rec terms (TChar1 c)); [exact I|reflexivity].
  - apply (simple_atom rec terms (TChar2 c1 c2)); [exact I|reflexivity].
  - destruct (rad50_lexes cs Hok) as [v [Hlex _]].
    cbn [lit_tokens lit_tree]. fold (rad50_string cs). rewrite Hlex.
    split; [reflexivity|].
    apply (literal_atom rec terms [TRad50 (rad50_string cs)]); [exact I|].
    intros rest Hfol. cbn [app parse_literal]. rewrite Hlex. reflexivity.
Qed.

Lemma sym_atom_good rec terms s : atom_good (parse_atom rec) terms [TSym s] (PSym s false).
Proof.
  apply (simple_atom rec terms (TSym s)); [exact I|].
  intros rest Hfol. cbn [parse_literal]. rewrite (take_colon_none terms rest Hfol). reflexivity.
Qed.

Lemma dot_atom_good rec terms : atom_good (parse_atom rec) terms [TDot] PDot.
Proof. apply (simple_atom rec terms TDot); [exact I|reflexivity]. Qed.

Lemma prefix_no_atom_concrete rec terms u rest : no_num_after u rest = true ->
  parse_atom rec terms (TP (unop_text u) :: rest) = PNo.
Proof.
  intros H. unfold parse_atom.
  assert (Hop : opening (unop_text u) = None) by (destruct u; reflexivity).
  rewrite Hop.
  assert (Hlit : parse_literal terms (TP (unop_text u) :: rest) = PNo).
  { cbn [parse_literal]. destruct rest as [|tk rest]; [reflexivity|].
    destruct tk; try reflexivity. destruct u; try reflexivity. discriminate. }
  rewrite Hlit. reflexivity.
Qed.

(* ---- shape of the chain of an expression ---------------------------------------------------------- *)
Fixpoint size (e : expr) : nat :=
  match e with
  | Lit _ | Sym _ | Dot => 1
  | Un _ x => S (size x)
  | Group _ x => S (size x)
  | Bin _ l r => S (size l + size r)
  end.

Definition is_bin (e : expr) : bool := match e with Bin _ _ _ => true | _ => false end.

(* the chain of anything but an operator node is a single operand *)
Lemma xchain_atom e lead : is_bin e = false -> exists toks t, snd (xchain lead e) = CAtom toks t.
Proof.
  revert lead. induction e as [l|s| |u x IH|o l IHl r IHr|b x IH]; intros lead Hb; try discriminate;
    try (eexists; eexists; reflexivity).
  (* Un *)
  cbn [xchain]. destruct lead; [|eexists; eexists; reflexivity].
  cbn [snd]. destruct x as [l|s| |u2 x2|o2 l2 r2|b2 x2]; try (eexists; eexists; reflexivity).
  - destruct u; try (eexists; eexists; reflexivity).
    destruct (unsigned_number l); eexists; eexists; reflexivity.
  - apply IH. reflexivity.
Qed.

Lemma xchain_bin_root lead o l r : exists cl cr, snd (xchain lead (Bin o l r)) = CBin o cl cr.
Proof. rewrite xchain_bin. eexists; eexists; reflexivity. Qed.

Lemma xchain_root_le lead e p : (match e with Bin o _ _ => (cprec o <= p)%nat | _ => True end) ->
  root_le p (snd (xchain lead e)) = true.
Proof.
  intros H. destruct e as [l|s| |u x|o l r|b x];
    try (match goal with |- context [xchain lead ?e0] =>
           destruct (xchain_atom e0 lead eq_refl) as [toks [t E]]; rewrite E; reflexivity end).
  destruct (xchain_bin_root lead o l r) as [cl [cr E]]. rewrite E. simpl. apply Nat.leb_le. exact H.
Qed.

Lemma xchain_root_lt lead e p : (match e with Bin o _ _ => (cprec o < p)%nat | _ => True end) ->
  root_lt p (snd (xchain lead e)) = true.
Proof.
  intros H. destruct e as [l|s| |u x|o l r|b x];
    try (match goal with |- context [xchain lead ?e0] =>
           destruct (xchain_atom e0 lead eq_refl) as [toks [t E]]; rewrite E; reflexivity end).
  destruct (xchain_bin_root lead o l r) as [cl [cr E]]. rewrite E. simpl. apply Nat.ltb_lt. exact H.
Qed.

Lemma xchain_cwf : forall e lead, cwf (snd (xchain lead e)) = true.
Proof.
  induction e as [l|s| |u x IH|o l IHl r IHr|b x IH]; intros lead; try reflexivity.
  - (* Un *)
    destruct (xchain_atom (Un u x) lead eq_refl) as [toks [t E]]. rewrite E. reflexivity.
  - (* Bin *)
    rewrite xchain_bin. cbn [snd cwf].
    assert (HL : root_le (cprec o) (snd (match l with
        | Bin ol _ _ => if Nat.ltb (cprec o) (cprec ol)
                        then ([], CAtom (paren (xtoks (xchain true l))) (PParen "(" (xtree (xchain true l))))
                        else xchain lead l
        | _ => xchain lead l end)) = true
      /\ cwf (snd (match l with
        | Bin ol _ _ => if Nat.ltb (cprec o) (cprec ol)
                        then ([], CAtom (paren (xtoks (xchain true l))) (PParen "(" (xtree (xchain true l))))
                        else xchain lead l
        | _ => xchain lead l end)) = true).
    { destruct l as [| | | |ol ll lr|]; try (split; [apply xchain_root_le; exact I|apply IHl]).
      destruct (Nat.ltb (cprec o) (cprec ol)) eqn:E; [split; reflexivity|].
      split; [|apply IHl]. apply xchain_root_le. apply Nat.ltb_ge in E. exact E. }
    assert (HR : root_lt (cprec o) (match r with
        | Bin or _ _ => if Nat.ltb (cprec or) (cprec o)
                        then snd (xchain false r)
                        else CAtom (paren (xtoks (xchain true r))) (PParen "(" (xtree (xchain true r)))
        | _ => snd (xchain false r) end) = true
      /\ cwf (match r with
        | Bin or _ _ => if Nat.ltb (cprec or) (cprec o)
                        then snd (xchain false r)
                        else CAtom (paren (xtoks (xchain true r))) (PParen "(" (xtree (xchain true r)))
        | _ => snd (xchain false r) end) = true).
    { destruct r as [| | | |or rl rr|]; try (split; [apply xchain_root_lt; exact I|apply IHr]).
      destruct (Nat.ltb (cprec or) (cprec o)) eqn:E; [|split; reflexivity].
      split; [|apply IHr]. apply xchain_root_lt. apply Nat.ltb_lt in E. exact E. }
    destruct HL as [HL1 HL2]. destruct HR as [HR1 HR2]. rewrite HL1, HL2, HR1, HR2. reflexivity.
Qed.

(* ---- no operator of the chain is cut off by a closing character ----------------------------------- *)
Lemma starts_with_existsb c0 s ts :
  existsb (fun c => starts_with c (String c0 s)) ts = existsb (Ascii.eqb c0) ts.
Proof.
  induction ts as [|c tl IH]; [reflexivity|]. cbn [existsb]. rewrite IH. cbn [starts_with].
  rewrite Ascii.eqb_sym. reflexivity.
Qed.

Lemma op_clear_terminated terms o : op_clear terms o = true -> terminated terms (binop_text o) = false.
Proof.
  unfold op_clear, terminated. destruct o; cbn [binop_text first_char]; rewrite starts_with_existsb;
    intros H; apply negb_true_iff in H; exact H.
Qed.

Lemma xchain_cclear terms : forall e lead, wf terms e = true -> cclear terms (snd (xchain lead e)) = true.
Proof.
  induction e as [l|s| |u x IH|o l IHl r IHr|b x IH]; intros lead Hwf; try reflexivity.
  - destruct (xchain_atom (Un u x) lead eq_refl) as [toks [t E]]. rewrite E. reflexivity.
  - cbn [wf] in Hwf.
    apply andb_true_iff in Hwf. destruct Hwf as [Hwf Hwr].
    apply andb_true_iff in Hwf. destruct Hwf as [Hop Hwl].
    rewrite xchain_bin. cbn [snd cclear].
    rewrite (op_clear_terminated terms o Hop). cbn [negb andb].
    apply andb_true_iff. split.
    + destruct l as [| | | |ol ll lr|]; try (apply IHl; exact Hwl).
      destruct (Nat.ltb (cprec o) (cprec ol)); [reflexivity|apply IHl; exact Hwl].
    + destruct r as [| | | |or rl rr|]; try (apply IHr; exact Hwr).
      destruct (Nat.ltb (cprec or) (cprec o)); [apply IHr; exact Hwr|reflexivity].
Qed.

(* ---- the '-' in front of the first operand is never in front of an unsigned number ----------------- *)
Lemma xchain_un_lead u x : exists p c, xchain true (Un u x) = (u :: p, c).
Proof. cbn [xchain]. eexists; eexists; reflexivity. Qed.

Lemma pre_ok_cons u p toks : p <> [] -> pre_ok (u :: p) toks = pre_ok p toks.
Proof. destruct p; [congruence|reflexivity]. Qed.

Lemma xchain_pre_ok : forall e, pre_ok (fst (xchain true e)) (fst (cfirst (snd (xchain true e)))) = true.
Proof.
  induction e as [l|s| |u x IH|o l IHl r IHr|b x IH]; try reflexivity.
  - (* Un *)
    cbn [xchain fst snd].
    destruct x as [l|s| |u2 x2|o2 l2 r2|b2 x2].
    + destruct u; try reflexivity.
      destruct l as [neg st up ud n|neg ds|c|c1 c2|cs]; try reflexivity; destruct neg; reflexivity.
    + destruct u; reflexivity.
    + destruct u; reflexivity.
    + destruct (xchain_un_lead u2 x2) as [p [c E]]. rewrite E in *. cbn [fst snd] in *.
      rewrite pre_ok_cons by discriminate. exact IH.
    + destruct u; reflexivity.
    + destruct u; reflexivity.
  - (* Bin *)
    rewrite xchain_bin. cbn [fst snd cfirst].
    destruct l as [| | | |ol ll lr|]; try exact IHl.
    destruct (Nat.ltb (cprec o) (cprec ol)); [reflexivity|exact IHl].
Qed.

(* ---- sizes ---------------------------------------------------------------------------------------- *)
Lemma atoms_good_len atom terms c : atoms_good atom terms c -> (citers c < length (ctoks c))%nat.
Proof.
  induction c as [toks t|o l IHl r IHr]; intros H.
  - destruct H as [Hpf _]. destruct toks; [discriminate|simpl; lia].
  - destruct H as [Hl Hr]. specialize (IHl Hl). specialize (IHr Hr).
    cbn [citers ctoks]. rewrite app_length. cbn [length]. lia.
Qed.

Lemma pre_tokens_length pre : length (pre_tokens pre) = length pre.
Proof. unfold pre_tokens. apply map_length. Qed.

(* ================================================================================================ *)
(* 5. the theorem *)
Definition Main (e : expr) : Prop :=
  forall terms rest f,
    wf terms e = true -> terms_ok terms = true -> stop_ok terms rest = true ->
    (length (pr true e) < f)%nat ->
    parse_expr f terms (pr true e ++ rest) = POk (xtree (xchain true e), rest).

Lemma terms_ok_cons c terms : existsb (Ascii.eqb c) caret_chars = true -> terms_ok terms = true ->
  terms_ok (c :: terms) = true.
Proof. unfold terms_ok. intros H1 H2. cbn [forallb]. rewrite H1, H2. reflexivity. Qed.

(* a bracketed sub-expression is a good operand once its content is known to parse *)
Lemma bracket_good f terms b x :
  Main x ->
  wf terms (Group b x) = true -> terms_ok terms = true ->
  (length (pr true x) < f)%nat ->
  atom_good (parse_atom (parse_expr f)) terms
    (TP (open_text b) :: xtoks (xchain true x) ++ [TP (close_text b)])
    (PParen (open_text b) (xtree (xchain true x))).
Proof.
  intros HM Hwf Hok Hf.
  apply bracket_atom.
  - destruct b as [| |c]; try exact I. cbn [wf] in Hwf. apply andb_true_iff in Hwf. apply Hwf.
  - intros rest'. rewrite xtoks_pr. apply HM.
    + destruct b as [| |c]; cbn [wf] in Hwf; try exact Hwf. apply andb_true_iff in Hwf. apply Hwf.
    + destruct b as [| |c]; try exact Hok. cbn [wf] in Hwf. apply andb_true_iff in Hwf.
      apply terms_ok_cons; [apply Hwf|exact Hok].
    + destruct b as [| |c]; cbn [stop_ok close_text].
      * apply orb_true_iff. left. apply orb_true_r.
      * apply orb_true_r.
      * cbn [terminated existsb starts_with]. rewrite Ascii.eqb_refl. reflexivity.
    + exact Hf.
Qed.

Lemma paren_good f terms x :
  Main x -> wf terms x = true -> terms_ok terms = true -> (length (pr true x) < f)%nat ->
  atom_good (parse_atom (parse_expr f)) terms
    (paren (xtoks (xchain true x))) (PParen "(" (xtree (xchain true x))).
Proof. intros HM Hwf Hok Hf. apply (bracket_good f terms Paren x HM Hwf Hok Hf). Qed.

Lemma paren_length ts : length (paren ts) = S (S (length ts)).
Proof. unfold paren. cbn [length]. rewrite app_length. cbn [length]. lia. Qed.

Section Induction.
Variable N : nat.
Hypothesis HN : forall x, (size x < N)%nat -> Main x.
Variable f : nat.

Lemma atoms_good_of : forall e lead terms,
  wf terms e = true -> terms_ok terms = true ->
  (length (pr lead e) <= f)%nat ->
  (size e + (if lead then 0 else 1) <= N)%nat ->
  atoms_good (parse_atom (parse_expr f)) terms (snd (xchain lead e)).
Proof.
  induction e as [l|s| |u x IH|o l IHl r IHr|b x IH]; intros lead terms Hwf Hok Hf Hsz.
  - apply lit_atom_good. exact Hwf.
  - apply sym_atom_good.
  - apply dot_atom_good.
  - (* Un *)
    destruct lead.
    + cbn [xchain snd]. cbn [pr] in Hf. cbn [size] in Hsz. cbn [wf] in Hwf.
      destruct x as [l|s| |u2 x2|o2 l2 r2|b2 x2].
      * (* literal *)
        destruct u; try (apply (IH false terms Hwf Hok); [cbn [length] in Hf; lia|lia]).
        destruct (unsigned_number l) eqn:E.
        -- apply paren_good; try assumption.
           ++ apply HN. cbn [size] in *. lia.
           ++ cbn [length] in Hf. rewrite paren_length in Hf. lia.
        -- apply (IH false terms Hwf Hok); [cbn [length] in Hf; lia|lia].
      * apply (IH false terms Hwf Hok); [cbn [length] in Hf; lia|lia].
      * apply (IH false terms Hwf Hok); [cbn [length] in Hf; lia|lia].
      * apply (IH true terms Hwf Hok); [cbn [length] in Hf; lia|lia].
      * apply paren_good; try assumption.
        -- apply HN. lia.
        -- cbn [length] in Hf. rewrite paren_length in Hf. lia.
      * apply (IH false terms Hwf Hok); [cbn [length] in Hf; lia|lia].
    + (* not leading: the whole prefixed operand is bracketed *)
      pose proof (paren_good f terms (Un u x)) as HP.
      cbn [xchain] in HP. cbn [xchain snd]. apply HP.
      * apply HN. lia.
      * exact Hwf.
      * exact Hok.
      * cbn [pr] in Hf. rewrite paren_length in Hf. cbn [pr]. lia.
  - (* Bin *)
    cbn [wf] in Hwf.
    apply andb_true_iff in Hwf. destruct Hwf as [Hwf Hwr].
    apply andb_true_iff in Hwf. destruct Hwf as [Hop Hwl].
    rewrite pr_bin in Hf. rewrite app_length in Hf. cbn [length] in Hf. cbn [size] in Hsz.
    rewrite xchain_bin. cbn [snd atoms_good]. split.
    + destruct l as [| | | |ol ll lr|];
        try (apply (IHl lead terms Hwl Hok); [lia|destruct lead; lia]).
      destruct (Nat.ltb (cprec o) (cprec ol)).
      * cbn [snd]. apply paren_good; try assumption.
        -- apply HN. destruct lead; lia.
        -- rewrite paren_length in Hf. lia.
      * apply (IHl lead terms Hwl Hok); [lia|destruct lead; lia].
    + destruct r as [| | | |or rl rr|];
        try (apply (IHr false terms Hwr Hok); [lia|destruct lead; lia]).
      destruct (Nat.ltb (cprec or) (cprec o)).
      * apply (IHr false terms Hwr Hok); [lia|destruct lead; lia].
      * apply paren_good; try assumption.
        -- apply HN. destruct lead; lia.
        -- rewrite paren_length in Hf. lia.
  - (* Group *)
    cbn [xchain snd atoms_good]. apply bracket_good; try assumption.
    + apply HN. cbn [size] in Hsz. destruct lead; lia.
    + cbn [pr length] in Hf. rewrite app_length in Hf. cbn [length] in Hf. lia.
Qed.
End Induction.

Lemma main_by_size : forall N e, (size e < N)%nat -> Main e.
Proof.
  induction N as [|N IHN]; intros e Hsz; [lia|].
  unfold Main. intros terms rest f Hwf Hok Hstop Hf.
  destruct f as [|f']; [lia|].
  assert (Hgood : atoms_good (parse_atom (parse_expr f')) terms (snd (xchain true e))).
  { apply (atoms_good_of N IHN f' e true terms Hwf Hok); lia. }
  pose proof (level_parses (parse_atom (parse_expr f')) terms
                (prefix_no_atom_concrete (parse_expr f') terms)
                (fst (xchain true e)) (snd (xchain true e)) rest f'
                Hok (xchain_cwf e true) (xchain_cclear terms e true Hwf) Hgood
                (xchain_pre_ok e) Hstop) as HL.
  assert (Hlen : (length (fst (xchain true e)) + citers (snd (xchain true e)) < f')%nat).
  { pose proof (atoms_good_len _ _ _ Hgood) as H1.
    pose proof (xtoks_pr e true) as H2. unfold xtoks in H2.
    assert (H3 : length (pr true e) = (length (fst (xchain true e)) + length (ctoks (snd (xchain true e))))%nat).
    { rewrite <- H2. rewrite app_length, pre_tokens_length. reflexivity. }
    lia. }
  specialize (HL Hlen).
  cbn [parse_expr]. 
  pose proof (xtoks_pr e true) as H2. unfold xtoks in H2. rewrite <- H2. rewrite <- app_assoc.
  exact HL.
Qed.

Lemma parse_print_expr : forall e terms rest f,
  wf terms e = true -> terms_ok terms = true -> stop_ok terms rest = true ->
  (length (pr true e) < f)%nat ->
  parse_expr f terms (pr true e ++ rest) = POk (xtree (xchain true e), rest).
Proof. intros e. apply (main_by_size (S (size e)) e). lia. Qed.

(* a whole operand *)
Lemma parse_print_operand : forall e, wf [] e = true ->
  parse_operand (print_min e) = POk (xtree (xchain true e)).
Proof.
  intros e Hwf. unfold parse_operand, print_min.
  pose proof (parse_print_expr e [] [] (S (S (length (pr true e)))) Hwf eq_refl eq_refl) as H.
  rewrite app_nil_r in H. rewrite H by lia. reflexivity.
Qed.
