(* Proofs/ListingP.v -- Model.ListingM.generate_listing satisfies Spec.Listing (C19). *)
From Coq Require Import String Ascii List ZArith NArith Bool Lia ZifyBool Sorted Permutation
     DecimalString Decimal DecimalN.
From Verif Require Import Base.Res Spec.Listing Model.ListingM.
Import ListNotations.
Ltac Zify.zify_post_hook ::= Z.to_euclidean_division_equations.
Open Scope string_scope.
Local Arguments Z.mul : simpl never.
Local Arguments Z.add : simpl never.
Local Arguments Z.pow : simpl never.
Local Arguments Z.of_nat : simpl never.
Local Arguments Z.of_N : simpl never.
Local Arguments N.mul : simpl never.
Local Arguments N.add : simpl never.
Local Arguments N.pow : simpl never.
Local Arguments N.of_nat : simpl never.
Local Arguments Z.sub : simpl never.
Local Arguments Z.ltb : simpl never.
Local Arguments Z.eqb : simpl never.
Local Arguments N.ltb : simpl never.
Local Arguments N.eqb : simpl never.
Local Arguments String.eqb : simpl never.

(* ---------------------------------------------------------------------------------------- *)
(* strings *)
Lemma app_assoc_s (a b c : string) : (a ++ b) ++ c = a ++ (b ++ c).
Proof. induction a; simpl; congruence. Qed.

Lemma app_nil_r_s (a : string) : a ++ "" = a.
Proof. induction a; simpl; congruence. Qed.

Lemma length_app_s (a b : string) : String.length (a ++ b) = (String.length a + String.length b)%nat.
Proof. induction a; simpl; congruence. Qed.

(* ---------------------------------------------------------------------------------------- *)
(* octal digits *)
Fixpoint eval_le (ds : list N) : N :=
  match ds with [] => 0%N | d :: r => (d + 8 * eval_le r)%N end.

Definition oct_ok (n : N) (ds : list N) : Prop :=
  eval_le ds = n
  /\ Forall (fun d => (d < 8)%N) ds
  /\ ds <> []
  /\ ((0 < n)%N -> last ds 0%N <> 0%N)
  /\ ((8 <= n)%N -> (2 <= List.length ds)%nat).

Lemma oct_ok_small d : (0 < d < 8)%N -> oct_ok d [d].
Proof.
  intros H. unfold oct_ok. cbn [eval_le last List.length]. repeat split; try lia.
  - constructor; [lia | constructor].
  - discriminate.
Qed.

Lemma oct_ok_step d q ds : (d < 8)%N -> oct_ok (N.pos q) ds -> oct_ok (d + 8 * N.pos q) (d :: ds).
Proof.
  intros Hd (V & D & NE & L & _). unfold oct_ok. cbn [eval_le]. rewrite V. repeat split.
  - constructor; assumption.
  - discriminate.
  - intros _. destruct ds as [|x xs]; [congruence|]. change (last (x :: xs) 0%N <> 0%N). apply L. lia.
  - intros _. destruct ds; [congruence | simpl; lia].
Qed.

Lemma oct_pos_spec_size n : forall p, (Pos.size_nat p <= n)%nat -> oct_ok (N.pos p) (oct_pos p).
Proof.
  induction n as [|n IH]; intros p Hp; [destruct p; simpl in Hp; lia|].
  assert (S3 : forall q d, (d < 8)%N -> (Pos.size_nat q <= n)%nat ->
               oct_ok (d + 8 * N.pos q) (d :: oct_pos q)).
  { intros q d Hd Hq. apply oct_ok_step; [exact Hd | apply IH; exact Hq]. }
  destruct p as [[[q|q|]|[q|q|]|]|[[q|q|]|[q|q|]|]|]; cbn [oct_pos]; simpl Pos.size_nat in Hp;
    try (apply oct_ok_small; lia);
    match goal with
    | |- oct_ok (N.pos ?P) (?d :: oct_pos ?q) =>
        replace (N.pos P) with (d + 8 * N.pos q)%N by lia; apply S3; lia
    end.
Qed.

Lemma oct_digits_spec n :
  eval_le (oct_digits n) = n
  /\ Forall (fun d => (d < 8)%N) (oct_digits n)
  /\ oct_digits n <> []
  /\ ((0 < n)%N -> last (oct_digits n) 0%N <> 0%N)
  /\ ((8 <= n)%N -> (2 <= List.length (oct_digits n))%nat).
Proof.
  destruct n as [|p].
  - simpl. repeat split; try lia; try discriminate. constructor; [lia | constructor].
  - apply (oct_pos_spec_size (Pos.size_nat p) p). lia.
Qed.

Lemma digit_value d : (d < 8)%N -> octal_digit_value (digit_char d) = Some (Z.of_N d).
Proof.
  intros H. unfold octal_digit_value, digit_char.
  rewrite N_ascii_embedding by lia.
  replace ((48 <=? 48 + d)%N && (48 + d <=? 55)%N) with true by lia.
  f_equal. lia.
Qed.

Lemma parse_rev_digits ds : Forall (fun d => (d < 8)%N) ds -> forall acc rest,
  parse_octal_digits acc (string_of_rev_digits ds rest)
  = parse_octal_digits (acc * 8 ^ Z.of_nat (List.length ds) + Z.of_N (eval_le ds)) rest.
Proof.
  induction 1 as [|d r Hd Hr IH]; intros acc rest.
  - simpl. f_equal. lia.
  - simpl string_of_rev_digits. rewrite IH. simpl parse_octal_digits.
    rewrite digit_value by exact Hd. f_equal.
    change (List.length (d :: r)) with (S (List.length r)).
    rewrite Nat2Z.inj_succ, Z.pow_succ_r by lia.
    change (eval_le (d :: r)) with (d + 8 * eval_le r)%N. lia.
Qed.

Lemma parse_oct_str n : parse_octal_digits 0 (oct_str n) = Some (Z.of_N n).
Proof.
  unfold oct_str. destruct (oct_digits_spec n) as (V & D & _).
  rewrite parse_rev_digits by exact D. simpl. rewrite V. reflexivity.
Qed.

Lemma rev_digits_length ds : forall acc,
  String.length (string_of_rev_digits ds acc) = (List.length ds + String.length acc)%nat.
Proof. induction ds as [|d r IH]; intros acc; simpl; [reflexivity|]. rewrite IH. simpl. lia. Qed.

Lemma rev_digits_app ds : forall acc, string_of_rev_digits ds acc = string_of_rev_digits ds "" ++ acc.
Proof.
  induction ds as [|d r IH]; intros acc; simpl; [reflexivity|].
  rewrite IH. rewrite (IH (String (digit_char d) "")). rewrite app_assoc_s. reflexivity.
Qed.

(* the first character of the printed digits is the most significant digit *)
Lemma rev_digits_head ds : ds <> [] -> forall acc, exists t,
  string_of_rev_digits ds acc = String (digit_char (last ds 0%N)) t.
Proof.
  induction ds as [|d r IH]; intros NE acc; [congruence|].
  destruct r as [|d' r'].
  - simpl. eauto.
  - simpl string_of_rev_digits. destruct (IH ltac:(discriminate) (String (digit_char d) acc)) as [t Ht].
    simpl string_of_rev_digits in Ht. rewrite Ht. exists t. reflexivity.
Qed.

Lemma parse_pad k s acc : acc = 0%Z ->
  parse_octal_digits acc (repeat_char "0" k ++ s) = parse_octal_digits 0 s.
Proof.
  intros ->. induction k as [|k IH]; simpl; [reflexivity|].
  change (octal_digit_value "0") with (Some 0%Z). simpl. exact IH.
Qed.

Lemma repeat_char_length c k : String.length (repeat_char c k) = k.
Proof. induction k; simpl; congruence. Qed.

Lemma oct_field_digits v :
  drop 2 (py_oct (Z.abs v)) = oct_str (Z.abs_N v).
Proof.
  unfold py_oct. replace (Z.abs v <? 0)%Z with false by lia. simpl.
  f_equal. destruct v; reflexivity.
Qed.

(* the digits part of the field *)
Definition field_digits (v : Z) : string := rjust 6 "0" (oct_str (Z.abs_N v)).

Lemma fmt_value_eq v : fmt_value v = (if (v <? 0)%Z then "-" else "") ++ field_digits v.
Proof. unfold fmt_value, field_digits. rewrite oct_field_digits. reflexivity. Qed.

Lemma field_digits_parse v : parse_octal_digits 0 (field_digits v) = Some (Z.abs v).
Proof.
  unfold field_digits, rjust. rewrite parse_pad by reflexivity. rewrite parse_oct_str.
  f_equal. lia.
Qed.

Lemma field_digits_length v : (6 <= String.length (field_digits v))%nat.
Proof. unfold field_digits, rjust. rewrite length_app_s, repeat_char_length. lia. Qed.

Lemma field_digits_tight v : (6 < String.length (field_digits v))%nat ->
  forall c r, field_digits v = String c r -> c <> "0"%char.
Proof.
  unfold field_digits, rjust. rewrite length_app_s, repeat_char_length. intros L c r E.
  assert (Z6 : (6 - String.length (oct_str (Z.abs_N v)) = 0)%nat) by lia.
  rewrite Z6 in E. simpl in E.
  destruct (oct_digits_spec (Z.abs_N v)) as (V & D & NE & LAST & _).
  unfold oct_str in E, L. destruct (rev_digits_head _ NE "") as [t Ht].
  rewrite Ht in E. inversion E; subst c.
  assert (P : (0 < Z.abs_N v)%N).
  { destruct (Z.abs_N v) eqn:A; [|lia]. exfalso. vm_compute in L. lia. }
  specialize (LAST P).
  assert (B : (last (oct_digits (Z.abs_N v)) 0 < 8)%N).
  { rewrite Forall_forall in D. apply D. destruct (oct_digits (Z.abs_N v)) as [|x xs] eqn:Q; [congruence|].
    rewrite <- Q. rewrite Q. apply (@exists_last N) in NE. destruct NE as (l' & a & El).
    rewrite El. rewrite last_last. apply in_or_app. right. left. reflexivity. }
  intros C. unfold digit_char in C.
  apply (f_equal N_of_ascii) in C. rewrite N_ascii_embedding in C by lia.
  change (N_of_ascii "0") with 48%N in C. lia.
Qed.

Lemma fmt_value_field v : field_for v (fmt_value v).
Proof.
  exists (field_digits v). split; [apply fmt_value_eq|].
  split; [apply field_digits_parse|]. split; [apply field_digits_length | apply field_digits_tight].
Qed.

Lemma field_for_parse v s : field_for v s -> parse_octal_field s = Some v.
Proof.
  intros (ds & E & P & L & _). subst s.
  destruct ds as [|c r]; [simpl in L; lia|].
  destruct (v <? 0)%Z eqn:S.
  - change ("-" ++ String c r) with (String "-" (String c r)). unfold parse_octal_field.
    rewrite Ascii.eqb_refl. rewrite P. simpl. f_equal. lia.
  - change ("" ++ String c r) with (String c r). unfold parse_octal_field.
    destruct (Ascii.eqb c "-") eqn:C.
    + apply Ascii.eqb_eq in C. subst c. simpl in P. discriminate.
    + rewrite P. f_equal. lia.
Qed.

Lemma octal_roundtrip_lemma v :
  parse_octal_field (fmt_value v) = Some v
  /\ exists ds, fmt_value v = (if (v <? 0)%Z then "-" else "") ++ ds /\ (6 <= String.length ds)%nat.
Proof.
  split; [apply field_for_parse, fmt_value_field|].
  exists (field_digits v). split; [apply fmt_value_eq | apply field_digits_length].
Qed.

(* ---------------------------------------------------------------------------------------- *)
(* the sort *)
Definition item_le (a b : item) : Prop := key_ltb b a = false.

Lemma str_ltb_asym s : forall t, str_ltb s t = true -> str_ltb t s = false.
Proof.
  induction s as [|a s IH]; intros [|b t] H; simpl in *; try congruence.
  destruct (N_of_ascii a <? N_of_ascii b)%N eqn:E1.
  - replace (N_of_ascii b <? N_of_ascii a)%N with false by lia. reflexivity.
  - destruct (N_of_ascii b <? N_of_ascii a)%N eqn:E2; [congruence|]. apply IH. exact H.
Qed.

Lemma key_ltb_asym a b : key_ltb a b = true -> key_ltb b a = false.
Proof.
  unfold key_ltb. intros H.
  destruct (snd a <? snd b)%Z eqn:E1.
  - replace (snd b <? snd a)%Z with false by lia. replace (snd b =? snd a)%Z with false by lia. reflexivity.
  - simpl in H. apply andb_prop in H. destruct H as [E2 H].
    replace (snd b <? snd a)%Z with false by lia. rewrite (str_ltb_asym _ _ H).
    rewrite andb_false_r. reflexivity.
Qed.

Lemma insert_perm x l : Permutation (insert x l) (x :: l).
Proof.
  induction l as [|y r IH]; simpl; [reflexivity|].
  destruct (key_ltb y x); [|reflexivity].
  rewrite IH. apply perm_swap.
Qed.

Lemma sort_perm l : Permutation (sort l) l.
Proof.
  induction l as [|x r IH]; simpl; [reflexivity|].
  rewrite insert_perm. constructor. exact IH.
Qed.

Lemma insert_sorted x l : Sorted item_le l -> Sorted item_le (insert x l).
Proof.
  induction l as [|y r IH]; intros S; simpl.
  - repeat constructor.
  - destruct (key_ltb y x) eqn:E.
    + inversion S as [|? ? S' H]; subst. constructor; [apply IH; exact S'|].
      destruct r as [|z r']; simpl.
      * constructor. unfold item_le. apply key_ltb_asym. exact E.
      * destruct (key_ltb z x) eqn:E'.
        -- constructor. inversion H; subst. assumption.
        -- constructor. unfold item_le. apply key_ltb_asym. exact E.
    + constructor; [exact S|]. constructor. exact E.
Qed.

Lemma sort_sorted l : Sorted item_le (sort l).
Proof. induction l as [|x r IH]; simpl; [constructor | apply insert_sorted; exact IH]. Qed.

Lemma N_of_ascii_inj a b : N_of_ascii a = N_of_ascii b -> a = b.
Proof. intros H. rewrite <- (ascii_N_embedding a), <- (ascii_N_embedding b). congruence. Qed.

Lemma str_ltb_false_le s : forall t, str_ltb t s = false -> str_le s t.
Proof.
  induction s as [|a s IH]; intros t H; [constructor|].
  destruct t as [|b t]; simpl in H; [discriminate|].
  destruct (N_of_ascii b <? N_of_ascii a)%N eqn:E1; [discriminate|].
  destruct (N_of_ascii a <? N_of_ascii b)%N eqn:E2.
  - apply str_le_lt. lia.
  - assert (a = b) by (apply N_of_ascii_inj; lia). subst b. apply str_le_eq. apply IH. exact H.
Qed.

Definition swap (it : item) : line := (snd it, fst it).

Lemma item_le_line a b : item_le a b -> line_le (swap a) (swap b).
Proof.
  unfold item_le, key_ltb, line_le, swap. simpl. intros H.
  apply orb_false_elim in H. destruct H as [H1 H2].
  destruct (snd b =? snd a)%Z eqn:E.
  - right. split; [lia|]. simpl in H2. apply str_ltb_false_le. exact H2.
  - left. lia.
Qed.

Lemma Sorted_map {A B} (R : A -> A -> Prop) (R' : B -> B -> Prop) (f : A -> B) l :
  (forall a b, R a b -> R' (f a) (f b)) -> Sorted R l -> Sorted R' (map f l).
Proof.
  intros Hf. induction 1 as [|a l S IH H]; simpl; constructor; [exact IH|].
  destruct H; simpl; constructor. apply Hf. assumption.
Qed.

Lemma sort_lines_sorted l : Sorted line_le (map swap (sort l)).
Proof. apply (Sorted_map item_le); [apply item_le_line | apply sort_sorted]. Qed.

Lemma sort_correct l : Permutation (sort l) l /\ Sorted line_le (map swap (sort l)).
Proof. split; [apply sort_perm | apply sort_lines_sorted]. Qed.

(* ---------------------------------------------------------------------------------------- *)
(* grouping *)
Definition group_syms (g : string * list item) : list sym :=
  map (fun it => mkSym (fst g) (fst it) (snd it)) (snd g).

Lemma first_occurrences_in x l : In x (first_occurrences l) <-> In x l.
Proof.
  induction l as [|y r IH]; simpl; [tauto|].
  rewrite filter_In, IH. destruct (String.eqb_spec y x); simpl; intuition congruence.
Qed.

Lemma first_occurrences_nodup l : NoDup (first_occurrences l).
Proof.
  induction l as [|y r IH]; simpl; constructor.
  - rewrite filter_In. rewrite String.eqb_refl. simpl. intuition discriminate.
  - apply NoDup_filter. exact IH.
Qed.

Lemma filter_app_s {A} (p : A -> bool) l1 l2 : filter p (l1 ++ l2)%list = (filter p l1 ++ filter p l2)%list.
Proof. induction l1; simpl; [reflexivity|]. destruct (p a); simpl; congruence. Qed.

Lemma first_occurrences_snoc l x :
  first_occurrences (l ++ [x])%list
  = if in_dec string_dec x l then first_occurrences l else (first_occurrences l ++ [x])%list.
Proof.
  induction l as [|y r IH]; simpl.
  - reflexivity.
  - rewrite IH. destruct (string_dec y x) as [->|N].
    + destruct (in_dec string_dec x r); [reflexivity|].
      rewrite filter_app_s. simpl. rewrite String.eqb_refl. simpl. rewrite app_nil_r. reflexivity.
    + destruct (in_dec string_dec x r); [reflexivity|].
      rewrite filter_app_s. simpl. destruct (String.eqb_spec y x); [congruence|]. reflexivity.
Qed.

Lemma syms_of_file_snoc g done s :
  syms_of_file g (done ++ [s])%list
  = (syms_of_file g done ++ (if String.eqb (s_file s) g then [s] else []))%list.
Proof. unfold syms_of_file. rewrite filter_app_s. reflexivity. Qed.

Lemma add_group_fst f it gs :
  map fst (add_group f it gs)
  = if in_dec string_dec f (map fst gs) then map fst gs else (map fst gs ++ [f])%list.
Proof.
  induction gs as [|[g l] r IH]; simpl; [reflexivity|].
  destruct (String.eqb_spec g f) as [->|N]; simpl.
  - destruct (string_dec f f); [reflexivity | congruence].
  - rewrite IH. destruct (string_dec g f); [congruence|].
    destruct (in_dec string_dec f (map fst r)); reflexivity.
Qed.

Lemma add_group_groups f it done gs :
  NoDup (map fst gs) ->
  Forall (fun g => group_syms g = syms_of_file (fst g) done) gs ->
  (~ In f (map fst gs) -> syms_of_file f done = []) ->
  Forall (fun g => group_syms g = syms_of_file (fst g) (done ++ [mkSym f (fst it) (snd it)])%list)
         (add_group f it gs).
Proof.
  induction gs as [|[g l] r IH]; intros ND F E.
  - simpl. constructor; [|constructor]. simpl. rewrite syms_of_file_snoc. simpl.
    rewrite String.eqb_refl. rewrite E by tauto. reflexivity.
  - simpl in ND. inversion ND as [|? ? NI ND']; subst. inversion F as [|? ? Fh Ft]; subst.
    simpl. destruct (String.eqb_spec g f) as [->|N].
    + constructor.
      * unfold group_syms in *. simpl in *. rewrite map_app.
        rewrite syms_of_file_snoc. simpl. rewrite String.eqb_refl.
        f_equal. exact Fh.
      * rewrite Forall_forall in *. intros g' Hg'. rewrite syms_of_file_snoc. simpl.
        destruct (String.eqb_spec f (fst g')) as [E'|_].
        -- exfalso. apply NI. rewrite E'. apply in_map. exact Hg'.
        -- rewrite app_nil_r. apply Ft. exact Hg'.
    + constructor.
      * rewrite syms_of_file_snoc. simpl. destruct (String.eqb_spec f g); [congruence|].
        rewrite app_nil_r. exact Fh.
      * apply IH; [exact ND' | exact Ft|]. intros NI'. apply E. simpl. intuition.
Qed.

Lemma add_group_perm f it gs :
  Permutation (flat_map group_syms (add_group f it gs))
              (flat_map group_syms gs ++ [mkSym f (fst it) (snd it)]).
Proof.
  induction gs as [|[g l] r IH]; simpl; [reflexivity|].
  destruct (String.eqb_spec g f) as [->|N]; simpl.
  - unfold group_syms at 1 3. simpl. rewrite map_app. simpl.
    rewrite <- !app_assoc. apply Permutation_app_head. apply Permutation_app_comm.
  - rewrite IH. rewrite app_assoc. reflexivity.
Qed.

Definition inv (gs : groups) (done : list sym) : Prop :=
  map fst gs = first_occurrences (map s_file done)
  /\ Forall (fun g => group_syms g = syms_of_file (fst g) done) gs
  /\ Permutation (flat_map group_syms gs) done.

Lemma syms_of_file_absent f done : ~ In f (map s_file done) -> syms_of_file f done = [].
Proof.
  induction done as [|s r IH]; simpl; intros H; [reflexivity|].
  destruct (String.eqb_spec (s_file s) f); [tauto|]. apply IH. tauto.
Qed.

Lemma inv_add f n v gs done :
  inv gs done -> inv (add_group f (n, v) gs) (done ++ [mkSym f n v]).
Proof.
  intros (I1 & I2 & I3). split; [|split].
  - rewrite add_group_fst, map_app. cbn [map s_file]. rewrite first_occurrences_snoc. rewrite I1.
    destruct (in_dec string_dec f (first_occurrences (map s_file done))) as [i|i];
      destruct (in_dec string_dec f (map s_file done)) as [j|j]; try reflexivity;
        rewrite first_occurrences_in in i; tauto.
  - apply (add_group_groups f (n, v)); [rewrite I1; apply first_occurrences_nodup | exact I2 |].
    rewrite I1, first_occurrences_in. apply syms_of_file_absent.
  - rewrite add_group_perm. simpl. apply Permutation_app_tail. exact I3.
Qed.

(* ---------------------------------------------------------------------------------------- *)
(* keys *)
Lemma uint_digits_no_dot d : no_char "." (NilEmpty.string_of_uint d).
Proof. induction d; simpl; try split; try exact IHd; try discriminate; exact I. Qed.

Lemma partition_char_split c h t : no_char c h ->
  partition_char c (h ++ String c t) = (h, String c "", t).
Proof.
  induction h as [|a h IH]; simpl; intros H.
  - rewrite Ascii.eqb_refl. reflexivity.
  - destruct H as [Na H]. destruct (Ascii.eqb_spec a c); [congruence|]. rewrite IH by exact H. reflexivity.
Qed.

Lemma py_str_N_nonempty k : py_str_N k <> "".
Proof.
  unfold py_str_N. pose proof (Unsigned.of_to k) as H.
  destruct (N.to_uint k) eqn:E; simpl; try discriminate.
  simpl in H. subst k. vm_compute in E. discriminate.
Qed.

Lemma py_int_str k : py_int (py_str_N k) = Some k.
Proof.
  unfold py_int. pose proof (py_str_N_nonempty k) as NE.
  destruct (py_str_N k) eqn:E; [congruence|]. rewrite <- E. unfold py_str_N.
  rewrite NilEmpty.usu. simpl. rewrite Unsigned.of_to. reflexivity.
Qed.

Lemma collect_spec pm es : forall gs done,
  prefixes_known pm es -> inv gs done ->
  exists gs', collect (table_of es) pm gs = Ok gs' /\ inv gs' (done ++ ordinary pm es).
Proof.
  induction es as [|e r IH]; intros gs done PK I.
  - simpl. exists gs. rewrite app_nil_r. split; [reflexivity | exact I].
  - assert (PK' : prefixes_known pm r) by (intros k n v H; apply (PK k n v); right; exact H).
    destruct e as [k n v | j n v].
    + pose proof (PK k n v (or_introl eq_refl)) as L.
      destruct (lookup k pm) as [f|] eqn:Lk; [|congruence].
      change (table_of (EOrd k n v :: r)) with ((".internal" ++ py_str_N k ++ "." ++ n, v) :: table_of r).
      cbn [collect]. change (startswith ".internal" (".internal" ++ py_str_N k ++ "." ++ n)) with
          (String.prefix "" (py_str_N k ++ "." ++ n)).
      replace (String.prefix "" (py_str_N k ++ "." ++ n)) with true by (destruct (py_str_N k ++ "." ++ n); reflexivity).
      change (drop 9 (".internal" ++ py_str_N k ++ "." ++ n)) with (py_str_N k ++ String "." n).
      rewrite partition_char_split by apply uint_digits_no_dot.
      cbn [fst snd]. rewrite py_int_str, Lk.
      destruct (IH (add_group f (n, v) gs) (done ++ [mkSym f n v])%list PK' (inv_add f n v gs done I))
        as (gs' & C & I').
      exists gs'. split; [exact C|]. cbn [ordinary]. rewrite Lk.
      rewrite <- app_assoc in I'. exact I'.
    + change (table_of (ELocal j n v :: r)) with ((".local" ++ py_str_N j ++ "." ++ n, v) :: table_of r).
      cbn [collect]. change (startswith ".internal" (".local" ++ py_str_N j ++ "." ++ n)) with false.
      cbn [ordinary]. apply IH; assumption.
Qed.

(* ---------------------------------------------------------------------------------------- *)
(* text *)
Definition lines_text (ls : list item) : string :=
  fold_right (fun it t => fmt_value (snd it) ++ " " ++ fst it ++ nl ++ t) "" ls.

Definition groups_text (gs : groups) : string :=
  fold_right (fun g t => fst g ++ nl ++ lines_text (sort (snd g)) ++ nl ++ t) "" gs.

Lemma emit_lines_eq ls : forall res, emit_lines res ls = res ++ lines_text ls.
Proof.
  unfold emit_lines. induction ls as [|it r IH]; intros res.
  - simpl. rewrite app_nil_r_s. reflexivity.
  - cbn [fold_left lines_text fold_right]. rewrite IH. rewrite !app_assoc_s. reflexivity.
Qed.

Lemma emit_eq gs : forall acc,
  fold_left (fun res g => emit_lines (res ++ (fst g ++ nlc)) (sort (snd g)) ++ nlc) gs acc
  = acc ++ groups_text gs.
Proof.
  induction gs as [|g r IH]; intros acc.
  - simpl. rewrite app_nil_r_s. reflexivity.
  - cbn [fold_left groups_text fold_right]. rewrite IH. rewrite emit_lines_eq. rewrite !app_assoc_s. reflexivity.
Qed.

Definition blocks_of_groups (gs : groups) : list block :=
  map (fun g => (fst g, map swap (sort (snd g)))) gs.

Lemma renders_lines_text ls : renders_lines (map swap ls) (lines_text ls).
Proof.
  induction ls as [|[n v] r IH]; simpl; [constructor|].
  apply (rl_cons v n (fmt_value v)); [apply fmt_value_field | exact IH].
Qed.

Lemma renders_groups gs : renders (blocks_of_groups gs) (groups_text gs).
Proof.
  induction gs as [|[f l] r IH]; simpl; [constructor|].
  apply r_cons; [apply renders_lines_text | exact IH].
Qed.

Lemma block_syms_group g :
  block_syms (fst g, map swap (sort (snd g))) = group_syms (fst g, sort (snd g)).
Proof. unfold block_syms, group_syms. simpl. rewrite map_map. reflexivity. Qed.

(* ---------------------------------------------------------------------------------------- *)
(* the model meets the specification *)
Lemma generate_listing_full pm es : prefixes_known pm es ->
  exists text bs,
    generate_listing (table_of es) pm = Ok text
    /\ renders bs text
    /\ listing_of (ordinary pm es) bs
    /\ Permutation (flat_map block_syms bs) (ordinary pm es).
Proof.
  intros PK.
  assert (I0 : inv [] []) by (repeat split; simpl; constructor).
  destruct (collect_spec pm es [] [] PK I0) as (gs & C & I1 & I2 & I3). simpl in I1, I2, I3.
  exists (emit gs), (blocks_of_groups gs). unfold generate_listing. rewrite C.
  split; [reflexivity|]. split.
  { unfold emit. rewrite emit_eq. simpl. apply renders_groups. }
  split.
  - split.
    + unfold blocks_of_groups. rewrite map_map. simpl. exact I1.
    + unfold blocks_of_groups. rewrite Forall_map. rewrite Forall_forall in *.
      intros g Hg. split; simpl.
      * rewrite block_syms_group. rewrite <- (I2 g Hg). unfold group_syms. simpl.
        apply Permutation_map. apply sort_perm.
      * apply sort_lines_sorted.
  - rewrite <- I3. unfold blocks_of_groups. clear.
    induction gs as [|g r IH]; simpl; [reflexivity|].
    apply Permutation_app; [|exact IH].
    rewrite block_syms_group. unfold group_syms. simpl. apply Permutation_map. apply sort_perm.
Qed.

Lemma model_meets_spec pm es : prefixes_known pm es ->
  exists text, generate_listing (table_of es) pm = Ok text /\ is_listing (ordinary pm es) text.
Proof.
  intros PK. destruct (generate_listing_full pm es PK) as (text & bs & G & R & L & _).
  exists text. split; [exact G|]. exists bs. split; assumption.
Qed.

Lemma listing_complete_once_lemma pm es : prefixes_known pm es ->
  exists text bs, generate_listing (table_of es) pm = Ok text /\ renders bs text
                  /\ Permutation (flat_map block_syms bs) (ordinary pm es).
Proof.
  intros PK. destruct (generate_listing_full pm es PK) as (text & bs & G & R & L & P).
  exists text, bs. repeat split; assumption.
Qed.

Lemma listing_sorted_lemma pm es : prefixes_known pm es ->
  exists text bs, generate_listing (table_of es) pm = Ok text /\ renders bs text
                  /\ Forall (fun b => Sorted line_le (snd b)) bs.
Proof.
  intros PK. destruct (generate_listing_full pm es PK) as (text & bs & G & R & (_ & L) & P).
  exists text, bs. repeat split; try assumption.
  rewrite Forall_forall in *. intros b Hb. apply (L b Hb).
Qed.

Lemma ordinary_in pm es f n v : In (mkSym f n v) (ordinary pm es) ->
  exists k, In (EOrd k n v) es /\ lookup k pm = Some f.
Proof.
  induction es as [|e r IH]; simpl; [tauto|].
  destruct e as [k n' v' | j n' v'].
  - destruct (lookup k pm) as [f'|] eqn:L.
    + intros [H|H].
      * inversion H; subst. exists k. split; [left; reflexivity | exact L].
      * destruct (IH H) as (k' & A & B). exists k'. split; [right; exact A | exact B].
    + intros H. destruct (IH H) as (k' & A & B). exists k'. split; [right; exact A | exact B].
  - intros H. destruct (IH H) as (k' & A & B). exists k'. split; [right; exact A | exact B].
Qed.

Lemma file_grouping_lemma pm es : prefixes_known pm es ->
  exists text bs, generate_listing (table_of es) pm = Ok text /\ renders bs text
    /\ NoDup (map fst bs)
    /\ forall b v n, In b bs -> In (v, n) (snd b) ->
         exists k, In (EOrd k n v) es /\ lookup k pm = Some (fst b).
Proof.
  intros PK. destruct (generate_listing_full pm es PK) as (text & bs & G & R & (L1 & L2) & P).
  exists text, bs. repeat split; try assumption.
  - rewrite L1. apply first_occurrences_nodup.
  - intros b v n Hb Hl. apply ordinary_in.
    apply (Permutation_in _ P). apply in_flat_map. exists b. split; [exact Hb|].
    unfold block_syms. apply in_map_iff. exists (v, n). split; [reflexivity | exact Hl].
Qed.

(* local labels never appear: a listed line comes from an EOrd entry (file_grouping), and the
   number of lines equals the number of ordinary symbols *)
Lemma listing_line_count pm es : prefixes_known pm es ->
  exists text bs, generate_listing (table_of es) pm = Ok text /\ renders bs text
    /\ List.length (flat_map (fun b => snd b) bs) = List.length (ordinary pm es).
Proof.
  intros PK. destruct (generate_listing_full pm es PK) as (text & bs & G & R & L & P).
  exists text, bs. repeat split; try assumption.
  rewrite <- (Permutation_length P). clear.
  induction bs as [|b r IH]; simpl; [reflexivity|].
  rewrite !app_length, IH. unfold block_syms. rewrite map_length. reflexivity.
Qed.

(* the model never crashes on a table built by the compiler, and crashes exactly as Python does otherwise *)
Lemma unknown_prefix_crashes pm k n v r :
  lookup k pm = None ->
  generate_listing (table_of (EOrd k n v :: r)) pm = Crash "KeyError: internal_prefix_to_state".
Proof.
  intros L. unfold generate_listing.
  change (table_of (EOrd k n v :: r)) with ((".internal" ++ py_str_N k ++ "." ++ n, v) :: table_of r).
  cbn [collect]. change (startswith ".internal" (".internal" ++ py_str_N k ++ "." ++ n)) with
      (String.prefix "" (py_str_N k ++ "." ++ n)).
  replace (String.prefix "" (py_str_N k ++ "." ++ n)) with true by (destruct (py_str_N k ++ "." ++ n); reflexivity).
  change (drop 9 (".internal" ++ py_str_N k ++ "." ++ n)) with (py_str_N k ++ String "." n).
  rewrite partition_char_split by apply uint_digits_no_dot.
  cbn [fst snd]. rewrite py_int_str, L. reflexivity.
Qed.

(* ---------------------------------------------------------------------------------------- *)
(* label addresses: with the address invariant of C02 (a label's value is the link base plus
   the number of bytes emitted before it) the listing line of every label points at the byte
   following the label in the image *)
Section LabelAddress.
  Variable base : Z.
  Variable syms : list sym.
  Variable placed : list (sym * nat).          (* label symbol, offset of the byte following it *)
  Hypothesis placed_defined : forall s off, In (s, off) placed -> In s syms.
  Hypothesis address_invariant : forall s off, In (s, off) placed -> s_value s = (base + Z.of_nat off)%Z.

  Lemma label_is_image_address_lemma bs : listing_of syms bs -> points_into_image base bs placed.
  Proof.
    intros (L1 & L2) s off H.
    pose proof (placed_defined s off H) as D. pose proof (address_invariant s off H) as A.
    assert (Hf : In (s_file s) (map fst bs)).
    { rewrite L1. apply first_occurrences_in. apply in_map. exact D. }
    apply in_map_iff in Hf. destruct Hf as (b & Eb & Hb).
    exists b. split; [exact Hb|]. split; [exact Eb|].
    rewrite Forall_forall in L2. destruct (L2 b Hb) as (P & _).
    assert (Hs : In s (block_syms b)).
    { apply (Permutation_in _ (Permutation_sym P)). unfold syms_of_file. apply filter_In.
      split; [exact D|]. rewrite Eb. apply String.eqb_refl. }
    unfold block_syms in Hs. apply in_map_iff in Hs. destruct Hs as ([v n] & E & Hl).
    subst s. simpl in *. split; [exact Hl|]. lia.
  Qed.
End LabelAddress.
