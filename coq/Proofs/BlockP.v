(* Proofs about Model/Block.v: the address invariant of compile_block (C02). *)
From Coq Require Import List ZArith Bool Lia.
From Verif Require Import Model.Block.
Import ListNotations.
Open Scope Z_scope.

Section Ind.
  Variable P : stmt -> Prop.
  Hypothesis HL : forall r a bs, P (Leaf r a bs).
  Hypothesis HS : P Silent.
  Hypothesis HN : forall body, Forall P body -> P (Nested body).
  Fixpoint stmt_ind2 (s : stmt) : P s :=
    match s with
    | Leaf r a bs => HL r a bs
    | Silent => HS
    | Nested body =>
        HN body ((fix go (l : list stmt) : Forall P l :=
                    match l with
                    | [] => Forall_nil P
                    | x :: xs => Forall_cons x (stmt_ind2 x) (go xs)
                    end) body)
    end.
End Ind.

Lemma adv_nested b : adv (Nested b) = adv_list b.
Proof. unfold adv_list. induction b as [|x xs IH]; [reflexivity|]. cbn [adv fold_right] in *. rewrite IH. reflexivity. Qed.
Lemma out_nested b : out (Nested b) = out_list b.
Proof. unfold out_list. induction b as [|x xs IH]; [reflexivity|]. cbn [out flat_map] in *. rewrite IH. reflexivity. Qed.
Lemma place_nested a b : place a (Nested b) = place_list a b.
Proof. revert a; induction b as [|x xs IH]; intros a; [reflexivity|]. cbn [place place_list] in *. rewrite IH. reflexivity. Qed.
Lemma consistent_nested b : consistent (Nested b) = consistent_list b.
Proof. unfold consistent_list. induction b as [|x xs IH]; [reflexivity|]. cbn [consistent forallb] in *. rewrite IH. reflexivity. Qed.

Lemma zlen_app {A} (l1 l2 : list A) : zlen (l1 ++ l2) = zlen l1 + zlen l2.
Proof. unfold zlen. rewrite app_length. lia. Qed.
Lemma zlen_nonneg {A} (l : list A) : 0 <= zlen l.
Proof. unfold zlen. lia. Qed.

Definition bytes_of (tr : list (Z * list Z)) : list Z := flat_map snd tr.
Lemma bytes_of_app t1 t2 : bytes_of (t1 ++ t2) = bytes_of t1 ++ bytes_of t2.
Proof. unfold bytes_of. apply flat_map_app. Qed.

(* the bytes of the trace are the bytes of the image, whatever the sizes announced *)
Lemma place_bytes s : forall a, bytes_of (place a s) = out s.
Proof.
  induction s as [r an bs| |body IH] using stmt_ind2; intros a.
  - simpl. apply app_nil_r.
  - reflexivity.
  - rewrite place_nested, out_nested. revert a. unfold out_list.
    induction IH as [|x xs Hx Hxs IHl]; intros a; simpl; [reflexivity|].
    rewrite bytes_of_app, Hx, IHl. reflexivity.
Qed.
Lemma place_list_bytes l : forall a, bytes_of (place_list a l) = out_list l.
Proof.
  unfold out_list. induction l as [|x xs IH]; intros a; simpl; [reflexivity|].
  rewrite bytes_of_app, place_bytes, IH. reflexivity.
Qed.

(* with consistent sizes, the running address advances by exactly the bytes produced *)
Lemma consistent_adv s : consistent s = true -> adv s = zlen (out s).
Proof.
  induction s as [r an bs| |body IH] using stmt_ind2; intros H.
  - simpl in *. unfold leaf_consistent in H. apply Z.eqb_eq in H. exact H.
  - reflexivity.
  - rewrite adv_nested, out_nested. rewrite consistent_nested in H. unfold consistent_list, out_list in *.
    induction IH as [|x xs Hx Hxs IHl]; simpl in *; [reflexivity|].
    apply andb_prop in H. destruct H as [H1 H2].
    rewrite zlen_app, (Hx H1), (IHl H2). reflexivity.
Qed.
Lemma consistent_adv_list l : consistent_list l = true -> adv_list l = zlen (out_list l).
Proof.
  intros H. rewrite <- adv_nested, <- out_nested. apply consistent_adv. rewrite consistent_nested. exact H.
Qed.

(* a trace is well placed from [a] when every entry's address is [a] plus the bytes before it *)
Fixpoint trace_ok (a : Z) (tr : list (Z * list Z)) : Prop :=
  match tr with
  | [] => True
  | (a', bs) :: rest => a' = a /\ trace_ok (a + zlen bs) rest
  end.

Lemma trace_ok_app a t1 t2 :
  trace_ok a (t1 ++ t2) <-> trace_ok a t1 /\ trace_ok (a + zlen (bytes_of t1)) t2.
Proof.
  revert a; induction t1 as [|[a' bs] rest IH]; intros a; simpl.
  - unfold bytes_of; simpl. unfold zlen; simpl. rewrite Z.add_0_r. tauto.
  - rewrite IH. unfold bytes_of; simpl. fold (bytes_of rest). rewrite zlen_app, Z.add_assoc. tauto.
Qed.

Lemma place_ok s : consistent s = true -> forall a, trace_ok a (place a s).
Proof.
  induction s as [r an bs| |body IH] using stmt_ind2; intros H a.
  - simpl. auto.
  - simpl. auto.
  - rewrite place_nested. rewrite consistent_nested in H. unfold consistent_list in H. revert a.
    induction IH as [|x xs Hx Hxs IHl]; intros a; simpl in *; [exact I|].
    apply andb_prop in H. destruct H as [H1 H2].
    apply trace_ok_app. split; [apply Hx; exact H1|].
    rewrite place_bytes, <- (consistent_adv x H1). apply IHl. exact H2.
Qed.
Lemma place_list_ok l : consistent_list l = true -> forall a, trace_ok a (place_list a l).
Proof.
  intros H a. rewrite <- place_nested. apply place_ok. rewrite consistent_nested. exact H.
Qed.

(* the split form used in the property statement *)
Lemma trace_ok_split a tr : trace_ok a tr ->
  forall pre a' bs post, tr = pre ++ (a', bs) :: post -> a' = a + zlen (bytes_of pre).
Proof.
  intros H pre a' bs post E. subst tr. apply trace_ok_app in H. destruct H as [_ H]. simpl in H. tauto.
Qed.

Lemma firstn_skipn_middle {A} (l1 l2 l3 : list A) :
  firstn (length l2) (skipn (length l1) (l1 ++ l2 ++ l3)) = l2.
Proof.
  rewrite skipn_app, skipn_all, Nat.sub_diag. simpl.
  rewrite firstn_app, Nat.sub_diag, firstn_all. simpl. apply app_nil_r.
Qed.

(* C02, block level: every statement of every nesting level of a block is told the address at which
   its bytes lie in the block's output; the bytes found there are its bytes; the output length is
   the sum of the statement sizes and equals the final advance of the running address. *)
Theorem address_invariant_block (l : list stmt) (a : Z) :
  consistent_list l = true ->
  (forall pre a' bs post, place_list a l = pre ++ (a', bs) :: post ->
      a' = a + zlen (bytes_of pre) /\
      out_list l = bytes_of pre ++ bs ++ bytes_of post /\
      firstn (length bs) (skipn (Z.to_nat (a' - a)) (out_list l)) = bs) /\
  adv_list l = zlen (out_list l).
Proof.
  intros H. split; [|apply consistent_adv_list; exact H].
  intros pre a' bs post E.
  assert (Ha : a' = a + zlen (bytes_of pre)).
  { eapply trace_ok_split; [apply place_list_ok; exact H | exact E]. }
  assert (Hb : out_list l = bytes_of pre ++ bs ++ bytes_of post).
  { rewrite <- (place_list_bytes l a), E, bytes_of_app. unfold bytes_of at 2; simpl. fold (bytes_of post). reflexivity. }
  split; [exact Ha|]. split; [exact Hb|].
  rewrite Hb, Ha. replace (a + zlen (bytes_of pre) - a) with (zlen (bytes_of pre)) by lia.
  unfold zlen. rewrite Nat2Z.id. apply firstn_skipn_middle.
Qed.

(* linked files *)
Lemma place_files_bytes files : forall a, bytes_of (place_files a files) = out_files files.
Proof.
  unfold out_files. induction files as [|f fs IH]; intros a; simpl; [reflexivity|].
  rewrite bytes_of_app, place_list_bytes, IH. reflexivity.
Qed.
Lemma place_files_ok files : forallb consistent_list files = true -> forall a, trace_ok a (place_files a files).
Proof.
  induction files as [|f fs IH]; intros H a; simpl in *; [exact I|].
  apply andb_prop in H. destruct H as [H1 H2].
  apply trace_ok_app. split; [apply place_list_ok; exact H1|].
  rewrite place_list_bytes, <- (consistent_adv_list f H1). apply IH. exact H2.
Qed.

Theorem address_invariant_files (files : list (list stmt)) (base : Z) :
  forallb consistent_list files = true ->
  forall pre a' bs post, place_files base files = pre ++ (a', bs) :: post ->
      a' = base + zlen (bytes_of pre) /\
      out_files files = bytes_of pre ++ bs ++ bytes_of post /\
      firstn (length bs) (skipn (Z.to_nat (a' - base)) (out_files files)) = bs.
Proof.
  intros H pre a' bs post E.
  assert (Ha : a' = base + zlen (bytes_of pre)).
  { eapply trace_ok_split; [apply place_files_ok; exact H | exact E]. }
  assert (Hb : out_files files = bytes_of pre ++ bs ++ bytes_of post).
  { rewrite <- (place_files_bytes files base), E, bytes_of_app. unfold bytes_of at 2; simpl. fold (bytes_of post). reflexivity. }
  split; [exact Ha|]. split; [exact Hb|].
  rewrite Hb, Ha. replace (base + zlen (bytes_of pre) - base) with (zlen (bytes_of pre)) by lia.
  unfold zlen. rewrite Nat2Z.id. apply firstn_skipn_middle.
Qed.

(* sensitivity: the invariant really depends on the announced size.  A deferred sized statement
   that announces n but yields bs shifts the address of everything after it by n - |bs|. *)
Lemma place_list_app a l1 l2 : place_list a (l1 ++ l2) = place_list a l1 ++ place_list (a + adv_list l1) l2.
Proof.
  revert a; induction l1 as [|x xs IH]; intros a.
  - simpl. rewrite Z.add_0_r. reflexivity.
  - cbn [app place_list]. rewrite IH, <- app_assoc. f_equal. f_equal.
    unfold adv_list. cbn [fold_right]. f_equal. lia.
Qed.

Theorem announced_size_shifts (l1 : list stmt) (n : Z) (bs : list Z) (a : Z) :
  consistent_list l1 = true ->
  place_list a (l1 ++ [Leaf false (Some n) bs; Silent]) =
  place_list a l1 ++ [(a + zlen (out_list l1), bs); (a + zlen (out_list l1) + n, [])].
Proof.
  intros H. rewrite place_list_app. simpl. rewrite (consistent_adv_list l1 H). reflexivity.
Qed.

(* the flat per-block address recurrence used by the correspondence check is the same function *)
Definition to_stmt (e : bool * option Z * Z) : stmt :=
  match e with (r, an, n) => Leaf r an (repeat 0 (Z.to_nat n)) end.

Lemma zlen_repeat n : 0 <= n -> zlen (repeat 0 (Z.to_nat n)) = n.
Proof. intros H. unfold zlen. rewrite repeat_length. lia. Qed.

Theorem flat_block_addrs_spec (l : list (bool * option Z * Z)) :
  Forall (fun e => 0 <= snd e) l ->
  forall start, flat_block_addrs start l =
    map fst (place_list start (map to_stmt l)) ++ [start + adv_list (map to_stmt l)].
Proof.
  induction 1 as [|[[r an] n] xs Hn Hxs IH]; intros start; simpl.
  - rewrite Z.add_0_r. reflexivity.
  - simpl in Hn. f_equal. unfold adv_leaf. rewrite (zlen_repeat n Hn).
    change ((fix go (a : Z) (l : list (bool * option Z * Z)) {struct l} : list Z :=
               match l with
               | [] => [a]
               | (r0, an0, n0) :: xs0 =>
                   a :: go (a + (if r0 then n0 else match an0 with Some k => k | None => n0 end)) xs0
               end) (start + (if r then n else match an with Some k => k | None => n end)) xs)
      with (flat_block_addrs (start + (if r then n else match an with Some k => k | None => n end)) xs).
    rewrite IH. f_equal. f_equal. lia.
Qed.
