(* R is total without Python exceptions: the composed model never answers XCrash, and the fuel it gives
   the demand-driven evaluation of definitions (1 + number of definitions) always suffices.  Inherits
   C01's compile_no_crash, C06's model_meets_spec (no directive of the Spec crashes), C15's rad50_total. *)
From Coq Require Import ZArith List String Ascii Bool NArith Lia.
From Verif Require Import Base.Res Base.Bytes Spec.PDP11 Spec.Arith Spec.DataSpec Gen.GenGetAsInt Gen.GenOpcodes
  Model.Insns Model.Directives Proofs.InsnsCheck Proofs.InsnsP Proofs.InsnsMain Proofs.InsnsSyn
  Proofs.DirectivesGai Proofs.DirectivesData Proofs.DirectivesAnnounce Proofs.DirectivesSpec
  Model.Rad50 Proofs.Rad50P Model.Asm Proofs.AsmP.
Import ListNotations.
Notation length := Datatypes.length.
Notation concat := List.concat.
Open Scope string_scope.
Open Scope list_scope.
Open Scope Z_scope.

(* neither a Python exception nor exhausted fuel *)
Definition xnc {A} (r : xres A) : Prop := match r with XCrash _ | XOutOfFuel => False | _ => True end.

Lemma xnc_bind {A B} (r : xres A) (f : A -> xres B) : xnc r -> (forall a, xnc (f a)) -> xnc (xbind r f).
Proof. destruct r; simpl; auto. Qed.

Lemma xnc_lift {A} (r : res A) : nc r -> xnc (lift r).
Proof. destruct r; simpl; auto. Qed.

Lemma xnc_xmapM {A B} (f : A -> xres B) l : (forall x, xnc (f x)) -> xnc (xmapM f l).
Proof.
  intros H. induction l as [|x r IH]; simpl; [exact I|].
  apply xnc_bind; [apply H|]. intros y. apply xnc_bind; [exact IH|]. intros; exact I.
Qed.

Lemma xnc_xmapM_in {A B} (f : A -> xres B) l : (forall x, In x l -> xnc (f x)) -> xnc (xmapM f l).
Proof.
  induction l as [|x r IH]; intros H; simpl; [exact I|].
  apply xnc_bind; [apply H; left; reflexivity|]. intros y. apply xnc_bind; [apply IH; intros; apply H; right; assumption|]. intros; exact I.
Qed.

(* ---- expressions -------------------------------------------------------------------------- *)
Lemma nc_lit enc l : nc (lit_value enc l).
Proof.
  destruct l; simpl; auto.
  - unfold chars_value. destruct (enc_all enc [c]) as [[|? [|? [|? ?]]]|]; exact I.
  - unfold chars_value. destruct (enc_all enc [c1; c2]) as [[|? [|? [|? ?]]]|]; exact I.
  - destruct (r50_word cs); exact I.
Qed.

Lemma nc_sem_un u a : nc (sem_un u a).
Proof. destruct u; exact I. Qed.

Lemma nc_sem_bin o a b : nc (sem_bin o a b).
Proof. destruct o; simpl; try exact I; unfold arith_error, too_complex; repeat match goal with |- context[if ?c then _ else _] => destruct c end; exact I. Qed.

Lemma nc_eval enc sym dot e : nc (Arith.eval enc sym dot e).
Proof.
  induction e; simpl.
  - apply nc_lit.
  - destruct (sym s); exact I.
  - exact I.
  - apply nc_bind; [exact IHe|]. intros; apply nc_sem_un.
  - apply nc_bind; [exact IHe1|]. intros. apply nc_bind; [exact IHe2|]. intros; apply nc_sem_bin.
  - exact IHe.
Qed.

Definition dkey (d : defn) : nat * string := (d_file d, d_name d).

Lemma find_def_In f s l d : find_def f s l = Some d -> In (f, s) (map dkey l).
Proof.
  induction l as [|x r IH]; simpl; [discriminate|].
  destruct (Nat.eqb f (d_file x) && String.eqb s (d_name x)) eqn:E; intros H.
  - apply andb_true_iff in E. destruct E as [E1 E2]. apply Nat.eqb_eq in E1. apply String.eqb_eq in E2.
    left. unfold dkey. congruence.
  - right. auto.
Qed.

Lemma vmem_false f s vis : vmem f s vis = false -> ~ In (f, s) vis.
Proof.
  unfold vmem. intros H Hin. rewrite <- not_true_iff_false in H. apply H.
  apply existsb_exists. exists (f, s). split; [exact Hin|]. simpl. rewrite Nat.eqb_refl, String.eqb_refl. reflexivity.
Qed.

(* the visiting list is a duplicate-free list of definition names, so it is never longer than the table *)
Definition vis_ok (alldefs : list defn) (fuel : nat) (vis : list (nat * string)) : Prop :=
  NoDup vis /\ incl vis (map dkey alldefs) /\ (length alldefs < fuel + length vis)%nat.

Section Total.
Variable enc : list N -> option (list Z).

Section Ev.
Variable alldefs : list defn.
Variable allkeys : list key.
Variable exports : list (string * nat).
Variable labels : symtab.
Variable ddots : symtab.
Notation xev := (xeval enc alldefs allkeys exports labels ddots).

Lemma xev_un fuel rem sc dot u x :
  xev fuel rem sc dot (Un u x) = xbind (xev fuel rem sc dot x) (fun a => lift (sem_un u a)).
Proof. destruct fuel; reflexivity. Qed.
Lemma xev_bin fuel rem sc dot o l r :
  xev fuel rem sc dot (Bin o l r) =
  xbind (xev fuel rem sc dot l) (fun a => xbind (xev fuel rem sc dot r) (fun b => lift (sem_bin o a b))).
Proof. destruct fuel; reflexivity. Qed.
Lemma xev_group fuel rem sc dot b x : xev fuel rem sc dot (Group b x) = xev fuel rem sc dot x.
Proof. destruct fuel; reflexivity. Qed.

Lemma xnc_xev fuel : forall vis sc dot e, vis_ok alldefs fuel vis -> xnc (xev fuel vis sc dot e).
Proof.
  assert (Step : forall fuel vis, vis_ok alldefs fuel vis ->
            (forall fl, fuel = S fl -> forall vis' sc dot e, vis_ok alldefs fl vis' -> xnc (xev fl vis' sc dot e)) ->
            forall (s : string) (g : nat) (k : xres Z), xnc k ->
            xnc (match find_def g s alldefs with
                 | Some d => if vmem g s vis then XErr ["recursive-definition"]
                             else match fuel with
                                  | O => XOutOfFuel
                                  | S fl => xev fl ((g, s) :: vis) (g, Some (d_scope d)) (klookup (KGlobal g s) ddots) (d_expr d)
                                  end
                 | None => k end)).
  { intros fu vis [ND [IN LT]] IH s g k Hk. destruct (find_def g s alldefs) eqn:F; [|exact Hk].
    destruct (vmem g s vis) eqn:V; [exact I|].
    assert (OK' : NoDup ((g, s) :: vis) /\ incl ((g, s) :: vis) (map dkey alldefs)).
    { split; [constructor; [apply vmem_false; exact V|exact ND]|].
      intros x [<-|Hx]; [eapply find_def_In; eauto|auto]. }
    destruct fu as [|fl].
    - exfalso. destruct OK' as [ND' IN']. pose proof (NoDup_incl_length ND' IN') as L. rewrite map_length in L. simpl in L, LT. lia.
    - apply (IH fl eq_refl). destruct OK'. split; [assumption|]. split; [assumption|]. simpl. simpl in LT. lia. }
  induction fuel as [|f IHf]; intros vis sc dot e OK; induction e;
    try (rewrite xev_un; apply xnc_bind; [assumption|intros; apply xnc_lift, nc_sem_un]);
    try (rewrite xev_bin; apply xnc_bind; [assumption|intros; apply xnc_bind; [assumption|intros; apply xnc_lift, nc_sem_bin]]);
    try (rewrite xev_group; assumption);
    try (simpl; apply xnc_lift, nc_lit);
    try (simpl; destruct dot; exact I).
  - simpl. destruct (own_of labels sc s); [exact I|].
    apply (Step 0%nat vis OK); [intros fl E; discriminate|].
    match goal with |- context[if ?c then _ else _] => destruct c end; [exact I|].
    destruct (slookup s exports) as [g|]; [|exact I]. destruct (klookup (KGlobal g s) labels); [exact I|].
    apply (Step 0%nat vis OK); [intros fl E; discriminate|].
    match goal with |- context[if ?c then _ else _] => destruct c end; exact I.
  - simpl. destruct (own_of labels sc s); [exact I|].
    apply (Step (S f) vis OK); [intros fl E; injection E as <-; apply IHf|].
    match goal with |- context[if ?c then _ else _] => destruct c end; [exact I|].
    destruct (slookup s exports) as [g|]; [|exact I]. destruct (klookup (KGlobal g s) labels); [exact I|].
    apply (Step (S f) vis OK); [intros fl E; injection E as <-; apply IHf|].
    match goal with |- context[if ?c then _ else _] => destruct c end; exact I.
Qed.
End Ev.

(* ---- get_as_int at the two call sites ------------------------------------------------------- *)
Lemma nc_gai16 v : nc (get_as_int (Some 16) false None v).
Proof.
  destruct (get_as_int_spec 16 false v ltac:(lia)) as [S1 S2].
  destruct (admitted_dec 16 false v) as [A|A].
  - rewrite (proj2 (S1 _) (conj A eq_refl)). exact I.
  - rewrite (S2 A). exact I.
Qed.

Lemma nc_gai_count v : nc (get_as_int None true None v).
Proof.
  unfold get_as_int. rewrite get_as_int_unbounded. destruct (true && (v <? 0)); simpl; exact I.
Qed.

(* ---- directives ----------------------------------------------------------------------------- *)
Lemma xnc_embed d addr : xnc (out_x (emit enc (embed d) addr)).
Proof.
  pose proof (model_meets_spec enc d addr) as M.
  destruct (emit enc (embed d) addr) as [ds bs|ds|s]; simpl.
  - destruct (errors ds); exact I.
  - exact I.
  - simpl in M. discriminate.
Qed.

Lemma nc_compile m ops addr : nc (compile_insn m ops addr).
Proof.
  destruct (lookup_pat m opcode_table) as [pat|] eqn:L.
  - eapply compile_no_crash; eauto.
  - unfold compile_insn. rewrite L. exact I.
Qed.

Lemma xnc_eval_opnd ev o : (forall e, xnc (ev e)) -> xnc (eval_opnd ev o).
Proof.
  intros H. destruct o; simpl; try exact I;
    repeat (apply xnc_bind; [apply H|intros]); exact I.
Qed.

Lemma xnc_emit_leaf ev addr s : (forall e, xnc (ev e)) -> xnc (emit_leaf enc ev addr s).
Proof.
  intros H. destruct s; simpl; try exact I.
  - apply xnc_bind; [apply xnc_xmapM; intros; apply xnc_eval_opnd; exact H|]. intros os.
    apply xnc_bind; [apply xnc_lift, nc_compile|]. intros; exact I.
  - apply xnc_bind; [apply xnc_xmapM; exact H|]. intros vs. apply (xnc_embed (SData W8 vs) addr).
  - apply xnc_bind; [apply xnc_xmapM; exact H|]. intros vs. apply (xnc_embed (SData W16 vs) addr).
  - apply xnc_bind; [apply xnc_xmapM; exact H|]. intros vs. apply (xnc_embed (SData W32 vs) addr).
  - apply xnc_bind; [apply xnc_xmapM; exact H|]. intros vs. apply (xnc_embed (SWords vs) addr).
  - apply xnc_bind; [apply H|]. intros v. apply (xnc_embed (SBlkb v) addr).
  - apply xnc_bind; [apply H|]. intros v. apply (xnc_embed (SBlkw v) addr).
  - apply (xnc_embed SEven addr).
  - apply (xnc_embed SOdd addr).
  - apply xnc_bind; [apply H|]. intros v. apply (xnc_embed (SAlign v) addr).
  - apply xnc_bind; [apply xnc_xmapM; intros [s|e]; simpl; [exact I|apply xnc_bind; [apply H|intros; exact I]]|].
    intros ch. apply (xnc_embed (SAscii z ch) addr).
  - apply xnc_bind; [apply xnc_xmapM; intros [s|e]; simpl; [exact I|apply xnc_bind; [apply H|intros; exact I]]|].
    intros ch. unfold rad50_ascii. destruct (rad50_never_crashes ch) as [[bs [E _]]|[ids [E _]]]; rewrite E; exact I.
  - apply xnc_bind; [apply H|]. intros v. apply xnc_bind; [apply xnc_lift, nc_gai16|]. intros nw.
    destruct (nw - addr <? 0); exact I.
Qed.

Lemma xnc_insn_size m ops : xnc (insn_size m ops).
Proof.
  unfold insn_size. destruct (lookup_pat m opcode_table) as [pat|] eqn:L; [|exact I].
  apply lookup_pat_In in L. destruct (table_wf _ _ L) as [i [E _]]. rewrite E. simpl.
  destruct (negb _); exact I.
Qed.

Lemma xnc_sized s r : sized_size s = Some r -> xnc r.
Proof.
  destruct s; simpl; intros H; inversion H; subst; try apply xnc_insn_size; unfold data_size.
  - change ".byte" with (vname W8). change (Asm.plain ?x) with (DirectivesData.plain x). rewrite announced_value. exact I.
  - change ".word" with (vname W16). change (Asm.plain ?x) with (DirectivesData.plain x). rewrite announced_value. exact I.
  - change ".dword" with (vname W32). change (Asm.plain ?x) with (DirectivesData.plain x). rewrite announced_value. exact I.
  - exact I.
Qed.

(* ---- layout ---------------------------------------------------------------------------------- *)
Section Lay.
Variable alldefs : list defn.
Variable allkeys : list key.
Variable exports : list (string * nat).
Let fuel := S (length alldefs).

Lemma xnc_lev st sc e : xnc (lev enc alldefs allkeys exports fuel st sc e).
Proof. unfold lev. apply xnc_xev. unfold fuel. split; [constructor|]. split; [intros x []|]. simpl. lia. Qed.

Lemma xnc_lay_leaf inrep s st : xnc (lay_leaf enc alldefs allkeys exports fuel inrep s st).
Proof.
  unfold lay_leaf.
  assert (G : forall sc s0, xnc (xbind (emit_leaf enc (lev enc alldefs allkeys exports fuel st sc) (l_addr st) s0)
                                        (fun bs => XOk (put st sc s0 (zlen bs))))).
  { intros sc s0. apply xnc_bind; [apply xnc_emit_leaf; intros; apply xnc_lev|intros; exact I]. }
  destruct s; cbv zeta; cbn [sized_size]; try exact I;
    try (match goal with |- xnc (xbind ?r _) => apply xnc_bind; [first [apply xnc_insn_size | apply (xnc_sized (Byte es) r eq_refl) | apply (xnc_sized (Word es) r eq_refl) | apply (xnc_sized (Dword es) r eq_refl) | apply (xnc_sized (WordList es) r eq_refl)] | intros; exact I] end);
    try apply G;
    try (destruct inrep; try exact I; repeat match goal with |- context[if ?c then _ else _] => destruct c end; exact I).
  - destruct (l_inc st); [exact I|]. destruct (l_based st); [apply G|]. destruct inrep; exact I.
Qed.

Definition stmt_nc (s : stmt) : Prop := forall inrep st, xnc (lay_stmt enc alldefs allkeys exports fuel inrep s st).

Lemma xnc_lay_list l : Forall stmt_nc l -> forall inrep st, xnc (lay_list enc alldefs allkeys exports fuel inrep l st).
Proof.
  induction 1 as [|x r Hx _ IH]; intros inrep st; simpl; [exact I|].
  apply xnc_bind; [apply Hx|]. intros a. apply xnc_bind; [apply IH|intros; exact I].
Qed.

Lemma xnc_iter n f : (forall st, xnc (f st)) -> forall st, xnc (iter_x n f st).
Proof.
  intros H. induction n; intros st; simpl; [exact I|]. apply xnc_bind; [apply H|]. intros r.
  apply xnc_bind; [apply IHn|intros; exact I].
Qed.

Lemma xnc_lay_stmt s : stmt_nc s.
Proof.
  induction s as [ce body IH | own fid body IH | s Hs] using stmt_ind2; intros inrep st.
  - rewrite lay_stmt_repeat. apply xnc_bind; [apply xnc_lev|]. intros n.
    apply xnc_bind; [apply xnc_lift, nc_gai_count|]. intros n'. destruct (65536 <? n'); [exact I|].
    apply xnc_iter. intros st0. apply xnc_lay_list. exact IH.
  - destruct inrep; [exact I|]. rewrite lay_stmt_include. apply xnc_bind; [|intros; exact I].
    apply xnc_lay_list. apply Forall_cut_end. exact IH.
  - rewrite lay_stmt_leaf by exact Hs. apply xnc_lay_leaf.
Qed.

Lemma xnc_find_base q : xnc (find_base enc alldefs allkeys exports fuel q).
Proof.
  unfold find_base. destruct (first_base 0 q) as [[f0 e0]|]; [|exact I].
  apply xnc_bind; [apply xnc_xev; unfold fuel; split; [constructor|]; split; [intros x []|]; simpl; lia|]. intros; apply xnc_lift, nc_gai16.
Qed.

Lemma xnc_def_values labels ddots : xnc (def_values enc alldefs allkeys exports fuel labels ddots).
Proof.
  unfold def_values. apply xnc_xmapM_in. intros d Hd. apply xnc_bind; [|intros; exact I].
  apply xnc_xev. split; [constructor; [intros []|constructor]|]. split.
  - intros x [<-|[]]. apply (in_map dkey) in Hd. exact Hd.
  - unfold fuel. simpl. lia.
Qed.
End Lay.

Theorem no_crash_thm p : xnc (assemble_full enc p).
Proof.
  unfold assemble_full.
  match goal with |- context[if ?c then _ else _] => destruct c end; [exact I|].
  match goal with |- context[if ?c then _ else _] => destruct c end; [exact I|].
  apply xnc_bind; [apply xnc_find_base|]. intros base.
  apply xnc_bind; [apply xnc_lay_list; apply Forall_forall; intros x _; apply xnc_lay_stmt|]. intros st.
  apply xnc_bind; [apply xnc_def_values|]. intros dv.
  apply xnc_bind.
  - apply xnc_xmapM. intros it. unfold emit_item. apply xnc_emit_leaf. intros e. unfold fev. apply xnc_lift, nc_eval.
  - intros chunks. match goal with |- context[if ?c then _ else _] => destruct c end; exact I.
Qed.

Corollary no_crash_assemble p : xnc (assemble enc p).
Proof. unfold assemble. apply xnc_bind; [apply no_crash_thm|intros; exact I]. Qed.

Theorem no_crash_both p : (forall s, assemble enc p <> XCrash s) /\ assemble enc p <> XOutOfFuel.
Proof. pose proof (no_crash_assemble p) as H. split; [intros s E|intros E]; rewrite E in H; exact H. Qed.

Theorem image_thm p f : assemble_full enc p = XOk f ->
  assemble enc p = XOk (f_base f, concat (f_chunks f), f_syms f).
Proof. intros H. unfold assemble. rewrite H. reflexivity. Qed.

Theorem guard_thm p f : assemble_full enc p = XOk f -> forallb size_ok (combine (f_items f) (f_chunks f)) = true.
Proof. intros H. destruct (assemble_full_inv _ _ _ H) as [st [dv [_ [_ [_ [_ [_ [_ G]]]]]]]]. exact G. Qed.

End Total.
