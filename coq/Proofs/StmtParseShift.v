(* P -- position independence of the parser model: no decision of the parser depends on the absolute position, so
   running any parser function k characters further to the right (same remaining text, every saved context moved by
   k, every diagnostic so far moved by k) gives exactly the same outcome moved by k.  Equalities, proved function by
   function by rewriting; corollary: blank material in front of a file does not change the tree (up to the shift). *)
From Coq Require Import String Ascii List ZArith NArith Bool Lia Arith.
From Verif Require Import Gen.GenParserTables Gen.GenRadix50 Model.SkipWs Model.StmtParse Model.StmtParseOffsets
                          Proofs.StmtParseSpell.
Import ListNotations.
Open Scope N_scope.

Section Shift.
Variable k : N.

Notation shc := (shift_ctx k).
Definition sd (d : list diag) : list diag := map (shift_diag k) d.
Definition so {A} (sa : A -> A) (o : out A) : out A :=
  match o with
  | Ok a c d => Ok (sa a) (shc c) (sd d)
  | Fail c d => Fail (shc c) (sd d)
  | Crit d => Crit (sd d)
  | Crash s => Crash s
  | OutOfFuel => OutOfFuel
  end.
Definition idf {A} (x : A) : A := x.
Notation shn := (shift_node k).
Definition shs (l : list span) : list span := map (shift_span k) l.

Lemma shc_rest c : rest (shc c) = rest c. Proof. reflexivity. Qed.
Lemma shc_pos c : pos (shc c) = pos c + k. Proof. reflexivity. Qed.
Lemma shc_eq p r q : q = p + k -> mkCtx q r = shc (mkCtx p r).
Proof. intros ->. reflexivity. Qed.
Ltac ceq := unfold shift_ctx; simpl; f_equal; lia.

(* ---- combinators ----------------------------------------------------------------------------------------- *)
Lemma bind_pi {A B} (sa : A -> A) (sb : B -> B) (p1 p2 : parser A) (f1 f2 : A -> parser B) c d :
  p2 (shc c) (sd d) = so sa (p1 c d) ->
  (forall a c1 d1, f2 (sa a) (shc c1) (sd d1) = so sb (f1 a c1 d1)) ->
  bind p2 f2 (shc c) (sd d) = so sb (bind p1 f1 c d).
Proof. intros H1 H2. unfold bind. rewrite H1. destruct (p1 c d); simpl; auto. Qed.
Lemma ret_pi {A} (sa : A -> A) a c d : ret (sa a) (shc c) (sd d) = so sa (ret a c d).
Proof. reflexivity. Qed.
Lemma fail_pi {A} (sa : A -> A) c d : @fail A (shc c) (sd d) = so sa (fail c d).
Proof. reflexivity. Qed.
Lemma crash_pi {A} (sa : A -> A) s c d : @crash A s (shc c) (sd d) = so sa (crash s c d).
Proof. reflexivity. Qed.
Lemma oof_pi {A} (sa : A -> A) c d : @out_of_fuel A (shc c) (sd d) = so sa (out_of_fuel c d).
Proof. reflexivity. Qed.
Lemma get_pi c d : get (shc c) (sd d) = so shc (get c d).
Proof. reflexivity. Qed.
Lemma set_pi c0 c d : set_ctx (shc c0) (shc c) (sd d) = so idf (set_ctx c0 c d).
Proof. reflexivity. Qed.
Lemma emit_pi sv id spans c d : emit sv id (shs spans) (shc c) (sd d) = so idf (emit sv id spans c d).
Proof. reflexivity. Qed.
Lemma critical_pi {A} (sa : A -> A) id spans c d : @critical A id (shs spans) (shc c) (sd d) = so sa (critical id spans c d).
Proof. reflexivity. Qed.
Lemma maybe_pi {A} (sa : A -> A) (p1 p2 : parser A) c d :
  p2 (shc c) (sd d) = so sa (p1 c d) -> maybe p2 (shc c) (sd d) = so (option_map sa) (maybe p1 c d).
Proof. intros H. unfold maybe. rewrite H. destruct (p1 c d); reflexivity. Qed.
Lemma look_pi {A} (sa : A -> A) (p1 p2 : parser A) c d :
  p2 (shc c) (sd d) = so sa (p1 c d) -> look p2 (shc c) (sd d) = so (option_map sa) (look p1 c d).
Proof. intros H. unfold look. rewrite H. destruct (p1 c d); reflexivity. Qed.
Lemma not_pi {A} (sa : A -> A) (p1 p2 : parser A) c d :
  p2 (shc c) (sd d) = so sa (p1 c d) -> not_p p2 (shc c) (sd d) = so idf (not_p p1 c d).
Proof. intros H. unfold not_p, bind, maybe. rewrite H. destruct (p1 c d); reflexivity. Qed.
Lemma por_pi {A} (sa : A -> A) (p1 p2 q1 q2 : parser A) c d :
  p2 (shc c) (sd d) = so sa (p1 c d) -> (forall d', q2 (shc c) (sd d') = so sa (q1 c d')) ->
  por p2 q2 (shc c) (sd d) = so sa (por p1 q1 c d).
Proof. intros H1 H2. unfold por, bind, maybe. rewrite H1. destruct (p1 c d); simpl; auto. Qed.
Lemma or_critical_pi {A} (sa : A -> A) (p1 p2 : parser A) id sp1 sp2 c d :
  p2 (shc c) (sd d) = so sa (p1 c d) -> (forall cl, sp2 (shc cl) = shs (sp1 cl)) ->
  or_critical p2 id sp2 (shc c) (sd d) = so sa (or_critical p1 id sp1 c d).
Proof. intros H1 H2. unfold or_critical. rewrite H1. destruct (p1 c d); simpl; auto. rewrite H2. reflexivity. Qed.
Lemma or_error_pi {A} (sa : A -> A) (p1 p2 : parser A) id sp1 sp2 c d :
  p2 (shc c) (sd d) = so sa (p1 c d) -> (forall cl, sp2 (shc cl) = shs (sp1 cl)) ->
  or_error p2 id sp2 (shc c) (sd d) = so (option_map sa) (or_error p1 id sp1 c d).
Proof. intros H1 H2. unfold or_error. rewrite H1. destruct (p1 c d); simpl; auto. rewrite H2. reflexivity. Qed.
Lemma on_copy_pi {A} (sa : A -> A) (p1 p2 : parser A) c0 c d :
  p2 (shc c0) (sd d) = so sa (p1 c0 d) ->
  on_copy (shc c0) p2 (shc c) (sd d) = so (fun r => (sa (fst r), shc (snd r))) (on_copy c0 p1 c d).
Proof. intros H. unfold on_copy. rewrite H. destruct (p1 c0 d); reflexivity. Qed.
Lemma when_pi b p1 p2 c d :
  (b = true -> p2 (shc c) (sd d) = so idf (p1 c d)) -> when b p2 (shc c) (sd d) = so idf (when b p1 c d).
Proof. destruct b; simpl; auto. Qed.
Lemma u_pi {A} (sa : A -> A) (p1 p2 : parser A) c d :
  p2 (shc c) (sd d) = so sa (p1 c d) -> u p2 (shc c) (sd d) = so idf (u p1 c d).
Proof. intros H. unfold u, bind. rewrite H. destruct (p1 c d); reflexivity. Qed.

(* ---- primitives ------------------------------------------------------------------------------------------- *)
Lemma skip_ctx_pi c : skip_ctx (shc c) = shc (skip_ctx c).
Proof. unfold skip_ctx. simpl. destruct (skip_cnt false (rest c) 0) as [r n]. ceq. Qed.
Lemma skip_pi c d : skip_ws (shc c) (sd d) = so idf (skip_ws c d).
Proof. unfold skip_ws. rewrite skip_ctx_pi. reflexivity. Qed.
Lemma after_skip_pi {A} (sa : A -> A) (p : parser A) c d :
  (forall c0, p (shc c0) (sd d) = so sa (p c0 d)) -> (skip_ws ;;; p) (shc c) (sd d) = so sa ((skip_ws ;;; p) c d).
Proof. intros H. unfold bind, skip_ws. rewrite skip_ctx_pi. apply H. Qed.
Lemma literal_ns_pi lit c d : literal_ns lit (shc c) (sd d) = so idf (literal_ns lit c d).
Proof. unfold literal_ns. simpl. destruct (lit_match lit (rest c)); simpl; auto. f_equal. ceq. Qed.
Lemma literal_pi lit c d : literal lit (shc c) (sd d) = so idf (literal lit c d).
Proof. apply after_skip_pi. intros; apply literal_ns_pi. Qed.
Lemma regex_id_ns_pi f m c d : regex_id_ns f m (shc c) (sd d) = so idf (regex_id_ns f m c d).
Proof.
  unfold regex_id_ns. simpl. destruct (rest c) as [|x r]; auto. destruct (f x); auto.
  destruct (span_n m r 0) as [[a b] n]. simpl. f_equal. ceq.
Qed.
Lemma regex_id_pi f m c d : (skip_ws ;;; regex_id_ns f m) (shc c) (sd d) = so idf ((skip_ws ;;; regex_id_ns f m) c d).
Proof. apply after_skip_pi. intros; apply regex_id_ns_pi. Qed.
Lemma one_of_ns_pi p c d : one_of_ns p (shc c) (sd d) = so idf (one_of_ns p c d).
Proof. unfold one_of_ns. simpl. destruct (rest c) as [|x r]; auto. destruct (p x); auto. simpl. f_equal. ceq. Qed.
Lemma string_quote_pi c d : string_quote (shc c) (sd d) = so idf (string_quote c d).
Proof. apply after_skip_pi. intros; apply one_of_ns_pi. Qed.
Lemma caret_parenthesis_pi c d : caret_parenthesis (shc c) (sd d) = so idf (caret_parenthesis c d).
Proof.
  apply after_skip_pi. intros c0. simpl. destruct (rest c0) as [|a [|x r]]; auto.
  destruct ((a =? 94) && caret_paren_char x); auto. simpl. f_equal. ceq.
Qed.
Lemma caret_nonspace_pi c d : caret_nonspace (shc c) (sd d) = so idf (caret_nonspace c d).
Proof.
  apply after_skip_pi. intros c0. simpl. destruct (rest c0) as [|a [|x r]]; auto.
  destruct ((a =? 94) && negb (is_ascii_space x)); auto. simpl. f_equal. ceq.
Qed.
Lemma hex2_pi c d : hex2 (shc c) (sd d) = so idf (hex2 c d).
Proof.
  apply after_skip_pi. intros c0. simpl. destruct (rest c0) as [|a [|x r]]; auto.
  destruct (is_hex a && is_hex x); auto. simpl. f_equal. ceq.
Qed.
Lemma instruction_name_pi c d : instruction_name (shc c) (sd d) = so idf (instruction_name c d).
Proof.
  apply after_skip_pi. intros c0. simpl. destruct (rest c0) as [|x r]; auto.
  destruct (is_insn_start x).
  - destruct (span_n is_word r 0) as [[a b] n]. simpl. f_equal. ceq.
  - destruct (x =? 46); auto. destruct r as [|y r2]; auto. destruct (is_insn_start y); auto.
    destruct (span_n is_word r2 0) as [[a b] n]. simpl. f_equal. ceq.
Qed.
Lemma eof_pi c d : eof (shc c) (sd d) = so idf (eof c d).
Proof. apply after_skip_pi. intros c0. simpl. destruct (rest c0); auto. Qed.
Lemma newline_pi c d : newline (shc c) (sd d) = so idf (newline c d).
Proof.
  unfold newline. simpl. destruct (ws_run (rest c) 0 None) as [[r n] last].
  destruct last as [[r2 n2]|].
  - destruct r; simpl; f_equal; ceq.
  - destruct r as [|a r']; auto. destruct (a =? 59); auto.
    destruct (until_nl r' (n + 1)) as [r'' n'']. simpl. f_equal. ceq.
Qed.
Lemma caret_digits_pi base c d : caret_digits base (shc c) (sd d) = so idf (caret_digits base c d).
Proof.
  unfold caret_digits. simpl. destruct (span_n (valid_digit base) (rest c) 0) as [[m r] n].
  destruct m; auto. destruct r as [|x r]; [simpl; f_equal; ceq|].
  destruct ((x =? 36) || (x =? 46) || is_word x); auto. simpl. f_equal. ceq.
Qed.
Lemma either_lit_pi t c d : either_lit t (shc c) (sd d) = so idf (either_lit t c d).
Proof.
  revert c d. induction t as [|o t IH]; intros c d; simpl; auto.
  apply (bind_pi (option_map idf) idf). { apply maybe_pi, literal_pi. }
  intros [a|] c1 d1; simpl; [reflexivity | apply IH].
Qed.
Lemma term_p_pi t c d : term_p t (shc c) (sd d) = so idf (term_p t c d).
Proof.
  revert c d; induction t as [|x t IH]; intros c d; simpl; auto.
  apply por_pi; auto. intros; apply literal_pi.
Qed.
Lemma not_term_pi t c d : not_p (term_p t) (shc c) (sd d) = so idf (not_p (term_p t) c d).
Proof. eapply not_pi. apply term_p_pi. Qed.
Lemma not_term_colon_pi t c d : not_term_colon t (shc c) (sd d) = so idf (not_term_colon t c d).
Proof.
  unfold not_term_colon. apply (bind_pi idf idf). { apply not_term_pi. }
  intros a c1 d1. apply (bind_pi idf idf). { apply literal_pi. }
  intros; reflexivity.
Qed.
(* ---- tactics ------------------------------------------------------------------------------------------------ *)
Ltac prim :=
  first [ reflexivity | apply get_pi | apply skip_pi | apply literal_pi | apply literal_ns_pi | apply regex_id_pi
        | apply regex_id_ns_pi | apply one_of_ns_pi | apply string_quote_pi | apply caret_parenthesis_pi
        | apply caret_nonspace_pi | apply hex2_pi | apply instruction_name_pi | apply eof_pi | apply newline_pi
        | apply either_lit_pi | apply not_term_pi | apply not_term_colon_pi | apply term_p_pi ].
Tactic Notation "pb" open_constr(sa) "by" tactic3(tac) "as" simple_intropattern(a) simple_intropattern(c) simple_intropattern(d) :=
  eapply (bind_pi sa); [ tac | intros a c d; cbv beta ].
Ltac pget cs c1 d1 := eapply (bind_pi shc); [ apply get_pi | intros cs c1 d1; cbv beta ].
Ltac punit c1 d1 := eapply (bind_pi idf); [ prim | intros _ c1 d1; cbv beta ].

(* ---- leaves ---------------------------------------------------------------------------------------------------- *)
Lemma number_caret_pi neg cs forms (k1 k2 : parser node) :
  (forall c d, k2 (shc c) (sd d) = so shn (k1 c d)) ->
  forall c d, number_caret neg (shc cs) forms k2 (shc c) (sd d) = so shn (number_caret neg cs forms k1 c d).
Proof.
  intros Hk. induction forms as [|[[pl pr] base] fr IH]; intros c d; simpl; auto.
  pb (option_map idf) by (apply maybe_pi, literal_pi) as m c1 d1.
  destruct m as [a|]; simpl; [|apply IH].
  pb idf by (apply or_critical_pi; [apply caret_digits_pi | reflexivity]) as num c2 d2.
  pget ce c3 d3. unfold idf. destruct (int_digits base num 0); reflexivity.
Qed.

Lemma number_plain_pi t neg cs c d :
  number_plain t neg (shc cs) (shc c) (sd d) = so shn (number_plain t neg cs c d).
Proof.
  unfold number_plain.
  pb idf by prim as num c1 d1.
  pb (option_map idf) by (apply maybe_pi, not_term_colon_pi) as mc c2 d2.
  unfold idf. destruct mc as [u0|]; simpl; [reflexivity|].
  destruct (rev num) as [|lastc rnum]; [reflexivity|]. cbv zeta.
  set (num' := if lastc =? 46 then rev rnum else num).
  destruct (existsb (fun c0 : N => (c0 =? 36) || (c0 =? 95) || (c0 =? 46)) num'); [reflexivity|].
  destruct (all_digits num').
  - destruct (int_digits 10 num' 0); [|reflexivity].
    destruct (lastc =? 46). { pget ce c3 d3. reflexivity. }
    destruct (existsb (fun c0 : N => (c0 =? 56) || (c0 =? 57)) num').
    { destruct neg.
      - pget cl c3 d3. pb idf by reflexivity as u1 c4 d4. reflexivity.
      - pget ce c3 d3. reflexivity. }
    destruct (int_digits 8 num' 0); [|reflexivity]. pget ce c3 d3. reflexivity.
  - destruct num' as [|z [|l digits]]; [reflexivity | reflexivity |].
    destruct ((z =? 48) && is_alpha l); [|reflexivity].
    destruct (if lower l =? 120 then Some 16 else if lower l =? 111 then Some 8 else if lower l =? 98 then Some 2 else None) as [b|]; [|reflexivity].
    destruct (py_int b digits); [|reflexivity]. pget ce c3 d3. reflexivity.
Qed.

Lemma number_pi t c d : number t (shc c) (sd d) = so shn (number t c d).
Proof.
  unfold number.
  pb (option_map idf) by (apply maybe_pi; unfold minus; apply literal_pi) as neg c1 d1.
  punit c2 d2. pget cs c3 d3.
  replace (is_some (option_map idf neg)) with (is_some neg) by (destruct neg; reflexivity).
  apply number_caret_pi. intros; apply number_plain_pi.
Qed.

Lemma radix50_literal_pi c d : radix50_literal (shc c) (sd d) = so shn (radix50_literal c d).
Proof.
  unfold radix50_literal.
  punit c1 d1. pget cs c2 d2.
  pb idf by prim as l c3 d3.
  pb (option_map idf) by (apply or_error_pi; [unfold radix50_chars; apply regex_id_ns_pi | reflexivity]) as str c4 d4.
  pget cl c5 d5.
  replace (match option_map idf str with Some s0 => s0 | None => [] end) with (match str with Some s0 => s0 | None => [] end) by (destruct str; reflexivity).
  pb idf by (apply when_pi; intros; reflexivity) as u2 c6 d6.
  destruct (pack_to_int _); reflexivity.
Qed.

Lemma label_pi c d : label (shc c) (sd d) = so shn (label c d).
Proof.
  unfold label.
  punit c1 d1. pget cs c2 d2.
  pb idf by (unfold label_name; prim) as name c3 d3.
  pb idf by (unfold colon; prim) as l c4 d4.
  pb (option_map idf) by (apply maybe_pi, literal_ns_pi) as ext c5 d5.
  pget cl c6 d6. unfold idf.
  pb idf by (destruct (in_builtin name); [reflexivity | destruct (is_register_name name); reflexivity]) as u3 c7 d7.
  destruct name as [|c0 nm]; [reflexivity|].
  replace (is_some (option_map (fun x : list N => x) ext)) with (is_some ext) by (destruct ext; reflexivity).
  destruct (is_digit c0 && is_some ext).
  - pb idf by reflexivity as u4 c8 d8. reflexivity.
  - reflexivity.
Qed.

Lemma instruction_pointer_pi c d : instruction_pointer (shc c) (sd d) = so shn (instruction_pointer c d).
Proof.
  unfold instruction_pointer.
  punit c1 d1. pget cs c2 d2.
  eapply (bind_pi idf).
  - apply after_skip_pi. intros c0. simpl. destruct (rest c0) as [|a r]; auto.
    destruct (a =? 46); auto. destruct r as [|x r']; [simpl; f_equal; unfold shift_ctx; simpl; f_equal; lia|].
    destruct (is_word x); auto. simpl. f_equal. unfold shift_ctx; simpl; f_equal; lia.
  - intros u2 c3 d3. cbv beta. pget ce c4 d4. reflexivity.
Qed.

Lemma symbol_expression_pi t c d : symbol_expression t (shc c) (sd d) = so shn (symbol_expression t c d).
Proof.
  unfold symbol_expression.
  punit c1 d1. pget cs c2 d2.
  pb idf by (unfold symbol_literal; prim) as name c3 d3.
  pb (option_map idf) by (apply maybe_pi, not_term_colon_pi) as hc c4 d4.
  pget cl c5 d5. unfold idf.
  replace (is_some (option_map (fun x : unit => x) hc)) with (is_some hc) by (destruct hc; reflexivity).
  pb idf by (apply when_pi; intros; reflexivity) as u2 c6 d6. reflexivity.
Qed.

Lemma local_symbol_expression_pi t c d : local_symbol_expression t (shc c) (sd d) = so shn (local_symbol_expression t c d).
Proof.
  unfold local_symbol_expression.
  punit c1 d1. pget cs c2 d2.
  pb idf by (unfold local_symbol_literal; prim) as name c3 d3. unfold idf.
  eapply (bind_pi idf).
  - destruct (all_digits name).
    + pb idf by prim as u2 c4 d4. reflexivity.
    + pb (option_map idf) by (apply maybe_pi, not_term_colon_pi) as m c4 d4. destruct m; reflexivity.
  - intros hc c5 d5. cbv beta. pget ce c6 d6. reflexivity.
Qed.

Lemma string_escape_pi c d : string_escape (shc c) (sd d) = so idf (string_escape c d).
Proof.
  unfold string_escape.
  pget cs c1 d1.
  pb idf by (unfold string_backslash; prim) as l c2 d2.
  pb (option_map idf) by (apply or_error_pi; [unfold character; apply one_of_ns_pi | reflexivity]) as ch c3 d3.
  destruct ch as [[|ch0 chr]|]; simpl; [reflexivity | | reflexivity]. unfold idf. cbv zeta.
  set (ch := if ch0 <? 128 then lower ch0 else ch0).
  destruct (ch =? 110); [reflexivity|]. destruct (ch =? 114); [reflexivity|]. destruct (ch =? 116); [reflexivity|].
  destruct ((ch =? 92) || (ch =? 34) || (ch =? 39) || (ch =? 47)); [reflexivity|].
  destruct (ch =? 10); [reflexivity|].
  destruct (ch =? 120).
  - pb (option_map idf) by (apply or_error_pi; [apply hex2_pi | reflexivity]) as num c4 d4.
    destruct num as [num|]; simpl; [|reflexivity]. unfold idf. destruct (int_digits 16 num 0); reflexivity.
  - pget cl c4 d4. pb idf by reflexivity as u1 c5 d5. reflexivity.
Qed.
Lemma string_char_pi c d : string_char (shc c) (sd d) = so idf (string_char c d).
Proof. unfold string_char. apply por_pi; [apply string_escape_pi | intros; unfold character; apply one_of_ns_pi]. Qed.

Lemma at_line_end_pi c : at_line_end (shc c) = at_line_end c. Proof. reflexivity. Qed.

Lemma single_quoted_literal_pi c d : single_quoted_literal (shc c) (sd d) = so shn (single_quoted_literal c d).
Proof.
  unfold single_quoted_literal.
  punit c1 d1. pget cs c2 d2.
  pb idf by (unfold single_quote; prim) as l c3 d3.
  pget c1' c4 d4. rewrite at_line_end_pi.
  pb idf by (destruct (at_line_end c1'); reflexivity) as u2 c5 d5.
  rewrite shc_rest.
  pb idf by (destruct (rest c1') as [|x r]; [reflexivity | destruct (x =? 39); [reflexivity | apply string_char_pi]]) as value c6 d6.
  pget c2' c7 d7. rewrite shc_rest. unfold idf.
  destruct (match rest c2' with x0 :: _ => x0 =? 39 | [] => false end).
  - pb idf by (unfold single_quote; prim) as l2 c8 d8.
    pget cl c9 d9.
    pb idf by (destruct (length value <=? 1)%nat; reflexivity) as u3 c10 d10. reflexivity.
  - reflexivity.
Qed.

Lemma dq_step_pi cs value c d : dq_step (shc cs) value (shc c) (sd d) = so idf (dq_step cs value c d).
Proof.
  unfold dq_step.
  pget c1' c1 d1. rewrite at_line_end_pi.
  pb idf by (destruct (at_line_end c1'); reflexivity) as u2 c5 d5.
  rewrite shc_rest. destruct (rest c1') as [|x r]; [reflexivity|]. destruct (x =? 34); [reflexivity|].
  pb idf by (apply string_char_pi) as v c6 d6. reflexivity.
Qed.

Lemma double_quoted_literal_pi c d : double_quoted_literal (shc c) (sd d) = so shn (double_quoted_literal c d).
Proof.
  unfold double_quoted_literal.
  punit c1 d1. pget cs c2 d2.
  pb idf by (unfold double_quote; prim) as l c3 d3.
  pb idf by (apply dq_step_pi) as v1 c4 d4.
  pb idf by (apply dq_step_pi) as value c5 d5.
  pget c2' c7 d7. rewrite shc_rest. unfold idf.
  destruct (match rest c2' with x0 :: _ => x0 =? 34 | [] => false end).
  - pb idf by (unfold double_quote; prim) as l2 c8 d8.
    pget cl c9 d9.
    pb idf by (destruct (length value <=? 2)%nat; reflexivity) as u3 c10 d10. reflexivity.
  - reflexivity.
Qed.

Lemma quoted_loop_pi fuel quote value c d :
  quoted_loop fuel quote value (shc c) (sd d) = so idf (quoted_loop fuel quote value c d).
Proof.
  revert value c d. induction fuel as [|f IH]; intros value c d; [reflexivity|]. simpl.
  pget c0 c1 d1. rewrite shc_rest.
  destruct (rest c0) as [|x r]; [reflexivity|]. destruct (x =? quote); [reflexivity|].
  pb idf by (apply string_char_pi) as v c2 d2. apply IH.
Qed.

Lemma quoted_string_pi fuel c d : quoted_string fuel (shc c) (sd d) = so shn (quoted_string fuel c d).
Proof.
  unfold quoted_string.
  punit c1 d1. pget cs c2 d2.
  pb idf by prim as quote c3 d3. unfold idf.
  destruct quote as [|q qs]; [reflexivity|].
  pb idf by (apply quoted_loop_pi) as value c4 d4.
  pget c1' c5 d5. rewrite shc_rest.
  destruct (rest c1') as [|y r]; [reflexivity|].
  replace {| pos := pos (shc c1') + 1; rest := r |} with (shc {| pos := pos c1' + 1; rest := r |}) by (unfold shift_ctx; simpl; f_equal; lia).
  pb idf by (apply set_pi) as u2 c6 d6.
  simpl. unfold ret, idf. simpl. do 2 f_equal. lia.
Qed.

Lemma expression_literal_pi t c d : expression_literal t (shc c) (sd d) = so shn (expression_literal t c d).
Proof.
  unfold expression_literal.
  pb (option_map shn) by (apply maybe_pi, symbol_expression_pi) as m1 c1 d1.
  destruct m1 as [e|]; simpl; [reflexivity|].
  pb (option_map shn) by (apply maybe_pi, radix50_literal_pi) as m2 c2 d2.
  destruct m2 as [e|]; simpl; [reflexivity|].
  pb (option_map shn) by (apply maybe_pi, por_pi; [apply number_pi | intros; apply local_symbol_expression_pi]) as m3 c3 d3.
  destruct m3 as [e|]; simpl; [reflexivity|].
  apply por_pi; [apply por_pi; [apply single_quoted_literal_pi | intros; apply double_quoted_literal_pi] | intros; apply instruction_pointer_pi].
Qed.
(* ---- lists of nodes, operator stacks ------------------------------------------------------------------------- *)
Definition shl (l : list node) : list node := map shn l.
Definition sho (x : opent) : opent := match x with OPre s o => OPre (s + k) o | OIn o => OIn o end.
Definition shos (l : list opent) : list opent := map sho l.

Lemma shn_go l : (fix go (l : list node) : list node := match l with [] => [] | x :: r => shn x :: go r end) l = shl l.
Proof. induction l; simpl; auto; try (f_equal; auto). Qed.
Lemma node_start_shn n : node_start (shn n) = node_start n + k.
Proof. destruct n; reflexivity. Qed.
Lemma shl_rev l : shl (rev l) = rev (shl l).
Proof. unfold shl. apply map_rev. Qed.
Lemma shn_concat s e l : shn (Concat s e l) = Concat (s + k) (e + k) (shl l).
Proof. simpl. rewrite shn_go. reflexivity. Qed.
Lemma shn_words s e l : shn (Words s e l) = Words (s + k) (e + k) (shl l).
Proof. simpl. rewrite shn_go. reflexivity. Qed.
Lemma shn_insn s e nm l : shn (Insn s e nm l) = Insn (s + k) (e + k) (shn nm) (shl l).
Proof. simpl. rewrite shn_go. reflexivity. Qed.
Lemma shn_block s e b l : shn (Block s e b l) = Block (s + k) (e + k) (match b with Some p => Some (p + k) | None => None end) (shl l).
Proof. simpl. rewrite shn_go. reflexivity. Qed.

Definition shp (p : list opent * list node) := (shos (fst p), shl (snd p)).
Lemma pop_op_pi e ops st : pop_op (e + k) (shos ops) (shl st) = option_map shp (pop_op e ops st).
Proof.
  unfold pop_op. destruct ops as [|[s o|o] ops']; simpl; auto.
  - destruct st as [|x st']; simpl; auto.
  - destruct st as [|rhs [|lhs st']]; simpl; auto. rewrite node_start_shn. reflexivity.
Qed.
Arguments pop_op : simpl never.
Lemma opent_prec_sho x : opent_prec (sho x) = opent_prec x. Proof. destruct x; reflexivity. Qed.
Lemma pop_while_pi p l e ops st : pop_while p l (e + k) (shos ops) (shl st) = option_map shp (pop_while p l e ops st).
Proof.
  revert st; induction ops as [|top ops' IH]; intros st; simpl; auto.
  rewrite opent_prec_sho. destruct ((opent_prec top <? p) || (opent_prec top =? p) && l); [|reflexivity].
  change (sho top :: shos ops') with (shos (top :: ops')). rewrite pop_op_pi.
  destruct (pop_op e (top :: ops') st) as [[o2 st2]|]; simpl; auto; try apply IH.
Qed.
Lemma pop_all_pi e ops st : pop_all (e + k) (shos ops) (shl st) = option_map shl (pop_all e ops st).
Proof.
  revert st; induction ops as [|top ops' IH]; intros st; simpl; auto.
  change (sho top :: shos ops') with (shos (top :: ops')). rewrite pop_op_pi.
  destruct (pop_op e (top :: ops') st) as [[o2 st2]|]; simpl; auto; try apply IH.
Qed.
Lemma finish_expression_pi ops st c d :
  finish_expression (shos ops) (shl st) (shc c) (sd d) = so shn (finish_expression ops st c d).
Proof.
  unfold finish_expression. pget c0 c1 d1. rewrite shc_pos, pop_all_pi.
  destruct (pop_all (pos c0) ops st) as [[|x l]|]; reflexivity.
Qed.

Definition shr (r : node * list opent) := (shn (fst r), shos (snd r)).

Record funs_pi (R : funs) : Prop := mkPi {
  pi_expression : forall t c d, r_expression R t (shc c) (sd d) = so shn (r_expression R t c d);
  pi_prefix_loop : forall t cs cop ops c d,
      r_prefix_loop R t (shc cs) (shc cop) (shos ops) (shc c) (sd d) = so shr (r_prefix_loop R t cs cop ops c d);
  pi_infix_loop : forall t ops st c d, r_infix_loop R t (shos ops) (shl st) (shc c) (sd d) = so shn (r_infix_loop R t ops st c d);
  pi_elr_loop : forall t cs v c d, r_elr_loop R t (shc cs) (option_map shn v) (shc c) (sd d) = so shn (r_elr_loop R t cs v c d);
  pi_long_loop : forall cs ch c d, r_long_loop R (shc cs) (shl ch) (shc c) (sd d) = so shn (r_long_loop R cs ch c d);
  pi_operand_loop : forall nm cs can ns ops cbc c d,
      r_operand_loop R nm (shc cs) (shc can) (shn ns) (shl ops) (shc cbc) (shc c) (sd d) = so shn (r_operand_loop R nm cs can ns ops cbc c d);
  pi_words_loop : forall cs cafo ws c d, r_words_loop R (shc cs) (shc cafo) (shl ws) (shc c) (sd d) = so shn (r_words_loop R cs cafo ws c d);
  pi_code_loop : forall brk cs insns c d, r_code_loop R brk (shc cs) (shl insns) (shc c) (sd d) = so shn (r_code_loop R brk cs insns c d);
  pi_quoted : forall c d, r_quoted R (shc c) (sd d) = so shn (r_quoted R c d)
}.

Section BodiesPi.
Variable R : funs.
Hypothesis HR : funs_pi R.

Lemma opening3_pi c d : opening3 (shc c) (sd d) = so idf (opening3 c d).
Proof.
  unfold opening3. apply por_pi; [apply por_pi|]; [unfold opening_parenthesis; prim | intros; unfold opening_angle_bracket; prim | intros; prim].
Qed.

Lemma elr_loop_body_pi t cs v c d :
  elr_loop_body R t (shc cs) (option_map shn v) (shc c) (sd d) = so shn (elr_loop_body R t cs v c d).
Proof.
  unfold elr_loop_body.
  pb (option_map idf) by (destruct v; simpl; apply maybe_pi; [unfold opening_parenthesis; prim | apply opening3_pi]) as opening c1 d1.
  destruct opening as [op|]; simpl.
  2:{ destruct v; reflexivity. }
  unfold idf.
  destruct (if list_eqb op [40] then Some ([41], t) else if list_eqb op [60] then Some ([62], t)
            else match op with a :: x :: _ => if a =? 94 then Some ([x], x :: t) else None | _ => None end) as [[closing t']|]; [|reflexivity].
  pget cap c2 d2. punit c3 d3.
  pb shn by (apply or_critical_pi; [apply (pi_expression _ HR) | reflexivity]) as e c4 d4.
  punit c5 d5.
  pb idf by (apply or_critical_pi; [apply literal_pi | reflexivity]) as l c6 d6.
  pget ce c7 d7.
  rewrite <- (pi_elr_loop _ HR). f_equal. destruct v; reflexivity.
Qed.

Lemma elr_body_pi t c d : elr_body R t (shc c) (sd d) = so shn (elr_body R t c d).
Proof.
  unfold elr_body. punit c1 d1. pget cs c2 d2.
  pb (option_map idf) by (apply look_pi, opening3_pi) as m c3 d3.
  destruct m as [a|]; simpl.
  - apply (pi_elr_loop _ HR _ _ None).
  - pb shn by (apply expression_literal_pi) as v c4 d4. apply (pi_elr_loop _ HR _ _ (Some v)).
Qed.

Lemma prefix_loop_body_pi t cs cop ops c d :
  prefix_loop_body R t (shc cs) (shc cop) (shos ops) (shc c) (sd d) = so shr (prefix_loop_body R t cs cop ops c d).
Proof.
  unfold prefix_loop_body.
  pb (option_map shn) by (apply maybe_pi, elr_body_pi) as m c1 d1.
  destruct m as [e|]; simpl; [reflexivity|]. cbv zeta.
  pb idf by (destruct ops; simpl; [apply not_term_pi | apply or_critical_pi; [apply not_term_pi | reflexivity]]) as u1 c2 d2.
  pb (option_map idf) by (apply maybe_pi; unfold prefix_operator; prim) as ch c3 d3.
  destruct ch as [o|]; simpl.
  - punit c4 d4. pget cop' c5 d5. unfold idf.
    apply (pi_prefix_loop _ HR t cs cop' (OPre (pos cop) o :: ops)).
  - punit c4 d4. pget cb c5 d5.
    pb idf by (destruct ops; simpl; [apply caret_nonspace_pi | apply or_critical_pi; [apply caret_nonspace_pi | reflexivity]]) as u3 c6 d6.
    pget cl c7 d7. reflexivity.
Qed.

Lemma infix_loop_body_pi t ops st c d :
  infix_loop_body R t (shos ops) (shl st) (shc c) (sd d) = so shn (infix_loop_body R t ops st c d).
Proof.
  unfold infix_loop_body.
  pget cprev c0 d0. punit c1 d1. pget cop c2 d2.
  pb (option_map idf) by (apply look_pi) as m c3 d3.
  { pb idf by prim as u2 c3 d3.
    pb idf by (unfold postfix_operator; prim) as o c4 d4.
    apply por_pi; [apply por_pi; [apply por_pi; [apply por_pi|]|]|].
    - apply newline_pi.
    - intros; eapply u_pi; unfold comma; apply literal_pi.
    - intros; eapply u_pi; unfold closing_parenthesis; apply literal_pi.
    - intros; eapply u_pi; unfold closing_bracket; apply literal_pi.
    - intros; apply eof_pi. }
  destruct m as [x|]; simpl.
  - pb idf by (unfold postfix_operator; prim) as o c4 d4.
    pget cope c5 d5. unfold idf. rewrite ?shc_pos, pop_while_pi.
    destruct (pop_while (op_prec o) (op_left o) (pos cprev) ops st) as [[ops' [|x0 st']]|]; simpl; try reflexivity.
    apply (finish_expression_pi ops' (Postfix (pos cop) (pos cope) (op_char o) x0 :: st')).
  - pb (option_map idf) by (apply maybe_pi) as ch c4 d4.
    { pb idf by prim as u2 c5 d5. unfold infix_operator; prim. }
    destruct ch as [o|]; simpl.
    + pget cope c5 d5.
      pb shn by (apply or_critical_pi; [apply elr_body_pi | reflexivity]) as e c6 d6.
      unfold idf. rewrite ?shc_pos, pop_while_pi.
      destruct (pop_while (op_prec o) (op_left o) (pos cprev) ops st) as [[ops' st']|]; simpl; [|reflexivity].
      apply (pi_infix_loop _ HR t (OIn o :: ops') (e :: st')).
    + pb idf by (apply set_pi) as u5 c5 d5. apply finish_expression_pi.
Qed.

Lemma expression_body_pi t c d : expression_body R t (shc c) (sd d) = so shn (expression_body R t c d).
Proof.
  unfold expression_body. punit c1 d1. pget cs c2 d2.
  pb shr by (apply (pi_prefix_loop _ HR t cs cs [])) as r c3 d3.
  apply (pi_infix_loop _ HR t (snd r) [fst r]).
Qed.

Lemma angle_body_pi c d : angle_body R (shc c) (sd d) = so shn (angle_body R c d).
Proof.
  unfold angle_body. punit c1 d1. pget cs c2 d2.
  pb idf by (unfold opening_angle_bracket; prim) as l c3 d3.
  pb shn by (apply (pi_expression _ HR)) as e c4 d4.
  pb idf by (unfold closing_angle_bracket; prim) as l2 c5 d5.
  pget ce c6 d6. reflexivity.
Qed.

Lemma chunk_pi c d : chunk R (shc c) (sd d) = so shn (chunk R c d).
Proof. unfold chunk. apply por_pi; [apply (pi_quoted _ HR) | intros; apply angle_body_pi]. Qed.

Lemma long_loop_body_pi cs ch c d : long_loop_body R (shc cs) (shl ch) (shc c) (sd d) = so shn (long_loop_body R cs ch c d).
Proof.
  unfold long_loop_body.
  pb (option_map shn) by (apply maybe_pi, chunk_pi) as m c1 d1.
  destruct m as [x|]; cbn [option_map].
  - apply (pi_long_loop _ HR cs (x :: ch)).
  - destruct ch as [|x [|y l]]; cbn [shl map].
    + pget ce c2 d2. reflexivity.
    + reflexivity.
    + pget ce c2 d2. unfold ret. cbn [so]. rewrite shn_concat, shl_rev. reflexivity.
Qed.

Lemma long_string_body_pi c d : long_string_body R (shc c) (sd d) = so shn (long_string_body R c d).
Proof.
  unfold long_string_body. punit c1 d1. pget cs c2 d2.
  pb shn by (apply chunk_pi) as c0 c3 d3. apply (pi_long_loop _ HR cs [c0]).
Qed.

Lemma operand_type_pi name idx c d : operand_type name idx (shc c) (sd d) = so idf (operand_type name idx c d).
Proof.
  unfold operand_type.
  destruct (starts_with_dot name || match (match lookup_cmd name with Some c0 => Some c0 | None => lookup_cmd (46 :: name) end) with
                                    | Some c0 => c_meta c0 | None => false end); [|reflexivity].
  destruct (match lookup_cmd name with Some c0 => Some c0 | None => lookup_cmd (46 :: name) end) as [[m l mn mx [|ty0 tys]]|].
  - pb (option_map idf) by (apply look_pi, string_quote_pi) as q c1 d1. destruct q; reflexivity.
  - reflexivity.
  - pb (option_map idf) by (apply look_pi, string_quote_pi) as q c1 d1. destruct q; reflexivity.
Qed.

Lemma by_type_pi ty c d : by_type R ty (shc c) (sd d) = so shn (by_type R ty c d).
Proof. unfold by_type. destruct ty; try apply (pi_expression _ HR). apply long_string_body_pi. Qed.

Lemma assignment_pi c d : assignment R (shc c) (sd d) = so shn (assignment R c d).
Proof.
  unfold assignment. punit c1 d1. pget cs c2 d2.
  pb (option_map shn) by (apply maybe_pi, instruction_pointer_pi) as ip c3 d3.
  pb shn by (destruct ip as [t0|]; simpl; [reflexivity|]) as target c4 d4.
  { pb idf by (unfold symbol_literal; prim) as sym c4 d4. pget ce c5 d5. reflexivity. }
  punit c5 d5. pget c_eq c6 d6.
  pb idf by (unfold equals_sign; prim) as l c7 d7.
  pb (option_map idf) by (apply maybe_pi, literal_ns_pi) as ext c8 d8.
  pget c_after c9 d9. punit c10 d10.
  pb shn by (apply or_critical_pi; [apply (pi_expression _ HR) | reflexivity]) as value c11 d11.
  pb idf by (destruct target; simpl; try reflexivity) as u12 c12 d12.
  { destruct (in_builtin name); [reflexivity|]. destruct (is_register_name name); reflexivity. }
  pget ce c13 d13.
  replace (is_some (option_map idf ext)) with (is_some ext) by (destruct ext; reflexivity).
  destruct target; simpl; try reflexivity.
  destruct (is_some ext); [|reflexivity].
  pb idf by reflexivity as u14 c14 d14. reflexivity.
Qed.

Lemma code_body_pi brk c d : code_body R brk (shc c) (sd d) = so shn (code_body R brk c d).
Proof. unfold code_body. pget cs c1 d1. apply (pi_code_loop _ HR brk cs []). Qed.

Lemma set_brace_pi b p : set_brace (shn b) (p + k) = shn (set_brace b p).
Proof. destruct b; reflexivity. Qed.
Lemma junk_here_pi c : junk_here (shc c) = junk_here c. Proof. reflexivity. Qed.
Lemma not_blank_here_pi c : not_blank_here (shc c) = not_blank_here c. Proof. reflexivity. Qed.

Lemma operand_loop_body_pi name cs can ns ops cbc c d :
  operand_loop_body R name (shc cs) (shc can) (shn ns) (shl ops) (shc cbc) (shc c) (sd d)
  = so shn (operand_loop_body R name cs can ns ops cbc c d).
Proof.
  unfold operand_loop_body.
  pb (option_map idf) by (apply maybe_pi; unfold comma; prim) as m c1 d1.
  destruct m as [x|]; cbn [option_map].
  - pget cac c2 d2. punit c3 d3.
    replace (length (shl ops)) with (length ops) by (unfold shl; rewrite map_length; reflexivity).
    pb idf by (apply operand_type_pi) as ty c4 d4.
    pb shn by (apply or_critical_pi; [apply by_type_pi | reflexivity]) as o c5 d5.
    pget cbc' c6 d6. apply (pi_operand_loop _ HR name cs can ns (o :: ops) cbc').
  - pget cob c2 d2.
    pb (option_map idf) by (apply maybe_pi; unfold opening_bracket; prim) as m2 c3 d3.
    pb shl by (destruct m2 as [x|]; cbn [option_map]; [|reflexivity]) as ops' c4 d4.
    { pb shn by (apply code_body_pi) as blk c4 d4. rewrite ?shc_pos, set_brace_pi. reflexivity. }
    pget c5' c5 d5. rewrite junk_here_pi.
    pb idf by (apply when_pi; intros; reflexivity) as u7 c7 d7.
    unfold ret. cbn [so]. rewrite shn_insn, shl_rev. reflexivity.
Qed.

Lemma advance_pi n c : advance n (shc c) = shc (advance n c).
Proof. unfold advance, shift_ctx. simpl. f_equal. lia. Qed.

Lemma instruction_pi c d : instruction R (shc c) (sd d) = so shn (instruction R c d).
Proof.
  unfold instruction; cbv zeta.
  pget cs c1 d1.
  pb idf by prim as name c2 d2. unfold idf.
  pget can c3 d3.
  pb idf by (apply when_pi; intros; reflexivity) as u4 c4 d4.
  pb idf by idtac as u5 c5 d5.
  { destruct (lookup_cmd name) as [cm|].
    - pb (option_map idf) by (apply look_pi; unfold comma; prim) as m c5 d5.
      replace (is_some (option_map idf m)) with (is_some m) by (destruct m; reflexivity).
      destruct (is_some m); [|reflexivity].
      punit c6 d6. pget cbc c7 d7.
      pb idf by (unfold comma; prim) as l c8 d8.
      pget cl c9 d9. reflexivity.
    - destruct (starts_with_dot name); [reflexivity|].
      pb (option_map idf) by (apply maybe_pi) as m c5 d5.
      + apply por_pi.
        * eapply u_pi; unfold comma; apply literal_pi.
        * intros.
          pb idf by (eapply not_pi; unfold prefix_operator; apply either_lit_pi) as u6 c6 d6.
          pb idf by (eapply not_pi; apply caret_parenthesis_pi) as u7 c7 d7.
          eapply u_pi; unfold infix_operator; apply either_lit_pi.
      + destruct m; reflexivity. }
  destruct (match lookup_cmd name with Some c0 => c_meta c0 && c_litstr c0 | None => false end).
  { pget c6' c6 d6. rewrite shc_rest.
    destruct (strip (line_of (rest c6'))) as [|t0 text]; cbv iota.
    - pget ce c7 d7. reflexivity.
    - rewrite advance_pi.
      pb idf by (apply set_pi) as u7 c7 d7.
      pget cbm c8 d8. rewrite advance_pi.
      pb idf by (apply set_pi) as u9 c9 d9.
      pget ce c10 d10. reflexivity. }
  pb (option_map idf) by (apply look_pi; unfold closing_bracket; prim) as m6 c6 d6.
  replace (is_some (option_map idf m6)) with (is_some m6) by (destruct m6; reflexivity).
  destruct (is_some m6). { pget ce c7 d7. reflexivity. }
  pb (option_map idf) by (apply look_pi, newline_pi) as m7 c7 d7.
  replace (is_some (option_map idf m7)) with (is_some m7) by (destruct m7; reflexivity).
  pb idf by idtac as stop c8 d8.
  { destruct (is_some m7); [|reflexivity].
    destruct (match lookup_cmd name with Some c0 => 0 <? c_min c0 | None => false end); [|reflexivity].
    pb idf by reflexivity as u8 c8 d8. reflexivity. }
  unfold idf. destruct stop. { pget ce c9 d9. reflexivity. }
  pb (option_map idf) by (apply look_pi) as next c9 d9.
  { pb idf by prim as nm c10 d10.
    pb idf by (eapply not_pi; unfold colon; apply literal_pi) as u11 c11 d11. reflexivity. }
  pb idf by idtac as split c10 d10.
  { destruct (lookup_cmd name) as [cm|]; [|destruct next; reflexivity]. destruct next as [nm|]; simpl; [|reflexivity].
    unfold idf. destruct ((match c_max cm with Some 0 => true | _ => false end) && in_builtin nm); [|reflexivity].
    pget c0' c11 d11. rewrite skip_ctx_pi.
    pb (fun r : option unit * ctx => (option_map idf (fst r), shc (snd r))) by (apply on_copy_pi) as r c12 d12.
    { pb idf by prim as nm2 c12 d12.
      apply look_pi. apply por_pi; [apply por_pi|].
      - eapply u_pi; unfold comma; apply literal_pi.
      - intros; eapply u_pi; unfold infix_operator; apply either_lit_pi.
      - intros; eapply u_pi; unfold postfix_operator; apply either_lit_pi. }
    destruct r as [[u0|] cc]; reflexivity. }
  unfold idf. destruct split. { pget ce c11 d11. reflexivity. }
  pb idf by (apply operand_type_pi) as ty c11 d11.
  pb (option_map shn) by (apply maybe_pi, by_type_pi) as first c12 d12.
  destruct first as [fo|]; simpl.
  - pget cl c13 d13. rewrite not_blank_here_pi.
    pb idf by (apply when_pi; intros; reflexivity) as u14 c14 d14.
    apply (pi_operand_loop _ HR name cs can (Symbol (pos cs) (pos can) name false) [fo] cl).
  - rewrite ?shc_rest.
    pb idf by (destruct (rest can); [reflexivity|]) as u13 c13 d13.
    { punit c13 d13. pget cl c14 d14. reflexivity. }
    pget ce c14 d14. reflexivity.
Qed.

Lemma words_loop_body_pi cs cafo ws c d :
  words_loop_body R (shc cs) (shc cafo) (shl ws) (shc c) (sd d) = so shn (words_loop_body R cs cafo ws c d).
Proof.
  unfold words_loop_body. cbv zeta.
  pget c0 c1 d1. rewrite skip_ctx_pi.
  pb (option_map idf) by (apply maybe_pi; unfold comma; prim) as m c2 d2.
  destruct m as [x|]; simpl.
  - pget cac c3 d3. punit c4 d4.
    pb shn by (apply or_critical_pi; [apply (pi_expression _ HR) | reflexivity]) as w c5 d5.
    apply (pi_words_loop _ HR cs cafo (w :: ws)).
  - pget c3' c3 d3. rewrite junk_here_pi.
    pb idf by idtac as u4 c4 d4.
    { destruct (junk_here c3'); [reflexivity|].
      pb (option_map idf) by (apply look_pi, por_pi; [apply newline_pi | intros; apply eof_pi]) as m2 c4 d4.
      replace (is_some (option_map idf m2)) with (is_some m2) by (destruct m2; reflexivity).
      apply when_pi; intros; reflexivity. }
    unfold ret. cbn [so]. rewrite shn_words, shl_rev. reflexivity.
Qed.

Lemma word_list_pi c d : word_list R (shc c) (sd d) = so shn (word_list R c d).
Proof.
  unfold word_list. punit c1 d1. pget cs c2 d2.
  pb shn by (apply (pi_expression _ HR)) as w0 c3 d3.
  pget cafo c4 d4. apply (pi_words_loop _ HR cs cafo [w0]).
Qed.

Lemma statement_pi c d : statement R (shc c) (sd d) = so shn (statement R c d).
Proof.
  unfold statement. apply por_pi; [apply por_pi; [apply por_pi|]|].
  - apply label_pi.
  - intros; apply assignment_pi.
  - intros; apply instruction_pi.
  - intros; apply word_list_pi.
Qed.

Lemma is_end_insn_pi n : is_end_insn (shn n) = is_end_insn n.
Proof. destruct n; try reflexivity. rewrite shn_insn. destruct n; reflexivity. Qed.
Lemma ctx_eof_pi c : ctx_eof (shc c) = ctx_eof c.
Proof. unfold ctx_eof. rewrite skip_ctx_pi. reflexivity. Qed.

Lemma code_loop_body_pi brk cs insns c d :
  code_loop_body R brk (shc cs) (shl insns) (shc c) (sd d) = so shn (code_loop_body R brk cs insns c d).
Proof.
  unfold code_loop_body.
  pget c0 c1 d1. rewrite ctx_eof_pi.
  destruct (ctx_eof c0). { unfold ret. cbn [so]. rewrite shn_block, shl_rev. reflexivity. }
  punit c2 d2. pget cs' c3 d3.
  pb (option_map idf) by (destruct brk; [apply maybe_pi; unfold closing_bracket; prim | reflexivity]) as m c4 d4.
  destruct m as [x|]; cbn [option_map].
  { pget ce c5 d5. unfold ret. cbn [so]. rewrite shn_block, shl_rev. reflexivity. }
  pb shn by (apply or_critical_pi; [apply statement_pi | reflexivity]) as insn c5 d5.
  rewrite is_end_insn_pi.
  destruct (negb brk && is_end_insn insn).
  { pget ce c6 d6. unfold ret. cbn [so]. rewrite shn_block. change (shn insn :: shl insns) with (shl (insn :: insns)). rewrite shl_rev. reflexivity. }
  apply (pi_code_loop _ HR brk cs' (insn :: insns)).
Qed.
End BodiesPi.

Lemma funs_at_pi fuel : funs_pi (funs_at fuel).
Proof.
  induction fuel as [|f IH].
  - constructor; intros; reflexivity.
  - constructor; simpl; intros.
    + apply (expression_body_pi _ IH).
    + apply (prefix_loop_body_pi _ IH).
    + apply (infix_loop_body_pi _ IH).
    + apply (elr_loop_body_pi _ IH).
    + apply (long_loop_body_pi _ IH).
    + apply (operand_loop_body_pi _ IH).
    + apply (words_loop_body_pi _ IH).
    + apply (code_loop_body_pi _ IH).
    + apply quoted_string_pi.
Qed.
End Shift.

(* ---- the statements ------------------------------------------------------------------------------------------ *)
Theorem parse_position_independent fuel p k text :
  parse_at fuel (p + k) text = shift_result k (parse_at fuel p text).
Proof.
  unfold parse_at.
  pose proof (code_body_pi k _ (funs_at_pi k fuel) false (mkCtx p text) []) as H.
  unfold shift_ctx in H; simpl in H. rewrite H.
  destruct (code_body (funs_at fuel) false {| pos := p; rest := text |} []); simpl; auto;
    unfold sd; rewrite <- map_rev; reflexivity.
Qed.
Lemma parse_file_at fuel text : parse_file fuel text = parse_at fuel 0 text.
Proof. reflexivity. Qed.

(* blank material in front of the first statement: the same tree, everything moved by its length *)
Lemma code_loop_skip R brk cs cs2 insns c d :
  ctx_eof c = false ->
  code_loop_body R brk cs insns c d = code_loop_body R brk cs2 insns (skip_ctx c) d.
Proof.
  intros He. unfold code_loop_body, bind, get, skip_ws.
  assert (He2 : ctx_eof (skip_ctx c) = false) by (unfold ctx_eof in *; rewrite skip_ctx_idem; exact He).
  rewrite He, He2, skip_ctx_idem. reflexivity.
Qed.

Theorem leading_blank_insensitive fuel ws text :
  blank_run ws -> ctx_eof (mkCtx 0 text) = false ->
  parse_file (S fuel) (ws ++ text) = shift_result (len ws) (parse_file (S fuel) text).
Proof.
  intros Hws He.
  set (c1 := mkCtx 0 (ws ++ text)). set (c2 := mkCtx 0 text).
  assert (Hr : rest (skip_ctx c1) = rest (skip_ctx c2)) by (apply blank_absorbed; exact Hws).
  assert (Hs : skip_ctx c1 = shift_ctx (len ws) (skip_ctx c2)).
  { destruct (skip_ctx_is_skip c1) as [_ P1]. destruct (skip_ctx_is_skip c2) as [_ P2].
    unfold shift_ctx. destruct (skip_ctx c1) as [p1 r1], (skip_ctx c2) as [p2 r2]. simpl in *. subst r1.
    f_equal. unfold c1, c2, len in *; simpl in *. rewrite app_length in P1. lia. }
  assert (He1 : ctx_eof c1 = false) by (unfold ctx_eof in *; rewrite Hr; exact He).
  unfold parse_file. fold c1 c2. unfold code_body, bind, get. simpl r_code_loop.
  rewrite (code_loop_skip _ false c1 (shift_ctx (len ws) c2) [] c1 [] He1).
  rewrite (code_loop_skip _ false c2 c2 [] c2 [] He).
  rewrite Hs.
  pose proof (code_loop_body_pi (len ws) _ (funs_at_pi (len ws) fuel) false c2 [] (skip_ctx c2) []) as H.
  simpl in H. rewrite H.
  destruct (code_loop_body (funs_at fuel) false c2 [] (skip_ctx c2) []); simpl; auto;
    unfold sd; rewrite <- map_rev; reflexivity.
Qed.
