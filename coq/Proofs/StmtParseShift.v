(* P -- position independence of the parser model: no decision of the parser depends on the absolute position, so
   running any parser function k characters further to the right (same remaining text, every saved context moved by
   k, every diagnostic so far moved by k) gives exactly the same outcome moved by k.  Equalities, proved function by
   function by rewriting; corollary: blank material in front of a file does not change the tree (up to the shift). *)
From Coq Require Import String Ascii List ZArith NArith Bool Lia Arith.
From Verif Require Import Gen.GenParserTables Gen.GenRadix50 Model.SkipWs Model.StmtParse Model.StmtParseOffsets
                          Proofs.StmtParseSpell.
Import ListNotations.
Open Scope N_scope.

Section Shift.
Variable k : N.

Notation shc := (shift_ctx k).
Definition sd (d : list diag) : list diag := map (shift_diag k) d.
Definition so {A} (sa : A -> A) (o : out A) : out A :=
  match o with
  | Ok a c d => Ok (sa a) (shc c) (sd d)
  | Fail c d => Fail (shc c) (sd d)
  | Crit d => Crit (sd d)
  | Crash s => Crash s
  | OutOfFuel => OutOfFuel
  end.
Definition idf {A} (x : A) : A := x.
Notation shn := (shift_node k).
Definition shs (l : list span) : list span := map (shift_span k) l.

Lemma shc_rest c : rest (shc c) = rest c. Proof. reflexivity. Qed.
Lemma shc_pos c : pos (shc c) = pos c + k. Proof. reflexivity. Qed.
Lemma shc_eq p r q : q = p + k -> mkCtx q r = shc (mkCtx p r).
Proof. intros ->. reflexivity. Qed.
Ltac ceq := unfold shift_ctx; simpl; f_equal; lia.

(* ---- combinators ----------------------------------------------------------------------------------------- *)
Lemma bind_pi {A B} (sa : A -> A) (sb : B -> B) (p1 p2 : parser A) (f1 f2 : A -> parser B) c d :
  p2 (shc c) (sd d) = so sa (p1 c d) ->
  (forall a c1 d1, f2 (sa a) (shc c1) (sd d1) = so sb (f1 a c1 d1)) ->
  bind p2 f2 (shc c) (sd d) = so sb (bind p1 f1 c d).
Proof. intros H1 H2. unfold bind. rewrite H1. destruct (p1 c d); simpl; auto. Qed.
Lemma ret_pi {A} (sa : A -> A) a c d : ret (sa a) (shc c) (sd d) = so sa (ret a c d).
Proof. reflexivity. Qed.
Lemma fail_pi {A} (sa : A -> A) c d : @fail A (shc c) (sd d) = so sa (fail c d).
Proof. reflexivity. Qed.
Lemma crash_pi {A} (sa : A -> A) s c d : @crash A s (shc c) (sd d) = so sa (crash s c d).
Proof. reflexivity. Qed.
Lemma oof_pi {A} (sa : A -> A) c d : @out_of_fuel A (shc c) (sd d) = so sa (out_of_fuel c d).
Proof. reflexivity. Qed.
Lemma get_pi c d : get (shc c) (sd d) = so shc (get c d).
Proof. reflexivity. Qed.
Lemma set_pi c0 c d : set_ctx (shc c0) (shc c) (sd d) = so idf (set_ctx c0 c d).
Proof. reflexivity. Qed.
Lemma emit_pi sv id spans c d : emit sv id (shs spans) (shc c) (sd d) = so idf (emit sv id spans c d).
Proof. reflexivity. Qed.
Lemma critical_pi {A} (sa : A -> A) id spans c d : @critical A id (shs spans) (shc c) (sd d) = so sa (critical id spans c d).
Proof. reflexivity. Qed.
Lemma maybe_pi {A} (sa : A -> A) (p1 p2 : parser A) c d :
  p2 (shc c) (sd d) = so sa (p1 c d) -> maybe p2 (shc c) (sd d) = so (option_map sa) (maybe p1 c d).
Proof. intros H. unfold maybe. rewrite H. destruct (p1 c d); reflexivity. Qed.
Lemma look_pi {A} (sa : A -> A) (p1 p2 : parser A) c d :
  p2 (shc c) (sd d) = so sa (p1 c d) -> look p2 (shc c) (sd d) = so (option_map sa) (look p1 c d).
Proof. intros H. unfold look. rewrite H. destruct (p1 c d); reflexivity. Qed.
Lemma not_pi {A} (sa : A -> A) (p1 p2 : parser A) c d :
  p2 (shc c) (sd d) = so sa (p1 c d) -> not_p p2 (shc c) (sd d) = so idf (not_p p1 c d).
Proof. intros H. unfold not_p, bind, maybe. rewrite H. destruct (p1 c d); reflexivity. Qed.
Lemma por_pi {A} (sa : A -> A) (p1 p2 q1 q2 : parser A) c d :
  p2 (shc c) (sd d) = so sa (p1 c d) -> (forall d', q2 (shc c) (sd d') = so sa (q1 c d')) ->
  por p2 q2 (shc c) (sd d) = so sa (por p1 q1 c d).
Proof. intros H1 H2. unfold por, bind, maybe. rewrite H1. destruct (p1 c d); simpl; auto. Qed.
Lemma or_critical_pi {A} (sa : A -> A) (p1 p2 : parser A) id sp1 sp2 c d :
  p2 (shc c) (sd d) = so sa (p1 c d) -> (forall cl, sp2 (shc cl) = shs (sp1 cl)) ->
  or_critical p2 id sp2 (shc c) (sd d) = so sa (or_critical p1 id sp1 c d).
Proof. intros H1 H2. unfold or_critical. rewrite H1. destruct (p1 c d); simpl; auto. rewrite H2. reflexivity. Qed.
Lemma or_error_pi {A} (sa : A -> A) (p1 p2 : parser A) id sp1 sp2 c d :
  p2 (shc c) (sd d) = so sa (p1 c d) -> (forall cl, sp2 (shc cl) = shs (sp1 cl)) ->
  or_error p2 id sp2 (shc c) (sd d) = so (option_map sa) (or_error p1 id sp1 c d).
Proof. intros H1 H2. unfold or_error. rewrite H1. destruct (p1 c d); simpl; auto. rewrite H2. reflexivity. Qed.
Lemma on_copy_pi {A} (sa : A -> A) (p1 p2 : parser A) c0 c d :
  p2 (shc c0) (sd d) = so sa (p1 c0 d) ->
  on_copy (shc c0) p2 (shc c) (sd d) = so (fun r => (sa (fst r), shc (snd r))) (on_copy c0 p1 c d).
Proof. intros H. unfold on_copy. rewrite H. destruct (p1 c0 d); reflexivity. Qed.
Lemma when_pi b p1 p2 c d :
  (b = true -> p2 (shc c) (sd d) = so idf (p1 c d)) -> when b p2 (shc c) (sd d) = so idf (when b p1 c d).
Proof. destruct b; simpl; auto. Qed.
Lemma u_pi {A} (sa : A -> A) (p1 p2 : parser A) c d :
  p2 (shc c) (sd d) = so sa (p1 c d) -> u p2 (shc c) (sd d) = so idf (u p1 c d).
Proof. intros H. unfold u, bind. rewrite H. destruct (p1 c d); reflexivity. Qed.

(* ---- primitives ------------------------------------------------------------------------------------------- *)
Lemma skip_ctx_pi c : skip_ctx (shc c) = shc (skip_ctx c).
Proof. unfold skip_ctx. simpl. destruct (skip_cnt false (rest c) 0) as [r n]. ceq. Qed.
Lemma skip_pi c d : skip_ws (shc c) (sd d) = so idf (skip_ws c d).
Proof. unfold skip_ws. rewrite skip_ctx_pi. reflexivity. Qed.
Lemma after_skip_pi {A} (sa : A -> A) (p : parser A) c d :
  (forall c0, p (shc c0) (sd d) = so sa (p c0 d)) -> (skip_ws ;;; p) (shc c) (sd d) = so sa ((skip_ws ;;; p) c d).
Proof. intros H. unfold bind, skip_ws. rewrite skip_ctx_pi. apply H. Qed.
Lemma literal_ns_pi lit c d : literal_ns lit (shc c) (sd d) = so idf (literal_ns lit c d).
Proof. unfold literal_ns. simpl. destruct (lit_match lit (rest c)); simpl; auto. f_equal. ceq. Qed.
Lemma literal_pi lit c d : literal lit (shc c) (sd d) = so idf (literal lit c d).
Proof. apply after_skip_pi. intros; apply literal_ns_pi. Qed.
Lemma regex_id_ns_pi f m c d : regex_id_ns f m (shc c) (sd d) = so idf (regex_id_ns f m c d).
Proof.
  unfold regex_id_ns. simpl. destruct (rest c) as [|x r]; auto. destruct (f x); auto.
  destruct (span_n m r 0) as [[a b] n]. simpl. f_equal. ceq.
Qed.
Lemma regex_id_pi f m c d : (skip_ws ;;; regex_id_ns f m) (shc c) (sd d) = so idf ((skip_ws ;;; regex_id_ns f m) c d).
Proof. apply after_skip_pi. intros; apply regex_id_ns_pi. Qed.
Lemma one_of_ns_pi p c d : one_of_ns p (shc c) (sd d) = so idf (one_of_ns p c d).
Proof. unfold one_of_ns. simpl. destruct (rest c) as [|x r]; auto. destruct (p x); auto. simpl. f_equal. ceq. Qed.
Lemma string_quote_pi c d : string_quote (shc c) (sd d) = so idf (string_quote c d).
Proof. apply after_skip_pi. intros; apply one_of_ns_pi. Qed.
Lemma caret_parenthesis_pi c d : caret_parenthesis (shc c) (sd d) = so idf (caret_parenthesis c d).
Proof.
  apply after_skip_pi. intros c0. simpl. destruct (rest c0) as [|a [|x r]]; auto.
  destruct ((a =? 94) && caret_paren_char x); auto. simpl. f_equal. ceq.
Qed.
Lemma caret_nonspace_pi c d : caret_nonspace (shc c) (sd d) = so idf (caret_nonspace c d).
Proof.
  apply after_skip_pi. intros c0. simpl. destruct (rest c0) as [|a [|x r]]; auto.
  destruct ((a =? 94) && negb (is_ascii_space x)); auto. simpl. f_equal. ceq.
Qed.
Lemma hex2_pi c d : hex2 (shc c) (sd d) = so idf (hex2 c d).
Proof.
  apply after_skip_pi. intros c0. simpl. destruct (rest c0) as [|a [|x r]]; auto.
  destruct (is_hex a && is_hex x); auto. simpl. f_equal. ceq.
Qed.
Lemma instruction_name_pi c d : instruction_name (shc c) (sd d) = so idf (instruction_name c d).
Proof.
  apply after_skip_pi. intros c0. simpl. destruct (rest c0) as [|x r]; auto.
  destruct (is_insn_start x).
  - destruct (span_n is_word r 0) as [[a b] n]. simpl. f_equal. ceq.
  - destruct (x =? 46); auto. destruct r as [|y r2]; auto. destruct (is_insn_start y); auto.
    destruct (span_n is_word r2 0) as [[a b] n]. simpl. f_equal. ceq.
Qed.
Lemma eof_pi c d : eof (shc c) (sd d) = so idf (eof c d).
Proof. apply after_skip_pi. intros c0. simpl. destruct (rest c0); auto. Qed.
Lemma newline_pi c d : newline (shc c) (sd d) = so idf (newline c d).
Proof.
  unfold newline. simpl. destruct (ws_run (rest c) 0 None) as [[r n] last].
  destruct last as [[r2 n2]|].
  - destruct r; simpl; f_equal; ceq.
  - destruct r as [|a r']; auto. destruct (a =? 59); auto.
    destruct (until_nl r' (n + 1)) as [r'' n'']. simpl. f_equal. ceq.
Qed.
Lemma caret_digits_pi base c d : caret_digits base (shc c) (sd d) = so idf (caret_digits base c d).
Proof.
  unfold caret_digits. simpl. destruct (span_n (valid_digit base) (rest c) 0) as [[m r] n].
  destruct m; auto. destruct r as [|x r]; [simpl; f_equal; ceq|].
  destruct ((x =? 36) || (x =? 46) || is_word x); auto. simpl. f_equal. ceq.
Qed.
Lemma either_lit_pi t c d : either_lit t (shc c) (sd d) = so idf (either_lit t c d).
Proof.
  revert c d. induction t as [|o t IH]; intros c d; simpl; auto.
  apply (bind_pi (option_map idf) idf). { apply maybe_pi, literal_pi. }
  intros [a|] c1 d1; simpl; [reflexivity | apply IH].
Qed.
Lemma term_p_pi t c d : term_p t (shc c) (sd d) = so idf (term_p t c d).
Proof.
  revert c d; induction t as [|x t IH]; intros c d; simpl; auto.
  apply por_pi; auto. intros; apply literal_pi.
Qed.
Lemma not_term_pi t c d : not_p (term_p t) (shc c) (sd d) = so idf (not_p (term_p t) c d).
Proof. eapply not_pi. apply term_p_pi. Qed.
Lemma not_term_colon_pi t c d : not_term_colon t (shc c) (sd d) = so idf (not_term_colon t c d).
Proof.
  unfold not_term_colon. apply (bind_pi idf idf). { apply not_term_pi. }
  intros a c1 d1. apply (bind_pi idf idf). { apply literal_pi. }
  intros; reflexivity.
Qed.
(* ---- tactics ------------------------------------------------------------------------------------------------ *)
Ltac prim :=
  first [ reflexivity | apply get_pi | apply skip_pi | apply literal_pi | apply literal_ns_pi | apply regex_id_pi
        | apply regex_id_ns_pi | apply one_of_ns_pi | apply string_quote_pi | apply caret_parenthesis_pi
        | apply caret_nonspace_pi | apply hex2_pi | apply instruction_name_pi | apply eof_pi | apply newline_pi
        | apply either_lit_pi | apply not_term_pi | apply not_term_colon_pi | apply term_p_pi ].
Tactic Notation "pb" open_constr(sa) "by" tactic3(tac) "as" simple_intropattern(a) simple_intropattern(c) simple_intropattern(d) :=
  eapply (bind_pi sa); [ tac | intros a c d; cbv beta ].
Ltac pget cs c1 d1 := eapply (bind_pi shc); [ apply get_pi | intros cs c1 d1; cbv beta ].
Ltac punit c1 d1 := eapply (bind_pi idf); [ prim | intros _ c1 d1; cbv beta ].

(* ---- leaves ---------------------------------------------------------------------------------------------------- *)
Lemma number_caret_pi neg cs forms (k1 k2 : parser node) :
  (forall c d, k2 (shc c) (sd d) = so shn (k1 c d)) ->
  forall c d, number_caret neg (shc cs) forms k2 (shc c) (sd d) = so shn (number_caret neg cs forms k1 c d).
Proof.
  intros Hk. induction forms as [|[[pl pr] base] fr IH]; intros c d; simpl; auto.
  pb (option_map idf) by (apply maybe_pi, literal_pi) as m c1 d1.
  destruct m as [a|]; simpl; [|apply IH].
  pb idf by (apply or_critical_pi; [apply caret_digits_pi | reflexivity]) as num c2 d2.
  pget ce c3 d3. unfold idf. destruct (int_digits base num 0); reflexivity.
Qed.

Lemma number_plain_pi t neg cs c d :
  number_plain t neg (shc cs) (shc c) (sd d) = so shn (number_plain t neg cs c d).
Proof.
  unfold number_plain.
  pb idf by prim as num c1 d1.
  pb (option_map idf) by (apply maybe_pi, not_term_colon_pi) as mc c2 d2.
  unfold idf. destruct mc as [u0|]; simpl; [reflexivity|].
  destruct (rev num) as [|lastc rnum]; [reflexivity|]. cbv zeta.
  set (num' := if lastc =? 46 then rev rnum else num).
  destruct (existsb (fun c0 : N => (c0 =? 36) || (c0 =? 95) || (c0 =? 46)) num'); [reflexivity|].
  destruct (all_digits num').
  - destruct (int_digits 10 num' 0); [|reflexivity].
    destruct (lastc =? 46). { pget ce c3 d3. reflexivity. }
    destruct (existsb (fun c0 : N => (c0 =? 56) || (c0 =? 57)) num').
    { destruct neg.
      - pget cl c3 d3. pb idf by reflexivity as u1 c4 d4. reflexivity.
      - pget ce c3 d3. reflexivity. }
    destruct (int_digits 8 num' 0); [|reflexivity]. pget ce c3 d3. reflexivity.
  - destruct num' as [|z [|l digits]]; [reflexivity | reflexivity |].
    destruct ((z =? 48) && is_alpha l); [|reflexivity].
    destruct (if lower l =? 120 then Some 16 else if lower l =? 111 then Some 8 else if lower l =? 98 then Some 2 else None) as [b|]; [|reflexivity].
    destruct (py_int b digits); [|reflexivity]. pget ce c3 d3. reflexivity.
Qed.

Lemma number_pi t c d : number t (shc c) (sd d) = so shn (number t c d).
Proof.
  unfold number.
  pb (option_map idf) by (apply maybe_pi; unfold minus; apply literal_pi) as neg c1 d1.
  punit c2 d2. pget cs c3 d3.
  replace (is_some (option_map idf neg)) with (is_some neg) by (destruct neg; reflexivity).
  apply number_caret_pi. intros; apply number_plain_pi.
Qed.

Lemma radix50_literal_pi c d : radix50_literal (shc c) (sd d) = so shn (radix50_literal c d).
Proof.
  unfold radix50_literal.
  punit c1 d1. pget cs c2 d2.
  pb idf by prim as l c3 d3.
  pb (option_map idf) by (apply or_error_pi; [unfold radix50_chars; apply regex_id_ns_pi | reflexivity]) as str c4 d4.
  pget cl c5 d5.
  replace (match option_map idf str with Some s0 => s0 | None => [] end) with (match str with Some s0 => s0 | None => [] end) by (destruct str; reflexivity).
  pb idf by (apply when_pi; intros; reflexivity) as u2 c6 d6.
  destruct (pack_to_int _); reflexivity.
Qed.

Lemma label_pi c d : label (shc c) (sd d) = so shn (label c d).
Proof.
  unfold label.
  punit c1 d1. pget cs c2 d2.
  pb idf by (unfold label_name; prim) as name c3 d3.
  pb idf by (unfold colon; prim) as l c4 d4.
  pb (option_map idf) by (apply maybe_pi, literal_ns_pi) as ext c5 d5.
  pget cl c6 d6. unfold idf.
  pb idf by (destruct (in_builtin name); [reflexivity | destruct (is_register_name name); reflexivity]) as u3 c7 d7.
  destruct name as [|c0 nm]; [reflexivity|].
  replace (is_some (option_map (fun x : list N => x) ext)) with (is_some ext) by (destruct ext; reflexivity).
  destruct (is_digit c0 && is_some ext).
  - pb idf by reflexivity as u4 c8 d8. reflexivity.
  - reflexivity.
Qed.

Lemma instruction_pointer_pi c d : instruction_pointer (shc c) (sd d) = so shn (instruction_pointer c d).
Proof.
  unfold instruction_pointer.
  punit c1 d1. pget cs c2 d2.
  eapply (bind_pi idf).
  - apply after_skip_pi. intros c0. simpl. destruct (rest c0) as [|a r]; auto.
    destruct (a =? 46); auto. destruct r as [|x r']; [simpl; f_equal; unfold shift_ctx; simpl; f_equal; lia|].
    destruct (is_word x); auto. simpl. f_equal. unfold shift_ctx; simpl; f_equal; lia.
  - intros u2 c3 d3. cbv beta. pget ce c4 d4. reflexivity.
Qed.

Lemma symbol_expression_pi t c d : symbol_expression t (shc c) (sd d) = so shn (symbol_expression t c d).
Proof.
  unfold symbol_expression.
  punit c1 d1. pget cs c2 d2.
  pb idf by (unfold symbol_literal; prim) as name c3 d3.
  pb (option_map idf) by (apply maybe_pi, not_term_colon_pi) as hc c4 d4.
  pget cl c5 d5. unfold idf.
  replace (is_some (option_map (fun x : unit => x) hc)) with (is_some hc) by (destruct hc; reflexivity).
  pb idf by (apply when_pi; intros; reflexivity) as u2 c6 d6. reflexivity.
Qed.

Lemma local_symbol_expression_pi t c d : local_symbol_expression t (shc c) (sd d) = so shn (local_symbol_expression t c d).
Proof.
  unfold local_symbol_expression.
  punit c1 d1. pget cs c2 d2.
  pb idf by (unfold local_symbol_literal; prim) as name c3 d3. unfold idf.
  eapply (bind_pi idf).
  - destruct (all_digits name).
    + pb idf by prim as u2 c4 d4. reflexivity.
    + pb (option_map idf) by (apply maybe_pi, not_term_colon_pi) as m c4 d4. destruct m; reflexivity.
  - intros hc c5 d5. cbv beta. pget ce c6 d6. reflexivity.
Qed.

Lemma string_escape_pi c d : string_escape (shc c) (sd d) = so idf (string_escape c d).
Proof.
  unfold string_escape.
  pget cs c1 d1.
  pb idf by (unfold string_backslash; prim) as l c2 d2.
  pb (option_map idf) by (apply or_error_pi; [unfold character; apply one_of_ns_pi | reflexivity]) as ch c3 d3.
  destruct ch as [[|ch0 chr]|]; simpl; [reflexivity | | reflexivity]. unfold idf. cbv zeta.
  set (ch := if ch0 <? 128 then lower ch0 else ch0).
  destruct (ch =? 110); [reflexivity|]. destruct (ch =? 114); [reflexivity|]. destruct (ch =? 116); [reflexivity|].
  destruct ((ch =? 92) || (ch =? 34) || (ch =? 39) || (ch =? 47)); [reflexivity|].
  destruct (ch =? 10); [reflexivity|].
  destruct (ch =? 120).
  - pb (option_map idf) by (apply or_error_pi; [apply hex2_pi | reflexivity]) as num c4 d4.
    destruct num as [num|]; simpl; [|reflexivity]. unfold idf. destruct (int_digits 16 num 0); reflexivity.
  - pget cl c4 d4. pb idf by reflexivity as u1 c5 d5. reflexivity.
Qed.
Lemma string_char_pi c d : string_char (shc c) (sd d) = so idf (string_char c d).
Proof. unfold string_char. apply por_pi; [apply string_escape_pi | intros; unfold character; apply one_of_ns_pi]. Qed.

Lemma at_line_end_pi c : at_line_end (shc c) = at_line_end c. Proof. reflexivity. Qed.

Lemma single_quoted_literal_pi c d : single_quoted_literal (shc c) (sd d) = so shn (single_quoted_literal c d).
Proof.
  unfold single_quoted_literal.
  punit c1 d1. pget cs c2 d2.
  pb idf by (unfold single_quote; prim) as l c3 d3.
  pget c1' c4 d4. rewrite at_line_end_pi.
  pb idf by (destruct (at_line_end c1'); reflexivity) as u2 c5 d5.
  rewrite shc_rest.
  pb idf by (destruct (rest c1') as [|x r]; [reflexivity | destruct (x =? 39); [reflexivity | apply string_char_pi]]) as value c6 d6.
  pget c2' c7 d7. rewrite shc_rest. unfold idf.
  destruct (match rest c2' with x0 :: _ => x0 =? 39 | [] => false end).
  - pb idf by (unfold single_quote; prim) as l2 c8 d8.
    pget cl c9 d9.
    pb idf by (destruct (length value <=? 1)%nat; reflexivity) as u3 c10 d10. reflexivity.
  - reflexivity.
Qed.

Lemma dq_step_pi cs value c d : dq_step (shc cs) value (shc c) (sd d) = so idf (dq_step cs value c d).
Proof.
  unfold dq_step.
  pget c1' c1 d1. rewrite at_line_end_pi.
  pb idf by (destruct (at_line_end c1'); reflexivity) as u2 c5 d5.
  rewrite shc_rest. destruct (rest c1') as [|x r]; [reflexivity|]. destruct (x =? 34); [reflexivity|].
  pb idf by (apply string_char_pi) as v c6 d6. reflexivity.
Qed.

Lemma double_quoted_literal_pi c d : double_quoted_literal (shc c) (sd d) = so shn (double_quoted_literal c d).
Proof.
  unfold double_quoted_literal.
  punit c1 d1. pget cs c2 d2.
  pb idf by (unfold double_quote; prim) as l c3 d3.
  pb idf by (apply dq_step_pi) as v1 c4 d4.
  pb idf by (apply dq_step_pi) as value c5 d5.
  pget c2' c7 d7. rewrite shc_rest. unfold idf.
  destruct (match rest c2' with x0 :: _ => x0 =? 34 | [] => false end).
  - pb idf by (unfold double_quote; prim) as l2 c8 d8.
    pget cl c9 d9.
    pb idf by (destruct (length value <=? 2)%nat; reflexivity) as u3 c10 d10. reflexivity.
  - reflexivity.
Qed.

Lemma quoted_loop_pi fuel quote value c d :
  quoted_loop fuel quote value (shc c) (sd d) = so idf (quoted_loop fuel quote value c d).
Proof.
  revert value c d. induction fuel as [|f IH]; intros value c d; [reflexivity|]. simpl.
  pget c0 c1 d1. rewrite shc_rest.
  destruct (rest c0) as [|x r]; [reflexivity|]. destruct (x =? quote); [reflexivity|].
  pb idf by (apply string_char_pi) as v c2 d2. apply IH.
Qed.

Lemma quoted_string_pi fuel c d : quoted_string fuel (shc c) (sd d) = so shn (quoted_string fuel c d).
Proof.
  unfold quoted_string.
  punit c1 d1. pget cs c2 d2.
  pb idf by prim as quote c3 d3. unfold idf.
  destruct quote as [|q qs]; [reflexivity|].
  pb idf by (apply quoted_loop_pi) as value c4 d4.
  pget c1' c5 d5. rewrite shc_rest.
  destruct (rest c1') as [|y r]; [reflexivity|].
  replace {| pos := pos (shc c1') + 1; rest := r |} with (shc {| pos := pos c1' + 1; rest := r |}) by (unfold shift_ctx; simpl; f_equal; lia).
  pb idf by (apply set_pi) as u2 c6 d6.
  simpl. unfold ret, idf. simpl. do 2 f_equal. lia.
Qed.

Lemma expression_literal_pi t c d : expression_literal t (shc c) (sd d) = so shn (expression_literal t c d).
Proof.
  unfold expression_literal.
  pb (option_map shn) by (apply maybe_pi, symbol_expression_pi) as m1 c1 d1.
  destruct m1 as [e|]; simpl; [reflexivity|].
  pb (option_map shn) by (apply maybe_pi, radix50_literal_pi) as m2 c2 d2.
  destruct m2 as [e|]; simpl; [reflexivity|].
  pb (option_map shn) by (apply maybe_pi, por_pi; [apply number_pi | intros; apply local_symbol_expression_pi]) as m3 c3 d3.
  destruct m3 as [e|]; simpl; [reflexivity|].
  apply por_pi; [apply por_pi; [apply single_quoted_literal_pi | intros; apply double_quoted_literal_pi] | intros; apply instruction_pointer_pi].
Qed.
End Shift.
