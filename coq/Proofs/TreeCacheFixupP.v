(* Proofs/TreeCacheFixupP.v -- what OffsetOperandStub.encode's label fixup does to a branch operand
   (used by Props/C04_fixup.v), on the token-tree model Model/TreeCache.v ([fixup], [fix_inplace],
   [br_operand], [compile_br]).

   The source of that code -- the whole 'if isinstance(operand, Number) and operand.is_valid_label: ...
   elif "(" not in operand.text() and ":" not in operand.text(): def fixup_label ...' statement --
   is PINNED by tools/gens/gen_treecache.py (Gen/GenTreeCachePins.v, imported by Model/TreeCache.v):
   an edit aborts the translator.  The model itself is tied by the C16 correspondence sweep.

   Traversal order of fixup_label, stated as [scan]: the leaves (Number, CharLiteral, Symbol,
   InstructionPointer, bracketed group) in the order  lhs before rhs  for every infix operator and
   for a call, the single operand for prefix / postfix operators; a bracketed group is ONE leaf
   (fixup_label does not look inside). *)
From Coq Require Import ZArith List String Bool Arith Lia.
From Verif Require Import Base.Res Model.TreeCache Proofs.TreeCacheP.
Import ListNotations.
Open Scope string_scope.
Open Scope list_scope.

(* ---------------------------------------------------------------------------------------------- *)
(* 1. a bare label-shaped number *)
Lemma bare_number_operand txt r v b8 rep :
  br_operand txt (Num r v true b8 rep) = Sym r true.
Proof. reflexivity. Qed.

(* opcode field, extension bytes and diagnostics of one operand (without the operand left behind) *)
Definition enc_of (r : opr) : res (Z * list Z * list string) :=
  rmap (fun x => (fst (fst (fst x)), snd (fst (fst x)), snd x)) r.

Lemma bare_number_is_local_label bits uns txt env dot rel r v b8 rep :
  enc_of (compile_br bits uns txt env dot rel (Num r v true b8 rep))
  = enc_of (compile_br bits uns txt env dot rel (Sym r true)).
Proof.
  unfold compile_br.
  assert (E : br_operand txt (Sym r true) = Sym r true) by (destruct txt; reflexivity).
  rewrite E, bare_number_operand.
  destruct (eval env dot (Sym r true)) as [[[x s'] d]| | |]; try reflexivity.
  cbn [bind]. destruct (offset_field bits uns (x - rel)%Z) as [f d2]. reflexivity.
Qed.

(* the value looked up is that of the NAME made of the written digits *)
Lemma bare_number_lookup bits uns txt env dot rel r v b8 rep target :
  env r = Some target ->
  enc_of (compile_br bits uns txt env dot rel (Num r v true b8 rep))
  = Ok (fst (offset_field bits uns (target - rel)%Z), [], snd (offset_field bits uns (target - rel)%Z)).
Proof.
  intros H. unfold compile_br. rewrite bare_number_operand. cbn [eval]. rewrite H. cbn [bind].
  destruct (offset_field bits uns (target - rel)%Z) as [f d2]. reflexivity.
Qed.

(* ---------------------------------------------------------------------------------------------- *)
(* 2. the traversal *)
Fixpoint scan (t : tree) : list tree :=
  match t with
  | Infix _ l r _ => scan l ++ scan r
  | Call l r _ => scan l ++ scan r
  | Prefix _ e _ => scan e
  | Postfix _ e _ => scan e
  | _ => [t]
  end.

Definition is_label_number (t : tree) : bool := match t with Num _ _ true _ _ => true | _ => false end.
Definition is_stop (t : tree) : bool := match t with Sym _ _ | Dot => true | _ => false end.
(* neither a label-shaped number nor a symbol / '.' : does not change fixup_active *)
Definition is_neutral (t : tree) : bool := negb (is_label_number t) && negb (is_stop t).

(* index (in [scan] order) of the first label-shaped number that comes before any symbol or '.' *)
Fixpoint target (l : list tree) : option nat :=
  match l with
  | [] => None
  | x :: r => if is_label_number x then Some O
              else if is_stop x then None
              else option_map S (target r)
  end.

Definition as_label (t : tree) : tree := match t with Num r _ _ _ _ => Sym r true | _ => t end.

(* the tree with its k-th leaf (in [scan] order) turned into the local-label symbol *)
Fixpoint rewrite_at (k : nat) (t : tree) : tree :=
  match t with
  | Infix op l r c =>
      let n := List.length (scan l) in
      if Nat.ltb k n then Infix op (rewrite_at k l) r c else Infix op l (rewrite_at (k - n) r) c
  | Call l r c =>
      let n := List.length (scan l) in
      if Nat.ltb k n then Call (rewrite_at k l) r c else Call l (rewrite_at (k - n) r) c
  | Prefix op e c => Prefix op (rewrite_at k e) c
  | Postfix op e c => Postfix op (rewrite_at k e) c
  | _ => match k with O => as_label t | _ => t end
  end.

Lemma target_lt l k : target l = Some k -> (k < List.length l)%nat.
Proof.
  revert k. induction l as [|x r IH]; intros k H; simpl in H; [discriminate|].
  destruct (is_label_number x); [inversion H; simpl; lia|].
  destruct (is_stop x); [discriminate|].
  destruct (target r) as [j|]; simpl in H; [|discriminate]. inversion H; subst. specialize (IH j eq_refl). simpl. lia.
Qed.

Lemma target_neutral l : target l <> None -> forallb is_neutral l = false.
Proof.
  induction l as [|x r IH]; simpl; intros H; [congruence|].
  unfold is_neutral at 1. destruct (is_label_number x); [reflexivity|].
  destruct (is_stop x); [reflexivity|]. simpl. apply IH. destruct (target r); simpl in *; congruence.
Qed.

Lemma target_app a b :
  target (a ++ b) = match target a with
                    | Some k => Some k
                    | None => if forallb is_neutral a then option_map (Nat.add (List.length a)) (target b) else None
                    end.
Proof.
  induction a as [|x r IH]; simpl.
  - destruct (target b); reflexivity.
  - unfold is_neutral at 1. destruct (is_label_number x); [reflexivity|].
    destruct (is_stop x); [reflexivity|]. simpl. rewrite IH.
    destruct (target r); simpl; [reflexivity|].
    destruct (forallb is_neutral r); [|reflexivity]. destruct (target b); reflexivity.
Qed.

(* fixup_label, completely: with the flag set, the first label-shaped number met before any symbol
   or '.' is rewritten and nothing else; the flag afterwards is still set iff only neutral leaves
   were met *)
Lemma fixup_spec t : forall act,
  fixup act t = ((if act then match target (scan t) with Some k => rewrite_at k t | None => t end else t),
                 act && forallb is_neutral (scan t)).
Proof.
  induction t; intros act.
  - (* Num *) simpl. destruct valid_label; destruct act; reflexivity.
  - destruct act; reflexivity.
  - destruct act; reflexivity.
  - destruct act; reflexivity.
  - destruct act; reflexivity.
  - (* Infix *)
    cbn [fixup scan]. rewrite IHt1. cbn [fst snd]. rewrite IHt2. cbn [fst snd].
    rewrite forallb_app, target_app. destruct act; [|reflexivity]. cbn [andb].
    destruct (target (scan t1)) as [k|] eqn:E1.
    + rewrite (target_neutral (scan t1)) by congruence.
      cbn [rewrite_at]. pose proof (target_lt _ _ E1) as L. apply Nat.ltb_lt in L. rewrite L. reflexivity.
    + destruct (forallb is_neutral (scan t1)); [|reflexivity].
      destruct (target (scan t2)) as [k|]; [|reflexivity]. cbn [option_map rewrite_at].
      assert (L : Nat.ltb (List.length (scan t1) + k) (List.length (scan t1)) = false) by (apply Nat.ltb_ge; lia).
      rewrite L. replace (List.length (scan t1) + k - List.length (scan t1))%nat with k by lia. reflexivity.
  - (* Prefix *)
    cbn [fixup scan]. rewrite IHt. cbn [fst snd]. destruct act; [|reflexivity].
    destruct (target (scan t)); reflexivity.
  - cbn [fixup scan]. rewrite IHt. cbn [fst snd]. destruct act; [|reflexivity].
    destruct (target (scan t)); reflexivity.
  - (* Call *)
    cbn [fixup scan]. rewrite IHt1. cbn [fst snd]. rewrite IHt2. cbn [fst snd].
    rewrite forallb_app, target_app. destruct act; [|reflexivity]. cbn [andb].
    destruct (target (scan t1)) as [k|] eqn:E1.
    + rewrite (target_neutral (scan t1)) by congruence.
      cbn [rewrite_at]. pose proof (target_lt _ _ E1) as L. apply Nat.ltb_lt in L. rewrite L. reflexivity.
    + destruct (forallb is_neutral (scan t1)); [|reflexivity].
      destruct (target (scan t2)) as [k|]; [|reflexivity]. cbn [option_map rewrite_at].
      assert (L : Nat.ltb (List.length (scan t1) + k) (List.length (scan t1)) = false) by (apply Nat.ltb_ge; lia).
      rewrite L. replace (List.length (scan t1) + k - List.length (scan t1))%nat with k by lia. reflexivity.
Qed.

(* the operand that is compiled (and left in the instruction) for a text without '(' and ':' *)
Lemma fixup_first_label_number t :
  is_toplabel t = false ->
  br_operand false t = match target (scan t) with Some k => rewrite_at k t | None => t end.
Proof.
  intros H. rewrite br_operand_nontop by exact H. rewrite fix_inplace_nontop by exact H.
  rewrite fixup_spec. reflexivity.
Qed.

(* with '(' or ':' in the text nothing is rewritten *)
Lemma fixup_not_with_parens t : is_toplabel t = false -> br_operand true t = t.
Proof. intros H. rewrite br_operand_nontop by exact H. rewrite fix_inplace_nontop by exact H. reflexivity. Qed.

(* [rewrite_at k] touches the k-th leaf only: the leaves afterwards are the old ones with the k-th
   replaced by its label form, so every other Number is still that Number *)
Lemma scan_nonempty t : scan t <> [].
Proof.
  induction t; simpl; try discriminate; auto.
  - destruct (scan t1); [contradiction|discriminate].
  - destruct (scan t1); [contradiction|discriminate].
Qed.

Lemma rewrite_at_scan t : forall k, (k < List.length (scan t))%nat ->
  scan (rewrite_at k t) = firstn k (scan t) ++ as_label (nth k (scan t) Dot) :: skipn (S k) (scan t).
Proof.
  induction t; intros k Hk; try (simpl in Hk; assert (k = O) by lia; subst k; reflexivity).
  - (* Infix *)
    cbn [scan] in *. rewrite app_length in Hk. cbn [rewrite_at].
    destruct (Nat.ltb k (List.length (scan t1))) eqn:L.
    + apply Nat.ltb_lt in L. cbn [scan]. rewrite (IHt1 k L).
      rewrite firstn_app, skipn_app, app_nth1 by exact L.
      replace (k - List.length (scan t1))%nat with O by lia.
      replace (S k - List.length (scan t1))%nat with O by lia. cbn [firstn skipn].
      rewrite app_nil_r, <- app_assoc. reflexivity.
    + apply Nat.ltb_ge in L. cbn [scan]. rewrite (IHt2 (k - List.length (scan t1))%nat) by lia.
      rewrite firstn_app, skipn_app, app_nth2 by exact L.
      rewrite (firstn_all2 (scan t1)) by lia. rewrite (skipn_all2 (scan t1)) by lia.
      replace (S k - List.length (scan t1))%nat with (S (k - List.length (scan t1))) by lia.
      cbn [app]. rewrite <- app_assoc. reflexivity.
  - cbn [scan rewrite_at] in *. apply IHt. exact Hk.
  - cbn [scan rewrite_at] in *. apply IHt. exact Hk.
  - (* Call *)
    cbn [scan] in *. rewrite app_length in Hk. cbn [rewrite_at].
    destruct (Nat.ltb k (List.length (scan t1))) eqn:L.
    + apply Nat.ltb_lt in L. cbn [scan]. rewrite (IHt1 k L).
      rewrite firstn_app, skipn_app, app_nth1 by exact L.
      replace (k - List.length (scan t1))%nat with O by lia.
      replace (S k - List.length (scan t1))%nat with O by lia. cbn [firstn skipn].
      rewrite app_nil_r, <- app_assoc. reflexivity.
    + apply Nat.ltb_ge in L. cbn [scan]. rewrite (IHt2 (k - List.length (scan t1))%nat) by lia.
      rewrite firstn_app, skipn_app, app_nth2 by exact L.
      rewrite (firstn_all2 (scan t1)) by lia. rewrite (skipn_all2 (scan t1)) by lia.
      replace (S k - List.length (scan t1))%nat with (S (k - List.length (scan t1))) by lia.
      cbn [app]. rewrite <- app_assoc. reflexivity.
Qed.

(* the leaf found by [target] is a label-shaped number, everything before it is neutral *)
Lemma target_sound l k : target l = Some k ->
  is_label_number (nth k l Dot) = true /\ forallb is_neutral (firstn k l) = true.
Proof.
  revert k. induction l as [|x r IH]; intros k H; simpl in H; [discriminate|].
  destruct (is_label_number x) eqn:E1; [inversion H; subst; simpl; auto|].
  destruct (is_stop x) eqn:E2; [discriminate|].
  destruct (target r) as [j|]; simpl in H; [|discriminate]. inversion H; subst.
  destruct (IH j eq_refl) as [A B]. simpl. split; [exact A|]. unfold is_neutral at 1. rewrite E1, E2. exact B.
Qed.

(* no rewriting exactly when a symbol or '.' comes before every label-shaped number (or there is none) *)
Lemma target_none l : target l = None <->
  (forall k, is_label_number (nth k l Dot) = true -> (k < List.length l)%nat -> exists j, (j < k)%nat /\ is_stop (nth j l Dot) = true).
Proof.
  induction l as [|x r IH]; simpl.
  - split; [intros _ k _ Hk; lia | reflexivity].
  - destruct (is_label_number x) eqn:E1.
    + split; [discriminate|]. intros H. destruct (H O E1 ltac:(lia)) as [j [Hj _]]. lia.
    + destruct (is_stop x) eqn:E2.
      * split; [|reflexivity]. intros _ k Hk Hl. destruct k as [|k]; [congruence|]. exists O. split; [lia | exact E2].
      * destruct (target r) as [j|] eqn:Et; simpl.
        -- split; [discriminate|]. intros H. exfalso.
           assert (N : Some j = None); [|discriminate].
           apply (proj2 IH). intros k Hk Hl. destruct (H (S k) Hk ltac:(lia)) as [i [Hi Hs]].
           destruct i as [|i]; [simpl in Hs; congruence|]. exists i. split; [lia | exact Hs].
        -- split; [|reflexivity]. intros _ k Hk Hl. destruct k as [|k]; [congruence|].
           destruct (proj1 IH eq_refl k Hk ltac:(lia)) as [i [Hi Hs]]. exists (S i). split; [lia | exact Hs].
Qed.

Lemma bare_number_both bits uns txt env dot rel r v b8 rep :
  br_operand txt (Num r v true b8 rep) = Sym r true
  /\ enc_of (compile_br bits uns txt env dot rel (Num r v true b8 rep))
     = enc_of (compile_br bits uns txt env dot rel (Sym r true)).
Proof. split; [apply bare_number_operand | apply bare_number_is_local_label]. Qed.
