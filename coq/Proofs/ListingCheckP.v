(* Proofs/ListingCheckP.v -- soundness of the executable judge Spec.Listing.check_listing:
   a text it accepts is a listing of the given symbols in the sense of is_listing (C19). *)
From Coq Require Import String Ascii List ZArith NArith Bool Lia ZifyBool Sorted Permutation.
From Verif Require Import Spec.Listing Proofs.ListingP.
Import ListNotations.
Open Scope string_scope.
Local Arguments Z.mul : simpl never.
Local Arguments Z.add : simpl never.
Local Arguments Z.of_N : simpl never.
Local Arguments Z.ltb : simpl never.
Local Arguments Z.eqb : simpl never.
Local Arguments N.ltb : simpl never.
Local Arguments N.leb : simpl never.
Local Arguments N.eqb : simpl never.
Local Arguments N.sub : simpl never.
Local Arguments String.eqb : simpl never.

Lemma N_of_ascii_inj' a b : N_of_ascii a = N_of_ascii b -> a = b.
Proof. intros H. rewrite <- (ascii_N_embedding a), <- (ascii_N_embedding b). congruence. Qed.

Lemma str_leb_le s : forall t, str_leb s t = true -> str_le s t.
Proof.
  induction s as [|a s IH]; intros t H; [constructor|].
  destruct t as [|b t]; simpl in H; [discriminate|].
  destruct (N_of_ascii a <? N_of_ascii b)%N eqn:E1.
  - apply str_le_lt. lia.
  - destruct (N_of_ascii a =? N_of_ascii b)%N eqn:E2; [|discriminate].
    assert (a = b) by (apply N_of_ascii_inj'; lia). subst b. apply str_le_eq. apply IH. exact H.
Qed.

Lemma line_leb_le a b : line_leb a b = true -> line_le a b.
Proof.
  unfold line_leb, line_le. intros H. apply orb_prop in H. destruct H as [H|H].
  - left. lia.
  - apply andb_prop in H. destruct H as [H1 H2]. right. split; [lia | apply str_leb_le; exact H2].
Qed.

Lemma sortedb_sorted ls : sortedb ls = true -> Sorted line_le ls.
Proof.
  induction ls as [|a r IH]; intros H; [constructor|].
  destruct r as [|b r'].
  - repeat constructor.
  - simpl in H. apply andb_prop in H. destruct H as [H1 H2].
    constructor; [apply IH; exact H2|]. constructor. apply line_leb_le. exact H1.
Qed.

Lemma sym_eqb_eq a b : sym_eqb a b = true -> a = b.
Proof.
  unfold sym_eqb. intros H. apply andb_prop in H. destruct H as [H H3].
  apply andb_prop in H. destruct H as [H1 H2].
  apply String.eqb_eq in H1. apply String.eqb_eq in H2. apply Z.eqb_eq in H3.
  destruct a, b; simpl in *; congruence.
Qed.

Lemma sym_eqb_refl a : sym_eqb a a = true.
Proof. unfold sym_eqb. rewrite !String.eqb_refl, Z.eqb_refl. reflexivity. Qed.

Lemma count_sym_app x l1 l2 : count_sym x (l1 ++ l2) = (count_sym x l1 + count_sym x l2)%nat.
Proof. induction l1 as [|y r IH]; simpl; [reflexivity|]. rewrite IH. lia. Qed.

Lemma count_sym_pos x l : (0 < count_sym x l)%nat -> In x l.
Proof.
  induction l as [|y r IH]; simpl; [lia|].
  destruct (sym_eqb x y) eqn:E.
  - intros _. left. symmetry. apply sym_eqb_eq. exact E.
  - intros H. right. apply IH. lia.
Qed.

Lemma perm_b_sound l1 : forall l2, perm_b l1 l2 = true -> Permutation l1 l2.
Proof.
  unfold perm_b. induction l1 as [|x r IH]; intros l2 H; apply andb_prop in H; destruct H as [HL HC].
  - destruct l2; [constructor | discriminate].
  - simpl in HC. apply andb_prop in HC. destruct HC as [Hx Hr].
    rewrite sym_eqb_refl in Hx. apply Nat.eqb_eq in Hx.
    assert (Hin : In x l2) by (apply count_sym_pos; lia).
    apply in_split in Hin. destruct Hin as (a & b & ->).
    apply Permutation_cons_app. apply IH. apply andb_true_intro. split.
    + apply Nat.eqb_eq in HL. apply Nat.eqb_eq. rewrite app_length in *. simpl in HL. lia.
    + rewrite forallb_forall in *. intros y Hy. specialize (Hr y Hy).
      apply Nat.eqb_eq in Hr. apply Nat.eqb_eq.
      rewrite count_sym_app in *. simpl in Hr. destruct (sym_eqb y x); lia.
Qed.

Lemma str_list_eqb_eq a : forall b, str_list_eqb a b = true -> a = b.
Proof.
  induction a as [|x xs IH]; intros [|y ys] H; simpl in H; try discriminate; [reflexivity|].
  apply andb_prop in H. destruct H as [H1 H2]. apply String.eqb_eq in H1. f_equal; [exact H1 | apply IH; exact H2].
Qed.

Lemma listing_ofb_sound syms bs : listing_ofb syms bs = true -> listing_of syms bs.
Proof.
  unfold listing_ofb, listing_of. intros H. apply andb_prop in H. destruct H as [H1 H2].
  split; [apply str_list_eqb_eq; exact H1|].
  rewrite forallb_forall in H2. rewrite Forall_forall. intros b Hb. specialize (H2 b Hb).
  unfold block_okb in H2. apply andb_prop in H2. destruct H2 as [P S].
  split; [apply perm_b_sound; exact P | apply sortedb_sorted; exact S].
Qed.

(* fields *)
Lemma parse_octal_digits_nonneg s : forall acc a, (0 <= acc)%Z -> parse_octal_digits acc s = Some a -> (0 <= a)%Z.
Proof.
  induction s as [|c r IH]; intros acc a Hacc H; simpl in H.
  - inversion H. lia.
  - unfold octal_digit_value in H.
    destruct ((48 <=? N_of_ascii c)%N && (N_of_ascii c <=? 55)%N) eqn:E; [|discriminate].
    eapply IH; [|exact H]. lia.
Qed.

Lemma field_value_sound s v : field_value s = Some v -> field_for v s.
Proof.
  unfold field_value. destruct (strip_sign s) as [neg ds] eqn:SS.
  destruct (parse_octal_digits 0 ds) as [a|] eqn:P; [|discriminate].
  destruct ((6 <=? String.length ds)%nat
            && ((String.length ds <=? 6)%nat || match ds with String c _ => negb (Ascii.eqb c "0") | "" => true end)
            && (if neg then (0 <? a)%Z else true)) eqn:C; [|discriminate].
  intros H. inversion H; subst v. clear H.
  apply andb_prop in C. destruct C as [C C3]. apply andb_prop in C. destruct C as [C1 C2].
  pose proof (parse_octal_digits_nonneg ds 0 a ltac:(lia) P) as NN.
  assert (Es : s = (if neg then "-" else "") ++ ds).
  { unfold strip_sign in SS. destruct s as [|c r]; [inversion SS; reflexivity|].
    destruct (Ascii.eqb_spec c "-"); inversion SS; subst; reflexivity. }
  exists ds. destruct neg.
  - replace (- a <? 0)%Z with true by lia. split; [exact Es|].
    split; [rewrite P; f_equal; lia|]. split; [apply Nat.leb_le; exact C1|].
    intros L c r E. subst ds. apply orb_prop in C2. destruct C2 as [C2|C2].
    + apply Nat.leb_le in C2. lia.
    + destruct (Ascii.eqb_spec c "0"); [discriminate | assumption].
  - replace (a <? 0)%Z with false by lia. split; [exact Es|].
    split; [rewrite P; f_equal; lia|]. split; [apply Nat.leb_le; exact C1|].
    intros L c r E. subst ds. apply orb_prop in C2. destruct C2 as [C2|C2].
    + apply Nat.leb_le in C2. lia.
    + destruct (Ascii.eqb_spec c "0"); [discriminate | assumption].
Qed.

Lemma values_of_renders ls : forall vs, values_of ls = Some vs -> renders_lines vs (unparse_lines ls).
Proof.
  induction ls as [|[fld n] r IH]; intros vs H; simpl in H.
  - inversion H. constructor.
  - destruct (field_value fld) as [v|] eqn:F; [|discriminate].
    destruct (values_of r) as [vs'|] eqn:V; [|discriminate].
    inversion H; subst vs. simpl. apply rl_cons; [apply field_value_sound; exact F | apply IH; reflexivity].
Qed.

Lemma blocks_of_renders raw : forall bs, blocks_of raw = Some bs -> renders bs (unparse raw).
Proof.
  induction raw as [|[f ls] r IH]; intros bs H; simpl in H.
  - inversion H. constructor.
  - destruct (values_of ls) as [vs|] eqn:V; [|discriminate].
    destruct (blocks_of r) as [bs'|] eqn:B; [|discriminate].
    inversion H; subst bs. simpl. apply r_cons; [apply values_of_renders; exact V | apply IH; reflexivity].
Qed.

Lemma parse_listing_renders text bs : parse_listing text = Some bs -> renders bs text.
Proof.
  unfold parse_listing. destruct (parse_blocks (S (String.length text)) text) as [raw|]; [|discriminate].
  destruct (String.eqb_spec (unparse raw) text) as [E|]; [|discriminate].
  intros H. rewrite <- E. apply blocks_of_renders. exact H.
Qed.

Lemma check_listing_sound syms text : check_listing syms text = true -> is_listing syms text.
Proof.
  unfold check_listing. destruct (parse_listing text) as [bs|] eqn:P; [|discriminate].
  intros H. exists bs. split; [apply listing_ofb_sound; exact H | apply parse_listing_renders; exact P].
Qed.

(* a text has at most one reading of each field: the value is determined *)
Lemma field_for_unique v w s : field_for v s -> field_for w s -> v = w.
Proof.
  intros Hv Hw. apply field_for_parse in Hv. apply field_for_parse in Hw. congruence.
Qed.
